(* Soundness of the checker of C08 on the implementation's own numbers (DiscImplCheck.v):
   it accepts exactly when the statement of the property holds of the observed values,
   a reported location is a real violation, and it demands nothing more than the
   property (a correct implementation passes, in exact arithmetic, for every matrix). *)
From Coq Require Import List ZArith QArith Bool Arith Lia.
From LMBase Require Import Res ListX IEEE.
From LMDisc Require Import DiscModel DiscProofs DiscImplCheck.
Import ListNotations.

(* the statement of the property on observed numbers *)
Definition pos_ok {T} (N : NumOps T) (thr : list (T * Z)) (o : Z * T * Z) : Prop :=
  (snd o <= fst (fst o))%Z /\
  Forall (fun p => n_le N (fst p) (snd (fst o)) = true -> (snd p <= fst (fst o))%Z) thr.

Definition impl_prop {T} (N : NumOps T) (thr : list (T * Z)) (obs : list (Z * T * Z)) : Prop :=
  Forall (pos_ok N thr) obs.

Lemma check_thr_spec {T} (N : NumOps T) b real p :
  check_thr N b real p = true <-> (n_le N (fst p) real = true -> (snd p <= b)%Z).
Proof.
  unfold check_thr. destruct (n_le N (fst p) real); cbn [implb].
  - rewrite Z.leb_le. split; [intros H _; exact H|intros H; apply H; reflexivity].
  - split; [intros _ H; discriminate|reflexivity].
Qed.

Lemma first_bad_thr_none {T} (N : NumOps T) b real thr : forall j,
  first_bad_thr N b real j thr = None <->
  Forall (fun p => n_le N (fst p) real = true -> (snd p <= b)%Z) thr.
Proof.
  induction thr as [|p thr IH]; intros j; cbn [first_bad_thr].
  - split; [constructor|reflexivity].
  - destruct (check_thr N b real p) eqn:Hc.
    + rewrite IH. split.
      * intros H. constructor; [apply check_thr_spec; exact Hc|exact H].
      * intros H. inversion H; assumption.
    + split; [discriminate|]. intros H. inversion H as [|? ? Hp _]; subst.
      apply check_thr_spec in Hp. rewrite Hp in Hc. discriminate.
Qed.

(* a reported threshold index is a violated threshold *)
Lemma first_bad_thr_some {T} (N : NumOps T) b real thr : forall j k,
  first_bad_thr N b real j thr = Some k ->
  exists p, nth_error thr (k - j) = Some p /\ (j <= k)%nat /\
            n_le N (fst p) real = true /\ (b < snd p)%Z.
Proof.
  induction thr as [|p thr IH]; intros j k H; cbn [first_bad_thr] in H; [discriminate|].
  destruct (check_thr N b real p) eqn:Hc.
  - destruct (IH _ _ H) as [q [Hq [Hjk [Hle Hlt]]]].
    exists q. replace (k - j)%nat with (S (k - S j)) by lia. cbn [nth_error].
    repeat split; try assumption; lia.
  - inversion H; subst k. exists p. rewrite Nat.sub_diag. cbn [nth_error].
    unfold check_thr in Hc. destruct (n_le N (fst p) real); cbn [implb] in Hc; [|discriminate].
    apply Z.leb_gt in Hc. repeat split; try reflexivity; try lia.
Qed.

Lemma first_bad_impl_none {T} (N : NumOps T) thr obs : forall i,
  first_bad_impl N i thr obs = None <-> impl_prop N thr obs.
Proof.
  unfold impl_prop. induction obs as [|[[b real] sr] obs IH]; intros i; cbn [first_bad_impl].
  - split; [constructor|reflexivity].
  - destruct (sr <=? b)%Z eqn:Hm.
    + destruct (first_bad_thr N b real 0 thr) eqn:Ht.
      * split; [discriminate|]. intros H. inversion H as [|? ? [_ Hp] _]; subst. cbn [fst snd] in Hp.
        apply (first_bad_thr_none N b real thr 0) in Hp. rewrite Hp in Ht. discriminate.
      * rewrite IH. apply first_bad_thr_none in Ht. apply Z.leb_le in Hm. split.
        -- intros H. constructor; [split; cbn [fst snd]; assumption|exact H].
        -- intros H. inversion H; assumption.
    + split; [discriminate|]. intros H. inversion H as [|? ? [Hp _] _]; subst. cbn [fst snd] in Hp.
      apply Z.leb_gt in Hm. lia.
Qed.

(* the checker accepts exactly when the statement holds of the observed numbers *)
Lemma check_C08_impl_sound {T} (N : NumOps T) thr obs :
  check_C08_impl N thr obs = true <-> impl_prop N thr obs.
Proof.
  unfold check_C08_impl. rewrite <- (first_bad_impl_none N thr obs 0).
  destruct (first_bad_impl N 0 thr obs); split; intros H; try reflexivity; discriminate.
Qed.

(* a reported location is a real violation *)
Lemma first_bad_impl_some {T} (N : NumOps T) thr obs : forall i f,
  first_bad_impl N i thr obs = Some f ->
  match f with
  | FailPos k => exists b real sr, nth_error obs (k - i) = Some (b, real, sr) /\ (i <= k)%nat /\ (b < sr)%Z
  | FailThr k j => exists b real sr t st,
      nth_error obs (k - i) = Some (b, real, sr) /\ (i <= k)%nat /\ nth_error thr j = Some (t, st) /\
      n_le N t real = true /\ (b < st)%Z
  end.
Proof.
  induction obs as [|[[b real] sr] obs IH]; intros i f H; cbn [first_bad_impl] in H; [discriminate|].
  destruct (sr <=? b)%Z eqn:Hm.
  - destruct (first_bad_thr N b real 0 thr) eqn:Ht.
    + inversion H; subst f. destruct (first_bad_thr_some N b real thr 0 n Ht) as [[t st] [Hn [_ [Hle Hlt]]]].
      rewrite Nat.sub_0_r in Hn. exists b, real, sr, t, st. rewrite Nat.sub_diag. cbn [nth_error fst snd] in *.
      repeat split; try assumption; lia.
    + specialize (IH _ _ H). destruct f as [k|k j].
      * destruct IH as [b' [r' [s' [Hn [Hik Hlt]]]]]. exists b', r', s'.
        replace (k - i)%nat with (S (k - S i)) by lia. cbn [nth_error]. repeat split; try assumption; lia.
      * destruct IH as [b' [r' [s' [t [st [Hn [Hik [Hj [Hle Hlt]]]]]]]]]. exists b', r', s', t, st.
        replace (k - i)%nat with (S (k - S i)) by lia. cbn [nth_error]. repeat split; try assumption; lia.
  - inversion H; subst f. exists b, real, sr. rewrite Nat.sub_diag. cbn [nth_error].
    apply Z.leb_gt in Hm. repeat split; try reflexivity; lia.
Qed.

(* when the observed images are those of the model's scale, the checker implies the
   model-based one (check_C08 of DiscModel.v) *)
Lemma check_C08_impl_model {T} (N : NumOps T) factor offset thr obs :
  Forall (fun o => snd o = scale_with N factor offset (snd (fst o))) obs ->
  check_C08_impl N thr obs = true ->
  check_C08 N factor offset (map fst obs) = true.
Proof.
  intros Hs Hc. apply check_C08_complete. apply check_C08_impl_sound in Hc. unfold impl_prop in Hc.
  induction obs as [|[[b real] sr] obs IH]; cbn [map]; [constructor|].
  inversion Hs as [|? ? Hs1 Hs2]; subst. inversion Hc as [|? ? [Hc1 _] Hc2]; subst.
  cbn [fst snd] in *. constructor; [cbn [fst snd]; rewrite <- Hs1; exact Hc1|exact (IH Hs2 Hc2)].
Qed.

(* PartialOrd of the exact instance is xq_le *)
Lemma n_le_xq s t : n_le xq_ops s t = true -> xq_le s t.
Proof.
  unfold n_le, xq_le. cbn [n_cmp xq_ops]. destruct (xq_cmp s t) as [[| |]|]; intros H; try exact I; discriminate.
Qed.

(* The checker demands nothing more than the property: in exact arithmetic, for every
   matrix with finite entries over the non-wildcard symbols, the numbers of a correct
   implementation (byte score = saturating sum of the discrete cells of the window, real
   score, images under the matrix's scale) pass, for any windows and any thresholds. *)
Theorem impl_check_holds_exact (K : nat) (m : list (list xq)) (d : @dmat xq)
        (ws : list (list nat)) (obs : list (Z * xq * Z)) (thr : list (xq * Z)) :
  Forall (fun row => Forall xq_finite (nonwild K row)) m ->
  to_discrete xq_ops K m = Ok d ->
  Forall2 (fun w o => real_wscore xq_ops m w = Ok (snd (fst o)) /\
                      disc_wscore (d_data d) w = Ok (fst (fst o)) /\
                      snd o = scale xq_ops d (snd (fst o))) ws obs ->
  Forall (fun p => snd p = scale xq_ops d (fst p)) thr ->
  check_C08_impl xq_ops thr obs = true.
Proof.
  intros Hfin Hd Hobs Hthr. apply check_C08_impl_sound. unfold impl_prop.
  induction Hobs as [|w [[b real] sr] ws obs [Hr [Hb Hs]] _ IH]; [constructor|].
  cbn [fst snd] in *. constructor; [|exact IH]. split; cbn [fst snd].
  - rewrite Hs. exact (discrete_overestimates K m d w real b Hfin Hd Hr Hb).
  - clear IH. induction Hthr as [|[t st] thr Hp _ IHt]; [constructor|]. cbn [fst snd] in *.
    constructor; [|exact IHt]. cbn [fst snd]. intros Hle. rewrite Hp.
    exact (threshold_transfer K m d w real t b Hfin Hd Hr Hb (n_le_xq _ _ Hle)).
Qed.

(* the binary32 comparison of the checker is IEEE.F32.le *)
Lemma f32_le_is_le a b : f32_le a b = F32.le a b.
Proof. reflexivity. Qed.
