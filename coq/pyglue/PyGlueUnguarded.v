(* The entry points of the glue model that validate before they call the core, with every validation
   behind a switch.  With all switches on they ARE the model (C17.v: py_guarded_variants_are_the_model,
   by computation); with one switch off they are the model with that guard deleted.  Used only to show
   that the no-panic theorems of C17.v depend on each guard (py_no_panic_needs_every_guard_refuted):
   not extracted, not part of the correspondence run. *)
From Coq Require Import List ZArith Bool.
From LMBase Require Import ListX IEEE.
From LMPyGlue Require Import PyGlueModel.
Import ListNotations.
Open Scope Z_scope.

Record guards := {
  g_not_empty : bool;      (* ensure_not_empty before configure / score / scan *)
  g_configure : bool;      (* configure the sequence for the matrix before score / scan *)
  g_ordered : bool;        (* ensure_ordered(false) before max_score / scan *)
  g_ordered_dist : bool;   (* ensure_ordered(true) before the score distribution is built *)
  g_finite : bool;         (* ensure_finite before TFM-PVALUE *)
  g_score_arg : bool;      (* pvalue(): the score is not NaN (nor infinite for TFM-PVALUE) *)
  g_pvalue_range : bool;   (* score(): the p-value lies in [0, 1] *)
  g_base : bool            (* log_odds(): the base is finite, positive, different from one *)
}.

Definition all_on : guards := {| g_not_empty := true; g_configure := true; g_ordered := true; g_ordered_dist := true;
                                 g_finite := true; g_score_arg := true; g_pvalue_range := true; g_base := true |}.

Section Unguarded.
  Variables CM FM WM SM SQ SC : Type.
  Variable K : core CM FM WM SM SQ SC.
  Variable g : guards.

  Notation obj := (obj CM WM SM SQ SC).
  Notation result := (result CM WM SM SQ SC).

  Definition calculate_g (a : abc) (s : SM) (aq : abc) (q : SQ) : outcome obj * SQ :=
    if g_not_empty g && sm_empty (c_sm_cells K s) then (PyExc ValueError, q) else
    if abc_eqb a aq then
      if g_configure g then
        match c_configure K q s with
        | COk q' => (sc <~ liftp (c_score K s q') ;; Value (OScores _ _ _ _ _ sc), q')
        | _ => (Panic, q)
        end
      else (sc <~ liftp (c_score K s q) ;; Value (OScores _ _ _ _ _ sc), q)
    else (PyExc ValueError, q).

  Definition scan_g (a : abc) (s : SM) (aq : abc) (q : SQ) (t b : Z) : outcome obj * SQ :=
    if g_ordered g && negb (ordered_ok false (c_sm_cells K s)) then (PyExc ValueError, q) else
    match a, aq with
    | Dna, Dna =>
        if g_not_empty g && sm_empty (c_sm_cells K s) then (PyExc ValueError, q) else
        if g_configure g then
          match c_configure K q s with
          | COk q' => (h <~ liftp (c_scan K s q' t b) ;; Value (OScanner _ _ _ _ _ h), q')
          | _ => (Panic, q)
          end
        else (h <~ liftp (c_scan K s q t b) ;; Value (OScanner _ _ _ _ _ h), q)
    | Protein, Protein => (PyExc ValueError, q)
    | _, _ => (PyExc ValueError, q)
    end.

  Definition max_score_g (s : SM) : outcome result :=
    if negb (g_ordered g) || ordered_ok false (c_sm_cells K s)
    then m <~ liftp (c_max_score K s) ;; Value (RF32 _ _ _ _ _ m)
    else PyExc ValueError.

  Definition dist_g (s : SM) : outcome obj :=
    if negb (g_ordered_dist g) || ordered_ok true (c_sm_cells K s)
    then d <~ liftp (c_dist_sf K s) ;; Value (ODist _ _ _ _ _ d)
    else PyExc ValueError.

  Definition pvalue_g (s : SM) (x : pyval) (method : option pyval) : outcome result :=
    v <~ extract_f64 x ;;
    m <~ method_arg method ;;
    if g_score_arg g && (f64_is_nan v || (f64_is_inf v && zlist_eqb m str_tfmpvalue)) then PyExc ValueError else
    if zlist_eqb m str_tfmpvalue then
      if negb (g_finite g) || finite_ok (c_sm_cells K s) then p <~ liftp (c_tfm_pvalue K s v) ;; Value (RF64 _ _ _ _ _ p)
      else PyExc ValueError
    else if zlist_eqb m str_meme then
      if negb (g_ordered_dist g) || ordered_ok true (c_sm_cells K s)
      then p <~ liftp (c_dist_pvalue K s (f64_to_f32_bits v)) ;; Value (RF64 _ _ _ _ _ p)
      else PyExc ValueError
    else PyExc ValueError.

  Definition score_g (s : SM) (x : pyval) (method : option pyval) : outcome result :=
    v <~ extract_f64 x ;;
    m <~ method_arg method ;;
    if g_pvalue_range g && negb (pvalue_in_range v) then PyExc ValueError else
    if zlist_eqb m str_tfmpvalue then
      if negb (g_finite g) || finite_ok (c_sm_cells K s) then p <~ liftp (c_tfm_score K s v) ;; Value (RF64 _ _ _ _ _ p)
      else PyExc ValueError
    else if zlist_eqb m str_meme then
      if negb (g_ordered_dist g) || ordered_ok true (c_sm_cells K s)
      then p <~ liftp (c_dist_score K s v) ;; Value (RF64 _ _ _ _ _ (f32_to_f64_bits p))
      else PyExc ValueError
    else PyExc ValueError.

  Definition log_odds_g (a : abc) (w : WM) (bg base : option pyval) : outcome obj :=
    b <~ match base with None => Value f32_two | Some v => extract_f32 v end ;;
    if g_base g && base_invalid b then PyExc ValueError else
    gb <~ glue_background K a bg ;;
    w' <~ (if f32s_eqb gb (c_w_bg K w) then Value w else liftp (c_rescale K w gb)) ;;
    s <~ liftp (c_to_scoring_base K w' b) ;;
    Value (OScoring _ _ _ _ _ a s).
End Unguarded.

Arguments calculate_g {CM FM WM SM SQ SC} K g.
Arguments scan_g {CM FM WM SM SQ SC} K g.
Arguments max_score_g {CM FM WM SM SQ SC} K g.
Arguments dist_g {CM FM WM SM SQ SC} K g.
Arguments pvalue_g {CM FM WM SM SQ SC} K g.
Arguments score_g {CM FM WM SM SQ SC} K g.
Arguments log_odds_g {CM FM WM SM SQ SC} K g.
