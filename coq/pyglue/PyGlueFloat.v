(* Two facts about the binary64 -> binary32 conversion of the glue (obj.extract::<f64>()? as f32),
   used by the no-panic lemmas of PyGlueProofs.v: a NaN binary32 only comes from a NaN binary64. *)
From Coq Require Import ZArith Bool.
From Flocq Require Import Core BinarySingleNaN Binary Bits.
From LMBase Require Import IEEE.
From LMPyGlue Require Import PyGlueModel.

Lemma f32_bits_roundtrip_nan (y : F32.t) : f32_is_nan (F32.to_bits y) = F32.is_nan y.
Proof.
  unfold f32_is_nan, F32.of_bits, F32.to_bits, f32_of_bits, f32_to_bits, b32_of_bits, bits_of_b32.
  rewrite binary_float_of_bits_of_binary_float.
  rewrite B2BSN_BSN2B. reflexivity.
Qed.

Lemma f64_to_f32_not_nan v : f64_is_nan v = false -> f32_is_nan (f64_to_f32_bits v) = false.
Proof.
  unfold f64_to_f32_bits, f64_is_nan. intros H. rewrite f32_bits_roundtrip_nan.
  unfold F64.to_f32, f64_to_f32. destruct (F64.of_bits v) as [s| s| |s m e He]; try reflexivity; [discriminate|].
  apply BinarySingleNaN.is_nan_binary_normalize.
Qed.
