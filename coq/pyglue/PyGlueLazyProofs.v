(* The lazy reading of the Python Scanner (PyGlueLazy.v) and the eager one (PyGlueModel.run_call)
   give the same outcome for every call of every history, provided a successful core scan is not
   changed by further configure() calls on the sequence.  Lemmas for C17.v. *)
From Coq Require Import List ZArith Bool Lia.
From LMBase Require Import ListX IEEE.
From LMPyGlue Require Import PyGlueModel PyGlueLazy.
Import ListNotations.
Open Scope Z_scope.

Local Arguments OScoring {CM WM SM SQ SC}.
Local Arguments OSeq {CM WM SM SQ SC}.
Local Arguments OScanner {CM WM SM SQ SC}.
Local Arguments RObj {CM WM SM SQ SC}.
Local Arguments RHits {CM WM SM SQ SC}.
Local Arguments Done {CM WM SM SQ SC}.
Local Arguments Unbound {CM WM SM SQ SC}.

Section LazyProofs.
  Variables CM FM WM SM SQ SC : Type.
  Variable K : core CM FM WM SM SQ SC.

  Notation obj := (obj CM WM SM SQ SC).
  Notation state := (state CM WM SM SQ SC).
  Notation step := (step CM WM SM SQ SC).
  Notation lookup := (lookup CM WM SM SQ SC).
  Notation unbind := (unbind CM WM SM SQ SC).
  Notation bind_slot := (bind_slot CM WM SM SQ SC).
  Notation store := (store CM WM SM SQ SC).
  Notation lscan := (lscan SM SQ).
  Notation rebinds := (rebinds).
  Notation touches := (touches K).
  Notation carry := (carry K).

  (* the core fact (C02 + C04): further look-ahead rows do not change the hits of a scan *)
  Definition scan_stable : Prop :=
    forall s q t b h s' q',
      c_scan K s q t b = COk h -> c_configure K q s' = COk q' -> c_scan K s q' t b = COk h.

  Hypothesis Hstable : scan_stable.

  (* ---------------------------------------------------------------- slots *)

  Lemma lookup_unbind_ne (st : state) n m : n <> m -> lookup (unbind st n) m = lookup st m.
  Proof.
    intros Hnm. induction st as [|[k o] r IH]; [reflexivity|]. cbn [PyGlueModel.unbind PyGlueModel.lookup].
    destruct (Nat.eqb k n) eqn:E1.
    - apply Nat.eqb_eq in E1. subst k. rewrite IH.
      destruct (Nat.eqb n m) eqn:E2; [apply Nat.eqb_eq in E2; congruence | reflexivity].
    - cbn [PyGlueModel.lookup]. rewrite IH. reflexivity.
  Qed.

  Lemma lookup_bind_ne (st : state) n o m : n <> m -> lookup (bind_slot st n o) m = lookup st m.
  Proof.
    intros Hnm. unfold PyGlueModel.bind_slot. cbn [PyGlueModel.lookup].
    destruct (Nat.eqb n m) eqn:E; [apply Nat.eqb_eq in E; congruence | reflexivity].
  Qed.

  Lemma lookup_bind_eq (st : state) n o : lookup (bind_slot st n o) n = Some o.
  Proof. unfold PyGlueModel.bind_slot. cbn [PyGlueModel.lookup]. rewrite Nat.eqb_refl. reflexivity. Qed.

  Lemma store_ne (st : state) d o m : d <> m -> lookup (snd (store st d o)) m = lookup st m.
  Proof.
    intros Hd. destruct o; cbn [PyGlueModel.store snd];
      rewrite ?lookup_bind_ne, ?lookup_unbind_ne by assumption; reflexivity.
  Qed.

  (* a call that is not next() / a loader step on slot m *)
  Definition not_step_on (c : call) (m : nat) : Prop :=
    match c with KNext n _ | KLoaderNext n _ => n <> m | _ => True end.

  Definition untouched (st : state) (c : call) (m : nat) : Prop :=
    match touches st c with Some (n, _) => n <> m | None => True end.

  (* frame: a call leaves alone every slot that it does not rebind, reconfigure or step *)
  Lemma frame (st : state) c m :
    rebinds c <> Some m -> untouched st c m -> not_step_on c m ->
    lookup (snd (run_call K st c)) m = lookup st m.
  Proof.
    intros Hr Ht Hs. unfold untouched in Ht.
    assert (Hd : forall d, rebinds c = Some d -> d <> m) by (intros d E; congruence).
    destruct c; cbn [PyGlueLazy.rebinds] in Hd; cbn [PyGlueLazy.touches] in Ht; cbn [not_step_on] in Hs;
      cbn [run_call].
    all: try (rewrite store_ne by (apply Hd; reflexivity); reflexivity).
    all: try (destruct (lookup st self) as [[]|]; cbn [snd];
              rewrite ?store_ne, ?lookup_unbind_ne by (try apply Hd; auto); reflexivity).
    - (* calculate *)
      destruct (lookup st self) as [[]|]; cbn [snd]; rewrite ?lookup_unbind_ne by (apply Hd; reflexivity); try reflexivity.
      destruct sequence as [ |b0|z0|bits0|cps0|bs0|l0|l0|kv0| |nq]; try (rewrite store_ne by (apply Hd; reflexivity); reflexivity).
      destruct (lookup st nq) as [[]|] eqn:E; cbn [snd];
        rewrite ?store_ne, ?lookup_unbind_ne by (apply Hd; reflexivity); try reflexivity.
      destruct (glue_calculate K a s a0 q) as [o q']. rewrite store_ne by (apply Hd; reflexivity).
      rewrite lookup_bind_ne, lookup_unbind_ne by exact Ht. reflexivity.
    - (* scan *)
      destruct pssm as [ |b1|z1|bits1|cps1|bs1|l1|l1|kv1| |np];
        destruct sequence as [ |b0|z0|bits0|cps0|bs0|l0|l0|kv0| |nq];
        try (rewrite store_ne by (apply Hd; reflexivity); reflexivity);
        try (destruct (lookup st np) as [o|]; cbn [snd];
             rewrite ?store_ne, ?lookup_unbind_ne by (apply Hd; reflexivity); reflexivity);
        try (destruct (lookup st nq) as [o|]; cbn [snd];
             rewrite ?store_ne, ?lookup_unbind_ne by (apply Hd; reflexivity); reflexivity).
      destruct (lookup st np) as [[]|], (lookup st nq) as [[]|]; cbn [snd];
        rewrite ?store_ne, ?lookup_unbind_ne by (apply Hd; reflexivity); try reflexivity.
      destruct (glue_scan_args thr bs) as [[t b]|e|]; rewrite ?store_ne by (apply Hd; reflexivity); try reflexivity.
      destruct (glue_scan K a s a0 q t b) as [o q']. rewrite store_ne by (apply Hd; reflexivity).
      rewrite lookup_bind_ne, lookup_unbind_ne by exact Ht. reflexivity.
    - (* next *)
      destruct (lookup st self) as [[]|]; try reflexivity.
      destruct (glue_next _ _ _ _ _ hits k) as [r rest]. cbn [snd].
      rewrite lookup_bind_ne, lookup_unbind_ne by exact Hs. reflexivity.
    - (* get motif *)
      destruct (lookup st self) as [[]|]; cbn [snd]; rewrite ?lookup_unbind_ne by (apply Hd; reflexivity); try reflexivity.
      destruct (motif_part _ _ _ _ _ m0 which); cbn [snd];
        rewrite ?store_ne, ?lookup_unbind_ne by (apply Hd; reflexivity); reflexivity.
    - (* load *)
      destruct (glue_load K file format protein) as [[]| |]; cbn [snd];
        rewrite ?lookup_bind_ne, ?lookup_unbind_ne by (apply Hd; reflexivity); reflexivity.
    - (* get loaded *)
      destruct (lookup st self) as [[]|]; cbn [snd]; rewrite ?lookup_unbind_ne by (apply Hd; reflexivity); try reflexivity.
      destruct (nth_error ms idx); cbn [snd]; rewrite ?lookup_unbind_ne by (apply Hd; reflexivity); try reflexivity.
      destruct (motif_part _ _ _ _ _ m0 which); cbn [snd];
        rewrite ?store_ne, ?lookup_unbind_ne by (apply Hd; reflexivity); reflexivity.
    - (* == *)
      destruct (lookup st self) as [o|]; try reflexivity.
      destruct other as [ |b0|z0|bits0|cps0|bs0|l0|l0|kv0| |nq]; try (destruct (glue_eq K o None); reflexivity).
      destruct (lookup st nq) as [o0|]; try reflexivity. destruct (glue_eq K o (Some o0)); reflexivity.
    - (* loader new *)
      destruct (lookup st file) as [[]|]; cbn [snd]; rewrite ?store_ne, ?lookup_unbind_ne by (apply Hd; reflexivity); reflexivity.
    - (* loader next *)
      destruct (lookup st self) as [[]|]; try reflexivity.
      destruct (lazy_take K a id calls k) as [items calls']. cbn [snd].
      rewrite lookup_bind_ne, lookup_unbind_ne by exact Hs. reflexivity.
  Qed.

End LazyProofs.
