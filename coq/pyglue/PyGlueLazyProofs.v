(* The lazy reading of the Python Scanner (PyGlueLazy.v) and the eager one (PyGlueModel.run_call)
   give the same outcome for every call of every history, provided a successful core scan is not
   changed by further configure() calls on the sequence.  Lemmas for C17.v. *)
From Coq Require Import List ZArith Bool Lia.
From LMBase Require Import ListX IEEE.
From LMPyGlue Require Import PyGlueModel PyGlueLazy.
Import ListNotations.
Open Scope Z_scope.

Local Arguments OScoring {CM WM SM SQ SC}.
Local Arguments OSeq {CM WM SM SQ SC}.
Local Arguments OScanner {CM WM SM SQ SC}.
Local Arguments RObj {CM WM SM SQ SC}.
Local Arguments RHits {CM WM SM SQ SC}.
Local Arguments Done {CM WM SM SQ SC}.
Local Arguments Unbound {CM WM SM SQ SC}.

Section LazyProofs.
  Variables CM FM WM SM SQ SC : Type.
  Variable K : core CM FM WM SM SQ SC.

  Notation obj := (obj CM WM SM SQ SC).
  Notation state := (state CM WM SM SQ SC).
  Notation step := (step CM WM SM SQ SC).
  Notation lookup := (lookup CM WM SM SQ SC).
  Notation unbind := (unbind CM WM SM SQ SC).
  Notation bind_slot := (bind_slot CM WM SM SQ SC).
  Notation store := (store CM WM SM SQ SC).
  Notation lscan := (lscan SM SQ).
  Notation rebinds := (rebinds).
  Notation touches := (touches K).
  Notation carry := (carry K).

  (* the core fact (C02 + C04): further look-ahead rows do not change the hits of a scan *)
  Definition scan_stable : Prop :=
    forall s q t b h s' q',
      c_scan K s q t b = COk h -> c_configure K q s' = COk q' -> c_scan K s q' t b = COk h.

  Hypothesis Hstable : scan_stable.

  (* ---------------------------------------------------------------- slots *)

  Lemma lookup_unbind_ne (st : state) n m : n <> m -> lookup (unbind st n) m = lookup st m.
  Proof.
    intros Hnm. induction st as [|[k o] r IH]; [reflexivity|]. cbn [PyGlueModel.unbind PyGlueModel.lookup].
    destruct (Nat.eqb k n) eqn:E1.
    - apply Nat.eqb_eq in E1. subst k. rewrite IH.
      destruct (Nat.eqb n m) eqn:E2; [apply Nat.eqb_eq in E2; congruence | reflexivity].
    - cbn [PyGlueModel.lookup]. rewrite IH. reflexivity.
  Qed.

  Lemma lookup_bind_ne (st : state) n o m : n <> m -> lookup (bind_slot st n o) m = lookup st m.
  Proof.
    intros Hnm. unfold PyGlueModel.bind_slot. cbn [PyGlueModel.lookup].
    destruct (Nat.eqb n m) eqn:E; [apply Nat.eqb_eq in E; congruence | reflexivity].
  Qed.

  Lemma lookup_bind_eq (st : state) n o : lookup (bind_slot st n o) n = Some o.
  Proof. unfold PyGlueModel.bind_slot. cbn [PyGlueModel.lookup]. rewrite Nat.eqb_refl. reflexivity. Qed.

  Lemma store_ne (st : state) d o m : d <> m -> lookup (snd (store st d o)) m = lookup st m.
  Proof.
    intros Hd. destruct o; cbn [PyGlueModel.store snd];
      rewrite ?lookup_bind_ne, ?lookup_unbind_ne by assumption; reflexivity.
  Qed.

  (* next() / a loader step on slot m only rebinds m when m holds a scanner / a loader *)
  Definition stays (st : state) (c : call) (m : nat) : Prop :=
    match c with
    | KNext n _ => n = m -> forall h, lookup st m <> Some (OScanner h)
    | KLoaderNext n _ => n = m -> forall a i k, lookup st m <> Some (OLoader _ _ _ _ _ a i k)
    | _ => True
    end.

  Definition untouched (st : state) (c : call) (m : nat) : Prop :=
    match touches st c with Some (n, _) => n <> m | None => True end.

  (* frame: a call leaves alone every slot that it does not rebind, reconfigure or step *)
  Lemma frame (st : state) c m :
    rebinds c <> Some m -> untouched st c m -> stays st c m ->
    lookup (snd (run_call K st c)) m = lookup st m.
  Proof.
    intros Hr Ht Hs. unfold untouched in Ht.
    assert (Hd : forall d, rebinds c = Some d -> d <> m) by (intros d E; congruence).
    destruct c; cbn [PyGlueLazy.rebinds] in Hd; cbn [PyGlueLazy.touches] in Ht; cbn [stays] in Hs;
      cbn [run_call].
    all: try (rewrite store_ne by (apply Hd; reflexivity); reflexivity).
    all: try (destruct (lookup st self) as [[]|]; cbn [snd];
              rewrite ?store_ne, ?lookup_unbind_ne by (try apply Hd; auto); reflexivity).
    - (* calculate *)
      destruct (lookup st self) as [[]|]; cbn [snd]; rewrite ?lookup_unbind_ne by (apply Hd; reflexivity); try reflexivity.
      destruct sequence as [ |b0|z0|bits0|cps0|bs0|l0|l0|kv0| |nq|g0]; try (rewrite store_ne by (apply Hd; reflexivity); reflexivity).
      destruct (lookup st nq) as [[]|] eqn:E; cbn [snd];
        rewrite ?store_ne, ?lookup_unbind_ne by (apply Hd; reflexivity); try reflexivity.
      destruct (glue_calculate K a s a0 q) as [o q']. rewrite store_ne by (apply Hd; reflexivity).
      rewrite lookup_bind_ne, lookup_unbind_ne by exact Ht. reflexivity.
    - (* scan *)
      destruct pssm as [ |b1|z1|bits1|cps1|bs1|l1|l1|kv1| |np|g1];
        destruct sequence as [ |b0|z0|bits0|cps0|bs0|l0|l0|kv0| |nq|g0];
        try (rewrite store_ne by (apply Hd; reflexivity); reflexivity);
        try (destruct (lookup st np) as [o|]; cbn [snd];
             rewrite ?store_ne, ?lookup_unbind_ne by (apply Hd; reflexivity); reflexivity);
        try (destruct (lookup st nq) as [o|]; cbn [snd];
             rewrite ?store_ne, ?lookup_unbind_ne by (apply Hd; reflexivity); reflexivity).
      destruct (lookup st np) as [[]|], (lookup st nq) as [[]|]; cbn [snd];
        rewrite ?store_ne, ?lookup_unbind_ne by (apply Hd; reflexivity); try reflexivity.
      destruct (glue_scan_args thr bs) as [[t b]|e|]; rewrite ?store_ne by (apply Hd; reflexivity); try reflexivity.
      destruct (glue_scan K a s a0 q t b) as [o q']. rewrite store_ne by (apply Hd; reflexivity).
      rewrite lookup_bind_ne, lookup_unbind_ne by exact Ht. reflexivity.
    - (* next *)
      destruct (Nat.eq_dec self m) as [E|E].
      + specialize (Hs E). subst self. destruct (lookup st m) as [[]|] eqn:El; cbn [snd]; rewrite ?El; try reflexivity.
        exfalso. eapply Hs. reflexivity.
      + destruct (lookup st self) as [[]|]; try reflexivity.
        destruct (glue_next _ _ _ _ _ hits k) as [r rest]. cbn [snd].
        rewrite lookup_bind_ne, lookup_unbind_ne by exact E. reflexivity.
    - (* get motif *)
      destruct (lookup st self) as [[]|]; cbn [snd]; rewrite ?lookup_unbind_ne by (apply Hd; reflexivity); try reflexivity.
      destruct (motif_part _ _ _ _ _ m0 which); cbn [snd];
        rewrite ?store_ne, ?lookup_unbind_ne by (apply Hd; reflexivity); reflexivity.
    - (* load *)
      destruct (glue_load K file format protein) as [[]| |]; cbn [snd];
        rewrite ?lookup_bind_ne, ?lookup_unbind_ne by (apply Hd; reflexivity); reflexivity.
    - (* get loaded *)
      destruct (lookup st self) as [[]|]; cbn [snd]; rewrite ?lookup_unbind_ne by (apply Hd; reflexivity); try reflexivity.
      destruct (nth_error ms idx); cbn [snd]; rewrite ?lookup_unbind_ne by (apply Hd; reflexivity); try reflexivity.
      destruct (motif_part _ _ _ _ _ m0 which); cbn [snd];
        rewrite ?store_ne, ?lookup_unbind_ne by (apply Hd; reflexivity); reflexivity.
    - (* == *)
      destruct (lookup st self) as [o|]; try reflexivity.
      destruct other as [ |b0|z0|bits0|cps0|bs0|l0|l0|kv0| |nq|g0]; try (destruct (glue_eq K o None); reflexivity).
      destruct (lookup st nq) as [o0|]; try reflexivity. destruct (glue_eq K o (Some o0)); reflexivity.
    - (* loader new *)
      destruct (lookup st file) as [[]|]; cbn [snd]; rewrite ?store_ne, ?lookup_unbind_ne by (apply Hd; reflexivity); reflexivity.
    - (* loader next *)
      destruct (Nat.eq_dec self m) as [E|E].
      + specialize (Hs E). subst self. destruct (lookup st m) as [[]|] eqn:El; cbn [snd]; rewrite ?El; try reflexivity.
        exfalso. eapply Hs. reflexivity.
      + destruct (lookup st self) as [[]|]; try reflexivity.
        destruct (lazy_take K a id calls k) as [items calls']. cbn [snd].
        rewrite lookup_bind_ne, lookup_unbind_ne by exact E. reflexivity.
  Qed.

  (* what [touches] reports: the slot holds a sequence before and after the call; the new value is
     the old one or comes from it by one configure() *)
  Lemma touches_spec (st : state) c n q' :
    touches st c = Some (n, q') ->
    exists a q, lookup st n = Some (OSeq a q) /\
      (q' = q \/ exists s', c_configure K q s' = COk q') /\
      (rebinds c <> Some n -> lookup (snd (run_call K st c)) n = Some (OSeq a q')).
  Proof.
    intros H. destruct c; cbn [PyGlueLazy.touches] in H; try discriminate.
    - (* calculate *)
      destruct sequence as [ |b0|z0|bits0|cps0|bs0|l0|l0|kv0| |nq|g0]; try discriminate.
      destruct (lookup st self) as [[]|] eqn:E1; try discriminate.
      destruct (lookup st nq) as [[]|] eqn:E2; try discriminate.
      inversion H; subst n q'; clear H. exists a0, q. split; [exact E2|]. split.
      + unfold glue_calculate. destruct (sm_empty _); [left; reflexivity|].
        destruct (abc_eqb a a0); [|left; reflexivity].
        destruct (c_configure K q s) eqn:Ec; cbn [snd]; [right; exists s; exact Ec | left; reflexivity ..].
      + intros Hr. cbn [run_call]. rewrite E1, E2.
        destruct (glue_calculate K a s a0 q) as [o q1]. cbn [snd].
        rewrite store_ne by (cbn [PyGlueLazy.rebinds] in Hr; congruence). apply lookup_bind_eq.
    - (* scan *)
      destruct pssm as [ |b1|z1|bits1|cps1|bs1|l1|l1|kv1| |np|g1]; try discriminate.
      destruct sequence as [ |b0|z0|bits0|cps0|bs0|l0|l0|kv0| |nq|g0]; try discriminate.
      destruct (lookup st np) as [[]|] eqn:E1; try discriminate.
      destruct (lookup st nq) as [[]|] eqn:E2; try discriminate.
      destruct (glue_scan_args thr bs) as [[t b]|e|] eqn:E3; try discriminate.
      inversion H; subst n q'; clear H. exists a0, q. split; [exact E2|]. split.
      + unfold glue_scan. destruct (negb _); [left; reflexivity|].
        destruct a, a0; try (left; reflexivity).
        destruct (sm_empty _); [left; reflexivity|].
        destruct (c_configure K q s) eqn:Ec; cbn [snd]; [right; exists s; exact Ec | left; reflexivity ..].
      + intros Hr. cbn [run_call]. rewrite E1, E2, E3.
        destruct (glue_scan K a s a0 q t b) as [o q1]. cbn [snd].
        rewrite store_ne by (cbn [PyGlueLazy.rebinds] in Hr; congruence). apply lookup_bind_eq.
  Qed.

  (* ---------------------------------------------------------------- the invariant *)

  (* a lazy scanner and the eager scanner object of the same name agree: the core scan over the
     sequence as it is now gives the hits of which the eager object holds the part not handed out;
     a live link leads to the sequence the scanner sees *)
  Definition scanner_ok (st : state) (e : lscan) : Prop :=
    exists all, c_scan K (l_s e) (l_q e) (l_t e) (l_b e) = COk all /\
      lookup st (l_slot e) = Some (OScanner (skipn (l_taken e) all)) /\
      (forall n, l_live e = Some n -> exists a, lookup st n = Some (OSeq a (l_q e))).

  Definition linv (st : state) (ls : list lscan) : Prop :=
    NoDup (map l_slot ls) /\ Forall (scanner_ok st) ls.

  Lemma linv_nil : linv [] [].
  Proof. split; constructor. Qed.

  Lemma carry_entry (st : state) c e :
    scanner_ok st e -> (forall k, c <> KNext (l_slot e) k) -> rebinds c <> Some (l_slot e) ->
    scanner_ok (snd (run_call K st c)) (detach SM SQ (rebinds c) (retarget SM SQ (touches st c) e)).
  Proof.
    intros [all [Hscan [Hslot Hlive]]] Hnx Hrb.
    (* the slot of the scanner is left alone *)
    assert (Hs' : lookup (snd (run_call K st c)) (l_slot e) = Some (OScanner (skipn (l_taken e) all))).
    { rewrite frame; [exact Hslot | exact Hrb | |].
      - unfold untouched. destruct (touches st c) as [[n q']|] eqn:Et; [|exact I].
        destruct (touches_spec _ _ _ _ Et) as [a [q [Hn _]]]. intros ->. congruence.
      - destruct c; cbn [stays]; auto.
        + intros E. subst self. exfalso. eapply Hnx. reflexivity.
        + intros E h0 a i. rewrite Hslot. discriminate. }
    (* a live link other than the reconfigured slot is left alone *)
    assert (Hl' : forall m a, l_live e = Some m -> rebinds c <> Some m -> untouched st c m ->
                           lookup st m = Some (OSeq a (l_q e)) ->
                           lookup (snd (run_call K st c)) m = Some (OSeq a (l_q e))).
    { intros m a Hm Hr Hu Hq. rewrite frame; auto.
      destruct c; cbn [stays]; auto; intros _; intros; rewrite Hq; discriminate. }
    destruct (touches st c) as [[n q']|] eqn:Et; cbn [retarget].
    - destruct (touches_spec _ _ _ _ Et) as [a [q [Hn [Hq' Hafter]]]].
      destruct (l_live e) as [m|] eqn:El.
      + destruct (Nat.eqb n m) eqn:Enm.
        * apply Nat.eqb_eq in Enm. subst m.
          destruct (Hlive n eq_refl) as [a' Hq0]. rewrite Hn in Hq0. inversion Hq0; subst a' q; clear Hq0.
          assert (Hscan' : c_scan K (l_s e) q' (l_t e) (l_b e) = COk all).
          { destruct Hq' as [->|[s' Hc]]; [exact Hscan|]. eapply Hstable; eauto. }
          unfold detach. cbn [l_live set_q]. rewrite El.
          destruct (rebinds c) as [d|] eqn:Er.
          -- destruct (Nat.eqb d n) eqn:Edn.
             ++ exists all. cbn. repeat split; auto. intros; discriminate.
             ++ exists all. cbn. rewrite El. repeat split; auto. intros n9 E0. inversion E0; subst n9.
                exists a. apply Hafter. apply Nat.eqb_neq in Edn. congruence.
          -- exists all. cbn. rewrite El. repeat split; auto. intros n9 E0. inversion E0; subst n9.
             exists a. apply Hafter. discriminate.
        * apply Nat.eqb_neq in Enm. unfold detach. rewrite El.
          destruct (Hlive m eq_refl) as [a' Hq0].
          destruct (rebinds c) as [d|] eqn:Er.
          -- destruct (Nat.eqb d m) eqn:Edm.
             ++ exists all. cbn. repeat split; auto. intros; discriminate.
             ++ exists all. repeat split; auto. intros n9 E0. rewrite El in E0. inversion E0; subst n9.
                exists a'. apply Hl'; auto.
                ** apply Nat.eqb_neq in Edm. congruence.
                ** unfold untouched. rewrite Et. exact Enm.
          -- exists all. repeat split; auto. intros n9 E0. rewrite El in E0. inversion E0; subst n9.
             exists a'. apply Hl'; auto; [discriminate|]. unfold untouched. rewrite Et. exact Enm.
      + unfold detach. rewrite El. destruct (rebinds c); exists all; repeat split; auto;
          intros n9 E0; rewrite El in E0; discriminate.
    - destruct (l_live e) as [m|] eqn:El.
      + unfold detach. rewrite El. destruct (Hlive m eq_refl) as [a' Hq0].
        destruct (rebinds c) as [d|] eqn:Er.
        * destruct (Nat.eqb d m) eqn:Edm.
          -- exists all. cbn. repeat split; auto. intros; discriminate.
          -- exists all. repeat split; auto. intros n9 E0. rewrite El in E0. inversion E0; subst n9.
             exists a'. apply Hl'; auto.
             ++ apply Nat.eqb_neq in Edm. congruence.
             ++ unfold untouched. rewrite Et. exact I.
        * exists all. repeat split; auto. intros n9 E0. rewrite El in E0. inversion E0; subst n9.
          exists a'. apply Hl'; auto; [discriminate|]. unfold untouched. rewrite Et. exact I.
      + unfold detach. rewrite El. destruct (rebinds c); exists all; repeat split; auto;
          intros n9 E0; rewrite El in E0; discriminate.
  Qed.

  Lemma detach_slot rb (e : lscan) : l_slot (detach SM SQ rb e) = l_slot e.
  Proof. unfold detach. destruct rb, (l_live e); try reflexivity. destruct (Nat.eqb _ _); reflexivity. Qed.

  Lemma retarget_slot tc (e : lscan) : l_slot (retarget SM SQ tc e) = l_slot e.
  Proof.
    unfold retarget. destruct tc as [[n q]|], (l_live e); try reflexivity. destruct (Nat.eqb _ _); reflexivity.
  Qed.

  Lemma NoDup_map_filter {A B} (f : A -> B) (p : A -> bool) l : NoDup (map f l) -> NoDup (map f (filter p l)).
  Proof.
    induction l as [|x r IH]; intros H; [constructor|]. cbn [map] in H. inversion H; subst.
    cbn [filter]. destruct (p x); [|auto]. cbn [map]. constructor; [|auto].
    intros Hin. apply H2. apply in_map_iff in Hin. destruct Hin as [y [Hy Hf]].
    apply filter_In in Hf. apply in_map_iff. exists y. tauto.
  Qed.

  Lemma carry_inv (st : state) c ls :
    linv st ls -> (forall n k, c <> KNext n k) ->
    linv (snd (run_call K st c)) (carry st c ls) /\
    (forall d, rebinds c = Some d -> ~ In d (map l_slot (carry st c ls))).
  Proof.
    intros [Hnd Hall] Hnx. unfold PyGlueLazy.carry. split; [split|].
    - apply NoDup_map_filter. rewrite !map_map.
      erewrite map_ext; [exact Hnd|]. intros e. cbn. rewrite detach_slot, retarget_slot. reflexivity.
    - apply Forall_forall. intros e' Hin. apply filter_In in Hin. destruct Hin as [Hin Hal].
      rewrite map_map in Hin. apply in_map_iff in Hin. destruct Hin as [e [He' Hin]]. subst e'.
      rewrite Forall_forall in Hall. apply carry_entry; [apply Hall; exact Hin | intros k; apply Hnx |].
      unfold alive in Hal. rewrite detach_slot, retarget_slot in Hal.
      destruct (rebinds c) as [d|]; [|discriminate]. intros E. inversion E; subst d.
      rewrite Nat.eqb_refl in Hal. discriminate.
    - intros d Hd Hin. apply in_map_iff in Hin. destruct Hin as [e' [Hs Hin]].
      apply filter_In in Hin. destruct Hin as [_ Hal]. unfold alive in Hal. rewrite Hd in Hal.
      subst d. rewrite Nat.eqb_refl in Hal. discriminate.
  Qed.

  (* the scanner object made by a successful scan() / Scanner() call *)
  Lemma new_scanner_ok (st : state) c e :
    In e (new_scanner K st c (fst (run_call K st c))) ->
    scanner_ok (snd (run_call K st c)) e /\ rebinds c = Some (l_slot e).
  Proof.
    intros Hin. destruct c; cbn [PyGlueLazy.new_scanner] in Hin; try contradiction.
    destruct pssm as [ |b1|z1|bits1|cps1|bs1|l1|l1|kv1| |np|g1]; try contradiction.
    destruct sequence as [ |b0|z0|bits0|cps0|bs0|l0|l0|kv0| |nq|g0]; try contradiction.
    cbn [PyGlueLazy.touches run_call] in *.
    destruct (lookup st np) as [[]|] eqn:E1;
      try (destruct (fst _) as [[[[]| | | | | | | | | | |]| |]|]; contradiction).
    destruct (lookup st nq) as [[]|] eqn:E2;
      try (destruct (fst _) as [[[[]| | | | | | | | | | |]| |]|]; contradiction).
    destruct (glue_scan_args thr bs) as [[t b]|ex|] eqn:E3;
      try (destruct (fst _) as [[[[]| | | | | | | | | | |]| |]|]; contradiction).
    destruct (glue_scan K a s a0 q t b) as [o q'] eqn:Eg. cbn [snd] in *.
    destruct o as [v|ex|]; cbn [PyGlueModel.store fst snd] in *; try contradiction.
    destruct v; try contradiction. destruct Hin as [<-|[]]. cbn. split; [|reflexivity].
    exists hits. cbn. repeat split.
    - unfold glue_scan in Eg. destruct (negb _); [inversion Eg|].
      destruct a, a0; try (inversion Eg; fail).
      destruct (sm_empty _); [inversion Eg|].
      destruct (c_configure K q s) as [q1| |]; try (inversion Eg; fail).
      destruct (c_scan K s q1 t b) as [h| |] eqn:Es; cbn in Eg; inversion Eg; subst. exact Es.
    - apply lookup_bind_eq.
    - intros n Hn. destruct (Nat.eqb dst nq) eqn:Ed; [discriminate|]. inversion Hn; subst n.
      exists a0. assert (E5 : Nat.eqb nq dst = false) by (apply Nat.eqb_neq; apply Nat.eqb_neq in Ed; congruence).
      rewrite ?Ed, ?E5. cbn [PyGlueModel.lookup]. rewrite Nat.eqb_refl. reflexivity.
  Qed.

  Definition is_next (c : call) : bool := match c with KNext _ _ => true | _ => false end.

  Lemma lazy_other (st : state) ls c :
    is_next c = false ->
    run_call_lazy K st ls c =
      (fst (run_call K st c), snd (run_call K st c),
       new_scanner K st c (fst (run_call K st c)) ++ carry st c ls).
  Proof.
    intros H. unfold run_call_lazy. destruct (run_call K st c) as [stp st'].
    destruct c; try discriminate; reflexivity.
  Qed.

  Lemma linv_other (st : state) ls c :
    linv st ls -> is_next c = false ->
    linv (snd (run_call K st c)) (new_scanner K st c (fst (run_call K st c)) ++ carry st c ls).
  Proof.
    intros Hinv Hn.
    assert (Hnx : forall n k, c <> KNext n k) by (intros n k ->; discriminate).
    destruct (carry_inv st c ls Hinv Hnx) as [[Hnd Hall] Hfresh].
    pose proof (new_scanner_ok st c) as Hnew.
    assert (Hlen : (length (new_scanner K st c (fst (run_call K st c))) <= 1)%nat).
    { destruct c; cbn [PyGlueLazy.new_scanner length]; try lia.
      destruct pssm, sequence; cbn [length]; try lia.
      destruct (fst _) as [[[[]| | | | | | | | | | |]| |]|]; cbn [length]; try lia.
      destruct (lookup st slot) as [[]|]; cbn [length]; try lia.
      destruct (touches st _) as [[]|]; cbn [length]; try lia.
      destruct (glue_scan_args thr bs) as [[]| |]; cbn [length]; lia. }
    destruct (new_scanner K st c (fst (run_call K st c))) as [|e [|e2 r]]; [split; assumption| |cbn in Hlen; lia].
    destruct (Hnew e (or_introl eq_refl)) as [He Hr]. cbn [app]. split.
    - cbn [map]. constructor; [apply Hfresh; exact Hr | exact Hnd].
    - constructor; assumption.
  Qed.

  (* ---------------------------------------------------------------- next() *)

  Lemma lfind_some (ls : list lscan) n e : lfind SM SQ ls n = Some e -> In e ls /\ l_slot e = n.
  Proof.
    unfold lfind. intros H. apply find_some in H. destruct H as [Hin He]. apply Nat.eqb_eq in He. auto.
  Qed.

  Lemma lfind_none (ls : list lscan) n : lfind SM SQ ls n = None -> forall e, In e ls -> l_slot e <> n.
  Proof.
    unfold lfind. intros H e Hin E. pose proof (find_none _ _ H e Hin) as Hf. cbn in Hf.
    apply Nat.eqb_neq in Hf. contradiction.
  Qed.

  Lemma carry_next (st : state) ls n k : carry st (KNext n k) ls = ls.
  Proof.
    unfold PyGlueLazy.carry. cbn [PyGlueLazy.rebinds PyGlueLazy.touches].
    induction ls as [|e r IH]; [reflexivity|]. cbn [map filter alive].
    unfold retarget at 1. unfold detach at 1. cbn [map filter alive] in IH. rewrite IH. reflexivity.
  Qed.

  Lemma glue_next_rest (rem : list (Z * Z)) k r rest :
    glue_next CM WM SM SQ SC rem k = (r, rest) -> rest = skipn (length rem - length rest) rem.
  Proof.
    unfold glue_next. destruct k as [n|].
    - destruct (Nat.leb n (length rem)) eqn:E; intros H; inversion H; subst.
      + apply Nat.leb_le in E. rewrite skipn_length. f_equal. lia.
      + cbn [length]. rewrite Nat.sub_0_r, skipn_all. reflexivity.
    - intros H; inversion H; subst. cbn [length]. rewrite Nat.sub_0_r, skipn_all. reflexivity.
  Qed.

  Lemma skipn_skipn {A} x y (l : list A) : skipn x (skipn y l) = skipn (y + x) l.
  Proof.
    revert l. induction y as [|y IH]; intros l; [reflexivity|].
    destruct l as [|a r]; [rewrite !skipn_nil; reflexivity|]. cbn [skipn Nat.add]. apply IH.
  Qed.

  Lemma NoDup_slot_unique (ls : list lscan) e e' :
    NoDup (map l_slot ls) -> In e ls -> In e' ls -> l_slot e = l_slot e' -> e = e'.
  Proof.
    induction ls as [|x r IH]; intros Hnd He He' Hs; [contradiction|].
    cbn [map] in Hnd. inversion Hnd; subst. destruct He as [->|He], He' as [->|He']; auto.
    - exfalso. apply H1. rewrite Hs. apply in_map. exact He'.
    - exfalso. apply H1. rewrite <- Hs. apply in_map. exact He.
  Qed.

  Lemma lazy_next (st : state) ls self k :
    linv st ls ->
    fst (fst (run_call_lazy K st ls (KNext self k))) = fst (run_call K st (KNext self k)) /\
    snd (fst (run_call_lazy K st ls (KNext self k))) = snd (run_call K st (KNext self k)) /\
    linv (snd (run_call K st (KNext self k))) (snd (run_call_lazy K st ls (KNext self k))).
  Proof.
    intros [Hnd Hall]. unfold run_call_lazy. rewrite carry_next.
    destruct (run_call K st (KNext self k)) as [stp st'] eqn:Er.
    rewrite Forall_forall in Hall.
    destruct (lfind SM SQ ls self) as [e|] eqn:Ef.
    - destruct (lfind_some _ _ _ Ef) as [Hin Hs]. destruct (Hall e Hin) as [all [Hscan [Hslot Hlive]]].
      rewrite Hscan. cbn [run_call] in Er. rewrite Hs in Hslot. rewrite Hslot in Er.
      destruct (glue_next CM WM SM SQ SC (skipn (l_taken e) all) k) as [r rest] eqn:Eg.
      inversion Er; subst stp st'; clear Er. cbn [fst snd]. split; [reflexivity|]. split; [reflexivity|].
      pose proof (glue_next_rest _ _ _ _ Eg) as Hrest. rewrite skipn_skipn in Hrest.
      split.
      + rewrite map_map. erewrite map_ext; [exact Hnd|]. intros x. destruct (Nat.eqb _ _); reflexivity.
      + apply Forall_forall. intros x Hx. apply in_map_iff in Hx. destruct Hx as [y [Hy Hyin]].
        destruct (Nat.eqb (l_slot y) self) eqn:Eys.
        * apply Nat.eqb_eq in Eys. assert (y = e) by (eapply NoDup_slot_unique; eauto; congruence). subst y x.
          exists all. unfold scanner_ok, set_taken. cbn [l_s l_q l_t l_b l_slot l_taken l_live]. rewrite Hs. repeat split.
          -- exact Hscan.
          -- rewrite lookup_bind_eq. f_equal. f_equal. exact Hrest.
          -- intros n Hn. destruct (Hlive n Hn) as [a Ha]. exists a.
             assert (self <> n) by (intros ->; congruence).
             rewrite lookup_bind_ne, lookup_unbind_ne by assumption. exact Ha.
        * subst x. apply Nat.eqb_neq in Eys. destruct (Hall y Hyin) as [all' [Hscan' [Hslot' Hlive']]].
          exists all'. repeat split; auto.
          -- rewrite lookup_bind_ne, lookup_unbind_ne by congruence. exact Hslot'.
          -- intros n Hn. destruct (Hlive' n Hn) as [a Ha]. exists a.
             assert (self <> n) by (intros ->; congruence).
             rewrite lookup_bind_ne, lookup_unbind_ne by assumption. exact Ha.
    - cbn [fst snd]. split; [reflexivity|]. split; [reflexivity|]. split; [exact Hnd|].
      apply Forall_forall. intros y Hy. destruct (Hall y Hy) as [all' [Hscan' [Hslot' Hlive']]].
      pose proof (lfind_none _ _ Ef y Hy) as Hne.
      assert (Hst' : st' = snd (run_call K st (KNext self k))) by (rewrite Er; reflexivity).
      exists all'. repeat split; auto.
      + rewrite Hst', frame; [exact Hslot' | discriminate | exact I |]. cbn [stays]. intros E; congruence.
      + intros n Hn. destruct (Hlive' n Hn) as [a Ha]. exists a.
        rewrite Hst', frame; [exact Ha | discriminate | exact I |]. cbn [stays]. intros E h0. rewrite Ha. discriminate.
  Qed.

  (* ---------------------------------------------------------------- histories *)

  Theorem lazy_step (st : state) ls c :
    linv st ls ->
    fst (fst (run_call_lazy K st ls c)) = fst (run_call K st c) /\
    snd (fst (run_call_lazy K st ls c)) = snd (run_call K st c) /\
    linv (snd (run_call K st c)) (snd (run_call_lazy K st ls c)).
  Proof.
    intros Hinv. destruct (is_next c) eqn:En.
    - destruct c; try discriminate. apply lazy_next. exact Hinv.
    - rewrite (lazy_other st ls c En). cbn [fst snd]. split; [reflexivity|]. split; [reflexivity|].
      apply linv_other; assumption.
  Qed.

  Theorem lazy_history cs : forall (st : state) ls,
    linv st ls -> run_history_lazy K st ls cs = run_history K st cs.
  Proof.
    induction cs as [|c r IH]; intros st ls Hinv; [reflexivity|].
    cbn [run_history_lazy run_history]. destruct (lazy_step st ls c Hinv) as [H1 [H2 H3]].
    destruct (run_call_lazy K st ls c) as [[o st1] ls1]. destruct (run_call K st c) as [o' st1'].
    cbn [fst snd] in *. subst o' st1'. f_equal. apply IH. exact H3.
  Qed.

End LazyProofs.
