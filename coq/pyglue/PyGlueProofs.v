(* Lemmas about the glue model (PyGlueModel.v).  The property theorems are in C17.v. *)
From Coq Require Import List ZArith Bool Lia.
From LMBase Require Import ListX IEEE.
From LMPyGlue Require Import PyGlueModel PyGlueFloat.
Import ListNotations.
Open Scope Z_scope.

(* ------------------------------------------------------------------ outcomes *)

Lemma obind_np {A B} (x : outcome A) (f : A -> outcome B) :
  x <> Panic -> (forall a, x = Value a -> f a <> Panic) -> obind x f <> Panic.
Proof. destruct x; simpl; intros H1 H2; auto; discriminate. Qed.

Lemma obind_exc {A B} (x : outcome A) (f : A -> outcome B) e : x = PyExc e -> obind x f = PyExc e.
Proof. intros ->; reflexivity. Qed.

Lemma obind_value {A B} (x : outcome A) (f : A -> outcome B) a : x = Value a -> obind x f = f a.
Proof. intros ->; reflexivity. Qed.

Lemma obind_inv_value {A B} (x : outcome A) (f : A -> outcome B) b :
  obind x f = Value b -> exists a, x = Value a /\ f a = Value b.
Proof. destruct x; simpl; intros H; try discriminate; eauto. Qed.

(* ------------------------------------------------------------------ extraction never panics *)

Lemma extract_f64_np v : extract_f64 v <> Panic.
Proof. destruct v; unfold extract_f64; try discriminate. destruct (_ <? _); discriminate. Qed.

Lemma extract_f32_np v : extract_f32 v <> Panic.
Proof. unfold extract_f32. apply obind_np; [apply extract_f64_np | discriminate]. Qed.

Lemma extract_u32_np v : extract_u32 v <> Panic.
Proof. destruct v; unfold extract_u32; try discriminate. destruct (_ && _); discriminate. Qed.

Lemma extract_usize_np v : extract_usize v <> Panic.
Proof. destruct v; unfold extract_usize; try discriminate. destruct (_ && _); discriminate. Qed.

Lemma extract_str_np v : extract_str v <> Panic.
Proof. destruct v; unfold extract_str; try discriminate. destruct (existsb _ _); discriminate. Qed.

Lemma extract_bool_np v : extract_bool v <> Panic.
Proof. destruct v; simpl; discriminate. Qed.

Lemma extract_dict_np v : extract_dict v <> Panic.
Proof. destruct v; simpl; discriminate. Qed.

(* ------------------------------------------------------------------ dict_to_alphabet_array *)

(* classification of one dictionary entry, as the loop body performs it *)
Definition entry_ok (a : abc) (e : pyval * pyval) : outcome (nat * Z) :=
  s <~ extract_str (fst e) ;;
  if negb (utf8_len s =? 1) then PyExc ValueError else
  match s with
  | [c] => match sym_index a c with
           | None => PyExc ValueError
           | Some i => x <~ extract_f32 (snd e) ;; Value (i, x)
           end
  | _ => PyExc ValueError
  end.

Lemma d2a_step a e rest p :
  d2a_loop a (e :: rest) p = ix <~ entry_ok a e ;; d2a_loop a rest (upd (fst ix) (snd ix) p).
Proof.
  destruct e as [k v]. unfold entry_ok. cbn [d2a_loop fst snd].
  destruct (extract_str k) as [s| |]; cbn [obind]; try reflexivity.
  destruct (negb (utf8_len s =? 1)); try reflexivity.
  destruct s as [|c [|c2 s']]; try reflexivity.
  destruct (sym_index a c); try reflexivity.
  destruct (extract_f32 v); reflexivity.
Qed.

Lemma entry_ok_np a e : entry_ok a e <> Panic.
Proof.
  unfold entry_ok. apply obind_np; [apply extract_str_np|]. intros s _.
  destruct (negb (utf8_len s =? 1)); try discriminate.
  destruct s as [|c [|c2 s']]; try discriminate.
  destruct (sym_index a c); try discriminate.
  apply obind_np; [apply extract_f32_np | discriminate].
Qed.

(* a valid entry is a one-character ASCII key naming a symbol of the alphabet, with a number *)
Lemma entry_ok_value a k v i x :
  entry_ok a (k, v) = Value (i, x) <->
  exists c, k = PStr [c] /\ c < 128 /\ sym_index a c = Some i /\ extract_f32 v = Value x.
Proof.
  unfold entry_ok; cbn [fst snd]. split.
  - intros H. destruct k; simpl in H; try discriminate.
    destruct (existsb is_surrogate cps) eqn:Hs; simpl in H; try discriminate.
    destruct (negb (utf8_len cps =? 1)) eqn:Hl; try discriminate.
    destruct cps as [|c [|c2 s']]; try discriminate.
    destruct (sym_index a c) eqn:Hi; try discriminate.
    destruct (extract_f32 v) eqn:Hx; simpl in H; try discriminate.
    inversion H; subst. exists c. repeat split; auto.
    apply negb_false_iff in Hl. apply Z.eqb_eq in Hl. unfold utf8_len in Hl; simpl in Hl.
    unfold utf8_len1 in Hl. destruct (c <? 128) eqn:Hc; [apply Z.ltb_lt in Hc; lia|].
    destruct (c <? 2048); [lia|]. destruct (c <? 65536); lia.
  - intros [c [-> [Hc [Hi Hx]]]].
    assert (Hs : existsb is_surrogate [c] = false).
    { cbn [existsb]. rewrite orb_false_r. unfold is_surrogate. apply andb_false_iff. left. apply Z.leb_gt. lia. }
    assert (Hl : (utf8_len [c] =? 1) = true).
    { unfold utf8_len; cbn [fold_right]. unfold utf8_len1. apply Z.ltb_lt in Hc. rewrite Hc. reflexivity. }
    unfold extract_str. rewrite Hs. cbn [obind]. rewrite Hl. cbn [negb]. rewrite Hi, Hx. reflexivity.
Qed.

(* the value the array holds at index i after the loop: the last valid entry for i wins *)
Fixpoint last_value (a : abc) (kv : list (pyval * pyval)) (i : nat) (d : Z) : Z :=
  match kv with
  | [] => d
  | e :: r =>
      match entry_ok a e with
      | Value (j, x) => last_value a r i (if Nat.eqb j i then x else d)
      | _ => last_value a r i d
      end
  end.

Lemma d2a_loop_spec a kv : forall p0 p,
  d2a_loop a kv p0 = Value p ->
  length p = length p0 /\
  (forall e, In e kv -> exists ix, entry_ok a e = Value ix) /\
  (forall i, (i < length p0)%nat -> nth i p 0 = last_value a kv i (nth i p0 0)).
Proof.
  induction kv as [|e r IH]; intros p0 p H.
  - simpl in H. inversion H; subst. repeat split; auto. intros e [].
  - rewrite d2a_step in H. apply obind_inv_value in H. destruct H as [[j x] [He H]].
    cbn [fst snd] in H. apply IH in H. destruct H as [Hlen [Hall Hnth]].
    rewrite upd_length in Hlen. split; [exact Hlen|]. split.
    + intros e' [<-|Hin]; [eauto | apply Hall; exact Hin].
    + intros i Hi. rewrite upd_length in Hnth. rewrite (Hnth i Hi). cbn [last_value]. rewrite He.
      f_equal. rewrite nth_upd. destruct (Nat.eqb j i) eqn:Hji; [|reflexivity].
      apply Nat.eqb_eq in Hji. subst j.
      destruct (Nat.ltb_spec i (length p0)); [reflexivity | lia].
Qed.

Lemma d2a_loop_invalid a kv : forall p0,
  (exists e, In e kv /\ forall ix, entry_ok a e <> Value ix) ->
  exists ex, d2a_loop a kv p0 = PyExc ex.
Proof.
  induction kv as [|e r IH]; intros p0 [e' [Hin Hbad]]; [destruct Hin|].
  rewrite d2a_step. destruct (entry_ok a e) as [ix|ex|] eqn:He.
  - cbn [obind]. apply IH. destruct Hin as [<-|Hin]; [exfalso; eapply Hbad; eauto|].
    exists e'. split; auto.
  - eexists; reflexivity.
  - exfalso. eapply entry_ok_np; eauto.
Qed.

Lemma d2a_loop_np a kv : forall p0, d2a_loop a kv p0 <> Panic.
Proof.
  induction kv as [|e r IH]; intros p0; [discriminate|].
  rewrite d2a_step. apply obind_np; [apply entry_ok_np | intros; apply IH].
Qed.

Lemma last_value_absent a kv i d :
  (forall e j x, In e kv -> entry_ok a e = Value (j, x) -> j <> i) -> last_value a kv i d = d.
Proof.
  revert d. induction kv as [|e r IH]; intros d H; [reflexivity|].
  cbn [last_value]. destruct (entry_ok a e) as [[j x]| |] eqn:He.
  - assert (j <> i) by (eapply H; [left; reflexivity | exact He]).
    apply Nat.eqb_neq in H0. rewrite H0. apply IH. intros; eapply H; eauto. right; eauto.
  - apply IH. intros; eapply H; eauto. right; eauto.
  - apply IH. intros; eapply H; eauto. right; eauto.
Qed.

Lemma last_value_stable a kv i x :
  (forall e' x', In e' kv -> entry_ok a e' = Value (i, x') -> x' = x) -> last_value a kv i x = x.
Proof.
  induction kv as [|e1 r IH]; intros Huniq; [reflexivity|].
  cbn [last_value]. destruct (entry_ok a e1) as [[j x1]| |] eqn:He1.
  - destruct (Nat.eqb j i) eqn:Hji.
    + apply Nat.eqb_eq in Hji; subst j.
      assert (x1 = x) by (eapply Huniq; [left; reflexivity | exact He1]). subst x1.
      apply IH. intros; eapply Huniq; eauto. right; eauto.
    + apply IH. intros; eapply Huniq; eauto. right; eauto.
  - apply IH. intros; eapply Huniq; eauto. right; eauto.
  - apply IH. intros; eapply Huniq; eauto. right; eauto.
Qed.

(* with distinct keys (a Python dict), the entry for index i decides the value *)
Lemma last_value_unique a kv i e x :
  In e kv -> entry_ok a e = Value (i, x) ->
  (forall e' x', In e' kv -> entry_ok a e' = Value (i, x') -> x' = x) ->
  forall d, last_value a kv i d = x.
Proof.
  induction kv as [|e0 r IH]; intros Hin He Huniq d; [destruct Hin|].
  cbn [last_value]. destruct Hin as [->|Hin].
  - rewrite He. rewrite Nat.eqb_refl. apply last_value_stable.
    intros; eapply Huniq; eauto. right; eauto.
  - assert (Hr : forall e' x', In e' r -> entry_ok a e' = Value (i, x') -> x' = x)
      by (intros; eapply Huniq; eauto; right; eauto).
    destruct (entry_ok a e0) as [[j x0]| |]; apply IH; auto.
Qed.

(* ------------------------------------------------------------------ columns *)

Lemma write_col_np ex j items : forall m,
  (forall v, ex v <> Panic) -> write_col ex j items m <> Panic.
Proof.
  induction items as [|x xs IH]; intros m Hex; [destruct m; discriminate|].
  destruct m as [|row rows]; [discriminate|]. cbn [write_col].
  apply obind_np; [apply Hex|]. intros v _. apply obind_np; [apply IH; exact Hex | discriminate].
Qed.

Lemma write_col_shape ex j items : forall m m',
  write_col ex j items m = Value m' ->
  length m' = length m /\ (forall n, Forall (fun r => length r = n) m -> Forall (fun r => length r = n) m').
Proof.
  induction items as [|x xs IH]; intros m m' H.
  - destruct m; simpl in H; inversion H; subst; auto.
  - destruct m as [|row rows]; [discriminate|]. cbn [write_col] in H.
    apply obind_inv_value in H. destruct H as [v [_ H]].
    apply obind_inv_value in H. destruct H as [rest [Hr H]]. inversion H; subst.
    apply IH in Hr. destruct Hr as [Hl Hf]. split; [simpl; congruence|].
    intros n Hall. inversion Hall; subst. constructor; [rewrite upd_length; reflexivity | apply Hf; assumption].
Qed.

Lemma cols_loop_np a items_of ex syms : forall j kv data,
  (forall v, ex v <> Panic) -> cols_loop a items_of ex syms j kv data <> Panic.
Proof.
  induction syms as [|c rest IH]; intros j kv data Hex; [discriminate|].
  cbn [cols_loop]. destruct (dict_get kv c); [|apply IH; exact Hex].
  destruct (items_of p); [|discriminate].
  destruct (negb _); [discriminate|].
  apply obind_np; [apply write_col_np; exact Hex | intros; apply IH; exact Hex].
Qed.

(* the matrix built from the columns has one row per item of the columns, K cells per row *)
Lemma cols_loop_shape a items_of ex syms : forall j kv data m,
  cols_loop a items_of ex syms j kv data = Value (Some m) ->
  (forall d, data = Some d -> Forall (fun r => length r = ksize a) d) ->
  Forall (fun r => length r = ksize a) m.
Proof.
  induction syms as [|c rest IH]; intros j kv data m H Hd.
  - simpl in H. inversion H; subst. apply Hd; reflexivity.
  - cbn [cols_loop] in H. destruct (dict_get kv c) as [col|]; [|eapply IH; eauto].
    destruct (items_of col) as [items|]; [|discriminate].
    destruct (negb _); [discriminate|].
    apply obind_inv_value in H. destruct H as [m' [Hw H]].
    eapply IH; [exact H|]. intros d Hs. inversion Hs; subst.
    apply write_col_shape in Hw. destruct Hw as [_ Hf]. apply Hf.
    destruct data as [d0|]; [apply Hd; reflexivity|].
    unfold zero_matrix. apply Forall_repeat. apply repeat_length.
Qed.

(* every column that is present has as many items as the matrix has rows *)
Lemma cols_loop_rows a items_of ex syms : forall j kv data m,
  cols_loop a items_of ex syms j kv data = Value (Some m) ->
  (forall d, data = Some d -> length d = length m) /\
  (forall c col items, In c syms -> dict_get kv c = Some col -> items_of col = Some items ->
                       length items = length m).
Proof.
  induction syms as [|c rest IH]; intros j kv data m H.
  - simpl in H. inversion H; subst. split; [intros d Hd; inversion Hd; reflexivity | intros ? ? ? []].
  - cbn [cols_loop] in H. destruct (dict_get kv c) as [col|] eqn:Hg.
    + destruct (items_of col) as [items|] eqn:Hi; [|discriminate].
      destruct (negb _) eqn:Hn; [discriminate|].
      apply negb_false_iff in Hn. apply Nat.eqb_eq in Hn.
      apply obind_inv_value in H. destruct H as [m' [Hw H]].
      apply IH in H. destruct H as [H1 H2].
      apply write_col_shape in Hw. destruct Hw as [Hl _].
      assert (Hm' : length m' = length m) by (apply H1; reflexivity).
      split.
      * intros d Hd. subst data. congruence.
      * intros c0 col0 items0 [<-|Hin] Hg0 Hi0.
        -- rewrite Hg in Hg0. inversion Hg0; subst. rewrite Hi in Hi0. inversion Hi0; subst. congruence.
        -- eapply H2; eauto.
    + apply IH in H. destruct H as [H1 H2]. split; [exact H1|].
      intros c0 col0 items0 [<-|Hin] Hg0 Hi0; [congruence | eapply H2; eauto].
Qed.

(* ---- cell level: which value ends up where *)

Lemma write_col_cells ex j items : forall m m',
  write_col ex j items m = Value m' ->
  (forall r, (r < length items)%nat ->
     exists v, ex (nth r items PNone) = Value v /\ nth r m' [] = upd j v (nth r m [])) /\
  (forall r, (length items <= r)%nat -> nth r m' [] = nth r m []).
Proof.
  induction items as [|x xs IH]; intros m m' H.
  - destruct m; simpl in H; inversion H; subst; split; intros r Hr; simpl in Hr; try lia; reflexivity.
  - destruct m as [|row rows]; [discriminate|]. cbn [write_col] in H.
    apply obind_inv_value in H. destruct H as [v [Hv H]].
    apply obind_inv_value in H. destruct H as [rest [Hr H]]. inversion H; subst.
    apply IH in Hr. destruct Hr as [H1 H2]. split.
    + intros [|r] Hlt; simpl.
      * exists v. split; auto.
      * apply H1. simpl in Hlt. lia.
    + intros [|r] Hge; simpl in Hge; [lia|]. simpl. apply H2. lia.
Qed.

(* the value prescribed for row r of the column of symbol s *)
Definition cell_spec (io : pyval -> option (list pyval)) (ex : pyval -> outcome Z)
           (kv : list (pyval * pyval)) (s : Z) (r : nat) (x : Z) : Prop :=
  match dict_get kv s with
  | None => x = 0
  | Some col => match io col with
                | Some items => ex (nth r items PNone) = Value x
                | None => False
                end
  end.

Definition cols_inv (a : abc) (j0 : nat) (data : option (list (list Z))) : Prop :=
  match data with
  | None => True
  | Some d => Forall (fun r => length r = ksize a) d /\
              (forall r j, (j0 <= j)%nat -> nth j (nth r d []) 0 = 0)
  end.

Definition data_cell (data : option (list (list Z))) (r j : nat) : Z :=
  match data with Some d => nth j (nth r d []) 0 | None => 0 end.

Lemma nth_repeat_any {A} (x : A) n i : nth i (repeat x n) x = x.
Proof. revert i; induction n as [|n IH]; intros [|i]; simpl; auto. Qed.

Lemma nth_zero_matrix a n r j : nth j (nth r (zero_matrix a n) []) 0 = 0.
Proof.
  unfold zero_matrix. destruct (Nat.ltb_spec r n) as [Hr|Hr].
  - rewrite nth_repeat_lt by assumption. apply nth_repeat_any.
  - assert (E : nth r (repeat (repeat 0 (ksize a)) n) [] = []).
    { apply nth_overflow. rewrite repeat_length. exact Hr. }
    rewrite E. destruct j; reflexivity.
Qed.

Lemma cols_loop_cells a io ex kv : forall syms j0 data m,
  (j0 + length syms = ksize a)%nat -> cols_inv a j0 data ->
  cols_loop a io ex syms j0 kv data = Value (Some m) ->
  (forall k s r, nth_error syms k = Some s -> (r < length m)%nat ->
                 cell_spec io ex kv s r (nth (j0 + k) (nth r m []) 0)) /\
  (forall j r, (j < j0)%nat -> nth j (nth r m []) 0 = data_cell data r j).
Proof.
  induction syms as [|c rest IH]; intros j0 data m Hlen Hinv H.
  - simpl in H. inversion H; subst. split; [intros k s r Hk; destruct k; discriminate | reflexivity].
  - cbn [cols_loop] in H. cbn [length] in Hlen.
    destruct (dict_get kv c) as [col|] eqn:Hg.
    + destruct (io col) as [items|] eqn:Hio; [|discriminate].
      destruct (negb _) eqn:Hn; [discriminate|].
      apply negb_false_iff in Hn. apply Nat.eqb_eq in Hn.
      apply obind_inv_value in H. destruct H as [m' [Hw H]].
      set (mm := match data with None => zero_matrix a (length items) | Some m0 => m0 end) in *.
      assert (Hmm_shape : Forall (fun r => length r = ksize a) mm).
      { unfold mm. destruct data as [d|]; [exact (proj1 Hinv)|].
        unfold zero_matrix. apply Forall_repeat. apply repeat_length. }
      assert (Hmm_zero : forall r j, (j0 <= j)%nat -> nth j (nth r mm []) 0 = 0).
      { unfold mm. destruct data as [d|]; [exact (proj2 Hinv)|]. intros; apply nth_zero_matrix. }
      assert (Hmm_cell : forall r j, (j < j0)%nat -> nth j (nth r mm []) 0 = data_cell data r j).
      { unfold mm, data_cell. destruct data as [d|]; [reflexivity|]. intros; apply nth_zero_matrix. }
      pose proof (write_col_cells _ _ _ _ _ Hw) as [Hc1 Hc2].
      pose proof (write_col_shape _ _ _ _ _ Hw) as [Hl' Hs'].
      assert (Hrowlen : forall r, (r < length mm)%nat -> length (nth r mm []) = ksize a).
      { intros r Hr. rewrite Forall_forall in Hmm_shape. apply Hmm_shape. apply nth_In. exact Hr. }
      assert (Hinv' : cols_inv a (S j0) (Some m')).
      { split; [apply Hs'; exact Hmm_shape|].
        intros r j Hj. destruct (Nat.ltb_spec r (length items)) as [Hr|Hr].
        - destruct (Hc1 r Hr) as [v [_ Hrow]]. rewrite Hrow. rewrite nth_upd_other by lia. apply Hmm_zero. lia.
        - rewrite (Hc2 r Hr). apply Hmm_zero. lia. }
      assert (Hlen' : (S j0 + length rest = ksize a)%nat) by lia.
      destruct (IH (S j0) (Some m') m Hlen' Hinv' H) as [HA HB].
      pose proof (proj1 (cols_loop_rows _ _ _ _ _ _ _ _ H) m' eq_refl) as Hlm.
      split.
      * intros k s r Hk Hr. destruct k as [|k].
        -- inversion Hk; subst s. unfold cell_spec. rewrite Hg, Hio.
           rewrite Nat.add_0_r. rewrite (HB j0 r) by lia. cbn [data_cell].
           assert (Hri : (r < length items)%nat) by lia.
           destruct (Hc1 r Hri) as [v [Hv Hrow]]. rewrite Hrow, Hv. f_equal.
           symmetry. apply nth_upd_same. rewrite Hrowlen by lia. lia.
        -- replace (j0 + S k)%nat with (S j0 + k)%nat by lia. apply HA; assumption.
      * intros j r Hj. rewrite (HB j r) by lia. cbn [data_cell].
        destruct (Nat.ltb_spec r (length items)) as [Hr|Hr].
        -- destruct (Hc1 r Hr) as [v [_ Hrow]]. rewrite Hrow. rewrite nth_upd_other by lia. apply Hmm_cell. exact Hj.
        -- rewrite (Hc2 r Hr). apply Hmm_cell. exact Hj.
    + assert (Hinv' : cols_inv a (S j0) data).
      { destruct data as [d|]; [|exact I]. destruct Hinv as [H1 H2]. split; [exact H1|]. intros; apply H2; lia. }
      assert (Hlen' : (S j0 + length rest = ksize a)%nat) by lia.
      destruct (IH (S j0) data m Hlen' Hinv' H) as [HA HB]. split.
      * intros k s r Hk Hr. destruct k as [|k].
        -- inversion Hk; subst s. unfold cell_spec. rewrite Hg. rewrite Nat.add_0_r.
           rewrite (HB j0 r) by lia. unfold data_cell. destruct data as [d|]; [|reflexivity].
           apply (proj2 Hinv). lia.
        -- replace (j0 + S k)%nat with (S j0 + k)%nat by lia. apply HA; assumption.
      * intros j r Hj. apply HB. lia.
Qed.

(* ------------------------------------------------------------------ argument helpers *)

Section WithCore.
  Variables CM FM WM SM SQ SC : Type.
  Variable K : core CM FM WM SM SQ SC.


  Lemma protein_flag_np p : protein_flag p <> Panic.
  Proof. destruct p; simpl; [|discriminate]. apply obind_np; [apply extract_bool_np | discriminate]. Qed.

  Lemma glue_pseudo_np a pc : PyGlueModel.glue_pseudo a pc <> Panic.
  Proof.
    destruct pc as [v|]; [|discriminate]. unfold PyGlueModel.glue_pseudo.
    destruct v; try discriminate; destruct (extract_f32 _); try discriminate;
      unfold dict_to_alphabet_array; (apply obind_np; [apply d2a_loop_np | discriminate]).
  Qed.

  Lemma zlist_eqb_eq x : forall y, zlist_eqb x y = true <-> x = y.
  Proof.
    induction x as [|a x IH]; destruct y as [|b y]; simpl; split; intros H; try discriminate; auto.
    - apply andb_true_iff in H. destruct H as [H1 H2]. apply Z.eqb_eq in H1. apply IH in H2. congruence.
    - inversion H; subst. rewrite Z.eqb_refl. simpl. apply IH. reflexivity.
  Qed.

  Lemma method_arg_np m : method_arg m <> Panic.
  Proof. destruct m; simpl; [apply extract_str_np | discriminate]. Qed.

  Lemma glue_scan_args_np thr bs : glue_scan_args thr bs <> Panic.
  Proof.
    unfold glue_scan_args. apply obind_np.
    - destruct thr; [apply extract_f32_np | discriminate].
    - intros t _. apply obind_np.
      + destruct bs; [apply extract_usize_np | discriminate].
      + intros b _. destruct (b =? 0); discriminate.
  Qed.

  (* ---------------------------------------------------------------- panics only come from the core *)

  (* LEGACY (rounds 1-3): unconditional totality of every core operation.  No faithful core satisfies
     it (the real scoring pipeline panics without look-ahead rows, the score distribution on NaN, TFM-PVALUE
     on non-finite matrices, ...): theorems under this hypothesis say nothing about the real library.
     Kept only because it implies the guarded record below ([core_total_guarded]); the theorems of C17.v
     use [core_guarded]. *)
  Record core_total : Prop := {
    ct_count_new : forall a m, c_count_new K a m <> CPanic;
    ct_encode_ok : forall a s, c_encode_ok K a s <> CPanic;
    ct_from_seqs : forall a l, c_from_seqs K a l <> CPanic;
    ct_bg_new : forall a p, c_bg_new K a p <> CPanic;
    ct_stripe : forall a s, c_stripe K a s <> CPanic;
    ct_to_freq : forall c p, exists v, c_to_freq K c p = COk v;
    ct_to_weight : forall f, exists v, c_to_weight K f = COk v;
    ct_rescale : forall w g, exists v, c_rescale K w g = COk v;
    ct_to_scoring_base : forall w b, exists v, c_to_scoring_base K w b = COk v;
    ct_scoring_new : forall a g m, exists v, c_scoring_new K a g m = COk v;
    ct_revcomp : forall s, exists v, c_revcomp K s = COk v;
    ct_max_score : forall s, exists v, c_max_score K s = COk v;
    ct_configure : forall q s, exists v, c_configure K q s = COk v;
    ct_score : forall s q, exists v, c_score K s q = COk v;
    ct_threshold : forall sc t, exists v, c_threshold K sc t = COk v;
    ct_max : forall sc, exists v, c_max K sc = COk v;
    ct_argmax : forall sc, exists v, c_argmax K sc = COk v;
    ct_dist_pvalue : forall s x, exists v, c_dist_pvalue K s x = COk v;
    ct_dist_score : forall s x, exists v, c_dist_score K s x = COk v;
    ct_tfm_pvalue : forall s x, exists v, c_tfm_pvalue K s x = COk v;
    ct_tfm_score : forall s x, exists v, c_tfm_score K s x = COk v;
    ct_scan : forall s q t b, exists v, c_scan K s q t b = COk v;
    ct_dist_sf : forall s, exists v, c_dist_sf K s = COk v;
    ct_read : forall f a bs, ~ In (RPanic CM FM) (c_read K f a bs)
  }.

  (* GUARDED totality: each core operation returns a value exactly under the precondition the glue has
     established when it calls it - nothing is promised outside.  [wrap_ok s q]: the sequence q carries
     the look-ahead rows the matrix s needs (what configure establishes).
       score            not empty, wrap_ok                       (ensure_not_empty; configure first)
       scan             no NaN, not empty, wrap_ok, block size > 0    (ensure_ordered(false), ensure_not_empty,
                                                                  configure first, block_size check)
       configure        not empty                                (M - 1 underflows on an empty matrix)
       max_score        no NaN                                   (ensure_ordered(false))
       distribution     no NaN, no +inf, not empty, a finite cell (ensure_ordered(true)); the score asked
                        for is not NaN, the p-value lies in [0, 1]
       TFM-PVALUE       finite symbol scores, not empty (ensure_finite); the score is neither NaN nor
                        infinite, the p-value lies in [0, 1]
       to_scoring       the base is finite, positive and different from one
     The remaining operations are total in the library whatever they are given (constructors returning
     Result, conversions on well-typed values, max / argmax / threshold of a score vector). *)
  (* [sm_ty s a] / [sq_ty q a]: the scoring matrix s / the sequence q is a value of alphabet a.  The Rust types
     ScoringMatrix<A>, StripedSequence<A> make a call with two alphabets impossible; the glue model carries the
     alphabet as a label next to the (untyped) core value, so the promise for score / scan is made for values of
     the same alphabet only.  Instantiate both with [fun _ _ => True] for a core that does not care. *)
  Record core_guarded (sm_ty : SM -> abc -> Prop) (sq_ty : SQ -> abc -> Prop) (wrap_ok : SM -> SQ -> Prop) : Prop := {
    cg_count_new : forall a m, c_count_new K a m <> CPanic;
    cg_encode_ok : forall a s, c_encode_ok K a s <> CPanic;
    cg_from_seqs : forall a l, c_from_seqs K a l <> CPanic;
    cg_bg_new : forall a p, c_bg_new K a p <> CPanic;
    cg_stripe : forall a s, c_stripe K a s <> CPanic;
    cg_to_freq : forall c p, exists v, c_to_freq K c p = COk v;
    cg_to_weight : forall f, exists v, c_to_weight K f = COk v;
    cg_rescale : forall w g, exists v, c_rescale K w g = COk v;
    cg_to_scoring_base : forall w b, base_invalid b = false -> exists v, c_to_scoring_base K w b = COk v;
    cg_scoring_new : forall a g m, exists v, c_scoring_new K a g m = COk v;
    cg_revcomp : forall s, exists v, c_revcomp K s = COk v;
    cg_max_score : forall s, ordered_ok false (c_sm_cells K s) = true -> exists v, c_max_score K s = COk v;
    cg_configure : forall q s, sm_empty (c_sm_cells K s) = false -> exists q', c_configure K q s = COk q';
    cg_conf_ok : forall q s q', c_configure K q s = COk q' -> wrap_ok s q';
    cg_conf_ty : forall a q s q', c_configure K q s = COk q' -> sq_ty q a -> sq_ty q' a;
    cg_score : forall a s q, sm_ty s a -> sq_ty q a -> sm_empty (c_sm_cells K s) = false -> wrap_ok s q ->
               exists v, c_score K s q = COk v;
    cg_threshold : forall sc t, exists v, c_threshold K sc t = COk v;
    cg_max : forall sc, exists v, c_max K sc = COk v;
    cg_argmax : forall sc, exists v, c_argmax K sc = COk v;
    cg_dist_pvalue : forall s x, ordered_ok true (c_sm_cells K s) = true -> f32_is_nan x = false ->
                     exists v, c_dist_pvalue K s x = COk v;
    cg_dist_score : forall s p, ordered_ok true (c_sm_cells K s) = true -> pvalue_in_range p = true ->
                    exists v, c_dist_score K s p = COk v;
    cg_tfm_pvalue : forall s x, finite_ok (c_sm_cells K s) = true -> f64_is_nan x = false -> f64_is_inf x = false ->
                    exists v, c_tfm_pvalue K s x = COk v;
    cg_tfm_score : forall s p, finite_ok (c_sm_cells K s) = true -> pvalue_in_range p = true ->
                   exists v, c_tfm_score K s p = COk v;
    cg_scan : forall a s q t b, sm_ty s a -> sq_ty q a ->
              ordered_ok false (c_sm_cells K s) = true -> sm_empty (c_sm_cells K s) = false ->
              wrap_ok s q -> 0 < b -> exists v, c_scan K s q t b = COk v;
    cg_dist_sf : forall s, ordered_ok true (c_sm_cells K s) = true -> exists v, c_dist_sf K s = COk v;
    cg_read : forall f a bs, ~ In (RPanic CM FM) (c_read K f a bs)
  }.

  (* the legacy hypothesis is the special case in which nothing needs a guard *)
  Lemma core_total_guarded : core_total -> core_guarded (fun _ _ => True) (fun _ _ => True) (fun _ _ => True).
  Proof.
    intros CT. constructor; intros; try exact I;
      first [ apply (ct_count_new CT) | apply (ct_encode_ok CT) | apply (ct_from_seqs CT) | apply (ct_bg_new CT)
            | apply (ct_stripe CT) | apply (ct_to_freq CT) | apply (ct_to_weight CT) | apply (ct_rescale CT)
            | apply (ct_to_scoring_base CT) | apply (ct_scoring_new CT) | apply (ct_revcomp CT)
            | apply (ct_max_score CT) | apply (ct_configure CT) | apply (ct_score CT) | apply (ct_threshold CT)
            | apply (ct_max CT) | apply (ct_argmax CT) | apply (ct_dist_pvalue CT) | apply (ct_dist_score CT)
            | apply (ct_tfm_pvalue CT) | apply (ct_tfm_score CT) | apply (ct_scan CT) | apply (ct_dist_sf CT)
            | apply (ct_read CT) ].
  Qed.

  Lemma lift_np {A} e (r : cres A) : r <> CPanic -> lift e r <> Panic.
  Proof. destruct r; simpl; intros H; try discriminate. congruence. Qed.

  Lemma liftp_np {A} (r : cres A) : (exists v, r = COk v) -> liftp r <> Panic.
  Proof. intros [v ->]. discriminate. Qed.

  Lemma base_two_valid : base_invalid f32_two = false.
  Proof. vm_compute. reflexivity. Qed.

  Lemma extract_usize_range v z : extract_usize v = Value z -> 0 <= z.
  Proof.
    destruct v; simpl; try discriminate.
    - destruct b; intros H; inversion H; lia.
    - destruct (_ && _) eqn:E; [|discriminate]. intros H. inversion H; subst.
      apply andb_true_iff in E. destruct E as [E _]. apply Z.leb_le in E. exact E.
  Qed.

  (* the block size handed to the scanner is a usize different from zero *)
  Lemma glue_scan_args_block thr bs t b : glue_scan_args thr bs = Value (t, b) -> 0 < b.
  Proof.
    unfold glue_scan_args. intros H.
    apply obind_inv_value in H. destruct H as [t0 [_ H]].
    apply obind_inv_value in H. destruct H as [b0 [Hb H]].
    destruct (b0 =? 0) eqn:E; [discriminate|]. inversion H; subst. apply Z.eqb_neq in E.
    assert (0 <= b) by (destruct bs as [v|]; [eapply extract_usize_range; exact Hb | inversion Hb; lia]). lia.
  Qed.

  Section Total.
    Variable sm_ty : SM -> abc -> Prop.
    Variable sq_ty : SQ -> abc -> Prop.
    Variable wrap_ok : SM -> SQ -> Prop.
    Hypothesis CG : core_guarded sm_ty sq_ty wrap_ok.

    Ltac step := first
      [ discriminate
      | apply protein_flag_np | apply glue_pseudo_np | apply method_arg_np | apply glue_scan_args_np
      | apply extract_f64_np | apply extract_f32_np | apply extract_u32_np | apply extract_usize_np
      | apply extract_str_np | apply extract_bool_np | apply extract_dict_np
      | apply d2a_loop_np
      | apply lift_np; first [apply (cg_count_new _ _ _ CG) | apply (cg_encode_ok _ _ _ CG) | apply (cg_from_seqs _ _ _ CG)
                             | apply (cg_bg_new _ _ _ CG) | apply (cg_stripe _ _ _ CG)]
      | apply liftp_np; first [apply (cg_to_freq _ _ _ CG) | apply (cg_to_weight _ _ _ CG) | apply (cg_rescale _ _ _ CG)
                              | apply (cg_scoring_new _ _ _ CG) | apply (cg_revcomp _ _ _ CG)
                              | apply (cg_threshold _ _ _ CG) | apply (cg_max _ _ _ CG) | apply (cg_argmax _ _ _ CG)]
      | (apply obind_np; [|intros ? _]) ].

    Lemma glue_background_np a bg : glue_background K a bg <> Panic.
    Proof.
      unfold glue_background. destruct bg as [v|]; [|discriminate].
      destruct v; try discriminate. unfold dict_to_alphabet_array. repeat step.
    Qed.

    Lemma glue_count_init_np values protein : glue_count_init K values protein <> Panic.
    Proof.
      unfold glue_count_init. repeat step.
      - apply cols_loop_np. apply extract_u32_np.
      - destruct a1; repeat step.
    Qed.

    Lemma glue_normalize_np a c pc : glue_normalize K a c pc <> Panic.
    Proof. unfold glue_normalize. repeat step. Qed.

    (* uses the guard on the base: to_scoring_with_base is only asked for a valid base *)
    Lemma glue_log_odds_np a w bg base : glue_log_odds K a w bg base <> Panic.
    Proof.
      unfold glue_log_odds. apply obind_np; [destruct base; repeat step|]. intros b _.
      destruct (base_invalid b) eqn:Hb; [discriminate|].
      apply obind_np; [apply glue_background_np|]. intros g _.
      apply obind_np; [destruct (f32s_eqb _ _); repeat step|]. intros w' _.
      apply obind_np; [|discriminate]. apply liftp_np. apply (cg_to_scoring_base _ _ _ CG). exact Hb.
    Qed.

    Lemma glue_scoring_init_np values bg protein : glue_scoring_init K values bg protein <> Panic.
    Proof.
      unfold glue_scoring_init. apply obind_np; [step|]. intros kv _.
      apply obind_np; [step|]. intros a _.
      apply obind_np; [apply glue_background_np|]. intros g _.
      apply obind_np; [apply cols_loop_np; apply extract_f32_np|]. intros d _.
      destruct d; repeat step.
    Qed.

    Lemma glue_stripe_np sequence protein : glue_stripe K sequence protein <> Panic.
    Proof. unfold glue_stripe. repeat step. Qed.

    (* uses ensure_not_empty and the configure-before-score order: the score is asked for the
       sequence configure returned, which satisfies wrap_ok *)
    Lemma abc_eqb_eq a b : abc_eqb a b = true -> a = b.
    Proof. destruct a, b; simpl; intros H; try discriminate; reflexivity. Qed.

    Lemma glue_calculate_np a s aq q :
      sm_ty s a -> sq_ty q aq -> fst (glue_calculate K a s aq q) <> Panic.
    Proof.
      intros Hs Hq0. unfold glue_calculate. destruct (sm_empty _) eqn:He; [discriminate|].
      destruct (abc_eqb a aq) eqn:Ea; [|discriminate]. apply abc_eqb_eq in Ea. subst aq.
      destruct (cg_configure _ _ _ CG q s He) as [q' Hq]. rewrite Hq. cbn [fst].
      apply obind_np; [|discriminate]. apply liftp_np. apply (cg_score _ _ _ CG a); [exact Hs | | exact He |].
      - eapply (cg_conf_ty _ _ _ CG); eauto.
      - eapply (cg_conf_ok _ _ _ CG); exact Hq.
    Qed.

    Lemma glue_threshold_np sc t : glue_threshold K sc t <> Panic.
    Proof. unfold glue_threshold. repeat step. Qed.
    Lemma glue_max_np sc : glue_max K sc <> Panic.
    Proof. unfold glue_max. repeat step. Qed.
    Lemma glue_argmax_np sc : glue_argmax K sc <> Panic.
    Proof. unfold glue_argmax. repeat step. Qed.

    (* uses the NaN / infinity check of the score, ensure_finite and ensure_ordered(true) *)
    Lemma glue_pvalue_np s x m : glue_pvalue K s x m <> Panic.
    Proof.
      unfold glue_pvalue. apply obind_np; [step|]. intros v _. apply obind_np; [step|]. intros mm _.
      destruct (f64_is_nan v || _) eqn:Hg; [discriminate|].
      apply orb_false_iff in Hg. destruct Hg as [Hnan Hinf].
      destruct (zlist_eqb mm str_tfmpvalue) eqn:Hm.
      - rewrite andb_true_r in Hinf.
        destruct (finite_ok _) eqn:Hf; [|discriminate].
        apply obind_np; [|discriminate]. apply liftp_np. apply (cg_tfm_pvalue _ _ _ CG); assumption.
      - destruct (zlist_eqb mm str_meme); [|discriminate].
        destruct (ordered_ok _ _) eqn:Ho; [|discriminate].
        apply obind_np; [|discriminate]. apply liftp_np. apply (cg_dist_pvalue _ _ _ CG); [exact Ho|].
        apply f64_to_f32_not_nan. exact Hnan.
    Qed.

    (* uses the range check of the p-value, ensure_finite and ensure_ordered(true) *)
    Lemma glue_score_np s x m : glue_score K s x m <> Panic.
    Proof.
      unfold glue_score. apply obind_np; [step|]. intros v _. apply obind_np; [step|]. intros mm _.
      destruct (negb (pvalue_in_range v)) eqn:Hr; [discriminate|]. apply negb_false_iff in Hr.
      destruct (zlist_eqb mm str_tfmpvalue).
      - destruct (finite_ok _) eqn:Hf; [|discriminate].
        apply obind_np; [|discriminate]. apply liftp_np. apply (cg_tfm_score _ _ _ CG); assumption.
      - destruct (zlist_eqb mm str_meme); [|discriminate].
        destruct (ordered_ok _ _) eqn:Ho; [|discriminate].
        apply obind_np; [|discriminate]. apply liftp_np. apply (cg_dist_score _ _ _ CG); assumption.
    Qed.

    (* uses ensure_ordered(false) *)
    Lemma glue_max_score_np s : glue_max_score K s <> Panic.
    Proof.
      unfold glue_max_score. destruct (ordered_ok _ _) eqn:Ho; [|discriminate].
      apply obind_np; [|discriminate]. apply liftp_np. apply (cg_max_score _ _ _ CG). exact Ho.
    Qed.

    Lemma glue_revcomp_np a s : glue_revcomp K a s <> Panic.
    Proof. unfold glue_revcomp. destruct a; repeat step. Qed.

    (* uses ensure_ordered(false), ensure_not_empty, configure-before-scan and the block size check *)
    Lemma glue_scan_np a s aq q t b :
      sm_ty s a -> sq_ty q aq -> 0 < b -> fst (glue_scan K a s aq q t b) <> Panic.
    Proof.
      intros Hs Hq0 Hb. unfold glue_scan. destruct (negb _) eqn:Ho; [discriminate|]. apply negb_false_iff in Ho.
      destruct a, aq; try discriminate.
      destruct (sm_empty _) eqn:He; [discriminate|].
      destruct (cg_configure _ _ _ CG q s He) as [q' Hq]. rewrite Hq. cbn [fst].
      apply obind_np; [|discriminate]. apply liftp_np. apply (cg_scan _ _ _ CG Dna); try assumption.
      - eapply (cg_conf_ty _ _ _ CG); eauto.
      - eapply (cg_conf_ok _ _ _ CG); exact Hq.
    Qed.

    Lemma motif_from_counts_np a nm k c : motif_from_counts K a nm k c <> Panic.
    Proof.
      unfold motif_from_counts. repeat step.
      apply liftp_np. apply (cg_to_scoring_base _ _ _ CG). exact base_two_valid.
    Qed.

    Lemma motif_from_freq_np a nm k f : motif_from_freq K a nm k f <> Panic.
    Proof.
      unfold motif_from_freq. repeat step.
      apply liftp_np. apply (cg_to_scoring_base _ _ _ CG). exact base_two_valid.
    Qed.

    Lemma create_loop_np a items : create_loop K a items <> Panic.
    Proof. induction items as [|v r IH]; [discriminate|]. cbn [create_loop]. repeat step. exact IH. Qed.

    Lemma glue_create_np seqs protein name : glue_create K seqs protein name <> Panic.
    Proof.
      unfold glue_create. apply obind_np; [step|]. intros a _.
      apply obind_np; [destruct name as [v|]; [destruct v|]; repeat step|]. intros nm _.
      destruct (iter_items seqs); [|discriminate].
      apply obind_np; [apply create_loop_np|]. intros strs _.
      apply obind_np; [step|]. intros c _.
      apply obind_np; [apply motif_from_counts_np | discriminate].
    Qed.

    Lemma convert_record_np a r : convert_record K a r <> Panic.
    Proof.
      destruct r; simpl; [apply motif_from_counts_np | apply motif_from_freq_np|].
      destruct c; [apply motif_from_counts_np | discriminate].
    Qed.

    Lemma load_items_np a items : ~ In (RPanic CM FM) items -> snd (load_items K a items) <> Panic.
    Proof.
      induction items as [|it r IH]; intros Hn; [discriminate|].
      destruct it as [rec|e|]; cbn [load_items].
      - destruct (convert_record K a rec) eqn:E; try discriminate.
        + destruct (load_items K a r) as [ms t] eqn:El. cbn [snd] in *.
          apply IH. intros H; apply Hn; right; exact H.
        + exfalso. eapply convert_record_np; eauto.
      - discriminate.
      - exfalso. apply Hn. left; reflexivity.
    Qed.

    Lemma glue_load_np file format protein : glue_load K file format protein <> Panic.
    Proof.
      unfold glue_load. apply obind_np; [destruct format; repeat step|]. intros f _.
      apply obind_np; [step|]. intros a _.
      assert (Hf : forall k : outcome fmt, (k = format_of f a) -> k <> Panic).
      { intros k ->. unfold format_of. destruct (zlist_eqb f str_jaspar); [destruct a; discriminate|].
        destruct (zlist_eqb f str_jaspar16); [discriminate|]. destruct (zlist_eqb f str_transfac); [discriminate|].
        destruct (zlist_eqb f str_uniprobe); discriminate. }
      destruct file; try discriminate.
      - apply obind_np; [apply Hf; reflexivity|]. intros k _.
        destruct (load_items K a (c_read K k a bytes)); discriminate.
      - apply obind_np; [apply Hf; reflexivity |]. intros k _.
        destruct (c_read_faulty K desc k a) as [[|] items]; discriminate.
    Qed.

    Lemma glue_encode_np sequence protein : glue_encode K sequence protein <> Panic.
    Proof. unfold glue_encode. repeat step. Qed.

    Lemma glue_enc_stripe_np a s : glue_enc_stripe K a s <> Panic.
    Proof. unfold glue_enc_stripe. repeat step. Qed.

    Lemma glue_copy_np o : glue_copy CM WM SM SQ SC o <> Panic.
    Proof. destruct o; discriminate. Qed.

    (* uses ensure_ordered(true) *)
    Lemma glue_dist_np s : glue_dist K s <> Panic.
    Proof.
      unfold glue_dist. destruct (ordered_ok _ _) eqn:Ho; [|discriminate].
      apply obind_np; [|discriminate]. apply liftp_np. apply (cg_dist_sf _ _ _ CG). exact Ho.
    Qed.

    (* the labels of the scoring matrices and sequences of a state agree with the values *)
    Definition st_typed (st : state CM WM SM SQ SC) : Prop :=
      forall n o, lookup _ _ _ _ _ st n = Some o ->
        match o with
        | OScoring _ _ _ _ _ a s => sm_ty s a
        | OSeq _ _ _ _ _ a q => sq_ty q a
        | _ => True
        end.

    (* no call made in a well-labelled state ends in a PanicException *)
    Lemma run_call_np st c : st_typed st -> fst (run_call K st c) <> Done _ _ _ _ _ Panic.
    Proof.
      intros Hty.
      assert (Hstore : forall st dst (o : outcome (obj CM WM SM SQ SC)),
                 o <> Panic -> fst (store CM WM SM SQ SC st dst o) <> Done _ _ _ _ _ Panic).
      { intros st0 dst o Ho. destruct o; simpl; try discriminate. congruence. }
      assert (Hdone : forall (o : outcome (result CM WM SM SQ SC)) (st0 : state CM WM SM SQ SC),
                 o <> Panic -> fst (Done _ _ _ _ _ o, st0) <> Done _ _ _ _ _ Panic).
      { intros o st0 Ho. simpl. congruence. }
      destruct c; cbn [run_call].
      - apply Hstore, glue_count_init_np.
      - destruct (lookup _ _ _ _ _ st self) as [[]|]; try discriminate. apply Hstore, glue_normalize_np.
      - destruct (lookup _ _ _ _ _ st self) as [[]|]; try discriminate. apply Hstore, glue_log_odds_np.
      - apply Hstore, glue_scoring_init_np.
      - apply Hstore, glue_stripe_np.
      - destruct (lookup _ _ _ _ _ st self) as [[]|] eqn:Eself; try discriminate.
        destruct sequence; try (apply Hstore; discriminate).
        destruct (lookup _ _ _ _ _ st slot) as [[]|] eqn:Eslot; try discriminate; try (apply Hstore; discriminate).
        destruct (glue_calculate K a s a0 q) as [o q'] eqn:E. apply Hstore.
        replace o with (fst (glue_calculate K a s a0 q)) by (rewrite E; reflexivity).
        apply glue_calculate_np; [exact (Hty _ _ Eself) | exact (Hty _ _ Eslot)].
      - destruct (lookup _ _ _ _ _ st self) as [[]|]; try discriminate. apply Hdone, glue_threshold_np.
      - destruct (lookup _ _ _ _ _ st self) as [[]|]; try discriminate. apply Hdone, glue_max_np.
      - destruct (lookup _ _ _ _ _ st self) as [[]|]; try discriminate. apply Hdone, glue_argmax_np.
      - destruct (lookup _ _ _ _ _ st self) as [[]|]; try discriminate. apply Hdone, glue_pvalue_np.
      - destruct (lookup _ _ _ _ _ st self) as [[]|]; try discriminate. apply Hdone, glue_score_np.
      - destruct (lookup _ _ _ _ _ st self) as [[]|]; try discriminate. apply Hdone, glue_max_score_np.
      - destruct (lookup _ _ _ _ _ st self) as [[]|]; try discriminate. apply Hstore, glue_revcomp_np.
      - destruct pssm, sequence; try (apply Hstore; discriminate);
          try (destruct (lookup _ _ _ _ _ st slot) as [[]|]; try discriminate; apply Hstore; discriminate).
        destruct (lookup _ _ _ _ _ st slot) as [[]|] eqn:Eslot; destruct (lookup _ _ _ _ _ st slot0) as [[]|] eqn:Eslot0;
          try discriminate; try (apply Hstore; discriminate).
        destruct (glue_scan_args thr bs) as [[t b]|e|] eqn:Ea.
        + destruct (glue_scan K a s a0 q t b) as [o q'] eqn:E. apply Hstore.
          replace o with (fst (glue_scan K a s a0 q t b)) by (rewrite E; reflexivity).
          apply glue_scan_np; [exact (Hty _ _ Eslot) | exact (Hty _ _ Eslot0) | eapply glue_scan_args_block; exact Ea].
        + apply Hstore; discriminate.
        + exfalso. eapply glue_scan_args_np; eauto.
      - destruct (lookup _ _ _ _ _ st self) as [[]|]; try discriminate.
        destruct (glue_next _ _ _ _ _ hits k). discriminate.
      - apply Hstore, glue_create_np.
      - destruct (lookup _ _ _ _ _ st self) as [[]|]; try discriminate.
        destruct (motif_part _ _ _ _ _ m which); [apply Hstore|]; discriminate.
      - destruct (glue_load K file format protein) as [r|e|] eqn:E.
        + destruct r; discriminate.
        + discriminate.
        + exfalso. eapply glue_load_np; eauto.
      - destruct (lookup _ _ _ _ _ st self) as [[]|]; try discriminate.
        destruct (nth_error ms idx); try discriminate.
        destruct (motif_part _ _ _ _ _ m which); [apply Hstore|]; discriminate.
      - destruct (lookup _ _ _ _ _ st self); discriminate.
      - apply Hstore, glue_encode_np.
      - destruct (lookup _ _ _ _ _ st self) as [[]|]; try discriminate. apply Hstore, glue_enc_stripe_np.
      - destruct (lookup _ _ _ _ _ st self); try discriminate. apply Hstore, glue_copy_np.
      - destruct (lookup _ _ _ _ _ st self); try discriminate.
        destruct other; try (destruct (glue_eq K o None); discriminate).
        destruct (lookup _ _ _ _ _ st slot); try discriminate.
        destruct (glue_eq K o _); discriminate.
      - destruct (lookup _ _ _ _ _ st self) as [[]|]; discriminate.
      - destruct (lookup _ _ _ _ _ st self) as [[]|]; try discriminate. apply Hstore, glue_dist_np.
      - apply Hstore; discriminate.
      - destruct (lookup _ _ _ _ _ st file) as [[]|]; try discriminate. apply Hstore.
        unfold glue_loader_new. apply obind_np; [destruct format; repeat step|]. intros f _.
        apply obind_np; [apply protein_flag_np|]. intros a _.
        apply obind_np; [|discriminate].
        unfold format_of. destruct (zlist_eqb f str_jaspar); [destruct a; discriminate|].
        destruct (zlist_eqb f str_jaspar16); [discriminate|]. destruct (zlist_eqb f str_transfac); [discriminate|].
        destruct (zlist_eqb f str_uniprobe); discriminate.
      - destruct (lookup _ _ _ _ _ st self) as [[]|]; try discriminate.
        destruct (lazy_take K a id calls k). discriminate.
    Qed.
  End Total.

  (* ---------------------------------------------------------------- scanner iteration *)

  Fixpoint next_all (hits : list (Z * Z)) (ks : list (option nat)) : list (Z * Z) :=
    match ks with
    | [] => []
    | k :: r =>
        match glue_next CM WM SM SQ SC hits k with
        | (RHits _ _ _ _ _ h _, rest) => h ++ next_all rest r
        | (_, rest) => next_all rest r
        end
    end.

  Lemma next_all_exhaust ks : forall hits, next_all hits (ks ++ [None]) = hits.
  Proof.
    induction ks as [|k r IH]; intros hits.
    - simpl. apply app_nil_r.
    - cbn [app next_all]. unfold glue_next. destruct k as [n|].
      + destruct (Nat.leb n (length hits)).
        * rewrite IH. apply firstn_skipn.
        * rewrite IH. apply app_nil_r.
      + rewrite IH. apply app_nil_r.
  Qed.

  Lemma next_all_prefix ks : forall hits, exists rest, hits = next_all hits ks ++ rest.
  Proof.
    induction ks as [|k r IH]; intros hits.
    - exists hits. reflexivity.
    - cbn [next_all]. unfold glue_next. destruct k as [n|].
      + destruct (Nat.leb n (length hits)).
        * destruct (IH (skipn n hits)) as [rest Hr]. exists rest.
          rewrite <- app_assoc, <- Hr. symmetry. apply firstn_skipn.
        * destruct (IH []) as [rest Hr]. exists []. rewrite app_nil_r.
          destruct r; simpl in *; [rewrite app_nil_r; reflexivity|].
          clear Hr. assert (forall ks, next_all [] ks = []).
          { clear. induction ks as [|k r IH]; [reflexivity|]. cbn [next_all]. unfold glue_next.
            destruct k as [n|]; [destruct (Nat.leb n (length (@nil (Z*Z)))) eqn:E|]; simpl; try rewrite IH; try reflexivity.
            destruct n; simpl; rewrite IH; reflexivity. }
          change (hits = hits ++ next_all [] (o :: r)). rewrite H. rewrite app_nil_r. reflexivity.
      + exists []. rewrite app_nil_r.
        assert (forall ks, next_all [] ks = []).
        { clear. induction ks as [|k r IH]; [reflexivity|]. cbn [next_all]. unfold glue_next.
          destruct k as [n|]; [destruct (Nat.leb n (length (@nil (Z*Z)))) eqn:E|]; simpl; try rewrite IH; try reflexivity.
          destruct n; simpl; rewrite IH; reflexivity. }
        rewrite H. rewrite app_nil_r. reflexivity.
  Qed.

  (* ---------------------------------------------------------------- calculate: histories *)

  Section History.
    Variable T : Type.
    Variable text : SQ -> T.
    Variable wrap_ok : SM -> SQ -> Prop.
    (* C04 (configure_wrap_spec) and C01 (score depends on the sequence text only, once the
       look-ahead rows cover the motif) *)
    Hypothesis conf_total : forall q s, exists q', c_configure K q s = COk q'.
    Hypothesis conf_text : forall q s q', c_configure K q s = COk q' -> text q' = text q.
    Hypothesis conf_ok : forall q s q', c_configure K q s = COk q' -> wrap_ok s q'.
    Hypothesis score_text : forall s q1 q2,
        wrap_ok s q1 -> wrap_ok s q2 -> text q1 = text q2 -> c_score K s q1 = c_score K s q2.
    Hypothesis scan_text : forall s q1 q2 t b,
        wrap_ok s q1 -> wrap_ok s q2 -> text q1 = text q2 -> c_scan K s q1 t b = c_scan K s q2 t b.

    Lemma calculate_text a s aq q : text (snd (glue_calculate K a s aq q)) = text q.
    Proof.
      unfold glue_calculate. destruct (sm_empty _); [reflexivity|]. destruct (abc_eqb a aq); [|reflexivity].
      destruct (c_configure K q s) eqn:E; try reflexivity. simpl. eapply conf_text; eauto.
    Qed.

    Lemma calculate_indep a s aq q1 q2 :
      text q1 = text q2 -> fst (glue_calculate K a s aq q1) = fst (glue_calculate K a s aq q2).
    Proof.
      intros Ht. unfold glue_calculate. destruct (sm_empty _); [reflexivity|]. destruct (abc_eqb a aq); [|reflexivity].
      destruct (conf_total q1 s) as [q1' E1]. destruct (conf_total q2 s) as [q2' E2].
      rewrite E1, E2. cbn [fst].
      rewrite (score_text s q1' q2'); eauto.
      rewrite (conf_text _ _ _ E1), (conf_text _ _ _ E2). exact Ht.
    Qed.

    Lemma scan_text_inv a s aq q t b : text (snd (glue_scan K a s aq q t b)) = text q.
    Proof.
      unfold glue_scan. destruct (negb _); [reflexivity|]. destruct a, aq; try reflexivity.
      destruct (sm_empty _); [reflexivity|].
      destruct (c_configure K q s) eqn:E; try reflexivity. simpl. eapply conf_text; eauto.
    Qed.

    Lemma scan_indep a s aq q1 q2 t b :
      text q1 = text q2 -> fst (glue_scan K a s aq q1 t b) = fst (glue_scan K a s aq q2 t b).
    Proof.
      intros Ht. unfold glue_scan. destruct (negb _); [reflexivity|]. destruct a, aq; try reflexivity.
      destruct (sm_empty _); [reflexivity|].
      destruct (conf_total q1 s) as [q1' E1]. destruct (conf_total q2 s) as [q2' E2].
      rewrite E1, E2. cbn [fst].
      rewrite (scan_text s q1' q2' t b); eauto.
      rewrite (conf_text _ _ _ E1), (conf_text _ _ _ E2). exact Ht.
    Qed.

    (* one sequence object used by a list of calculate / scan calls, in any order *)
    Inductive use := UCalc (a : abc) (s : SM) | UScan (a : abc) (s : SM) (t b : Z).

    Definition use_once (aq : abc) (q : SQ) (u : use) : outcome (obj CM WM SM SQ SC) * SQ :=
      match u with
      | UCalc a s => glue_calculate K a s aq q
      | UScan a s t b => glue_scan K a s aq q t b
      end.

    Fixpoint use_all (aq : abc) (q : SQ) (us : list use) : list (outcome (obj CM WM SM SQ SC)) :=
      match us with
      | [] => []
      | u :: r => let (o, q') := use_once aq q u in o :: use_all aq q' r
      end.

    Lemma use_all_indep aq us : forall q q0,
      text q = text q0 -> use_all aq q us = map (fun u => fst (use_once aq q0 u)) us.
    Proof.
      induction us as [|u r IH]; intros q q0 Ht; [reflexivity|].
      cbn [use_all map]. destruct (use_once aq q u) as [o q'] eqn:E.
      assert (Ho : o = fst (use_once aq q0 u)).
      { replace o with (fst (use_once aq q u)) by (rewrite E; reflexivity).
        destruct u; simpl; [apply calculate_indep | apply scan_indep]; exact Ht. }
      assert (Hq : text q' = text q0).
      { replace q' with (snd (use_once aq q u)) by (rewrite E; reflexivity).
        rewrite <- Ht. destruct u; simpl; [apply calculate_text | apply scan_text_inv]. }
      rewrite Ho. f_equal. apply IH. exact Hq.
    Qed.
  End History.

End WithCore.
