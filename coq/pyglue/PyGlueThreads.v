(* Calls that do not share a written object are independent: whatever the order in which two
   threads' calls are interleaved, every call gives the outcome it gives when its thread runs alone.
   (The GIL makes every call of the module atomic, except that calculate / threshold / max / argmax /
   create release it while they compute on data they have borrowed; the `mt` cases of the
   correspondence run check that this is not observable.)  Lemmas for C17.v. *)
From Coq Require Import List ZArith Bool Lia.
From LMBase Require Import ListX IEEE.
From LMPyGlue Require Import PyGlueModel.
Import ListNotations.
Open Scope Z_scope.

Local Arguments OScoring {CM WM SM SQ SC}.
Local Arguments OSeq {CM WM SM SQ SC}.
Local Arguments OScanner {CM WM SM SQ SC}.
Local Arguments Done {CM WM SM SQ SC}.
Local Arguments Unbound {CM WM SM SQ SC}.

Section Threads.
  Variables CM FM WM SM SQ SC : Type.
  Variable K : core CM FM WM SM SQ SC.

  Notation obj := (obj CM WM SM SQ SC).
  Notation state := (state CM WM SM SQ SC).
  Notation step := (step CM WM SM SQ SC).
  Notation lookup := (lookup CM WM SM SQ SC).
  Notation unbind := (unbind CM WM SM SQ SC).
  Notation bind_slot := (bind_slot CM WM SM SQ SC).
  Notation store := (store CM WM SM SQ SC).

  Definition ref_of (v : pyval) : list nat := match v with PRef n => [n] | _ => [] end.

  (* the names whose objects a call looks at *)
  Definition reads (c : call) : list nat :=
    match c with
    | KCountInit _ _ _ | KScoringInit _ _ _ _ | KStripe _ _ _ | KCreate _ _ _ _ | KLoad _ _ _ _
    | KEncode _ _ _ | KFileNew _ => []
    | KNormalize _ self _ | KLogOdds _ self _ _ | KRevcomp _ self | KGetMotif _ self _
    | KGetLoaded _ self _ _ | KEncStripe _ self | KCopy _ self | KDist _ self
    | KThreshold self _ | KMax self | KArgmax self | KPvalue self _ _ | KScore self _ _ | KMaxScore self
    | KStr self | KNext self _ | KLoaderNext self _ | KDelete self => [self]
    | KCalculate _ self seq => self :: ref_of seq
    | KScan _ pssm seq _ _ => ref_of pssm ++ ref_of seq
    | KEq self other => self :: ref_of other
    | KLoaderNew _ file _ _ => [file]
    end.

  (* the names a call may rebind: its destination, the sequence it reconfigures, the scanner /
     loader it advances, the name it deletes *)
  Definition writes (c : call) : list nat :=
    match c with
    | KCountInit d _ _ | KNormalize d _ _ | KLogOdds d _ _ _ | KScoringInit d _ _ _ | KStripe d _ _
    | KRevcomp d _ | KCreate d _ _ _ | KGetMotif d _ _ | KLoad d _ _ _ | KGetLoaded d _ _ _
    | KEncode d _ _ | KEncStripe d _ | KCopy d _ | KDist d _ | KFileNew d | KLoaderNew d _ _ _ => [d]
    | KCalculate d _ seq => d :: ref_of seq
    | KScan d _ seq _ _ => d :: ref_of seq
    | KNext n _ | KDelete n | KLoaderNext n _ => [n]
    | KThreshold _ _ | KMax _ | KArgmax _ | KPvalue _ _ _ | KScore _ _ _ | KMaxScore _ | KEq _ _ | KStr _ => []
    end.

  Definition agree (S : list nat) (st st' : state) : Prop := forall m, In m S -> lookup st m = lookup st' m.

  Lemma lookup_unbind_ne (st : state) n m : n <> m -> lookup (unbind st n) m = lookup st m.
  Proof.
    intros Hnm. induction st as [|[k o] r IH]; [reflexivity|]. cbn [PyGlueModel.unbind PyGlueModel.lookup].
    destruct (Nat.eqb k n) eqn:E1.
    - apply Nat.eqb_eq in E1. subst k. rewrite IH.
      destruct (Nat.eqb n m) eqn:E2; [apply Nat.eqb_eq in E2; congruence | reflexivity].
    - cbn [PyGlueModel.lookup]. rewrite IH. reflexivity.
  Qed.

  Lemma lookup_unbind_eq (st : state) n : lookup (unbind st n) n = None.
  Proof.
    induction st as [|[k o] r IH]; [reflexivity|]. cbn [PyGlueModel.unbind].
    destruct (Nat.eqb k n) eqn:E1; [exact IH|]. cbn [PyGlueModel.lookup]. rewrite E1. exact IH.
  Qed.

  Lemma lookup_bind (st : state) n o m :
    lookup (bind_slot st n o) m = if Nat.eqb n m then Some o else lookup st m.
  Proof. reflexivity. Qed.

  Lemma lookup_unbind (st : state) n m :
    lookup (unbind st n) m = if Nat.eqb n m then None else lookup st m.
  Proof.
    destruct (Nat.eqb n m) eqn:E.
    - apply Nat.eqb_eq in E. subst m. apply lookup_unbind_eq.
    - apply Nat.eqb_neq in E. apply lookup_unbind_ne. exact E.
  Qed.

  Lemma lookup_store (st : state) d o m :
    lookup (snd (store st d o)) m =
    if Nat.eqb d m then (match o with Value v => Some v | _ => None end) else lookup st m.
  Proof.
    destruct o; cbn [PyGlueModel.store snd]; rewrite ?lookup_bind, ?lookup_unbind;
      destruct (Nat.eqb d m); reflexivity.
  Qed.

  Ltac use_agree H st' :=
    repeat match goal with
           | |- context [PyGlueModel.lookup _ _ _ _ _ st' ?x] =>
               rewrite <- (H x) by (cbn [In app ref_of]; tauto)
           end.

  Ltac break :=
    repeat match goal with
           | |- context [match ?x with _ => _ end] => destruct x eqn:?
           | |- context [let (_, _) := ?x in _] => destruct x eqn:?
           end.

  Lemma fst_store (st st' : state) d o : fst (store st d o) = fst (store st' d o).
  Proof. destruct o; reflexivity. Qed.

  (* the step of a call depends only on the objects it reads ... *)
  Lemma local_step (st st' : state) c :
    agree (reads c) st st' -> fst (run_call K st c) = fst (run_call K st' c).
  Proof.
    intros H. unfold agree in H.
    destruct c; try destruct sequence; try destruct pssm; try destruct other;
      cbn [run_call reads ref_of app] in *; use_agree H st'; break; cbn [fst]; try apply fst_store; try reflexivity.
  Qed.
  Ltac split_in Hm :=
    cbn [writes ref_of In app] in Hm;
    repeat match type of Hm with
           | _ \/ _ => destruct Hm as [Hm|Hm]
           | False => contradiction
           end.

  Ltac finish H :=
    cbn [snd]; rewrite ?lookup_store, ?lookup_bind, ?lookup_unbind, ?Nat.eqb_refl;
    repeat match goal with |- context [Nat.eqb ?a ?b] => destruct (Nat.eqb a b) eqn:? end;
    try reflexivity; try (apply H; cbn [In app ref_of]; tauto).

  (* ... so do the objects it leaves under the names it writes ... *)
  Lemma local_writes (st st' : state) c m :
    agree (reads c) st st' -> In m (writes c) ->
    lookup (snd (run_call K st c)) m = lookup (snd (run_call K st' c)) m.
  Proof.
    intros H Hm. unfold agree in H.
    destruct c; try destruct sequence; try destruct pssm; try destruct other;
      cbn [run_call reads ref_of app] in *; use_agree H st'; split_in Hm; subst; break; finish H.
  Qed.

  (* ... and every other name is left alone *)
  Lemma local_frame (st : state) c m :
    ~ In m (writes c) -> lookup (snd (run_call K st c)) m = lookup st m.
  Proof.
    intros Hm.
    destruct c; try destruct sequence; try destruct pssm; try destruct other;
      cbn [run_call writes ref_of In app] in *; break; cbn [snd];
      rewrite ?lookup_store, ?lookup_bind, ?lookup_unbind;
      repeat match goal with
             | |- context [Nat.eqb ?a ?b] =>
                 let E := fresh "E" in destruct (Nat.eqb a b) eqn:E; [apply Nat.eqb_eq in E; subst; exfalso; tauto|]
             end; reflexivity.
  Qed.
  (* ---------------------------------------------------------------- two threads *)

  (* calls tagged with the thread that makes them, run in the given (interleaved) order *)
  Fixpoint run_tagged (st : state) (l : list (bool * call)) : list (bool * step) :=
    match l with
    | [] => []
    | (b, c) :: r => let (o, st') := run_call K st c in (b, o) :: run_tagged st' r
    end.

  Definition proj {A} (b : bool) (l : list (bool * A)) : list A :=
    map snd (filter (fun x => Bool.eqb (fst x) b) l).

  Definition footprint (cs : list call) : list nat := flat_map (fun c => reads c ++ writes c) cs.
  Definition wset (cs : list call) : list nat := flat_map writes cs.

  (* no thread writes a name the other one reads or writes (a shared matrix that both only read is fine;
     a shared sequence is not: calculate / scan reconfigure it) *)
  Definition separate (t1 t2 : list call) : Prop :=
    (forall m, In m (wset t1) -> ~ In m (footprint t2)) /\
    (forall m, In m (wset t2) -> ~ In m (footprint t1)).

  Lemma separate_tail1 c t1 t2 : separate (c :: t1) t2 -> separate t1 t2.
  Proof.
    intros [H1 H2]. split.
    - intros m Hm. apply H1. unfold wset. cbn [flat_map]. apply in_or_app. right. exact Hm.
    - intros m Hm Hf. apply (H2 m Hm). unfold footprint. cbn [flat_map]. apply in_or_app. right. exact Hf.
  Qed.

  Lemma separate_sym t1 t2 : separate t1 t2 -> separate t2 t1.
  Proof. intros [H1 H2]. split; assumption. Qed.

  (* one call of a thread: the thread's own view and the shared state stay in agreement on the
     thread's footprint, and the other thread's footprint is not touched *)
  Lemma thread_step (st s1 s2 : state) c t1 t2 :
    agree (footprint (c :: t1)) st s1 -> agree (footprint t2) st s2 -> separate (c :: t1) t2 ->
    fst (run_call K st c) = fst (run_call K s1 c) /\
    agree (footprint t1) (snd (run_call K st c)) (snd (run_call K s1 c)) /\
    agree (footprint t2) (snd (run_call K st c)) s2.
  Proof.
    intros A1 A2 [S1 S2].
    assert (Ar : agree (reads c) st s1).
    { intros m Hm. apply A1. unfold footprint. cbn [flat_map]. apply in_or_app. left. apply in_or_app. left. exact Hm. }
    split; [apply local_step; exact Ar|]. split.
    - intros m Hm. destruct (in_dec Nat.eq_dec m (writes c)) as [Hw|Hw].
      + apply local_writes; assumption.
      + rewrite !local_frame by exact Hw. apply A1. unfold footprint. cbn [flat_map]. apply in_or_app. right. exact Hm.
    - intros m Hm. rewrite local_frame; [apply A2; exact Hm|].
      intros Hw. apply (S1 m); [|exact Hm]. unfold wset. cbn [flat_map]. apply in_or_app. left. exact Hw.
  Qed.

  Lemma interleaved (l : list (bool * call)) : forall (st s1 s2 : state),
    agree (footprint (proj true l)) st s1 -> agree (footprint (proj false l)) st s2 ->
    separate (proj true l) (proj false l) ->
    proj true (run_tagged st l) = run_history K s1 (proj true l) /\
    proj false (run_tagged st l) = run_history K s2 (proj false l).
  Proof.
    induction l as [|[b c] r IH]; intros st s1 s2 A1 A2 Hs; [split; reflexivity|].
    cbn [run_tagged]. destruct b.
    - change (proj true ((true, c) :: r)) with (c :: proj true r) in *.
      change (proj false ((true, c) :: r)) with (proj false r) in *.
      destruct (thread_step st s1 s2 c _ _ A1 A2 Hs) as [E [B1 B2]].
      cbn [run_history]. destruct (run_call K st c) as [o st'], (run_call K s1 c) as [o1 s1'].
      cbn [fst snd] in *. subst o1.
      destruct (IH st' s1' s2 B1 B2 (separate_tail1 _ _ _ Hs)) as [I1 I2].
      change (proj true ((true, o) :: run_tagged st' r)) with (o :: proj true (run_tagged st' r)).
      change (proj false ((true, o) :: run_tagged st' r)) with (proj false (run_tagged st' r)).
      rewrite I1, I2. split; reflexivity.
    - change (proj true ((false, c) :: r)) with (proj true r) in *.
      change (proj false ((false, c) :: r)) with (c :: proj false r) in *.
      destruct (thread_step st s2 s1 c _ _ A2 A1 (separate_sym _ _ Hs)) as [E [B1 B2]].
      cbn [run_history]. destruct (run_call K st c) as [o st'], (run_call K s2 c) as [o2 s2'].
      cbn [fst snd] in *. subst o2.
      destruct (IH st' s1 s2' B2 B1 (separate_sym _ _ (separate_tail1 _ _ _ (separate_sym _ _ Hs)))) as [I1 I2].
      change (proj true ((false, o) :: run_tagged st' r)) with (proj true (run_tagged st' r)).
      change (proj false ((false, o) :: run_tagged st' r)) with (o :: proj false (run_tagged st' r)).
      rewrite I1, I2. split; reflexivity.
  Qed.

  (* whatever the interleaving, each thread obtains what it obtains running alone from the same state *)
  Theorem threads_independent (st : state) (l : list (bool * call)) :
    separate (proj true l) (proj false l) ->
    proj true (run_tagged st l) = run_history K st (proj true l) /\
    proj false (run_tagged st l) = run_history K st (proj false l).
  Proof. intros H. apply interleaved; auto; intros m _; reflexivity. Qed.
End Threads.

Arguments run_tagged {CM FM WM SM SQ SC} K.
