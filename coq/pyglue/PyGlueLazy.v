(* The Python Scanner as lazy state over the *live* sequence object (lib.rs `struct Scanner`:
   `&'static` references into the two PyCells, obtained with `transmute`; `__next__` runs the core
   `Scanner::next`, which re-reads `seq.matrix()` / `seq.wrap()` on every call).

   [run_call] (PyGlueModel.v) describes a scanner by the list of hits fixed when it was created -
   what C17 prescribes ("the core on the data as it was").  Here the same histories are run with
   scanners that hold no hits at all: a scanner is the scoring matrix, threshold and block size it was
   made with, the *object* of the sequence (seen through every later in-place reconfiguration by
   calculate() / scan() / Scanner() on that object, whatever name - if any - the history still has for
   it) and the number of hits handed out so far; next() asks the core scanner over the sequence as it
   is *now* and skips what was handed out.  (The core scanner is restartable in this sense: its state
   is the block row and the stack of hits of the current block, both functions of the sequence rows -
   which configure() never changes - and of the hits before.)

   Executable definitions only; the agreement of the two readings (under the core fact that a
   successful scan is not changed by further configure() calls) is PyGlueLazyProofs.v /
   C17.v:py_scanner_lazy_eq_eager, and the driver runs both on every history. *)
From Coq Require Import List ZArith Bool.
From LMBase Require Import ListX IEEE.
From LMPyGlue Require Import PyGlueModel.
Import ListNotations.
Open Scope Z_scope.

Local Arguments OScoring {CM WM SM SQ SC}.
Local Arguments OSeq {CM WM SM SQ SC}.
Local Arguments OScanner {CM WM SM SQ SC}.
Local Arguments RObj {CM WM SM SQ SC}.
Local Arguments Done {CM WM SM SQ SC}.
Local Arguments glue_scan_args : clear implicits.

Section Lazy.
  Variables CM FM WM SM SQ SC : Type.
  Variable K : core CM FM WM SM SQ SC.

  Notation obj := (obj CM WM SM SQ SC).
  Notation state := (state CM WM SM SQ SC).
  Notation step := (step CM WM SM SQ SC).
  Notation lookup := (lookup CM WM SM SQ SC).

  Record lscan := {
    l_slot : nat;            (* the name of the scanner in the history *)
    l_s : SM;                (* the scoring matrix (immutable; kept alive by the scanner) *)
    l_live : option nat;     (* the name under which the history can still reach the sequence object *)
    l_q : SQ;                (* the sequence object as it is now *)
    l_t : Z;
    l_b : Z;
    l_taken : nat            (* hits handed out so far *)
  }.

  Definition set_q (e : lscan) (q : SQ) : lscan :=
    {| l_slot := l_slot e; l_s := l_s e; l_live := l_live e; l_q := q; l_t := l_t e; l_b := l_b e; l_taken := l_taken e |}.
  Definition set_live (e : lscan) (l : option nat) : lscan :=
    {| l_slot := l_slot e; l_s := l_s e; l_live := l; l_q := l_q e; l_t := l_t e; l_b := l_b e; l_taken := l_taken e |}.
  Definition set_taken (e : lscan) (n : nat) : lscan :=
    {| l_slot := l_slot e; l_s := l_s e; l_live := l_live e; l_q := l_q e; l_t := l_t e; l_b := l_b e; l_taken := n |}.

  (* the name whose object is replaced (or dropped) by the call; the object itself lives on where a
     scanner refers to it *)
  Definition rebinds (c : call) : option nat :=
    match c with
    | KCountInit d _ _ | KNormalize d _ _ | KLogOdds d _ _ _ | KScoringInit d _ _ _ | KStripe d _ _
    | KRevcomp d _ | KCreate d _ _ _ | KGetMotif d _ _ | KLoad d _ _ _ | KGetLoaded d _ _ _
    | KEncode d _ _ | KEncStripe d _ | KCopy d _ | KDist d _ | KFileNew d | KLoaderNew d _ _ _
    | KCalculate d _ _ | KScan d _ _ _ _ => Some d
    | KDelete n => Some n
    | KNext _ _ | KLoaderNext _ _
    | KThreshold _ _ | KMax _ | KArgmax _ | KPvalue _ _ _ | KScore _ _ _ | KMaxScore _ | KEq _ _ | KStr _ => None
    end.

  (* the sequence object a call reconfigures in place (configure() inside calculate / scan), with
     its new value *)
  Definition touches (st : state) (c : call) : option (nat * SQ) :=
    match c with
    | KCalculate _ self (PRef n) =>
        match lookup st self, lookup st n with
        | Some (OScoring a s), Some (OSeq aq q) => Some (n, snd (glue_calculate K a s aq q))
        | _, _ => None
        end
    | KScan _ (PRef np) (PRef nq) thr bs =>
        match lookup st np, lookup st nq, glue_scan_args thr bs with
        | Some (OScoring a s), Some (OSeq aq q), Value (t, b) => Some (nq, snd (glue_scan K a s aq q t b))
        | _, _, _ => None
        end
    | _ => None
    end.

  Definition retarget (tc : option (nat * SQ)) (e : lscan) : lscan :=
    match tc, l_live e with
    | Some (n, q'), Some m => if Nat.eqb n m then set_q e q' else e
    | _, _ => e
    end.

  Definition detach (rb : option nat) (e : lscan) : lscan :=
    match rb, l_live e with
    | Some n, Some m => if Nat.eqb n m then set_live e None else e
    | _, _ => e
    end.

  Definition alive (rb : option nat) (e : lscan) : bool :=
    match rb with Some n => negb (Nat.eqb n (l_slot e)) | None => true end.

  (* what a call does to the scanners that exist: in-place reconfiguration is seen, a name that is
     rebound no longer leads to the object, a scanner whose own name is rebound is gone *)
  Definition carry (st : state) (c : call) (ls : list lscan) : list lscan :=
    filter (alive (rebinds c)) (map (detach (rebinds c)) (map (retarget (touches st c)) ls)).

  Definition lfind (ls : list lscan) (n : nat) : option lscan :=
    find (fun e => Nat.eqb (l_slot e) n) ls.

  (* the scanner a successful scan() / Scanner() call creates *)
  Definition new_scanner (st : state) (c : call) (stp : step) : list lscan :=
    match c, stp with
    | KScan dst (PRef np) (PRef nq) thr bs, Done (Value (RObj (OScanner _))) =>
        match lookup st np, touches st c, glue_scan_args thr bs with
        | Some (OScoring _ s), Some (_, q'), Value (t, b) =>
            [{| l_slot := dst; l_s := s; l_live := if Nat.eqb dst nq then None else Some nq;
                l_q := q'; l_t := t; l_b := b; l_taken := O |}]
        | _, _, _ => []
        end
    | _, _ => []
    end.

  Definition run_call_lazy (st : state) (ls : list lscan) (c : call) : step * state * list lscan :=
    let (stp, st') := run_call K st c in
    let ls1 := carry st c ls in
    match c with
    | KNext self k =>
        match lfind ls self with
        | Some e =>
            match c_scan K (l_s e) (l_q e) (l_t e) (l_b e) with
            | COk all =>
                let rem := skipn (l_taken e) all in
                let (r, rest) := glue_next CM WM SM SQ SC rem k in
                (Done (Value r), st',
                 map (fun e' => if Nat.eqb (l_slot e') self
                                then set_taken e' (l_taken e' + (length rem - length rest)) else e') ls1)
            | _ => (Done Panic, st', ls1)
            end
        | None => (stp, st', ls1)
        end
    | _ => (stp, st', new_scanner st c stp ++ ls1)
    end.

  Fixpoint run_history_lazy (st : state) (ls : list lscan) (cs : list call) : list step :=
    match cs with
    | [] => []
    | c :: r => let '(o, st', ls') := run_call_lazy st ls c in o :: run_history_lazy st' ls' r
    end.

End Lazy.

Arguments l_slot {SM SQ} _.
Arguments l_s {SM SQ} _.
Arguments l_live {SM SQ} _.
Arguments l_q {SM SQ} _.
Arguments l_t {SM SQ} _.
Arguments l_b {SM SQ} _.
Arguments l_taken {SM SQ} _.
Arguments run_call_lazy {CM FM WM SM SQ SC} K.
Arguments run_history_lazy {CM FM WM SM SQ SC} K.
Arguments carry {CM FM WM SM SQ SC} K.
Arguments touches {CM FM WM SM SQ SC} K.
Arguments new_scanner {CM FM WM SM SQ SC} K.
