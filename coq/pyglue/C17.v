(* C17 - Python results equal the results of the core library on the same data.

   PARTIAL (see props/c17.py): the theorems are about the model of the PyO3 glue
   (PyGlueModel.v), parameterised over the core library (record [core]); CPython and PyO3
   themselves are trusted, the model is tied to lightmotif-py by the correspondence run.

   Full statement: for all sequences, motifs, thresholds, pseudocount / background
   dictionaries, block sizes and files, and all orders in which one striped sequence is
   reused, every value returned through the Python module is the value the core definitions
   (C01-C03, C07, C09-C11, C14) prescribe for that data, and alphabet mismatches or invalid
   arguments raise ordinary Python exceptions.
   Proved here, for all arguments / histories:
     - every entry point passes exactly the converted arguments to the core operation and
       returns its result unchanged (py_<entry>_eq_core);
     - dictionary -> alphabet-array and dictionary-of-columns -> matrix conversions
       (py_dict_to_array_*, py_count_init_shape);
     - results of calculate / scan on one sequence object do not depend on the history of
       earlier uses of that object (py_calculate_history), under the core facts of C04/C01;
     - a fact about the LIST model of a scanner (eager reading: the hits are fixed when the scanner is made):
       however next() is chunked, the chunks concatenate to that list (py_scanner_chunks); the bridge to the
       lazy Rust scanner over the live sequence is py_scanner_lazy_eq_eager;
     - invalid arguments give PyExc, never Panic (py_invalid_args_raise), and no call made in a
       well-labelled state panics when the core returns a value UNDER THE PRECONDITIONS THE GLUE ESTABLISHES
       (py_panic_only_from_core over core_guarded; every guard is needed: py_no_panic_needs_every_guard_refuted);
     - the outcome classification used on the implementation is sound (check_C17_sound);
   round 3:
     - the Scanner read as lazy state over the live sequence object agrees, call by call, with the
       hits fixed at its creation (py_scanner_lazy_eq_eager, under scan_stable);
     - calls of two threads that share no written object give, in any interleaving, what each
       thread gets alone (py_threads_independent; atomic calls);
     - a file object whose read() fails later: load() / next() raise that exception, the other items
       are the core reader's over the same stream (py_load_faulty_eq_core, py_faulty_read_exception_wins);
     - no PanicException inside an iteration unless a core reader panics (py_items_no_panic);
     - ==, copies, EncodedSequence, score_distribution, lazy loaders, generator arguments
       (py_eq_is_core_eq, py_copy_independent, py_encode_eq_core, py_dist_eq_core, py_loader_lazy,
       py_generator_args);
     - which exception class is raised where, against the `new_err` sites of the source
       (py_exception_sites_tied, py_exception_kinds);
   round 3, wave 3 (review):
     - guarded totality instead of unconditional totality of the core (core_guarded, py_strict_core_is_guarded);
     - the list-level verdicts of the driver are extracted checkers (check_hits_sound / _complete, check_items_sound);
     - the record [core] is instantiated with the models of C04 / C01 / C02 in coq/e2e/E2EPyCore.v, where the
       hypotheses of py_history_depends_on_text_only and py_scanner_lazy_eq_eager are discharged and calculate /
       scan are shown to return C01's / C02's definitions (composed obligations of the thorough tier).
   PARTIAL in: CPython / PyO3 trusted; the core operations other than stripe / configure / score / scan are
   parameters (their link to C07, C09-C14 is by those properties' own correspondence runs); py_panic_only_from_core
   assumes a well-labelled state (st_typed); float(int) and the other extraction rules are modelled, not verified. *)
From Coq Require Import List ZArith Bool Lia Permutation Sorted RelationClasses.
From LMBase Require Import ListX IEEE.
From LMPyGlue Require Import PyGlueModel PyGlueCheck PyGlueCheckProofs PyGlueProofs PyGlueHistory PyGlueLazy PyGlueLazyProofs PyGlueThreads PyGlueItems PyGlueUnguarded GenPySig.
Import ListNotations.
Open Scope Z_scope.

(* ------------------------------------------------------------------ dictionary -> array *)

(* dict_to_alphabet_array succeeds only when every key is a one-character ASCII string
   naming a symbol and every value a number; the array has K cells; cell i holds the value
   of the (last) entry for symbol i, 0.0 when there is none *)
Theorem py_dict_to_array_spec : forall a kv p,
  dict_to_alphabet_array a kv = Value p ->
  length p = ksize a /\
  (forall e, In e kv -> exists ix, entry_ok a e = Value ix) /\
  (forall i, (i < ksize a)%nat -> nth i p 0 = last_value a kv i 0).
Proof.
  intros a kv p H. unfold dict_to_alphabet_array in H. apply d2a_loop_spec in H.
  rewrite repeat_length in H. destruct H as [H1 [H2 H3]]. repeat split; auto.
  intros i Hi. rewrite (H3 i Hi). f_equal. apply nth_repeat_lt. exact Hi.
Qed.

(* with the distinct keys of a Python dict: d[symbol i] converted to f32, by symbol *)
Theorem py_dict_to_array_lookup : forall a kv p c v i x,
  dict_to_alphabet_array a kv = Value p ->
  In (PStr [c], v) kv -> sym_index a c = Some i -> extract_f32 v = Value x ->
  (forall e' x', In e' kv -> entry_ok a e' = Value (i, x') -> x' = x) ->
  nth i p 0 = x.
Proof.
  intros a kv p c v i x H Hin Hi Hx Huniq.
  assert (He : entry_ok a (PStr [c], v) = Value (i, x)).
  { destruct (py_dict_to_array_spec _ _ _ H) as [_ [Hall _]].
    destruct (Hall _ Hin) as [[j y] Hjy]. pose proof Hjy as Hjy'.
    apply entry_ok_value in Hjy. destruct Hjy as [c' [Hc [_ [Hi' Hx']]]].
    inversion Hc; subst c'. rewrite Hi in Hi'. rewrite Hx in Hx'. congruence. }
  destruct (py_dict_to_array_spec _ _ _ H) as [_ [_ Hn]].
  assert (Hlt : (i < ksize a)%nat).
  { unfold sym_index in Hi. unfold ksize. clear -Hi. revert i Hi. induction (symbols a) as [|y l IH]; intros i Hi; [discriminate|].
    simpl in Hi. destruct (y =? c); [inversion Hi; simpl; lia|].
    destruct (index_of c l) eqn:E; [|discriminate]. inversion Hi; subst. simpl. specialize (IH n eq_refl). lia. }
  rewrite (Hn i Hlt). eapply last_value_unique; eauto.
Qed.

Theorem py_dict_to_array_absent : forall a kv p i,
  dict_to_alphabet_array a kv = Value p -> (i < ksize a)%nat ->
  (forall e j x, In e kv -> entry_ok a e = Value (j, x) -> j <> i) ->
  nth i p 0 = 0.
Proof.
  intros a kv p i H Hi Habs. destruct (py_dict_to_array_spec _ _ _ H) as [_ [_ Hn]].
  rewrite (Hn i Hi). apply last_value_absent. exact Habs.
Qed.

(* a key that is not a one-character symbol of the alphabet, or a value that is not a
   number, raises an ordinary exception *)
Theorem py_dict_to_array_invalid : forall a kv,
  (exists e, In e kv /\ forall ix, entry_ok a e <> Value ix) ->
  exists ex, dict_to_alphabet_array a kv = PyExc ex.
Proof. intros a kv H. apply d2a_loop_invalid. exact H. Qed.

Section Entries.
  Variables CM FM WM SM SQ SC : Type.
  Variable K : core CM FM WM SM SQ SC.

  (* ---------------------------------------------------------------- CountMatrix(values) *)

  (* the matrix handed to CountMatrix::new has K cells per row and as many rows as every
     column present in the dictionary has items (ragged columns never reach the core) *)
  Theorem py_count_init_shape : forall values protein a c,
    glue_count_init K values protein = Value (OCount _ _ _ _ _ a c) ->
    exists kv m, values = PDict kv /\ protein_flag protein = Value a /\
      c_count_new K a m = COk c /\
      Forall (fun r => length r = ksize a) m /\
      (forall s col items, In s (symbols a) -> dict_get kv s = Some col ->
                           col_items col = Some items -> length items = length m).
  Proof.
    intros values protein a c H. unfold glue_count_init in H.
    apply obind_inv_value in H. destruct H as [kv [Hkv H]].
    apply obind_inv_value in H. destruct H as [a' [Ha H]].
    apply obind_inv_value in H. destruct H as [d [Hd H]].
    destruct d as [m|]; [|discriminate].
    apply obind_inv_value in H. destruct H as [c' [Hc H]]. inversion H; subst a' c'.
    destruct values; try discriminate. inversion Hkv; subst.
    exists kv, m. repeat split; auto.
    - destruct (c_count_new K a m); simpl in Hc; try discriminate. congruence.
    - eapply cols_loop_shape; [exact Hd | discriminate].
    - intros s col items Hs Hg Hi. eapply (proj2 (cols_loop_rows _ _ _ _ _ _ _ _ Hd)); eauto.
  Qed.

  (* cell (r, j) of that matrix is the r-th item of the column given for the j-th symbol of the
     alphabet (converted like `int` -> u32), and 0 for symbols without a column: columns go
     to the index of their *symbol*, whatever the order of the dictionary *)
  Theorem py_count_init_cells : forall values protein a c,
    glue_count_init K values protein = Value (OCount _ _ _ _ _ a c) ->
    exists kv m, values = PDict kv /\ c_count_new K a m = COk c /\
      forall j s r, nth_error (symbols a) j = Some s -> (r < length m)%nat ->
                    cell_spec col_items extract_u32 kv s r (nth j (nth r m []) 0).
  Proof.
    intros values protein a c H. unfold glue_count_init in H.
    apply obind_inv_value in H. destruct H as [kv [Hkv H]].
    apply obind_inv_value in H. destruct H as [a' [Ha H]].
    apply obind_inv_value in H. destruct H as [d [Hd H]].
    destruct d as [m|]; [|discriminate].
    apply obind_inv_value in H. destruct H as [c' [Hc H]]. inversion H; subst a' c'.
    destruct values; try discriminate. inversion Hkv; subst.
    exists kv, m. repeat split; auto.
    - destruct (c_count_new K a m); simpl in Hc; try discriminate. congruence.
    - intros j s r Hj Hr.
      destruct (cols_loop_cells a col_items extract_u32 kv (symbols a) 0 None m eq_refl I Hd) as [HA _].
      exact (HA j s r Hj Hr).
  Qed.

  (* ScoringMatrix(values, background): same placement of the columns (lists of numbers -> f32),
     the background argument is the one handed to ScoringMatrix::new *)
  Theorem py_scoring_init_cells : forall values bg protein a s,
    glue_scoring_init K values bg protein = Value (OScoring _ _ _ _ _ a s) ->
    exists kv g m, values = PDict kv /\ glue_background K a bg = Value g /\ c_scoring_new K a g m = COk s /\
      forall j c r, nth_error (symbols a) j = Some c -> (r < length m)%nat ->
                    cell_spec list_items extract_f32 kv c r (nth j (nth r m []) 0).
  Proof.
    intros values bg protein a s H. unfold glue_scoring_init in H.
    apply obind_inv_value in H. destruct H as [kv [Hkv H]].
    apply obind_inv_value in H. destruct H as [a' [Ha H]].
    apply obind_inv_value in H. destruct H as [g [Hg H]].
    apply obind_inv_value in H. destruct H as [d [Hd H]].
    destruct d as [m|]; [|discriminate].
    apply obind_inv_value in H. destruct H as [s' [Hs H]]. inversion H; subst a' s'.
    destruct values; try discriminate. inversion Hkv; subst.
    exists kv, g, m. repeat split; auto.
    - destruct (c_scoring_new K a g m); simpl in Hs; try discriminate. congruence.
    - intros j c r Hj Hr.
      destruct (cols_loop_cells a list_items extract_f32 kv (symbols a) 0 None m eq_refl I Hd) as [HA _].
      exact (HA j c r Hj Hr).
  Qed.

  (* ---------------------------------------------------------------- normalize *)

  Theorem py_normalize_eq_core : forall a c pc ps,
    glue_pseudo a pc = Value ps ->
    glue_normalize K a c pc =
      (f <~ liftp (c_to_freq K c ps) ;; w <~ liftp (c_to_weight K f) ;; Value (OWeight _ _ _ _ _ a w)).
  Proof. intros a c pc ps H. unfold glue_normalize. rewrite H. reflexivity. Qed.

  (* how the pseudocount argument is read: nothing / None -> 0.0 for every symbol; a number ->
     that number (as f32) for every non-default symbol; a dict -> one value per symbol *)
  Theorem py_pseudocount_arg : forall a,
    glue_pseudo a None = Value (PsScalar 0) /\
    glue_pseudo a (Some PNone) = Value (PsScalar 0) /\
    (forall b, glue_pseudo a (Some (PFloat b)) = Value (PsScalar (f64_to_f32_bits b))) /\
    (forall kv p, dict_to_alphabet_array a kv = Value p -> glue_pseudo a (Some (PDict kv)) = Value (PsArray p)) /\
    (forall kv e, dict_to_alphabet_array a kv = PyExc e -> glue_pseudo a (Some (PDict kv)) = PyExc e) /\
    (forall s, glue_pseudo a (Some (PStr s)) = PyExc TypeError) /\
    (forall l, glue_pseudo a (Some (PList l)) = PyExc TypeError).
  Proof.
    intros a. repeat split; try reflexivity.
    - intros kv p H. unfold glue_pseudo. cbn [extract_f32 extract_f64 obind]. rewrite H. reflexivity.
    - intros kv e H. unfold glue_pseudo. cbn [extract_f32 extract_f64 obind]. rewrite H. reflexivity.
  Qed.

  (* ---------------------------------------------------------------- log_odds *)

  Definition base_arg (base : option pyval) : outcome Z :=
    match base with None => Value f32_two | Some v => extract_f32 v end.

  (* the background given by the caller is the one used for rescaling, the base reaches
     to_scoring_with_base unchanged; the matrix is rescaled exactly when the backgrounds differ *)
  Theorem py_log_odds_eq_core : forall a w bg base b g,
    base_arg base = Value b -> base_invalid b = false -> glue_background K a bg = Value g ->
    glue_log_odds K a w bg base =
      (w' <~ (if f32s_eqb g (c_w_bg K w) then Value w else liftp (c_rescale K w g)) ;;
       s <~ liftp (c_to_scoring_base K w' b) ;; Value (OScoring _ _ _ _ _ a s)).
  Proof.
    intros a w bg base b g Hb Hv Hg. unfold glue_log_odds. fold (base_arg base). rewrite Hb. cbn [obind].
    rewrite Hv, Hg. reflexivity.
  Qed.

  Theorem py_background_arg : forall a,
    glue_background K a None = Value (c_bg_uniform K a) /\
    glue_background K a (Some PNone) = Value (c_bg_uniform K a) /\
    (forall kv p, dict_to_alphabet_array a kv = Value p ->
                  glue_background K a (Some (PDict kv)) = lift ValueError (c_bg_new K a p)) /\
    (forall kv e, dict_to_alphabet_array a kv = PyExc e -> glue_background K a (Some (PDict kv)) = PyExc e) /\
    (forall b, glue_background K a (Some (PFloat b)) = PyExc TypeError) /\
    (forall s, glue_background K a (Some (PStr s)) = PyExc TypeError).
  Proof.
    intros a. repeat split; try reflexivity.
    - intros kv p H. unfold glue_background. rewrite H. reflexivity.
    - intros kv e H. unfold glue_background. rewrite H. reflexivity.
  Qed.

  (* ---------------------------------------------------------------- calculate *)

  (* configure the sequence for this motif, then score it; alphabet mismatch is a ValueError *)
  Theorem py_calculate_eq_core : forall a s q q',
    sm_empty (c_sm_cells K s) = false -> c_configure K q s = COk q' ->
    glue_calculate K a s a q = (sc <~ liftp (c_score K s q') ;; Value (OScores _ _ _ _ _ sc), q').
  Proof.
    intros a s q q' He H. unfold glue_calculate. rewrite He. destruct a; simpl; rewrite H; reflexivity.
  Qed.

  Theorem py_calculate_mismatch : forall a aq s q,
    a <> aq -> glue_calculate K a s aq q = (PyExc ValueError, q).
  Proof.
    intros a aq s q H. unfold glue_calculate. destruct (sm_empty _); [reflexivity|].
    destruct a, aq; try congruence; reflexivity.
  Qed.

  (* all orders in which one striped sequence object is reused (calculate and scan, motifs of
     any widths and alphabets): every result is the one obtained on the untouched sequence *)
  Theorem py_calculate_history :
    forall (T : Type) (text : SQ -> T) (wrap_ok : SM -> SQ -> Prop),
    (forall q s, exists q', c_configure K q s = COk q') ->
    (forall q s q', c_configure K q s = COk q' -> text q' = text q) ->
    (forall q s q', c_configure K q s = COk q' -> wrap_ok s q') ->
    (forall s q1 q2, wrap_ok s q1 -> wrap_ok s q2 -> text q1 = text q2 -> c_score K s q1 = c_score K s q2) ->
    (forall s q1 q2 t b, wrap_ok s q1 -> wrap_ok s q2 -> text q1 = text q2 -> c_scan K s q1 t b = c_scan K s q2 t b) ->
    forall aq q0 us, use_all _ _ _ _ _ _ K aq q0 us = map (fun u => fst (use_once _ _ _ _ _ _ K aq q0 u)) us.
  Proof. intros. eapply use_all_indep; eauto. Qed.

  (* ---------------------------------------------------------------- threshold / max / argmax *)

  Theorem py_threshold_eq_core : forall sc t x,
    extract_f32 t = Value x -> glue_threshold K sc t = (l <~ liftp (c_threshold K sc x) ;; Value (RIdx _ _ _ _ _ l)).
  Proof. intros sc t x H. unfold glue_threshold. rewrite H. reflexivity. Qed.

  Theorem py_max_eq_core : forall sc, glue_max K sc = (m <~ liftp (c_max K sc) ;; Value (RMaxv _ _ _ _ _ m)).
  Proof. reflexivity. Qed.

  Theorem py_argmax_eq_core : forall sc, glue_argmax K sc = (m <~ liftp (c_argmax K sc) ;; Value (RArgv _ _ _ _ _ m)).
  Proof. reflexivity. Qed.

  (* ---------------------------------------------------------------- pvalue / score *)

  (* "meme" (the default) goes to the score distribution with the score rounded to f32,
     "tfmpvalue" to TFM-PVALUE with the f64 score, anything else is a ValueError; the data are
     validated first: no NaN score (no infinite one for TFM-PVALUE), an ordered non-empty matrix
     without +inf for the distribution, a non-empty matrix with finite scores for TFM-PVALUE *)
  Theorem py_pvalue_eq_core : forall s x v,
    extract_f64 x = Value v -> f64_is_nan v = false ->
    (ordered_ok true (c_sm_cells K s) = true ->
     glue_pvalue K s x None = (p <~ liftp (c_dist_pvalue K s (f64_to_f32_bits v)) ;; Value (RF64 _ _ _ _ _ p))) /\
    glue_pvalue K s x (Some (PStr str_meme)) = glue_pvalue K s x None /\
    (f64_is_inf v = false -> finite_ok (c_sm_cells K s) = true ->
     glue_pvalue K s x (Some (PStr str_tfmpvalue)) = (p <~ liftp (c_tfm_pvalue K s v) ;; Value (RF64 _ _ _ _ _ p))) /\
    (forall m, m <> str_meme -> m <> str_tfmpvalue -> existsb is_surrogate m = false ->
               glue_pvalue K s x (Some (PStr m)) = PyExc ValueError).
  Proof.
    intros s x v H Hn. unfold glue_pvalue. rewrite H. cbn [obind]. repeat split.
    - intros Ho. cbn [method_arg obind]. rewrite Hn.
      replace (zlist_eqb str_meme str_tfmpvalue) with false by reflexivity.
      rewrite andb_false_r. cbn [orb]. replace (zlist_eqb str_meme str_meme) with true by reflexivity.
      rewrite Ho. reflexivity.
    - intros Hi Hf. cbn [method_arg extract_str]. replace (existsb is_surrogate str_tfmpvalue) with false by reflexivity.
      cbn [obind]. rewrite Hn, Hi. cbn [orb andb].
      replace (zlist_eqb str_tfmpvalue str_tfmpvalue) with true by reflexivity. rewrite Hf. reflexivity.
    - intros m H1 H2 H3. unfold method_arg, extract_str. rewrite H3. cbn [obind].
      destruct (zlist_eqb m str_tfmpvalue) eqn:E1; [apply zlist_eqb_eq in E1; congruence|].
      destruct (zlist_eqb m str_meme) eqn:E2; [apply zlist_eqb_eq in E2; congruence|].
      destruct (f64_is_nan v || _); reflexivity.
  Qed.

  Theorem py_score_eq_core : forall s x v,
    extract_f64 x = Value v -> pvalue_in_range v = true ->
    (ordered_ok true (c_sm_cells K s) = true ->
     glue_score K s x None = (p <~ liftp (c_dist_score K s v) ;; Value (RF64 _ _ _ _ _ (f32_to_f64_bits p)))) /\
    glue_score K s x (Some (PStr str_meme)) = glue_score K s x None /\
    (finite_ok (c_sm_cells K s) = true ->
     glue_score K s x (Some (PStr str_tfmpvalue)) = (p <~ liftp (c_tfm_score K s v) ;; Value (RF64 _ _ _ _ _ p))) /\
    (forall m, m <> str_meme -> m <> str_tfmpvalue -> existsb is_surrogate m = false ->
               glue_score K s x (Some (PStr m)) = PyExc ValueError).
  Proof.
    intros s x v H Hr. unfold glue_score. rewrite H. cbn [obind]. repeat split.
    - intros Ho. cbn [method_arg obind]. rewrite Hr. cbn [negb].
      replace (zlist_eqb str_meme str_tfmpvalue) with false by reflexivity.
      replace (zlist_eqb str_meme str_meme) with true by reflexivity. rewrite Ho. reflexivity.
    - intros Hf. cbn [method_arg extract_str]. replace (existsb is_surrogate str_tfmpvalue) with false by reflexivity.
      cbn [obind]. rewrite Hr. cbn [negb].
      replace (zlist_eqb str_tfmpvalue str_tfmpvalue) with true by reflexivity. rewrite Hf. reflexivity.
    - intros m H1 H2 H3. unfold method_arg, extract_str. rewrite H3. cbn [obind]. rewrite Hr. cbn [negb].
      destruct (zlist_eqb m str_tfmpvalue) eqn:E1; [apply zlist_eqb_eq in E1; congruence|].
      destruct (zlist_eqb m str_meme) eqn:E2; [apply zlist_eqb_eq in E2; congruence|]. reflexivity.
  Qed.

  Theorem py_max_score_eq_core : forall s,
    ordered_ok false (c_sm_cells K s) = true ->
    glue_max_score K s = (m <~ liftp (c_max_score K s) ;; Value (RF32 _ _ _ _ _ m)).
  Proof. intros s H. unfold glue_max_score. rewrite H. reflexivity. Qed.

  (* ---------------------------------------------------------------- reverse complement *)

  Theorem py_revcomp_eq_core : forall s,
    glue_revcomp K Dna s = (r <~ liftp (c_revcomp K s) ;; Value (OScoring _ _ _ _ _ Dna r)) /\
    glue_revcomp K Protein s = PyExc RuntimeError.
  Proof. split; reflexivity. Qed.

  (* ---------------------------------------------------------------- scan *)

  Theorem py_scan_args : forall thr bs,
    glue_scan_args None None = Value (0, 256) /\
    (forall t b, match thr with None => Value 0 | Some v => extract_f32 v end = Value t ->
                 match bs with None => Value 256 | Some v => extract_usize v end = Value b ->
                 glue_scan_args thr bs = if b =? 0 then PyExc ValueError else Value (t, b)) /\
    glue_scan_args thr (Some (PInt 0)) <> Value (0, 0) /\
    (forall z, z < 0 -> glue_scan_args None (Some (PInt z)) = PyExc OverflowError).
  Proof.
    intros thr bs. repeat split.
    - intros t b Ht Hb. unfold glue_scan_args. rewrite Ht. cbn [obind]. rewrite Hb. reflexivity.
    - unfold glue_scan_args. destruct (match thr with None => Value 0 | Some v => extract_f32 v end); simpl; discriminate.
    - intros z Hz. unfold glue_scan_args. cbn [obind extract_usize].
      assert ((0 <=? z) = false) by (apply Z.leb_gt; lia). rewrite H. reflexivity.
  Qed.

  Theorem py_scan_eq_core : forall s q q' t b,
    c_configure K q s = COk q' ->
    (ordered_ok false (c_sm_cells K s) = true -> sm_empty (c_sm_cells K s) = false ->
     glue_scan K Dna s Dna q t b = (h <~ liftp (c_scan K s q' t b) ;; Value (OScanner _ _ _ _ _ h), q')) /\
    glue_scan K Protein s Protein q t b = (PyExc ValueError, q) /\
    glue_scan K Dna s Protein q t b = (PyExc ValueError, q) /\
    glue_scan K Protein s Dna q t b = (PyExc ValueError, q).
  Proof.
    intros s q q' t b H. unfold glue_scan. repeat split.
    - intros Ho He. rewrite Ho, He. cbn [negb]. rewrite H. reflexivity.
    - destruct (negb _); reflexivity.
    - destruct (negb _); reflexivity.
    - destruct (negb _); reflexivity.
  Qed.

  (* a lemma about the eager LIST model of a scanner (firstn / skipn): however the caller chunks the iteration
     (k hits at a time, then the rest), the chunks concatenate to the list fixed when the scanner was made, in
     its order, none lost, none repeated.  That the lazy Rust scanner over the live sequence object hands out
     that list is py_scanner_lazy_eq_eager (under scan_stable, discharged for the C02 model in coq/e2e) *)
  Theorem py_scanner_chunks : forall hits ks,
    next_all CM WM SM SQ SC hits (ks ++ [None]) = hits /\
    exists rest, hits = next_all CM WM SM SQ SC hits ks ++ rest.
  Proof. intros hits ks. split; [apply next_all_exhaust | apply next_all_prefix]. Qed.

  (* ---------------------------------------------------------------- create *)

  Theorem py_create_eq_core : forall seqs protein name a nm items strs,
    protein_flag protein = Value a -> name_arg name = Value nm ->
    iter_items seqs = Some items -> create_loop K a items = Value strs ->
    glue_create K seqs protein name =
      (c <~ lift ValueError (c_from_seqs K a strs) ;;
       m <~ motif_from_counts K a nm (MPlain) c ;; Value (OMotif _ _ _ _ _ m)).
  Proof.
    intros seqs protein name a nm items strs Ha Hn Hi Hs. unfold glue_create.
    rewrite Ha. cbn [obind]. rewrite Hn. cbn [obind]. rewrite Hi, Hs. reflexivity.
  Qed.

  (* the strings given to the core are the items of the iterable, in order, all of them *)
  Theorem py_create_items : forall a items strs,
    create_loop K a items = Value strs -> map (fun s => PStr s) strs = items.
  Proof.
    intros a items. induction items as [|v r IH]; intros strs H.
    - inversion H; reflexivity.
    - cbn [create_loop] in H. apply obind_inv_value in H. destruct H as [s [Hs H]].
      apply obind_inv_value in H. destruct H as [u [_ H]].
      apply obind_inv_value in H. destruct H as [rest [Hr H]]. inversion H; subst.
      cbn [map]. f_equal; [|apply IH; exact Hr].
      destruct v; try discriminate. unfold extract_str in Hs. destruct (existsb _ _); [discriminate|].
      inversion Hs; reflexivity.
  Qed.

  (* a generator object is as good as a list where the glue only iterates (create), and a TypeError
     where it asks for len() first (a column of CountMatrix) *)
  Theorem py_generator_args : forall l,
    (forall protein name, glue_create K (PGen l) protein name = glue_create K (PList l) protein name) /\
    (forall a ex j kv c rest d, dict_get kv c = Some (PGen l) ->
       cols_loop a col_items ex (c :: rest) j kv d = PyExc TypeError) /\
    (forall a ex j kv c rest d, dict_get kv c = Some (PGen l) ->
       cols_loop a list_items ex (c :: rest) j kv d = PyExc TypeError).
  Proof.
    intros l. split; [reflexivity|]. split; intros a ex j kv c rest d H; cbn [cols_loop]; rewrite H; reflexivity.
  Qed.

  (* ---------------------------------------------------------------- loaders *)

  Theorem py_load_eq_core : forall bytes format protein f a k,
    format_arg format = Value f -> protein_flag protein = Value a -> format_of f a = Value k ->
    glue_load K (FileData bytes) format protein =
      (let (ms, t) := load_items K a (c_read K k a bytes) in Value (RLoad _ _ _ _ _ ms t)).
  Proof.
    intros bytes format protein f a k Hf Ha Hk. unfold glue_load. rewrite Hf. cbn [obind].
    rewrite Ha. cbn [obind]. rewrite Hk. reflexivity.
  Qed.

  (* a file object that misbehaves after load() accepted it (read() raises, returns something
     that is not bytes or too many bytes, closes the file): when the reader already reads while it
     is constructed and a read fails there, load() raises the exception of the file object;
     otherwise load() succeeds and every next() gives the item the core reader produces over the
     failing stream - except that a next() during which a read failed raises the exception of the
     file object, whatever the reader made of the failure (e7689c9) *)
  Theorem py_load_faulty_eq_core : forall fl desc format protein f a k,
    format_arg format = Value f -> protein_flag protein = Value a -> format_of f a = Value k ->
    glue_load K (FileFaulty fl desc) format protein =
      (let (ctor, items) := c_read_faulty K desc k a in
       if ctor then PyExc (fault_exc fl)
       else Value (RLoadSeq _ _ _ _ _ (faulty_items K a fl items))) /\
    convert_error EIo = OSError.
  Proof.
    intros fl desc format protein f a k Hf Ha Hk. unfold glue_load. rewrite Hf. cbn [obind].
    rewrite Ha. cbn [obind]. rewrite Hk. split; reflexivity.
  Qed.

  (* the j-th next() over such a file object, when no earlier next() ended the iteration quietly:
     the exception of the file object if a read failed during it, else the converted item *)
  Theorem py_faulty_read_exception_wins : forall a fl items j it fired,
    nth_error items j = Some (it, fired) ->
    (forall i, (i < j)%nat -> nth_error items i <> Some (None, false)) ->
    nth_error (faulty_items K a fl items) j =
      (if fired then Some (PyExc (fault_exc fl))
       else match it with Some r => Some (item_outcome K a r) | None => None end) /\
    (fault_exc fl = match fl with FRaises e => e | FNotBytes => TypeError | FTooMany => OSError end).
  Proof.
    intros a fl items. induction items as [|[x b] r IH]; intros j it fired Hn Hq.
    - destruct j; discriminate.
    - destruct j as [|j].
      + cbn in Hn. inversion Hn; subst. split; [|destruct fl; reflexivity].
        destruct it, fired; reflexivity.
      + cbn in Hn. assert (Hx : (x, b) <> (None, false)).
        { intro E. apply (Hq O); [lia|]. cbn. rewrite E. reflexivity. }
        assert (Hq' : forall i, (i < j)%nat -> nth_error r i <> Some (None, false)).
        { intros i Hi. apply (Hq (S i)). lia. }
        destruct (IH j it fired Hn Hq') as [H1 H2]. split; [|exact H2].
        destruct x as [x|], b; cbn; try exact H1. congruence.
  Qed.

  (* a Loader is lazy: k calls of next() hand out the motifs converted from the next k items of
     its reader (fewer when the reader ends or an item is an error), and the loader remembers how
     far it got - interleaving with other loaders only matters through what the readers see *)
  Theorem py_loader_lazy : forall a id calls k items calls',
    lazy_take K a id calls k = (items, calls') ->
    (length items <= k)%nat /\ (calls <= calls' <= calls + k)%nat /\
    (c_lazy_next K id calls = None -> k <> O -> items = [] /\ calls' = S calls).
  Proof.
    intros a id calls k. revert calls. induction k as [|k IH]; intros calls items calls' H.
    - inversion H; subst. simpl. repeat split; try lia; intros; congruence.
    - cbn [lazy_take] in H. destruct (c_lazy_next K id calls) as [[r|e|]|] eqn:E.
      + destruct (convert_record K a r).
        * destruct (lazy_take K a id (S calls) k) as [l c] eqn:El. inversion H; subst.
          destruct (IH _ _ _ El) as [H1 [H2 _]]. simpl. repeat split; try lia; intros; discriminate.
        * inversion H; subst. simpl. repeat split; try lia; intros; discriminate.
        * inversion H; subst. simpl. repeat split; try lia; intros; discriminate.
      + inversion H; subst. simpl. repeat split; try lia; intros; discriminate.
      + inversion H; subst. simpl. repeat split; try lia; intros; discriminate.
      + inversion H; subst. simpl. repeat split; try lia; auto.
  Qed.

  (* record -> motif conversion: counts -> to_freq(0.0) -> to_weight(None) -> to_scoring();
     UniPROBE frequencies -> to_weight(None) -> to_scoring(); TRANSFAC without counts: ValueError *)
  Theorem py_record_conversion : forall a name tname desc id acc c f,
    convert_record K a (RecJaspar CM FM name desc c) = motif_from_counts K a (Some name) (MJaspar desc) c /\
    convert_record K a (RecUniprobe CM FM name f) = motif_from_freq K a (Some name) MUniprobe f /\
    convert_record K a (RecTransfac CM FM tname desc id acc (Some c)) = motif_from_counts K a tname (MTransfac desc id acc) c /\
    convert_record K a (RecTransfac CM FM tname desc id acc None) = PyExc ValueError.
  Proof. intros. repeat split; reflexivity. Qed.

  Theorem py_format_dispatch : forall a,
    format_of str_jaspar Dna = Value Jaspar /\ format_of str_jaspar Protein = PyExc ValueError /\
    format_of str_jaspar16 a = Value Jaspar16 /\ format_of str_uniprobe a = Value Uniprobe /\
    format_of str_transfac a = Value Transfac /\
    (forall f, f <> str_jaspar -> f <> str_jaspar16 -> f <> str_uniprobe -> f <> str_transfac ->
               format_of f a = PyExc ValueError).
  Proof.
    intros a. repeat split; try reflexivity.
    intros f H1 H2 H3 H4. unfold format_of.
    destruct (zlist_eqb f str_jaspar) eqn:E1; [apply zlist_eqb_eq in E1; congruence|].
    destruct (zlist_eqb f str_jaspar16) eqn:E2; [apply zlist_eqb_eq in E2; congruence|].
    destruct (zlist_eqb f str_transfac) eqn:E3; [apply zlist_eqb_eq in E3; congruence|].
    destruct (zlist_eqb f str_uniprobe) eqn:E4; [apply zlist_eqb_eq in E4; congruence|]. reflexivity.
  Qed.

  (* ---------------------------------------------------------------- EncodedSequence, ==, str, copies *)

  Theorem py_encode_eq_core : forall sequence protein s a,
    extract_str sequence = Value s -> protein_flag protein = Value a ->
    glue_encode K sequence protein = (_ <~ lift ValueError (c_encode_ok K a s) ;; Value (OEncoded _ _ _ _ _ a s)) /\
    glue_enc_stripe K a s = (q <~ lift ValueError (c_stripe K a s) ;; Value (OSeq _ _ _ _ _ a q)) /\
    (* stripe(text) and EncodedSequence(text).stripe() are the same core call *)
    (c_encode_ok K a s = COk tt -> glue_enc_stripe K a s = glue_stripe K sequence protein).
  Proof.
    intros sequence protein s a Hs Ha. unfold glue_encode, glue_enc_stripe, glue_stripe.
    rewrite Hs, Ha. repeat split; reflexivity.
  Qed.

  (* == is the derived PartialEq of the core data for two objects of the same class and alphabet,
     False for anything else (other class, other alphabet, not an object of the module) *)
  Theorem py_eq_is_core_eq : forall a c c' w w' s s',
    glue_eq K (OCount _ _ _ _ _ a c) (Some (OCount _ _ _ _ _ a c')) = Some (c_cm_eq K c c') /\
    glue_eq K (OWeight _ _ _ _ _ a w) (Some (OWeight _ _ _ _ _ a w')) = Some (c_wm_eq K w w') /\
    glue_eq K (OScoring _ _ _ _ _ a s) (Some (OScoring _ _ _ _ _ a s')) = Some (c_sm_eq K s s') /\
    glue_eq K (OCount _ _ _ _ _ Dna c) (Some (OCount _ _ _ _ _ Protein c')) = Some false /\
    glue_eq K (OCount _ _ _ _ _ a c) (Some (OWeight _ _ _ _ _ a w)) = Some false /\
    glue_eq K (OScoring _ _ _ _ _ a s) (Some (OWeight _ _ _ _ _ a w)) = Some false /\
    glue_eq K (OWeight _ _ _ _ _ a w) None = Some false /\
    glue_eq K (OScoring _ _ _ _ _ a s) None = Some false.
  Proof. intros. destruct a; repeat split; reflexivity. Qed.

  Theorem py_dist_eq_core : forall s,
    (ordered_ok true (c_sm_cells K s) = true ->
     glue_dist K s = (d <~ liftp (c_dist_sf K s) ;; Value (ODist _ _ _ _ _ d))) /\
    (ordered_ok true (c_sm_cells K s) = false -> glue_dist K s = PyExc ValueError).
  Proof. intros s. unfold glue_dist. split; intros ->; reflexivity. Qed.

  (* the slots a call may rebind: its destination, the sequence it reconfigures, the scanner it
     advances, the name it deletes *)
  Definition writes (c : call) : list nat :=
    match c with
    | KCountInit d _ _ | KNormalize d _ _ | KLogOdds d _ _ _ | KScoringInit d _ _ _ | KStripe d _ _
    | KRevcomp d _ | KCreate d _ _ _ | KGetMotif d _ _ | KLoad d _ _ _ | KGetLoaded d _ _ _
    | KEncode d _ _ | KEncStripe d _ | KCopy d _ | KDist d _ | KFileNew d | KLoaderNew d _ _ _ => [d]
    | KCalculate d _ (PRef n) => [d; n]
    | KCalculate d _ _ => [d]
    | KScan d _ (PRef n) _ _ => [d; n]
    | KScan d _ _ _ _ => [d]
    | KNext n _ | KDelete n | KLoaderNext n _ => [n]
    | KThreshold _ _ | KMax _ | KArgmax _ | KPvalue _ _ _ | KScore _ _ _ | KMaxScore _ | KEq _ _ | KStr _ => []
    end.

  Lemma lookup_unbind_other : forall (st : state CM WM SM SQ SC) n m,
    n <> m -> lookup _ _ _ _ _ (unbind _ _ _ _ _ st n) m = lookup _ _ _ _ _ st m.
  Proof.
    intros st n m Hnm. induction st as [|[k o] r IH]; [reflexivity|]. cbn [unbind lookup].
    destruct (Nat.eqb k n) eqn:E1.
    - apply Nat.eqb_eq in E1. subst k. rewrite IH.
      destruct (Nat.eqb n m) eqn:E2; [apply Nat.eqb_eq in E2; congruence | reflexivity].
    - cbn [lookup]. rewrite IH. reflexivity.
  Qed.

  Lemma lookup_bind_other : forall (st : state CM WM SM SQ SC) n o m,
    n <> m -> lookup _ _ _ _ _ (bind_slot _ _ _ _ _ st n o) m = lookup _ _ _ _ _ st m.
  Proof.
    intros st n o m Hnm. unfold bind_slot. cbn [lookup].
    destruct (Nat.eqb n m) eqn:E; [apply Nat.eqb_eq in E; congruence | reflexivity].
  Qed.

  Lemma store_frame : forall (st : state CM WM SM SQ SC) d o m,
    d <> m -> lookup _ _ _ _ _ (snd (store _ _ _ _ _ st d o)) m = lookup _ _ _ _ _ st m.
  Proof.
    intros st d o m Hd. destruct o; cbn [store snd];
      rewrite ?lookup_bind_other, ?lookup_unbind_other by assumption; reflexivity.
  Qed.

  (* frame property: a call leaves every slot it does not name as it is *)
  Theorem py_frame : forall st c m,
    ~ In m (writes c) -> lookup _ _ _ _ _ (snd (run_call K st c)) m = lookup _ _ _ _ _ st m.
  Proof.
    intros st c m H.
    destruct c; try destruct sequence; cbn [run_call];
      repeat match goal with
             | |- lookup _ _ _ _ _ (snd (match ?x with _ => _ end)) _ = _ => destruct x
             | |- lookup _ _ _ _ _ (snd (let (_, _) := ?x in _)) _ = _ => destruct x
             end;
      cbn [snd writes] in *;
      rewrite ?store_frame, ?lookup_bind_other, ?lookup_unbind_other
        by (intro; subst; apply H; simpl; auto);
      try reflexivity.
  Qed.

  (* copy() / __copy__: the copy is an object of its own with the value of the original, and
     whatever is done to one of them afterwards (reconfiguring by calculate / scan, deleting,
     rebinding) never changes the other *)
  Theorem py_copy_independent : forall st d n o,
    lookup _ _ _ _ _ st n = Some o -> d <> n ->
    (forall v, glue_copy _ _ _ _ _ o = Value v -> v = o /\
               lookup _ _ _ _ _ (snd (run_call K st (KCopy d n))) d = Some o) /\
    lookup _ _ _ _ _ (snd (run_call K st (KCopy d n))) n = Some o /\
    (forall st' c, ~ In n (writes c) ->
       lookup _ _ _ _ _ (snd (run_call K st' c)) n = lookup _ _ _ _ _ st' n) /\
    (forall st' c, ~ In d (writes c) ->
       lookup _ _ _ _ _ (snd (run_call K st' c)) d = lookup _ _ _ _ _ st' d).
  Proof.
    intros st d n o Hn Hd. repeat split.
    - destruct o; simpl in H; inversion H; reflexivity.
    - cbn [run_call]. rewrite Hn, H. cbn [store snd]. unfold bind_slot. cbn [lookup].
      rewrite Nat.eqb_refl. f_equal. destruct o; simpl in H; inversion H; reflexivity.
    - rewrite py_frame; [exact Hn | simpl; intros [E|[]]; congruence].
    - intros; apply py_frame; assumption.
    - intros; apply py_frame; assumption.
  Qed.

  (* ---------------------------------------------------------------- object lifetimes *)

  (* dropping the last name of an object (del + gc.collect()) leaves every other object as it is:
     scanners keep the hits they are due to hand out, scores and matrices taken from motifs
     their contents - whatever was derived from the deleted matrix or sequence keeps working *)
  Theorem py_delete_leaves_others : forall st n m,
    n <> m -> lookup _ _ _ _ _ (snd (run_call K st (KDelete n))) m = lookup _ _ _ _ _ st m.
  Proof.
    intros st n m Hnm. cbn [run_call]. destruct (lookup _ _ _ _ _ st n) as [o0|]; [|reflexivity]. cbn [snd].
    clear o0. induction st as [|[k o] r IH]; [reflexivity|]. cbn [unbind lookup].
    destruct (Nat.eqb k n) eqn:E1.
    - apply Nat.eqb_eq in E1. subst k. rewrite IH.
      destruct (Nat.eqb n m) eqn:E2; [apply Nat.eqb_eq in E2; congruence | reflexivity].
    - cbn [lookup]. rewrite IH. reflexivity.
  Qed.

  (* ---------------------------------------------------------------- invalid arguments *)

  (* argument handling never panics, whatever the core does: the validation of every argument
     (numbers, flags, strings, dictionaries, block sizes, methods) ends in a value or PyExc *)
  Theorem py_invalid_args_raise :
    (forall v, extract_f64 v <> Panic) /\ (forall v, extract_f32 v <> Panic) /\
    (forall v, extract_u32 v <> Panic) /\ (forall v, extract_usize v <> Panic) /\
    (forall v, extract_str v <> Panic) /\ (forall v, extract_bool v <> Panic) /\
    (forall p, protein_flag p <> Panic) /\
    (forall a kv, dict_to_alphabet_array a kv <> Panic) /\
    (forall a pc, glue_pseudo a pc <> Panic) /\
    (forall m, method_arg m <> Panic) /\
    (forall thr bs, glue_scan_args thr bs <> Panic) /\
    (forall a io ex j kv d, (forall v, ex v <> Panic) -> cols_loop a io ex (symbols a) j kv d <> Panic) /\
    (* and an argument error decides the outcome of the call before the core is consulted *)
    (forall a c pc e, glue_pseudo a pc = PyExc e -> glue_normalize K a c pc = PyExc e) /\
    (forall a w bg base e, base_arg base = PyExc e -> glue_log_odds K a w bg base = PyExc e) /\
    (forall a w bg base b, base_arg base = Value b -> base_invalid b = true ->
                           glue_log_odds K a w bg base = PyExc ValueError) /\
    (forall s x m e, extract_f64 x = PyExc e -> glue_pvalue K s x m = PyExc e /\ glue_score K s x m = PyExc e) /\
    (forall sc t e, extract_f32 t = PyExc e -> glue_threshold K sc t = PyExc e).
  Proof.
    repeat split.
    - apply extract_f64_np. - apply extract_f32_np. - apply extract_u32_np. - apply extract_usize_np.
    - apply extract_str_np. - apply extract_bool_np. - apply protein_flag_np.
    - intros; apply d2a_loop_np. - apply glue_pseudo_np. - apply method_arg_np. - apply glue_scan_args_np.
    - intros; apply cols_loop_np; assumption.
    - intros a c pc e H. unfold glue_normalize. rewrite H. reflexivity.
    - intros a w bg base e H. unfold glue_log_odds. fold (base_arg base). rewrite H. reflexivity.
    - intros a w bg base b H Hb. unfold glue_log_odds. fold (base_arg base). rewrite H. cbn [obind]. rewrite Hb. reflexivity.
    - unfold glue_pvalue. rewrite H. reflexivity.
    - unfold glue_score. rewrite H. reflexivity.
    - intros sc t e H. unfold glue_threshold. rewrite H. reflexivity.
  Qed.

  (* data on which the core operation is undefined are refused with a ValueError before the core
     is consulted (repairs of F25): an empty motif in calculate / scan / p-values, scores that
     cannot be ordered (NaN) in max_score / scan, a matrix without score distribution (NaN, +inf,
     empty) with the "meme" method, non-finite scores with "tfmpvalue", a NaN score, a p-value
     outside [0, 1] *)
  Theorem py_degenerate_data_raise : forall s,
    (sm_empty (c_sm_cells K s) = true ->
       (forall a aq q, glue_calculate K a s aq q = (PyExc ValueError, q)) /\
       (forall a aq q t b, glue_scan K a s aq q t b = (PyExc ValueError, q))) /\
    (cells_nan (c_sm_cells K s) = true ->
       glue_max_score K s = PyExc ValueError /\
       (forall a aq q t b, glue_scan K a s aq q t b = (PyExc ValueError, q))) /\
    (forall x m v mm, extract_f64 x = Value v -> method_arg m = Value mm ->
       (f64_is_nan v = true -> glue_pvalue K s x m = PyExc ValueError) /\
       (pvalue_in_range v = false -> glue_score K s x m = PyExc ValueError) /\
       (mm = str_tfmpvalue -> finite_ok (c_sm_cells K s) = false ->
          glue_pvalue K s x m = PyExc ValueError /\ glue_score K s x m = PyExc ValueError) /\
       (mm = str_meme -> ordered_ok true (c_sm_cells K s) = false ->
          glue_pvalue K s x m = PyExc ValueError /\ glue_score K s x m = PyExc ValueError)).
  Proof.
    intros s. repeat split.
    - intros a aq q. unfold glue_calculate. rewrite H. reflexivity.
    - intros a aq q t b. unfold glue_scan. rewrite H. destruct (negb _); [reflexivity|].
      destruct a, aq; reflexivity.
    - unfold glue_max_score, ordered_ok. rewrite H. reflexivity.
    - intros a aq q t b. unfold glue_scan, ordered_ok. rewrite H. reflexivity.
    - intros Hn. unfold glue_pvalue. rewrite H, H0. cbn [obind]. rewrite Hn. reflexivity.
    - intros Hr. unfold glue_score. rewrite H, H0. cbn [obind]. rewrite Hr. reflexivity.
    - subst mm. unfold glue_pvalue. rewrite H, H0. cbn [obind].
      destruct (f64_is_nan v || _); [reflexivity|].
      replace (zlist_eqb str_tfmpvalue str_tfmpvalue) with true by reflexivity. rewrite H2. reflexivity.
    - subst mm. unfold glue_score. rewrite H, H0. cbn [obind].
      destruct (negb (pvalue_in_range v)); [reflexivity|].
      replace (zlist_eqb str_tfmpvalue str_tfmpvalue) with true by reflexivity. rewrite H2. reflexivity.
    - subst mm. unfold glue_pvalue. rewrite H, H0. cbn [obind].
      destruct (f64_is_nan v || _); [reflexivity|].
      replace (zlist_eqb str_meme str_tfmpvalue) with false by reflexivity.
      replace (zlist_eqb str_meme str_meme) with true by reflexivity. rewrite H2. reflexivity.
    - subst mm. unfold glue_score. rewrite H, H0. cbn [obind].
      destruct (negb (pvalue_in_range v)); [reflexivity|].
      replace (zlist_eqb str_meme str_tfmpvalue) with false by reflexivity.
      replace (zlist_eqb str_meme str_meme) with true by reflexivity. rewrite H2. reflexivity.
  Qed.

  (* No step of any history ends in a PanicException, provided every core operation returns a value
     UNDER THE PRECONDITION THE GLUE ESTABLISHES before it calls it (core_guarded: score / scan only on a
     non-empty matrix and a sequence configured for it, scan / max_score without NaN, the distribution
     calls under ensure_ordered(true), TFM-PVALUE under ensure_finite and with a finite score, p-values in
     [0, 1], a valid base for to_scoring; score / scan only for a matrix and a sequence of the same alphabet -
     the call is made in a state whose alphabet labels agree with the values, st_typed).  Nothing is assumed of
     the core outside these preconditions:
     the proof goes through the guards of the glue model one by one - delete one (py_*_guard_needed below)
     and a core satisfying core_guarded makes the call panic. *)
  Theorem py_panic_only_from_core :
    forall sm_ty sq_ty wrap_ok, core_guarded _ _ _ _ _ _ K sm_ty sq_ty wrap_ok ->
    forall st c, st_typed _ _ _ _ _ sm_ty sq_ty st -> fst (run_call K st c) <> Done _ _ _ _ _ Panic.
  Proof. intros sm_ty sq_ty wrap_ok CG st c Hty. eapply run_call_np; eauto. Qed.

  (* for a core whose promise does not depend on the alphabets, every state is well labelled: no step of any
     history panics *)
  Corollary py_history_no_panic :
    forall wrap_ok, core_guarded _ _ _ _ _ _ K (fun _ _ => True) (fun _ _ => True) wrap_ok ->
    forall cs st, ~ In (Done _ _ _ _ _ Panic) (run_history K st cs).
  Proof.
    intros wrap_ok CG cs. induction cs as [|c r IH]; intros st H; [destruct H|].
    cbn [run_history] in H. destruct (run_call K st c) as [o st'] eqn:E.
    destruct H as [H|H]; [|eapply IH; eauto].
    apply (py_panic_only_from_core _ _ wrap_ok CG st c).
    - intros n o0 _. destruct o0; exact I.
    - rewrite E. exact H.
  Qed.

  (* the hypothesis of rounds 1-3 (every core operation total on everything) is a special case *)
  Corollary py_panic_only_from_core_total :
    core_total _ _ _ _ _ _ K -> forall st c, fst (run_call K st c) <> Done _ _ _ _ _ Panic.
  Proof.
    intros CT st c. apply (py_panic_only_from_core (fun _ _ => True) (fun _ _ => True) (fun _ _ => True)).
    - apply core_total_guarded. exact CT.
    - intros n o0 _. destruct o0; exact I.
  Qed.
End Entries.

(* ------------------------------------------------------------------ histories, full strength *)

(* For ANY history of calls (all entry points interleaved in any order, any number of sequence
   objects, scanners alive across reconfigurations): if two states hold the same objects except
   that their striped sequences may differ in everything but alphabet and text (in particular in
   the look-ahead rows left by earlier calls), every call of the history has the same outcome in
   both - values, exceptions and unbound slots alike.  Hence no outcome depends on the order in
   which a sequence object was used before.  (Core facts assumed: C04 configure, C01/C02 scores
   and hits are functions of the text once the look-ahead rows suffice.) *)
Theorem py_history_depends_on_text_only :
  forall (CM FM WM SM SQ SC : Type) (K : core CM FM WM SM SQ SC)
         (T : Type) (text : SQ -> T) (wrap_ok : SM -> SQ -> Prop),
  (forall q s, exists q', c_configure K q s = COk q') ->
  (forall q s q', c_configure K q s = COk q' -> text q' = text q) ->
  (forall q s q', c_configure K q s = COk q' -> wrap_ok s q') ->
  (forall s q1 q2, wrap_ok s q1 -> wrap_ok s q2 -> text q1 = text q2 -> c_score K s q1 = c_score K s q2) ->
  (forall s q1 q2 t b, wrap_ok s q1 -> wrap_ok s q2 -> text q1 = text q2 -> c_scan K s q1 t b = c_scan K s q2 t b) ->
  forall cs st st',
    st_rel CM WM SM SQ SC T text st st' ->
    steps_rel CM WM SM SQ SC T text (run_history K st cs) (run_history K st' cs).
Proof. intros. eapply run_history_rel; eauto. Qed.


(* ------------------------------------------------------------------ the scanner over the live sequence *)

(* The Python Scanner keeps references to the live matrix and sequence objects (lib.rs: transmute to
   'static) and computes its hits block by block, on demand.  Read lazily - a scanner is only the
   matrix, the parameters, the sequence *object* (seen through every later in-place reconfiguration by
   calculate / scan / Scanner, also after the history dropped or rebound its name) and a count of hits
   handed out; next() scans the sequence as it is now - every history gives, call by call, exactly what
   the eager reading [run_history] prescribes (the hits of the core on the data as it was when the
   scanner was made), provided further look-ahead rows never change a successful core scan.  The driver
   runs both readings on every history and reports when they differ. *)
Theorem py_scanner_lazy_eq_eager : forall CM FM WM SM SQ SC (K : core CM FM WM SM SQ SC),
  scan_stable CM FM WM SM SQ SC K ->
  forall cs, run_history_lazy K [] [] cs = run_history K [] cs.
Proof. intros CM FM WM SM SQ SC K H cs. apply lazy_history; [exact H | apply linv_nil]. Qed.

(* one step: same outcome, same objects, and the two readings stay in agreement *)
Theorem py_scanner_lazy_step : forall CM FM WM SM SQ SC (K : core CM FM WM SM SQ SC),
  scan_stable CM FM WM SM SQ SC K ->
  forall st ls c, linv CM FM WM SM SQ SC K st ls ->
    fst (fst (run_call_lazy K st ls c)) = fst (run_call K st c) /\
    snd (fst (run_call_lazy K st ls c)) = snd (run_call K st c) /\
    linv CM FM WM SM SQ SC K (snd (run_call K st c)) (snd (run_call_lazy K st ls c)).
Proof. intros. apply lazy_step; assumption. Qed.


(* ------------------------------------------------------------------ threads *)

(* Two threads whose calls are interleaved in any order: when neither thread writes a name that the
   other reads or writes - a scoring matrix both only read (calculate on their own sequences, pvalue,
   score, max_score, ==) is fine - every call returns what it returns when its thread runs alone.
   What the theorem assumes is that calls are atomic; the `mt` cases of the correspondence run check
   that on the implementation (calculate / threshold / max / argmax release the GIL while they hold
   their borrows): concurrent results equal the sequential ones, and sharing a *sequence* between
   threads gives the sequential result or the documented RuntimeError (already borrowed). *)
Theorem py_threads_independent : forall CM FM WM SM SQ SC (K : core CM FM WM SM SQ SC) st l,
  separate (proj true l) (proj false l) ->
  proj true (run_tagged K st l) = run_history K st (proj true l) /\
  proj false (run_tagged K st l) = run_history K st (proj false l).
Proof. intros. apply threads_independent. assumption. Qed.

(* the three facts behind it, for one call *)
Theorem py_call_local : forall CM FM WM SM SQ SC (K : core CM FM WM SM SQ SC) st st' c,
  agree CM WM SM SQ SC (reads c) st st' ->
  fst (run_call K st c) = fst (run_call K st' c) /\
  (forall m, In m (PyGlueThreads.writes c) ->
     lookup _ _ _ _ _ (snd (run_call K st c)) m = lookup _ _ _ _ _ (snd (run_call K st' c)) m) /\
  (forall m, ~ In m (PyGlueThreads.writes c) -> lookup _ _ _ _ _ (snd (run_call K st c)) m = lookup _ _ _ _ _ st m).
Proof.
  intros CM FM WM SM SQ SC K st st' c H. split; [apply local_step; exact H|]. split.
  - intros m Hm. apply local_writes; assumption.
  - intros m Hm. apply local_frame; assumption.
Qed.


(* ------------------------------------------------------------------ no panic inside an iteration either *)

(* py_panic_only_from_core is about the call itself; the motifs of a load come out of an iteration.
   When the core readers do not panic (over well-behaved data: cg_read of core_guarded; over misbehaving streams
   and when driven lazily: readers_total) no next() of a loader raises a PanicException: neither the
   end of list(load(..)), nor any item of an iteration that goes on after errors, nor any item handed
   out by a lazy Loader *)
Theorem py_items_no_panic : forall CM FM WM SM SQ SC (K : core CM FM WM SM SQ SC) sm_ty sq_ty wrap_ok,
  core_guarded _ _ _ _ _ _ K sm_ty sq_ty wrap_ok -> readers_total _ _ _ _ _ _ K ->
  (forall file format protein r, glue_load K file format protein = Value r ->
     match r with
     | RLoad _ _ _ _ _ _ t => t <> Panic
     | RLoadSeq _ _ _ _ _ items => ~ In Panic items
     | _ => True
     end) /\
  (forall a id calls k, ~ In Panic (fst (lazy_take K a id calls k))).
Proof.
  intros CM FM WM SM SQ SC K sm_ty sq_ty wrap_ok CT RT. split.
  - intros file format protein r H. exact (load_no_item_panic _ _ _ _ _ _ K sm_ty sq_ty wrap_ok CT RT file format protein r H).
  - intros a id calls k. eapply lazy_take_np; eassumption.
Qed.


(* ------------------------------------------------------------------ a matrix without any finite score (F28, a1b1f91) *)

(* when no cell of the scoring matrix is a finite number (all -inf, the wildcard column included: e.g.
   create(["N"])), the score distribution, and the p-value <-> score conversions of the "meme" method,
   are refused with a ValueError before the core - which has no distribution for such a matrix - is asked *)
Theorem py_no_finite_score_raises : forall CM FM WM SM SQ SC (K : core CM FM WM SM SQ SC) s,
  cells_some_finite (c_sm_cells K s) = false ->
  ordered_ok true (c_sm_cells K s) = false /\
  glue_dist K s = PyExc ValueError /\
  (forall x v, extract_f64 x = Value v -> glue_pvalue K s x None = PyExc ValueError) /\
  (forall x v, extract_f64 x = Value v -> glue_score K s x None = PyExc ValueError).
Proof.
  intros CM FM WM SM SQ SC K s H.
  assert (Ho : ordered_ok true (c_sm_cells K s) = false).
  { unfold ordered_ok. rewrite H. destruct (cells_nan _), (cells_posinf _), (sm_empty _); reflexivity. }
  split; [exact Ho|]. split; [unfold glue_dist; rewrite Ho; reflexivity|]. split.
  - intros x v Hx. unfold glue_pvalue. rewrite Hx. cbn [obind method_arg].
    replace (zlist_eqb str_meme str_tfmpvalue) with false by reflexivity.
    replace (zlist_eqb str_meme str_meme) with true by reflexivity.
    rewrite andb_false_r, orb_false_r. destruct (f64_is_nan v); [reflexivity|]. rewrite Ho. reflexivity.
  - intros x v Hx. unfold glue_score. rewrite Hx. cbn [obind method_arg].
    replace (zlist_eqb str_meme str_tfmpvalue) with false by reflexivity.
    replace (zlist_eqb str_meme str_meme) with true by reflexivity.
    destruct (negb (pvalue_in_range v)); [reflexivity|]. rewrite Ho. reflexivity.
Qed.

(* the cells of create(["N"]).pssm: all -inf *)
Example ex_all_neg_inf : cells_some_finite [[4286578688; 4286578688; 4286578688; 4286578688; 4286578688]] = false /\
                         cells_some_finite [[4286578688; 0; 4286578688; 4286578688; 4286578688]] = true.
Proof. vm_compute. split; reflexivity. Qed.

(* ------------------------------------------------------------------ tie to the source text *)

(* GenPySig.v is regenerated from lib.rs / io.rs / abc.rs on every run (translate/pyglue_sig.py):
   the defaults of every #[pyo3(signature)], the method strings of pvalue / score, the alphabet
   strings and the default format are the constants the model uses *)
(* the same set of strings (the order of disjoint match arms is immaterial) *)
Definition same_strings (x y : list (list Z)) : bool :=
  forallb (fun m => existsb (zlist_eqb m) y) x && forallb (fun m => existsb (zlist_eqb m) x) y.

Theorem py_signatures_tied :
  symbols Dna = gen_dna_symbols /\ symbols Protein = gen_protein_symbols /\
  glue_scan_args None None = Value (gen_scanner_threshold, gen_scanner_block_size) /\
  gen_scan_threshold = gen_scanner_threshold /\ gen_scan_block_size = gen_scanner_block_size /\
  f32_two = gen_log_odds_base /\ gen_log_odds_background_none = true /\
  method_arg None = Value gen_pvalue_method /\ gen_score_method = gen_pvalue_method /\
  same_strings gen_pvalue_arms [str_tfmpvalue; str_meme] = true /\
  same_strings gen_score_arms [str_tfmpvalue; str_meme] = true /\
  format_arg None = Value gen_load_format /\ gen_loader_format = gen_load_format /\
  forallb negb gen_protein_defaults = true /\
  gen_normalize_pseudocount_none = true /\ gen_scoring_init_background_none = true /\
  gen_create_name_none = true /\
  gen_encoded_params = [[115; 101; 113; 117; 101; 110; 99; 101]; [112; 114; 111; 116; 101; 105; 110]] /\
  gen_encoded_keyword_only = false.
Proof. repeat split; reflexivity. Qed.

(* ------------------------------------------------------------------ which exception where *)

Definition exc_name (e : exc) : list Z :=
  match e with
  | ValueError => [86; 97; 108; 117; 101; 69; 114; 114; 111; 114]
  | TypeError => [84; 121; 112; 101; 69; 114; 114; 111; 114]
  | OverflowError => [79; 118; 101; 114; 102; 108; 111; 119; 69; 114; 114; 111; 114]
  | RuntimeError => [82; 117; 110; 116; 105; 109; 101; 69; 114; 114; 111; 114]
  | OSError => [79; 83; 69; 114; 114; 111; 114]
  | UnicodeError => [85; 110; 105; 99; 111; 100; 101; 69; 114; 114; 111; 114]
  | AttributeError => [65; 116; 116; 114; 105; 98; 117; 116; 101; 69; 114; 114; 111; 114]
  | NameError => [78; 97; 109; 101; 69; 114; 114; 111; 114]
  | KeyError => [75; 101; 121; 69; 114; 114; 111; 114]
  end.

(* the messages of the `Py<Class>::new_err` sites whose exception class the model relies on (the site of a
   message is found again in the generated table whatever moves around it) *)
Definition model_exc_sites : list (list Z * exc) :=
  [([97; 108; 112; 104; 97; 98; 101; 116; 32; 109; 105; 115; 109; 97; 116; 99; 104], ValueError) (* alphabet mismatch *);
   ([112; 114; 111; 116; 101; 105; 110; 32; 115; 99; 97; 110; 110; 101; 114; 32; 105; 115; 32; 110; 111; 116; 32; 115; 117; 112; 112; 111; 114; 116; 101; 100], ValueError) (* protein scanner is not supported *);
   ([98; 108; 111; 99; 107; 95; 115; 105; 122; 101; 32; 109; 117; 115; 116; 32; 98; 101; 32; 115; 116; 114; 105; 99; 116; 108; 121; 32; 112; 111; 115; 105; 116; 105; 118; 101], ValueError) (* block_size must be strictly positive *);
   ([101; 109; 112; 116; 121; 32; 115; 99; 111; 114; 105; 110; 103; 32; 109; 97; 116; 114; 105; 120], ValueError) (* empty scoring matrix *);
   ([115; 99; 111; 114; 105; 110; 103; 32; 109; 97; 116; 114; 105; 120; 32; 105; 115; 32; 101; 109; 112; 116; 121; 32; 111; 114; 32; 99; 111; 110; 116; 97; 105; 110; 115; 32; 78; 97; 78; 32; 111; 114; 32; 105; 110; 102; 105; 110; 105; 116; 101; 32; 115; 99; 111; 114; 101; 115], ValueError) (* scoring matrix is empty or contains NaN or infinite scores *);
   ([116; 104; 101; 32; 116; 102; 109; 112; 118; 97; 108; 117; 101; 32; 109; 101; 116; 104; 111; 100; 32; 114; 101; 113; 117; 105; 114; 101; 115; 32; 97; 32; 110; 111; 110; 45; 101; 109; 112; 116; 121; 32; 109; 97; 116; 114; 105; 120; 32; 119; 105; 116; 104; 32; 102; 105; 110; 105; 116; 101; 32; 115; 99; 111; 114; 101; 115; 32; 40; 117; 115; 101; 32; 112; 115; 101; 117; 100; 111; 99; 111; 117; 110; 116; 115; 41], ValueError) (* the tfmpvalue method requires a non-empty matrix with finite scores (use pseudocounts) *);
   ([99; 97; 110; 110; 111; 116; 32; 99; 111; 109; 112; 108; 101; 109; 101; 110; 116; 32; 97; 32; 112; 114; 111; 116; 101; 105; 110; 32; 115; 101; 113; 117; 101; 110; 99; 101], RuntimeError) (* cannot complement a protein sequence *);
   ([105; 110; 118; 97; 108; 105; 100; 32; 112; 118; 97; 108; 117; 101; 32; 109; 101; 116; 104; 111; 100], ValueError) (* invalid pvalue method *);
   ([105; 110; 118; 97; 108; 105; 100; 32; 115; 99; 111; 114; 101], ValueError) (* invalid score *);
   ([105; 110; 118; 97; 108; 105; 100; 32; 112; 45; 118; 97; 108; 117; 101], ValueError) (* invalid p-value *);
   ([105; 110; 118; 97; 108; 105; 100; 32; 108; 111; 103; 97; 114; 105; 116; 104; 109; 32; 98; 97; 115; 101], ValueError) (* invalid logarithm base *);
   ([73; 110; 118; 97; 108; 105; 100; 32; 98; 97; 99; 107; 103; 114; 111; 117; 110; 100; 32; 102; 114; 101; 113; 117; 101; 110; 99; 105; 101; 115], ValueError) (* Invalid background frequencies *);
   ([73; 110; 118; 97; 108; 105; 100; 32; 116; 121; 112; 101; 32; 102; 111; 114; 32; 112; 115; 101; 117; 100; 111; 99; 111; 117; 110; 116], TypeError) (* Invalid type for pseudocount *);
   ([73; 110; 118; 97; 108; 105; 100; 32; 107; 101; 121; 32; 102; 111; 114; 32; 112; 115; 101; 117; 100; 111; 99; 111; 117; 110; 116], ValueError) (* Invalid key for pseudocount *);
   ([73; 110; 118; 97; 108; 105; 100; 32; 110; 117; 109; 98; 101; 114; 32; 111; 102; 32; 114; 111; 119; 115], ValueError) (* Invalid number of rows *);
   ([73; 110; 118; 97; 108; 105; 100; 32; 99; 111; 117; 110; 116; 32; 109; 97; 116; 114; 105; 120], ValueError) (* Invalid count matrix *);
   ([73; 110; 99; 111; 110; 115; 105; 115; 116; 101; 110; 116; 32; 114; 111; 119; 115; 32; 105; 110; 32; 99; 111; 117; 110; 116; 32; 109; 97; 116; 114; 105; 120], ValueError) (* Inconsistent rows in count matrix *);
   ([73; 110; 118; 97; 108; 105; 100; 32; 115; 121; 109; 98; 111; 108; 32; 105; 110; 32; 105; 110; 112; 117; 116], ValueError) (* Invalid symbol in input *);
   ([73; 110; 118; 97; 108; 105; 100; 32; 115; 121; 109; 98; 111; 108; 32; 105; 110; 32; 115; 101; 113; 117; 101; 110; 99; 101], ValueError) (* Invalid symbol in sequence *);
   ([73; 110; 99; 111; 110; 115; 105; 115; 116; 101; 110; 116; 32; 115; 101; 113; 117; 101; 110; 99; 101; 32; 108; 101; 110; 103; 116; 104], ValueError) (* Inconsistent sequence length *);
   ([105; 110; 118; 97; 108; 105; 100; 32; 100; 97; 116; 97], ValueError) (* invalid data *);
   ([102; 97; 105; 108; 101; 100; 32; 116; 111; 32; 112; 97; 114; 115; 101; 32; 105; 110; 112; 117; 116], ValueError) (* failed to parse input *);
   ([105; 110; 118; 97; 108; 105; 100; 32; 99; 111; 117; 110; 116; 32; 109; 97; 116; 114; 105; 120], ValueError) (* invalid count matrix *);
   ([99; 97; 110; 110; 111; 116; 32; 114; 101; 97; 100; 32; 112; 114; 111; 116; 101; 105; 110; 32; 109; 111; 116; 105; 102; 115; 32; 102; 114; 111; 109; 32; 74; 65; 83; 80; 65; 82; 32; 102; 111; 114; 109; 97; 116], ValueError) (* cannot read protein motifs from JASPAR format *);
   ([105; 110; 118; 97; 108; 105; 100; 32; 102; 111; 114; 109; 97; 116], ValueError) (* invalid format *);
   ([101; 120; 112; 101; 99; 116; 101; 100; 32; 98; 121; 116; 101; 115; 44; 32; 102; 111; 117; 110; 100], TypeError) (* expected bytes, found *);
   ([102; 104; 46; 114; 101; 97; 100; 32; 114; 101; 116; 117; 114; 110; 101; 100; 32; 109; 111; 114; 101; 32; 98; 121; 116; 101; 115; 32; 116; 104; 97; 110; 32; 114; 101; 113; 117; 101; 115; 116; 101; 100], OSError) (* fh.read returned more bytes than requested *)].

(* a message names at least one site of the source, and every site with that message raises the class the
   model says *)
Definition site_ok (sites : list (list Z * list Z)) (me : list Z * exc) : bool :=
  let hits := filter (fun s => zlist_eqb (fst s) (fst me)) sites in
  negb (match hits with [] => true | _ => false end) &&
  forallb (fun s => zlist_eqb (snd s) (exc_name (snd me))) hits.

Theorem py_exception_sites_tied : forallb (site_ok gen_exc_sites) model_exc_sites = true.
Proof. vm_compute. reflexivity. Qed.

(* ... and these are the kinds the model raises at those places *)
Theorem py_exception_kinds : forall CM FM WM SM SQ SC (K : core CM FM WM SM SQ SC),
  (forall s, glue_revcomp K Protein s = PyExc RuntimeError) /\
  (forall s q, sm_empty (c_sm_cells K s) = false ->
     fst (glue_calculate K Dna s Protein q) = PyExc ValueError /\ fst (glue_calculate K Protein s Dna q) = PyExc ValueError) /\
  (forall s aq q, sm_empty (c_sm_cells K s) = true -> fst (glue_calculate K aq s aq q) = PyExc ValueError) /\
  (forall s q t b, ordered_ok false (c_sm_cells K s) = true ->
     fst (glue_scan K Protein s Protein q t b) = PyExc ValueError /\
     fst (glue_scan K Dna s Protein q t b) = PyExc ValueError /\ fst (glue_scan K Protein s Dna q t b) = PyExc ValueError) /\
  (forall thr t, match thr with None => Value 0 | Some v => extract_f32 v end = Value t ->
     glue_scan_args thr (Some (PInt 0)) = PyExc ValueError) /\
  fault_exc FNotBytes = TypeError /\ fault_exc FTooMany = OSError /\
  convert_error EInvalidData = ValueError /\ convert_error ENom = ValueError /\ convert_error EIo = OSError /\
  (forall format protein, glue_load K FileNotBytes format protein = PyExc TypeError \/
     exists e, glue_load K FileNotBytes format protein = PyExc e /\
               (format_arg format = PyExc e \/ exists f, format_arg format = Value f /\ protein_flag protein = PyExc e)).
Proof.
  intros CM FM WM SM SQ SC K. repeat split.
  - unfold glue_calculate. rewrite H. reflexivity.
  - unfold glue_calculate. rewrite H. reflexivity.
  - intros s aq q H. unfold glue_calculate. rewrite H. reflexivity.
  - unfold glue_scan. rewrite H. reflexivity.
  - unfold glue_scan. rewrite H. reflexivity.
  - unfold glue_scan. rewrite H. reflexivity.
  - intros thr t H. unfold glue_scan_args. rewrite H. reflexivity.
  - intros format protein. unfold glue_load. destruct (format_arg format) as [f|e|] eqn:Ef; cbn [obind].
    + destruct (protein_flag protein) as [a|e|] eqn:Ea; cbn [obind].
      * left. reflexivity.
      * right. exists e. split; [reflexivity|]. right. exists f. split; reflexivity.
      * exfalso. eapply protein_flag_np. exact Ea.
    + right. exists e. split; [reflexivity|]. left. reflexivity.
    + exfalso. destruct format as [v|]; [|discriminate]. cbn in Ef. eapply extract_str_np. exact Ef.
Qed.

(* first-match semantics of the `match format { "jaspar" if protein => ..., ... }` of Loader.__init__
   over the arms as they stand in io.rs *)
Fixpoint arms_first (arms : list (list Z * bool * option (list Z * bool))) (f : list Z) (protein : bool)
  : option (option (list Z * bool)) :=
  match arms with
  | [] => None
  | (s, guard, target) :: r =>
      if zlist_eqb f s && (implb guard protein) then Some target else arms_first r f protein
  end.

Definition reader_fmt (m : list Z) : option fmt :=
  if zlist_eqb m str_jaspar then Some Jaspar
  else if zlist_eqb m str_jaspar16 then Some Jaspar16
  else if zlist_eqb m str_transfac then Some Transfac
  else if zlist_eqb m str_uniprobe then Some Uniprobe
  else None.

Definition arms_decide (arms : list (list Z * bool * option (list Z * bool))) (f : list Z) (a : abc) : outcome fmt :=
  let p := match a with Protein => true | Dna => false end in
  match arms_first arms f p with
  | None | Some None => PyExc ValueError
  | Some (Some (m, reads_protein)) =>
      (* the reader of module m, instantiated at the alphabet the caller asked for *)
      match reader_fmt m with
      | Some k => if Bool.eqb reads_protein p then Value k else PyExc TypeError
      | None => PyExc TypeError
      end
  end.

Theorem py_format_dispatch_tied : forall f a, format_of f a = arms_decide gen_loader_arms f a.
Proof.
  intros f a. unfold format_of, arms_decide, gen_loader_arms, arms_first, reader_fmt,
    str_jaspar, str_jaspar16, str_transfac, str_uniprobe.
  destruct a; cbn [implb andb Bool.eqb];
    repeat match goal with
           | |- context [zlist_eqb f ?s] => destruct (zlist_eqb f s); cbn [andb]
           end; reflexivity.
Qed.

(* ------------------------------------------------------------------ the checker *)

(* C17 for one call: [want] is what the core library prescribes for the data (value, an
   ordinary exception being due, or the core itself panicking), [obs] what Python did *)
Definition C17_holds {A} (R : A -> A -> Prop) (want obs : outcome A) : Prop :=
  obs <> Panic /\
  (forall v, want = Value v -> exists o, obs = Value o /\ R v o) /\
  (forall e, want = PyExc e -> exists e', obs = PyExc e').

Theorem check_C17_sound : forall A (eqv : A -> A -> bool) (R : A -> A -> Prop) want obs,
  (forall x y, eqv x y = true -> R x y) ->
  check_C17 eqv want obs = true -> C17_holds R want obs.
Proof.
  intros A eqv R want obs HR H. unfold C17_holds.
  destruct want, obs; simpl in H; try discriminate; repeat split; intros; try discriminate; try congruence.
  - inversion H0; subst. eauto.
  - eauto.
Qed.

Theorem check_C17_complete : forall A (eqv : A -> A -> bool) (R : A -> A -> Prop) want obs,
  (forall x y, R x y -> eqv x y = true) ->
  C17_holds R want obs -> check_C17 eqv want obs = true.
Proof.
  intros A eqv R want obs HR [H0 [H1 H2]].
  destruct want as [v|e|].
  - destruct (H1 v eq_refl) as [o [-> Ho]]. simpl. auto.
  - destruct (H2 e eq_refl) as [e' ->]. reflexivity.
  - destruct obs; try reflexivity. congruence.
Qed.

(* the glue model itself passes the checker whenever it does not panic (and it does not,
   unless the core does: py_panic_only_from_core) *)
Theorem model_passes_C17 : forall A (eqv : A -> A -> bool) (o : outcome A),
  (forall x, eqv x x = true) -> o <> Panic -> check_C17 eqv o o = true /\ same_outcome eqv o o = true.
Proof.
  intros A eqv o H Hn. destruct o as [v|e|].
  - simpl. auto.
  - simpl. split; auto. destruct e; reflexivity.
  - congruence.
Qed.

(* str(EncodedSequence(text)) is the text: the constructor keeps what it validated, __str__ hands it back *)
Theorem py_encoded_str_roundtrip : forall CM FM WM SM SQ SC (K : core CM FM WM SM SQ SC) st dst v p a s,
  fst (run_call K st (KEncode dst v p)) = Done _ _ _ _ _ (Value (RObj _ _ _ _ _ (OEncoded _ _ _ _ _ a s))) ->
  extract_str v = Value s /\
  fst (run_call K (snd (run_call K st (KEncode dst v p))) (KStr dst)) = Done _ _ _ _ _ (Value (RStr _ _ _ _ _ s)).
Proof.
  intros CM FM WM SM SQ SC K st dst v p a s H. cbn [run_call] in *.
  unfold glue_encode in *. destruct (extract_str v) as [s0|e|]; cbn [obind] in *; try (simpl in H; discriminate).
  destruct (protein_flag p) as [a0|e|]; cbn [obind] in *; try (simpl in H; discriminate).
  destruct (lift ValueError (c_encode_ok K a0 s0)) as [u|e|]; cbn [obind] in *; try (simpl in H; discriminate).
  cbn [store fst snd] in *. inversion H; subst. split; [reflexivity|].
  unfold bind_slot. cbn [lookup]. rewrite Nat.eqb_refl. reflexivity.
Qed.

(* ------------------------------------------------------------------ the list-level checkers of the driver *)

(* the verdict on a scanner's hits: true EXACTLY when the two lists are permutations of each other (same
   hits, same multiplicities) - sound, and no false alarm *)
Theorem check_hits_sound : forall want obs, check_hits want obs = true -> Permutation want obs.
Proof.
  intros want obs H. unfold check_hits in H. apply hits_eqb_eq in H.
  eapply Permutation_trans; [apply HitSort.Permuted_sort|]. rewrite H. apply Permutation_sym, HitSort.Permuted_sort.
Qed.

Theorem check_hits_complete : forall want obs, Permutation want obs -> check_hits want obs = true.
Proof.
  intros want obs P. unfold check_hits.
  rewrite (sorted_perm_eq (HitSort.sort want) (HitSort.sort obs)); [apply hits_eqb_refl | | |].
  - apply HitSort.StronglySorted_sort. exact hit_leb_trans.
  - apply HitSort.StronglySorted_sort. exact hit_leb_trans.
  - eapply Permutation_trans; [apply Permutation_sym, HitSort.Permuted_sort|].
    eapply Permutation_trans; [exact P | apply HitSort.Permuted_sort].
Qed.

(* the verdict on the items of one iteration (a load over a misbehaving file object): as many items as the
   core reader prescribes, and C17 holds of each *)
Theorem check_items_sound : forall A (eqv : A -> A -> bool) (R : A -> A -> Prop) want obs,
  (forall x y, eqv x y = true -> R x y) ->
  check_items eqv want obs = true -> Forall2 (C17_holds R) want obs.
Proof.
  intros A eqv R want. induction want as [|w ws IH]; intros [|o os] HR H; simpl in H; try discriminate; constructor.
  - apply andb_true_iff in H. destruct H as [H _]. eapply check_C17_sound; eauto.
  - apply andb_true_iff in H. destruct H as [_ H]. apply IH; auto.
Qed.

Example ex_check_hits :
  check_hits [(3, 7); (1, 5); (3, 7)] [(3, 7); (3, 7); (1, 5)] = true /\
  check_hits [(3, 7); (1, 5)] [(3, 7); (3, 7); (1, 5)] = false /\
  check_hits [(3, 7); (1, 5)] [(3, 7); (1, 6)] = false /\ check_hits [] [] = true /\
  check_items Z.eqb [Value 1; PyExc OSError] [Value 1; PyExc ValueError] = true /\
  check_items Z.eqb [Value 1; PyExc OSError] [Value 1] = false /\
  check_items Z.eqb [Value 1] [Value 1; Value 2] = false /\ check_items Z.eqb [Value 1] [Panic] = false.
Proof. vm_compute. repeat split; reflexivity. Qed.

(* ------------------------------------------------------------------ statements pinned *)

Check py_dict_to_array_spec : forall a kv p,
  dict_to_alphabet_array a kv = Value p ->
  length p = ksize a /\
  (forall e, In e kv -> exists ix, entry_ok a e = Value ix) /\
  (forall i, (i < ksize a)%nat -> nth i p 0 = last_value a kv i 0).
Check py_panic_only_from_core : forall CM FM WM SM SQ SC (K : core CM FM WM SM SQ SC)
    (sm_ty : SM -> abc -> Prop) (sq_ty : SQ -> abc -> Prop) (wrap_ok : SM -> SQ -> Prop),
  core_guarded _ _ _ _ _ _ K sm_ty sq_ty wrap_ok ->
  forall st c, st_typed _ _ _ _ _ sm_ty sq_ty st -> fst (run_call K st c) <> Done _ _ _ _ _ Panic.
Check check_C17_sound : forall A (eqv : A -> A -> bool) (R : A -> A -> Prop) want obs,
  (forall x y, eqv x y = true -> R x y) -> check_C17 eqv want obs = true -> C17_holds R want obs.

(* ------------------------------------------------------------------ non-vacuity *)

(* a toy core library: a sequence is (text, wrap), a motif its width; scoring needs
   wrap >= width - 1 and returns the number of positions; hits are (position, width) *)
Definition toy : core Z Z Z Z (list Z * Z) Z := {|
  c_count_new := fun _ m => COk (Z.of_nat (length m));
  c_encode_ok := fun _ s => if existsb (fun c => c =? 120) s then CErr else COk tt;
  c_from_seqs := fun _ l => COk (Z.of_nat (length (hd [] l)));
  c_to_freq := fun c _ => COk c;
  c_to_weight := fun f => COk f;
  c_bg_uniform := fun a => repeat 0 (ksize a);
  c_bg_new := fun _ p => COk p;
  c_w_bg := fun _ => [];
  c_rescale := fun w _ => COk w;
  c_to_scoring_base := fun w _ => COk w;
  c_scoring_new := fun _ _ m => COk (Z.of_nat (length m));
  c_revcomp := fun s => COk s;
  c_max_score := fun s => COk s;
  c_sm_cells := fun s => repeat [0; 0; 0; 0; 4286578688] (Z.to_nat s);
  c_cm_eq := Z.eqb;
  c_wm_eq := Z.eqb;
  c_sm_eq := Z.eqb;
  c_dist_sf := fun s => COk [s];
  c_stripe := fun _ s => COk (s, 0);
  c_configure := fun q s => COk (fst q, Z.max (snd q) (s - 1));
  c_score := fun s q => if s - 1 <=? snd q then COk (Z.of_nat (length (fst q)) - s + 1) else CPanic;
  c_threshold := fun sc _ => COk [sc];
  c_max := fun sc => COk (Some sc);
  c_argmax := fun sc => COk (Some 0);
  c_dist_pvalue := fun s x => COk 1;
  c_dist_score := fun s x => COk 2;
  c_tfm_pvalue := fun s x => COk 3;
  c_tfm_score := fun s x => COk 4;
  c_scan := fun s q t b => if s - 1 <=? snd q then COk [(0, s); (1, s); (2, s)] else CPanic;
  c_read := fun _ _ _ => [];
  c_read_faulty := fun _ _ _ => (false, [(Some (RErr Z Z EIo), true); (None, false)]);
  c_lazy_next := fun _ _ => None
|}.

Definition f64_half : Z := 4602678819172646912.   (* 0.5 *)
Definition f32_half : Z := 1056964608.

(* {"T": 0.5, "A": 1} -> [1.0, 0.0, 0.5, 0.0, 0.0] (as f32 bits), by symbol, not by position *)
Example ex_dict_to_array :
  dict_to_alphabet_array Dna [(PStr [84], PFloat f64_half); (PStr [65], PInt 1)]
  = Value [1065353216; 0; f32_half; 0; 0].
Proof. vm_compute. reflexivity. Qed.

Example ex_dict_bad_keys :
  dict_to_alphabet_array Dna [(PStr [90], PFloat f64_half)] = PyExc ValueError /\
  dict_to_alphabet_array Dna [(PStr [65; 67], PFloat f64_half)] = PyExc ValueError /\
  dict_to_alphabet_array Dna [(PInt 0, PFloat f64_half)] = PyExc TypeError /\
  dict_to_alphabet_array Dna [(PStr [65], PStr [49])] = PyExc TypeError /\
  dict_to_alphabet_array Protein [(PStr [90], PFloat f64_half)] = PyExc ValueError.
Proof. vm_compute. repeat split; reflexivity. Qed.

(* CountMatrix({"A": [1, 2], "T": (3, 4)}): ragged / negative / no column *)
Example ex_count_init :
  glue_count_init toy (PDict [(PStr [65], PList [PInt 1; PInt 2]); (PStr [84], PTuple [PInt 3; PInt 4])]) None
    = Value (OCount _ _ _ _ _ Dna 2) /\
  glue_count_init toy (PDict [(PStr [65], PList [PInt 1; PInt 2]); (PStr [84], PList [PInt 3])]) None = PyExc ValueError /\
  glue_count_init toy (PDict [(PStr [65], PList [PInt (-1)])]) None = PyExc OverflowError /\
  glue_count_init toy (PDict [(PStr [90], PList [PInt 1])]) None = PyExc ValueError /\
  glue_count_init toy (PDict []) (Some (PInt 1)) = PyExc TypeError.
Proof. vm_compute. repeat split; reflexivity. Qed.

(* one sequence reused with a narrow, a wide and again the narrow motif, a scanner in between:
   every step returns a value (the toy core would panic if calculate forgot to configure) *)
Example ex_history :
  run_history toy []
    [KStripe 0 (PStr [65; 67; 71; 84; 65; 67; 71; 84]) None;
     KScoringInit 1 (PDict [(PStr [65], PList [PFloat f64_half; PFloat f64_half])]) None None;
     KScoringInit 2 (PDict [(PStr [65], PList [PFloat f64_half; PFloat f64_half; PFloat f64_half; PFloat f64_half])]) None None;
     KCalculate 3 1 (PRef 0); KScan 4 (PRef 1) (PRef 0) None (Some (PInt 2)); KNext 4 (Some 1%nat);
     KCalculate 5 2 (PRef 0); KNext 4 None; KCalculate 6 1 (PRef 0); KMax 6;
     KScan 7 (PRef 1) (PRef 0) None (Some (PInt 0)); KPvalue 1 (PFloat f64_half) (Some (PStr [120]));
     KCalculate 8 1 (PRef 1)]
  = [Done _ _ _ _ _ (Value (RObj _ _ _ _ _ (OSeq _ _ _ _ _ Dna ([65; 67; 71; 84; 65; 67; 71; 84], 0))));
     Done _ _ _ _ _ (Value (RObj _ _ _ _ _ (OScoring _ _ _ _ _ Dna 2)));
     Done _ _ _ _ _ (Value (RObj _ _ _ _ _ (OScoring _ _ _ _ _ Dna 4)));
     Done _ _ _ _ _ (Value (RObj _ _ _ _ _ (OScores _ _ _ _ _ 7)));
     Done _ _ _ _ _ (Value (RObj _ _ _ _ _ (OScanner _ _ _ _ _ [(0, 2); (1, 2); (2, 2)])));
     Done _ _ _ _ _ (Value (RHits _ _ _ _ _ [(0, 2)] false));
     Done _ _ _ _ _ (Value (RObj _ _ _ _ _ (OScores _ _ _ _ _ 5)));
     Done _ _ _ _ _ (Value (RHits _ _ _ _ _ [(1, 2); (2, 2)] true));
     Done _ _ _ _ _ (Value (RObj _ _ _ _ _ (OScores _ _ _ _ _ 7)));
     Done _ _ _ _ _ (Value (RMaxv _ _ _ _ _ (Some 7)));
     Done _ _ _ _ _ (PyExc ValueError);
     Done _ _ _ _ _ (PyExc ValueError);
     Done _ _ _ _ _ (PyExc TypeError)].
Proof. vm_compute. reflexivity. Qed.

(* the hypotheses of py_calculate_history are satisfiable (by the toy core) *)
Example ex_history_hypotheses :
  forall aq q0 us, use_all _ _ _ _ _ _ toy aq q0 us = map (fun u => fst (use_once _ _ _ _ _ _ toy aq q0 u)) us.
Proof.
  apply (py_calculate_history _ _ _ _ _ _ toy (list Z) fst (fun s q => s - 1 <= snd q)).
  - intros q s. eexists; reflexivity.
  - intros q s q' H. inversion H; reflexivity.
  - intros q s q' H. inversion H; subst. simpl. lia.
  - intros s q1 q2 H1 H2 Ht. simpl. apply Z.leb_le in H1, H2. rewrite H1, H2, Ht. reflexivity.
  - intros s q1 q2 t b H1 H2 Ht. simpl. apply Z.leb_le in H1, H2. rewrite H1, H2. reflexivity.
Qed.

Example ex_check_C17 :
  check_C17 Z.eqb (Value 3) (Value 3) = true /\ check_C17 Z.eqb (Value 3) (Value 4) = false /\
  check_C17 Z.eqb (PyExc ValueError) (PyExc TypeError) = true /\ check_C17 Z.eqb (PyExc ValueError) Panic = false /\
  check_C17 Z.eqb Panic Panic = false /\ check_C17 Z.eqb Panic (PyExc RuntimeError) = true /\
  check_C17 Z.eqb (Value 3) Panic = false /\ check_C17 Z.eqb (PyExc ValueError) (Value 3) = false /\
  same_outcome Z.eqb (PyExc ValueError) (PyExc TypeError) = false.
Proof. repeat split; reflexivity. Qed.

(* the same history started with the sequence untouched and with 40 look-ahead rows already
   configured: alike step by step (instance of py_history_depends_on_text_only) *)
Example ex_history_wrap_irrelevant :
  let h := [KScoringInit 1 (PDict [(PStr [65], PList [PFloat f64_half; PFloat f64_half])]) None None;
            KCalculate 2 1 (PRef 0); KMax 2; KScan 3 (PRef 1) (PRef 0) None None; KNext 3 None] in
  run_history toy [(0%nat, OSeq _ _ _ _ _ Dna ([65; 67; 71; 84], 0))] h
  = [Done _ _ _ _ _ (Value (RObj _ _ _ _ _ (OScoring _ _ _ _ _ Dna 2)));
     Done _ _ _ _ _ (Value (RObj _ _ _ _ _ (OScores _ _ _ _ _ 3)));
     Done _ _ _ _ _ (Value (RMaxv _ _ _ _ _ (Some 3)));
     Done _ _ _ _ _ (Value (RObj _ _ _ _ _ (OScanner _ _ _ _ _ [(0, 2); (1, 2); (2, 2)])));
     Done _ _ _ _ _ (Value (RHits _ _ _ _ _ [(0, 2); (1, 2); (2, 2)] true))] /\
  run_history toy [(0%nat, OSeq _ _ _ _ _ Dna ([65; 67; 71; 84], 40))] h
  = run_history toy [(0%nat, OSeq _ _ _ _ _ Dna ([65; 67; 71; 84], 0))] h.
Proof. vm_compute. split; reflexivity. Qed.

(* the toy core satisfies the hypothesis of py_scanner_lazy_eq_eager ... *)
Example ex_toy_scan_stable : scan_stable _ _ _ _ _ _ toy.
Proof.
  intros s q t b h s' q' Hs Hc. cbn in *. inversion Hc; subst q'; clear Hc. cbn [snd].
  destruct (s - 1 <=? snd q) eqn:E; [|discriminate]. apply Z.leb_le in E.
  assert (E' : (s - 1 <=? Z.max (snd q) (s' - 1)) = true) by (apply Z.leb_le; lia).
  rewrite E'. exact Hs.
Qed.

(* ... and the lazy reading really looks at the live object: with a core whose scan reports the
   number of look-ahead rows, a scanner made before the sequence is reconfigured by a wider motif
   hands out what the sequence looks like at the time of next(), the eager reading what it looked
   like when the scanner was made; after the name of the sequence is rebound the scanner still sees
   the old object *)
Definition toy_wrap : core Z Z Z Z (list Z * Z) Z := {|
  c_count_new := c_count_new toy; c_encode_ok := c_encode_ok toy; c_from_seqs := c_from_seqs toy;
  c_to_freq := c_to_freq toy; c_to_weight := c_to_weight toy; c_bg_uniform := c_bg_uniform toy;
  c_bg_new := c_bg_new toy; c_w_bg := c_w_bg toy; c_rescale := c_rescale toy;
  c_to_scoring_base := c_to_scoring_base toy; c_scoring_new := c_scoring_new toy; c_revcomp := c_revcomp toy;
  c_max_score := c_max_score toy; c_sm_cells := c_sm_cells toy; c_cm_eq := Z.eqb; c_wm_eq := Z.eqb; c_sm_eq := Z.eqb;
  c_dist_sf := c_dist_sf toy; c_stripe := c_stripe toy; c_configure := c_configure toy; c_score := c_score toy;
  c_threshold := c_threshold toy; c_max := c_max toy; c_argmax := c_argmax toy;
  c_dist_pvalue := c_dist_pvalue toy; c_dist_score := c_dist_score toy; c_tfm_pvalue := c_tfm_pvalue toy;
  c_tfm_score := c_tfm_score toy;
  c_scan := fun s q t b => COk [(snd q, s); (7, s)];
  c_read := c_read toy; c_read_faulty := c_read_faulty toy; c_lazy_next := c_lazy_next toy
|}.

Example ex_lazy_sees_live_object :
  let sm w := KScoringInit w (PDict [(PStr [65], PList (repeat (PFloat f64_half) w))]) None None in
  let h := [KStripe 0 (PStr [65; 67; 71; 84; 65; 67; 71; 84]) None; sm 2%nat; sm 5%nat;
            KScan 3 (PRef 2) (PRef 0) None None; KNext 3 (Some 1%nat);
            KCalculate 4 5 (PRef 0);                           (* reconfigures the sequence under the scanner *)
            KStripe 0 (PStr [65]) None;                        (* the name now means another object *)
            KNext 3 None] in
  nth 7 (run_history toy_wrap [] h) (Unbound _ _ _ _ _) = Done _ _ _ _ _ (Value (RHits _ _ _ _ _ [(7, 2)] true)) /\
  nth 7 (run_history_lazy toy_wrap [] [] h) (Unbound _ _ _ _ _) = Done _ _ _ _ _ (Value (RHits _ _ _ _ _ [(7, 2)] true)) /\
  nth 4 (run_history_lazy toy_wrap [] [] h) (Unbound _ _ _ _ _) = Done _ _ _ _ _ (Value (RHits _ _ _ _ _ [(1, 2)] false)) /\
  (* a scanner that has handed out nothing yet shows the difference *)
  let h2 := [KStripe 0 (PStr [65; 67; 71; 84; 65; 67; 71; 84]) None; sm 2%nat; sm 5%nat;
             KScan 3 (PRef 2) (PRef 0) None None; KCalculate 4 5 (PRef 0); KDelete 0; KNext 3 None] in
  nth 6 (run_history toy_wrap [] h2) (Unbound _ _ _ _ _) = Done _ _ _ _ _ (Value (RHits _ _ _ _ _ [(1, 2); (7, 2)] true)) /\
  nth 6 (run_history_lazy toy_wrap [] [] h2) (Unbound _ _ _ _ _) = Done _ _ _ _ _ (Value (RHits _ _ _ _ _ [(4, 2); (7, 2)] true)) /\
  run_history_lazy toy [] [] h2 = run_history toy [] h2.
Proof. vm_compute. repeat split; reflexivity. Qed.

(* two threads share the scoring matrix 1 and work on their own sequences: separate, and the
   interleaved run gives each thread what it gets alone; sharing the sequence is not separate *)
Example ex_threads :
  let sm := KScoringInit 1 (PDict [(PStr [65], PList [PFloat f64_half; PFloat f64_half])]) None None in
  let t (q sc : nat) := [KStripe q (PStr [65; 67; 71; 84; 65]) None; KCalculate sc 1 (PRef q); KMax sc;
                         KPvalue 1 (PFloat f64_half) None] in
  let l := [(true, KStripe 2 (PStr [65; 67; 71; 84; 65]) None); (false, KStripe 4 (PStr [65; 67; 71; 84; 65]) None);
            (false, KCalculate 5 1 (PRef 4)); (true, KCalculate 3 1 (PRef 2)); (true, KMax 3);
            (false, KMax 5); (false, KPvalue 1 (PFloat f64_half) None); (true, KPvalue 1 (PFloat f64_half) None)] in
  proj true l = t 2%nat 3%nat /\ proj false l = t 4%nat 5%nat /\
  separate (t 2%nat 3%nat) (t 4%nat 5%nat) /\
  ~ separate [KCalculate 3 1 (PRef 2)] [KCalculate 5 1 (PRef 2)] /\
  proj true (run_tagged toy (snd (run_call toy [] sm)) l) =
    [Done _ _ _ _ _ (Value (RObj _ _ _ _ _ (OSeq _ _ _ _ _ Dna ([65; 67; 71; 84; 65], 0))));
     Done _ _ _ _ _ (Value (RObj _ _ _ _ _ (OScores _ _ _ _ _ 4)));
     Done _ _ _ _ _ (Value (RMaxv _ _ _ _ _ (Some 4)));
     Done _ _ _ _ _ (Value (RF64 _ _ _ _ _ 1))].
Proof.
  cbn zeta. split; [reflexivity|]. split; [reflexivity|]. split.
  - split; intros m Hm Hf; cbn in Hm, Hf; intuition congruence.
  - split.
    + intros [H _]. apply (H 2%nat); cbn; auto.
    + vm_compute. reflexivity.
Qed.

(* the hypotheses of py_items_no_panic are satisfiable *)
Example ex_toy_readers_total : readers_total _ _ _ _ _ _ toy.
Proof.
  split.
  - intros d f a it b H. cbn in H. destruct H as [H|[H|[]]]; inversion H; discriminate.
  - intros id j. discriminate.
Qed.

(* ... and so is core_guarded, by the toy core that panics when scored without the look-ahead rows *)
Example ex_toy_guarded : core_guarded _ _ _ _ _ _ toy (fun _ _ => True) (fun _ _ => True) (fun s q => s - 1 <= snd q) /\ readers_total _ _ _ _ _ _ toy.
Proof.
  split; [|exact ex_toy_readers_total].
  constructor; cbn [toy c_count_new c_encode_ok c_from_seqs c_bg_new c_stripe c_to_freq c_to_weight c_rescale
                    c_to_scoring_base c_scoring_new c_revcomp c_max_score c_sm_cells c_configure c_score c_threshold
                    c_max c_argmax c_dist_pvalue c_dist_score c_tfm_pvalue c_tfm_score c_scan c_dist_sf c_read];
    try (intros; discriminate); try (intros; eexists; reflexivity).
  - intros a s. destruct (existsb _ s); discriminate.
  - intros q s q' H. inversion H; subst q'. cbn [snd]. lia.
  - intros a s q _ _ _ W. apply Z.leb_le in W. rewrite W. eexists; reflexivity.
  - intros a s q t b _ _ _ _ W _. apply Z.leb_le in W. rewrite W. eexists; reflexivity.
  - intros f a bs [].
Qed.


(* float(int) of CPython: the largest int that converts is 2^1024 - 2^970 - 1 (it rounds to the largest
   double); from 2^1024 - 2^970 on the nearest-even result is not finite and CPython raises OverflowError *)
Example ex_extract_f64_bound :
  F64.is_finite (F64.of_Z (2 ^ 1024 - 2 ^ 970 - 1)) = true /\ F64.is_finite (F64.of_Z (2 ^ 1024 - 2 ^ 970)) = false /\
  extract_f64 (PInt (2 ^ 1023)) = Value 9214364837600034816 /\
  extract_f64 (PInt (2 ^ 1024 - 2 ^ 970 - 1)) = Value 9218868437227405311 /\
  extract_f64 (PInt (- (2 ^ 1024 - 2 ^ 970 - 1))) = Value 18442240474082181119 /\
  extract_f64 (PInt (2 ^ 1024 - 2 ^ 970)) = PyExc OverflowError /\
  extract_f64 (PInt (- 2 ^ 1024)) = PyExc OverflowError.
Proof. vm_compute. repeat split; reflexivity. Qed.

(* ------------------------------------------------------------------ the no-panic theorems use every guard *)

(* the switchable entry points of PyGlueUnguarded.v with all switches on are the model's *)
Theorem py_guarded_variants_are_the_model : forall CM FM WM SM SQ SC (K : core CM FM WM SM SQ SC),
  (forall a s aq q, calculate_g K all_on a s aq q = glue_calculate K a s aq q) /\
  (forall a s aq q t b, scan_g K all_on a s aq q t b = glue_scan K a s aq q t b) /\
  (forall s, max_score_g K all_on s = glue_max_score K s) /\
  (forall s, dist_g K all_on s = glue_dist K s) /\
  (forall s x m, pvalue_g K all_on s x m = glue_pvalue K s x m) /\
  (forall s x m, score_g K all_on s x m = glue_score K s x m) /\
  (forall a w bg base, log_odds_g K all_on a w bg base = glue_log_odds K a w bg base).
Proof. intros. repeat split; intros; reflexivity. Qed.

(* a core that panics EXACTLY outside the preconditions of core_guarded: a scoring matrix is its cells, a
   sequence (text, look-ahead rows), wrap_ok = "rows - 1 <= look-ahead rows" *)
Definition strict_wrap_ok (s : list (list Z)) (q : list Z * Z) : Prop := Z.of_nat (length s) - 1 <= snd q.
Definition strict_wrap_okb (s : list (list Z)) (q : list Z * Z) : bool := Z.of_nat (length s) - 1 <=? snd q.
Definition neg_inf32 : Z := 4286578688.
Definition toy_strict : core Z Z Z (list (list Z)) (list Z * Z) Z := {|
  c_count_new := c_count_new toy; c_encode_ok := c_encode_ok toy; c_from_seqs := c_from_seqs toy;
  c_to_freq := c_to_freq toy; c_to_weight := c_to_weight toy; c_bg_uniform := c_bg_uniform toy;
  c_bg_new := c_bg_new toy; c_w_bg := c_w_bg toy; c_rescale := c_rescale toy;
  c_to_scoring_base := fun w b => if base_invalid b then CPanic else COk [[0; 0; 0; 0; neg_inf32]];
  c_scoring_new := fun _ _ m => COk m;
  c_revcomp := fun s => COk s;
  c_max_score := fun s => if ordered_ok false s then COk 0 else CPanic;
  c_sm_cells := fun s => s;
  c_cm_eq := Z.eqb; c_wm_eq := Z.eqb; c_sm_eq := fun _ _ => true;
  c_dist_sf := fun s => if ordered_ok true s then COk [] else CPanic;
  c_stripe := c_stripe toy;
  c_configure := fun q s => if sm_empty s then CPanic else COk (fst q, Z.max (snd q) (Z.of_nat (length s) - 1));
  c_score := fun s q => if negb (sm_empty s) && strict_wrap_okb s q then COk 0 else CPanic;
  c_threshold := c_threshold toy; c_max := c_max toy; c_argmax := c_argmax toy;
  c_dist_pvalue := fun s x => if ordered_ok true s && negb (f32_is_nan x) then COk 1 else CPanic;
  c_dist_score := fun s p => if ordered_ok true s && pvalue_in_range p then COk 2 else CPanic;
  c_tfm_pvalue := fun s x => if finite_ok s && negb (f64_is_nan x) && negb (f64_is_inf x) then COk 3 else CPanic;
  c_tfm_score := fun s p => if finite_ok s && pvalue_in_range p then COk 4 else CPanic;
  c_scan := fun s q t b => if ordered_ok false s && negb (sm_empty s) && strict_wrap_okb s q && negb (b =? 0)
                           then COk [] else CPanic;
  c_read := c_read toy; c_read_faulty := c_read_faulty toy; c_lazy_next := c_lazy_next toy
|}.

(* core_guarded is satisfiable by a core that promises nothing outside the preconditions ... *)
Theorem py_strict_core_is_guarded : core_guarded _ _ _ _ _ _ toy_strict (fun _ _ => True) (fun _ _ => True) strict_wrap_ok.
Proof.
  constructor; cbn [toy_strict toy c_count_new c_encode_ok c_from_seqs c_bg_new c_stripe c_to_freq c_to_weight c_rescale
                    c_to_scoring_base c_scoring_new c_revcomp c_max_score c_sm_cells c_configure c_score c_threshold
                    c_max c_argmax c_dist_pvalue c_dist_score c_tfm_pvalue c_tfm_score c_scan c_dist_sf c_read];
    try (intros; discriminate); try (intros; eexists; reflexivity).
  - intros a s. destruct (existsb _ s); discriminate.
  - intros w b H. rewrite H. eexists; reflexivity.
  - intros s H. rewrite H. eexists; reflexivity.
  - intros q s H. rewrite H. eexists; reflexivity.
  - intros q s q' H. destruct (sm_empty s); [discriminate|]. inversion H; subst q'. unfold strict_wrap_ok. cbn [snd]. lia.
  - intros a s q _ _ H W. rewrite H. unfold strict_wrap_okb. apply Z.leb_le in W. rewrite W. eexists; reflexivity.
  - intros s x H N. rewrite H, N. eexists; reflexivity.
  - intros s p H R. rewrite H, R. eexists; reflexivity.
  - intros s x H N I. rewrite H, N, I. eexists; reflexivity.
  - intros s p H R. rewrite H, R. eexists; reflexivity.
  - intros a s q t b _ _ H E W B. rewrite H, E. unfold strict_wrap_okb. apply Z.leb_le in W. rewrite W.
    assert (B' : (b =? 0) = false) by (apply Z.eqb_neq; lia). rewrite B'. eexists; reflexivity.
  - intros s H. rewrite H. eexists; reflexivity.
  - intros f a bs [].
Qed.

(* ... and with it every guard of the glue is needed: switch ONE validation off (the model with that guard
   deleted) and there is an input on which this guarded-total core makes the call end in a PanicException,
   where the model raises ValueError (or, for the configure step, returns the scores).  So "no PanicException"
   is FALSE of the glue without any one of: ensure_not_empty, configure-before-score / -scan, ensure_ordered
   (false / true), ensure_finite, the NaN / infinity check of pvalue(), the range check of score(), the
   base check of log_odds(), the block size check of scan().  (py_panic_only_from_core could not be proved
   for such a model: its proof uses each of these tests.) *)
Definition f32_nan_bits : Z := 2143289344.
Definition f32_posinf_bits : Z := 2139095040.
Definition f64_nan_bits : Z := 9221120237041090560.
Definition f64_two : Z := 4611686018427387904.
Definition f64_posinf_bits : Z := 9218868437227405312.
Definition ok_row : list Z := [0; 0; 0; 0; neg_inf32].
Definition off (f : guards -> guards) : guards := f all_on.

Theorem py_no_panic_needs_every_guard_refuted :
  let K := toy_strict in
  let q0 : list Z * Z := ([65; 67; 71; 84], 0) in
  (* ensure_not_empty *)
  fst (calculate_g K {| g_not_empty := false; g_configure := true; g_ordered := true; g_ordered_dist := true; g_finite := true;
                        g_score_arg := true; g_pvalue_range := true; g_base := true |} Dna [] Dna q0) = Panic /\
  fst (glue_calculate K Dna [] Dna q0) = PyExc ValueError /\
  (* configure before score: a two-row matrix on a sequence without look-ahead rows *)
  fst (calculate_g K {| g_not_empty := true; g_configure := false; g_ordered := true; g_ordered_dist := true; g_finite := true;
                        g_score_arg := true; g_pvalue_range := true; g_base := true |} Dna [ok_row; ok_row] Dna q0) = Panic /\
  fst (glue_calculate K Dna [ok_row; ok_row] Dna q0) = Value (OScores _ _ _ _ _ 0) /\
  (* configure before scan *)
  fst (scan_g K {| g_not_empty := true; g_configure := false; g_ordered := true; g_ordered_dist := true; g_finite := true;
                   g_score_arg := true; g_pvalue_range := true; g_base := true |} Dna [ok_row; ok_row] Dna q0 0 256) = Panic /\
  fst (glue_scan K Dna [ok_row; ok_row] Dna q0 0 256) = Value (OScanner _ _ _ _ _ []) /\
  (* ensure_ordered(false): a NaN cell, max_score and scan *)
  max_score_g K {| g_not_empty := true; g_configure := true; g_ordered := false; g_ordered_dist := true; g_finite := true;
                   g_score_arg := true; g_pvalue_range := true; g_base := true |} [[0; 0; f32_nan_bits; 0; neg_inf32]] = Panic /\
  glue_max_score K [[0; 0; f32_nan_bits; 0; neg_inf32]] = PyExc ValueError /\
  fst (scan_g K {| g_not_empty := true; g_configure := true; g_ordered := false; g_ordered_dist := true; g_finite := true;
                   g_score_arg := true; g_pvalue_range := true; g_base := true |} Dna [[0; 0; f32_nan_bits; 0; neg_inf32]] Dna q0 0 256) = Panic /\
  fst (glue_scan K Dna [[0; 0; f32_nan_bits; 0; neg_inf32]] Dna q0 0 256) = PyExc ValueError /\
  (* ensure_ordered(true): a +inf cell; a matrix without any finite cell (F28) *)
  dist_g K {| g_not_empty := true; g_configure := true; g_ordered := true; g_ordered_dist := false; g_finite := true;
              g_score_arg := true; g_pvalue_range := true; g_base := true |} [[0; 0; f32_posinf_bits; 0; neg_inf32]] = Panic /\
  glue_dist K [[0; 0; f32_posinf_bits; 0; neg_inf32]] = PyExc ValueError /\
  pvalue_g K {| g_not_empty := true; g_configure := true; g_ordered := true; g_ordered_dist := false; g_finite := true;
                g_score_arg := true; g_pvalue_range := true; g_base := true |}
    [[neg_inf32; neg_inf32; neg_inf32; neg_inf32; neg_inf32]] (PFloat f64_half) None = Panic /\
  glue_pvalue K [[neg_inf32; neg_inf32; neg_inf32; neg_inf32; neg_inf32]] (PFloat f64_half) None = PyExc ValueError /\
  (* ensure_finite: -inf symbol scores with TFM-PVALUE (F25) *)
  pvalue_g K {| g_not_empty := true; g_configure := true; g_ordered := true; g_ordered_dist := true; g_finite := false;
                g_score_arg := true; g_pvalue_range := true; g_base := true |}
    [[0; neg_inf32; 0; 0; neg_inf32]] (PFloat f64_half) (Some (PStr str_tfmpvalue)) = Panic /\
  glue_pvalue K [[0; neg_inf32; 0; 0; neg_inf32]] (PFloat f64_half) (Some (PStr str_tfmpvalue)) = PyExc ValueError /\
  (* pvalue(NaN), pvalue(inf, "tfmpvalue") *)
  pvalue_g K {| g_not_empty := true; g_configure := true; g_ordered := true; g_ordered_dist := true; g_finite := true;
                g_score_arg := false; g_pvalue_range := true; g_base := true |} [ok_row] (PFloat f64_nan_bits) None = Panic /\
  glue_pvalue K [ok_row] (PFloat f64_nan_bits) None = PyExc ValueError /\
  pvalue_g K {| g_not_empty := true; g_configure := true; g_ordered := true; g_ordered_dist := true; g_finite := true;
                g_score_arg := false; g_pvalue_range := true; g_base := true |} [ok_row] (PFloat f64_posinf_bits)
    (Some (PStr str_tfmpvalue)) = Panic /\
  glue_pvalue K [ok_row] (PFloat f64_posinf_bits) (Some (PStr str_tfmpvalue)) = PyExc ValueError /\
  (* score(2.0) *)
  score_g K {| g_not_empty := true; g_configure := true; g_ordered := true; g_ordered_dist := true; g_finite := true;
               g_score_arg := true; g_pvalue_range := false; g_base := true |} [ok_row] (PFloat f64_two) None = Panic /\
  glue_score K [ok_row] (PFloat f64_two) None = PyExc ValueError /\
  (* log_odds(base=1.0) *)
  log_odds_g K {| g_not_empty := true; g_configure := true; g_ordered := true; g_ordered_dist := true; g_finite := true;
                  g_score_arg := true; g_pvalue_range := true; g_base := false |} Dna 1 None (Some (PFloat f64_one)) = Panic /\
  glue_log_odds K Dna 1 None (Some (PFloat f64_one)) = PyExc ValueError /\
  (* block_size = 0 (the check is made by glue_scan_args; glue_scan itself relies on it) *)
  fst (glue_scan K Dna [ok_row] Dna q0 0 0) = Panic /\
  glue_scan_args None (Some (PInt 0)) = PyExc ValueError.
Proof. vm_compute. repeat split; reflexivity. Qed.
