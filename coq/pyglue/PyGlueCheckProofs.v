(* Lemmas about the list-level checkers of PyGlueCheck.v (for C17.v: check_hits_sound / _complete). *)
From Coq Require Import List ZArith Bool Lia Permutation Sorted RelationClasses.
From LMPyGlue Require Import PyGlueModel PyGlueCheck.
Import ListNotations.
Open Scope Z_scope.

Lemma hits_eqb_eq : forall x y, hits_eqb x y = true -> x = y.
Proof.
  induction x as [|[a1 a2] x IH]; destruct y as [|[b1 b2] y]; simpl; intros H; try discriminate; auto.
  apply andb_true_iff in H. destruct H as [H1 H2]. unfold hit_eqb in H1. cbn [fst snd] in H1.
  apply andb_true_iff in H1. destruct H1 as [Ha Hb]. apply Z.eqb_eq in Ha, Hb. subst. f_equal. apply IH. exact H2.
Qed.

Lemma hits_eqb_refl : forall x, hits_eqb x x = true.
Proof. induction x as [|[a1 a2] x IH]; simpl; auto. unfold hit_eqb. cbn [fst snd]. rewrite !Z.eqb_refl, IH. reflexivity. Qed.

Lemma hit_leb_trans : Transitive (fun a b => is_true (hit_leb a b)).
Proof.
  intros [a1 a2] [b1 b2] [c1 c2]. unfold is_true, hit_leb. cbn [fst snd]. intros H1 H2.
  apply orb_true_iff in H1. apply orb_true_iff in H2. apply orb_true_iff.
  destruct H1 as [H1|H1], H2 as [H2|H2];
    try apply andb_true_iff in H1; try apply andb_true_iff in H2;
    repeat match goal with
           | H : _ /\ _ |- _ => destruct H
           | H : (_ <? _) = true |- _ => apply Z.ltb_lt in H
           | H : (_ =? _) = true |- _ => apply Z.eqb_eq in H
           | H : (_ <=? _) = true |- _ => apply Z.leb_le in H
           end.
  - left. apply Z.ltb_lt. lia.
  - left. apply Z.ltb_lt. lia.
  - left. apply Z.ltb_lt. lia.
  - right. apply andb_true_iff. split; [apply Z.eqb_eq | apply Z.leb_le]; lia.
Qed.

Lemma hit_leb_antisym a b : hit_leb a b = true -> hit_leb b a = true -> a = b.
Proof.
  destruct a as [a1 a2], b as [b1 b2]. unfold hit_leb. cbn [fst snd]. intros H1 H2.
  apply orb_true_iff in H1. apply orb_true_iff in H2.
  destruct H1 as [H1|H1], H2 as [H2|H2];
    try apply andb_true_iff in H1; try apply andb_true_iff in H2;
    repeat match goal with
           | H : _ /\ _ |- _ => destruct H
           | H : (_ <? _) = true |- _ => apply Z.ltb_lt in H
           | H : (_ =? _) = true |- _ => apply Z.eqb_eq in H
           | H : (_ <=? _) = true |- _ => apply Z.leb_le in H
           end; try lia.
  f_equal; lia.
Qed.

Lemma sorted_perm_eq : forall l1 l2 : list (Z * Z),
  StronglySorted (fun a b => is_true (hit_leb a b)) l1 -> StronglySorted (fun a b => is_true (hit_leb a b)) l2 ->
  Permutation l1 l2 -> l1 = l2.
Proof.
  induction l1 as [|a l1 IH]; intros l2 S1 S2 P.
  - apply Permutation_nil in P. auto.
  - destruct l2 as [|b l2]; [apply Permutation_sym, Permutation_nil in P; discriminate|].
    inversion S1 as [|? ? S1' F1]; subst. inversion S2 as [|? ? S2' F2]; subst.
    assert (E : a = b).
    { assert (Ia : In a (b :: l2)) by (eapply Permutation_in; [exact P | left; reflexivity]).
      assert (Ib : In b (a :: l1)) by (eapply Permutation_in; [apply Permutation_sym; exact P | left; reflexivity]).
      destruct Ia as [Ia|Ia]; [auto|]. destruct Ib as [Ib|Ib]; [auto|].
      rewrite Forall_forall in F1, F2. apply hit_leb_antisym; [apply F1; exact Ib | apply F2; exact Ia]. }
    subst b. f_equal. apply IH; auto. eapply Permutation_cons_inv; exact P.
Qed.

