(* Executable checkers the OCaml driver uses for the two verdicts that are about LISTS of observations
   (extracted; the soundness theorems are in C17.v):
     check_hits   the hits a scanner handed out over its life, as a multiset (C02 fixes the set, not the order)
     check_items  the items of one iteration, position by position, with check_C17 on each
   The only proof in this file is the totality of the order the merge sort needs (a functor argument). *)
From Coq Require Import List ZArith Bool Lia Sorting.Mergesort Orders.
From LMPyGlue Require Import PyGlueModel.
Import ListNotations.
Open Scope Z_scope.

Definition hit_leb (a b : Z * Z) : bool :=
  (fst a <? fst b) || ((fst a =? fst b) && (snd a <=? snd b)).

Module HitOrder <: TotalLeBool.
  Definition t := (Z * Z)%type.
  Definition leb := hit_leb.
  Theorem leb_total : forall a b, leb a b = true \/ leb b a = true.
  Proof.
    intros [a1 a2] [b1 b2]. unfold leb, hit_leb. cbn [fst snd].
    destruct (Z.ltb_spec a1 b1); [left; reflexivity|].
    destruct (Z.ltb_spec b1 a1); [right; reflexivity|].
    assert (E : a1 = b1) by lia. subst b1. rewrite Z.eqb_refl. cbn [orb andb].
    destruct (Z.leb_spec a2 b2); [left; reflexivity|]. right. apply Z.leb_le. lia.
  Qed.
End HitOrder.

Module HitSort := Sort HitOrder.

Definition hit_eqb (a b : Z * Z) : bool := (fst a =? fst b) && (snd a =? snd b).

Fixpoint hits_eqb (x y : list (Z * Z)) : bool :=
  match x, y with
  | [], [] => true
  | a :: x', b :: y' => hit_eqb a b && hits_eqb x' y'
  | _, _ => false
  end.

(* same hits with the same multiplicities, in any order *)
Definition check_hits (want obs : list (Z * Z)) : bool := hits_eqb (HitSort.sort want) (HitSort.sort obs).

(* an iteration: as many items as prescribed, each passing check_C17 *)
Fixpoint check_items {A} (eqv : A -> A -> bool) (want obs : list (outcome A)) : bool :=
  match want, obs with
  | [], [] => true
  | w :: ws, o :: os => check_C17 eqv w o && check_items eqv ws os
  | _, _ => false
  end.
