(* Extraction of the executable glue model and of the C17 outcome checker.
   Only ExtrOcamlBasic is used: nat, Z, positive stay the extracted inductive types. *)
From Coq Require Import List ZArith Extraction ExtrOcamlBasic.
From LMPyGlue Require Import PyGlueModel PyGlueLazy PyGlueCheck.

Extraction Language OCaml.
Extraction "pyglue_model.ml" run_call run_history check_C17 same_outcome symbols
  glue_calculate glue_scan run_call_lazy dict_to_alphabet_array f64_to_f32_bits f32_to_f64_bits check_hits check_items.
