(* Histories: the observable outcome of every call of every history depends on the striped
   sequence objects only through their text, never on the look-ahead rows left behind by
   earlier calculate / scan calls (full-strength form of "all orders in which one striped
   sequence object is reused").  Lemmas for C17.v. *)
From Coq Require Import List ZArith Bool Lia.
From LMBase Require Import ListX IEEE.
From LMPyGlue Require Import PyGlueModel PyGlueProofs.
Import ListNotations.
Open Scope Z_scope.

Section Hist.
  Variables CM FM WM SM SQ SC : Type.
  Variable K : core CM FM WM SM SQ SC.
  Variable T : Type.
  Variable text : SQ -> T.
  Variable wrap_ok : SM -> SQ -> Prop.
  Hypothesis conf_total : forall q s, exists q', c_configure K q s = COk q'.
  Hypothesis conf_text : forall q s q', c_configure K q s = COk q' -> text q' = text q.
  Hypothesis conf_ok : forall q s q', c_configure K q s = COk q' -> wrap_ok s q'.
  Hypothesis score_text : forall s q1 q2,
      wrap_ok s q1 -> wrap_ok s q2 -> text q1 = text q2 -> c_score K s q1 = c_score K s q2.
  Hypothesis scan_text : forall s q1 q2 t b,
      wrap_ok s q1 -> wrap_ok s q2 -> text q1 = text q2 -> c_scan K s q1 t b = c_scan K s q2 t b.

  Notation obj := (obj CM WM SM SQ SC).
  Notation state := (state CM WM SM SQ SC).
  Notation result := (result CM WM SM SQ SC).
  Notation step := (step CM WM SM SQ SC).
  Notation lookup := (lookup CM WM SM SQ SC).
  Notation unbind := (unbind CM WM SM SQ SC).
  Notation bind_slot := (bind_slot CM WM SM SQ SC).
  Notation store := (store CM WM SM SQ SC).

  (* two objects are alike when they are equal, or sequences of the same alphabet and text *)
  Definition obj_rel (o o' : obj) : Prop :=
    match o, o' with
    | OSeq _ _ _ _ _ a q, OSeq _ _ _ _ _ a' q' => a = a' /\ text q = text q'
    | OSeq _ _ _ _ _ _ _, _ => False
    | _, OSeq _ _ _ _ _ _ _ => False
    | _, _ => o = o'
    end.

  Lemma obj_rel_refl o : obj_rel o o.
  Proof. destruct o; simpl; auto. Qed.

  Definition st_rel (st st' : state) : Prop :=
    Forall2 (fun p p' => fst p = fst p' /\ obj_rel (snd p) (snd p')) st st'.

  Lemma st_rel_refl st : st_rel st st.
  Proof. induction st as [|[k o] r IH]; constructor; auto. split; auto. apply obj_rel_refl. Qed.

  Lemma lookup_rel st st' n : st_rel st st' ->
    match lookup st n, lookup st' n with
    | Some o, Some o' => obj_rel o o'
    | None, None => True
    | _, _ => False
    end.
  Proof.
    intros H. induction H as [|[k o] [k' o'] r r' [Hk Ho] Hr IH]; simpl; auto.
    simpl in Hk, Ho. subst k'. destruct (Nat.eqb k n); auto.
  Qed.

  Lemma lookup_cases st st' n : st_rel st st' ->
    (lookup st n = None /\ lookup st' n = None) \/
    (exists a q q', lookup st n = Some (OSeq _ _ _ _ _ a q) /\ lookup st' n = Some (OSeq _ _ _ _ _ a q') /\ text q = text q') \/
    (exists o, (forall a q, o <> OSeq _ _ _ _ _ a q) /\ lookup st n = Some o /\ lookup st' n = Some o).
  Proof.
    intros H. pose proof (lookup_rel st st' n H) as L.
    destruct (lookup st n) as [o|], (lookup st' n) as [o'|]; try contradiction; auto.
    destruct o, o'; simpl in L; try contradiction; try discriminate.
    all: try (right; right; match type of L with ?x = _ => exists x end;
              split; [intros; discriminate | split; [reflexivity | congruence]]).
    right; left. destruct L as [-> L]. eauto 6.
  Qed.

  Lemma unbind_rel st st' n : st_rel st st' -> st_rel (unbind st n) (unbind st' n).
  Proof.
    intros H. induction H as [|[k o] [k' o'] r r' [Hk Ho] Hr IH]; simpl; [constructor|].
    simpl in Hk, Ho. subst k'. destruct (Nat.eqb k n); auto. constructor; auto.
  Qed.

  Lemma bind_rel st st' n o o' : st_rel st st' -> obj_rel o o' -> st_rel (bind_slot st n o) (bind_slot st' n o').
  Proof. intros H Ho. constructor; auto. Qed.

  Definition res_rel (r r' : result) : Prop :=
    match r, r' with
    | RObj _ _ _ _ _ o, RObj _ _ _ _ _ o' => obj_rel o o'
    | RObj _ _ _ _ _ _, _ => False
    | _, RObj _ _ _ _ _ _ => False
    | _, _ => r = r'
    end.

  Lemma res_rel_refl r : res_rel r r.
  Proof. destruct r; simpl; auto. apply obj_rel_refl. Qed.

  Definition out_rel {A} (R : A -> A -> Prop) (o o' : outcome A) : Prop :=
    match o, o' with
    | Value a, Value b => R a b
    | PyExc e, PyExc e' => e = e'
    | Panic, Panic => True
    | _, _ => False
    end.

  Lemma out_rel_refl {A} (R : A -> A -> Prop) o : (forall a, R a a) -> out_rel R o o.
  Proof. intros H. destruct o; simpl; auto. Qed.

  Definition step_rel (s s' : step) : Prop :=
    match s, s' with
    | Done _ _ _ _ _ o, Done _ _ _ _ _ o' => out_rel res_rel o o'
    | Unbound _ _ _ _ _, Unbound _ _ _ _ _ => True
    | _, _ => False
    end.

  Lemma step_rel_refl s : step_rel s s.
  Proof. destruct s; simpl; auto. apply out_rel_refl. apply res_rel_refl. Qed.

  Definition pair_rel (x y : step * state) : Prop := step_rel (fst x) (fst y) /\ st_rel (snd x) (snd y).

  Lemma store_rel st st' dst o o' :
    st_rel st st' -> out_rel obj_rel o o' -> pair_rel (store st dst o) (store st' dst o').
  Proof.
    intros H Ho. destruct o, o'; simpl in Ho; try contradiction; unfold pair_rel; simpl.
    - split; auto. apply bind_rel; auto. apply unbind_rel; auto.
    - subst. split; auto. apply unbind_rel; auto.
    - split; auto. apply unbind_rel; auto.
  Qed.

  Lemma store_same st st' dst o :
    st_rel st st' -> pair_rel (store st dst o) (store st' dst o).
  Proof. intros H. apply store_rel; auto. apply out_rel_refl. apply obj_rel_refl. Qed.

  Lemma unbound_rel st st' dst :
    st_rel st st' -> pair_rel (Unbound _ _ _ _ _, unbind st dst) (Unbound _ _ _ _ _, unbind st' dst).
  Proof. intros H. split; simpl; auto. apply unbind_rel; auto. Qed.

  Lemma done_rel st st' (o : outcome result) :
    st_rel st st' -> pair_rel (Done _ _ _ _ _ o, st) (Done _ _ _ _ _ o, st').
  Proof. intros H. split; simpl; auto. apply out_rel_refl. apply res_rel_refl. Qed.

  Lemma unbound_same st st' : st_rel st st' -> pair_rel (Unbound _ _ _ _ _, st) (Unbound _ _ _ _ _, st').
  Proof. intros H. split; simpl; auto. Qed.

  Lemma calc_rel a s aq q q' :
    text q = text q' ->
    fst (glue_calculate K a s aq q) = fst (glue_calculate K a s aq q') /\
    text (snd (glue_calculate K a s aq q)) = text (snd (glue_calculate K a s aq q')).
  Proof.
    intros Ht. split.
    - eapply calculate_indep; eauto.
    - rewrite (calculate_text _ _ _ _ _ _ K T text conf_text), (calculate_text _ _ _ _ _ _ K T text conf_text). exact Ht.
  Qed.

  Lemma scan_rel a s aq q q' t b :
    text q = text q' ->
    fst (glue_scan K a s aq q t b) = fst (glue_scan K a s aq q' t b) /\
    text (snd (glue_scan K a s aq q t b)) = text (snd (glue_scan K a s aq q' t b)).
  Proof.
    intros Ht. split.
    - eapply scan_indep; eauto.
    - rewrite (scan_text_inv _ _ _ _ _ _ K T text conf_text), (scan_text_inv _ _ _ _ _ _ K T text conf_text). exact Ht.
  Qed.

  (* a receiver / argument slot: either unusable on both sides, a pair of like sequences, or the
     same non-sequence object *)
  Ltac slot H n a q q' Ht o Ho :=
    let C1 := fresh "C" in
    let C2 := fresh "C" in
    destruct (lookup_cases _ _ n H) as [[C1 C2]|[[a [q [q' [C1 [C2 Ht]]]]]|[o [Ho [C1 C2]]]]];
    rewrite C1, C2.

  (* method call on a receiver slot that yields a new object in dst *)
  Ltac recv_store H self :=
    let a := fresh "a" in let q := fresh "q" in let q' := fresh "q'" in let Ht := fresh "Ht" in
    let o := fresh "o" in let Ho := fresh "Ho" in
    slot H self a q q' Ht o Ho; try (apply unbound_rel; auto);
    destruct o; try (apply unbound_rel; auto); try (apply store_same; auto).

  (* method call on a receiver slot that only returns a value *)
  Ltac recv_done H self :=
    let a := fresh "a" in let q := fresh "q" in let q' := fresh "q'" in let Ht := fresh "Ht" in
    let o := fresh "o" in let Ho := fresh "Ho" in
    slot H self a q q' Ht o Ho; try (apply unbound_same; auto);
    destruct o; try (apply unbound_same; auto); try (apply done_rel; auto).

  (* an argument that is not a usable pair of references: TypeError or unbound, alike on both sides *)
  Ltac arg_other H n :=
    let a := fresh "a" in let q := fresh "q" in let q' := fresh "q'" in let Ht := fresh "Ht" in
    let o := fresh "o" in let Ho := fresh "Ho" in
    slot H n a q q' Ht o Ho; try (apply unbound_rel; auto); try (apply store_same; auto).

  Theorem run_call_rel st st' c :
    st_rel st st' -> pair_rel (run_call K st c) (run_call K st' c).
  Proof.
    intros H. destruct c; cbn [run_call].
    - apply store_same; auto.
    - recv_store H self.
    - recv_store H self.
    - apply store_same; auto.
    - apply store_same; auto.
    - (* calculate *)
      slot H self a1 q1 q1' Ht1 o1 Ho1; try (apply unbound_rel; auto).
      destruct o1; try (apply unbound_rel; auto).
      destruct sequence as [ |b0|z0|bits0|cps0|bs0|l0|l0|kv0| |nq|g0]; try (apply store_same; auto).
      slot H nq a2 q2 q2' Ht2 o2 Ho2; try (apply unbound_rel; auto).
      + destruct (calc_rel a s a2 q2 q2' Ht2) as [Hf Hs].
        destruct (glue_calculate K a s a2 q2) as [r1 p1], (glue_calculate K a s a2 q2') as [r2 p2].
        cbn [fst snd] in Hf, Hs. subst r2. apply store_same.
        apply bind_rel; [apply unbind_rel; auto | simpl; auto].
      + destruct o2; try (apply store_same; auto). exfalso. eapply Ho2; reflexivity.
    - recv_done H self.
    - recv_done H self.
    - recv_done H self.
    - recv_done H self.
    - recv_done H self.
    - recv_done H self.
    - recv_store H self.
    - (* scan *)
      destruct pssm as [ |b1|z1|bits1|cps1|bs1|l1|l1|kv1| |np|g1];
        destruct sequence as [ |b0|z0|bits0|cps0|bs0|l0|l0|kv0| |nq|g0];
        try (apply store_same; auto); try (arg_other H np; fail); try (arg_other H nq; fail).
      slot H np a1 q1 q1' Ht1 o1 Ho1.
      + destruct (lookup st nq), (lookup st' nq); apply unbound_rel; auto.
      + arg_other H nq.
      + destruct o1; try (arg_other H nq; fail).
        slot H nq a2 q2 q2' Ht2 o2 Ho2; try (apply unbound_rel; auto).
        * destruct (glue_scan_args thr bs) as [[t b]|e|]; try (apply store_same; auto).
          destruct (scan_rel a s a2 q2 q2' t b Ht2) as [Hf Hs].
          destruct (glue_scan K a s a2 q2 t b) as [r1 p1], (glue_scan K a s a2 q2' t b) as [r2 p2].
          cbn [fst snd] in Hf, Hs. subst r2. apply store_same.
          apply bind_rel; [apply unbind_rel; auto | simpl; auto].
        * destruct o2; try (apply store_same; auto). exfalso. eapply Ho2; reflexivity.
    - (* next *)
      slot H self a1 q1 q1' Ht1 o1 Ho1; try (apply unbound_same; auto).
      destruct o1; try (apply unbound_same; auto).
      destruct (glue_next _ _ _ _ _ hits k) as [r rest]. split; simpl.
      + apply res_rel_refl.
      + apply bind_rel; [apply unbind_rel; auto | simpl; auto].
    - apply store_same; auto.
    - slot H self a1 q1 q1' Ht1 o1 Ho1; try (apply unbound_rel; auto).
      destruct o1; try (apply unbound_rel; auto).
      destruct (motif_part _ _ _ _ _ m which); [apply store_same | apply unbound_rel]; auto.
    - destruct (glue_load K file format protein) as [r|e|].
      + destruct r; split; simpl; auto; try (apply unbind_rel; auto);
          try apply obj_rel_refl; try (apply bind_rel; [apply unbind_rel; auto | simpl; auto]).
      + split; simpl; auto. apply unbind_rel; auto.
      + split; simpl; auto. apply unbind_rel; auto.
    - slot H self a1 q1 q1' Ht1 o1 Ho1; try (apply unbound_rel; auto).
      destruct o1; try (apply unbound_rel; auto).
      destruct (nth_error ms idx); try (apply unbound_rel; auto).
      destruct (motif_part _ _ _ _ _ m which); [apply store_same | apply unbound_rel]; auto.
    - slot H self a1 q1 q1' Ht1 o1 Ho1; try (apply unbound_same; auto);
        (split; simpl; [auto | apply unbind_rel; auto]).
    - apply store_same; auto.
    - recv_store H self.
    - (* copy *)
      slot H self a1 q1 q1' Ht1 o1 Ho1; try (apply unbound_rel; auto).
      + apply store_rel; auto. simpl. auto.
      + apply store_same; auto.
    - (* == *)
      slot H self a1 q1 q1' Ht1 o1 Ho1.
      + apply unbound_same; auto.
      + destruct other as [ |b0|z0|bits0|cps0|bs0|l0|l0|kv0| |nq|g0]; try (apply unbound_same; auto).
        slot H nq a2 q2 q2' Ht2 o2 Ho2; apply unbound_same; auto.
      + destruct other as [ |b0|z0|bits0|cps0|bs0|l0|l0|kv0| |nq|g0];
          try (destruct (glue_eq K o1 None); [apply done_rel | apply unbound_same]; auto).
        slot H nq a2 q2 q2' Ht2 o2 Ho2.
        * apply unbound_same; auto.
        * assert (E : glue_eq K o1 (Some (OSeq _ _ _ _ _ a2 q2)) = glue_eq K o1 (Some (OSeq _ _ _ _ _ a2 q2'))).
          { destruct o1; reflexivity. }
          rewrite E. destruct (glue_eq K o1 _); [apply done_rel | apply unbound_same]; auto.
        * destruct (glue_eq K o1 (Some o2)); [apply done_rel | apply unbound_same]; auto.
    - recv_done H self.
    - recv_store H self.
    - apply store_same; auto.
    - slot H file a1 q1 q1' Ht1 o1 Ho1; try (apply unbound_rel; auto).
      destruct o1; try (apply unbound_rel; auto). apply store_same; auto.
    - slot H self a1 q1 q1' Ht1 o1 Ho1; try (apply unbound_same; auto).
      destruct o1; try (apply unbound_same; auto).
      destruct (lazy_take K a id calls k) as [items calls']. split; simpl; auto.
      apply bind_rel; [apply unbind_rel; auto | simpl; auto].
  Qed.

  Fixpoint steps_rel (l l' : list step) : Prop :=
    match l, l' with
    | [], [] => True
    | s :: r, s' :: r' => step_rel s s' /\ steps_rel r r'
    | _, _ => False
    end.

  Theorem run_history_rel cs : forall st st',
    st_rel st st' -> steps_rel (run_history K st cs) (run_history K st' cs).
  Proof.
    induction cs as [|c r IH]; intros st st' H; [exact I|].
    cbn [run_history]. pose proof (run_call_rel st st' c H) as [Hs Ht].
    destruct (run_call K st c) as [o1 s1], (run_call K st' c) as [o2 s2]. simpl in *.
    split; auto.
  Qed.
End Hist.
