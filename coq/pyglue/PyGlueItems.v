(* Panics inside iteration results: a load() / next() never hands a PanicException out of an
   iteration unless the core reader panics.  Lemmas for C17.v. *)
From Coq Require Import List ZArith Bool Lia.
From LMBase Require Import ListX IEEE.
From LMPyGlue Require Import PyGlueModel PyGlueProofs.
Import ListNotations.
Open Scope Z_scope.

Section Items.
  Variables CM FM WM SM SQ SC : Type.
  Variable K : core CM FM WM SM SQ SC.
  Variable sm_ty : SM -> abc -> Prop.
  Variable sq_ty : SQ -> abc -> Prop.
  Variable wrap_ok : SM -> SQ -> Prop.
  (* guarded totality (PyGlueProofs.core_guarded): the conversions of a record only ask the core for
     to_freq / to_weight / to_scoring with base 2 *)
  Hypothesis CT : core_guarded CM FM WM SM SQ SC K sm_ty sq_ty wrap_ok.

  Notation result := (result CM WM SM SQ SC).
  Notation motif := (motif CM WM SM).

  (* the readers over misbehaving streams and the lazily driven readers do not panic either *)
  Definition readers_total : Prop :=
    (forall d f a it b, In (it, b) (snd (c_read_faulty K d f a)) -> it <> Some (RPanic CM FM)) /\
    (forall id j, c_lazy_next K id j <> Some (RPanic CM FM)).

  Hypothesis RT : readers_total.

  Definition no_item_panic (r : result) : Prop :=
    match r with
    | RLoad _ _ _ _ _ _ t => t <> Panic
    | RLoadSeq _ _ _ _ _ items => ~ In Panic items
    | _ => True
    end.

  Lemma item_outcome_np a it : it <> RPanic CM FM -> item_outcome K a it <> Panic.
  Proof.
    destruct it; cbn [item_outcome]; intros H; [eapply convert_record_np; exact CT | discriminate | congruence].
  Qed.

  Lemma faulty_items_np a fl items :
    (forall it b, In (it, b) items -> it <> Some (RPanic CM FM)) -> ~ In Panic (faulty_items K a fl items).
  Proof.
    induction items as [|[it b] r IH]; intros H; [intros []|].
    assert (Hr : forall it0 b0, In (it0, b0) r -> it0 <> Some (RPanic CM FM)) by (intros; eapply H; right; eauto).
    destruct it as [it|], b; cbn [faulty_items].
    - intros [E|E]; [discriminate | exact (IH Hr E)].
    - intros [E|E]; [|exact (IH Hr E)]. eapply item_outcome_np; [|exact E].
      intros ->. eapply (H (Some (RPanic CM FM)) false); [left; reflexivity | reflexivity].
    - intros [E|E]; [discriminate | exact (IH Hr E)].
    - intros [].
  Qed.

  Lemma lazy_take_np a id k : forall calls, ~ In Panic (fst (lazy_take K a id calls k)).
  Proof.
    destruct RT as [_ RL].
    induction k as [|k IH]; intros calls; [intros []|]. cbn [lazy_take].
    destruct (c_lazy_next K id calls) as [[r|e|]|] eqn:E.
    - destruct (convert_record K a r) eqn:Ec.
      + specialize (IH (S calls)). destruct (lazy_take K a id (S calls) k) as [l c]. cbn [fst] in *.
        intros [H|H]; [discriminate | exact (IH H)].
      + cbn [fst]. intros [H|[]]. discriminate.
      + exfalso. eapply convert_record_np; [exact CT | exact Ec].
    - cbn [fst]. intros [H|[]]. discriminate.
    - exfalso. eapply RL. exact E.
    - intros [].
  Qed.

  (* load() / Loader(): the iteration never ends in, nor contains, a PanicException *)
  Theorem load_no_item_panic file format protein r :
    glue_load K file format protein = Value r -> no_item_panic r.
  Proof.
    destruct RT as [RF _]. unfold glue_load.
    destruct (format_arg format) as [f|e|]; cbn [obind]; try discriminate.
    destruct (protein_flag protein) as [a|e|]; cbn [obind]; try discriminate.
    destruct file; try discriminate; destruct (format_of f a) as [k|e|]; cbn [obind]; try discriminate.
    - destruct (load_items K a (c_read K k a bytes)) as [ms t] eqn:El. intros H. inversion H; subst r. cbn [no_item_panic].
      replace t with (snd (load_items K a (c_read K k a bytes))) by (rewrite El; reflexivity).
      eapply load_items_np; [exact CT | apply (cg_read _ _ _ _ _ _ _ _ _ _ CT)].
    - destruct (c_read_faulty K desc k a) as [ctor items] eqn:Er. destruct ctor; [discriminate|].
      intros H. inversion H; subst r. cbn [no_item_panic]. apply faulty_items_np.
      intros it b Hin. apply (RF desc k a it b). rewrite Er. exact Hin.
  Qed.
End Items.
