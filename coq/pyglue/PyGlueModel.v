(* Model of the PyO3 glue of lightmotif-py (lightmotif-py/lightmotif/{lib.rs,io.rs,pyfile.rs}).

   Only the *glue* is modelled: argument extraction (as PyO3 0.22 performs it for the
   declared Rust parameter types), dictionary <-> alphabet-array conversion, dispatch on
   alphabet / method / format strings, order of validation, and which core operation is
   called with which arguments.  The core library itself is a parameter: a record
   [core] of operations whose own properties are C01-C03, C04, C07, C09-C11, C12-C14.

   Executable definitions only (no proofs): this file must extract even when a proof
   breaks.  Every function is total into [outcome]:
     Value v  - the Python call returns v
     PyExc e  - an ordinary Python exception of kind e is raised
     Panic    - a Rust panic crosses the boundary (pyo3_runtime.PanicException)
   The glue itself has no panicking construct left (indexing in CountMatrix.__init__ is
   guarded since c1397ab); [Panic] only arises from a core operation that panics. *)
From Coq Require Import List ZArith Bool.
From LMBase Require Import ListX IEEE.
Import ListNotations.
Open Scope Z_scope.

(* ------------------------------------------------------------------ outcomes *)

Inductive exc := ValueError | TypeError | OverflowError | RuntimeError | OSError
               | UnicodeError | AttributeError | NameError | KeyError.

Inductive outcome (A : Type) := Value (a : A) | PyExc (e : exc) | Panic.
Arguments Value {A} a.
Arguments PyExc {A} e.
Arguments Panic {A}.

Definition obind {A B} (x : outcome A) (f : A -> outcome B) : outcome B :=
  match x with Value a => f a | PyExc e => PyExc e | Panic => Panic end.
Notation "x <~ e ;; k" := (obind e (fun x => k)) (at level 61, e at next level, right associativity).

(* result of a core operation: value, Err(_) of the library, or a panic *)
Inductive cres (A : Type) := COk (a : A) | CErr | CPanic.
Arguments COk {A} a.
Arguments CErr {A}.
Arguments CPanic {A}.

(* a core Err becomes the exception e; a core panic becomes a PanicException *)
Definition lift {A} (e : exc) (r : cres A) : outcome A :=
  match r with COk a => Value a | CErr => PyExc e | CPanic => Panic end.
(* operations whose Rust signature has no Result: anything but a value is a panic *)
Definition liftp {A} (r : cres A) : outcome A :=
  match r with COk a => Value a | _ => Panic end.

(* ------------------------------------------------------------------ Python values *)

Inductive pyval :=
| PNone
| PBool (b : bool)
| PInt (z : Z)
| PFloat (bits : Z)                 (* IEEE binary64 bit pattern *)
| PStr (cps : list Z)               (* code points *)
| PBytes (bs : list Z)
| PList (l : list pyval)
| PTuple (l : list pyval)
| PDict (kv : list (pyval * pyval)) (* keys are distinct in Python *)
| PObj                              (* any other object *)
| PRef (slot : nat)                 (* an object of the module created earlier *)
| PGen (l : list pyval).            (* a generator object yielding l: iterable, but without len() *)

Definition f64_one : Z := 4607182418800017408.
Definition f32_two : Z := 1073741824.

(* obj.extract::<f64>(): exact floats, otherwise __float__/__index__ (int, bool).  An int goes through
   PyLong_AsDouble (nearest even): OverflowError exactly when the rounded value is not finite, i.e. from
   2^1024 - 2^970 on (the midpoint between the largest double and 2^1024) - C17.v: ex_extract_f64_bound *)
Definition extract_f64 (v : pyval) : outcome Z :=
  match v with
  | PFloat b => Value b
  | PInt z => if Z.abs z <? 2 ^ 1024 - 2 ^ 970 then Value (F64.to_bits (F64.of_Z z)) else PyExc OverflowError
  | PBool b => Value (if b then f64_one else 0)
  | _ => PyExc TypeError
  end.

Definition f64_to_f32_bits (b : Z) : Z := F32.to_bits (F64.to_f32 (F64.of_bits b)).
Definition f32_to_f64_bits (b : Z) : Z := F64.to_bits (F64.of_f32 (F32.of_bits b)).

(* obj.extract::<f32>() = extract::<f64>()? as f32 *)
Definition extract_f32 (v : pyval) : outcome Z :=
  b <~ extract_f64 v ;; Value (f64_to_f32_bits b).

Definition extract_u32 (v : pyval) : outcome Z :=
  match v with
  | PInt z => if (0 <=? z) && (z <=? 4294967295) then Value z else PyExc OverflowError
  | PBool b => Value (if b then 1 else 0)
  | _ => PyExc TypeError
  end.

Definition extract_usize (v : pyval) : outcome Z :=
  match v with
  | PInt z => if (0 <=? z) && (z <=? 18446744073709551615) then Value z else PyExc OverflowError
  | PBool b => Value (if b then 1 else 0)
  | _ => PyExc TypeError
  end.

Definition is_surrogate (c : Z) : bool := (55296 <=? c) && (c <=? 57343).

(* Bound<PyString> then to_str(): lone surrogates cannot be encoded *)
Definition extract_str (v : pyval) : outcome (list Z) :=
  match v with
  | PStr s => if existsb is_surrogate s then PyExc UnicodeError else Value s
  | _ => PyExc TypeError
  end.

Definition extract_bool (v : pyval) : outcome bool :=
  match v with PBool b => Value b | _ => PyExc TypeError end.

Definition extract_dict (v : pyval) : outcome (list (pyval * pyval)) :=
  match v with PDict kv => Value kv | _ => PyExc TypeError end.

Definition utf8_len1 (c : Z) : Z :=
  if c <? 128 then 1 else if c <? 2048 then 2 else if c <? 65536 then 3 else 4.
Definition utf8_len (s : list Z) : Z := fold_right (fun c n => utf8_len1 c + n) 0 s.

(* items produced by iterating a Python object (None: not iterable) *)
Definition iter_items (v : pyval) : option (list pyval) :=
  match v with
  | PList l | PTuple l => Some l
  | PStr s => Some (map (fun c => PStr [c]) s)
  | PBytes bs => Some (map PInt bs)
  | PDict kv => Some (map fst kv)
  | PGen l => Some l
  | _ => None
  end.

(* a column of CountMatrix(values): `column.len()?` comes first, so an iterable without len()
   (a generator) is a TypeError *)
Definition col_items (v : pyval) : option (list pyval) :=
  match v with PGen _ => None | _ => iter_items v end.

(* ------------------------------------------------------------------ alphabets *)

Inductive abc := Dna | Protein.

Definition abc_eqb (a b : abc) : bool :=
  match a, b with Dna, Dna | Protein, Protein => true | _, _ => false end.

(* "ACTGN" and "ACDEFGHIKLMNPQRSTVWYX" as ASCII codes (abc.rs; tied on every run: the
   harness prints Alphabet::as_str() of the library and the driver compares) *)
Definition symbols (a : abc) : list Z :=
  match a with
  | Dna => [65; 67; 84; 71; 78]
  | Protein => [65; 67; 68; 69; 70; 71; 72; 73; 75; 76; 77; 78; 80; 81; 82; 83; 84; 86; 87; 89; 88]
  end.

Definition ksize (a : abc) : nat := length (symbols a).

Fixpoint index_of (c : Z) (l : list Z) : option nat :=
  match l with
  | [] => None
  | x :: r => if x =? c then Some O else option_map S (index_of c r)
  end.

(* Symbol::from_char followed by as_index *)
Definition sym_index (a : abc) (c : Z) : option nat := index_of c (symbols a).

(* ------------------------------------------------------------------ dict_to_alphabet_array *)

Fixpoint d2a_loop (a : abc) (kv : list (pyval * pyval)) (p : list Z) : outcome (list Z) :=
  match kv with
  | [] => Value p
  | (k, v) :: rest =>
      s <~ extract_str k ;;
      if negb (utf8_len s =? 1) then PyExc ValueError else
      match s with
      | [c] =>
          match sym_index a c with
          | None => PyExc ValueError
          | Some i => x <~ extract_f32 v ;; d2a_loop a rest (upd i x p)
          end
      | _ => PyExc ValueError
      end
  end.

Definition dict_to_alphabet_array (a : abc) (kv : list (pyval * pyval)) : outcome (list Z) :=
  d2a_loop a kv (repeat 0 (ksize a)).

(* ------------------------------------------------------------------ columns -> matrix *)

Definition pyval_is_str1 (c : Z) (v : pyval) : bool :=
  match v with PStr [x] => x =? c | _ => false end.

(* PyDict::get_item(String::from(symbol)) *)
Fixpoint dict_get (kv : list (pyval * pyval)) (c : Z) : option pyval :=
  match kv with
  | [] => None
  | (k, v) :: r => if pyval_is_str1 c k then Some v else dict_get r c
  end.

(* matrix[i][j] = extract(x)? for the items of one column, in order *)
Fixpoint write_col (ex : pyval -> outcome Z) (j : nat) (items : list pyval) (m : list (list Z))
  : outcome (list (list Z)) :=
  match items, m with
  | [], _ => Value m
  | x :: xs, row :: rows =>
      v <~ ex x ;; rest <~ write_col ex j xs rows ;; Value (upd j v row :: rest)
  | _ :: _, [] => PyExc ValueError        (* more items than rows: guarded since c1397ab *)
  end.

Definition zero_matrix (a : abc) (n : nat) : list (list Z) := repeat (repeat 0 (ksize a)) n.

(* the loop `for s in A::symbols()` of CountMatrix.__init__ / ScoringMatrix.__init__;
   [items_of] says which Python objects are accepted as a column *)
Fixpoint cols_loop (a : abc) (items_of : pyval -> option (list pyval)) (ex : pyval -> outcome Z)
         (syms : list Z) (j : nat) (kv : list (pyval * pyval)) (data : option (list (list Z)))
  : outcome (option (list (list Z))) :=
  match syms with
  | [] => Value data
  | c :: rest =>
      match dict_get kv c with
      | None => cols_loop a items_of ex rest (S j) kv data
      | Some col =>
          match items_of col with
          | None => PyExc TypeError
          | Some items =>
              let m := match data with None => zero_matrix a (length items) | Some m => m end in
              if negb (Nat.eqb (length m) (length items)) then PyExc ValueError else
              m' <~ write_col ex j items m ;;
              cols_loop a items_of ex rest (S j) kv (Some m')
          end
      end
  end.

Definition list_items (v : pyval) : option (list pyval) :=
  match v with PList l => Some l | _ => None end.

(* ------------------------------------------------------------------ checks on the scores *)

(* the validations lightmotif-py performs on a scoring matrix before handing it to the core
   (ScoringMatrixData::{ensure_not_empty, ensure_ordered, ensure_finite}) *)
Definition f32_is_nan (b : Z) : bool := F32.is_nan (F32.of_bits b).
Definition f32_is_posinf (b : Z) : bool := b =? 2139095040.
Definition f32_is_finite (b : Z) : bool := F32.is_finite (F32.of_bits b).

Definition sm_empty (m : list (list Z)) : bool := match m with [] => true | _ => false end.
Definition cells_nan (m : list (list Z)) : bool := existsb (existsb f32_is_nan) m.
Definition cells_posinf (m : list (list Z)) : bool := existsb (existsb f32_is_posinf) m.

(* some cell is a finite number (a1b1f91: a matrix whose cells are all -inf has no score distribution) *)
Definition cells_some_finite (m : list (list Z)) : bool := existsb (existsb f32_is_finite) m.

(* ensure_ordered(distribution): no NaN; for a score distribution also no +inf, not empty, and at
   least one finite cell *)
Definition ordered_ok (distribution : bool) (m : list (list Z)) : bool :=
  negb (cells_nan m || (distribution && (cells_posinf m || sm_empty m || negb (cells_some_finite m)))).

(* ensure_finite: not empty, symbol columns finite, default-symbol column neither NaN nor +inf *)
Definition row_finite_ok (row : list Z) : bool :=
  let k := (length row - 1)%nat in
  forallb f32_is_finite (firstn k row) &&
  negb (f32_is_nan (nth k row 0) || f32_is_posinf (nth k row 0)).
Definition finite_ok (m : list (list Z)) : bool := negb (sm_empty m) && forallb row_finite_ok m.

Definition f32_one : Z := 1065353216.
(* log_odds: the base must be finite, positive and different from one *)
Definition base_invalid (b : Z) : bool :=
  let x := F32.of_bits b in
  negb (F32.is_finite x) || F32.le x F32.zero || F32.eq x (F32.of_bits f32_one).

Definition f64_is_nan (b : Z) : bool := F64.is_nan (F64.of_bits b).
Definition f64_is_inf (b : Z) : bool := negb (F64.is_finite (F64.of_bits b)) && negb (f64_is_nan b).
(* (0.0..=1.0).contains(&p) *)
Definition pvalue_in_range (b : Z) : bool :=
  F64.le F64.zero (F64.of_bits b) && F64.le (F64.of_bits b) (F64.of_bits f64_one).

(* ------------------------------------------------------------------ the core library *)

Inductive pseudo := PsScalar (x : Z) | PsArray (p : list Z).

Inductive fmt := Jaspar | Jaspar16 | Uniprobe | Transfac.

Section Glue.
  (* opaque values of the core library *)
  Variables CM FM WM SM SQ SC : Type.

  (* a record of lightmotif-io with the matrix it carries *)
  Inductive record :=
  | RecJaspar (name : list Z) (desc : option (list Z)) (c : CM)
  | RecUniprobe (name : list Z) (f : FM)
  | RecTransfac (name desc id acc : option (list Z)) (c : option CM).   (* to_counts() *)

  Inductive rerr := EInvalidData | EIo | ENom.
  Inductive ritem := ROk (r : record) | RErr (e : rerr) | RPanic.

  Record core := {
    c_count_new : abc -> list (list Z) -> cres CM;            (* CountMatrix::new *)
    c_encode_ok : abc -> list Z -> cres unit;                 (* EncodedSequence::encode(text) succeeds *)
    c_from_seqs : abc -> list (list Z) -> cres CM;            (* CountMatrix::from_sequences of the encoded texts *)
    c_to_freq : CM -> pseudo -> cres FM;                      (* to_freq(Pseudocounts::from(..)) *)
    c_to_weight : FM -> cres WM;                              (* to_weight(None) *)
    c_bg_uniform : abc -> list Z;                             (* Background::uniform().frequencies() *)
    c_bg_new : abc -> list Z -> cres (list Z);                (* Background::new *)
    c_w_bg : WM -> list Z;                                    (* background().frequencies() *)
    c_rescale : WM -> list Z -> cres WM;
    c_to_scoring_base : WM -> Z -> cres SM;                   (* to_scoring_with_base *)
    c_scoring_new : abc -> list Z -> list (list Z) -> cres SM;
    c_revcomp : SM -> cres SM;
    c_max_score : SM -> cres Z;
    c_sm_cells : SM -> list (list Z);                         (* the scores, row by row, as f32 bits *)
    c_cm_eq : CM -> CM -> bool;                               (* derived PartialEq of the core types *)
    c_wm_eq : WM -> WM -> bool;
    c_sm_eq : SM -> SM -> bool;
    c_dist_sf : SM -> cres (list Z);                          (* to_score_distribution().sf(), as a digest *)
    c_stripe : abc -> list Z -> cres SQ;                      (* encode + to_striped *)
    c_configure : SQ -> SM -> cres SQ;                        (* StripedSequence::configure *)
    c_score : SM -> SQ -> cres SC;                            (* Pipeline::dispatch().score *)
    c_threshold : SC -> Z -> cres (list Z);
    c_max : SC -> cres (option Z);
    c_argmax : SC -> cres (option Z);
    c_dist_pvalue : SM -> Z -> cres Z;                        (* to_score_distribution().pvalue(f32) *)
    c_dist_score : SM -> Z -> cres Z;                         (* ....score(f64) : f32 *)
    c_tfm_pvalue : SM -> Z -> cres Z;
    c_tfm_score : SM -> Z -> cres Z;
    c_scan : SM -> SQ -> Z -> Z -> cres (list (Z * Z));       (* hits of Scanner in iteration order *)
    c_read : fmt -> abc -> list Z -> list ritem;              (* items of the reader, up to the first error *)
    (* the reader over a stream that misbehaves as described by the (opaque) descriptor: did a call of
       the stream fail while the reader was constructed; then, for every next(), the item (None: end
       of the iteration) and whether a call of the stream failed during that next().  The iteration
       goes on after an error *)
    c_read_faulty : list Z -> fmt -> abc -> bool * list (option ritem * bool);
    (* the j-th next() (counting from 0) of the reader behind loader number id of the history;
       None = end of the iteration.  What a reader sees depends on the other readers that share
       its file object; the correspondence run mirrors the interleaving on core readers. *)
    c_lazy_next : nat -> nat -> option ritem
  }.

  Variable K : core.

  (* ---------------------------------------------------------------- objects *)

  Inductive mkind :=
  | MPlain
  | MJaspar (desc : option (list Z))
  | MUniprobe
  | MTransfac (desc id acc : option (list Z)).

  Record motif := {
    m_abc : abc;
    m_name : option (list Z);
    m_counts : option CM;
    m_pwm : WM;
    m_pssm : SM;
    m_kind : mkind
  }.

  Inductive obj :=
  | OCount (a : abc) (c : CM)
  | OWeight (a : abc) (w : WM)
  | OScoring (a : abc) (s : SM)
  | OSeq (a : abc) (q : SQ)
  | OScores (sc : SC)
  | OScanner (hits : list (Z * Z))       (* hits not yet returned *)
  | OMotif (m : motif)
  | OLoaded (ms : list motif)
  | OEncoded (a : abc) (text : list Z)   (* EncodedSequence: determined by its (valid) text *)
  | ODist (sf : list Z)                  (* ScoreDistribution: the survival function (digest) *)
  | OFile                                (* an in-memory binary file object (io.BytesIO) *)
  | OLoader (a : abc) (id : nat) (calls : nat).   (* a Loader that has answered `calls` next() calls *)

  Definition state := list (nat * obj).

  Fixpoint lookup (st : state) (n : nat) : option obj :=
    match st with
    | [] => None
    | (k, o) :: r => if Nat.eqb k n then Some o else lookup r n
    end.

  Definition bind_slot (st : state) (n : nat) (o : obj) : state := (n, o) :: st.

  Fixpoint unbind (st : state) (n : nat) : state :=
    match st with
    | [] => []
    | (k, o) :: r => if Nat.eqb k n then unbind r n else (k, o) :: unbind r n
    end.

  (* ---------------------------------------------------------------- argument helpers *)

  (* `protein: bool` with default false *)
  Definition protein_flag (p : option pyval) : outcome abc :=
    match p with
    | None => Value Dna
    | Some v => b <~ extract_bool v ;; Value (if b then Protein else Dna)
    end.

  (* CountMatrix.normalize: pseudocount = None | float | dict *)
  Definition glue_pseudo (a : abc) (pc : option pyval) : outcome pseudo :=
    match pc with
    | None | Some PNone => Value (PsScalar 0)
    | Some v =>
        match extract_f32 v with
        | Value x => Value (PsScalar x)
        | _ =>
            match v with
            | PDict kv => p <~ dict_to_alphabet_array a kv ;; Value (PsArray p)
            | _ => PyExc TypeError
            end
        end
    end.

  (* background = None | dict  (WeightMatrix.log_odds, ScoringMatrix.__init__) *)
  Definition glue_background (a : abc) (bg : option pyval) : outcome (list Z) :=
    match bg with
    | None | Some PNone => Value (c_bg_uniform K a)
    | Some (PDict kv) => p <~ dict_to_alphabet_array a kv ;; lift ValueError (c_bg_new K a p)
    | Some _ => PyExc TypeError
    end.

  (* `bg.frequencies() != data.background().frequencies()`: IEEE comparison of f32 slices *)
  Fixpoint f32s_eqb (x y : list Z) : bool :=
    match x, y with
    | [], [] => true
    | a :: x', b :: y' => F32.eq (F32.of_bits a) (F32.of_bits b) && f32s_eqb x' y'
    | _, _ => false
    end.

  (* ---------------------------------------------------------------- entry points *)

  (* CountMatrix(values, *, protein=False) *)
  Definition glue_count_init (values : pyval) (protein : option pyval) : outcome obj :=
    kv <~ extract_dict values ;;
    a <~ protein_flag protein ;;
    d <~ cols_loop a col_items extract_u32 (symbols a) 0 kv None ;;
    match d with
    | None => PyExc ValueError
    | Some m => c <~ lift ValueError (c_count_new K a m) ;; Value (OCount a c)
    end.

  (* cm.normalize(pseudocount=None) *)
  Definition glue_normalize (a : abc) (c : CM) (pc : option pyval) : outcome obj :=
    ps <~ glue_pseudo a pc ;;
    f <~ liftp (c_to_freq K c ps) ;;
    w <~ liftp (c_to_weight K f) ;;
    Value (OWeight a w).

  (* wm.log_odds(background=None, base=2.0); PyO3 extracts `base: f32` before the body runs *)
  Definition glue_log_odds (a : abc) (w : WM) (bg base : option pyval) : outcome obj :=
    b <~ match base with None => Value f32_two | Some v => extract_f32 v end ;;
    if base_invalid b then PyExc ValueError else
    g <~ glue_background a bg ;;
    w' <~ (if f32s_eqb g (c_w_bg K w) then Value w else liftp (c_rescale K w g)) ;;
    s <~ liftp (c_to_scoring_base K w' b) ;;
    Value (OScoring a s).

  (* ScoringMatrix(values, background=None, *, protein=False) *)
  Definition glue_scoring_init (values : pyval) (bg protein : option pyval) : outcome obj :=
    kv <~ extract_dict values ;;
    a <~ protein_flag protein ;;
    g <~ glue_background a bg ;;
    d <~ cols_loop a list_items extract_f32 (symbols a) 0 kv None ;;
    match d with
    | None => PyExc ValueError
    | Some m => s <~ liftp (c_scoring_new K a g m) ;; Value (OScoring a s)
    end.

  (* stripe(sequence, *, protein=False) *)
  Definition glue_stripe (sequence : pyval) (protein : option pyval) : outcome obj :=
    s <~ extract_str sequence ;;
    a <~ protein_flag protein ;;
    q <~ lift ValueError (c_stripe K a s) ;;
    Value (OSeq a q).

  (* sm.calculate(sequence): configure the (shared, mutable) sequence, then score.
     Returns the outcome and the new value of the sequence object. *)
  Definition glue_calculate (a : abc) (s : SM) (aq : abc) (q : SQ) : outcome obj * SQ :=
    if sm_empty (c_sm_cells K s) then (PyExc ValueError, q) else
    if abc_eqb a aq then
      match c_configure K q s with
      | COk q' => (sc <~ liftp (c_score K s q') ;; Value (OScores sc), q')
      | _ => (Panic, q)
      end
    else (PyExc ValueError, q).

  Inductive result :=
  | RObj (o : obj)
  | RIdx (l : list Z)
  | RMaxv (m : option Z)
  | RArgv (m : option Z)
  | RF64 (bits : Z)
  | RF32 (bits : Z)
  | RHits (h : list (Z * Z)) (ended : bool)
  | RLoad (ms : list motif) (tail : outcome unit)
  | RUnit
  | RLoadSeq (items : list (outcome motif))
  | RBool (b : bool)
  | RStr (s : list Z).

  Definition glue_threshold (sc : SC) (t : pyval) : outcome result :=
    x <~ extract_f32 t ;; l <~ liftp (c_threshold K sc x) ;; Value (RIdx l).
  Definition glue_max (sc : SC) : outcome result := m <~ liftp (c_max K sc) ;; Value (RMaxv m).
  Definition glue_argmax (sc : SC) : outcome result := m <~ liftp (c_argmax K sc) ;; Value (RArgv m).

  Definition str_meme : list Z := [109; 101; 109; 101].
  Definition str_tfmpvalue : list Z := [116; 102; 109; 112; 118; 97; 108; 117; 101].

  Fixpoint zlist_eqb (x y : list Z) : bool :=
    match x, y with
    | [], [] => true
    | a :: x', b :: y' => (a =? b) && zlist_eqb x' y'
    | _, _ => false
    end.

  Definition method_arg (m : option pyval) : outcome (list Z) :=
    match m with None => Value str_meme | Some v => extract_str v end.

  (* sm.pvalue(score, method="meme"): the score must not be NaN (nor infinite for TFM-PVALUE);
     TFM-PVALUE needs a non-empty matrix with finite scores, the MEME distribution an ordered,
     non-empty matrix without +inf *)
  Definition glue_pvalue (s : SM) (x : pyval) (method : option pyval) : outcome result :=
    v <~ extract_f64 x ;;
    m <~ method_arg method ;;
    if f64_is_nan v || (f64_is_inf v && zlist_eqb m str_tfmpvalue) then PyExc ValueError else
    if zlist_eqb m str_tfmpvalue then
      if finite_ok (c_sm_cells K s) then p <~ liftp (c_tfm_pvalue K s v) ;; Value (RF64 p)
      else PyExc ValueError
    else if zlist_eqb m str_meme then
      if ordered_ok true (c_sm_cells K s)
      then p <~ liftp (c_dist_pvalue K s (f64_to_f32_bits v)) ;; Value (RF64 p)
      else PyExc ValueError
    else PyExc ValueError.

  (* sm.score(pvalue, method="meme"): the p-value must lie in [0, 1] *)
  Definition glue_score (s : SM) (x : pyval) (method : option pyval) : outcome result :=
    v <~ extract_f64 x ;;
    m <~ method_arg method ;;
    if negb (pvalue_in_range v) then PyExc ValueError else
    if zlist_eqb m str_tfmpvalue then
      if finite_ok (c_sm_cells K s) then p <~ liftp (c_tfm_score K s v) ;; Value (RF64 p)
      else PyExc ValueError
    else if zlist_eqb m str_meme then
      if ordered_ok true (c_sm_cells K s)
      then p <~ liftp (c_dist_score K s v) ;; Value (RF64 (f32_to_f64_bits p))
      else PyExc ValueError
    else PyExc ValueError.

  Definition glue_max_score (s : SM) : outcome result :=
    if ordered_ok false (c_sm_cells K s) then m <~ liftp (c_max_score K s) ;; Value (RF32 m)
    else PyExc ValueError.

  (* sm.reverse_complement() *)
  Definition glue_revcomp (a : abc) (s : SM) : outcome obj :=
    match a with
    | Dna => r <~ liftp (c_revcomp K s) ;; Value (OScoring Dna r)
    | Protein => PyExc RuntimeError
    end.

  (* scan(pssm, sequence, *, threshold=0.0, block_size=256) / Scanner(...): the scanner is
     modelled by the list of hits its core iterator yields (order included). *)
  Definition glue_scan_args (thr bs : option pyval) : outcome (Z * Z) :=
    t <~ match thr with None => Value 0 | Some v => extract_f32 v end ;;
    b <~ match bs with None => Value 256 | Some v => extract_usize v end ;;
    if b =? 0 then PyExc ValueError else Value (t, b).

  Definition glue_scan (a : abc) (s : SM) (aq : abc) (q : SQ) (t b : Z) : outcome obj * SQ :=
    if negb (ordered_ok false (c_sm_cells K s)) then (PyExc ValueError, q) else
    match a, aq with
    | Dna, Dna =>
        if sm_empty (c_sm_cells K s) then (PyExc ValueError, q) else
        match c_configure K q s with
        | COk q' => (h <~ liftp (c_scan K s q' t b) ;; Value (OScanner h), q')
        | _ => (Panic, q)
        end
    | Protein, Protein => (PyExc ValueError, q)
    | _, _ => (PyExc ValueError, q)
    end.

  (* up to k further hits (None: until StopIteration) *)
  Definition glue_next (hits : list (Z * Z)) (k : option nat) : result * list (Z * Z) :=
    match k with
    | None => (RHits hits true, [])
    | Some n =>
        if Nat.leb n (length hits) then (RHits (firstn n hits) false, skipn n hits)
        else (RHits hits true, [])
    end.

  (* Motif::from_counts / create: to_freq(0.0).to_weight(None), to_scoring() *)
  Definition motif_from_counts (a : abc) (name : option (list Z)) (kind : mkind) (c : CM) : outcome motif :=
    f <~ liftp (c_to_freq K c (PsScalar 0)) ;;
    w <~ liftp (c_to_weight K f) ;;
    s <~ liftp (c_to_scoring_base K w f32_two) ;;
    Value {| m_abc := a; m_name := name; m_counts := Some c; m_pwm := w; m_pssm := s; m_kind := kind |}.

  Definition motif_from_freq (a : abc) (name : option (list Z)) (kind : mkind) (f : FM) : outcome motif :=
    w <~ liftp (c_to_weight K f) ;;
    s <~ liftp (c_to_scoring_base K w f32_two) ;;
    Value {| m_abc := a; m_name := name; m_counts := None; m_pwm := w; m_pssm := s; m_kind := kind |}.

  Fixpoint extract_strs (l : list pyval) : outcome (list (list Z)) :=
    match l with
    | [] => Value []
    | v :: r => s <~ extract_str v ;; rest <~ extract_strs r ;; Value (s :: rest)
    end.

  Definition name_arg (n : option pyval) : outcome (option (list Z)) :=
    match n with
    | None | Some PNone => Value None
    | Some v => s <~ extract_str v ;; Value (Some s)
    end.

  (* create(sequences, *, protein=False, name=None): the items are extracted and encoded one
     at a time (TypeError / UnicodeError / ValueError at the first bad item), the lengths are
     only compared afterwards by from_sequences. *)
  Fixpoint create_loop (a : abc) (items : list pyval) : outcome (list (list Z)) :=
    match items with
    | [] => Value []
    | v :: r =>
        s <~ extract_str v ;;
        _ <~ lift ValueError (c_encode_ok K a s) ;;
        rest <~ create_loop a r ;;
        Value (s :: rest)
    end.

  Definition glue_create (seqs : pyval) (protein name : option pyval) : outcome obj :=
    a <~ protein_flag protein ;;
    nm <~ name_arg name ;;
    match iter_items seqs with
    | None => PyExc TypeError
    | Some items =>
        strs <~ create_loop a items ;;
        c <~ lift ValueError (c_from_seqs K a strs) ;;
        m <~ motif_from_counts a nm MPlain c ;;
        Value (OMotif m)
    end.

  (* ---------------------------------------------------------------- loader *)

  Definition str_jaspar : list Z := [106; 97; 115; 112; 97; 114].
  Definition str_jaspar16 : list Z := [106; 97; 115; 112; 97; 114; 49; 54].
  Definition str_uniprobe : list Z := [117; 110; 105; 112; 114; 111; 98; 101].
  Definition str_transfac : list Z := [116; 114; 97; 110; 115; 102; 97; 99].

  Definition format_arg (f : option pyval) : outcome (list Z) :=
    match f with None => Value str_jaspar | Some v => extract_str v end.

  (* how a later read() of a file object misbehaves *)
  Inductive fault := FRaises (e : exc) | FNotBytes | FTooMany.

  (* what the `file` argument turned out to be *)
  Inductive file_arg :=
  | FileData (bytes : list Z)      (* readable path, or file object whose read(n) returns at most n bytes *)
  | FileMissing                    (* path that cannot be opened: OSError *)
  | FileNoRead                     (* object without read(): the AttributeError propagates *)
  | FileNotBytes                   (* read(0) does not return bytes: TypeError *)
  | FileFaulty (fl : fault) (desc : list Z).  (* a later read() raises / returns non-bytes / too much / closes the file *)

  (* the exception PyFileRead leaves behind for the loader to raise (e7689c9): the exception of
     read() itself, a TypeError for a result that is not bytes, an OSError for too many bytes *)
  Definition fault_exc (fl : fault) : exc :=
    match fl with FRaises e => e | FNotBytes => TypeError | FTooMany => OSError end.

  Definition convert_error (e : rerr) : exc :=
    match e with EInvalidData => ValueError | EIo => OSError | ENom => ValueError end.

  (* {Jaspar,Uniprobe,Transfac}Motif::convert* *)
  Definition convert_record (a : abc) (r : record) : outcome motif :=
    match r with
    | RecJaspar name desc c => motif_from_counts a (Some name) (MJaspar desc) c
    | RecUniprobe name f => motif_from_freq a (Some name) MUniprobe f
    | RecTransfac name desc id acc c =>
        match c with
        | None => PyExc ValueError
        | Some c => motif_from_counts a name (MTransfac desc id acc) c
        end
    end.

  (* list(loader): motifs up to the first exception *)
  Fixpoint load_items (a : abc) (items : list ritem) : list motif * outcome unit :=
    match items with
    | [] => ([], Value tt)
    | RPanic :: _ => ([], Panic)
    | RErr e :: _ => ([], PyExc (convert_error e))
    | ROk r :: rest =>
        match convert_record a r with
        | Value m => let (ms, t) := load_items a rest in (m :: ms, t)
        | PyExc e => ([], PyExc e)
        | Panic => ([], Panic)
        end
    end.

  Definition item_outcome (a : abc) (it : ritem) : outcome motif :=
    match it with
    | ROk r => convert_record a r
    | RErr e => PyExc (convert_error e)
    | RPanic => Panic
    end.

  (* Loader.__next__ over a misbehaving file object: the pending exception of read() wins over the
     item; without one the item is converted as usual and the end of the reader ends the iteration *)
  Fixpoint faulty_items (a : abc) (fl : fault) (items : list (option ritem * bool)) : list (outcome motif) :=
    match items with
    | [] => []
    | (_, true) :: r => PyExc (fault_exc fl) :: faulty_items a fl r
    | (None, false) :: _ => []
    | (Some it, false) :: r => item_outcome a it :: faulty_items a fl r
    end.

  Definition format_of (f : list Z) (a : abc) : outcome fmt :=
    if zlist_eqb f str_jaspar then (match a with Protein => PyExc ValueError | Dna => Value Jaspar end)
    else if zlist_eqb f str_jaspar16 then Value Jaspar16
    else if zlist_eqb f str_transfac then Value Transfac
    else if zlist_eqb f str_uniprobe then Value Uniprobe
    else PyExc ValueError.

  (* load(file, format="jaspar", *, protein=False) followed by list(): the file is opened
     before the format is looked at *)
  Definition glue_load (file : file_arg) (format protein : option pyval) : outcome result :=
    f <~ format_arg format ;;
    a <~ protein_flag protein ;;
    match file with
    | FileMissing => PyExc OSError
    | FileNoRead => PyExc AttributeError
    | FileNotBytes => PyExc TypeError
    | FileFaulty fl desc =>
        (* PyFileRead turns whatever went wrong in read() into an io::Error for the reader and keeps
           the Python exception; the loader raises that exception instead of whatever the reader made
           of the failure - from the constructor when the reader already read there, otherwise from
           the next() during which read() failed; the reader may be asked for more afterwards *)
        k <~ format_of f a ;;
        let (ctor, items) := c_read_faulty K desc k a in
        if ctor then PyExc (fault_exc fl) else Value (RLoadSeq (faulty_items a fl items))
    | FileData bytes =>
        k <~ format_of f a ;;
        let (ms, t) := load_items a (c_read K k a bytes) in
        Value (RLoad ms t)
    end.

  (* ---------------------------------------------------------------- EncodedSequence, copies, ==, str *)

  (* EncodedSequence(sequence, protein=False) *)
  Definition glue_encode (sequence : pyval) (protein : option pyval) : outcome obj :=
    s <~ extract_str sequence ;;
    a <~ protein_flag protein ;;
    _ <~ lift ValueError (c_encode_ok K a s) ;;
    Value (OEncoded a s).

  (* encoded.stripe() *)
  Definition glue_enc_stripe (a : abc) (s : list Z) : outcome obj :=
    q <~ lift ValueError (c_stripe K a s) ;; Value (OSeq a q).

  (* copy() / __copy__: EncodedSequence and StripedSequence derive Clone; the other classes have
     no __copy__ and cannot be pickled, so copy.copy() raises TypeError *)
  Definition glue_copy (o : obj) : outcome obj :=
    match o with
    | OEncoded a s => Value (OEncoded a s)
    | OSeq a q => Value (OSeq a q)
    | _ => PyExc TypeError
    end.

  (* a == b for CountMatrix / WeightMatrix / ScoringMatrix: the derived PartialEq of the core data
     when b is an object of the same class (and alphabet), False for anything else *)
  Definition glue_eq (o : obj) (other : option obj) : option bool :=
    match o with
    | OCount a c =>
        Some (match other with Some (OCount a' c') => abc_eqb a a' && c_cm_eq K c c' | _ => false end)
    | OWeight a w =>
        Some (match other with Some (OWeight a' w') => abc_eqb a a' && c_wm_eq K w w' | _ => false end)
    | OScoring a s =>
        Some (match other with Some (OScoring a' s') => abc_eqb a a' && c_sm_eq K s s' | _ => false end)
    | _ => None
    end.

  (* sm.score_distribution: computed (and validated) like the "meme" p-values *)
  Definition glue_dist (s : SM) : outcome obj :=
    if ordered_ok true (c_sm_cells K s) then d <~ liftp (c_dist_sf K s) ;; Value (ODist d)
    else PyExc ValueError.

  (* ---------------------------------------------------------------- lazy loaders *)

  (* Loader(file, format, protein=) on a readable binary file object, not iterated yet *)
  Definition glue_loader_new (id : nat) (format protein : option pyval) : outcome obj :=
    f <~ format_arg format ;;
    a <~ protein_flag protein ;;
    _ <~ format_of f a ;;
    Value (OLoader a id 0).

  (* up to k next() calls: the motifs obtained, ending early with StopIteration or an exception *)
  Fixpoint lazy_take (a : abc) (id calls k : nat) : list (outcome motif) * nat :=
    match k with
    | O => ([], calls)
    | S k' =>
        match c_lazy_next K id calls with
        | None => ([], S calls)
        | Some (ROk r) =>
            match convert_record a r with
            | Value m => let (l, c) := lazy_take a id (S calls) k' in (Value m :: l, c)
            | PyExc e => ([PyExc e], S calls)
            | Panic => ([Panic], S calls)
            end
        | Some (RErr e) => ([PyExc (convert_error e)], S calls)
        | Some RPanic => ([Panic], S calls)
        end
    end.

  (* ---------------------------------------------------------------- histories *)

  Inductive call :=
  | KCountInit (dst : nat) (values : pyval) (protein : option pyval)
  | KNormalize (dst self : nat) (pc : option pyval)
  | KLogOdds (dst self : nat) (bg base : option pyval)
  | KScoringInit (dst : nat) (values : pyval) (bg protein : option pyval)
  | KStripe (dst : nat) (sequence : pyval) (protein : option pyval)
  | KCalculate (dst self : nat) (sequence : pyval)
  | KThreshold (self : nat) (t : pyval)
  | KMax (self : nat)
  | KArgmax (self : nat)
  | KPvalue (self : nat) (x : pyval) (method : option pyval)
  | KScore (self : nat) (x : pyval) (method : option pyval)
  | KMaxScore (self : nat)
  | KRevcomp (dst self : nat)
  | KScan (dst : nat) (pssm sequence : pyval) (thr bs : option pyval)
  | KNext (self : nat) (k : option nat)
  | KCreate (dst : nat) (seqs : pyval) (protein name : option pyval)
  | KGetMotif (dst self : nat) (which : nat)          (* 0 counts, 1 pwm, 2 pssm *)
  | KLoad (dst : nat) (file : file_arg) (format protein : option pyval)
  | KGetLoaded (dst self : nat) (idx : nat) (which : nat)
  | KDelete (self : nat)
  | KEncode (dst : nat) (sequence : pyval) (protein : option pyval)
  | KEncStripe (dst self : nat)
  | KCopy (dst self : nat)
  | KEq (self : nat) (other : pyval)
  | KStr (self : nat)
  | KDist (dst self : nat)
  | KFileNew (dst : nat)
  | KLoaderNew (dst file : nat) (format protein : option pyval)
  | KLoaderNext (self : nat) (k : nat).      (* the last reference held by the history is dropped (del + gc.collect()) *)

  (* outcome of one step as the harness sees it; [Unbound]: the history refers to a slot
     that holds no suitable object, nothing is called *)
  Inductive step := Done (o : outcome result) | Unbound.

  Definition store (st : state) (dst : nat) (o : outcome obj) : step * state :=
    match o with
    | Value v => (Done (Value (RObj v)), bind_slot (unbind st dst) dst v)
    | PyExc e => (Done (PyExc e), unbind st dst)
    | Panic => (Done Panic, unbind st dst)
    end.

  Definition motif_part (m : motif) (which : nat) : option obj :=
    match which with
    | O => option_map (OCount (m_abc m)) (m_counts m)
    | S O => Some (OWeight (m_abc m) (m_pwm m))
    | _ => Some (OScoring (m_abc m) (m_pssm m))
    end.

  (* a pyval argument that must be an object of a given class *)
  Definition run_call (st : state) (c : call) : step * state :=
    match c with
    | KCountInit dst values protein => store st dst (glue_count_init values protein)
    | KNormalize dst self pc =>
        match lookup st self with
        | Some (OCount a c) => store st dst (glue_normalize a c pc)
        | _ => (Unbound, unbind st dst)
        end
    | KLogOdds dst self bg base =>
        match lookup st self with
        | Some (OWeight a w) => store st dst (glue_log_odds a w bg base)
        | _ => (Unbound, unbind st dst)
        end
    | KScoringInit dst values bg protein => store st dst (glue_scoring_init values bg protein)
    | KStripe dst sequence protein => store st dst (glue_stripe sequence protein)
    | KCalculate dst self sequence =>
        match lookup st self with
        | Some (OScoring a s) =>
            match sequence with
            | PRef n =>
                match lookup st n with
                | Some (OSeq aq q) =>
                    let (o, q') := glue_calculate a s aq q in
                    store (bind_slot (unbind st n) n (OSeq aq q')) dst o
                | Some _ => store st dst (PyExc TypeError)
                | None => (Unbound, unbind st dst)
                end
            | _ => store st dst (PyExc TypeError)
            end
        | _ => (Unbound, unbind st dst)
        end
    | KThreshold self t =>
        match lookup st self with
        | Some (OScores sc) => (Done (glue_threshold sc t), st)
        | _ => (Unbound, st)
        end
    | KMax self =>
        match lookup st self with
        | Some (OScores sc) => (Done (glue_max sc), st)
        | _ => (Unbound, st)
        end
    | KArgmax self =>
        match lookup st self with
        | Some (OScores sc) => (Done (glue_argmax sc), st)
        | _ => (Unbound, st)
        end
    | KPvalue self x method =>
        match lookup st self with
        | Some (OScoring a s) => (Done (glue_pvalue s x method), st)
        | _ => (Unbound, st)
        end
    | KScore self x method =>
        match lookup st self with
        | Some (OScoring a s) => (Done (glue_score s x method), st)
        | _ => (Unbound, st)
        end
    | KMaxScore self =>
        match lookup st self with
        | Some (OScoring a s) => (Done (glue_max_score s), st)
        | _ => (Unbound, st)
        end
    | KRevcomp dst self =>
        match lookup st self with
        | Some (OScoring a s) => store st dst (glue_revcomp a s)
        | _ => (Unbound, unbind st dst)
        end
    | KScan dst pssm sequence thr bs =>
        (* PyO3 extracts the four arguments in order: pssm, sequence, threshold, block_size *)
        match pssm, sequence with
        | PRef np, PRef nq =>
            match lookup st np, lookup st nq with
            | Some (OScoring a s), Some (OSeq aq q) =>
                match glue_scan_args thr bs with
                | Value (t, b) =>
                    let (o, q') := glue_scan a s aq q t b in
                    store (bind_slot (unbind st nq) nq (OSeq aq q')) dst o
                | PyExc e => store st dst (PyExc e)
                | Panic => store st dst Panic
                end
            | None, _ | _, None => (Unbound, unbind st dst)
            | _, _ => store st dst (PyExc TypeError)
            end
        | PRef np, _ =>
            match lookup st np with
            | None => (Unbound, unbind st dst)
            | Some _ => store st dst (PyExc TypeError)
            end
        | _, PRef nq =>
            match lookup st nq with
            | None => (Unbound, unbind st dst)
            | Some _ => store st dst (PyExc TypeError)
            end
        | _, _ => store st dst (PyExc TypeError)
        end
    | KNext self k =>
        match lookup st self with
        | Some (OScanner hits) =>
            let (r, rest) := glue_next hits k in
            (Done (Value r), bind_slot (unbind st self) self (OScanner rest))
        | _ => (Unbound, st)
        end
    | KCreate dst seqs protein name => store st dst (glue_create seqs protein name)
    | KGetMotif dst self which =>
        match lookup st self with
        | Some (OMotif m) =>
            match motif_part m which with
            | Some o => store st dst (Value o)
            | None => (Unbound, unbind st dst)
            end
        | _ => (Unbound, unbind st dst)
        end
    | KLoad dst file format protein =>
        match glue_load file format protein with
        | Value (RLoad ms t) => (Done (Value (RLoad ms t)), bind_slot (unbind st dst) dst (OLoaded ms))
        | Value (RLoadSeq items) =>
            (Done (Value (RLoadSeq items)),
             bind_slot (unbind st dst) dst
               (OLoaded (flat_map (fun o => match o with Value m => [m] | _ => [] end) items)))
        | Value r => (Done (Value r), unbind st dst)
        | PyExc e => (Done (PyExc e), unbind st dst)
        | Panic => (Done Panic, unbind st dst)
        end
    | KGetLoaded dst self idx which =>
        match lookup st self with
        | Some (OLoaded ms) =>
            match nth_error ms idx with
            | Some m =>
                match motif_part m which with
                | Some o => store st dst (Value o)
                | None => (Unbound, unbind st dst)
                end
            | None => (Unbound, unbind st dst)
            end
        | _ => (Unbound, unbind st dst)
        end
    | KEncode dst sequence protein => store st dst (glue_encode sequence protein)
    | KEncStripe dst self =>
        match lookup st self with
        | Some (OEncoded a s) => store st dst (glue_enc_stripe a s)
        | _ => (Unbound, unbind st dst)
        end
    | KCopy dst self =>
        match lookup st self with
        | Some o => store st dst (glue_copy o)
        | None => (Unbound, unbind st dst)
        end
    | KEq self other =>
        match lookup st self with
        | Some o =>
            match other with
            | PRef n =>
                match lookup st n with
                | Some o' =>
                    match glue_eq o (Some o') with
                    | Some b => (Done (Value (RBool b)), st)
                    | None => (Unbound, st)
                    end
                | None => (Unbound, st)
                end
            | _ =>
                match glue_eq o None with
                | Some b => (Done (Value (RBool b)), st)
                | None => (Unbound, st)
                end
            end
        | None => (Unbound, st)
        end
    | KStr self =>
        match lookup st self with
        | Some (OEncoded a s) => (Done (Value (RStr s)), st)
        | _ => (Unbound, st)
        end
    | KDist dst self =>
        match lookup st self with
        | Some (OScoring a s) => store st dst (glue_dist s)
        | _ => (Unbound, unbind st dst)
        end
    | KFileNew dst => store st dst (Value OFile)
    | KLoaderNew dst file format protein =>
        match lookup st file with
        | Some OFile => store st dst (glue_loader_new dst format protein)
        | _ => (Unbound, unbind st dst)
        end
    | KLoaderNext self k =>
        match lookup st self with
        | Some (OLoader a id calls) =>
            let (items, calls') := lazy_take a id calls k in
            (Done (Value (RLoadSeq items)), bind_slot (unbind st self) self (OLoader a id calls'))
        | _ => (Unbound, st)
        end
    | KDelete self =>
        (* objects derived earlier (scanners, scores, matrices taken from a motif) own or keep alive
           what they need: dropping a name changes nothing for them *)
        match lookup st self with
        | Some _ => (Done (Value RUnit), unbind st self)
        | None => (Unbound, st)
        end
    end.

  Fixpoint run_history (st : state) (cs : list call) : list step :=
    match cs with
    | [] => []
    | c :: r => let (o, st') := run_call st c in o :: run_history st' r
    end.

  (* ---------------------------------------------------------------- the property, executable *)

  (* What C17 demands of one observed outcome [obs], given the outcome [want] that the core
     library prescribes for the same data (computed by the glue model over the core results):
     never a PanicException; the same value where the core gives one; an ordinary exception
     where one is due.  Where the core library itself panics on the data, no value is
     prescribed (that defect belongs to the property of the core operation), but a panic
     crossing into Python is still not an "ordinary exception". *)
  Definition check_C17 {A} (eqv : A -> A -> bool) (want obs : outcome A) : bool :=
    match obs with
    | Panic => false
    | Value o => match want with Value v => eqv v o | PyExc _ => false | Panic => true end
    | PyExc _ => match want with Value _ => false | PyExc _ => true | Panic => true end
    end.

  (* exact agreement (also the kind of exception): used for the model = implementation verdict *)
  Definition exc_eqb (a b : exc) : bool :=
    match a, b with
    | ValueError, ValueError | TypeError, TypeError | OverflowError, OverflowError
    | RuntimeError, RuntimeError | OSError, OSError | UnicodeError, UnicodeError
    | AttributeError, AttributeError | NameError, NameError | KeyError, KeyError => true
    | _, _ => false
    end.

  Definition same_outcome {A} (eqv : A -> A -> bool) (want obs : outcome A) : bool :=
    match want, obs with
    | Value v, Value o => eqv v o
    | PyExc a, PyExc b => exc_eqb a b
    | Panic, Panic => true
    | _, _ => false
    end.

End Glue.

(* implicit type parameters outside the section *)
Arguments c_count_new {CM FM WM SM SQ SC} _.
Arguments c_encode_ok {CM FM WM SM SQ SC} _.
Arguments c_from_seqs {CM FM WM SM SQ SC} _.
Arguments c_to_freq {CM FM WM SM SQ SC} _.
Arguments c_to_weight {CM FM WM SM SQ SC} _.
Arguments c_bg_uniform {CM FM WM SM SQ SC} _.
Arguments c_bg_new {CM FM WM SM SQ SC} _.
Arguments c_w_bg {CM FM WM SM SQ SC} _.
Arguments c_rescale {CM FM WM SM SQ SC} _.
Arguments c_to_scoring_base {CM FM WM SM SQ SC} _.
Arguments c_scoring_new {CM FM WM SM SQ SC} _.
Arguments c_revcomp {CM FM WM SM SQ SC} _.
Arguments c_max_score {CM FM WM SM SQ SC} _.
Arguments c_sm_cells {CM FM WM SM SQ SC} _.
Arguments c_cm_eq {CM FM WM SM SQ SC} _.
Arguments c_wm_eq {CM FM WM SM SQ SC} _.
Arguments c_sm_eq {CM FM WM SM SQ SC} _.
Arguments c_dist_sf {CM FM WM SM SQ SC} _.
Arguments c_stripe {CM FM WM SM SQ SC} _.
Arguments c_configure {CM FM WM SM SQ SC} _.
Arguments c_score {CM FM WM SM SQ SC} _.
Arguments c_threshold {CM FM WM SM SQ SC} _.
Arguments c_max {CM FM WM SM SQ SC} _.
Arguments c_argmax {CM FM WM SM SQ SC} _.
Arguments c_dist_pvalue {CM FM WM SM SQ SC} _.
Arguments c_dist_score {CM FM WM SM SQ SC} _.
Arguments c_tfm_pvalue {CM FM WM SM SQ SC} _.
Arguments c_tfm_score {CM FM WM SM SQ SC} _.
Arguments c_scan {CM FM WM SM SQ SC} _.
Arguments c_read {CM FM WM SM SQ SC} _.
Arguments c_read_faulty {CM FM WM SM SQ SC} _.
Arguments c_lazy_next {CM FM WM SM SQ SC} _.
Arguments glue_background {CM FM WM SM SQ SC} K.
Arguments glue_count_init {CM FM WM SM SQ SC} K.
Arguments glue_normalize {CM FM WM SM SQ SC} K.
Arguments glue_log_odds {CM FM WM SM SQ SC} K.
Arguments glue_scoring_init {CM FM WM SM SQ SC} K.
Arguments glue_stripe {CM FM WM SM SQ SC} K.
Arguments glue_calculate {CM FM WM SM SQ SC} K.
Arguments glue_threshold {CM FM WM SM SQ SC} K.
Arguments glue_max {CM FM WM SM SQ SC} K.
Arguments glue_argmax {CM FM WM SM SQ SC} K.
Arguments glue_pvalue {CM FM WM SM SQ SC} K.
Arguments glue_score {CM FM WM SM SQ SC} K.
Arguments glue_max_score {CM FM WM SM SQ SC} K.
Arguments glue_revcomp {CM FM WM SM SQ SC} K.
Arguments glue_scan {CM FM WM SM SQ SC} K.
Arguments motif_from_counts {CM FM WM SM SQ SC} K.
Arguments motif_from_freq {CM FM WM SM SQ SC} K.
Arguments create_loop {CM FM WM SM SQ SC} K.
Arguments glue_create {CM FM WM SM SQ SC} K.
Arguments convert_record {CM FM WM SM SQ SC} K.
Arguments load_items {CM FM WM SM SQ SC} K.
Arguments glue_load {CM FM WM SM SQ SC} K.
Arguments item_outcome {CM FM WM SM SQ SC} K.
Arguments faulty_items {CM FM WM SM SQ SC} K.
Arguments run_call {CM FM WM SM SQ SC} K.
Arguments run_history {CM FM WM SM SQ SC} K.
Arguments glue_encode {CM FM WM SM SQ SC} K.
Arguments glue_enc_stripe {CM FM WM SM SQ SC} K.
Arguments glue_eq {CM FM WM SM SQ SC} K.
Arguments glue_dist {CM FM WM SM SQ SC} K.
Arguments lazy_take {CM FM WM SM SQ SC} K.
