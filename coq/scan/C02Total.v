(* Property C02, additions of round 3 / wave 3 (independent review, notes/review-round3.md):

   (A) "without panicking for every sequence length ... and for thresholds at or below the
       minimum": totality of next / take / iteration to exhaustion under the LAYOUT hypotheses
       only - no hypothesis on the 8-bit pre-filter (C08), hence also for ill-conditioned
       matrices (known finding F14), where hits can be lost but nothing panics or hangs.
       Abstract (C02_scan_total) and for the extracted binary32 scanner (C02_concrete_total).
   (B) `usize` made explicit (ScanWord.v): the scanner with word-size arithmetic and a
       checked / wrapping / saturating `+` IS ScanModel's scanner for every block size
       1 <= B < 2^64 set before the first call (C02_word_scanner_eq, C02_word_scan_complete),
       and after setters called between calls for new block sizes B' <= 2^64 - R
       (C02_word_setters_between_calls_sound).  Beyond that bound the statement "ANY new
       block size" of C02_setters_between_calls_sound is FALSE of the code:
       C02_word_setters_any_block_size_refuted (B' = usize::MAX after one call of next():
       panic in a build with overflow checks, duplicate hits without; reproduced on the
       real code, notes/scan.md finding F-scan-ovf; with `saturating_add` the answer is right).
   (C) the take(k) judgement of the driver as an extracted checker with a soundness theorem
       (C02_check_take_sound) and the precondition gate of the panic verdicts (pre_ok). *)
From Coq Require Import List Arith Bool Lia Permutation NArith ZArith.
From LMBase Require Import Res ListX IEEE.
From LMScan Require Import ScanModel ScanLemmas ScanProofs ScanCheck CheckProofs ScanConcrete F32Order
     ConcreteProofs ScanSwitch SwitchProofs TotalProofs ScanWord WordProofs SatProofs GenScan WordSource ScanCheck2 Check2Proofs C02.
Import ListNotations.

(* ---------- (A) totality without the numeric hypothesis ---------- *)

(* For every block size B >= 1, every R, C, Lm <= R*C and every threshold: whatever byte
   scores the pre-filter sees (dscore is arbitrary, nothing relates it to score), every
   call of next() from every scanner state returns, so does take(k), and iteration to
   exhaustion returns within Lm + 1 calls; what it returns is sound (C02_scan_sound). *)
Theorem C02_scan_total :
  forall (T : Type) (geb : T -> T -> bool) (is_nan : T -> bool) (scale : T -> nat)
         (score_position : nat -> res T) (score_rows : nat -> nat -> res dmatrix)
         (R Lm B : nat) (thr : T) (C : nat) (score : nat -> T) (dscore : nat -> nat),
    1 <= B ->
    Lm <= R * C ->
    (forall i, i < Lm -> score_position i = Ok (score i)) ->
    (forall a e, a <= e -> e <= R -> score_rows a e = Ok (block_spec R Lm C dscore a e)) ->
    (forall i, i < Lm -> geb (score i) thr = true -> is_nan (score i) = false) ->
    forall fuel, Lm < fuel ->
    exists H : list (nat * T),
      collect geb is_nan scale score_position score_rows R Lm B thr fuel init = Ok H /\
      Forall (fun h => fst h < Lm /\ snd h = score (fst h) /\ geb (snd h) thr = true) H /\
      NoDup (map fst H).
Proof.
  intros T geb is_nan scale score_position score_rows R Lm B thr C score dscore HB HLm Hpos Hrows Hnan fuel Hf.
  assert (Hlen : forall a e m, a <= e -> e <= R -> score_rows a e = Ok m -> length m <= e - a).
  { intros a e m Ha He E. rewrite (Hrows a e Ha He) in E. inversion E; subst. apply block_spec_length. }
  destruct (collect_total geb is_nan scale score_position score_rows R Lm B thr Hlen C score dscore
              HB HLm Hpos Hrows Hnan fuel init [] (Inv_init geb score_position R Lm thr)) as (H & Hc).
  { simpl. lia. }
  exists H. split; [exact Hc|].
  destruct (C02_scan_sound T geb is_nan scale score_position score_rows R Lm B thr Hlen fuel H Hc) as (Hg & Hn).
  split; [|exact Hn].
  eapply Forall_impl; [|exact Hg]. intros h (A & E & G). split; [exact A|]. split; [|exact G].
  rewrite (Hpos _ A) in E. now inversion E.
Qed.

(* The extracted binary32 scanner (every arm): for every well-formed input (C >= 1 columns,
   non-empty motif, symbols below K, wrap >= M-1), ANY matrix cells (ill-conditioned,
   infinite, NaN wildcard column ...) provided Scanner::new succeeded (c_env = Ok),
   every block size >= 1 and every threshold (NaN included): next() returns from every
   state, take(k) returns, iteration to exhaustion returns and what it yields is sound. *)
Theorem C02_concrete_total :
  forall (K C : nat) (pssm : list (list F32.t)) (sq : list nat) (wrap : nat) (v : cenv)
         (am : arm) (thr : F32.t) (B : nat),
    wf_input K C pssm sq wrap ->
    c_env K C pssm sq wrap = Ok v ->
    1 <= B ->
    (forall s, exists r s',
        next F32.ge F32.is_nan (ce_scale v) (ce_score_position v) (ce_score_rows v am)
             (ce_R v) (ce_Lm v) B thr s = Ok (r, s')) /\
    (forall k, exists H, ce_take v am thr B k = Ok H) /\
    exists H : list (nat * F32.t),
      ce_collect v am thr B = Ok H /\
      Forall (fun h => fst h < ce_Lm v /\ snd h = cscore v (fst h) /\ F32.ge (snd h) thr = true) H /\
      NoDup (map fst H).
Proof.
  intros K C pssm sq wrap v am thr B Hwf Henv HB.
  pose proof (env_Lm_le K C pssm sq wrap v Hwf Henv) as HLm.
  pose proof (env_score_position K C pssm sq wrap v Hwf Henv) as Hpos.
  pose proof (env_score_rows K C pssm sq wrap v Hwf Henv am) as Hrows.
  assert (Hnan : forall i, i < ce_Lm v -> F32.ge (cscore v i) thr = true -> F32.is_nan (cscore v i) = false)
    by (intros i _ Hg; exact (proj1 (F32_ge_nan _ _ Hg))).
  destruct (C02_next_total F32.t F32.ge F32.is_nan (ce_scale v) (ce_score_position v) (ce_score_rows v am)
              (ce_R v) (ce_Lm v) B thr (ce_C v) (cscore v) (cdscore v) HB HLm Hpos Hrows Hnan) as (Hn & Ht).
  split; [exact Hn|]. split.
  - intros k. destruct (Ht k init) as (H & s' & E). exists H. unfold ce_take. rewrite E. reflexivity.
  - apply (C02_scan_total F32.t F32.ge F32.is_nan (ce_scale v) (ce_score_position v) (ce_score_rows v am)
             (ce_R v) (ce_Lm v) B thr (ce_C v) (cscore v) (cdscore v) HB HLm Hpos Hrows Hnan (ce_fuel v)).
    unfold ce_fuel. lia.
Qed.

(* ---------- (B) usize arithmetic ---------- *)

(* A scanner whose block size is set before the first call: with W the word size, any
   1 <= B < W (usize::MAX included) and 2 * R <= W (a matrix that fits in memory), the
   word-level scanner - in a build with overflow checks, without, or with the proposed
   saturating add - is ScanModel's scanner: same hits in the same order, same panics, for
   take(k), iteration to exhaustion and k x next() followed by max(). *)
Theorem C02_word_scanner_eq :
  forall (T : Type) (geb gtb eqb : T -> T -> bool) (is_nan : T -> bool) (scale : T -> nat)
         (score_position : nat -> res T) (score_rows : nat -> nat -> res dmatrix)
         (R Lm : nat) (mo : ovf) (W : N) (B : nat) (thr : T),
    (N.of_nat B < W)%N -> (N.of_nat (2 * R) <= W)%N ->
    (forall fuel,
        wcollect geb is_nan scale score_position score_rows R Lm mo W (N.of_nat B) thr fuel winit
        = collect geb is_nan scale score_position score_rows R Lm B thr fuel init) /\
    (forall k,
        rmap fst (wtake_k geb is_nan scale score_position score_rows R Lm mo W (N.of_nat B) thr k winit)
        = rmap fst (take_k geb is_nan scale score_position score_rows R Lm B thr k init)) /\
    (forall k,
        (r <- wtake_k geb is_nan scale score_position score_rows R Lm mo W (N.of_nat B) thr k winit ;;
         wsmax geb gtb eqb is_nan scale score_position score_rows R Lm mo W (N.of_nat B) thr (snd r))
        = max_after geb gtb eqb is_nan scale score_position score_rows R Lm B thr k).
Proof.
  intros T geb gtb eqb is_nan scale score_position score_rows R Lm mo W B thr HB HR.
  split; [|split].
  - intros fuel. exact (wcollect_fresh_eq geb is_nan scale score_position score_rows R Lm mo W B thr fuel HB HR).
  - intros k. rewrite (wtake_k_fresh_eq geb is_nan scale score_position score_rows R Lm mo W B thr k HB HR).
    destruct (take_k geb is_nan scale score_position score_rows R Lm B thr k init) as [[Y s]| | |]; reflexivity.
  - intros k. exact (wmax_after_fresh_eq geb gtb eqb is_nan scale score_position score_rows R Lm mo W B thr k HB HR).
Qed.

(* hence C02 for the word-level scanner, for every usize block size >= 1 *)
Theorem C02_word_scan_complete :
  forall (T : Type) (geb : T -> T -> bool) (is_nan : T -> bool) (scale : T -> nat)
         (score_position : nat -> res T) (score_rows : nat -> nat -> res dmatrix)
         (R Lm : nat) (mo : ovf) (W : N) (B : nat) (thr : T) (C : nat) (score : nat -> T) (dscore : nat -> nat),
    1 <= B -> (N.of_nat B < W)%N -> (N.of_nat (2 * R) <= W)%N ->
    Lm <= R * C ->
    (forall i, i < Lm -> score_position i = Ok (score i)) ->
    (forall a e, a <= e -> e <= R -> score_rows a e = Ok (block_spec R Lm C dscore a e)) ->
    (forall i, i < Lm -> geb (score i) thr = true -> is_nan (score i) = false) ->
    (forall i, i < Lm -> geb (score i) thr = true -> scale thr <= dscore i) ->
    forall fuel, Lm < fuel ->
    exists H : list (nat * T),
      wcollect geb is_nan scale score_position score_rows R Lm mo W (N.of_nat B) thr fuel winit = Ok H /\
      (forall i x, In (i, x) H <-> i < Lm /\ geb (score i) thr = true /\ x = score i) /\
      NoDup (map fst H).
Proof.
  intros T geb is_nan scale score_position score_rows R Lm mo W B thr C score dscore
         HB HBW HR HLm Hpos Hrows Hnan Hcons fuel Hf.
  destruct (C02_scan_complete T geb is_nan scale score_position score_rows R Lm B thr C score dscore
              HB HLm Hpos Hrows Hnan Hcons fuel Hf) as (H & Hc & Hin & Hnd & _).
  exists H. split; [|split; [exact Hin|exact Hnd]].
  rewrite (wcollect_fresh_eq geb is_nan scale score_position score_rows R Lm mo W B thr fuel HBW HR). exact Hc.
Qed.

(* Setters between calls, with the bound the code needs: after k calls of next() under
   (thr, B), lowering or keeping the threshold and a new block size B' with R + B' <= W:
   the k hits Y meet thr, all hits Y ++ H meet thr', all positions are distinct - in every
   overflow mode.  (This replaces the reading "ANY B'" of C02_setters_between_calls_sound,
   which is a statement about the nat-level model only.) *)
Theorem C02_word_setters_between_calls_sound :
  forall (T : Type) (geb : T -> T -> bool) (is_nan : T -> bool) (scale : T -> nat)
         (score_position : nat -> res T) (score_rows : nat -> nat -> res dmatrix)
         (R Lm : nat) (mo : ovf) (W : N) (B B' : nat) (thr thr' : T) (k fuel : nat) (Y H : list (nat * T)),
    (forall a e m, a <= e -> e <= R -> score_rows a e = Ok m -> length m <= e - a) ->
    (forall x, geb x thr = true -> geb x thr' = true) ->
    (N.of_nat B < W)%N -> (N.of_nat (2 * R) <= W)%N -> (N.of_nat (R + B') <= W)%N ->
    wswitch_collect geb is_nan scale score_position score_rows R Lm mo W (N.of_nat B) thr k (N.of_nat B') thr' fuel
      = Ok (Y, H) ->
    Forall (fun h => fst h < Lm /\ score_position (fst h) = Ok (snd h) /\ geb (snd h) thr = true) Y /\
    Forall (fun h => fst h < Lm /\ score_position (fst h) = Ok (snd h) /\ geb (snd h) thr' = true) (Y ++ H) /\
    NoDup (map fst (Y ++ H)).
Proof.
  intros T geb is_nan scale score_position score_rows R Lm mo W B B' thr thr' k fuel Y H Hlen Hle HB HR HB' Hs.
  rewrite (wswitch_collect_eq geb is_nan scale score_position score_rows R Lm mo W B thr k B' thr' fuel HB HR HB') in Hs.
  exact (C02_setters_between_calls_sound T geb is_nan scale score_position score_rows R Lm B B' thr thr' k fuel Y H Hlen Hle Hs).
Qed.

(* ... and the bound is needed.  Toy instance of C02.v (R = 4 rows, 10 positions, thr 7,
   block size 1), one call of next() (row is then 2, two hits buffered), then
   block_size(usize::MAX), threshold unchanged, iteration to exhaustion:
     overflow checks:  the two buffered hits, then `self.row + self.block_size` panics;
     wrapping:         row 2 -> 1 -> 0 through two empty row ranges, then rows 0..4 are scanned
                       AGAIN: positions 9, 5 and 1 are yielded twice;
     saturating add:   the answer of the nat-level model (no duplicates, nothing lost). *)
Definition toy_wswitch (mo : ovf) (B' : N) : res (list (nat * nat) * list (nat * nat)) :=
  wswitch_collect Toy.geb Toy.is_nan Toy.scale Toy.score_position (Toy.score_rows 4) 4 Toy.Lm
                  mo W64 1%N 7 1 B' 7 30.

Theorem C02_word_setters_any_block_size_refuted :
  exists B' : N, (1 <= B' < W64)%N /\
    toy_wswitch Checked B' = Panic 40 /\
    (exists Y H, toy_wswitch Wrapping B' = Ok (Y, H) /\ ~ NoDup (map fst (Y ++ H))) /\
    toy_wswitch Saturating B'
    = switch_collect Toy.geb Toy.is_nan Toy.scale Toy.score_position (Toy.score_rows 4) 4 Toy.Lm 1 7 1 256 7 30.
Proof.
  exists (W64 - 1)%N. split; [vm_compute; split; [discriminate|reflexivity]|].
  split; [vm_compute; reflexivity|]. split.
  - exists [(9, 7)], [(5, 9); (1, 9); (7, 8); (3, 7); (9, 7); (5, 9); (1, 9)].
    split; [vm_compute; reflexivity|].
    simpl. intros Hn. inversion Hn as [|x l Hnotin _]; subst. apply Hnotin. simpl. tauto.
  - vm_compute. reflexivity.
Qed.

(* The PROPOSED repair (notes/scan.md, finding F-scan-ovf): with
   `self.row.saturating_add(self.block_size)` at the four additions (mode Saturating) the
   word-level scanner is ScanModel's scanner for EVERY pair of block sizes - no bound on B or
   B' is left, only R < W -, so C02_setters_between_calls_sound then holds of the code as it
   reads: ANY new block size. *)
Theorem C02_word_saturating_setters_sound :
  forall (T : Type) (geb : T -> T -> bool) (is_nan : T -> bool) (scale : T -> nat)
         (score_position : nat -> res T) (score_rows : nat -> nat -> res dmatrix)
         (R Lm : nat) (W : N) (B B' : nat) (thr thr' : T) (k fuel : nat) (Y H : list (nat * T)),
    (N.of_nat R < W)%N ->
    (forall a e m, a <= e -> e <= R -> score_rows a e = Ok m -> length m <= e - a) ->
    (forall x, geb x thr = true -> geb x thr' = true) ->
    wswitch_collect geb is_nan scale score_position score_rows R Lm Saturating W (N.of_nat B) thr k (N.of_nat B') thr' fuel
      = Ok (Y, H) ->
    Forall (fun h => fst h < Lm /\ score_position (fst h) = Ok (snd h) /\ geb (snd h) thr = true) Y /\
    Forall (fun h => fst h < Lm /\ score_position (fst h) = Ok (snd h) /\ geb (snd h) thr' = true) (Y ++ H) /\
    NoDup (map fst (Y ++ H)).
Proof.
  intros T geb is_nan scale score_position score_rows R Lm W B B' thr thr' k fuel Y H HR Hlen Hle Hs.
  rewrite (sat_switch_collect_eq geb is_nan scale score_position score_rows R Lm W HR B thr k B' thr' fuel) in Hs.
  exact (C02_setters_between_calls_sound T geb is_nan scale score_position score_rows R Lm B B' thr thr' k fuel Y H Hlen Hle Hs).
Qed.

(* and the repaired scanner is ScanModel's scanner for every block size set before the first
   call (no `B < W`, no `2R <= W` needed) *)
Theorem C02_word_saturating_scanner_eq :
  forall (T : Type) (geb : T -> T -> bool) (is_nan : T -> bool) (scale : T -> nat)
         (score_position : nat -> res T) (score_rows : nat -> nat -> res dmatrix)
         (R Lm : nat) (W : N) (B : nat) (thr : T) (fuel : nat),
    (N.of_nat R < W)%N ->
    wcollect geb is_nan scale score_position score_rows R Lm Saturating W (N.of_nat B) thr fuel winit
    = collect geb is_nan scale score_position score_rows R Lm B thr fuel init.
Proof.
  intros T geb is_nan scale score_position score_rows R Lm W B thr fuel HR.
  exact (sat_collect_sim geb is_nan scale score_position score_rows R Lm W HR B thr fuel init winit
           (rel_init R)).
Qed.

(* The statement the driver's replay stands for, at the overflow behaviour READ FROM THE SOURCE
   (translate/scan_skel.py -> GenScan.gen_row_add_saturating) in either build profile: setters
   between calls are sound for new block sizes up to 2^64 - R as long as scan.rs adds with `+`,
   and for ANY new block size once it adds with `saturating_add` (the bound then drops out:
   this theorem and its proof survive the repair unchanged). *)
Theorem C02_source_setters_between_calls_sound :
  forall (T : Type) (geb : T -> T -> bool) (is_nan : T -> bool) (scale : T -> nat)
         (score_position : nat -> res T) (score_rows : nat -> nat -> res dmatrix)
         (R Lm : nat) (overflow_checks : bool) (W : N) (B B' : nat) (thr thr' : T) (k fuel : nat)
         (Y H : list (nat * T)),
    (forall a e m, a <= e -> e <= R -> score_rows a e = Ok m -> length m <= e - a) ->
    (forall x, geb x thr = true -> geb x thr' = true) ->
    (N.of_nat B < W)%N -> (N.of_nat (2 * R) <= W)%N ->
    (gen_row_add_saturating = true \/ (N.of_nat (R + B') <= W)%N) ->
    wswitch_collect geb is_nan scale score_position score_rows R Lm (gen_ovf overflow_checks) W
                    (N.of_nat B) thr k (N.of_nat B') thr' fuel = Ok (Y, H) ->
    Forall (fun h => fst h < Lm /\ score_position (fst h) = Ok (snd h) /\ geb (snd h) thr = true) Y /\
    Forall (fun h => fst h < Lm /\ score_position (fst h) = Ok (snd h) /\ geb (snd h) thr' = true) (Y ++ H) /\
    NoDup (map fst (Y ++ H)).
Proof.
  intros T geb is_nan scale score_position score_rows R Lm checks W B B' thr thr' k fuel Y H Hlen Hle HB HR Hor.
  unfold gen_ovf. destruct gen_row_add_saturating eqn:E.
  - assert (HRW : (N.of_nat R < W)%N) by lia.
    exact (C02_word_saturating_setters_sound T geb is_nan scale score_position score_rows R Lm W B B' thr thr' k fuel Y H
             HRW Hlen Hle).
  - destruct Hor as [Habs|HB']; [discriminate|].
    exact (C02_word_setters_between_calls_sound T geb is_nan scale score_position score_rows R Lm
             (if checks then Checked else Wrapping) W B B' thr thr' k fuel Y H Hlen Hle HB HR HB').
Qed.

(* ---------- (C) extracted judges of the driver ---------- *)

(* take(k): the checker the driver evaluates on the hits returned by `scanner.take(k)`
   (implementation's own scores).  true => exactly min(k, number of qualifying positions)
   hits, no position twice, every hit is a qualifying position with its exact score bits. *)
Theorem C02_check_take_sound :
  forall (scores : list Z) (thr : Z) (k : nat) (hits : list (Z * Z)),
    check_take scores thr k hits = true ->
    length hits = Nat.min k (length (qual scores thr)) /\
    NoDup (map fst hits) /\
    (forall i s, In (i, s) hits ->
                 (0 <= i)%Z /\ nth_error scores (Z.to_nat i) = Some s /\
                 F32.ge (F32.of_bits s) (F32.of_bits thr) = true).
Proof.
  intros scores thr k hits H.
  destruct (check_take_sound scores thr k hits H) as (Hl & Hn & Hi).
  split; [exact Hl|]. split; [exact Hn|].
  intros i s Hin. apply in_qual. apply Hi. exact Hin.
Qed.

(* and it raises no false alarm *)
Theorem C02_check_take_complete :
  forall (scores : list Z) (thr : Z) (k : nat) (hits : list (Z * Z)),
    length hits = Nat.min k (length (qual scores thr)) ->
    NoDup (map fst hits) ->
    (forall h, In h hits -> In h (qual scores thr)) ->
    check_take scores thr k hits = true.
Proof. exact check_take_complete. Qed.

(* the gate of the "panic => PROPFAIL" verdicts: pre_ok is true exactly on the inputs the
   property quantifies over as far as the scanner is concerned (configured sequence, motif
   of >= 1 rows, block size >= 1, no NaN among the non-wildcard cells) *)
Theorem C02_pre_ok_spec :
  forall (K M wrap : nat) (bpos : bool) (pssm : list (list Z)),
    pre_ok K M wrap bpos pssm = true <->
    1 <= M /\ M - 1 <= wrap /\ bpos = true /\
    (forall row x, In row pssm -> In x (firstn (K - 1) row) -> F32.is_nan (F32.of_bits x) = false).
Proof. exact pre_ok_spec. Qed.

(* `sw=` observations (setters between calls), judged by the extracted check_sw: true => no
   position twice; the hits of the first k calls are qualifying positions for thr with exact
   score bits; the later ones qualify for thr or for thr2; every position that meets BOTH
   thresholds was yielded.  (A weak property of our own: the property text fixes the
   parameters before iteration.) *)
Theorem C02_check_sw_sound :
  forall (scores : list Z) (thr thr2 : Z) (before after : list (Z * Z)),
    check_sw scores thr thr2 before after = true ->
    NoDup (map fst (before ++ after)) /\
    (forall h, In h before -> In h (qual scores thr)) /\
    (forall h, In h after -> In h (qual scores thr) \/ In h (qual scores thr2)) /\
    (forall q, In q (qual scores thr) -> bits_ge (snd q) thr2 = true -> In q (before ++ after)).
Proof. exact check_sw_sound. Qed.

Check C02_concrete_total :
  forall (K C : nat) (pssm : list (list F32.t)) (sq : list nat) (wrap : nat) (v : cenv)
         (am : arm) (thr : F32.t) (B : nat),
    wf_input K C pssm sq wrap ->
    c_env K C pssm sq wrap = Ok v ->
    1 <= B ->
    (forall s, exists r s',
        next F32.ge F32.is_nan (ce_scale v) (ce_score_position v) (ce_score_rows v am)
             (ce_R v) (ce_Lm v) B thr s = Ok (r, s')) /\
    (forall k, exists H, ce_take v am thr B k = Ok H) /\
    exists H : list (nat * F32.t),
      ce_collect v am thr B = Ok H /\
      Forall (fun h => fst h < ce_Lm v /\ snd h = cscore v (fst h) /\ F32.ge (snd h) thr = true) H /\
      NoDup (map fst H).

(* non-vacuity of C02_concrete_total's use on an ill-conditioned input is the corpus case
   ill1 (known finding F14): the hit is lost, nothing panics.  On the toy instance with a
   pre-filter that is NOT conservative (byte scores all 0) the hypotheses of C02_scan_total
   hold and its conclusion is the empty - sound, incomplete - list: *)
Example C02_scan_total_nonvacuous :
  collect Toy.geb Toy.is_nan Toy.scale Toy.score_position
          (fun a e => Ok (block_spec 4 Toy.Lm 3 (fun _ => 0) a e)) 4 Toy.Lm 2 7 11 init = Ok [].
Proof. vm_compute. reflexivity. Qed.
