(* Soundness / completeness of the judges of ScanCheck2.v. *)
From Coq Require Import List ZArith NArith Bool Arith Lia.
From LMBase Require Import IEEE.
From LMScan Require Import ScanCheck CheckProofs ScanCheck2.
Import ListNotations.

Lemma nodupb_sound : forall l, nodupb l = true -> NoDup l.
Proof.
  induction l as [|x r IH]; simpl; intros H; [constructor|].
  apply andb_prop in H. destruct H as (H1 & H2). constructor; [|auto].
  intros Hin. apply negb_true_iff in H1.
  assert (existsb (Z.eqb x) r = true) by (apply existsb_exists; exists x; split; [auto|apply Z.eqb_refl]).
  congruence.
Qed.

Lemma nodupb_complete : forall l, NoDup l -> nodupb l = true.
Proof.
  induction l as [|x r IH]; simpl; intros H; [reflexivity|].
  inversion H as [|? ? Hn Hr]; subst. rewrite (IH Hr), andb_true_r. apply negb_true_iff.
  destruct (existsb (Z.eqb x) r) eqn:E; [|reflexivity].
  apply existsb_exists in E. destruct E as (y & Hy & Ey). apply Z.eqb_eq in Ey. subst. contradiction.
Qed.

Lemma check_take_sound scores thr k hits :
  check_take scores thr k hits = true ->
  length hits = Nat.min k (length (qual scores thr)) /\
  NoDup (map fst hits) /\
  (forall h, In h hits -> In h (qual scores thr)).
Proof.
  unfold check_take. intros H.
  apply andb_prop in H. destruct H as (H & H3). apply andb_prop in H. destruct H as (H1 & H2).
  split; [now apply Nat.eqb_eq|]. split; [now apply nodupb_sound|].
  intros h Hh. rewrite forallb_forall in H3. specialize (H3 h Hh).
  apply existsb_exists in H3. destruct H3 as (q & Hq & E). apply zhit_eqb_eq in E. now subst.
Qed.

Lemma check_take_complete scores thr k hits :
  length hits = Nat.min k (length (qual scores thr)) ->
  NoDup (map fst hits) ->
  (forall h, In h hits -> In h (qual scores thr)) ->
  check_take scores thr k hits = true.
Proof.
  intros H1 H2 H3. unfold check_take.
  apply andb_true_intro. split; [apply andb_true_intro; split|].
  - now apply Nat.eqb_eq.
  - now apply nodupb_complete.
  - apply forallb_forall. intros h Hh. apply existsb_exists. exists h. split; [auto|apply zhit_eqb_refl].
Qed.

Lemma pre_ok_spec (K M wrap : nat) (bpos : bool) (pssm : list (list Z)) :
  pre_ok K M wrap bpos pssm = true <->
  1 <= M /\ M - 1 <= wrap /\ bpos = true /\
  (forall row x, In row pssm -> In x (firstn (K - 1) row) -> F32.is_nan (F32.of_bits x) = false).
Proof.
  unfold pre_ok. rewrite !andb_true_iff, !Nat.leb_le, forallb_forall. split.
  - intros (((A & B) & C) & D). repeat split; auto.
    intros row x Hr Hx. specialize (D row Hr). rewrite forallb_forall in D.
    specialize (D x Hx). now apply negb_true_iff in D.
  - intros (A & B & C & D). repeat split; auto.
    intros row Hr. apply forallb_forall. intros x Hx. apply negb_true_iff. now apply (D row x).
Qed.

Lemma in_hits_In h l : in_hits h l = true <-> In h l.
Proof.
  unfold in_hits. rewrite existsb_exists. split.
  - intros (q & Hq & E). apply zhit_eqb_eq in E. now subst.
  - intros H. exists h. split; [auto|apply zhit_eqb_refl].
Qed.

Lemma check_sw_sound scores thr thr2 before after :
  check_sw scores thr thr2 before after = true ->
  NoDup (map fst (before ++ after)) /\
  (forall h, In h before -> In h (qual scores thr)) /\
  (forall h, In h after -> In h (qual scores thr) \/ In h (qual scores thr2)) /\
  (forall q, In q (qual scores thr) -> bits_ge (snd q) thr2 = true -> In q (before ++ after)).
Proof.
  unfold check_sw. intros H.
  apply andb_prop in H. destruct H as (H & H4). apply andb_prop in H. destruct H as (H & H3).
  apply andb_prop in H. destruct H as (H1 & H2).
  rewrite forallb_forall in H2, H3, H4.
  split; [now apply nodupb_sound|]. split; [|split].
  - intros h Hh. apply in_hits_In. now apply H2.
  - intros h Hh. specialize (H3 h Hh). apply orb_prop in H3. destruct H3 as [E|E]; [left|right]; now apply in_hits_In.
  - intros q Hq Hg. apply in_hits_In. apply H4. apply filter_In. auto.
Qed.

Lemma check_swmax_sound scores thr thr2 consumed result :
  check_swmax scores thr thr2 consumed result = true ->
  match result with
  | None => forall q, In q (qual scores thr) -> bits_ge (snd q) thr2 = true -> In (fst q) consumed
  | Some h =>
      In h (qual scores thr2) /\ ~ In (fst h) consumed /\
      (forall q, In q (qual scores thr) -> bits_ge (snd q) thr2 = true -> ~ In (fst q) consumed ->
                 bits_ge (snd h) (snd q) = true)
  end.
Proof.
  unfold check_swmax. intros H.
  assert (Hstrong : forall q, In q (filter (fun q => bits_ge (snd q) thr2) (remaining scores thr consumed)) <->
                              In q (qual scores thr) /\ ~ In (fst q) consumed /\ bits_ge (snd q) thr2 = true).
  { intros q. rewrite filter_In, in_remaining. tauto. }
  destruct result as [h|].
  - apply andb_prop in H. destruct H as (H & H3). apply andb_prop in H. destruct H as (H1 & H2).
    split; [now apply in_hits_In|]. split.
    + intros Hin. apply negb_true_iff in H2.
      assert (existsb (Z.eqb (fst h)) consumed = true) by (apply existsb_exists; exists (fst h); split; [auto|apply Z.eqb_refl]).
      congruence.
    + intros q Hq Hg Hn. rewrite forallb_forall in H3. apply H3. apply Hstrong. auto.
  - intros q Hq Hg.
    destruct (filter (fun q => bits_ge (snd q) thr2) (remaining scores thr consumed)) as [|x l] eqn:E; [|discriminate].
    destruct (in_dec Z.eq_dec (fst q) consumed) as [Hc|Hc]; [exact Hc|].
    exfalso. apply (proj2 (Hstrong q)). auto.
Qed.

Lemma same_answer_iff (a b : option zhit) : same_answer a b = true <-> a = b.
Proof.
  destruct a as [x|], b as [y|]; simpl; split; intros H; try discriminate; auto.
  - now rewrite (zhit_eqb_eq _ _ H).
  - inversion H; subst. apply zhit_eqb_refl.
Qed.
