(* The concrete binary32 scanner (ScanConcrete.v, the text that is extracted and replayed
   against the implementation) is an instance of the abstract scanner of ScanModel.v that
   meets the layout hypotheses of the theorems of ScanProofs.v / MaxProofs.v: on a
   sequence striped with C >= 1 columns and configured for a non-empty motif
   (wrap >= M-1), with symbols below K and matrix rows of at least K cells,
     - score_position is defined (no panic) at every valid position,
     - score_rows a e, through every dispatcher arm, is the block matrix whose cell
       (r, c) is the saturating byte score of position c*R + a + r (no rows when L < M),
     - Lm <= R*C,
   so that only the two numeric hypotheses (C08 conservativeness, monotonicity of
   scale) remain. *)
From Coq Require Import List Arith Bool ZArith Lia.
From LMBase Require Import Res ListX IEEE.
From LMScan Require Import ScanModel ScanLemmas ScanProofs ScanConcrete.
Import ListNotations.

Definition unres {A} (d : A) (r : res A) : A := match r with Ok y => y | _ => d end.

Lemma rmapM_total {A B} (f : A -> res B) (d : B) (l : list A) :
  (forall x, In x l -> exists y, f x = Ok y) ->
  rmapM f l = Ok (map (fun x => unres d (f x)) l).
Proof.
  induction l as [|a l IH]; intros H; simpl; auto.
  destruct (H a (or_introl eq_refl)) as (y & Hy). rewrite Hy. simpl.
  rewrite IH by (intros x Hx; apply H; now right). simpl. reflexivity.
Qed.

Lemma rmapM_length {A B} (f : A -> res B) (l : list A) : forall ys,
  rmapM f l = Ok ys -> length ys = length l.
Proof.
  induction l as [|a l IH]; intros ys H; simpl in H.
  - inversion H; reflexivity.
  - destruct (f a); simpl in H; try discriminate.
    destruct (rmapM f l) eqn:E; simpl in H; try discriminate.
    inversion H; subst. simpl. f_equal. auto.
Qed.

Lemma nth_error_seq a n r : r < n -> nth_error (seq a n) r = Some (a + r).
Proof.
  intros H. rewrite (nth_error_nth' _ 0) by (rewrite seq_length; lia).
  rewrite seq_nth by lia. reflexivity.
Qed.

Lemma Forall_skipn {A} (P : A -> Prop) n : forall l, Forall P l -> Forall P (skipn n l).
Proof.
  induction n as [|n IH]; intros l H; simpl; auto.
  destruct l; auto. inversion H; auto.
Qed.

Lemma tab_get_map {A} (f : nat -> A) n i : tab_get f (map f (seq 0 n)) i = f i.
Proof.
  unfold tab_get. destruct (Nat.lt_ge_cases i n) as [H|H].
  - rewrite nth_error_map, nth_error_seq by auto. reflexivity.
  - replace (nth_error (map f (seq 0 n)) i) with (@None A); auto.
    symmetry. apply nth_error_None. now rewrite map_length, seq_length.
Qed.

(* ---------- rows of a striped sequence ---------- *)

Lemma seq_rows_cover C L : 1 <= C -> L <= seq_rows C L * C.
Proof.
  intros HC. unfold seq_rows.
  pose proof (Nat.div_mod (L + (C - 1)) C ltac:(lia)) as E.
  pose proof (Nat.mod_upper_bound (L + (C - 1)) C ltac:(lia)) as B.
  nia.
Qed.

Lemma seq_rows_pos C L : 1 <= C -> 1 <= L -> 1 <= seq_rows C L.
Proof.
  intros HC HL. pose proof (seq_rows_cover C L HC). destruct (seq_rows C L); simpl in *; lia.
Qed.

Lemma smatrix_length K C sq wrap : length (smatrix K C sq wrap) = seq_rows C (length sq) + wrap.
Proof. unfold smatrix. now rewrite map_length, seq_length. Qed.

Lemma smatrix_row K C sq wrap r :
  1 <= K -> Forall (fun s => s < K) sq ->
  r < seq_rows C (length sq) + wrap ->
  exists row, nth_error (smatrix K C sq wrap) r = Some row /\ length row = C /\
              Forall (fun s => s < K) row.
Proof.
  intros HK Hs Hr. unfold smatrix. rewrite nth_error_map, nth_error_seq by auto. simpl.
  eexists. split; [reflexivity|]. split.
  - now rewrite !map_length, seq_length.
  - apply Forall_map. apply Forall_map. apply Forall_forall. intros c _.
    apply Forall_nth_default; [now apply Forall_skipn|lia].
Qed.

Lemma row_cell (K C : nat) (row : list nat) c :
  length row = C -> Forall (fun s => s < K) row -> c < C ->
  exists v, nth_error row c = Some v /\ v < K.
Proof.
  intros Hl Hf Hc. exists (nth c row 0). split.
  - apply nth_error_nth'. lia.
  - rewrite Forall_forall in Hf. apply Hf. apply nth_In. lia.
Qed.

(* Index<usize> for StripedSequence does not panic below R*C *)
Lemma seq_index_ok K C sq wrap idx :
  1 <= K -> Forall (fun s => s < K) sq ->
  idx < seq_rows C (length sq) * C ->
  exists v, seq_index (smatrix K C sq wrap) wrap idx = Ok v /\ v < K.
Proof.
  intros HK Hs Hi. unfold seq_index. rewrite smatrix_length.
  replace (seq_rows C (length sq) + wrap - wrap) with (seq_rows C (length sq)) by lia.
  remember (seq_rows C (length sq)) as R eqn:ER.
  destruct R as [|y]; [simpl in Hi; lia|].
  cbv zeta.
  change (fst (Nat.divmod idx y 0 y)) with (idx / S y).
  change (y - snd (Nat.divmod idx y 0 y)) with (idx mod S y).
  assert (Hm : idx mod S y < S y) by (apply Nat.mod_upper_bound; lia).
  assert (Hd : idx / S y < C) by (apply idx_col_lt; exact Hi).
  destruct (smatrix_row K C sq wrap (idx mod S y) HK Hs) as (row & E & Hl & Hf).
  { rewrite <- ER. lia. }
  rewrite E. destruct (row_cell K C row (idx / S y) Hl Hf Hd) as (v & Ev & Hv).
  rewrite Ev. eauto.
Qed.

(* ---------- ScoringMatrix::score_position ---------- *)

Lemma score_pos_from_ok K C sq wrap pos :
  1 <= K -> 1 <= C -> Forall (fun s => s < K) sq ->
  forall rows j acc,
    Forall (fun row : list F32.t => K <= length row) rows ->
    j + length rows + pos <= length sq ->
    exists x, score_pos_from (smatrix K C sq wrap) wrap rows pos j acc = Ok x.
Proof.
  intros HK HC Hs. induction rows as [|prow rest IH]; intros j acc Hr Hb; simpl; [eauto|].
  inversion Hr as [|? ? Hp Hrest]; subst. simpl in Hb.
  destruct (seq_index_ok K C sq wrap (j + pos) HK Hs) as (v & Ev & Hv).
  { pose proof (seq_rows_cover C (length sq) HC). lia. }
  rewrite Ev. simpl.
  destruct (nth_error prow v) as [x|] eqn:En.
  - apply IH; auto. lia.
  - apply nth_error_None in En. lia.
Qed.

(* ---------- u8 scores ---------- *)

Lemma dcell_from_ok (K C : nat) (sm : list (list nat)) :
  (forall r, r < length sm ->
     exists row, nth_error sm r = Some row /\ length row = C /\ Forall (fun s => s < K) row) ->
  forall drows r c acc,
    Forall (fun d : list nat => K <= length d) drows ->
    r + length drows <= length sm -> c < C ->
    exists x, dcell_from sm drows r c acc = Ok x.
Proof.
  intros Hsm. induction drows as [|d rest IH]; intros r c acc Hd Hb Hc; simpl; [eauto|].
  inversion Hd as [|? ? Hd1 Hd2]; subst. simpl in Hb.
  destruct (Hsm r) as (row & E & Hl & Hf); [lia|]. rewrite E.
  destruct (row_cell K C row c Hl Hf Hc) as (v & Ev & Hv). rewrite Ev.
  destruct (nth_error d v) as [x|] eqn:En.
  - apply IH; auto. lia.
  - apply nth_error_None in En. lia.
Qed.

Lemma to_discrete_shape K pssm dm :
  to_discrete K pssm = Ok dm ->
  length (d_data dm) = length pssm /\
  (Forall (fun row : list F32.t => K <= length row) pssm ->
   Forall (fun d : list nat => K <= length d) (d_data dm)).
Proof.
  unfold to_discrete. intros H.
  destruct (rmapM (row_max K) pssm) as [maxs| | |]; simpl in H; try discriminate.
  destruct (rmapM (row_min K) pssm) as [offs| | |] eqn:Eo; simpl in H; try discriminate.
  inversion H; subst; simpl. apply rmapM_length in Eo. split.
  - rewrite map_length, combine_length. lia.
  - intros Hp. apply Forall_map. apply Forall_forall. intros [prow off] Hin.
    apply in_combine_l in Hin. rewrite Forall_forall in Hp. simpl. rewrite map_length. auto.
Qed.

(* ---------- closed forms: the scores in terms of the sequence ---------- *)

(* the cells a window starting at position i selects: row j of the matrix at the symbol
   s[i+j] (the wildcard K-1 past the end of the sequence) *)
Definition window_cells {A} (d : A) (K : nat) (sq : list nat) (rows : list (list A)) (i : nat) : list A :=
  map (fun jr => nth (nth (i + fst jr) sq (K - 1)) (snd jr) d) (combine (seq 0 (length rows)) rows).

(* ScoringMatrix::score_position: left-to-right f32 sum from +0.0 (the value property C01
   speaks of); DiscreteMatrix::score_position / every u8 kernel: saturating sum *)
Definition score_def (K : nat) (sq : list nat) (pssm : list (list F32.t)) (i : nat) : F32.t :=
  fold_left F32.add (window_cells F32.zero K sq pssm i) F32.zero.
Definition dscore_def (K : nat) (sq : list nat) (ddata : list (list nat)) (i : nat) : nat :=
  fold_left sat_add (window_cells 0 K sq ddata i) 0.

Lemma nth_skipn {A} (d : A) : forall n (l : list A) r, nth r (skipn n l) d = nth (n + r) l d.
Proof.
  induction n as [|n IH]; intros l r; simpl; auto.
  destruct l as [|a l]; simpl; auto. destruct r; reflexivity.
Qed.

(* cell (r, c) of the striped matrix (sequence rows and wrap rows alike) holds symbol
   number c*R + r of the sequence, the wildcard past its end *)
Lemma smatrix_cell K C sq wrap r c :
  r < seq_rows C (length sq) + wrap -> c < C ->
  exists row, nth_error (smatrix K C sq wrap) r = Some row /\
              nth_error row c = Some (nth (c * seq_rows C (length sq) + r) sq (K - 1)).
Proof.
  intros Hr Hc. unfold smatrix. rewrite nth_error_map, nth_error_seq by auto. simpl.
  eexists. split; [reflexivity|].
  rewrite !nth_error_map, nth_error_seq by auto. simpl. f_equal. apply nth_skipn.
Qed.

Lemma seq_index_spec K C sq wrap idx :
  idx < seq_rows C (length sq) * C ->
  seq_index (smatrix K C sq wrap) wrap idx = Ok (nth idx sq (K - 1)).
Proof.
  intros Hi. unfold seq_index. rewrite smatrix_length.
  replace (seq_rows C (length sq) + wrap - wrap) with (seq_rows C (length sq)) by lia.
  remember (seq_rows C (length sq)) as R eqn:ER.
  destruct R as [|y]; [simpl in Hi; lia|].
  cbv zeta.
  change (fst (Nat.divmod idx y 0 y)) with (idx / S y).
  change (y - snd (Nat.divmod idx y 0 y)) with (idx mod S y).
  assert (Hm : idx mod S y < S y) by (apply Nat.mod_upper_bound; lia).
  assert (Hd : idx / S y < C) by (apply idx_col_lt; exact Hi).
  destruct (smatrix_cell K C sq wrap (idx mod S y) (idx / S y)) as (row & E & Ec); auto.
  { rewrite <- ER. lia. }
  rewrite E, Ec. rewrite <- ER. f_equal. f_equal. symmetry. apply idx_decomp. lia.
Qed.

Lemma score_pos_from_spec K C sq wrap pos :
  1 <= K -> 1 <= C -> Forall (fun s => s < K) sq ->
  forall rows j acc,
    Forall (fun row : list F32.t => K <= length row) rows ->
    j + length rows + pos <= length sq ->
    score_pos_from (smatrix K C sq wrap) wrap rows pos j acc =
    Ok (fold_left F32.add
          (map (fun jr => nth (nth (pos + fst jr) sq (K - 1)) (snd jr) F32.zero)
               (combine (seq j (length rows)) rows)) acc).
Proof.
  intros HK HC Hs. induction rows as [|prow rest IH]; intros j acc Hr Hb; simpl; [reflexivity|].
  inversion Hr as [|? ? Hp Hrest]; subst. simpl in Hb.
  rewrite seq_index_spec by (pose proof (seq_rows_cover C (length sq) HC); lia). simpl.
  assert (Hsym : nth (j + pos) sq (K - 1) < K) by (apply Forall_nth_default; auto; lia).
  rewrite (nth_error_nth' prow F32.zero) by lia.
  rewrite IH by (auto; lia). rewrite (Nat.add_comm pos j). reflexivity.
Qed.

Lemma dcell_from_spec K C sq wrap c r0 :
  1 <= K -> Forall (fun s => s < K) sq -> c < C ->
  forall drows j acc,
    Forall (fun d : list nat => K <= length d) drows ->
    r0 + j + length drows <= seq_rows C (length sq) + wrap ->
    dcell_from (smatrix K C sq wrap) drows (r0 + j) c acc =
    Ok (fold_left sat_add
          (map (fun jr => nth (nth (c * seq_rows C (length sq) + r0 + fst jr) sq (K - 1)) (snd jr) 0)
               (combine (seq j (length drows)) drows)) acc).
Proof.
  intros HK Hs Hc. induction drows as [|d rest IH]; intros j acc Hd Hb; simpl; [reflexivity|].
  inversion Hd as [|? ? Hd1 Hd2]; subst. simpl in Hb.
  destruct (smatrix_cell K C sq wrap (r0 + j) c) as (row & E & Ec); auto; [lia|].
  rewrite E, Ec.
  assert (Hsym : nth (c * seq_rows C (length sq) + (r0 + j)) sq (K - 1) < K)
    by (apply Forall_nth_default; auto; lia).
  rewrite (nth_error_nth' d 0) by lia.
  replace (S (r0 + j)) with (r0 + S j) by lia.
  rewrite IH by (auto; lia). rewrite Nat.add_assoc. reflexivity.
Qed.

(* ---------- the environment built by Scanner::new ---------- *)

(* well-formed input: C >= 1 columns, K >= 1 symbols, a non-empty motif whose rows have at
   least K cells, symbols below K, and a sequence configured for the motif *)
Definition wf_input (K C : nat) (pssm : list (list F32.t)) (sq : list nat) (wrap : nat) : Prop :=
  1 <= K /\ 1 <= C /\ 1 <= length pssm /\ length pssm - 1 <= wrap /\
  Forall (fun row : list F32.t => K <= length row) pssm /\
  Forall (fun s => s < K) sq.

(* the f32 score of position i and the byte score of cell i = c*R + r, as the concrete
   model computes them (the defaults are never used on valid positions / cells) *)
Definition cscore (v : cenv) (i : nat) : F32.t := unres F32.zero (ce_score_position v i).
Definition cdscore (v : cenv) (i : nat) : nat :=
  unres 0 (dcell_from (ce_sm v) (d_data (ce_dm v)) (i mod ce_R v) (i / ce_R v) 0).

Section Env.
  Variables (K C : nat) (pssm : list (list F32.t)) (sq : list nat) (wrap : nat) (v : cenv).
  Hypothesis Hwf : wf_input K C pssm sq wrap.
  Hypothesis Henv : c_env K C pssm sq wrap = Ok v.

  Let L := length sq.
  Let M := length pssm.
  Let R := seq_rows C L.

  Lemma env_fields :
    ce_C v = C /\ ce_pssm v = pssm /\ ce_L v = L /\ ce_wrap v = wrap /\
    ce_sm v = smatrix K C sq wrap /\
    to_discrete K pssm = Ok (ce_dm v) /\
    ce_ptab v = map (c_score_position (smatrix K C sq wrap) wrap pssm) (seq 0 ((L + 1) - M)) /\
    ce_dtab v = map (drow C (smatrix K C sq wrap) (d_data (ce_dm v)))
                    (seq 0 (length (smatrix K C sq wrap) - wrap)).
  Proof.
    unfold c_env in Henv. destruct (to_discrete K pssm) as [dm| | |]; simpl in Henv; try discriminate.
    inversion Henv; subst; simpl. repeat split; reflexivity.
  Qed.

  Lemma env_R : ce_R v = R.
  Proof.
    destruct env_fields as (_ & _ & _ & Hw & Hsm & _). unfold ce_R. rewrite Hsm, Hw, smatrix_length.
    unfold R, L. lia.
  Qed.

  Lemma env_Lm : ce_Lm v = (L + 1) - M.
  Proof. destruct env_fields as (_ & Hp & Hl & _). unfold ce_Lm. now rewrite Hp, Hl. Qed.

  Lemma env_Lm_le : ce_Lm v <= ce_R v * ce_C v.
  Proof.
    destruct Hwf as (_ & HC & HM & _). destruct env_fields as (Hc & _).
    rewrite env_Lm, env_R, Hc. pose proof (seq_rows_cover C L HC). fold R in H. unfold M in *. lia.
  Qed.

  (* score_position never panics on a valid position *)
  Lemma env_score_position i :
    i < ce_Lm v -> ce_score_position v i = Ok (cscore v i).
  Proof.
    intros Hi. unfold cscore.
    assert (exists x, ce_score_position v i = Ok x) as (x & E); [|now rewrite E].
    destruct Hwf as (HK & HC & HM & Hw & Hp & Hs).
    destruct env_fields as (_ & Hps & _ & Hwr & Hsm & _ & Hpt & _).
    unfold ce_score_position. rewrite Hpt, Hsm, Hwr, Hps, tab_get_map.
    unfold c_score_position. apply (score_pos_from_ok K C sq wrap i HK HC Hs); auto.
    rewrite env_Lm in Hi. unfold M, L in *. simpl. lia.
  Qed.

  Lemma env_sm_rows r :
    r < length (ce_sm v) ->
    exists row, nth_error (ce_sm v) r = Some row /\ length row = C /\ Forall (fun s => s < K) row.
  Proof.
    destruct Hwf as (HK & HC & HM & Hw & Hp & Hs).
    destruct env_fields as (_ & _ & _ & _ & Hsm & _). rewrite Hsm, smatrix_length.
    intros Hr. now apply smatrix_row.
  Qed.

  (* one byte cell of a sequence row *)
  Lemma env_dcell r c :
    r < R -> c < C ->
    dcell_from (ce_sm v) (d_data (ce_dm v)) r c 0 = Ok (cdscore v (c * R + r)).
  Proof.
    intros Hr Hc. unfold cdscore. rewrite env_R, idx_mod, idx_div by auto.
    assert (exists x, dcell_from (ce_sm v) (d_data (ce_dm v)) r c 0 = Ok x) as (x & E); [|now rewrite E].
    destruct Hwf as (HK & HC & HM & Hw & Hp & Hs).
    destruct env_fields as (_ & _ & _ & _ & Hsm & Hd & _).
    destruct (to_discrete_shape K pssm (ce_dm v) Hd) as (Hlen & Hfa).
    apply (dcell_from_ok K C (ce_sm v) env_sm_rows); auto.
    rewrite Hlen, Hsm, smatrix_length. fold L R M. lia.
  Qed.

  Lemma env_drow r :
    r < R ->
    drow C (ce_sm v) (d_data (ce_dm v)) r = Ok (map (fun c => cdscore v (c * R + r)) (seq 0 C)).
  Proof.
    intros Hr. unfold drow. rewrite (rmapM_total _ 0).
    - f_equal. apply map_ext_in. intros c Hc. apply in_seq in Hc.
      rewrite env_dcell by (auto; lia). reflexivity.
    - intros c Hc. apply in_seq in Hc. rewrite env_dcell by (auto; lia). eauto.
  Qed.

  (* score_rows_into through every dispatcher arm: the block matrix of the byte scores *)
  Lemma env_score_rows am a e :
    a <= e -> e <= ce_R v ->
    ce_score_rows v am a e = Ok (block_spec (ce_R v) (ce_Lm v) (ce_C v) (cdscore v) a e).
  Proof.
    intros Ha He. rewrite env_R in He.
    destruct Hwf as (HK & HC & HM & Hw & Hp & Hs).
    destruct env_fields as (Hc & _ & Hl & Hwr & Hsm & Hd & _ & Hdt).
    destruct (to_discrete_shape K pssm (ce_dm v) Hd) as (Hlen & _).
    unfold ce_score_rows, block_spec. rewrite env_Lm, env_R, Hc, Hl, Hwr.
    assert (Hbody : (L <? length (d_data (ce_dm v))) || (e <=? a) = false ->
              score_rows_body C (ce_sm v) (d_data (ce_dm v)) (ce_dtab v) a e =
              Ok (mk_block (fun r c => cdscore v (c * R + r)) C a (e - a))).
    { intros _. unfold score_rows_body, mk_block. rewrite (rmapM_total _ []).
      - f_equal. apply map_ext_in. intros r Hr. apply in_seq in Hr.
        rewrite Hdt, Hsm, tab_get_map, <- Hsm, env_drow by lia. reflexivity.
      - intros r Hr. apply in_seq in Hr.
        rewrite Hdt, Hsm, tab_get_map, <- Hsm, env_drow by lia. eauto. }
    assert (Hempty : (L <? length (d_data (ce_dm v))) || (e <=? a) = true ->
              (if (L + 1 - M =? 0) then [] else mk_block (fun r c => cdscore v (c * R + r)) C a (e - a)) = []).
    { intros Hcnd. destruct (Nat.eqb_spec (L + 1 - M) 0); auto.
      apply orb_prop in Hcnd. destruct Hcnd as [Hcnd|Hcnd].
      - apply Nat.ltb_lt in Hcnd. rewrite Hlen in Hcnd. unfold M in *. lia.
      - apply Nat.leb_le in Hcnd. replace (e - a) with 0 by lia. reflexivity. }
    assert (Hfull : (L <? length (d_data (ce_dm v))) || (e <=? a) = false ->
              (L + 1 - M =? 0) = false).
    { intros Hcnd. apply orb_false_iff in Hcnd. destruct Hcnd as (Hcnd & _).
      apply Nat.ltb_ge in Hcnd. rewrite Hlen in Hcnd. apply Nat.eqb_neq. unfold M in *. lia. }
    unfold c_score_rows.
    destruct am.
    - destruct ((L <? length (d_data (ce_dm v))) || (e <=? a)) eqn:Ecnd.
      + f_equal. symmetry. now apply Hempty.
      + rewrite Hbody, Hfull by auto. reflexivity.
    - destruct ((L <? length (d_data (ce_dm v))) || (e <=? a)) eqn:Ecnd.
      + f_equal. symmetry. now apply Hempty.
      + rewrite Hbody, Hfull by auto. reflexivity.
    - assert (E1 : (length (d_data (ce_dm v)) =? 0) = false)
        by (apply Nat.eqb_neq; rewrite Hlen; unfold M in *; lia).
      assert (E2 : (wrap <? length (d_data (ce_dm v)) - 1) = false)
        by (apply Nat.ltb_ge; rewrite Hlen; unfold M in *; lia).
      assert (E3 : (length (ce_sm v) <? e + length (d_data (ce_dm v)) - 1) = false)
        by (apply Nat.ltb_ge; rewrite Hlen, Hsm, smatrix_length; fold L R; unfold M in *; lia).
      cbv zeta. rewrite E1, E2, E3.
      destruct ((L <? length (d_data (ce_dm v))) || (e <=? a)) eqn:Ecnd.
      + f_equal. symmetry. now apply Hempty.
      + rewrite Hbody, Hfull by auto. reflexivity.
  Qed.

  (* closed forms of the two scores the scanner compares: the f32 score of position i is
     the left-to-right sum of the matrix cells selected by the symbols s[i..i+M), and the
     byte score of cell c*R + r is the saturating sum of the discretised cells selected by
     s[c*R+r .. c*R+r+M) (wildcard past the end of the sequence) *)
  Lemma env_cscore_spec i : i < ce_Lm v -> cscore v i = score_def K sq pssm i.
  Proof.
    intros Hi. unfold cscore.
    destruct Hwf as (HK & HC & HM & Hw & Hp & Hs).
    destruct env_fields as (_ & Hps & _ & Hwr & Hsm & _ & Hpt & _).
    unfold ce_score_position. rewrite Hpt, Hsm, Hwr, Hps, tab_get_map.
    unfold c_score_position. rewrite (score_pos_from_spec K C sq wrap i HK HC Hs); auto.
    rewrite env_Lm in Hi. unfold M, L in *. simpl. lia.
  Qed.

  Lemma env_cdscore_spec r c :
    r < R -> c < C -> cdscore v (c * R + r) = dscore_def K sq (d_data (ce_dm v)) (c * R + r).
  Proof.
    intros Hr Hc. unfold cdscore. rewrite env_R, idx_mod, idx_div by auto.
    destruct Hwf as (HK & HC & HM & Hw & Hp & Hs).
    destruct env_fields as (_ & _ & _ & _ & Hsm & Hd & _).
    destruct (to_discrete_shape K pssm (ce_dm v) Hd) as (Hlen & Hfa).
    assert (Hb : r + 0 + length (d_data (ce_dm v)) <= seq_rows C (length sq) + wrap).
    { rewrite Hlen. fold L R M. unfold M in *. lia. }
    rewrite Hsm. replace r with (r + 0) at 1 by lia.
    rewrite (dcell_from_spec K C sq wrap c r HK Hs Hc (d_data (ce_dm v)) 0 0 (Hfa Hp) Hb).
    simpl. unfold dscore_def, window_cells. fold L R. reflexivity.
  Qed.

  Lemma env_cdscore_spec_i i :
    i < ce_Lm v -> cdscore v i = dscore_def K sq (d_data (ce_dm v)) i.
  Proof.
    intros Hi. pose proof env_Lm_le as Hle. rewrite env_R in Hle.
    destruct env_fields as (Hc & _). rewrite Hc in Hle.
    assert (HR : 0 < R) by (destruct R; simpl in *; lia).
    rewrite (idx_decomp R i HR). apply env_cdscore_spec.
    - now apply idx_row_lt.
    - apply idx_col_lt. lia.
  Qed.

  (* the brute-force score list printed next to the implementation's is the list of cscore *)
  Lemma env_scores : ce_scores v = map (fun i => Ok (cscore v i)) (seq 0 (ce_Lm v)).
  Proof.
    unfold ce_scores. apply map_ext_in. intros i Hi. apply in_seq in Hi.
    apply env_score_position. lia.
  Qed.

End Env.

(* bounded quantification by computation (for the non-vacuity examples) *)
Lemma forallb_lt (f : nat -> bool) n : forallb f (seq 0 n) = true -> forall i, i < n -> f i = true.
Proof.
  intros H i Hi. rewrite forallb_forall in H. apply H. apply in_seq. lia.
Qed.

(* score_rows_into never returns more rows than the range it was given (any input) *)
Lemma ce_score_rows_len v am a e m : ce_score_rows v am a e = Ok m -> length m <= e - a.
Proof.
  unfold ce_score_rows, c_score_rows. cbv zeta.
  assert (Hb : forall m', score_rows_body (ce_C v) (ce_sm v) (d_data (ce_dm v)) (ce_dtab v) a e = Ok m' ->
                          length m' <= e - a).
  { unfold score_rows_body. intros m' E. apply rmapM_length in E. rewrite seq_length in E. lia. }
  destruct am;
    repeat match goal with |- context [if ?c then _ else _] => destruct c end;
    intros E; try discriminate; try (inversion E; subst; simpl; lia); auto.
Qed.

(* ---------- a concrete instance for the non-vacuity examples of C02.v / C03.v ---------- *)

Module Ex.
  (* a 3-column DNA motif (rows A C T G N; wildcard column -inf; one cell carries a 0.01
     jitter so that two positions differ by less than one discretisation step):
        1.0  -1.0  0.0   0.5    -inf
       -2.0   2.0  0.25  0.0    -inf
        0.5   1.0 -1.0   0.26.. -inf                                                  *)
  Definition pssm : list (list F32.t) :=
    map (map F32.of_bits)
      [[1065353216; 3212836864; 0; 1056964608; 4286578688];
       [3221225472; 1073741824; 1048576000; 0; 4286578688];
       [1056964608; 1065353216; 3212836864; 1048911544; 4286578688]]%Z.
  (* 40 symbols (one N): 2 striped rows of 32 columns, 38 valid positions *)
  Definition sq : list nat :=
    [0;1;1;2;3;0;1;3;2;2;1;0;4;1;1;0;3;3;2;1; 0;1;1;0;2;3;1;1;0;0;1;3;2;0;1;1;2;3;0;1].
  Definition thr : F32.t := F32.of_bits 1065353216.     (* 1.0, attained exactly at position 24 *)
  Definition dummy : cenv :=
    {| ce_C := 0; ce_pssm := []; ce_L := 0; ce_wrap := 0;
       ce_dm := {| d_data := []; d_factor := F32.zero; d_offset := F32.zero |};
       ce_sm := []; ce_ptab := []; ce_dtab := [] |}.
  Definition env : cenv := unres dummy (c_env 5 32 pssm sq 2).

  (* (computations below only read back booleans: the floats carry proof terms) *)
  Lemma env_ok : c_env 5 32 pssm sq 2 = Ok env.
  Proof.
    unfold env. assert (H : is_ok (c_env 5 32 pssm sq 2) = true) by (vm_compute; reflexivity).
    destruct (c_env 5 32 pssm sq 2); try discriminate. reflexivity.
  Qed.

  Lemma wf : wf_input 5 32 pssm sq 2.
  Proof.
    unfold wf_input. split; [lia|]. split; [lia|]. split; [simpl; lia|]. split; [simpl; lia|]. split.
    - unfold pssm. simpl. repeat (constructor; [simpl; lia|]). constructor.
    - unfold sq. repeat (constructor; [lia|]). constructor.
  Qed.

  (* the numeric hypotheses hold on this instance (checked by computation over the 38
     valid positions / 38 x 38 pairs) *)
  Definition chk_thr (v : cenv) (t : F32.t) : bool :=
    forallb (fun i => implb (F32.ge (cscore v i) t) (ce_scale v t <=? cdscore v i)) (seq 0 (ce_Lm v)).
  Definition chk_pos (v : cenv) : bool :=
    forallb (fun i => forallb (fun j =>
        implb (F32.ge (cscore v i) (cscore v j)) (ce_scale v (cscore v j) <=? cdscore v i))
      (seq 0 (ce_Lm v))) (seq 0 (ce_Lm v)).
  Definition chk_mono (v : cenv) (t : F32.t) : bool :=
    forallb (fun i => implb (F32.ge (cscore v i) t) (ce_scale v t <=? ce_scale v (cscore v i))) (seq 0 (ce_Lm v)).

  Lemma cons_thr : forall i, i < ce_Lm env -> F32.ge (cscore env i) thr = true ->
    ce_scale env thr <= cdscore env i.
  Proof.
    assert (Hc : chk_thr env thr = true) by (vm_compute; reflexivity).
    intros i Hi Hg. apply Nat.leb_le. unfold chk_thr in Hc.
    pose proof (forallb_lt _ _ Hc i Hi) as Hf. cbv beta in Hf. rewrite Hg in Hf. exact Hf.
  Qed.

  Lemma cons_pos : forall i j, i < ce_Lm env -> j < ce_Lm env ->
    F32.ge (cscore env i) (cscore env j) = true -> ce_scale env (cscore env j) <= cdscore env i.
  Proof.
    assert (Hc : chk_pos env = true) by (vm_compute; reflexivity).
    intros i j Hi Hj Hg. apply Nat.leb_le. unfold chk_pos in Hc.
    pose proof (forallb_lt _ _ Hc i Hi) as Hf. cbv beta in Hf.
    pose proof (forallb_lt _ _ Hf j Hj) as Hf2. cbv beta in Hf2. rewrite Hg in Hf2. exact Hf2.
  Qed.

  Lemma mono_thr : forall i, i < ce_Lm env -> F32.ge (cscore env i) thr = true ->
    ce_scale env thr <= ce_scale env (cscore env i).
  Proof.
    assert (Hc : chk_mono env thr = true) by (vm_compute; reflexivity).
    intros i Hi Hg. apply Nat.leb_le. unfold chk_mono in Hc.
    pose proof (forallb_lt _ _ Hc i Hi) as Hf. cbv beta in Hf. rewrite Hg in Hf. exact Hf.
  Qed.
End Ex.
