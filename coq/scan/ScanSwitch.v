(* Builder setters called BETWEEN calls of next(): Scanner::threshold / Scanner::block_size
   only overwrite a field, so a scanner that was advanced by k calls of next() under
   (thr, B) and is then given (thr', B') simply continues from its state (row, buffered
   hits) with the new parameters: hits buffered under the old threshold stay buffered
   (max() re-filters them with the new one), rows already passed are not scanned again,
   the next block starts at the current row whatever the new block size.
   Executable definitions only; replayed against the implementation by the driver
   (observations `sw=` / `swmax=` of harness/src/bin/scan.rs). *)
From Coq Require Import List Arith Bool.
From LMBase Require Import Res ListX IEEE.
From LMScan Require Import ScanModel ScanConcrete.
Import ListNotations.

Section Switch.
  Context {T : Type}.
  Variable geb gtb eqb : T -> T -> bool.
  Variable is_nan : T -> bool.
  Variable scale : T -> nat.
  Variable score_position : nat -> res T.
  Variable score_rows : nat -> nat -> res dmatrix.
  Variable R Lm : nat.

  (* k x next() under (thr, B); threshold(thr'), block_size(B'); then next() until None *)
  Definition switch_collect (B : nat) (thr : T) (k : nat) (B' : nat) (thr' : T) (fuel : nat)
    : res (list (@hit T) * list (@hit T)) :=
    r <- take_k geb is_nan scale score_position score_rows R Lm B thr k init ;;
    l <- collect geb is_nan scale score_position score_rows R Lm B' thr' fuel (snd r) ;;
    Ok (fst r, l).

  (* k x next() under (thr, B); threshold(thr'), block_size(B'); then max() *)
  Definition switch_max (B : nat) (thr : T) (k : nat) (B' : nat) (thr' : T)
    : res (list (@hit T) * res (option (@hit T))) :=
    r <- take_k geb is_nan scale score_position score_rows R Lm B thr k init ;;
    Ok (fst r, smax geb gtb eqb is_nan scale score_position score_rows R Lm B' thr' (snd r)).
End Switch.

Definition ce_switch_collect (v : cenv) (am : arm) (thr : F32.t) (B k : nat) (thr' : F32.t) (B' : nat)
  : res (list fhit * list fhit) :=
  switch_collect F32.ge F32.is_nan (ce_scale v) (ce_score_position v) (ce_score_rows v am)
                 (ce_R v) (ce_Lm v) B thr k B' thr' (ce_fuel v).

Definition ce_switch_max (v : cenv) (am : arm) (thr : F32.t) (B k : nat) (thr' : F32.t) (B' : nat)
  : res (list fhit * res (option fhit)) :=
  switch_max F32.ge F32.gt F32.eq F32.is_nan (ce_scale v) (ce_score_position v) (ce_score_rows v am)
             (ce_R v) (ce_Lm v) B thr k B' thr'.
