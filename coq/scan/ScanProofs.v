(* Lemmas about Scanner::next / take / iteration to exhaustion (property C02). *)
From Coq Require Import List Arith Bool Lia Permutation.
From LMBase Require Import Res ListX.
From LMScan Require Import ScanModel ScanLemmas.
Import ListNotations.

(* ---------- block structure (pure arithmetic) ---------- *)

(* the values taken by self.row at the head of the `while` loop, starting from [rw] *)
Fixpoint block_starts (fuel B R rw : nat) : list nat :=
  match fuel with
  | O => []
  | S f => if rw <? R then rw :: block_starts f B R (rw + B) else []
  end.

Definition block_rows (B R a : nat) : list nat := seq a (Nat.min (a + B) R - a).

Lemma block_starts_cover B R : 1 <= B -> forall fuel rw,
  R - rw < fuel ->
  flat_map (block_rows B R) (block_starts fuel B R rw) = seq rw (R - rw).
Proof.
  intros HB. induction fuel as [|f IH]; intros rw Hf; [lia|].
  simpl. destruct (Nat.ltb_spec rw R) as [Hlt|Hge].
  - simpl. rewrite IH by lia. unfold block_rows.
    destruct (Nat.le_gt_cases (rw + B) R) as [Hle|Hgt].
    + rewrite Nat.min_l by lia.
      replace (R - rw) with ((rw + B - rw) + (R - (rw + B))) by lia.
      rewrite seq_app. f_equal. f_equal; lia.
    + rewrite Nat.min_r by lia. replace (R - (rw + B)) with 0 by lia. simpl. now rewrite app_nil_r.
  - replace (R - rw) with 0 by lia. reflexivity.
Qed.

Lemma block_starts_multiple B R : forall fuel k a,
  In a (block_starts fuel B R (k * B)) -> a < R /\ exists k', a = k' * B.
Proof.
  induction fuel as [|f IH]; intros k a; simpl; [tauto|].
  destruct (Nat.ltb_spec (k * B) R) as [Hlt|Hge]; [|simpl; tauto].
  intros [<-|Hin]; [split; eauto|].
  apply (IH (S k)). simpl. now rewrite Nat.add_comm.
Qed.

(* ---------- the scanner ---------- *)

Section ScanProofs.
  Context {T : Type}.
  Variable geb : T -> T -> bool.
  Variable is_nan : T -> bool.
  Variable scale : T -> nat.
  Variable score_position : nat -> res T.
  Variable score_rows : nat -> nat -> res dmatrix.
  Variable R Lm B : nat.
  Variable thr : T.

  Local Notation hit := (@hit T).
  Local Notation st := (@st T).
  Local Notation next_cands := (next_cands geb is_nan score_position R Lm thr).
  Local Notation next_block := (next_block geb is_nan scale score_position score_rows R Lm B thr).
  Local Notation next_loop := (next_loop geb is_nan scale score_position score_rows R Lm B thr).
  Local Notation next := (next geb is_nan scale score_position score_rows R Lm B thr).
  Local Notation take_k := (take_k geb is_nan scale score_position score_rows R Lm B thr).
  Local Notation collect := (collect geb is_nan scale score_position score_rows R Lm B thr).

  (* what the body of the candidate loop of next() pushes for the cell (r, c) of the
     block starting at row rw, when nothing panics *)
  Definition qcand (rw : nat) (rc : nat * nat) : option hit :=
    let index := snd rc * R + rw + fst rc in
    if Lm <=? index then None
    else match score_position index with
         | Ok s => if geb s thr then Some (index, s) else None
         | _ => None
         end.

  Lemma next_cands_ok rw cands : forall hs hs',
    next_cands rw cands hs = Ok hs' -> hs' = rev (omap (qcand rw) cands) ++ hs.
  Proof.
    induction cands as [|[r c] rest IH]; intros hs hs' H; simpl in H.
    - inversion H; reflexivity.
    - unfold qcand at 1. simpl omap. cbn [fst snd].
      destruct (Lm <=? c * R + rw + r) eqn:Eb.
      + apply IH; exact H.
      + destruct (score_position (c * R + rw + r)) as [s| | |] eqn:Es; simpl in H; try discriminate.
        destruct (geb s thr) eqn:Eg.
        * unfold hit_new in H. destruct (is_nan s); simpl in H; [discriminate|].
          apply IH in H. rewrite H. simpl. now rewrite <- app_assoc.
        * apply IH; exact H.
  Qed.

  (* a yielded hit: a valid position, its score as score_position computes it, >= threshold *)
  Definition good (h : hit) : Prop :=
    fst h < Lm /\ score_position (fst h) = Ok (snd h) /\ geb (snd h) thr = true.

  Lemma qcand_good rw rc h :
    qcand rw rc = Some h -> good h /\ fst h = snd rc * R + rw + fst rc.
  Proof.
    unfold qcand. destruct (Nat.leb_spec Lm (snd rc * R + rw + fst rc)) as [|Hlt]; [discriminate|].
    destruct (score_position _) as [s| | |] eqn:Es; try discriminate.
    destruct (geb s thr) eqn:Eg; [|discriminate].
    intros E; inversion E; subst. unfold good; simpl. auto.
  Qed.

  (* ----- soundness invariant ----- *)

  (* the shape of the block score matrix: no more rows than the row range
     (only asked of the ranges next() and max() can request: a <= e <= R) *)
  Hypothesis Hlen : forall a e m, a <= e -> e <= R -> score_rows a e = Ok m -> length m <= e - a.

  (* Y: hits yielded so far *)
  Record Inv (s : st) (Y : list hit) : Prop := {
    inv_good : Forall good (Y ++ hits s);
    inv_rows : Forall (fun h => fst h mod R < row s) (Y ++ hits s);
    inv_nodup : NoDup (map fst (Y ++ hits s));
  }.

  Lemma Inv_init : Inv init [].
  Proof. split; simpl; constructor. Qed.

  Lemma next_block_row s s' : next_block s = Ok s' -> row s' = row s + B.
  Proof.
    unfold next_block. destruct (score_rows _ _); simpl; try discriminate.
    match goal with |- context [rbind ?x _] => destruct x end; simpl; try discriminate.
    intros E; inversion E; reflexivity.
  Qed.

  (* the hits of a state after one block, when no hit was buffered *)
  Lemma next_block_hits s s' :
    hits s = [] -> next_block s = Ok s' ->
    hits s' = [] \/
    exists d, score_rows (row s) (Nat.min (row s + B) R) = Ok d /\
              hits s' = rev (omap (qcand (row s)) (dthreshold d (scale thr))).
  Proof.
    intros Hh. unfold next_block.
    destruct (score_rows _ _) as [d| | |] eqn:Er; simpl; try discriminate.
    destruct (dmax d) as [m|].
    - destruct (scale thr <=? m).
      + destruct (next_cands _ _ _) as [hs| | |] eqn:En; simpl; try discriminate.
        intros E; inversion E; subst; simpl. right. exists d. split; auto.
        apply next_cands_ok in En. rewrite Hh, app_nil_r in En. exact En.
      + simpl. intros E; inversion E; subst; simpl. now left.
    - simpl. intros E; inversion E; subst; simpl. now left.
  Qed.

  Lemma cand_index_facts rw (d : dmatrix) r c :
    rw < R -> length d <= Nat.min (rw + B) R - rw -> r < length d ->
    rw + r < R /\ rw + r < rw + B /\ (c * R + rw + r) mod R = rw + r.
  Proof.
    intros Hrw Hd Hr. assert (rw + r < R) by lia. repeat split; try lia.
    rewrite <- Nat.add_assoc. now apply idx_mod.
  Qed.

  Lemma next_block_inv s s' Y :
    hits s = [] -> row s < R -> next_block s = Ok s' -> Inv s Y -> Inv s' Y.
  Proof.
    intros Hh Hrw Hnb [Hg Hr Hn]. rewrite Hh, app_nil_r in *.
    pose proof (next_block_row _ _ Hnb) as Hrow.
    destruct (next_block_hits _ _ Hh Hnb) as [He|(d & Hd & He)].
    - split; rewrite He, app_nil_r; auto.
      rewrite Hrow. eapply Forall_impl; [|exact Hr]. simpl; intros; lia.
    - assert (Hl : length d <= Nat.min (row s + B) R - row s) by (apply Hlen; auto; lia).
      set (cands := dthreshold d (scale thr)) in *.
      assert (Hfm : forall h, In h (rev (omap (qcand (row s)) cands)) ->
                good h /\ exists r c, r < length d /\ fst h = c * R + row s + r).
      { intros h Hin. apply in_rev in Hin. apply in_omap in Hin. destruct Hin as ([r c] & Hc & Hq).
        apply qcand_good in Hq. destruct Hq as (Hgd & Hf). split; auto.
        exists r, c. split; auto. eapply dthreshold_rows; exact Hc. }
      split; rewrite He.
      + apply Forall_app. split; auto. apply Forall_forall. intros h Hin. apply Hfm; auto.
      + apply Forall_app. split.
        * rewrite Hrow. eapply Forall_impl; [|exact Hr]. simpl; intros; lia.
        * apply Forall_forall. intros h Hin. destruct (Hfm h Hin) as (_ & r & c & Hrl & Hf).
          destruct (cand_index_facts (row s) d r c Hrw Hl Hrl) as (_ & Hb & Hm).
          rewrite Hf, Hm, Hrow. exact Hb.
      + rewrite map_app. apply NoDup_app_intro; auto.
        * rewrite map_rev. apply NoDup_rev.
          apply (NoDup_map_omap (fun rc => snd rc * R + row s + fst rc) fst).
          { intros x y Hq. apply qcand_good in Hq. tauto. }
          apply NoDup_map_filter. apply NoDup_map_inj_in; [|apply NoDup_coords].
          intros [r c] [r' c'] Hi Hi' E. simpl in E.
          apply in_coords in Hi. apply in_coords in Hi'.
          destruct (cand_index_facts (row s) d r c Hrw Hl (proj1 Hi)) as (Hlt & _ & _).
          destruct (cand_index_facts (row s) d r' c' Hrw Hl (proj1 Hi')) as (Hlt' & _ & _).
          rewrite <- !Nat.add_assoc in E. apply idx_inj in E; auto.
          destruct E as (-> & E). f_equal. lia.
        * intros x Hx Hx'. apply in_map_iff in Hx. destruct Hx as (h & <- & Hh1).
          apply in_map_iff in Hx'. destruct Hx' as (h' & E' & Hh2).
          rewrite Forall_forall in Hr. specialize (Hr h Hh1). simpl in Hr.
          destruct (Hfm h' Hh2) as (_ & r & c & Hrl & Hf).
          destruct (cand_index_facts (row s) d r c Hrw Hl Hrl) as (_ & _ & Hm).
          rewrite <- E', Hf, Hm in Hr. lia.
  Qed.

  Lemma next_loop_inv fuel : forall s s' Y,
    next_loop fuel s = Ok s' -> Inv s Y -> Inv s' Y /\ (hits s' = [] -> R <= row s').
  Proof.
    induction fuel as [|f IH]; intros s s' Y H HI; simpl in H; [discriminate|].
    destruct (hits s) eqn:Hh.
    - destruct (Nat.ltb_spec (row s) R) as [Hlt|Hge].
      + destruct (next_block s) as [s1| | |] eqn:Hnb; simpl in H; try discriminate.
        apply (IH s1 s' Y H). eapply next_block_inv; eauto.
      + inversion H; subst. split; auto.
    - inversion H; subst. split; auto. rewrite Hh. discriminate.
  Qed.

  Lemma Inv_pop s Y h tl rw :
    Inv s Y -> hits s = h :: tl -> rw = row s -> Inv {| row := rw; hits := tl |} (Y ++ [h]).
  Proof.
    intros [Hg Hr Hn] Hh ->. rewrite Hh in *.
    split; simpl; rewrite <- app_assoc; simpl; auto.
  Qed.

  Lemma next_inv s r s' Y :
    next s = Ok (r, s') -> Inv s Y ->
    match r with
    | Some h => Inv s' (Y ++ [h])
    | None => Inv s' Y /\ hits s' = [] /\ R <= row s'
    end.
  Proof.
    unfold next. destruct (next_loop (S R) s) as [s1| | |] eqn:Hl; simpl; try discriminate.
    intros H HI. destruct (next_loop_inv _ _ _ _ Hl HI) as (HI1 & Hrow).
    destruct (hits s1) as [|h tl] eqn:Hh; inversion H; subst.
    - split; [exact HI1|split; auto].
    - eapply Inv_pop; eauto.
  Qed.

  Lemma take_k_inv k : forall s H s' Y,
    take_k k s = Ok (H, s') -> Inv s Y -> Inv s' (Y ++ H).
  Proof.
    induction k as [|k IH]; intros s H s' Y Ht HI; simpl in Ht.
    - inversion Ht; subst. now rewrite app_nil_r.
    - destruct (next s) as [[r s1]| | |] eqn:Hn; simpl in Ht; try discriminate.
      pose proof (next_inv _ _ _ _ Hn HI) as HI1.
      destruct r as [h|].
      + destruct (take_k k s1) as [[H1 s2]| | |] eqn:Ht1; simpl in Ht; try discriminate.
        inversion Ht; subst. specialize (IH _ _ _ _ Ht1 HI1).
        rewrite <- app_assoc in IH. exact IH.
      + inversion Ht; subst. rewrite app_nil_r. tauto.
  Qed.

  Lemma collect_inv fuel : forall s H Y,
    collect fuel s = Ok H -> Inv s Y ->
    exists s', Inv s' (Y ++ H) /\ hits s' = [] /\ R <= row s'.
  Proof.
    induction fuel as [|f IH]; intros s H Y Hc HI; simpl in Hc; [discriminate|].
    destruct (next s) as [[r s1]| | |] eqn:Hn; simpl in Hc; try discriminate.
    pose proof (next_inv _ _ _ _ Hn HI) as HI1.
    destruct r as [h|].
    - destruct (collect f s1) as [H1| | |] eqn:Hc1; simpl in Hc; try discriminate.
      inversion Hc; subst. destruct (IH _ _ _ Hc1 HI1) as (s' & HI' & Hh & Hr).
      exists s'. rewrite <- app_assoc in HI'. auto.
    - inversion Hc; subst. exists s1. rewrite app_nil_r. tauto.
  Qed.

  Lemma Inv_yielded s Y : Inv s Y -> Forall good Y /\ NoDup (map fst Y).
  Proof.
    intros [Hg _ Hn]. split.
    - apply Forall_app in Hg. tauto.
    - rewrite map_app in Hn. apply NoDup_app_inv in Hn. tauto.
  Qed.

  (* the prefixes obtained with take(k) are prefixes of the full hit list *)
  Lemma collect_take fuel : forall s H k,
    collect fuel s = Ok H -> exists s', take_k k s = Ok (firstn k H, s').
  Proof.
    induction fuel as [|f IH]; intros s H k Hc; simpl in Hc; [discriminate|].
    destruct k as [|k]; [exists s; reflexivity|].
    simpl. destruct (next s) as [[r s1]| | |] eqn:Hn; simpl in *; try discriminate.
    destruct r as [h|].
    - destruct (collect f s1) as [H1| | |] eqn:Hc1; simpl in Hc; try discriminate.
      inversion Hc; subst. destruct (IH _ _ k Hc1) as (s' & Ht). rewrite Ht. simpl. eauto.
    - inversion Hc; subst. simpl. eauto.
  Qed.

  Lemma scan_sound_run fuel H :
    collect fuel init = Ok H -> Forall good H /\ NoDup (map fst H).
  Proof.
    intros Hc. destruct (collect_inv _ _ _ _ Hc Inv_init) as (s' & HI & _).
    simpl in HI. exact (Inv_yielded _ _ HI).
  Qed.

  Lemma take_sound_run k H s' :
    take_k k init = Ok (H, s') -> Forall good H /\ NoDup (map fst H).
  Proof.
    intros Ht. pose proof (take_k_inv _ _ _ _ _ Ht Inv_init) as HI.
    simpl in HI. exact (Inv_yielded _ _ HI).
  Qed.

  (* ----- completeness ----- *)

  Variable C : nat.
  Variable score : nat -> T.
  Variable dscore : nat -> nat.

  (* the u8 score matrix of rows a..e: empty when there is no valid position
     (L < M), otherwise e-a rows of C cells, cell (r, c) = dscore (c*R + a + r) *)
  Definition block_spec (a e : nat) : dmatrix :=
    if Lm =? 0 then [] else mk_block (fun r c => dscore (c * R + r)) C a (e - a).

  Hypothesis HB : 1 <= B.
  Hypothesis HLm : Lm <= R * C.
  Hypothesis Hpos : forall i, i < Lm -> score_position i = Ok (score i).
  Hypothesis Hrows : forall a e, a <= e -> e <= R -> score_rows a e = Ok (block_spec a e).
  Hypothesis Hnan : forall i, i < Lm -> geb (score i) thr = true -> is_nan (score i) = false.
  (* property C08, at the scanner's threshold: a position meeting the threshold reaches
     the byte threshold derived from it *)
  Hypothesis Hcons : forall i, i < Lm -> geb (score i) thr = true -> scale thr <= dscore i.

  Definition qualifies (i : nat) : Prop := i < Lm /\ geb (score i) thr = true.

  Lemma next_cands_total rw cands : forall hs, exists hs', next_cands rw cands hs = Ok hs'.
  Proof.
    induction cands as [|[r c] rest IH]; intros hs; simpl; [eauto|].
    destruct (Nat.leb_spec Lm (c * R + rw + r)) as [|Hlt]; [apply IH|].
    rewrite (Hpos _ Hlt). simpl. destruct (geb (score _) thr) eqn:Eg; [|apply IH].
    unfold hit_new. rewrite (Hnan _ Hlt Eg). simpl. apply IH.
  Qed.

  Lemma block_range (s : st) : row s < R -> row s <= Nat.min (row s + B) R /\ Nat.min (row s + B) R <= R.
  Proof. intros. lia. Qed.

  Lemma next_block_total s : row s < R -> exists s', next_block s = Ok s'.
  Proof.
    intros Hrw. unfold next_block. destruct (block_range s Hrw) as (H1 & H2).
    rewrite (Hrows _ _ H1 H2). simpl.
    destruct (dmax _) as [m|]; [destruct (scale thr <=? m)|]; simpl; eauto.
    destruct (next_cands_total (row s) (dthreshold (block_spec (row s) (Nat.min (row s + B) R)) (scale thr)) (hits s)) as (hs & ->).
    simpl. eauto.
  Qed.

  Lemma next_loop_total fuel : forall s, R - row s < fuel -> exists s', next_loop fuel s = Ok s'.
  Proof.
    induction fuel as [|f IH]; intros s Hf; [lia|]. simpl.
    destruct (hits s); [|eauto].
    destruct (Nat.ltb_spec (row s) R) as [Hlt|Hge]; [|eauto].
    destruct (next_block_total s Hlt) as (s1 & Hnb). rewrite Hnb. simpl.
    apply IH. rewrite (next_block_row _ _ Hnb). lia.
  Qed.

  Lemma next_total s : exists r s', next s = Ok (r, s').
  Proof.
    unfold next. destruct (next_loop_total (S R) s) as (s1 & ->); [lia|]. simpl.
    destruct (hits s1); eauto.
  Qed.

  (* every qualifying position of the rows already scored was yielded or is buffered *)
  Definition Inv2 (s : st) (Y : list hit) : Prop :=
    forall i, qualifies i -> i mod R < row s -> In (i, score i) (Y ++ hits s).

  Lemma Inv2_init : Inv2 init [].
  Proof. intros i _ H. simpl in H. lia. Qed.

  Lemma qualifies_coords i : qualifies i -> 0 < R /\ i / R < C /\ i mod R < R.
  Proof.
    intros (Hi & _). assert (0 < R) by (destruct R; simpl in *; lia).
    repeat split; auto.
    - apply idx_col_lt. lia.
    - now apply idx_row_lt.
  Qed.

  Lemma next_block_inv2 s s' Y :
    hits s = [] -> row s < R -> next_block s = Ok s' -> Inv2 s Y -> Inv2 s' Y.
  Proof.
    intros Hh Hrw Hnb HI i Hq Hm.
    pose proof (next_block_row _ _ Hnb) as Hrow. rewrite Hrow in Hm.
    destruct (Nat.lt_ge_cases (i mod R) (row s)) as [Hold|Hnew].
    - specialize (HI i Hq Hold). rewrite Hh, app_nil_r in HI. apply in_or_app; auto.
    - apply in_or_app; right.
      destruct (qualifies_coords i Hq) as (HR & Hc & Hr). destruct Hq as (Hi & Hg).
      destruct (block_range s Hrw) as (H1 & H2).
      set (e := Nat.min (row s + B) R) in *.
      set (r := i mod R - row s).
      assert (Hre : r < e - row s) by (unfold r, e; lia).
      assert (Hidx : i / R * R + row s + r = i).
      { unfold r. rewrite <- Nat.add_assoc.
        replace (row s + (i mod R - row s)) with (i mod R) by lia. symmetry. now apply idx_decomp. }
      assert (Hd : block_spec (row s) e = mk_block (fun r c => dscore (c * R + r)) C (row s) (e - row s)).
      { unfold block_spec. destruct (Nat.eqb_spec Lm 0); [lia|reflexivity]. }
      assert (Hget : dget (block_spec (row s) e) r (i / R) = dscore i).
      { rewrite Hd, mk_block_get by auto. f_equal. lia. }
      assert (Hin : In (r, i / R) (dthreshold (block_spec (row s) e) (scale thr))).
      { apply in_dthreshold. rewrite Hget. rewrite Hd, mk_block_length, mk_block_row_length by auto.
        repeat split; auto. }
      unfold next_block in Hnb. fold e in Hnb. rewrite (Hrows _ _ H1 H2) in Hnb. simpl in Hnb.
      destruct (dmax_ge (block_spec (row s) e) r (i / R)) as (m & Hmx & Hle).
      { rewrite Hd, mk_block_length. exact Hre. }
      { rewrite Hd, mk_block_row_length by auto. exact Hc. }
      rewrite Hmx in Hnb. rewrite Hget in Hle.
      assert (Ht : scale thr <= m) by (pose proof (Hcons i Hi Hg); lia).
      apply Nat.leb_le in Ht. rewrite Ht in Hnb.
      destruct (next_cands _ _ _) as [hs| | |] eqn:En; simpl in Hnb; try discriminate.
      inversion Hnb; subst; simpl. apply next_cands_ok in En. rewrite En.
      apply in_or_app; left. apply -> in_rev. apply in_omap. exists (r, i / R). split; auto.
      unfold qcand. cbn [fst snd]. rewrite Hidx.
      destruct (Nat.leb_spec Lm i); [lia|]. rewrite (Hpos _ Hi), Hg. reflexivity.
  Qed.

  Lemma next_loop_inv2 fuel : forall s s' Y,
    next_loop fuel s = Ok s' -> Inv2 s Y -> Inv2 s' Y.
  Proof.
    induction fuel as [|f IH]; intros s s' Y H HI; simpl in H; [discriminate|].
    destruct (hits s) eqn:Hh.
    - destruct (Nat.ltb_spec (row s) R) as [Hlt|Hge].
      + destruct (next_block s) as [s1| | |] eqn:Hnb; simpl in H; try discriminate.
        apply (IH s1 s' Y H). eapply next_block_inv2; eauto.
      + inversion H; subst. auto.
    - inversion H; subst. auto.
  Qed.

  Lemma next_inv2 s r s' Y :
    next s = Ok (r, s') -> Inv2 s Y ->
    match r with Some h => Inv2 s' (Y ++ [h]) | None => Inv2 s' Y end.
  Proof.
    unfold next. destruct (next_loop (S R) s) as [s1| | |] eqn:Hl; simpl; try discriminate.
    intros H HI. pose proof (next_loop_inv2 _ _ _ _ Hl HI) as HI1.
    destruct (hits s1) as [|h tl] eqn:Hh; inversion H; subst; auto.
    intros i Hq Hm. simpl in *. specialize (HI1 i Hq Hm). rewrite Hh in HI1.
    rewrite <- app_assoc. exact HI1.
  Qed.

  Lemma take_k_inv2 k : forall s H s' Y,
    take_k k s = Ok (H, s') -> Inv2 s Y -> Inv2 s' (Y ++ H).
  Proof.
    induction k as [|k IH]; intros s H s' Y Ht HI; simpl in Ht.
    - inversion Ht; subst. now rewrite app_nil_r.
    - destruct (next s) as [[r s1]| | |] eqn:Hn; simpl in Ht; try discriminate.
      pose proof (next_inv2 _ _ _ _ Hn HI) as HI1.
      destruct r as [h|].
      + destruct (take_k k s1) as [[H1 s2]| | |] eqn:Ht1; simpl in Ht; try discriminate.
        inversion Ht; subst. specialize (IH _ _ _ _ Ht1 HI1).
        rewrite <- app_assoc in IH. exact IH.
      + inversion Ht; subst. now rewrite app_nil_r.
  Qed.

  Lemma collect_inv2 fuel : forall s H Y,
    collect fuel s = Ok H -> Inv2 s Y -> Inv s Y ->
    exists s', Inv2 s' (Y ++ H) /\ Inv s' (Y ++ H) /\ hits s' = [] /\ R <= row s'.
  Proof.
    induction fuel as [|f IH]; intros s H Y Hc HI2 HI; simpl in Hc; [discriminate|].
    destruct (next s) as [[r s1]| | |] eqn:Hn; simpl in Hc; try discriminate.
    pose proof (next_inv2 _ _ _ _ Hn HI2) as HI21.
    pose proof (next_inv _ _ _ _ Hn HI) as HI1.
    destruct r as [h|].
    - destruct (collect f s1) as [H1| | |] eqn:Hc1; simpl in Hc; try discriminate.
      inversion Hc; subst. destruct (IH _ _ _ Hc1 HI21 HI1) as (s' & A & A' & Hh & Hr).
      exists s'. rewrite <- app_assoc in A, A'. auto.
    - inversion Hc; subst. exists s1. rewrite app_nil_r. tauto.
  Qed.

  Lemma Inv_length s Y : Inv s Y -> length Y <= Lm.
  Proof.
    intros HI. destruct (Inv_yielded _ _ HI) as (Hg & Hn).
    replace (length Y) with (length (map fst Y)) by apply map_length. apply NoDup_length_le_seq; auto.
    intros x Hx. apply in_map_iff in Hx. destruct Hx as (h & <- & Hh).
    rewrite Forall_forall in Hg. apply Hg in Hh. apply Hh.
  Qed.

  (* iteration to exhaustion terminates within Lm + 1 calls and does not panic *)
  Lemma collect_total fuel : forall s Y,
    Inv s Y -> Lm < fuel + length Y -> exists H, collect fuel s = Ok H.
  Proof.
    induction fuel as [|f IH]; intros s Y HI Hf.
    - pose proof (Inv_length _ _ HI). lia.
    - simpl. destruct (next_total s) as (r & s1 & Hn). rewrite Hn. simpl.
      pose proof (next_inv _ _ _ _ Hn HI) as HI1.
      destruct r as [h|]; [|eauto].
      destruct (IH s1 (Y ++ [h]) HI1) as (H1 & ->).
      + rewrite app_length. simpl. lia.
      + simpl. eauto.
  Qed.

  Lemma take_k_total k : forall s, exists H s', take_k k s = Ok (H, s').
  Proof.
    induction k as [|k IH]; intros s; simpl; [eauto|].
    destruct (next_total s) as (r & s1 & ->). simpl.
    destruct r as [h|]; [|eauto].
    destruct (IH s1) as (H1 & s2 & ->). simpl. eauto.
  Qed.

  (* the positions the property asks for, in increasing order *)
  Definition expected : list hit :=
    omap (fun i => if geb (score i) thr then Some (i, score i) else None) (seq 0 Lm).

  Lemma in_expected h : In h expected <-> qualifies (fst h) /\ snd h = score (fst h).
  Proof.
    clear HB HLm Hpos Hrows Hnan Hcons Hlen. unfold expected. rewrite in_omap. split.
    - intros (i & Hi & Hq). apply in_seq in Hi. destruct (geb (score i) thr) eqn:Eg; [|discriminate].
      inversion Hq; subst; simpl. unfold qualifies. repeat split; auto; lia.
    - intros ((Hi & Hg) & Hs). exists (fst h). split; [apply in_seq; lia|].
      rewrite Hg. destruct h; simpl in *; subst; reflexivity.
  Qed.

  Lemma NoDup_expected : NoDup (map fst expected).
  Proof.
    unfold expected. apply (NoDup_map_omap (fun i : nat => i) fst).
    - intros i y. destruct (geb (score i) thr); [|discriminate]. intros E; inversion E; reflexivity.
    - rewrite map_id. apply seq_NoDup.
  Qed.

  Lemma good_expected h : good h -> In h expected.
  Proof.
    intros (Hi & Hs & Hg). apply in_expected. rewrite (Hpos _ Hi) in Hs. inversion Hs as [E].
    unfold qualifies. rewrite E. auto.
  Qed.

  Lemma exhausted_complete s H :
    Inv s H -> Inv2 s H -> hits s = [] -> R <= row s -> Permutation H expected.
  Proof.
    intros HI HI2 Hh Hr. destruct (Inv_yielded _ _ HI) as (Hg & Hn).
    apply NoDup_Permutation.
    - eapply NoDup_map_inv; exact Hn.
    - eapply NoDup_map_inv; exact NoDup_expected.
    - intros h. split.
      + intros Hin. rewrite Forall_forall in Hg. apply good_expected; auto.
      + intros Hin. apply in_expected in Hin. destruct Hin as (Hq & Hs).
        destruct (qualifies_coords _ Hq) as (_ & _ & Hm).
        specialize (HI2 (fst h) Hq). rewrite Hh, app_nil_r in HI2.
        destruct h as [i x]; simpl in *; subst. apply HI2. lia.
  Qed.

  (* ----- assembled results (property C02) ----- *)

  Lemma block_spec_length a e : length (block_spec a e) <= e - a.
  Proof.
    clear HB HLm Hpos Hrows Hnan Hcons Hlen.
    unfold block_spec. destruct (Lm =? 0); [simpl; lia|]. rewrite mk_block_length. lia.
  Qed.

  Lemma expected_length : length expected <= Lm.
  Proof. unfold expected. etransitivity; [apply omap_length|]. now rewrite seq_length. Qed.

  Lemma scan_complete_run fuel :
    Lm < fuel -> exists H, collect fuel init = Ok H /\ Permutation H expected.
  Proof.
    intros Hf. destruct (collect_total fuel init [] Inv_init) as (H & Hc); [simpl; lia|].
    exists H. split; auto.
    destruct (collect_inv2 _ _ _ _ Hc Inv2_init Inv_init) as (s' & A & A' & Hh & Hr).
    simpl in A, A'. eapply exhausted_complete; eauto.
  Qed.

  (* take(k) yields the first k hits of the full iteration, without panicking *)
  Lemma scan_take_run fuel k :
    Lm < fuel ->
    exists H s', collect fuel init = Ok H /\ take_k k init = Ok (firstn k H, s').
  Proof.
    intros Hf. destruct (scan_complete_run fuel Hf) as (H & Hc & _).
    destruct (collect_take _ _ _ k Hc) as (s' & Ht). eauto.
  Qed.

End ScanProofs.

(* ---------- the scanner reads the block scores only through the blocks ---------- *)

(* Two score_rows functions that agree on the row ranges [kB, min(kB+B, R)) of the blocks
   (k = 0, 1, ..) give the same run: next() never scores any other row range.  Together
   with block_starts_cover (these ranges partition [0, R)) this is the block structure of
   property C02. *)
Section BlocksOnly.
  Context {T : Type}.
  Variable geb : T -> T -> bool.
  Variable is_nan : T -> bool.
  Variable scale : T -> nat.
  Variable score_position : nat -> res T.
  Variable sr sr' : nat -> nat -> res dmatrix.
  Variable R Lm B : nat.
  Variable thr : T.

  Hypothesis Hagree : forall k, k * B < R ->
    sr (k * B) (Nat.min (k * B + B) R) = sr' (k * B) (Nat.min (k * B + B) R).

  Local Notation st := (@st T).
  Local Notation nb f := (next_block geb is_nan scale score_position f R Lm B thr).
  Local Notation nl f := (next_loop geb is_nan scale score_position f R Lm B thr).
  Local Notation nx f := (next geb is_nan scale score_position f R Lm B thr).
  Local Notation co f := (collect geb is_nan scale score_position f R Lm B thr).

  Definition on_block (s : st) : Prop := exists k, row s = k * B.

  Lemma next_block_agree s : on_block s -> row s < R -> nb sr s = nb sr' s.
  Proof.
    intros (k & E) Hlt. unfold next_block. rewrite E in *. rewrite Hagree by exact Hlt. reflexivity.
  Qed.

  Lemma next_block_on_block f s s' : on_block s -> nb f s = Ok s' -> on_block s'.
  Proof.
    intros (k & E) H. exists (S k).
    rewrite (next_block_row geb is_nan scale score_position f R Lm B thr s s' H), E. simpl. lia.
  Qed.

  Lemma next_loop_agree fuel : forall s, on_block s ->
    nl sr fuel s = nl sr' fuel s /\ (forall s', nl sr' fuel s = Ok s' -> on_block s').
  Proof.
    induction fuel as [|f IH]; intros s Hs; simpl; [split; [reflexivity|discriminate]|].
    destruct (hits s).
    - destruct (Nat.ltb_spec (row s) R) as [Hlt|Hge].
      + rewrite (next_block_agree s Hs Hlt).
        destruct (nb sr' s) as [s1| | |] eqn:E; simpl; try (split; [reflexivity|discriminate]).
        apply IH. eapply next_block_on_block; eauto.
      + split; [reflexivity|]. intros s' H. inversion H; subst. exact Hs.
    - split; [reflexivity|]. intros s' H. inversion H; subst. exact Hs.
  Qed.

  Lemma next_agree s : on_block s ->
    nx sr s = nx sr' s /\ (forall r s', nx sr' s = Ok (r, s') -> on_block s').
  Proof.
    intros Hs. unfold next. destruct (next_loop_agree (S R) s Hs) as (E & Hb). rewrite E.
    split; [reflexivity|]. intros r s' H.
    destruct (nl sr' (S R) s) as [s1| | |]; simpl in H; try discriminate.
    specialize (Hb s1 eq_refl). destruct Hb as (k & Ek).
    destruct (hits s1); inversion H; subst; exists k; simpl; auto.
  Qed.

  Lemma collect_agree fuel : forall s, on_block s -> co sr fuel s = co sr' fuel s.
  Proof.
    induction fuel as [|f IH]; intros s Hs; simpl; [reflexivity|].
    destruct (next_agree s Hs) as (E & Hb). rewrite E.
    destruct (nx sr' s) as [[r s1]| | |]; simpl; try reflexivity.
    destruct r as [h|]; [|reflexivity].
    rewrite (IH s1 (Hb _ _ eq_refl)). reflexivity.
  Qed.

  Lemma collect_init_agree fuel : co sr fuel init = co sr' fuel init.
  Proof. apply collect_agree. exists 0. reflexivity. Qed.
End BlocksOnly.
