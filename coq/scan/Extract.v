(* Extraction of the executable scanner model and of the property checkers for the
   correspondence check.  Only ExtrOcamlBasic is used: nat, Z, positive stay the
   extracted inductive types (converted by ocaml/scan/driver.ml). *)
From Coq Require Import List ZArith Extraction ExtrOcamlBasic.
From LMBase Require Import Res ListX IEEE.
From LMScan Require Import ScanModel ScanConcrete ScanCheck ScanShape GenScan ShapeConcrete ScanSwitch ScanWord WordSource ScanCheck2.

Definition x_of_bits := F32.of_bits.
Definition x_to_bits := F32.to_bits.
(* side conditions of the well-conditioned theorems, on the environment of a case *)
Definition ce_wc (K : nat) (v : cenv) : bool := wc_input K (ce_pssm v) (d_factor (ce_dm v)).

Extraction Language OCaml.
Extraction "scan_model.ml"
  x_of_bits x_to_bits
  c_env ce_R ce_Lm ce_scale ce_collect ce_take ce_max_after ce_take_max ce_scores ce_ptab ce_dscore
  check_c02 check_c03 bits_ge qual remaining first_missing first_spurious ce_wc
  (* the scanner parameterised by the skeleton / constants read from scan.rs (translate/scan_skel.py) *)
  ce_pcollect ce_ptake ce_ptake_max gen_default_block_size gen_default_threshold_bits gen_shape
  (* setters called between calls of next() *)
  ce_switch_collect ce_switch_max
  (* the same with usize arithmetic explicit (checked / wrapping / saturating add), block sizes as N *)
  ce_wswitch_collect ce_wswitch_max ce_wtake n_of_digits gen_ovf gen_row_add_saturating
  (* extracted judges: take(k), the precondition gate of the panic verdicts *)
  check_take pre_ok n_pos check_sw check_swmax same_answer.
