(* Bridge between the concrete scanner model (ScanConcrete.v) and the model of the
   discretisation group (coq/disc, property C08): both follow ScoringMatrix::to_discrete,
   DiscreteMatrix::scale and the two score_position functions line by line, so they agree
   - the discretised matrix, factor and offset are the same (byte cells as nat / Z),
   - score_def is LMDisc's real_wscore of the window, dscore_def its disc_wscore.
   Hence C08's main clause, which coq/disc proves for binary32 under its executable
   conditioning predicate (C08_f32_main_well_conditioned_partial), holds at every position
   of the concrete scanner, and the numeric hypothesis of C02_concrete_scan_c08 /
   C03_concrete_max_c08 is discharged for well-conditioned matrices. *)
From Coq Require Import List Arith Bool ZArith Lia.
From LMBase Require Import Res ListX IEEE.
From LMDisc Require DiscModel DiscImplCheck DiscF32Sign.
From LMScan Require Import ScanModel ScanConcrete ScanCheck ConcreteProofs DiscLink.
Import ListNotations.

Module DM := DiscModel.

(* ---------- small correspondences ---------- *)

Lemma sum_from_fold (z : F32.t) (l : list F32.t) : F32.sum_from z l = fold_left F32.add l z.
Proof.
  revert z. induction l as [|x l IH]; intros z; simpl; auto.
Qed.

Lemma to_u8_nonneg (x : F32.t) : (0 <= F32.to_u8 x)%Z.
Proof.
  unfold F32.to_u8, to_u8, cast_sat. destruct x as [s|[|]| |s m e H]; lia.
Qed.

Lemma rmapM_map_res {A B} (f g : A -> res B) (l : list A) : forall ys,
  (forall x y, In x l -> f x = Ok y -> g x = Ok y) ->
  rmapM f l = Ok ys -> DM.map_res g l = Ok ys.
Proof.
  induction l as [|a l IH]; intros ys Hfg H; simpl in *.
  - exact H.
  - destruct (f a) as [y| | |] eqn:Ea; simpl in H; try discriminate.
    destruct (rmapM f l) as [ys'| | |] eqn:El; simpl in H; try discriminate.
    inversion H; subst. rewrite (Hfg a y (or_introl eq_refl) Ea). simpl.
    rewrite (IH ys' (fun x y Hx => Hfg x y (or_intror Hx)) eq_refl). reflexivity.
Qed.

Lemma fmin_min_from : forall l x y, fmin_by_from x l = Ok y -> DM.min_from DM.f32_ops x l = Ok y.
Proof.
  induction l as [|a l IH]; intros x y H; simpl in *; auto.
  change (DM.n_cmp DM.f32_ops x a) with (F32.cmp x a).
  destruct (F32.cmp x a) as [[| |]|]; try discriminate; auto.
Qed.

Lemma fmax_max_from : forall l x y, fmax_by_from x l = Ok y -> DM.max_from DM.f32_ops x l = Ok y.
Proof.
  induction l as [|a l IH]; intros x y H; simpl in *; auto.
  change (DM.n_cmp DM.f32_ops x a) with (F32.cmp x a).
  destruct (F32.cmp x a) as [[| |]|]; try discriminate; auto.
Qed.

Lemma row_min_bridge K r y : row_min K r = Ok y -> DM.row_min DM.f32_ops (DM.nonwild K r) = Ok y.
Proof.
  unfold row_min, DM.row_min, DM.nonwild. destruct (firstn (K - 1) r); [discriminate|apply fmin_min_from].
Qed.

Lemma row_max_bridge K r y : row_max K r = Ok y -> DM.row_max DM.f32_ops (DM.nonwild K r) = Ok y.
Proof.
  unfold row_max, DM.row_max, DM.nonwild. destruct (firstn (K - 1) r); [discriminate|apply fmax_max_from].
Qed.

(* the discretised rows: the same cells, as nat here and as Z there *)
Lemma disc_rows_bridge factor : forall (m : list (list F32.t)) (offs : list F32.t),
  DM.disc_rows DM.f32_ops factor m offs =
  map (map Z.of_nat) (map (fun ro => map (disc_cell factor (snd ro)) (fst ro)) (combine m offs)).
Proof.
  induction m as [|row m IH]; intros offs; simpl; auto.
  destruct offs as [|o offs]; simpl; auto.
  rewrite IH. f_equal. rewrite map_map. apply map_ext. intros x.
  unfold disc_cell, DM.disc_cell. cbn [DM.f32_ops DM.n_ceil_u8 DM.n_div DM.n_sub].
  rewrite Z2Nat.id by apply to_u8_nonneg. reflexivity.
Qed.

(* ScoringMatrix::to_discrete: the two models agree *)
Lemma to_discrete_bridge K pssm dm :
  to_discrete K pssm = Ok dm ->
  exists d : @DM.dmat F32.t,
    DM.to_discrete DM.f32_ops K pssm = Ok d /\
    DM.d_factor d = d_factor dm /\ DM.d_offset d = d_offset dm /\
    DM.d_data d = map (map Z.of_nat) (d_data dm).
Proof.
  unfold to_discrete. intros H.
  destruct (rmapM (row_max K) pssm) as [maxs| | |] eqn:Emax; simpl in H; try discriminate.
  destruct (rmapM (row_min K) pssm) as [offs| | |] eqn:Emin; simpl in H; try discriminate.
  inversion H; subst; clear H. simpl.
  unfold DM.to_discrete, DM.max_score, DM.row_maxs, DM.row_mins.
  rewrite (rmapM_map_res (row_max K) (fun row => DM.row_max DM.f32_ops (DM.nonwild K row)) pssm maxs
             (fun x y _ => row_max_bridge K x y) Emax). simpl.
  rewrite (rmapM_map_res (row_min K) (fun row => DM.row_min DM.f32_ops (DM.nonwild K row)) pssm offs
             (fun x y _ => row_min_bridge K x y) Emin). simpl.
  eexists. split; [reflexivity|]. simpl.
  unfold DM.sum_from, fsum, f255. cbn [DM.f32_ops DM.n_sum0 DM.n_add DM.n_sub DM.n_div DM.n_abs DM.n_of_u8].
  rewrite !sum_from_fold. repeat split.
  apply disc_rows_bridge.
Qed.

(* ---------- window scores ---------- *)

(* LMDisc's window of width M at position i *)
Lemma window_combine {A} (K : nat) (sq : list nat) (i : nat) : forall (rows : list (list A)) j,
  combine (map (fun k => nth (i + k) sq (K - 1)) (seq j (length rows))) rows =
  map (fun jr => (nth (i + fst jr) sq (K - 1), snd jr)) (combine (seq j (length rows)) rows).
Proof.
  induction rows as [|r rows IH]; intros j; simpl; auto. f_equal. apply IH.
Qed.

(* a window score as a fold, when no lookup fails *)
Lemma wscore_from_fold {V} (vadd : V -> V -> V) (d : V) : forall (m : list (list V)) (w : list nat) acc,
  length w = length m ->
  Forall (fun rs => snd rs < length (fst rs)) (combine m w) ->
  DM.wscore_from vadd acc m w =
  Ok (fold_left vadd (map (fun rs => nth (snd rs) (fst rs) d) (combine m w)) acc).
Proof.
  induction m as [|row m IH]; intros w acc Hl Hf; simpl.
  - reflexivity.
  - destruct w as [|s w]; [discriminate|]. simpl in *. inversion Hf as [|? ? Hs Hrest]; subst. simpl in Hs.
    unfold DM.nth_res. rewrite (nth_error_nth' row d Hs). simpl.
    apply IH; auto.
Qed.

Section Window.
  Variables (K : nat) (sq : list nat).
  Hypothesis HK : 1 <= K.
  Hypothesis Hs : Forall (fun s => s < K) sq.

  Lemma window_sym i j : nth (i + j) sq (K - 1) < K.
  Proof. apply Forall_nth_default; auto. lia. Qed.

  Lemma window_length i M : length (DM.window K sq i M) = M.
  Proof. unfold DM.window. now rewrite map_length, seq_length. Qed.

  (* both window scores, for a matrix whose rows have at least K cells *)
  Lemma wscore_window {V} (vadd : V -> V -> V) (vzero d : V) (rows : list (list V)) i :
    Forall (fun row => K <= length row) rows ->
    DM.wscore vadd vzero rows (DM.window K sq i (length rows)) =
    Ok (fold_left vadd (window_cells d K sq rows i) vzero).
  Proof.
    intros Hr. unfold DM.wscore. rewrite (wscore_from_fold vadd d).
    - f_equal. f_equal. unfold window_cells, DM.window.
      assert (E : forall (l : list (list V)) j,
                 map (fun rs => nth (snd rs) (fst rs) d)
                     (combine l (map (fun k => nth (i + k) sq (K - 1)) (seq j (length l)))) =
                 map (fun jr => nth (nth (i + fst jr) sq (K - 1)) (snd jr) d) (combine (seq j (length l)) l)).
      { induction l as [|r l IH]; intros j; simpl; auto. f_equal. apply IH. }
      apply E.
    - now rewrite window_length.
    - unfold DM.window.
      assert (E : forall (l : list (list V)) j, Forall (fun row => K <= length row) l ->
                 Forall (fun rs => snd rs < length (fst rs))
                        (combine l (map (fun k => nth (i + k) sq (K - 1)) (seq j (length l))))).
      { induction l as [|r l IH]; intros j Hl; simpl; constructor.
        - inversion Hl; subst. simpl. pose proof (window_sym i j). lia.
        - apply IH. now inversion Hl. }
      apply E. exact Hr.
  Qed.
End Window.

(* the saturating byte sum over Z is the image of the one over nat *)
Lemma sat_fold_of_nat : forall (l : list nat) (acc : nat),
  fold_left DM.sat_add (map Z.of_nat l) (Z.of_nat acc) = Z.of_nat (fold_left sat_add l acc).
Proof.
  induction l as [|x l IH]; intros acc; simpl; auto.
  replace (DM.sat_add (Z.of_nat acc) (Z.of_nat x)) with (Z.of_nat (sat_add acc x)).
  - apply IH.
  - unfold DM.sat_add, sat_add. lia.
Qed.

Lemma window_cells_of_nat K sq (rows : list (list nat)) i :
  window_cells 0%Z K sq (map (map Z.of_nat) rows) i = map Z.of_nat (window_cells 0 K sq rows i).
Proof.
  unfold window_cells. rewrite map_length, map_map.
  assert (E : forall (l : list (list nat)) j,
             map (fun jr => nth (nth (i + fst jr) sq (K - 1)) (snd jr) 0%Z)
                 (combine (seq j (length l)) (map (map Z.of_nat) l)) =
             map (fun jr => Z.of_nat (nth (nth (i + fst jr) sq (K - 1)) (snd jr) 0))
                 (combine (seq j (length l)) l)).
  { induction l as [|r l IH]; intros j; simpl; auto. f_equal; [|apply IH].
    change 0%Z with (Z.of_nat 0). apply map_nth. }
  apply E.
Qed.

(* ---------- C08's main clause for the concrete scanner ---------- *)

(* the executable side conditions of coq/disc's binary32 theorem *)
Definition finite_nonwild (K : nat) (pssm : list (list F32.t)) : Prop :=
  Forall (fun row => Forall (fun x => F32.is_finite x = true) (DM.nonwild K row)) pssm.

Definition well_conditioned (K : nat) (pssm : list (list F32.t)) (dm : dmt) : Prop :=
  DM.well_conditioned pssm (d_factor dm) = true /\
  (Z.of_nat (length pssm) <= 16384)%Z /\
  F32.le (DM.cond_A pssm) (F32.of_Z_exp 1 126) = true.

(* coq/disc's binary32 theorem (C08_f32_main_well_conditioned_partial = DiscF32Sign.f32_main_all_factors')
   read on the concrete scanner's own score functions *)
Lemma main_clause_well_conditioned K pssm sq dm i :
    1 <= K -> Forall (fun s => s < K) sq ->
    Forall (fun row : list F32.t => K <= length row) pssm ->
    to_discrete K pssm = Ok dm ->
    finite_nonwild K pssm -> well_conditioned K pssm dm ->
    c_scale dm (score_def K sq pssm i) <= dscore_def K sq (d_data dm) i.
  Proof.
    intros HK Hs Hp Hd Hfin (Hwc & HM & HA).
    destruct (to_discrete_bridge K pssm dm Hd) as (d & Hd' & Hf & Ho & Hdata).
    set (w := DM.window K sq i (length pssm)).
    assert (Hreal : DM.real_wscore DM.f32_ops pssm w = Ok (score_def K sq pssm i)).
    { unfold DM.real_wscore, w. cbn [DM.f32_ops DM.n_add DM.n_zero].
      apply (wscore_window K sq HK Hs F32.add F32.zero F32.zero pssm i Hp). }
    assert (Hlen : length (d_data dm) = length pssm).
    { apply (to_discrete_shape K pssm dm Hd). }
    assert (Hdl : Forall (fun row : list Z => K <= length row) (map (map Z.of_nat) (d_data dm))).
    { apply Forall_map. eapply Forall_impl; [|apply (proj2 (to_discrete_shape K pssm dm Hd) Hp)].
      intros r Hr. now rewrite map_length. }
    assert (Hb : DM.disc_wscore (DM.d_data d) w = Ok (Z.of_nat (dscore_def K sq (d_data dm) i))).
    { unfold DM.disc_wscore, w. rewrite Hdata.
      replace (length pssm) with (length (map (map Z.of_nat) (d_data dm))) by (now rewrite map_length).
      rewrite (wscore_window K sq HK Hs DM.sat_add 0%Z 0%Z _ i Hdl).
      f_equal. rewrite window_cells_of_nat. change 0%Z with (Z.of_nat 0) at 1.
      apply sat_fold_of_nat. }
    rewrite <- Hf in Hwc.
    pose proof (DiscF32Sign.f32_main_all_factors' K pssm d w _ _ Hfin Hd' Hreal Hb Hwc HM HA) as Hmain.
    unfold DM.scale in Hmain. rewrite Hf, Ho in Hmain.
    rewrite c_scale_eq. lia.
  Qed.

(* for the environment Scanner::new builds *)
Lemma env_main_clause K C pssm sq wrap v :
  wf_input K C pssm sq wrap -> c_env K C pssm sq wrap = Ok v ->
  finite_nonwild K pssm -> well_conditioned K pssm (ce_dm v) ->
  forall i, c_scale (ce_dm v) (score_def K sq pssm i) <= dscore_def K sq (d_data (ce_dm v)) i.
Proof.
  intros (HK & HC & HM & Hw & Hp & Hs) Henv Hfin Hwc i.
  destruct (env_fields K C pssm sq wrap v Henv) as (_ & _ & _ & _ & _ & Hd & _).
  exact (main_clause_well_conditioned K pssm sq (ce_dm v) i HK Hs Hp Hd Hfin Hwc).
Qed.

(* the instance ConcreteProofs.Ex meets the side conditions *)
Lemma Ex_finite : finite_nonwild 5 Ex.pssm.
Proof.
  unfold finite_nonwild, Ex.pssm. simpl.
  repeat (constructor; [repeat (constructor; [vm_compute; reflexivity|]); constructor|]). constructor.
Qed.

Lemma Ex_well_conditioned : well_conditioned 5 Ex.pssm (ce_dm Ex.env).
Proof.
  unfold well_conditioned. split; [vm_compute; reflexivity|]. split; [simpl; lia|vm_compute; reflexivity].
Qed.

(* the boolean the driver evaluates implies the side conditions *)
Lemma wc_input_sound K pssm dm :
  wc_input K pssm (d_factor dm) = true -> finite_nonwild K pssm /\ well_conditioned K pssm dm.
Proof.
  unfold wc_input. intros H.
  apply andb_prop in H. destruct H as (H & HA).
  apply andb_prop in H. destruct H as (H & HM).
  apply andb_prop in H. destruct H as (Hfin & Hwc).
  split.
  - unfold finite_nonwild. apply Forall_forall. intros row Hrow.
    rewrite forallb_forall in Hfin. specialize (Hfin row Hrow).
    apply Forall_forall. intros x Hx. rewrite forallb_forall in Hfin. now apply Hfin.
  - unfold well_conditioned. split; [exact Hwc|]. split; [now apply Z.leb_le|exact HA].
Qed.
