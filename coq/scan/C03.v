(* Property C03 — the scanner's best hit (Scanner::max, the Iterator::max override) is a
   maximum-scoring position that meets the threshold, whatever the block size and
   however many hits were consumed with next() beforehand.  Only the property theorems
   (closed by lemmas of MaxProofs), statement pins and non-vacuity examples.

   The theorems are about the model of Scanner::{next, max} in ScanModel.v (scan.rs as
   repaired: the first candidate is tested against the threshold, pruning uses
   scale(score of the best hit)), for EVERY instance of what the scanner calls (see
   C02.v).  Hypotheses, all explicit:
     order      the comparisons >=, >, == of the score type are those of a total preorder
                on non-NaN values (IEEE 754; proved for binary32 in F32Order.v)
     layout     score_position is defined on the Lm valid positions; the u8 block scores of
                rows a..e hold the byte score of position c*R + a + r in cell (r, c)
     C08        conservative, for the bounds max() derives (t = the threshold, t = the score
                of a position): score i >= t  ->  scale t <= byte score of i
     monotone   score i >= thr -> scale thr <= scale (score i)
                (all three are finitely checkable on an instance, see the examples)
   "max_after k" is: fresh scanner, k calls of next() (stopping at None), then max(). *)
From Coq Require Import List Arith Bool Lia.
From LMBase Require Import Res ListX.
From Coq Require Import ZArith.
From LMBase Require Import IEEE.
From LMScan Require Import ScanModel ScanLemmas ScanProofs MaxProofs ScanCheck CheckProofs ScanConcrete F32Order ConcreteProofs DiscLink DiscBridge.
Import ListNotations.

(* (1) The general statement: max() after any k calls of next().  Y = the hits consumed
   by those calls, s = the scanner state they leave.  Nothing panics or runs out of fuel;
   the answer is None exactly when no qualifying position remains unconsumed; otherwise
   it is an unconsumed qualifying position p with its exact score, that score is >= the
   score of every unconsumed qualifying position (hence of every unconsumed position
   whose score is not NaN); and when no hit was buffered at the time of the call, p is
   the largest index among the unconsumed positions attaining that maximum. *)
Theorem C03_max_after_prefix :
  forall (T : Type) (geb gtb eqb : T -> T -> bool) (is_nan : T -> bool) (scale : T -> nat)
         (score_position : nat -> res T) (score_rows : nat -> nat -> res dmatrix)
         (R Lm B : nat) (thr : T) (C : nat) (score : nat -> T) (dscore : nat -> nat),
    (forall x y, geb x y = true -> is_nan x = false /\ is_nan y = false) ->
    (forall x, is_nan x = false -> geb x x = true) ->
    (forall x y, is_nan x = false -> is_nan y = false -> geb x y = true \/ geb y x = true) ->
    (forall x y z, geb x y = true -> geb y z = true -> geb x z = true) ->
    (forall x y, gtb x y = geb x y && negb (geb y x)) ->
    (forall x y, eqb x y = geb x y && geb y x) ->
    1 <= B ->
    Lm <= R * C ->
    (forall i, i < Lm -> score_position i = Ok (score i)) ->
    (forall a e, a <= e -> e <= R -> score_rows a e = Ok (block_spec R Lm C dscore a e)) ->
    (forall i, i < Lm -> geb (score i) thr = true -> scale thr <= dscore i) ->
    (forall i j, i < Lm -> j < Lm -> geb (score i) (score j) = true -> scale (score j) <= dscore i) ->
    (forall i, i < Lm -> geb (score i) thr = true -> scale thr <= scale (score i)) ->
    forall k : nat,
    exists (Y : list (nat * T)) (s : st) (r : option (nat * T)),
      take_k geb is_nan scale score_position score_rows R Lm B thr k init = Ok (Y, s) /\
      smax geb gtb eqb is_nan scale score_position score_rows R Lm B thr s = Ok r /\
      max_after geb gtb eqb is_nan scale score_position score_rows R Lm B thr k = Ok r /\
      match r with
      | None =>
          forall i, i < Lm -> geb (score i) thr = true -> In i (map fst Y)
      | Some (p, x) =>
          (p < Lm /\ geb (score p) thr = true /\ ~ In p (map fst Y)) /\
          x = score p /\
          (forall i, i < Lm -> ~ In i (map fst Y) -> is_nan (score i) = false -> geb x (score i) = true) /\
          (hits s = [] ->
           forall i, i < Lm -> ~ In i (map fst Y) -> eqb (score i) x = true -> i <= p)
      end.
Proof.
  intros T geb gtb eqb is_nan scale score_position score_rows R Lm B thr C score dscore
         ge_nan ge_refl ge_total ge_trans gt_def eq_def HB HLm Hpos Hrows Hcons Hconsp Hmono k.
  destruct (max_after_prefix_run geb gtb eqb is_nan scale score_position score_rows R Lm B thr C score dscore
              ge_nan ge_refl ge_total ge_trans gt_def eq_def HB HLm Hpos Hrows Hcons Hconsp Hmono k)
    as (Y & s & r & Ht & Hs & Hp).
  exists Y, s, r. split; [exact Ht|]. split; [exact Hs|]. split.
  { unfold max_after. rewrite Ht. exact Hs. }
  destruct r as [[p x]|].
  - pose proof (max_post_all geb eqb is_nan Lm thr score ge_nan ge_total ge_trans Y _ p x Hp) as Hall.
    destruct Hp as (A & Hx & D & E). split; [|split; [exact Hx|split]].
    + destruct A as ((A1 & A2) & A3). auto.
    + intros i Hi HnY Hn. apply Hall; auto.
    + intros Hnb i Hi HnY He. apply (E Hnb); auto.
      split; auto. split; auto.
      rewrite eq_def in He. apply andb_prop in He. destruct He as (He & _).
      destruct A as ((_ & A2) & _). rewrite Hx in He. apply (ge_trans _ _ _ He A2).
  - intros i Hi Hg. destruct (in_dec Nat.eq_dec i (map fst Y)) as [Hin|Hnin]; auto.
    exfalso. apply (Hp i). split; auto. split; auto.
Qed.

(* (2) max() on a fresh scanner returns None exactly when no position meets the threshold *)
Theorem C03_max_none_iff :
  forall (T : Type) (geb gtb eqb : T -> T -> bool) (is_nan : T -> bool) (scale : T -> nat)
         (score_position : nat -> res T) (score_rows : nat -> nat -> res dmatrix)
         (R Lm B : nat) (thr : T) (C : nat) (score : nat -> T) (dscore : nat -> nat),
    (forall x y, geb x y = true -> is_nan x = false /\ is_nan y = false) ->
    (forall x, is_nan x = false -> geb x x = true) ->
    (forall x y, is_nan x = false -> is_nan y = false -> geb x y = true \/ geb y x = true) ->
    (forall x y z, geb x y = true -> geb y z = true -> geb x z = true) ->
    (forall x y, gtb x y = geb x y && negb (geb y x)) ->
    (forall x y, eqb x y = geb x y && geb y x) ->
    1 <= B ->
    Lm <= R * C ->
    (forall i, i < Lm -> score_position i = Ok (score i)) ->
    (forall a e, a <= e -> e <= R -> score_rows a e = Ok (block_spec R Lm C dscore a e)) ->
    (forall i, i < Lm -> geb (score i) thr = true -> scale thr <= dscore i) ->
    (forall i j, i < Lm -> j < Lm -> geb (score i) (score j) = true -> scale (score j) <= dscore i) ->
    (forall i, i < Lm -> geb (score i) thr = true -> scale thr <= scale (score i)) ->
    exists r,
      max_after geb gtb eqb is_nan scale score_position score_rows R Lm B thr 0 = Ok r /\
      (r = None <-> forall i, i < Lm -> geb (score i) thr = false).
Proof.
  intros T geb gtb eqb is_nan scale score_position score_rows R Lm B thr C score dscore
         ge_nan ge_refl ge_total ge_trans gt_def eq_def HB HLm Hpos Hrows Hcons Hconsp Hmono.
  destruct (max_after_prefix_run geb gtb eqb is_nan scale score_position score_rows R Lm B thr C score dscore
              ge_nan ge_refl ge_total ge_trans gt_def eq_def HB HLm Hpos Hrows Hcons Hconsp Hmono 0)
    as (Y & s & r & Ht & Hs & Hp).
  simpl in Ht. inversion Ht; subst Y s.
  exists r. split; [unfold max_after; simpl; exact Hs|].
  rewrite (max_post_none_iff geb eqb Lm thr score [] _ r Hp). split.
  - intros Hn i Hi. destruct (geb (score i) thr) eqn:Eg; auto.
    exfalso. apply (Hn i). split; [split; auto|]. simpl. tauto.
  - intros Hn i ((Hi & Hg) & _). rewrite (Hn i Hi) in Hg. discriminate.
Qed.

(* (3) otherwise its score is the maximum over all positions, and meets the threshold *)
Theorem C03_max_is_maximum :
  forall (T : Type) (geb gtb eqb : T -> T -> bool) (is_nan : T -> bool) (scale : T -> nat)
         (score_position : nat -> res T) (score_rows : nat -> nat -> res dmatrix)
         (R Lm B : nat) (thr : T) (C : nat) (score : nat -> T) (dscore : nat -> nat),
    (forall x y, geb x y = true -> is_nan x = false /\ is_nan y = false) ->
    (forall x, is_nan x = false -> geb x x = true) ->
    (forall x y, is_nan x = false -> is_nan y = false -> geb x y = true \/ geb y x = true) ->
    (forall x y z, geb x y = true -> geb y z = true -> geb x z = true) ->
    (forall x y, gtb x y = geb x y && negb (geb y x)) ->
    (forall x y, eqb x y = geb x y && geb y x) ->
    1 <= B ->
    Lm <= R * C ->
    (forall i, i < Lm -> score_position i = Ok (score i)) ->
    (forall a e, a <= e -> e <= R -> score_rows a e = Ok (block_spec R Lm C dscore a e)) ->
    (forall i, i < Lm -> geb (score i) thr = true -> scale thr <= dscore i) ->
    (forall i j, i < Lm -> j < Lm -> geb (score i) (score j) = true -> scale (score j) <= dscore i) ->
    (forall i, i < Lm -> geb (score i) thr = true -> scale thr <= scale (score i)) ->
    forall p x,
      max_after geb gtb eqb is_nan scale score_position score_rows R Lm B thr 0 = Ok (Some (p, x)) ->
      p < Lm /\ x = score p /\ geb x thr = true /\
      (forall i, i < Lm -> is_nan (score i) = false -> geb x (score i) = true) /\
      (forall i, i < Lm -> eqb (score i) x = true -> i <= p).
Proof.
  intros T geb gtb eqb is_nan scale score_position score_rows R Lm B thr C score dscore
         ge_nan ge_refl ge_total ge_trans gt_def eq_def HB HLm Hpos Hrows Hcons Hconsp Hmono p x Hm.
  destruct (max_after_prefix_run geb gtb eqb is_nan scale score_position score_rows R Lm B thr C score dscore
              ge_nan ge_refl ge_total ge_trans gt_def eq_def HB HLm Hpos Hrows Hcons Hconsp Hmono 0)
    as (Y & s & r & Ht & Hs & Hp).
  simpl in Ht. inversion Ht; subst Y s.
  unfold max_after in Hm. simpl in Hm. rewrite Hs in Hm. inversion Hm; subst r.
  pose proof (max_post_all geb eqb is_nan Lm thr score ge_nan ge_total ge_trans [] _ p x Hp) as Hall.
  destruct Hp as (((A1 & A2) & _) & Hx & D & E).
  split; [exact A1|]. split; [exact Hx|]. split; [rewrite Hx; exact A2|]. split.
  - intros i Hi Hn. apply Hall; auto.
  - intros i Hi He. apply (E eq_refl); auto. split; [split; auto|simpl; tauto].
    rewrite eq_def in He. apply andb_prop in He. destruct He as (He & _).
    rewrite Hx in He. apply (ge_trans _ _ _ He A2).
Qed.

(* (4) the answer of max() on a fresh scanner does not depend on the block size *)
Theorem C03_max_block_independent :
  forall (T : Type) (geb gtb eqb : T -> T -> bool) (is_nan : T -> bool) (scale : T -> nat)
         (score_position : nat -> res T) (score_rows : nat -> nat -> res dmatrix)
         (R Lm : nat) (thr : T) (C : nat) (score : nat -> T) (dscore : nat -> nat),
    (forall x y, geb x y = true -> is_nan x = false /\ is_nan y = false) ->
    (forall x, is_nan x = false -> geb x x = true) ->
    (forall x y, is_nan x = false -> is_nan y = false -> geb x y = true \/ geb y x = true) ->
    (forall x y z, geb x y = true -> geb y z = true -> geb x z = true) ->
    (forall x y, gtb x y = geb x y && negb (geb y x)) ->
    (forall x y, eqb x y = geb x y && geb y x) ->
    Lm <= R * C ->
    (forall i, i < Lm -> score_position i = Ok (score i)) ->
    (forall a e, a <= e -> e <= R -> score_rows a e = Ok (block_spec R Lm C dscore a e)) ->
    (forall i, i < Lm -> geb (score i) thr = true -> scale thr <= dscore i) ->
    (forall i j, i < Lm -> j < Lm -> geb (score i) (score j) = true -> scale (score j) <= dscore i) ->
    (forall i, i < Lm -> geb (score i) thr = true -> scale thr <= scale (score i)) ->
    forall B1 B2, 1 <= B1 -> 1 <= B2 ->
      max_after geb gtb eqb is_nan scale score_position score_rows R Lm B1 thr 0 =
      max_after geb gtb eqb is_nan scale score_position score_rows R Lm B2 thr 0.
Proof.
  intros T geb gtb eqb is_nan scale score_position score_rows R Lm thr C score dscore
         ge_nan ge_refl ge_total ge_trans gt_def eq_def HLm Hpos Hrows Hcons Hconsp Hmono B1 B2 HB1 HB2.
  destruct (max_after_prefix_run geb gtb eqb is_nan scale score_position score_rows R Lm B1 thr C score dscore
              ge_nan ge_refl ge_total ge_trans gt_def eq_def HB1 HLm Hpos Hrows Hcons Hconsp Hmono 0)
    as (Y1 & s1 & r1 & Ht1 & Hs1 & Hp1).
  destruct (max_after_prefix_run geb gtb eqb is_nan scale score_position score_rows R Lm B2 thr C score dscore
              ge_nan ge_refl ge_total ge_trans gt_def eq_def HB2 HLm Hpos Hrows Hcons Hconsp Hmono 0)
    as (Y2 & s2 & r2 & Ht2 & Hs2 & Hp2).
  simpl in Ht1, Ht2. inversion Ht1; subst Y1 s1. inversion Ht2; subst Y2 s2.
  unfold max_after. simpl. rewrite Hs1, Hs2. f_equal.
  simpl in Hp1, Hp2.
  assert (Hnil : (@nil (nat * T) = []) <-> True) by tauto.
  apply (max_post_unique geb eqb R Lm B1 thr C score eq_def HB1 HLm []).
  - destruct r1 as [[p x]|]; simpl in *; auto.
    destruct Hp1 as (A & Hx & D & E). repeat split; auto; try apply A.
  - destruct r2 as [[p x]|]; simpl in *; auto.
    destruct Hp2 as (A & Hx & D & E). repeat split; auto; try apply A.
Qed.

(* (5) The executable checker the driver evaluates on the IMPLEMENTATION's observations
   (scores = score_position at every position, consumed = positions returned by the k
   next() calls, result = what max() returned; binary32 bit patterns) decides this
   property: None only if every qualifying position was consumed; otherwise an
   unconsumed qualifying position with its exact score bits whose score is >= that of
   every unconsumed qualifying position. *)
Theorem C03_check_sound :
  forall (scores : list Z) (thr : Z) (consumed : list Z) (result : option (Z * Z)),
    check_c03 scores thr consumed result = true ->
    match result with
    | None =>
        forall i s, (0 <= i)%Z -> nth_error scores (Z.to_nat i) = Some s ->
                    F32.ge (F32.of_bits s) (F32.of_bits thr) = true -> In i consumed
    | Some (p, x) =>
        ((0 <= p)%Z /\ nth_error scores (Z.to_nat p) = Some x /\
         F32.ge (F32.of_bits x) (F32.of_bits thr) = true /\ ~ In p consumed) /\
        (forall i s, (0 <= i)%Z -> nth_error scores (Z.to_nat i) = Some s ->
                     F32.ge (F32.of_bits s) (F32.of_bits thr) = true -> ~ In i consumed ->
                     F32.ge (F32.of_bits x) (F32.of_bits s) = true)
    end.
Proof.
  intros scores thr consumed result H. apply check_c03_sound in H.
  destruct result as [[p x]|].
  - destruct H as ((Hq & Hn) & Hd). apply in_qual in Hq. split; [tauto|].
    intros i s Hi Hs Hg Hc. apply (Hd (i, s)); auto. apply in_qual. auto.
  - intros i s Hi Hs Hg. apply (H (i, s)). apply in_qual. auto.
Qed.

(* and it raises no false alarm: every answer with the property passes *)
Theorem C03_check_complete :
  forall (scores : list Z) (thr : Z) (consumed : list Z) (result : option (Z * Z)),
    match result with
    | None =>
        forall i s, (0 <= i)%Z -> nth_error scores (Z.to_nat i) = Some s ->
                    F32.ge (F32.of_bits s) (F32.of_bits thr) = true -> In i consumed
    | Some (p, x) =>
        ((0 <= p)%Z /\ nth_error scores (Z.to_nat p) = Some x /\
         F32.ge (F32.of_bits x) (F32.of_bits thr) = true /\ ~ In p consumed) /\
        (forall i s, (0 <= i)%Z -> nth_error scores (Z.to_nat i) = Some s ->
                     F32.ge (F32.of_bits s) (F32.of_bits thr) = true -> ~ In i consumed ->
                     F32.ge (F32.of_bits x) (F32.of_bits s) = true)
    end ->
    check_c03 scores thr consumed result = true.
Proof.
  intros scores thr consumed result H. apply check_c03_complete.
  destruct result as [[p x]|].
  - destruct H as ((Hp & Hs & Hg & Hn) & Hd). split; [split; [apply in_qual; auto|exact Hn]|].
    intros [i s] Hq Hc. apply in_qual in Hq. destruct Hq as (Hi & Hs' & Hg'). simpl in *.
    apply (Hd i s); auto.
  - intros [i s] Hq. apply in_qual in Hq. destruct Hq as (Hi & Hs & Hg). simpl. apply (H i s); auto.
Qed.

(* (6) The concrete binary32 scanner (the extracted text replayed against the
   implementation, every dispatcher arm): the order hypotheses are theorems about
   Flocq's comparison (F32Order.v) and the layout hypotheses are discharged for every
   well-formed input (ConcreteProofs.v); monotonicity of scale is a theorem for binary32
   (coq/disc C08_scale_monotone_f32 + the sign of the factor, DiscLink.env_scale_mono);
   what remains is the conservativeness of the pre-filter (C08) at the bounds max()
   derives (the threshold and the scores of positions), in finitely checkable form. *)
Theorem C03_concrete_max :
  forall (K C : nat) (pssm : list (list F32.t)) (sq : list nat) (wrap : nat) (v : cenv)
         (am : arm) (thr : F32.t) (B : nat),
    wf_input K C pssm sq wrap ->
    c_env K C pssm sq wrap = Ok v ->
    1 <= B ->
    (forall i, i < ce_Lm v -> F32.ge (cscore v i) thr = true -> ce_scale v thr <= cdscore v i) ->
    (forall i j, i < ce_Lm v -> j < ce_Lm v -> F32.ge (cscore v i) (cscore v j) = true ->
                 ce_scale v (cscore v j) <= cdscore v i) ->
    forall k : nat,
    exists (Y : list (nat * F32.t)) (r : option (nat * F32.t)),
      ce_take_max v am thr B k = Ok (Y, Ok r) /\
      ce_max_after v am thr B k = Ok r /\
      match r with
      | None =>
          forall i, i < ce_Lm v -> F32.ge (cscore v i) thr = true -> In i (map fst Y)
      | Some (p, x) =>
          (p < ce_Lm v /\ F32.ge (cscore v p) thr = true /\ ~ In p (map fst Y)) /\
          x = cscore v p /\
          (forall i, i < ce_Lm v -> ~ In i (map fst Y) -> F32.is_nan (cscore v i) = false ->
                     F32.ge x (cscore v i) = true) /\
          (* on a fresh scanner: the largest index among the maxima *)
          (k = 0 -> forall i, i < ce_Lm v -> F32.eq (cscore v i) x = true -> i <= p)
      end.
Proof.
  intros K C pssm sq wrap v am thr B Hwf Henv HB Hcons Hconsp k.
  pose proof (env_Lm_le K C pssm sq wrap v Hwf Henv) as HLm.
  assert (Hmono : forall i, i < ce_Lm v -> F32.ge (cscore v i) thr = true ->
                            ce_scale v thr <= ce_scale v (cscore v i))
    by (intros i _ Hg; exact (env_scale_mono K C pssm sq wrap v _ _ Henv Hg)).
  destruct (C03_max_after_prefix F32.t F32.ge F32.gt F32.eq F32.is_nan (ce_scale v)
              (ce_score_position v) (ce_score_rows v am) (ce_R v) (ce_Lm v) B thr (ce_C v)
              (cscore v) (cdscore v)
              F32_ge_nan F32_ge_refl F32_ge_total F32_ge_trans F32_gt_def F32_eq_def HB HLm
              (env_score_position K C pssm sq wrap v Hwf Henv)
              (env_score_rows K C pssm sq wrap v Hwf Henv am)
              Hcons Hconsp Hmono k) as (Y & s & r & Ht & Hs & Hm & Hp).
  exists Y, r. split; [|split; [exact Hm|]].
  - unfold ce_take_max. rewrite Ht. simpl. rewrite Hs. reflexivity.
  - destruct r as [[p x]|]; [|exact Hp].
    destruct Hp as (A & Hx & D & E). split; [exact A|]. split; [exact Hx|]. split; [exact D|].
    intros Hk i Hi He. subst k. simpl in Ht. inversion Ht; subst Y s.
    apply (E eq_refl i Hi); auto.
Qed.

(* the same with the scores written out (score_def: left-to-right binary32 sum of the
   cells pssm[j][s[i+j]]; dscore_def: saturating sum of the discretised cells) *)
Theorem C03_concrete_max_explicit :
  forall (K C : nat) (pssm : list (list F32.t)) (sq : list nat) (wrap : nat) (v : cenv)
         (am : arm) (thr : F32.t) (B : nat),
    wf_input K C pssm sq wrap ->
    c_env K C pssm sq wrap = Ok v ->
    1 <= B ->
    (forall i, i + length pssm <= length sq -> F32.ge (score_def K sq pssm i) thr = true ->
               c_scale (ce_dm v) thr <= dscore_def K sq (d_data (ce_dm v)) i) ->
    (forall i j, i + length pssm <= length sq -> j + length pssm <= length sq ->
                 F32.ge (score_def K sq pssm i) (score_def K sq pssm j) = true ->
                 c_scale (ce_dm v) (score_def K sq pssm j) <= dscore_def K sq (d_data (ce_dm v)) i) ->
    forall k : nat,
    exists (Y : list (nat * F32.t)) (r : option (nat * F32.t)),
      ce_take_max v am thr B k = Ok (Y, Ok r) /\
      match r with
      | None =>
          forall i, i + length pssm <= length sq -> F32.ge (score_def K sq pssm i) thr = true ->
                    In i (map fst Y)
      | Some (p, x) =>
          (p + length pssm <= length sq /\ F32.ge (score_def K sq pssm p) thr = true /\ ~ In p (map fst Y)) /\
          x = score_def K sq pssm p /\
          (forall i, i + length pssm <= length sq -> ~ In i (map fst Y) ->
                     F32.is_nan (score_def K sq pssm i) = false -> F32.ge x (score_def K sq pssm i) = true) /\
          (k = 0 -> forall i, i + length pssm <= length sq ->
                     F32.eq (score_def K sq pssm i) x = true -> i <= p)
      end.
Proof.
  intros K C pssm sq wrap v am thr B Hwf Henv HB Hc1 Hc2 k.
  pose proof (env_Lm K C pssm sq wrap v Henv) as HLm.
  assert (HM : 1 <= length pssm) by (destruct Hwf as (_ & _ & HM & _); exact HM).
  assert (Hiff : forall i, i < ce_Lm v <-> i + length pssm <= length sq) by (intros i; rewrite HLm; lia).
  pose proof (env_cscore_spec K C pssm sq wrap v Hwf Henv) as Hs.
  pose proof (env_cdscore_spec_i K C pssm sq wrap v Hwf Henv) as Hd.
  destruct (C03_concrete_max K C pssm sq wrap v am thr B Hwf Henv HB) with (k := k)
    as (Y & r & Ht & _ & Hp).
  { intros i Hi Hg. rewrite (Hs i Hi) in Hg. rewrite (Hd i Hi). apply Hc1; auto. now apply Hiff. }
  { intros i j Hi Hj Hg. rewrite (Hs i Hi), (Hs j Hj) in Hg. rewrite (Hs j Hj), (Hd i Hi).
    apply Hc2; auto; now apply Hiff. }
  exists Y, r. split; [exact Ht|].
  destruct r as [[p x]|].
  - destruct Hp as ((A1 & A2 & A3) & Hx & D & E).
    rewrite (Hs p A1) in A2, Hx.
    split; [split; [now apply Hiff|auto]|]. split; [exact Hx|]. split.
    + intros i Hi Hn Hnan. apply Hiff in Hi. rewrite <- (Hs i Hi). rewrite <- (Hs i Hi) in Hnan. now apply D.
    + intros Hk i Hi He. apply Hiff in Hi. rewrite <- (Hs i Hi) in He. now apply (E Hk).
  - intros i Hi Hg. apply Hiff in Hi. rewrite <- (Hs i Hi) in Hg. now apply Hp.
Qed.

(* and with the numeric hypotheses reduced to property C08's own main clause at every
   position (byte score >= byte image of the score), through the theorems of the
   discretisation group (coq/disc, C08_scale_monotone_f32: scale is monotone in binary32
   when the sign bit of the factor is clear; since the repair of F14b it always is) *)
Theorem C03_concrete_max_c08 :
  forall (K C : nat) (pssm : list (list F32.t)) (sq : list nat) (wrap : nat) (v : cenv)
         (am : arm) (thr : F32.t) (B : nat),
    wf_input K C pssm sq wrap ->
    c_env K C pssm sq wrap = Ok v ->
    1 <= B ->
    (forall i, i + length pssm <= length sq ->
               c_scale (ce_dm v) (score_def K sq pssm i) <= dscore_def K sq (d_data (ce_dm v)) i) ->
    forall k : nat,
    exists (Y : list (nat * F32.t)) (r : option (nat * F32.t)),
      ce_take_max v am thr B k = Ok (Y, Ok r) /\
      match r with
      | None =>
          forall i, i + length pssm <= length sq -> F32.ge (score_def K sq pssm i) thr = true ->
                    In i (map fst Y)
      | Some (p, x) =>
          (p + length pssm <= length sq /\ F32.ge (score_def K sq pssm p) thr = true /\ ~ In p (map fst Y)) /\
          x = score_def K sq pssm p /\
          (forall i, i + length pssm <= length sq -> ~ In i (map fst Y) ->
                     F32.is_nan (score_def K sq pssm i) = false -> F32.ge x (score_def K sq pssm i) = true) /\
          (k = 0 -> forall i, i + length pssm <= length sq ->
                     F32.eq (score_def K sq pssm i) x = true -> i <= p)
      end.
Proof.
  intros K C pssm sq wrap v am thr B Hwf Henv HB Hmain k.
  pose proof (env_sign_clear K C pssm sq wrap v Henv) as Hsign.
  apply (C03_concrete_max_explicit K C pssm sq wrap v am thr B Hwf Henv HB).
  - intros i Hi Hg. exact (c_scale_transfer (ce_dm v) _ thr _ Hsign (Hmain i Hi) Hg).
  - intros i j Hi Hj Hg. exact (c_scale_transfer (ce_dm v) _ _ _ Hsign (Hmain i Hi) Hg).
Qed.

(* and finally with no numeric hypothesis left, for well-conditioned matrices (coq/disc
   C08_f32_main_well_conditioned_partial through DiscBridge.v, see C02.v): for every matrix
   with finite non-wildcard cells that satisfies the executable conditioning predicate,
   every sequence, wrap >= M-1, arm, block size >= 1, threshold and number k of preceding
   next() calls, max() of the concrete binary32 scanner does not panic, returns None
   exactly when no unconsumed position scores >= thr, and otherwise an unconsumed position
   with its exact score, which is the maximum over the unconsumed positions. *)
Theorem C03_concrete_max_well_conditioned :
  forall (K C : nat) (pssm : list (list F32.t)) (sq : list nat) (wrap : nat) (v : cenv)
         (am : arm) (thr : F32.t) (B : nat),
    wf_input K C pssm sq wrap ->
    c_env K C pssm sq wrap = Ok v ->
    1 <= B ->
    finite_nonwild K pssm ->
    well_conditioned K pssm (ce_dm v) ->
    forall k : nat,
    exists (Y : list (nat * F32.t)) (r : option (nat * F32.t)),
      ce_take_max v am thr B k = Ok (Y, Ok r) /\
      match r with
      | None =>
          forall i, i + length pssm <= length sq -> F32.ge (score_def K sq pssm i) thr = true ->
                    In i (map fst Y)
      | Some (p, x) =>
          (p + length pssm <= length sq /\ F32.ge (score_def K sq pssm p) thr = true /\ ~ In p (map fst Y)) /\
          x = score_def K sq pssm p /\
          (forall i, i + length pssm <= length sq -> ~ In i (map fst Y) ->
                     F32.is_nan (score_def K sq pssm i) = false -> F32.ge x (score_def K sq pssm i) = true) /\
          (k = 0 -> forall i, i + length pssm <= length sq ->
                     F32.eq (score_def K sq pssm i) x = true -> i <= p)
      end.
Proof.
  intros K C pssm sq wrap v am thr B Hwf Henv HB Hfin Hwc k.
  apply (C03_concrete_max_c08 K C pssm sq wrap v am thr B Hwf Henv HB).
  intros i _. exact (env_main_clause K C pssm sq wrap v Hwf Henv Hfin Hwc i).
Qed.

(* the same with the side conditions as the boolean the driver evaluates (extracted
   wc_input; PROPFAIL detail `wc=true|false`) *)
Theorem C03_concrete_max_wc_checked :
  forall (K C : nat) (pssm : list (list F32.t)) (sq : list nat) (wrap : nat) (v : cenv)
         (am : arm) (thr : F32.t) (B : nat),
    wf_input K C pssm sq wrap ->
    c_env K C pssm sq wrap = Ok v ->
    1 <= B ->
    wc_input K pssm (d_factor (ce_dm v)) = true ->
    forall k : nat,
    exists (Y : list (nat * F32.t)) (r : option (nat * F32.t)),
      ce_take_max v am thr B k = Ok (Y, Ok r) /\
      match r with
      | None =>
          forall i, i + length pssm <= length sq -> F32.ge (score_def K sq pssm i) thr = true ->
                    In i (map fst Y)
      | Some (p, x) =>
          (p + length pssm <= length sq /\ F32.ge (score_def K sq pssm p) thr = true /\ ~ In p (map fst Y)) /\
          x = score_def K sq pssm p /\
          (forall i, i + length pssm <= length sq -> ~ In i (map fst Y) ->
                     F32.is_nan (score_def K sq pssm i) = false -> F32.ge x (score_def K sq pssm i) = true) /\
          (k = 0 -> forall i, i + length pssm <= length sq ->
                     F32.eq (score_def K sq pssm i) x = true -> i <= p)
      end.
Proof.
  intros K C pssm sq wrap v am thr B Hwf Henv HB Hwc k.
  destruct (wc_input_sound K pssm (ce_dm v) Hwc) as (Hfin & Hw).
  exact (C03_concrete_max_well_conditioned K C pssm sq wrap v am thr B Hwf Henv HB Hfin Hw k).
Qed.

Check C03_max_none_iff :
  forall (T : Type) (geb gtb eqb : T -> T -> bool) (is_nan : T -> bool) (scale : T -> nat)
         (score_position : nat -> res T) (score_rows : nat -> nat -> res dmatrix)
         (R Lm B : nat) (thr : T) (C : nat) (score : nat -> T) (dscore : nat -> nat),
    (forall x y, geb x y = true -> is_nan x = false /\ is_nan y = false) ->
    (forall x, is_nan x = false -> geb x x = true) ->
    (forall x y, is_nan x = false -> is_nan y = false -> geb x y = true \/ geb y x = true) ->
    (forall x y z, geb x y = true -> geb y z = true -> geb x z = true) ->
    (forall x y, gtb x y = geb x y && negb (geb y x)) ->
    (forall x y, eqb x y = geb x y && geb y x) ->
    1 <= B ->
    Lm <= R * C ->
    (forall i, i < Lm -> score_position i = Ok (score i)) ->
    (forall a e, a <= e -> e <= R -> score_rows a e = Ok (block_spec R Lm C dscore a e)) ->
    (forall i, i < Lm -> geb (score i) thr = true -> scale thr <= dscore i) ->
    (forall i j, i < Lm -> j < Lm -> geb (score i) (score j) = true -> scale (score j) <= dscore i) ->
    (forall i, i < Lm -> geb (score i) thr = true -> scale thr <= scale (score i)) ->
    exists r,
      max_after geb gtb eqb is_nan scale score_position score_rows R Lm B thr 0 = Ok r /\
      (r = None <-> forall i, i < Lm -> geb (score i) thr = false).

Check C03_max_is_maximum :
  forall (T : Type) (geb gtb eqb : T -> T -> bool) (is_nan : T -> bool) (scale : T -> nat)
         (score_position : nat -> res T) (score_rows : nat -> nat -> res dmatrix)
         (R Lm B : nat) (thr : T) (C : nat) (score : nat -> T) (dscore : nat -> nat),
    (forall x y, geb x y = true -> is_nan x = false /\ is_nan y = false) ->
    (forall x, is_nan x = false -> geb x x = true) ->
    (forall x y, is_nan x = false -> is_nan y = false -> geb x y = true \/ geb y x = true) ->
    (forall x y z, geb x y = true -> geb y z = true -> geb x z = true) ->
    (forall x y, gtb x y = geb x y && negb (geb y x)) ->
    (forall x y, eqb x y = geb x y && geb y x) ->
    1 <= B ->
    Lm <= R * C ->
    (forall i, i < Lm -> score_position i = Ok (score i)) ->
    (forall a e, a <= e -> e <= R -> score_rows a e = Ok (block_spec R Lm C dscore a e)) ->
    (forall i, i < Lm -> geb (score i) thr = true -> scale thr <= dscore i) ->
    (forall i j, i < Lm -> j < Lm -> geb (score i) (score j) = true -> scale (score j) <= dscore i) ->
    (forall i, i < Lm -> geb (score i) thr = true -> scale thr <= scale (score i)) ->
    forall p x,
      max_after geb gtb eqb is_nan scale score_position score_rows R Lm B thr 0 = Ok (Some (p, x)) ->
      p < Lm /\ x = score p /\ geb x thr = true /\
      (forall i, i < Lm -> is_nan (score i) = false -> geb x (score i) = true) /\
      (forall i, i < Lm -> eqb (score i) x = true -> i <= p).

Check C03_concrete_max_wc_checked :
  forall (K C : nat) (pssm : list (list F32.t)) (sq : list nat) (wrap : nat) (v : cenv)
         (am : arm) (thr : F32.t) (B : nat),
    wf_input K C pssm sq wrap ->
    c_env K C pssm sq wrap = Ok v ->
    1 <= B ->
    wc_input K pssm (d_factor (ce_dm v)) = true ->
    forall k : nat,
    exists (Y : list (nat * F32.t)) (r : option (nat * F32.t)),
      ce_take_max v am thr B k = Ok (Y, Ok r) /\
      match r with
      | None =>
          forall i, i + length pssm <= length sq -> F32.ge (score_def K sq pssm i) thr = true ->
                    In i (map fst Y)
      | Some (p, x) =>
          (p + length pssm <= length sq /\ F32.ge (score_def K sq pssm p) thr = true /\ ~ In p (map fst Y)) /\
          x = score_def K sq pssm p /\
          (forall i, i + length pssm <= length sq -> ~ In i (map fst Y) ->
                     F32.is_nan (score_def K sq pssm i) = false -> F32.ge x (score_def K sq pssm i) = true) /\
          (k = 0 -> forall i, i + length pssm <= length sq ->
                     F32.eq (score_def K sq pssm i) x = true -> i <= p)
      end.

(* ---------- non-vacuity ---------- *)

(* The toy instance of C02.v (natural-number scores, R = 4, C = 3, 10 valid positions,
   byte score = ceil(score / 2), scale = floor(t / 2)): positions 1 and 5 tie at the
   maximum 9, positions 3 and 9 (score 7) and 7 (score 8) have the same byte score 4. *)
Module Toy.
  Definition table : list nat := [5; 9; 2; 7; 6; 9; 1; 8; 3; 7].
  Definition score (i : nat) : nat := nth i table 0.
  Definition dscore (i : nat) : nat := (score i + 1) / 2.
  Definition geb (a b : nat) : bool := b <=? a.
  Definition gtb (a b : nat) : bool := b <? a.
  Definition eqb (a b : nat) : bool := a =? b.
  Definition is_nan (_ : nat) : bool := false.
  Definition scale (t : nat) : nat := t / 2.
  Definition Lm := 10.
  Definition score_position (i : nat) : res nat := if i <? Lm then Ok (score i) else Panic 21.
  Definition score_rows (a e : nat) : res dmatrix := Ok (block_spec 4 Lm 3 dscore a e).
  Definition run (B thr k : nat) : res (option (nat * nat)) :=
    max_after geb gtb eqb is_nan scale score_position score_rows 4 Lm B thr k.
End Toy.

Example C03_nonvacuous_hyps :
  (forall x y, Toy.geb x y = true -> Toy.is_nan x = false /\ Toy.is_nan y = false) /\
  (forall x, Toy.is_nan x = false -> Toy.geb x x = true) /\
  (forall x y, Toy.is_nan x = false -> Toy.is_nan y = false -> Toy.geb x y = true \/ Toy.geb y x = true) /\
  (forall x y z, Toy.geb x y = true -> Toy.geb y z = true -> Toy.geb x z = true) /\
  (forall x y, Toy.gtb x y = Toy.geb x y && negb (Toy.geb y x)) /\
  (forall x y, Toy.eqb x y = Toy.geb x y && Toy.geb y x) /\
  Toy.Lm <= 4 * 3 /\
  (forall i, i < Toy.Lm -> Toy.score_position i = Ok (Toy.score i)) /\
  (forall a e, a <= e -> e <= 4 -> Toy.score_rows a e = Ok (block_spec 4 Toy.Lm 3 Toy.dscore a e)) /\
  (forall thr i, i < Toy.Lm -> Toy.geb (Toy.score i) thr = true -> Toy.scale thr <= Toy.dscore i) /\
  (forall i j, i < Toy.Lm -> j < Toy.Lm -> Toy.geb (Toy.score i) (Toy.score j) = true ->
               Toy.scale (Toy.score j) <= Toy.dscore i) /\
  (forall thr i, i < Toy.Lm -> Toy.geb (Toy.score i) thr = true -> Toy.scale thr <= Toy.scale (Toy.score i)).
Proof.
  unfold Toy.geb, Toy.gtb, Toy.eqb, Toy.is_nan, Toy.scale, Toy.dscore.
  split; [intros x y _; auto|].
  split; [intros x _; apply Nat.leb_refl|].
  split; [intros x y _ _; destruct (Nat.le_ge_cases x y); [right|left]; now apply Nat.leb_le|].
  split; [intros x y z H H0; apply Nat.leb_le in H, H0; apply Nat.leb_le; lia|].
  split; [intros x y; destruct (Nat.ltb_spec y x), (Nat.leb_spec y x), (Nat.leb_spec x y); simpl; auto; lia|].
  split; [intros x y; destruct (Nat.eqb_spec x y), (Nat.leb_spec y x), (Nat.leb_spec x y); simpl; auto; lia|].
  split; [unfold Toy.Lm; lia|].
  split; [intros i Hi; unfold Toy.score_position; apply Nat.ltb_lt in Hi; now rewrite Hi|].
  split; [intros a e _ _; reflexivity|].
  split; [intros t i _ Hg; apply Nat.leb_le in Hg; apply Nat.div_le_mono; lia|].
  split; [intros i j _ _ Hg; apply Nat.leb_le in Hg; apply Nat.div_le_mono; lia|].
  intros t i _ Hg. apply Nat.leb_le in Hg. apply Nat.div_le_mono; lia.
Qed.

(* what the model answers: the maximum 9 at the larger of the tied positions for every
   block size; after one or more next() calls the best of what remains (which depends
   on the block size through the yield order); None above the maximum and when
   everything was consumed *)
Example C03_nonvacuous_runs :
  map (fun B => Toy.run B 7 0) [1; 2; 3; 4; 256] = repeat (Ok (Some (5, 9))) 5 /\
  Toy.run 2 7 1 = Ok (Some (5, 9)) /\      (* 9 consumed; 5 and 1 still buffered: last wins *)
  Toy.run 2 7 2 = Ok (Some (1, 9)) /\
  Toy.run 2 7 3 = Ok (Some (7, 8)) /\
  Toy.run 256 7 1 = Ok (Some (5, 9)) /\    (* 7 consumed *)
  Toy.run 256 7 4 = Ok (Some (1, 9)) /\
  Toy.run 3 7 5 = Ok None /\
  Toy.run 3 10 0 = Ok None /\
  Toy.run 3 0 0 = Ok (Some (5, 9)).
Proof. vm_compute. repeat split; reflexivity. Qed.

(* the numeric hypotheses are needed: with a byte score that under-estimates position 5
   (2 instead of 5) while scale 9 = 4, max() prunes it and answers with the other maximum
   at position 1; with byte scores all 0 it finds nothing - the model follows the code *)
Example C03_hypotheses_needed :
  max_after Toy.geb Toy.gtb Toy.eqb Toy.is_nan Toy.scale Toy.score_position
            (fun a e => Ok (block_spec 4 Toy.Lm 3 (fun i => if i =? 5 then 2 else Toy.dscore i) a e))
            4 Toy.Lm 2 7 0 = Ok (Some (1, 9)) /\
  max_after Toy.geb Toy.gtb Toy.eqb Toy.is_nan Toy.scale Toy.score_position
            (fun a e => Ok (block_spec 4 Toy.Lm 3 (fun _ => 0) a e))
            4 Toy.Lm 2 7 0 = Ok None.
Proof. vm_compute. split; reflexivity. Qed.

(* The concrete binary32 scanner on a real instance (ConcreteProofs.Ex: a 3-column motif
   with a -inf wildcard column, 40 symbols = 2 striped rows, threshold 1.0): every
   hypothesis of C03_concrete_max holds (the numeric ones by computation over all
   positions / pairs of positions), so its conclusion does, for every arm, block size
   and prefix length. *)
Example C03_concrete_nonvacuous :
  forall (am : arm) (B k : nat), 1 <= B ->
  exists (Y : list (nat * F32.t)) (r : option (nat * F32.t)),
    ce_take_max Ex.env am Ex.thr B k = Ok (Y, Ok r) /\
    ce_max_after Ex.env am Ex.thr B k = Ok r /\
    match r with
    | None =>
        forall i, i < ce_Lm Ex.env -> F32.ge (cscore Ex.env i) Ex.thr = true -> In i (map fst Y)
    | Some (p, x) =>
        (p < ce_Lm Ex.env /\ F32.ge (cscore Ex.env p) Ex.thr = true /\ ~ In p (map fst Y)) /\
        x = cscore Ex.env p /\
        (forall i, i < ce_Lm Ex.env -> ~ In i (map fst Y) -> F32.is_nan (cscore Ex.env i) = false ->
                   F32.ge x (cscore Ex.env i) = true) /\
        (k = 0 -> forall i, i < ce_Lm Ex.env -> F32.eq (cscore Ex.env i) x = true -> i <= p)
    end.
Proof.
  intros am B k HB.
  exact (C03_concrete_max 5 32 Ex.pssm Ex.sq 2 Ex.env am Ex.thr B Ex.wf Ex.env_ok HB
           Ex.cons_thr Ex.cons_pos k).
Qed.

(* and what it computes there: the best of 17 qualifying positions is 4.0, attained at
   positions 0, 20 and 33 (the largest index wins, for every arm and block size); after
   consuming hits the best of the rest; None above the maximum *)
Example C03_concrete_runs :
  map (fun B => option_map (fun h => (fst h, F32.to_bits (snd h)))
                  (unres None (ce_max_after Ex.env Avx2 Ex.thr B 0))) [1; 2; 256]
    = [Some (33, 1082130432%Z); Some (33, 1082130432%Z); Some (33, 1082130432%Z)] /\
  option_map (fun h => (fst h, F32.to_bits (snd h))) (unres None (ce_max_after Ex.env Generic Ex.thr 1 3))
    = Some (33, 1082130432%Z) /\
  option_map (fun h => (fst h, F32.to_bits (snd h))) (unres None (ce_max_after Ex.env Sse2 Ex.thr 256 1))
    = Some (20, 1082130432%Z) /\
  ce_max_after Ex.env Avx2 (F32.of_bits 1082130433) 1 0 = Ok None /\
  ce_max_after Ex.env Avx2 Ex.thr 1 17 = Ok None.
Proof. vm_compute. repeat split; reflexivity. Qed.

(* ... and the C08 condition of C03_concrete_max_c08 holds on that instance *)
Example C03_concrete_c08_nonvacuous :
  forall i, i + length Ex.pssm <= length Ex.sq ->
            c_scale (ce_dm Ex.env) (score_def 5 Ex.sq Ex.pssm i)
            <= dscore_def 5 Ex.sq (d_data (ce_dm Ex.env)) i.
Proof. exact Ex_main. Qed.

(* ... and so do the side conditions of C03_concrete_max_well_conditioned *)
Example C03_concrete_well_conditioned_nonvacuous :
  wf_input 5 32 Ex.pssm Ex.sq 2 /\ c_env 5 32 Ex.pssm Ex.sq 2 = Ok Ex.env /\
  finite_nonwild 5 Ex.pssm /\ well_conditioned 5 Ex.pssm (ce_dm Ex.env).
Proof. split; [exact Ex.wf|]. split; [exact Ex.env_ok|]. split; [exact Ex_finite|exact Ex_well_conditioned]. Qed.
