(* Soundness of the executable property checkers of ScanCheck.v (used by the driver to
   decide PROPFAIL on the implementation's observations). *)
From Coq Require Import List ZArith Bool Lia Permutation Sorting.Mergesort.
From LMBase Require Import IEEE.
From LMScan Require Import ScanCheck.
Import ListNotations.
Local Open Scope Z_scope.

Lemma zhit_eqb_eq (a b : zhit) : zhit_eqb a b = true -> a = b.
Proof.
  destruct a as [a1 a2], b as [b1 b2]. unfold zhit_eqb. simpl. intros H.
  apply andb_prop in H. destruct H as (H1 & H2).
  apply Z.eqb_eq in H1. apply Z.eqb_eq in H2. now subst.
Qed.

Lemma zhit_eqb_refl (a : zhit) : zhit_eqb a a = true.
Proof. unfold zhit_eqb. now rewrite !Z.eqb_refl. Qed.

Lemma zhits_eqb_eq : forall a b, zhits_eqb a b = true -> a = b.
Proof.
  induction a as [|x a IH]; destruct b as [|y b]; simpl; intros H; try discriminate; auto.
  apply andb_prop in H. destruct H as (H1 & H2).
  apply zhit_eqb_eq in H1. subst. f_equal. auto.
Qed.

(* ---------- the qualifying positions ---------- *)

Lemma in_qual_from : forall scores k thr i s,
  In (i, s) (qual_from k scores thr) <->
  exists n : nat, i = k + Z.of_nat n /\ nth_error scores n = Some s /\ bits_ge s thr = true.
Proof.
  induction scores as [|x rest IH]; intros k thr i s; simpl.
  - split; [tauto|]. intros (n & _ & H & _). destruct n; discriminate.
  - destruct (bits_ge x thr) eqn:Eg; simpl; rewrite IH; split.
    + intros [E|(n & Hi & Hn & Hg)].
      * inversion E; subst. exists 0%nat. simpl. split; [lia|auto].
      * exists (S n). simpl. split; [lia|auto].
    + intros (n & Hi & Hn & Hg). destruct n as [|n]; simpl in Hn.
      * left. inversion Hn; subst. f_equal. simpl. lia.
      * right. exists n. split; [lia|auto].
    + intros (n & Hi & Hn & Hg). exists (S n). simpl. split; [lia|auto].
    + intros (n & Hi & Hn & Hg). destruct n as [|n]; simpl in Hn.
      * inversion Hn; subst. congruence.
      * exists n. split; [lia|auto].
Qed.

(* position i (0-based) is listed with score bits s iff s is the i-th score and s >= thr *)
Lemma in_qual scores thr i s :
  In (i, s) (qual scores thr) <->
  0 <= i /\ nth_error scores (Z.to_nat i) = Some s /\ bits_ge s thr = true.
Proof.
  unfold qual. rewrite in_qual_from. split.
  - intros (n & -> & Hn & Hg). simpl. rewrite Nat2Z.id. split; [lia|auto].
  - intros (Hi & Hn & Hg). exists (Z.to_nat i). split; [lia|auto].
Qed.

Lemma qual_from_lb : forall scores k thr h, In h (qual_from k scores thr) -> k <= fst h.
Proof.
  intros scores k thr [i s] H. apply in_qual_from in H. destruct H as (n & -> & _). simpl. lia.
Qed.

Lemma NoDup_qual_from : forall scores k thr, NoDup (map fst (qual_from k scores thr)).
Proof.
  induction scores as [|x rest IH]; intros k thr; simpl; [constructor|].
  destruct (bits_ge x thr); simpl; auto.
  constructor; auto. intros Hin. apply in_map_iff in Hin. destruct Hin as (h & E & Hh).
  apply qual_from_lb in Hh. lia.
Qed.

Lemma NoDup_qual scores thr : NoDup (map fst (qual scores thr)).
Proof. apply NoDup_qual_from. Qed.

(* ---------- C02 ---------- *)

(* the hits yielded until None are, up to order, exactly the qualifying positions with
   their exact score bits: nothing missing, nothing else, nothing twice *)
Lemma check_c02_sound scores thr hits :
  check_c02 scores thr hits = true -> Permutation hits (qual scores thr).
Proof.
  unfold check_c02. intros H. apply zhits_eqb_eq in H. rewrite <- H. apply HitSort.Permuted_sort.
Qed.

Lemma check_c02_sound_pointwise scores thr hits :
  check_c02 scores thr hits = true ->
  NoDup (map fst hits) /\
  forall i s, In (i, s) hits <->
              0 <= i /\ nth_error scores (Z.to_nat i) = Some s /\ bits_ge s thr = true.
Proof.
  intros H. apply check_c02_sound in H. split.
  - apply (Permutation_NoDup (Permutation_map fst (Permutation_sym H))). apply NoDup_qual.
  - intros i s. rewrite <- in_qual. split; apply Permutation_in; auto. now apply Permutation_sym.
Qed.

(* ---------- C03 ---------- *)

Lemma in_remaining scores thr consumed h :
  In h (remaining scores thr consumed) <-> In h (qual scores thr) /\ ~ In (fst h) consumed.
Proof.
  unfold remaining. rewrite filter_In. split; intros (H1 & H2); split; auto.
  - intros Hin. apply negb_true_iff in H2.
    assert (existsb (Z.eqb (fst h)) consumed = true); [|congruence].
    apply existsb_exists. exists (fst h). split; auto. apply Z.eqb_refl.
  - apply negb_true_iff. destruct (existsb (Z.eqb (fst h)) consumed) eqn:E; auto.
    apply existsb_exists in E. destruct E as (x & Hx & Ex). apply Z.eqb_eq in Ex. subst. contradiction.
Qed.

(* None exactly when no qualifying position remains unconsumed; otherwise an unconsumed
   qualifying position with its exact score bits, whose score is >= every remaining one *)
Lemma check_c03_sound scores thr consumed result :
  check_c03 scores thr consumed result = true ->
  match result with
  | None => forall h, In h (qual scores thr) -> In (fst h) consumed
  | Some h =>
      (In h (qual scores thr) /\ ~ In (fst h) consumed) /\
      forall q, In q (qual scores thr) -> ~ In (fst q) consumed -> bits_ge (snd h) (snd q) = true
  end.
Proof.
  unfold check_c03. destruct result as [h|].
  - intros H. apply andb_prop in H. destruct H as (H1 & H2).
    apply existsb_exists in H1. destruct H1 as (x & Hx & Ex). apply zhit_eqb_eq in Ex. subst x.
    split; [now apply in_remaining|].
    intros q Hq Hn. rewrite forallb_forall in H2. apply H2. apply in_remaining. auto.
  - destruct (remaining scores thr consumed) as [|x l] eqn:Er; [|discriminate].
    intros _ h Hh. destruct (in_dec Z.eq_dec (fst h) consumed) as [Hin|Hn]; auto.
    exfalso. assert (In h (remaining scores thr consumed)) by (apply in_remaining; auto).
    rewrite Er in H. destruct H.
Qed.
