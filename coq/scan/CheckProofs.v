(* Soundness of the executable property checkers of ScanCheck.v (used by the driver to
   decide PROPFAIL on the implementation's observations). *)
From Coq Require Import List ZArith Bool Lia Permutation Sorting.Mergesort Sorting.Sorted RelationClasses.
From LMBase Require Import IEEE.
From LMScan Require Import ScanCheck.
Import ListNotations.
Local Open Scope Z_scope.

Lemma zhit_eqb_eq (a b : zhit) : zhit_eqb a b = true -> a = b.
Proof.
  destruct a as [a1 a2], b as [b1 b2]. unfold zhit_eqb. simpl. intros H.
  apply andb_prop in H. destruct H as (H1 & H2).
  apply Z.eqb_eq in H1. apply Z.eqb_eq in H2. now subst.
Qed.

Lemma zhit_eqb_refl (a : zhit) : zhit_eqb a a = true.
Proof. unfold zhit_eqb. now rewrite !Z.eqb_refl. Qed.

Lemma zhits_eqb_eq : forall a b, zhits_eqb a b = true -> a = b.
Proof.
  induction a as [|x a IH]; destruct b as [|y b]; simpl; intros H; try discriminate; auto.
  apply andb_prop in H. destruct H as (H1 & H2).
  apply zhit_eqb_eq in H1. subst. f_equal. auto.
Qed.

(* ---------- the qualifying positions ---------- *)

Lemma in_qual_from : forall scores k thr i s,
  In (i, s) (qual_from k scores thr) <->
  exists n : nat, i = k + Z.of_nat n /\ nth_error scores n = Some s /\ bits_ge s thr = true.
Proof.
  induction scores as [|x rest IH]; intros k thr i s; simpl.
  - split; [tauto|]. intros (n & _ & H & _). destruct n; discriminate.
  - destruct (bits_ge x thr) eqn:Eg; simpl; rewrite IH; split.
    + intros [E|(n & Hi & Hn & Hg)].
      * inversion E; subst. exists 0%nat. simpl. split; [lia|auto].
      * exists (S n). simpl. split; [lia|auto].
    + intros (n & Hi & Hn & Hg). destruct n as [|n]; simpl in Hn.
      * left. inversion Hn; subst. f_equal. simpl. lia.
      * right. exists n. split; [lia|auto].
    + intros (n & Hi & Hn & Hg). exists (S n). simpl. split; [lia|auto].
    + intros (n & Hi & Hn & Hg). destruct n as [|n]; simpl in Hn.
      * inversion Hn; subst. congruence.
      * exists n. split; [lia|auto].
Qed.

(* position i (0-based) is listed with score bits s iff s is the i-th score and s >= thr *)
Lemma in_qual scores thr i s :
  In (i, s) (qual scores thr) <->
  0 <= i /\ nth_error scores (Z.to_nat i) = Some s /\ bits_ge s thr = true.
Proof.
  unfold qual. rewrite in_qual_from. split.
  - intros (n & -> & Hn & Hg). simpl. rewrite Nat2Z.id. split; [lia|auto].
  - intros (Hi & Hn & Hg). exists (Z.to_nat i). split; [lia|auto].
Qed.

Lemma qual_from_lb : forall scores k thr h, In h (qual_from k scores thr) -> k <= fst h.
Proof.
  intros scores k thr [i s] H. apply in_qual_from in H. destruct H as (n & -> & _). simpl. lia.
Qed.

Lemma NoDup_qual_from : forall scores k thr, NoDup (map fst (qual_from k scores thr)).
Proof.
  induction scores as [|x rest IH]; intros k thr; simpl; [constructor|].
  destruct (bits_ge x thr); simpl; auto.
  constructor; auto. intros Hin. apply in_map_iff in Hin. destruct Hin as (h & E & Hh).
  apply qual_from_lb in Hh. lia.
Qed.

Lemma NoDup_qual scores thr : NoDup (map fst (qual scores thr)).
Proof. apply NoDup_qual_from. Qed.

(* ---------- C02 ---------- *)

(* the hits yielded until None are, up to order, exactly the qualifying positions with
   their exact score bits: nothing missing, nothing else, nothing twice *)
Lemma check_c02_sound scores thr hits :
  check_c02 scores thr hits = true -> Permutation hits (qual scores thr).
Proof.
  unfold check_c02. intros H. apply zhits_eqb_eq in H. rewrite <- H. apply HitSort.Permuted_sort.
Qed.

Lemma check_c02_sound_pointwise scores thr hits :
  check_c02 scores thr hits = true ->
  NoDup (map fst hits) /\
  forall i s, In (i, s) hits <->
              0 <= i /\ nth_error scores (Z.to_nat i) = Some s /\ bits_ge s thr = true.
Proof.
  intros H. apply check_c02_sound in H. split.
  - apply (Permutation_NoDup (Permutation_map fst (Permutation_sym H))). apply NoDup_qual.
  - intros i s. rewrite <- in_qual. split; apply Permutation_in; auto. now apply Permutation_sym.
Qed.

(* ---------- C03 ---------- *)

Lemma in_remaining scores thr consumed h :
  In h (remaining scores thr consumed) <-> In h (qual scores thr) /\ ~ In (fst h) consumed.
Proof.
  unfold remaining. rewrite filter_In. split; intros (H1 & H2); split; auto.
  - intros Hin. apply negb_true_iff in H2.
    assert (existsb (Z.eqb (fst h)) consumed = true); [|congruence].
    apply existsb_exists. exists (fst h). split; auto. apply Z.eqb_refl.
  - apply negb_true_iff. destruct (existsb (Z.eqb (fst h)) consumed) eqn:E; auto.
    apply existsb_exists in E. destruct E as (x & Hx & Ex). apply Z.eqb_eq in Ex. subst. contradiction.
Qed.

(* None exactly when no qualifying position remains unconsumed; otherwise an unconsumed
   qualifying position with its exact score bits, whose score is >= every remaining one *)
Lemma check_c03_sound scores thr consumed result :
  check_c03 scores thr consumed result = true ->
  match result with
  | None => forall h, In h (qual scores thr) -> In (fst h) consumed
  | Some h =>
      (In h (qual scores thr) /\ ~ In (fst h) consumed) /\
      forall q, In q (qual scores thr) -> ~ In (fst q) consumed -> bits_ge (snd h) (snd q) = true
  end.
Proof.
  unfold check_c03. destruct result as [h|].
  - intros H. apply andb_prop in H. destruct H as (H1 & H2).
    apply existsb_exists in H1. destruct H1 as (x & Hx & Ex). apply zhit_eqb_eq in Ex. subst x.
    split; [now apply in_remaining|].
    intros q Hq Hn. rewrite forallb_forall in H2. apply H2. apply in_remaining. auto.
  - destruct (remaining scores thr consumed) as [|x l] eqn:Er; [|discriminate].
    intros _ h Hh. destruct (in_dec Z.eq_dec (fst h) consumed) as [Hin|Hn]; auto.
    exfalso. assert (In h (remaining scores thr consumed)) by (apply in_remaining; auto).
    rewrite Er in H. destruct H.
Qed.

(* ---------- the checkers raise no false alarm (completeness) ---------- *)

Lemma zhits_eqb_refl : forall a, zhits_eqb a a = true.
Proof. induction a as [|x a IH]; simpl; auto. now rewrite zhit_eqb_refl, IH. Qed.

(* a list sorted by position and a list strictly sorted by position that are
   permutations of each other are equal *)
Lemma sorted_perm_eq : forall l1 l2 : list zhit,
  StronglySorted (fun a b => fst a <= fst b) l1 ->
  StronglySorted (fun a b => fst a < fst b) l2 ->
  Permutation l1 l2 -> l1 = l2.
Proof.
  induction l1 as [|a l1 IH]; intros l2 H1 H2 Hp.
  - apply Permutation_nil in Hp. now subst.
  - destruct l2 as [|b l2]; [apply Permutation_sym, Permutation_nil in Hp; discriminate|].
    apply StronglySorted_inv in H1. destruct H1 as (H1 & Ha).
    apply StronglySorted_inv in H2. destruct H2 as (H2 & Hb).
    rewrite Forall_forall in Ha, Hb.
    assert (a = b).
    { assert (Hin : In a (b :: l2)) by (apply (Permutation_in _ Hp); now left).
      assert (Hin' : In b (a :: l1)) by (apply (Permutation_in _ (Permutation_sym Hp)); now left).
      destruct Hin as [E|Hin]; [now subst|]. destruct Hin' as [E|Hin']; [now subst|].
      pose proof (Hb a Hin). pose proof (Ha b Hin'). lia. }
    subst b. f_equal. apply IH; auto. now apply Permutation_cons_inv in Hp.
Qed.

Lemma qual_from_sorted : forall scores k thr,
  StronglySorted (fun a b : zhit => fst a < fst b) (qual_from k scores thr).
Proof.
  induction scores as [|x rest IH]; intros k thr; simpl; [constructor|].
  destruct (bits_ge x thr); auto.
  constructor; auto. apply Forall_forall. intros h Hh. apply qual_from_lb in Hh. simpl. lia.
Qed.

Lemma sort_sorted (l : list zhit) : StronglySorted (fun a b => fst a <= fst b) (HitSort.sort l).
Proof.
  assert (Ht : Transitive (fun a b : zhit => is_true (HitOrder.leb a b))).
  { intros a b c H1 H2. unfold is_true, HitOrder.leb in *.
    apply Z.leb_le in H1. apply Z.leb_le in H2. apply Z.leb_le. lia. }
  pose proof (HitSort.StronglySorted_sort l Ht) as Hs.
  induction Hs as [|a l' Hs IH Hf]; constructor; auto.
  eapply Forall_impl; [|exact Hf]. intros b Hb. unfold is_true, HitOrder.leb in Hb. now apply Z.leb_le.
Qed.

(* every hit list that has the property passes check_c02 *)
Lemma check_c02_complete scores thr hits :
  Permutation hits (qual scores thr) -> check_c02 scores thr hits = true.
Proof.
  intros Hp. unfold check_c02.
  rewrite (sorted_perm_eq (HitSort.sort hits) (qual scores thr)).
  - apply zhits_eqb_refl.
  - apply sort_sorted.
  - apply qual_from_sorted.
  - apply (Permutation_trans (Permutation_sym (HitSort.Permuted_sort hits)) Hp).
Qed.

(* every answer of max() that has the property passes check_c03 *)
Lemma check_c03_complete scores thr consumed result :
  match result with
  | None => forall h, In h (qual scores thr) -> In (fst h) consumed
  | Some h =>
      (In h (qual scores thr) /\ ~ In (fst h) consumed) /\
      forall q, In q (qual scores thr) -> ~ In (fst q) consumed -> bits_ge (snd h) (snd q) = true
  end ->
  check_c03 scores thr consumed result = true.
Proof.
  unfold check_c03. destruct result as [h|].
  - intros ((Hq & Hn) & Hd). apply andb_true_intro. split.
    + apply existsb_exists. exists h. split; [now apply in_remaining|apply zhit_eqb_refl].
    + apply forallb_forall. intros q Hq'. apply in_remaining in Hq'. destruct Hq' as (Hq1 & Hq2). now apply Hd.
  - intros H. destruct (remaining scores thr consumed) as [|x l] eqn:Er; auto.
    assert (Hx : In x (remaining scores thr consumed)) by (rewrite Er; now left).
    apply in_remaining in Hx. destruct Hx as (Hx1 & Hx2). exfalso. apply Hx2. now apply H.
Qed.
