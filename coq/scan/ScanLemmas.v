(* Arithmetic and list lemmas used by the scanner proofs. *)
From Coq Require Import List Arith Bool Lia Permutation.
From LMBase Require Import Res ListX.
From LMScan Require Import ScanModel.
Import ListNotations.

(* ---------- striped index arithmetic: (r, c) <-> c*R + r ---------- *)

Lemma idx_div R c x : x < R -> (c * R + x) / R = c.
Proof.
  intros H. rewrite Nat.add_comm, Nat.div_add by lia. rewrite Nat.div_small by lia. lia.
Qed.

Lemma idx_mod R c x : x < R -> (c * R + x) mod R = x.
Proof.
  intros H. rewrite Nat.add_comm, Nat.mod_add by lia. apply Nat.mod_small; lia.
Qed.

Lemma idx_inj R c x c' x' : x < R -> x' < R -> c * R + x = c' * R + x' -> c = c' /\ x = x'.
Proof.
  intros H H' E. split.
  - rewrite <- (idx_div R c x H), <- (idx_div R c' x' H'). now rewrite E.
  - rewrite <- (idx_mod R c x H), <- (idx_mod R c' x' H'). now rewrite E.
Qed.

Lemma idx_lt R C c x : x < R -> c < C -> c * R + x < R * C.
Proof. intros. nia. Qed.

Lemma idx_decomp R i : 0 < R -> i = (i / R) * R + i mod R.
Proof. intros H. rewrite (Nat.div_mod i R) at 1 by lia. lia. Qed.

Lemma idx_col_lt R C i : i < R * C -> i / R < C.
Proof.
  intros H. destruct R as [|R']; [simpl in H; lia|].
  apply Nat.div_lt_upper_bound; lia.
Qed.

Lemma idx_row_lt R i : 0 < R -> i mod R < R.
Proof. intros. apply Nat.mod_upper_bound. lia. Qed.

(* ---------- option-map (filter_map) ---------- *)

Section OMap.
  Context {A B : Type}.
  Fixpoint omap (f : A -> option B) (l : list A) : list B :=
    match l with
    | [] => []
    | x :: r => match f x with Some y => y :: omap f r | None => omap f r end
    end.

  Lemma in_omap f l y : In y (omap f l) <-> exists x, In x l /\ f x = Some y.
  Proof.
    induction l as [|a l IH]; simpl.
    - split; [tauto|intros (x & [] & _)].
    - destruct (f a) eqn:E; simpl; rewrite IH; split.
      + intros [<-|(x & Hx & Hf)]; eauto.
      + intros (x & [<-|Hx] & Hf); [left; congruence|right; eauto].
      + intros (x & Hx & Hf); eauto.
      + intros (x & [<-|Hx] & Hf); [congruence|eauto].
  Qed.

  Lemma omap_app f l1 l2 : omap f (l1 ++ l2) = omap f l1 ++ omap f l2.
  Proof.
    induction l1 as [|a l IH]; simpl; auto. destruct (f a); simpl; rewrite IH; auto.
  Qed.

  Lemma omap_length f l : length (omap f l) <= length l.
  Proof. induction l as [|a l IH]; simpl; auto. destruct (f a); simpl; lia. Qed.
End OMap.

(* ---------- NoDup ---------- *)

Lemma NoDup_app_intro {A} (l1 l2 : list A) :
  NoDup l1 -> NoDup l2 -> (forall x, In x l1 -> ~ In x l2) -> NoDup (l1 ++ l2).
Proof.
  induction l1 as [|a l IH]; simpl; intros H1 H2 Hd; auto.
  inversion H1; subst. constructor.
  - rewrite in_app_iff. intros [H|H]; [auto|]. apply (Hd a); auto.
  - apply IH; auto.
Qed.

Lemma NoDup_app_inv {A} (l1 l2 : list A) :
  NoDup (l1 ++ l2) -> NoDup l1 /\ NoDup l2 /\ (forall x, In x l1 -> ~ In x l2).
Proof.
  induction l1 as [|a l IH]; simpl; intros H.
  - repeat split; auto. constructor.
  - inversion H; subst. destruct (IH H3) as (N1 & N2 & D). repeat split; auto.
    + constructor; auto. intros Hin. apply H2. apply in_or_app; auto.
    + intros x [<-|Hx] Hx2; [apply H2; apply in_or_app; auto|apply (D x); auto].
Qed.

Lemma NoDup_map_filter {A B} (g : A -> B) (f : A -> bool) (l : list A) :
  NoDup (map g l) -> NoDup (map g (filter f l)).
Proof.
  induction l as [|a l IH]; simpl; intros H; auto.
  inversion H; subst. destruct (f a); simpl; auto.
  constructor; auto. intros Hin. apply H2.
  apply in_map_iff in Hin. destruct Hin as (x & Hx & Hin). apply filter_In in Hin.
  apply in_map_iff. exists x. tauto.
Qed.

(* the first components of an option-map whose results keep a key of the source *)
Lemma NoDup_map_omap {A B K} (g : A -> K) (k : B -> K) (q : A -> option B) (l : list A) :
  (forall x y, q x = Some y -> k y = g x) ->
  NoDup (map g l) -> NoDup (map k (omap q l)).
Proof.
  intros Hk. induction l as [|a l IH]; simpl; intros H; auto.
  inversion H; subst. destruct (q a) eqn:E; simpl; auto.
  constructor; auto. intros Hin. apply H2.
  apply in_map_iff in Hin. destruct Hin as (y & Hy & Hin).
  apply in_omap in Hin. destruct Hin as (x & Hx & Hq).
  apply in_map_iff. exists x. split; auto.
  rewrite <- (Hk _ _ Hq), Hy. apply Hk. exact E.
Qed.

Lemma NoDup_map_inj_in {A B} (g : A -> B) (l : list A) :
  (forall x y, In x l -> In y l -> g x = g y -> x = y) -> NoDup l -> NoDup (map g l).
Proof.
  induction l as [|a l IH]; simpl; intros Hinj H; [constructor|].
  inversion H; subst. constructor.
  - intros Hin. apply in_map_iff in Hin. destruct Hin as (x & Hx & Hin).
    assert (x = a) by (apply Hinj; auto). subst. auto.
  - apply IH; auto.
Qed.

Lemma NoDup_length_le_seq (l : list nat) n :
  NoDup l -> (forall x, In x l -> x < n) -> length l <= n.
Proof.
  intros Hn Hb. rewrite <- (seq_length n 0). apply NoDup_incl_length; auto.
  intros x Hx. apply in_seq. specialize (Hb x Hx). lia.
Qed.

(* ---------- coordinates of a matrix ---------- *)

Lemma in_coords d r c : In (r, c) (coords d) <-> r < length d /\ c < length (nth r d []).
Proof.
  unfold coords. rewrite in_flat_map. split.
  - intros (r' & Hr & Hin). apply in_map_iff in Hin. destruct Hin as (c' & E & Hc).
    inversion E; subst. apply in_seq in Hr. apply in_seq in Hc. lia.
  - intros (Hr & Hc). exists r. split; [apply in_seq; lia|].
    apply in_map_iff. exists c. split; auto. apply in_seq; lia.
Qed.

Lemma NoDup_coords d : NoDup (coords d).
Proof.
  unfold coords. generalize (seq_NoDup (length d) 0).
  generalize (seq 0 (length d)) as rs. induction rs as [|r rs IH]; simpl; intros H; [constructor|].
  inversion H; subst. apply NoDup_app_intro; auto.
  - apply NoDup_map_inj_in; [|apply seq_NoDup]. intros x y _ _ E. now inversion E.
  - intros [r' c'] Hin Hin2. apply in_map_iff in Hin. destruct Hin as (c & E & _). inversion E; subst.
    apply in_flat_map in Hin2. destruct Hin2 as (r2 & Hr2 & Hin2).
    apply in_map_iff in Hin2. destruct Hin2 as (c2 & E2 & _). inversion E2; subst. auto.
Qed.

Lemma in_dthreshold d t r c :
  In (r, c) (dthreshold d t) <-> r < length d /\ c < length (nth r d []) /\ t <= dget d r c.
Proof.
  unfold dthreshold. rewrite filter_In, in_coords. simpl. rewrite Nat.leb_le. tauto.
Qed.

Lemma dthreshold_rows d t r c : In (r, c) (dthreshold d t) -> r < length d.
Proof. intros H. apply in_dthreshold in H. tauto. Qed.

(* ---------- list_max ---------- *)

Lemma list_max_ge l x : In x l -> x <= list_max l.
Proof.
  intros H. pose proof (proj1 (list_max_le l (list_max l)) (le_n _)) as F.
  rewrite Forall_forall in F. auto.
Qed.

Lemma in_concat_nth (d : dmatrix) r c :
  r < length d -> c < length (nth r d []) -> In (dget d r c) (concat d).
Proof.
  intros Hr Hc. apply in_concat. exists (nth r d []). split.
  - apply nth_In; auto.
  - unfold dget. apply nth_In; auto.
Qed.

Lemma dmax_ge d r c :
  r < length d -> c < length (nth r d []) -> exists m, dmax d = Some m /\ dget d r c <= m.
Proof.
  intros Hr Hc. destruct d as [|row0 d']; [simpl in Hr; lia|].
  eexists. split; [reflexivity|]. apply list_max_ge. apply in_concat_nth; auto.
Qed.

Lemma dmax_none d : dmax d = None -> d = [].
Proof. destruct d; simpl; [auto|discriminate]. Qed.

Lemma dthreshold_nil t : dthreshold [] t = [].
Proof. reflexivity. Qed.

(* the block matrix of rows a .. a+n-1 with C columns, cell (r, c) = f (a + r) c *)
Definition mk_block (f : nat -> nat -> nat) (C a n : nat) : dmatrix :=
  map (fun r => map (fun c => f r c) (seq 0 C)) (seq a n).

Lemma mk_block_length f C a n : length (mk_block f C a n) = n.
Proof. unfold mk_block. now rewrite map_length, seq_length. Qed.

Lemma mk_block_row f C a n r :
  r < n -> nth r (mk_block f C a n) [] = map (fun c => f (a + r) c) (seq 0 C).
Proof.
  intros H. unfold mk_block.
  rewrite (nth_indep _ [] (map (fun c => f 0 c) (seq 0 C))) by (rewrite map_length, seq_length; lia).
  rewrite (map_nth (fun r => map (fun c => f r c) (seq 0 C)) (seq a n) 0 r).
  rewrite seq_nth by lia. reflexivity.
Qed.

Lemma mk_block_get f C a n r c :
  r < n -> c < C -> dget (mk_block f C a n) r c = f (a + r) c.
Proof.
  intros Hr Hc. unfold dget. rewrite mk_block_row by auto.
  rewrite (nth_indep _ 0 (f (a + r) 0)) by (rewrite map_length, seq_length; lia).
  rewrite (map_nth (fun c => f (a + r) c) (seq 0 C) 0 c). rewrite seq_nth by lia. reflexivity.
Qed.

Lemma mk_block_row_length f C a n r : r < n -> length (nth r (mk_block f C a n) []) = C.
Proof. intros H. rewrite mk_block_row by auto. now rewrite map_length, seq_length. Qed.
