(* Concrete binary32 instance of the scanner model: everything Scanner::new / next /
   max call, in IEEE binary32 (LMBase.IEEE on Flocq), for extraction and bit-exact
   replay against the implementation.  Executable definitions only.

   Modelled line by line:
     ScoringMatrix::{max_score, to_discrete, score_position}   (pwm/mod.rs)
     DiscreteMatrix::scale                                     (pwm/mod.rs)
     Index<usize> for StripedSequence                          (seq.rs)
     Score<u8>::score_rows_into, generic body and the guards of the AVX2 wrapper
       Avx2::score_u8_rows_into_shuffle, with the dispatcher table
       (Generic, Sse2 -> generic body; Avx2 -> AVX2 wrapper)   (pli/mod.rs, dispatch.rs, avx2.rs)
   Modelled by their SPEC (verified by other groups, exercised here on every run):
     the striped layout produced by Stripe::stripe + configure_wrap
       (cell (r, c) of the R + wrap rows holds symbol c*R + r, the wildcard K-1 past L),
     the AVX2 u8 kernel (= saturating sum of the discrete cells, as the generic body),
     Maximum<u8>::max and Threshold<u8>::threshold (ScanModel.dmax / dthreshold).

   Panic sites (beyond those of ScanModel.v):
     Panic 10  partial_cmp(..).unwrap() on a NaN among the non-wildcard cells
               (max_score / to_discrete, i.e. inside Scanner::new)
     Panic 11  min_by/max_by(..).unwrap() on an empty row slice (K = 1)
     Panic 20  StripedSequence::index: division by zero (no sequence row)
     Panic 21  StripedSequence::index: data[row][col] out of range
     Panic 22  score_position: row[symbol] out of range (not a symbol of the alphabet)
     Panic 30  generic score_rows_into: seq.matrix()[seq_row + j][col] out of range
               (not enough wrap rows)
     Panic 31  score_rows_into: pssm_row[symbol] out of range
     Panic 32  AVX2 wrapper: pssm.rows() - 1 underflows for an empty motif
     Panic 33  AVX2 wrapper: "not enough wrapping rows"
     Panic 34  AVX2 wrapper: "row range reaches past the end of the striped sequence matrix" *)
From Coq Require Import List Arith Bool ZArith Lia.
From LMBase Require Import Res ListX IEEE.
From LMScan Require Import ScanModel.
Import ListNotations.

Inductive arm := Generic | Sse2 | Avx2.

(* monadic map *)
Fixpoint rmapM {A B} (f : A -> res B) (l : list A) : res (list B) :=
  match l with
  | [] => Ok []
  | x :: rest => y <- f x ;; ys <- rmapM f rest ;; Ok (y :: ys)
  end.

(* ---------- ScoringMatrix -> DiscreteMatrix ---------- *)

(* Iterator::min_by(|a, b| a.partial_cmp(b).unwrap()):
   reduce(|x, y| match compare(&x, &y) { Greater => y, _ => x }) *)
Fixpoint fmin_by_from (x : F32.t) (l : list F32.t) : res F32.t :=
  match l with
  | [] => Ok x
  | y :: rest =>
      match F32.cmp x y with
      | None => Panic 10
      | Some Gt => fmin_by_from y rest
      | Some _ => fmin_by_from x rest
      end
  end.

(* Iterator::max_by(..): reduce(|x, y| match compare(&x, &y) { Greater => x, _ => y }) *)
Fixpoint fmax_by_from (x : F32.t) (l : list F32.t) : res F32.t :=
  match l with
  | [] => Ok x
  | y :: rest =>
      match F32.cmp x y with
      | None => Panic 10
      | Some Gt => fmax_by_from x rest
      | Some _ => fmax_by_from y rest
      end
  end.

Definition row_min (K : nat) (r : list F32.t) : res F32.t :=
  match firstn (K - 1) r with
  | [] => Panic 11
  | x :: rest => fmin_by_from x rest
  end.

Definition row_max (K : nat) (r : list F32.t) : res F32.t :=
  match firstn (K - 1) r with
  | [] => Panic 11
  | x :: rest => fmax_by_from x rest
  end.

(* <f32 as Sum>::sum: fold from -0.0 (Rust >= 1.83; checked against the toolchain
   by the harness: the probe line of `scan probe`) *)
Definition fsum (l : list F32.t) : F32.t := F32.sum_from F32.nzero l.

Record dmt := { d_data : list (list nat); d_factor : F32.t; d_offset : F32.t }.

Definition f255 : F32.t := F32.of_Z 255.

(* ((pssm[i][j] - offsets[i]) / factor).ceil() as u8 *)
Definition disc_cell (factor off x : F32.t) : nat :=
  Z.to_nat (F32.to_u8 (F32.ceil (F32.div (F32.sub x off) factor))).

Definition to_discrete (K : nat) (pssm : list (list F32.t)) : res dmt :=
  maxs <- rmapM (row_max K) pssm ;;
  let max_score := fsum maxs in
  offsets <- rmapM (row_min K) pssm ;;
  let offset := fsum offsets in
  (* (max_score - offset).abs() / (u8::MAX as f32)   [abs: repair of F14b, a factor of -0.0] *)
  let factor := F32.div (F32.abs (F32.sub max_score offset)) f255 in
  Ok {| d_data := map (fun ro => map (disc_cell factor (snd ro)) (fst ro)) (combine pssm offsets);
        d_factor := factor;
        d_offset := offset |}.

(* DiscreteMatrix::scale: ((score - self.offset) / self.factor).floor() as u8 *)
Definition c_scale (dm : dmt) (x : F32.t) : nat :=
  Z.to_nat (F32.to_u8 (F32.floor (F32.div (F32.sub x (d_offset dm)) (d_factor dm)))).

(* ---------- striped sequence ---------- *)

(* Stripe::stripe: rows = ceil(L / C) *)
Definition seq_rows (C L : nat) : nat := (L + (C - 1)) / C.

(* SPEC of stripe + configure_wrap(wrap): R + wrap rows of C cells, cell (r, c) holds
   symbol number c*R + r of the sequence, the wildcard K-1 when that is >= L.
   Computed column-wise (column c is the suffix of the sequence starting at c*R),
   which is the same thing (smatrix_cell in ConcreteProofs.v) and much cheaper on
   unary numbers. *)
Definition smatrix (K C : nat) (sq : list nat) (wrap : nat) : list (list nat) :=
  let R := seq_rows C (length sq) in
  let cols := map (fun c => skipn (c * R) sq) (seq 0 C) in
  map (fun r => map (fun col => nth r col (K - 1)) cols) (seq 0 (R + wrap)).

(* Index<usize> for StripedSequence: col = index / rows, row = index % rows with
   rows = self.data.rows() - self.wrap (cannot underflow: the wrap rows are part of
   the matrix).  Quotient and remainder come from one call of Nat.divmod, which is
   how Nat.div and Nat.modulo are defined (seq_index_spec in ConcreteProofs.v). *)
Definition seq_index (sm : list (list nat)) (wrap idx : nat) : res nat :=
  match length sm - wrap with
  | O => Panic 20
  | S y =>
      let qu := Nat.divmod idx y 0 y in
      let col := fst qu in
      let rw := y - snd qu in
      match nth_error sm rw with
      | None => Panic 21
      | Some srow => match nth_error srow col with None => Panic 21 | Some x => Ok x end
      end
  end.

(* ScoringMatrix::score_position: score = 0.0; for (j, row) in rows: score += row[s[pos + j]] *)
Fixpoint score_pos_from (sm : list (list nat)) (wrap : nat) (rows : list (list F32.t))
         (pos j : nat) (acc : F32.t) : res F32.t :=
  match rows with
  | [] => Ok acc
  | prow :: rest =>
      sym <- seq_index sm wrap (j + pos) ;;
      match nth_error prow sym with
      | None => Panic 22
      | Some x => score_pos_from sm wrap rest pos (S j) (F32.add acc x)
      end
  end.

Definition c_score_position (sm : list (list nat)) (wrap : nat) (pssm : list (list F32.t))
           (pos : nat) : res F32.t :=
  score_pos_from sm wrap pssm pos 0 F32.zero.

(* ---------- u8 block scores ---------- *)

(* u8::saturating_add / _mm256_adds_epu8 *)
Definition sat_add (x y : nat) : nat := Nat.min 255 (x + y).

(* one cell: score = 0; for (j, pssm_row): score.accumulate(pssm_row[seq.matrix()[seq_row + j][col]]);
   [r] is seq_row + j *)
Fixpoint dcell_from (sm : list (list nat)) (drows : list (list nat)) (r c : nat) (acc : nat) : res nat :=
  match drows with
  | [] => Ok acc
  | drow :: rest =>
      match nth_error sm r with
      | None => Panic 30
      | Some srow =>
          match nth_error srow c with
          | None => Panic 30
          | Some sym =>
              match nth_error drow sym with
              | None => Panic 31
              | Some x => dcell_from sm rest (S r) c (sat_add acc x)
              end
          end
      end
  end.

(* one row of u8 scores: for col in 0..C *)
Definition drow (C : nat) (sm : list (list nat)) (ddata : list (list nat)) (r : nat) : res (list nat) :=
  rmapM (fun c => dcell_from sm ddata r c 0) (seq 0 C).

(* [dtab] caches [drow r] for the sequence rows (a pure function of r): entry r is
   [drow .. r]; rows outside the table are computed directly (tab_get_map in
   ConcreteProofs.v: the cache never changes a result) *)
Definition tab_get {A} (f : nat -> A) (tab : list A) (i : nat) : A :=
  match nth_error tab i with Some x => x | None => f i end.

Definition score_rows_body (C : nat) (sm : list (list nat)) (ddata : list (list nat))
           (dtab : list (res (list nat))) (a e : nat) : res dmatrix :=
  rmapM (tab_get (drow C sm ddata) dtab) (seq a (e - a)).

(* Score<u8, Dna, C>::score_rows_into for Pipeline<Dna, Dispatch>, rows = a..e *)
Definition c_score_rows (am : arm) (C : nat) (sm : list (list nat)) (wrap L : nat)
           (ddata : list (list nat)) (dtab : list (res (list nat))) (a e : nat) : res dmatrix :=
  let M := length ddata in
  match am with
  | Avx2 =>
      if M =? 0 then Panic 32
      else if wrap <? M - 1 then Panic 33
      else if (L <? M) || (e <=? a) then Ok []
      else if length sm <? e + M - 1 then Panic 34
      else score_rows_body C sm ddata dtab a e
  | _ =>
      if (L <? M) || (e <=? a) then Ok []
      else score_rows_body C sm ddata dtab a e
  end.

(* ---------- the scanner on concrete data ---------- *)

(* what Scanner::new computes / borrows, plus two caches of pure functions
   (score_position at the valid positions, u8 scores of the sequence rows) *)
Record cenv := {
  ce_C : nat;
  ce_pssm : list (list F32.t);
  ce_L : nat;
  ce_wrap : nat;
  ce_dm : dmt;
  ce_sm : list (list nat);
  ce_ptab : list (res F32.t);
  ce_dtab : list (res (list nat));
}.

(* Scanner::new(&pssm, &striped): discretises eagerly *)
Definition c_env (K C : nat) (pssm : list (list F32.t)) (sq : list nat) (wrap : nat) : res cenv :=
  dm <- to_discrete K pssm ;;
  let sm := smatrix K C sq wrap in
  let L := length sq in
  Ok {| ce_C := C; ce_pssm := pssm; ce_L := L; ce_wrap := wrap; ce_dm := dm;
        ce_sm := sm;
        ce_ptab := map (c_score_position sm wrap pssm) (seq 0 ((L + 1) - length pssm));
        ce_dtab := map (drow C sm (d_data dm)) (seq 0 (length sm - wrap)) |}.

(* seq.matrix().rows().saturating_sub(seq.wrap()) *)
Definition ce_R (v : cenv) : nat := length (ce_sm v) - ce_wrap v.
(* (seq.len() + 1).saturating_sub(pssm.len()) *)
Definition ce_Lm (v : cenv) : nat := (ce_L v + 1) - length (ce_pssm v).

Definition ce_score_position (v : cenv) : nat -> res F32.t :=
  tab_get (c_score_position (ce_sm v) (ce_wrap v) (ce_pssm v)) (ce_ptab v).
Definition ce_score_rows (v : cenv) (am : arm) : nat -> nat -> res dmatrix :=
  c_score_rows am (ce_C v) (ce_sm v) (ce_wrap v) (ce_L v) (d_data (ce_dm v)) (ce_dtab v).
Definition ce_scale (v : cenv) : F32.t -> nat := c_scale (ce_dm v).

Definition fhit : Type := (nat * F32.t)%type.

(* number of cells of the sequence rows: more next() calls than that cannot yield hits *)
Definition ce_fuel (v : cenv) : nat := S (ce_R v * ce_C v).

Definition ce_collect (v : cenv) (am : arm) (thr : F32.t) (B : nat) : res (list fhit) :=
  collect F32.ge F32.is_nan (ce_scale v) (ce_score_position v) (ce_score_rows v am)
          (ce_R v) (ce_Lm v) B thr (ce_fuel v) init.

Definition ce_take (v : cenv) (am : arm) (thr : F32.t) (B k : nat) : res (list fhit) :=
  r <- take_k F32.ge F32.is_nan (ce_scale v) (ce_score_position v) (ce_score_rows v am)
             (ce_R v) (ce_Lm v) B thr k init ;;
  Ok (fst r).

Definition ce_max_after (v : cenv) (am : arm) (thr : F32.t) (B k : nat) : res (option fhit) :=
  max_after F32.ge F32.gt F32.eq F32.is_nan (ce_scale v) (ce_score_position v) (ce_score_rows v am)
            (ce_R v) (ce_Lm v) B thr k.

(* the same, also returning the hits consumed by the k calls of next() *)
Definition ce_take_max (v : cenv) (am : arm) (thr : F32.t) (B k : nat)
  : res (list fhit * res (option fhit)) :=
  r <- take_k F32.ge F32.is_nan (ce_scale v) (ce_score_position v) (ce_score_rows v am)
             (ce_R v) (ce_Lm v) B thr k init ;;
  Ok (fst r, smax F32.ge F32.gt F32.eq F32.is_nan (ce_scale v) (ce_score_position v)
                  (ce_score_rows v am) (ce_R v) (ce_Lm v) B thr (snd r)).

(* brute force: score_position at every valid position *)
Definition ce_scores (v : cenv) : list (res F32.t) :=
  map (ce_score_position v) (seq 0 (ce_Lm v)).
(* (= the list of [cscore v i], see env_scores in ConcreteProofs.v; the driver reads the cache ce_ptab) *)

(* u8 score of one position (DiscreteMatrix::score_position), for diagnostics *)
Definition ce_dscore (v : cenv) (pos : nat) : res nat :=
  let R := ce_R v in
  if R =? 0 then Panic 20
  else dcell_from (ce_sm v) (d_data (ce_dm v)) (pos mod R) (pos / R) 0.
