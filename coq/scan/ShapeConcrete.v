(* The parameterised scanner of ScanShape.v on concrete binary32 data, instantiated with
   the statement skeleton and the constants that translate/scan_skel.py reads from
   lightmotif/src/scan.rs on every run (GenScan.v).  This is the text the driver replays
   next to the hand-written instance of ScanConcrete.v; C02Source.v proves that the two are
   the same function whenever the skeleton read from the source is the reference one.
   Executable definitions only. *)
From Coq Require Import List Arith Bool ZArith.
From LMBase Require Import Res ListX IEEE.
From LMScan Require Import ScanModel ScanConcrete ScanShape GenScan.
Import ListNotations.

(* Scanner::new: row: 0, hits: Vec::new() *)
Definition gen_init : @st F32.t := {| row := gen_init_row; hits := [] |}.

(* the threshold and block size of a scanner whose setters were not called *)
Definition gen_default_threshold : F32.t := F32.of_bits gen_default_threshold_bits.

Definition ce_pcollect (v : cenv) (am : arm) (thr : F32.t) (B : nat) : res (list fhit) :=
  pcollect F32.ge F32.gt F32.eq F32.is_nan (ce_scale v) (ce_score_position v) (ce_score_rows v am)
           (ce_R v) (ce_Lm v) B thr gen_shape (ce_fuel v) gen_init.

Definition ce_ptake (v : cenv) (am : arm) (thr : F32.t) (B k : nat) : res (list fhit) :=
  r <- ptake_k F32.ge F32.gt F32.eq F32.is_nan (ce_scale v) (ce_score_position v) (ce_score_rows v am)
              (ce_R v) (ce_Lm v) B thr gen_shape k gen_init ;;
  Ok (fst r).

Definition ce_ptake_max (v : cenv) (am : arm) (thr : F32.t) (B k : nat)
  : res (list fhit * res (option fhit)) :=
  r <- ptake_k F32.ge F32.gt F32.eq F32.is_nan (ce_scale v) (ce_score_position v) (ce_score_rows v am)
              (ce_R v) (ce_Lm v) B thr gen_shape k gen_init ;;
  Ok (fst r, psmax F32.ge F32.gt F32.eq F32.is_nan (ce_scale v) (ce_score_position v)
                   (ce_score_rows v am) (ce_R v) (ce_Lm v) B thr gen_shape (snd r)).
