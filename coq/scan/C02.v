(* Property C02 (placeholder while the model/harness are brought up; theorems follow). *)
From Coq Require Import List.
