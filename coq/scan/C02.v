(* Property C02 — the scanner yields exactly the positions scoring at or above the
   threshold.  Only the property theorems (closed by lemmas of ScanProofs), statement
   pins and non-vacuity examples.

   The theorems are about the model of Scanner::next / Iterator::take / iteration to
   exhaustion in ScanModel.v (scan.rs as repaired), for EVERY instance of the things the
   scanner calls:
     T, geb            score type and the comparison `score >= threshold`
     is_nan            the assertion of Hit::new
     scale             DiscreteMatrix::scale
     score_position i  ScoringMatrix::score_position (may panic)
     score_rows a e    the u8 score matrix of the striped rows a..e (may panic)
     R, Lm, B, thr     sequence rows, number of valid positions (L+1-M, saturating),
                       block size, threshold
   C02_scan_sound needs nothing but "score_rows a e returns at most e-a rows";
   C02_scan_complete states the layout of the u8 block scores (cell (r, c) of the block
   starting at row a holds the byte score of position c*R + a + r; no rows at all when
   there is no valid position) and the conservativeness of the 8-bit pre-filter
   (property C08) as hypotheses.  The binary32 instance used for the replay
   (ScanConcrete.v) is the same text; ConcreteProofs.v discharges the shape hypothesis
   for it. *)
From Coq Require Import List Arith Bool Lia Permutation.
From LMBase Require Import Res ListX.
From Coq Require Import ZArith.
From LMBase Require Import IEEE.
From LMScan Require Import ScanModel ScanLemmas ScanProofs ScanCheck CheckProofs ScanConcrete F32Order ConcreteProofs DiscLink DiscBridge ScanSwitch SwitchProofs.
Import ListNotations.

(* (1) Soundness, unconditional (any block size incl. 0, any wrap, any matrix; whatever
   the 8-bit pre-filter does): every hit yielded by iterating until None is a valid
   position 0 <= i < L-M+1, carries exactly the score score_position computes for it,
   that score is >= threshold, and no position is yielded twice. *)
Theorem C02_scan_sound :
  forall (T : Type) (geb : T -> T -> bool) (is_nan : T -> bool) (scale : T -> nat)
         (score_position : nat -> res T) (score_rows : nat -> nat -> res dmatrix)
         (R Lm B : nat) (thr : T),
    (forall a e m, a <= e -> e <= R -> score_rows a e = Ok m -> length m <= e - a) ->
    forall (fuel : nat) (H : list (nat * T)),
      collect geb is_nan scale score_position score_rows R Lm B thr fuel init = Ok H ->
      Forall (fun h => fst h < Lm /\ score_position (fst h) = Ok (snd h) /\ geb (snd h) thr = true) H
      /\ NoDup (map fst H).
Proof.
  intros T geb is_nan scale score_position score_rows R Lm B thr Hlen fuel H Hc.
  exact (scan_sound_run geb is_nan scale score_position score_rows R Lm B thr Hlen fuel H Hc).
Qed.

(* the same for any prefix obtained with take(k) (k calls of next()) *)
Theorem C02_take_sound :
  forall (T : Type) (geb : T -> T -> bool) (is_nan : T -> bool) (scale : T -> nat)
         (score_position : nat -> res T) (score_rows : nat -> nat -> res dmatrix)
         (R Lm B : nat) (thr : T),
    (forall a e m, a <= e -> e <= R -> score_rows a e = Ok m -> length m <= e - a) ->
    forall (k : nat) (H : list (nat * T)) (s' : st),
      take_k geb is_nan scale score_position score_rows R Lm B thr k init = Ok (H, s') ->
      Forall (fun h => fst h < Lm /\ score_position (fst h) = Ok (snd h) /\ geb (snd h) thr = true) H
      /\ NoDup (map fst H).
Proof.
  intros T geb is_nan scale score_position score_rows R Lm B thr Hlen k H s' Ht.
  exact (take_sound_run geb is_nan scale score_position score_rows R Lm B thr Hlen k H s' Ht).
Qed.

(* (2) Completeness and absence of panics / non-termination.  For every block size
   B >= 1, every R, C, Lm <= R*C (this includes Lm = 0, i.e. L < M and L = 0, R = 0, R a
   multiple of B or not) and every threshold: iteration to exhaustion returns (no Panic,
   no OutOfFuel, within Lm+1 calls of next()) a list H in which position i occurs with
   score x exactly when i < Lm, score i >= thr and x = score i; no position occurs twice;
   H is a permutation of the qualifying positions listed in increasing order. *)
Theorem C02_scan_complete :
  forall (T : Type) (geb : T -> T -> bool) (is_nan : T -> bool) (scale : T -> nat)
         (score_position : nat -> res T) (score_rows : nat -> nat -> res dmatrix)
         (R Lm B : nat) (thr : T) (C : nat) (score : nat -> T) (dscore : nat -> nat),
    1 <= B ->
    Lm <= R * C ->
    (forall i, i < Lm -> score_position i = Ok (score i)) ->
    (forall a e, a <= e -> e <= R -> score_rows a e = Ok (block_spec R Lm C dscore a e)) ->
    (forall i, i < Lm -> geb (score i) thr = true -> is_nan (score i) = false) ->
    (* conservative pre-filter (C08) at the scanner's threshold *)
    (forall i, i < Lm -> geb (score i) thr = true -> scale thr <= dscore i) ->
    forall fuel, Lm < fuel ->
    exists H : list (nat * T),
      collect geb is_nan scale score_position score_rows R Lm B thr fuel init = Ok H /\
      (forall i x, In (i, x) H <-> i < Lm /\ geb (score i) thr = true /\ x = score i) /\
      NoDup (map fst H) /\
      Permutation H (omap (fun i => if geb (score i) thr then Some (i, score i) else None) (seq 0 Lm)).
Proof.
  intros T geb is_nan scale score_position score_rows R Lm B thr C score dscore
         HB HLm Hpos Hrows Hnan Hcons fuel Hf.
  assert (Hlen : forall a e m, a <= e -> e <= R -> score_rows a e = Ok m -> length m <= e - a).
  { intros a e m Ha He E. rewrite (Hrows a e Ha He) in E. inversion E; subst. apply block_spec_length. }
  destruct (scan_complete_run geb is_nan scale score_position score_rows R Lm B thr Hlen
              C score dscore HB HLm Hpos Hrows Hnan Hcons fuel Hf) as (H & Hc & Hp).
  exists H. split; [exact Hc|]. split; [|split; [|exact Hp]].
  - intros i x. split.
    + intros Hin. apply (Permutation_in _ Hp) in Hin.
      apply in_expected in Hin. unfold qualifies in Hin. simpl in Hin. tauto.
    + intros (Hi & Hg & ->). apply (Permutation_in _ (Permutation_sym Hp)).
      apply in_expected. unfold qualifies. simpl. tauto.
  - apply (Permutation_NoDup (Permutation_map fst (Permutation_sym Hp))).
    apply NoDup_expected.
Qed.

(* single calls never panic either, from any scanner state (so any interleaving of
   next() calls with the hit buffer is covered), and neither does take(k) *)
Theorem C02_next_total :
  forall (T : Type) (geb : T -> T -> bool) (is_nan : T -> bool) (scale : T -> nat)
         (score_position : nat -> res T) (score_rows : nat -> nat -> res dmatrix)
         (R Lm B : nat) (thr : T) (C : nat) (score : nat -> T) (dscore : nat -> nat),
    1 <= B ->
    Lm <= R * C ->
    (forall i, i < Lm -> score_position i = Ok (score i)) ->
    (forall a e, a <= e -> e <= R -> score_rows a e = Ok (block_spec R Lm C dscore a e)) ->
    (forall i, i < Lm -> geb (score i) thr = true -> is_nan (score i) = false) ->
    (forall s : st, exists r s',
        next geb is_nan scale score_position score_rows R Lm B thr s = Ok (r, s')) /\
    (forall k (s : st), exists H s',
        take_k geb is_nan scale score_position score_rows R Lm B thr k s = Ok (H, s')).
Proof.
  intros T geb is_nan scale score_position score_rows R Lm B thr C score dscore HB HLm Hpos Hrows Hnan.
  split.
  - exact (next_total geb is_nan scale score_position score_rows R Lm B thr C score dscore HB HLm Hpos Hrows Hnan).
  - exact (take_k_total geb is_nan scale score_position score_rows R Lm B thr C score dscore HB HLm Hpos Hrows Hnan).
Qed.

(* (3) take(k) returns the first k hits of the full iteration (all of them when fewer
   than k qualify): k distinct qualifying positions with their exact scores *)
Theorem C02_take_prefix :
  forall (T : Type) (geb : T -> T -> bool) (is_nan : T -> bool) (scale : T -> nat)
         (score_position : nat -> res T) (score_rows : nat -> nat -> res dmatrix)
         (R Lm B : nat) (thr : T) (C : nat) (score : nat -> T) (dscore : nat -> nat),
    1 <= B ->
    Lm <= R * C ->
    (forall i, i < Lm -> score_position i = Ok (score i)) ->
    (forall a e, a <= e -> e <= R -> score_rows a e = Ok (block_spec R Lm C dscore a e)) ->
    (forall i, i < Lm -> geb (score i) thr = true -> is_nan (score i) = false) ->
    (forall i, i < Lm -> geb (score i) thr = true -> scale thr <= dscore i) ->
    forall fuel k, Lm < fuel ->
    exists (H : list (nat * T)) (s' : st),
      collect geb is_nan scale score_position score_rows R Lm B thr fuel init = Ok H /\
      take_k geb is_nan scale score_position score_rows R Lm B thr k init = Ok (firstn k H, s').
Proof.
  intros T geb is_nan scale score_position score_rows R Lm B thr C score dscore
         HB HLm Hpos Hrows Hnan Hcons fuel k Hf.
  assert (Hlen : forall a e m, a <= e -> e <= R -> score_rows a e = Ok m -> length m <= e - a).
  { intros a e m Ha He E. rewrite (Hrows a e Ha He) in E. inversion E; subst. apply block_spec_length. }
  exact (scan_take_run geb is_nan scale score_position score_rows R Lm B thr Hlen
           C score dscore HB HLm Hpos Hrows Hnan Hcons fuel k Hf).
Qed.

(* (4) Blocks and coordinates.  The row ranges [a, min(a+B, R)) scored by the `while`
   loop (a = 0, B, 2B, .. < R), concatenated in order, are exactly the rows 0..R-1: they
   partition the sequence rows, whatever R is relative to a multiple of B; and
   (r, c) |-> c*R + r is a bijection from [0,R) x [0,C) onto [0, R*C). *)
Theorem C02_scan_blocks_partition :
  forall B R C, 1 <= B ->
    flat_map (block_rows B R) (block_starts (S R) B R 0) = seq 0 R /\
    (forall a, In a (block_starts (S R) B R 0) -> a < R /\ exists k, a = k * B) /\
    (forall r c, r < R -> c < C ->
       c * R + r < R * C /\ (c * R + r) / R = c /\ (c * R + r) mod R = r) /\
    (forall i, i < R * C -> i / R < C /\ i mod R < R /\ i = (i / R) * R + i mod R).
Proof.
  intros B R C HB. repeat split.
  - rewrite (block_starts_cover B R HB (S R) 0) by lia. now rewrite Nat.sub_0_r.
  - apply (block_starts_multiple B R (S R) 0 a H).
  - apply (block_starts_multiple B R (S R) 0 a H).
  - now apply idx_lt.
  - now apply idx_div.
  - now apply idx_mod.
  - now apply idx_col_lt.
  - apply idx_row_lt. destruct R; simpl in *; lia.
  - apply idx_decomp. destruct R; simpl in *; lia.
Qed.

(* ... and these are the only row ranges the scanner scores: two score_rows functions that
   agree on the ranges [kB, min(kB+B, R)), k = 0, 1, .., give the same iteration (same hits
   in the same order, same panics) *)
Theorem C02_scan_reads_blocks_only :
  forall (T : Type) (geb : T -> T -> bool) (is_nan : T -> bool) (scale : T -> nat)
         (score_position : nat -> res T) (sr sr' : nat -> nat -> res dmatrix)
         (R Lm B : nat) (thr : T),
    (forall k, k * B < R -> sr (k * B) (Nat.min (k * B + B) R) = sr' (k * B) (Nat.min (k * B + B) R)) ->
    forall fuel,
      collect geb is_nan scale score_position sr R Lm B thr fuel init =
      collect geb is_nan scale score_position sr' R Lm B thr fuel init.
Proof.
  intros T geb is_nan scale score_position sr sr' R Lm B thr H fuel.
  exact (collect_init_agree geb is_nan scale score_position sr sr' R Lm B thr H fuel).
Qed.

(* (5) The executable checker the driver evaluates on the IMPLEMENTATION's observations
   (scores = score_position at every position 0..L-M as printed by the harness, hits =
   what the scanner yielded until None, all as binary32 bit patterns) decides this
   property: when it returns true, the hit list has no duplicate position and contains
   (i, s) exactly when s is the score of position i and s >= threshold. *)
Theorem C02_check_sound :
  forall (scores : list Z) (thr : Z) (hits : list (Z * Z)),
    check_c02 scores thr hits = true ->
    Permutation hits (qual scores thr) /\
    NoDup (map fst hits) /\
    (forall i s, In (i, s) hits <->
                 (0 <= i)%Z /\ nth_error scores (Z.to_nat i) = Some s /\
                 F32.ge (F32.of_bits s) (F32.of_bits thr) = true).
Proof.
  intros scores thr hits H. split; [exact (check_c02_sound scores thr hits H)|].
  exact (check_c02_sound_pointwise scores thr hits H).
Qed.

(* and it raises no false alarm: every hit list with the property passes *)
Theorem C02_check_complete :
  forall (scores : list Z) (thr : Z) (hits : list (Z * Z)),
    NoDup (map fst hits) ->
    (forall i s, In (i, s) hits <->
                 (0 <= i)%Z /\ nth_error scores (Z.to_nat i) = Some s /\
                 F32.ge (F32.of_bits s) (F32.of_bits thr) = true) ->
    check_c02 scores thr hits = true.
Proof.
  intros scores thr hits Hnd Hin. apply check_c02_complete.
  apply NoDup_Permutation.
  - eapply NoDup_map_inv; exact Hnd.
  - eapply NoDup_map_inv; apply NoDup_qual.
  - intros [i s]. rewrite Hin. symmetry. apply in_qual.
Qed.

(* (6) The concrete binary32 scanner, i.e. the extracted text that is replayed against
   the implementation on every run (ScanConcrete.v: to_discrete, scale, score_position
   through Index<usize> of the striped sequence, the u8 block scores through the
   Generic / Sse2 / Avx2 arms with the guards of the AVX2 wrapper).  For every
   well-formed input (C >= 1 columns, a non-empty motif with rows of >= K cells, symbols
   below K, wrap >= M-1), every arm, every block size >= 1 and every threshold, the
   structural hypotheses of C02_scan_complete are discharged; what remains is the
   conservativeness of the pre-filter at the threshold (C08).  Then iteration to
   exhaustion does not panic and yields exactly the positions whose binary32 score is
   >= thr, with that score, once each. *)
Theorem C02_concrete_scan :
  forall (K C : nat) (pssm : list (list F32.t)) (sq : list nat) (wrap : nat) (v : cenv)
         (am : arm) (thr : F32.t) (B : nat),
    wf_input K C pssm sq wrap ->
    c_env K C pssm sq wrap = Ok v ->
    1 <= B ->
    (forall i, i < ce_Lm v -> F32.ge (cscore v i) thr = true -> ce_scale v thr <= cdscore v i) ->
    ce_scores v = map (fun i => Ok (cscore v i)) (seq 0 (ce_Lm v)) /\
    exists H : list (nat * F32.t),
      ce_collect v am thr B = Ok H /\
      (forall i x, In (i, x) H <-> i < ce_Lm v /\ F32.ge (cscore v i) thr = true /\ x = cscore v i) /\
      NoDup (map fst H).
Proof.
  intros K C pssm sq wrap v am thr B Hwf Henv HB Hcons.
  split; [exact (env_scores K C pssm sq wrap v Hwf Henv)|].
  pose proof (env_Lm_le K C pssm sq wrap v Hwf Henv) as HLm.
  destruct (C02_scan_complete F32.t F32.ge F32.is_nan (ce_scale v) (ce_score_position v) (ce_score_rows v am)
              (ce_R v) (ce_Lm v) B thr (ce_C v) (cscore v) (cdscore v) HB HLm
              (env_score_position K C pssm sq wrap v Hwf Henv)
              (env_score_rows K C pssm sq wrap v Hwf Henv am)
              (fun i _ Hg => proj1 (F32_ge_nan _ _ Hg))
              Hcons (ce_fuel v)) as (H & Hc & Hin & Hnd & _).
  { unfold ce_fuel. lia. }
  exists H. split; [exact Hc|]. split; [exact Hin|exact Hnd].
Qed.

(* the same with the scores written out: position i (0 <= i <= L-M) is yielded iff the
   left-to-right binary32 sum of the matrix cells pssm[j][s[i+j]], j < M, is >= thr, and it
   carries exactly that sum; the conservativeness hypothesis compares scale(thr) with the
   saturating sum of the discretised cells of the same window *)
Theorem C02_concrete_scan_explicit :
  forall (K C : nat) (pssm : list (list F32.t)) (sq : list nat) (wrap : nat) (v : cenv)
         (am : arm) (thr : F32.t) (B : nat),
    wf_input K C pssm sq wrap ->
    c_env K C pssm sq wrap = Ok v ->
    1 <= B ->
    (forall i, i + length pssm <= length sq -> F32.ge (score_def K sq pssm i) thr = true ->
               c_scale (ce_dm v) thr <= dscore_def K sq (d_data (ce_dm v)) i) ->
    exists H : list (nat * F32.t),
      ce_collect v am thr B = Ok H /\
      (forall i x, In (i, x) H <->
                   i + length pssm <= length sq /\
                   F32.ge (score_def K sq pssm i) thr = true /\ x = score_def K sq pssm i) /\
      NoDup (map fst H).
Proof.
  intros K C pssm sq wrap v am thr B Hwf Henv HB Hcons.
  pose proof (env_Lm K C pssm sq wrap v Henv) as HLm.
  assert (HM : 1 <= length pssm) by (destruct Hwf as (_ & _ & HM & _); exact HM).
  assert (Hiff : forall i, i < ce_Lm v <-> i + length pssm <= length sq) by (intros i; rewrite HLm; lia).
  destruct (C02_concrete_scan K C pssm sq wrap v am thr B Hwf Henv HB) as (_ & H & Hc & Hin & Hnd).
  { intros i Hi Hg.
    rewrite (env_cscore_spec K C pssm sq wrap v Hwf Henv i Hi) in Hg.
    rewrite (env_cdscore_spec_i K C pssm sq wrap v Hwf Henv i Hi).
    apply Hcons; auto. now apply Hiff. }
  exists H. split; [exact Hc|]. split; [|exact Hnd].
  intros i x. rewrite Hin. split.
  - intros (Hi & Hg & Hx). rewrite (env_cscore_spec K C pssm sq wrap v Hwf Henv i Hi) in Hg, Hx.
    split; [now apply Hiff|auto].
  - intros (Hi & Hg & Hx). apply Hiff in Hi.
    rewrite (env_cscore_spec K C pssm sq wrap v Hwf Henv i Hi). auto.
Qed.

(* and with the conservativeness hypothesis reduced to property C08's own main clause at
   every position (the byte score is at least the byte image of the real score), through
   the theorems of the discretisation group (coq/disc): scale is monotone in binary32 when
   the sign bit of the factor is clear (C08_scale_monotone_f32), and since the repair of
   F14b (factor = |max_score - offset| / 255) it always is (DiscLink.env_sign_clear) *)
Theorem C02_concrete_scan_c08 :
  forall (K C : nat) (pssm : list (list F32.t)) (sq : list nat) (wrap : nat) (v : cenv)
         (am : arm) (thr : F32.t) (B : nat),
    wf_input K C pssm sq wrap ->
    c_env K C pssm sq wrap = Ok v ->
    1 <= B ->
    (forall i, i + length pssm <= length sq ->
               c_scale (ce_dm v) (score_def K sq pssm i) <= dscore_def K sq (d_data (ce_dm v)) i) ->
    exists H : list (nat * F32.t),
      ce_collect v am thr B = Ok H /\
      (forall i x, In (i, x) H <->
                   i + length pssm <= length sq /\
                   F32.ge (score_def K sq pssm i) thr = true /\ x = score_def K sq pssm i) /\
      NoDup (map fst H).
Proof.
  intros K C pssm sq wrap v am thr B Hwf Henv HB Hmain.
  apply (C02_concrete_scan_explicit K C pssm sq wrap v am thr B Hwf Henv HB).
  intros i Hi Hg.
  exact (c_scale_transfer (ce_dm v) _ thr _ (env_sign_clear K C pssm sq wrap v Henv) (Hmain i Hi) Hg).
Qed.

(* and finally with no numeric hypothesis left, for well-conditioned matrices: the
   discretisation group proves C08's main clause for binary32 under its executable
   conditioning predicate (coq/disc C08_f32_main_well_conditioned_partial: finite
   non-wildcard cells; factor not NaN and either 0 or >= 8 (M+1) ulp(A), A = the sum of the
   rows' largest magnitudes; at most 16384 rows; A <= 2^126), and the two models of
   to_discrete / scale / the window scores agree (DiscBridge.v).  So, for every such matrix,
   every sequence, wrap >= M-1, arm, block size >= 1 and threshold, the concrete binary32
   scanner yields exactly the positions whose binary32 score is >= thr, once each, with
   that score, without panicking.  (Ill-conditioned matrices, known finding F14, fail the
   predicate.) *)
Theorem C02_concrete_scan_well_conditioned :
  forall (K C : nat) (pssm : list (list F32.t)) (sq : list nat) (wrap : nat) (v : cenv)
         (am : arm) (thr : F32.t) (B : nat),
    wf_input K C pssm sq wrap ->
    c_env K C pssm sq wrap = Ok v ->
    1 <= B ->
    finite_nonwild K pssm ->
    well_conditioned K pssm (ce_dm v) ->
    exists H : list (nat * F32.t),
      ce_collect v am thr B = Ok H /\
      (forall i x, In (i, x) H <->
                   i + length pssm <= length sq /\
                   F32.ge (score_def K sq pssm i) thr = true /\ x = score_def K sq pssm i) /\
      NoDup (map fst H).
Proof.
  intros K C pssm sq wrap v am thr B Hwf Henv HB Hfin Hwc.
  apply (C02_concrete_scan_c08 K C pssm sq wrap v am thr B Hwf Henv HB).
  intros i _. exact (env_main_clause K C pssm sq wrap v Hwf Henv Hfin Hwc i).
Qed.

(* the same with the side conditions as the boolean the driver evaluates on every case
   whose hits do not match (extracted wc_input; PROPFAIL detail `wc=true|false`) *)
Theorem C02_concrete_scan_wc_checked :
  forall (K C : nat) (pssm : list (list F32.t)) (sq : list nat) (wrap : nat) (v : cenv)
         (am : arm) (thr : F32.t) (B : nat),
    wf_input K C pssm sq wrap ->
    c_env K C pssm sq wrap = Ok v ->
    1 <= B ->
    wc_input K pssm (d_factor (ce_dm v)) = true ->
    exists H : list (nat * F32.t),
      ce_collect v am thr B = Ok H /\
      (forall i x, In (i, x) H <->
                   i + length pssm <= length sq /\
                   F32.ge (score_def K sq pssm i) thr = true /\ x = score_def K sq pssm i) /\
      NoDup (map fst H).
Proof.
  intros K C pssm sq wrap v am thr B Hwf Henv HB Hwc.
  destruct (wc_input_sound K pssm (ce_dm v) Hwc) as (Hfin & Hw).
  exact (C02_concrete_scan_well_conditioned K C pssm sq wrap v am thr B Hwf Henv HB Hfin Hw).
Qed.

(* soundness needs no hypothesis at all on the concrete scanner: whatever the matrix,
   sequence, wrap, block size (0 included) and arm, the hits it yields are distinct valid
   positions with their exact scores, all >= thr *)
Theorem C02_concrete_sound :
  forall (v : cenv) (am : arm) (thr : F32.t) (B : nat) (H : list (nat * F32.t)),
    ce_collect v am thr B = Ok H ->
    Forall (fun h => fst h < ce_Lm v /\ ce_score_position v (fst h) = Ok (snd h) /\
                     F32.ge (snd h) thr = true) H /\
    NoDup (map fst H).
Proof.
  intros v am thr B H Hc.
  apply (C02_scan_sound F32.t F32.ge F32.is_nan (ce_scale v) (ce_score_position v) (ce_score_rows v am)
           (ce_R v) (ce_Lm v) B thr) with (fuel := ce_fuel v); [|exact Hc].
  intros a e m _ _. exact (ce_score_rows_len v am a e m).
Qed.

(* (7) Builder setters called BETWEEN calls of next() (ScanSwitch.v: the setters only
   overwrite a field, the scanner continues from its row and its buffered hits).  After k
   calls of next() under (thr, B), lowering or keeping the threshold (thr' admits every
   score thr admits) and changing the block size to ANY B' cannot make the iteration yield
   a position twice, a padding cell or an inexact score: the k hits Y meet thr, all hits
   Y ++ H meet thr', all positions are distinct.  (Raising the threshold is different: hits
   buffered under the old threshold are still yielded, see C02_setters_raise_example.) *)
Theorem C02_setters_between_calls_sound :
  forall (T : Type) (geb : T -> T -> bool) (is_nan : T -> bool) (scale : T -> nat)
         (score_position : nat -> res T) (score_rows : nat -> nat -> res dmatrix)
         (R Lm B B' : nat) (thr thr' : T) (k fuel : nat) (Y H : list (nat * T)),
    (forall a e m, a <= e -> e <= R -> score_rows a e = Ok m -> length m <= e - a) ->
    (forall x, geb x thr = true -> geb x thr' = true) ->
    switch_collect geb is_nan scale score_position score_rows R Lm B thr k B' thr' fuel = Ok (Y, H) ->
    Forall (fun h => fst h < Lm /\ score_position (fst h) = Ok (snd h) /\ geb (snd h) thr = true) Y /\
    Forall (fun h => fst h < Lm /\ score_position (fst h) = Ok (snd h) /\ geb (snd h) thr' = true) (Y ++ H) /\
    NoDup (map fst (Y ++ H)).
Proof.
  intros T geb is_nan scale score_position score_rows R Lm B B' thr thr' k fuel Y H Hlen Hle Hs.
  exact (switch_collect_sound geb is_nan scale score_position score_rows R Lm Hlen B thr k B' thr' fuel Y H Hle Hs).
Qed.

(* the same for the extracted binary32 text the driver replays (every arm, any wrap, any
   matrix, any block sizes incl. 0): no hypothesis left but "thr' <= thr" *)
Theorem C02_concrete_setters_between_calls_sound :
  forall (v : cenv) (am : arm) (thr thr' : F32.t) (B B' k : nat) (Y H : list (nat * F32.t)),
    F32.ge thr thr' = true ->
    ce_switch_collect v am thr B k thr' B' = Ok (Y, H) ->
    Forall (fun h => fst h < ce_Lm v /\ ce_score_position v (fst h) = Ok (snd h) /\
                     F32.ge (snd h) thr' = true) (Y ++ H) /\
    NoDup (map fst (Y ++ H)).
Proof.
  intros v am thr thr' B B' k Y H Hge Hs.
  destruct (C02_setters_between_calls_sound F32.t F32.ge F32.is_nan (ce_scale v) (ce_score_position v)
              (ce_score_rows v am) (ce_R v) (ce_Lm v) B B' thr thr' k (ce_fuel v) Y H) as (_ & A & N); auto.
  - intros a e m _ _. exact (ce_score_rows_len v am a e m).
  - intros x Hx. exact (F32_ge_trans x thr thr' Hx Hge).
Qed.

Check C02_scan_sound :
  forall (T : Type) (geb : T -> T -> bool) (is_nan : T -> bool) (scale : T -> nat)
         (score_position : nat -> res T) (score_rows : nat -> nat -> res dmatrix)
         (R Lm B : nat) (thr : T),
    (forall a e m, a <= e -> e <= R -> score_rows a e = Ok m -> length m <= e - a) ->
    forall (fuel : nat) (H : list (nat * T)),
      collect geb is_nan scale score_position score_rows R Lm B thr fuel init = Ok H ->
      Forall (fun h => fst h < Lm /\ score_position (fst h) = Ok (snd h) /\ geb (snd h) thr = true) H
      /\ NoDup (map fst H).

Check C02_scan_complete :
  forall (T : Type) (geb : T -> T -> bool) (is_nan : T -> bool) (scale : T -> nat)
         (score_position : nat -> res T) (score_rows : nat -> nat -> res dmatrix)
         (R Lm B : nat) (thr : T) (C : nat) (score : nat -> T) (dscore : nat -> nat),
    1 <= B ->
    Lm <= R * C ->
    (forall i, i < Lm -> score_position i = Ok (score i)) ->
    (forall a e, a <= e -> e <= R -> score_rows a e = Ok (block_spec R Lm C dscore a e)) ->
    (forall i, i < Lm -> geb (score i) thr = true -> is_nan (score i) = false) ->
    (forall i, i < Lm -> geb (score i) thr = true -> scale thr <= dscore i) ->
    forall fuel, Lm < fuel ->
    exists H : list (nat * T),
      collect geb is_nan scale score_position score_rows R Lm B thr fuel init = Ok H /\
      (forall i x, In (i, x) H <-> i < Lm /\ geb (score i) thr = true /\ x = score i) /\
      NoDup (map fst H) /\
      Permutation H (omap (fun i => if geb (score i) thr then Some (i, score i) else None) (seq 0 Lm)).

Check C02_concrete_scan_wc_checked :
  forall (K C : nat) (pssm : list (list F32.t)) (sq : list nat) (wrap : nat) (v : cenv)
         (am : arm) (thr : F32.t) (B : nat),
    wf_input K C pssm sq wrap ->
    c_env K C pssm sq wrap = Ok v ->
    1 <= B ->
    wc_input K pssm (d_factor (ce_dm v)) = true ->
    exists H : list (nat * F32.t),
      ce_collect v am thr B = Ok H /\
      (forall i x, In (i, x) H <->
                   i + length pssm <= length sq /\
                   F32.ge (score_def K sq pssm i) thr = true /\ x = score_def K sq pssm i) /\
      NoDup (map fst H).

(* ---------- non-vacuity ---------- *)

(* A toy instance with natural-number scores: R = 4 rows, C = 3 columns, 10 valid
   positions (cells 10, 11 are padding), byte score = ceil(score / 2), scale = floor(t / 2)
   (a conservative but lossy pre-filter: position 4 passes it and fails the real test). *)
Module Toy.
  Definition table : list nat := [5; 9; 2; 7; 6; 9; 1; 8; 3; 7].
  Definition score (i : nat) : nat := nth i table 0.
  Definition dscore (i : nat) : nat := (score i + 1) / 2.
  Definition geb (a b : nat) : bool := b <=? a.
  Definition is_nan (_ : nat) : bool := false.
  Definition scale (t : nat) : nat := t / 2.
  Definition Lm := 10.
  Definition score_position (i : nat) : res nat := if i <? Lm then Ok (score i) else Panic 21.
  Definition score_rows (R : nat) (a e : nat) : res dmatrix := Ok (block_spec R Lm 3 dscore a e).
  Definition run (R B thr : nat) : res (list (nat * nat)) :=
    collect geb is_nan scale score_position (score_rows R) R Lm B thr 11 init.
End Toy.

Example C02_nonvacuous_hyps :
  forall B, 1 <= B ->
    1 <= B /\ Toy.Lm <= 4 * 3 /\
    (forall i, i < Toy.Lm -> Toy.score_position i = Ok (Toy.score i)) /\
    (forall a e, a <= e -> e <= 4 -> Toy.score_rows 4 a e = Ok (block_spec 4 Toy.Lm 3 Toy.dscore a e)) /\
    (forall i, i < Toy.Lm -> Toy.geb (Toy.score i) 7 = true -> Toy.is_nan (Toy.score i) = false) /\
    (forall i, i < Toy.Lm -> Toy.geb (Toy.score i) 7 = true -> Toy.scale 7 <= Toy.dscore i).
Proof.
  intros B HB. repeat split; auto.
  - unfold Toy.Lm. lia.
  - intros i Hi. unfold Toy.score_position. apply Nat.ltb_lt in Hi. now rewrite Hi.
  - intros i Hi. unfold Toy.Lm in Hi.
    do 10 (destruct i as [|i]; [vm_compute; intros; try discriminate; lia|]). lia.
Qed.

(* what the model yields on it: block sizes 1, 2 (R a multiple of B), 3, 4, 256 give the
   same set {1, 3, 5, 7, 9} in block-dependent (LIFO per block) order; thresholds below the minimum give
   all 10 positions and never the padding cells; thresholds above the maximum none *)
Example C02_nonvacuous_runs :
  Toy.run 4 1 7 = Ok [(9, 7); (5, 9); (1, 9); (7, 8); (3, 7)] /\
  Toy.run 4 2 7 = Ok [(9, 7); (5, 9); (1, 9); (7, 8); (3, 7)] /\
  Toy.run 4 3 7 = Ok [(9, 7); (5, 9); (1, 9); (7, 8); (3, 7)] /\
  Toy.run 4 256 7 = Ok [(7, 8); (3, 7); (9, 7); (5, 9); (1, 9)] /\
  Toy.run 4 3 0 = Ok [(6, 1); (2, 2); (9, 7); (5, 9); (1, 9); (8, 3); (4, 6); (0, 5); (7, 8); (3, 7)] /\
  Toy.run 4 2 10 = Ok [].
Proof. vm_compute. repeat split; reflexivity. Qed.

(* L < M (no valid position) and L = 0 (no row): nothing is yielded, nothing panics *)
Example C02_nonvacuous_short :
  collect Toy.geb Toy.is_nan Toy.scale (fun _ => Panic 20) (fun a e => Ok (block_spec 1 0 3 Toy.dscore a e))
          1 0 2 0 1 init = Ok [] /\
  collect Toy.geb Toy.is_nan Toy.scale (fun _ => Panic 20) (fun a e => Ok (block_spec 0 0 3 Toy.dscore a e))
          0 0 2 0 1 init = Ok [].
Proof. vm_compute. split; reflexivity. Qed.

(* the side conditions are needed.  Block size 0: the row counter never advances and the
   loop never ends (the model runs out of any fuel; the real scanner does not return).
   A pre-filter that is not conservative (here: byte scores all 0 while scale 7 = 3):
   every block is skipped and the five qualifying positions are lost - the model follows
   the code, it does not assume the property. *)
Example C02_hypotheses_needed :
  collect Toy.geb Toy.is_nan Toy.scale Toy.score_position (Toy.score_rows 4) 4 Toy.Lm 0 7 1000 init = OutOfFuel /\
  collect Toy.geb Toy.is_nan Toy.scale Toy.score_position
          (fun a e => Ok (block_spec 4 Toy.Lm 3 (fun _ => 0) a e)) 4 Toy.Lm 2 7 11 init = Ok [].
Proof. vm_compute. split; reflexivity. Qed.

(* The concrete binary32 scanner on a real instance (ConcreteProofs.Ex: a 3-column motif
   with a -inf wildcard column, 40 symbols = 2 striped rows of 32 columns, 38 valid
   positions, threshold 1.0 attained exactly at position 24): every hypothesis of
   C02_concrete_scan holds (conservativeness by computation over all positions), so its
   conclusion does, for every arm and block size. *)
Example C02_concrete_nonvacuous :
  forall (am : arm) (B : nat), 1 <= B ->
  exists H : list (nat * F32.t),
    ce_collect Ex.env am Ex.thr B = Ok H /\
    (forall i x, In (i, x) H <->
                 i < ce_Lm Ex.env /\ F32.ge (cscore Ex.env i) Ex.thr = true /\ x = cscore Ex.env i) /\
    NoDup (map fst H).
Proof.
  intros am B HB.
  exact (proj2 (C02_concrete_scan 5 32 Ex.pssm Ex.sq 2 Ex.env am Ex.thr B Ex.wf Ex.env_ok HB Ex.cons_thr)).
Qed.

(* what it computes there: 17 of the 38 positions qualify; block size 1 (two blocks) and
   256 (one block) yield the same set in different orders, under different arms *)
Example C02_concrete_runs :
  ce_R Ex.env = 2 /\ ce_Lm Ex.env = 38 /\ ce_scale Ex.env Ex.thr = 159 /\
  cdscore Ex.env 24 = 160 /\
  map fst (unres [] (ce_collect Ex.env Avx2 Ex.thr 1))
    = [26; 24; 20; 18; 8; 0; 33; 31; 29; 25; 23; 21; 17; 15; 13; 9; 5] /\
  map fst (unres [] (ce_collect Ex.env Generic Ex.thr 256))
    = [33; 31; 29; 25; 23; 21; 17; 15; 13; 9; 5; 26; 24; 20; 18; 8; 0].
Proof. vm_compute. repeat split; reflexivity. Qed.

(* ... and the C08 condition of C02_concrete_scan_c08 holds on that instance *)
Example C02_concrete_c08_nonvacuous :
  forall i, i + length Ex.pssm <= length Ex.sq ->
            c_scale (ce_dm Ex.env) (score_def 5 Ex.sq Ex.pssm i)
            <= dscore_def 5 Ex.sq (d_data (ce_dm Ex.env)) i.
Proof. exact Ex_main. Qed.

(* ... and so do the side conditions of C02_concrete_scan_well_conditioned *)
Example C02_concrete_well_conditioned_nonvacuous :
  wf_input 5 32 Ex.pssm Ex.sq 2 /\ c_env 5 32 Ex.pssm Ex.sq 2 = Ok Ex.env /\
  finite_nonwild 5 Ex.pssm /\ well_conditioned 5 Ex.pssm (ce_dm Ex.env).
Proof. split; [exact Ex.wf|]. split; [exact Ex.env_ok|]. split; [exact Ex_finite|exact Ex_well_conditioned]. Qed.


(* setters between calls on the toy instance.  After 2 calls of next() under (thr 7, B 1)
   the threshold is lowered to 3 and the block size set to 3: the buffered hit follows, then
   rows 2..3 are scanned as one block under the new threshold; rows 0..1 are not scanned again
   (positions 0, 4, 8 scoring 5, 6, 3 would meet the new threshold and are NOT yielded: the
   theorem claims soundness, not completeness), nothing is yielded twice. *)
Example C02_setters_lower_example :
  switch_collect Toy.geb Toy.is_nan Toy.scale Toy.score_position (Toy.score_rows 4) 4 Toy.Lm 1 7 2 3 3 11
  = Ok ([(9, 7); (5, 9)], [(1, 9); (7, 8); (3, 7)]).
Proof. vm_compute. reflexivity. Qed.

(* the hypothesis "thr' admits what thr admits" is needed: raising the threshold from 7 to 9
   after one call under B = 4 (all five hits of the single block are buffered) still yields
   the buffered hits (3, 7) and (9, 7), which are below the new threshold *)
Example C02_setters_raise_example :
  switch_collect Toy.geb Toy.is_nan Toy.scale Toy.score_position (Toy.score_rows 4) 4 Toy.Lm 4 7 1 4 9 11
  = Ok ([(7, 8)], [(3, 7); (9, 7); (5, 9); (1, 9)]).
Proof. vm_compute. reflexivity. Qed.
