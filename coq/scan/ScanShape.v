(* The scanner of ScanModel.v once more, PARAMETERISED by the statement skeleton of
   lightmotif/src/scan.rs that translate/scan_skel.py extracts into GenScan.v on every
   run: which comparison each test uses, whether a padding candidate is skipped
   (`continue`) or ends the candidate loop (`break`), whether the block end is clipped to
   the sequence rows, which terms make up the candidate index, in which order hits are
   pushed and popped, and which score feeds the pruning bound of max() (initially and at
   every replacement of the best hit).  Executable definitions only.  ShapeProofs.v shows that at the
   reference skeleton this is ScanModel's scanner, C02Source.v / C03Source.v restate the
   property theorems for the skeleton read from the source. *)
From Coq Require Import List Arith Bool.
From LMBase Require Import Res ListX.
From LMScan Require Import ScanModel.
Import ListNotations.

(* `a OP b` of the source, with a and b in the canonical operand order given next to each
   field below (the translator flips mirrored spellings such as `rows > self.row`) *)
Inductive cmp := CGe | CGt | CLe | CLt | CEq | CNe.

Inductive pad_action := PadContinue | PadBreak.
(* let end = (self.row + self.block_size).min(sequence_rows)   /   ... without .min(..) *)
Inductive end_expr := EndMin | EndNoMin.
(* self.hits.push(..) .. self.hits.pop()   /   push(..) .. remove(0) *)
Inductive stack_order := Lifo | Fifo.
(* what best_discrete becomes when max() replaces its best hit *)
Inductive bound_src := BoundScaleScore     (* self.dm.scale(score) *)
                     | BoundDscore         (* the candidate's own u8 score *)
                     | BoundKeep.          (* not updated *)

(* what best_discrete starts from when a buffered hit survives the filter *)
Inductive init_src := InitScaleHitScore    (* Some(hit) => self.dm.scale(hit.score) *)
                    | InitScaleThreshold.  (* Some(hit) => self.dm.scale(self.threshold) *)

(* let index = c.col * sequence_rows + self.row + c.row: which of the three terms are present
   (the translator reads the right-hand side as a sum of terms, in any order) *)
Record idx_expr := { ix_col_rows : bool; ix_block_row : bool; ix_r : bool }.

Definition ref_idx : idx_expr := {| ix_col_rows := true; ix_block_row := true; ix_r := true |}.

Definition pindex (ix : idx_expr) (R rw r c : nat) : nat :=
  (if ix_col_rows ix then c * R else 0) + (if ix_block_row ix then rw else 0) + (if ix_r ix then r else 0).

Record shape := {
  (* ---- Iterator::next ---- *)
  n_loop_hits_empty : bool;   (* while self.hits.is_empty() && ..                         *)
  n_loop_cmp : cmp;           (* self.row  OP  sequence_rows                      (<)     *)
  n_end : end_expr;
  n_gate_cmp : cmp;           (* m  OP  t   in  max(..).map_or(false, |m| ..)     (>=)    *)
  n_idx : idx_expr;           (* let index = ..                                           *)
  n_pad_cmp : cmp;            (* index  OP  max_index   guarding the skip         (>=)    *)
  n_pad_action : pad_action;
  n_thr_cmp : cmp;            (* score  OP  self.threshold                        (>=)    *)
  n_order : stack_order;
  (* ---- Iterator::max ---- *)
  m_filter_cmp : cmp;         (* hit.score  OP  self.threshold  (buffered hits)   (>=)    *)
  m_loop_cmp : cmp;           (* self.row  OP  sequence_rows                      (<)     *)
  m_end : end_expr;
  m_gate_cmp : cmp;           (* m  OP  best_discrete                             (>=)    *)
  m_init : init_src;          (* initial best_discrete when a buffered hit is kept        *)
  m_idx : idx_expr;           (* let index = ..                                           *)
  m_dscore_cmp : cmp;         (* dscore  OP  best_discrete                        (>=)    *)
  m_index_cmp : cmp;          (* index  OP  max_index                             (<)     *)
  m_better_cmp : cmp;         (* score  OP  hit.score                             (>)     *)
  m_tie_cmp : cmp;            (* score  OP  hit.score   (second disjunct)         (==)    *)
  m_tie_pos_cmp : cmp;        (* index  OP  hit.position                          (>)     *)
  m_bound : bound_src;
  m_first_cmp : cmp;          (* score  OP  self.threshold  (no best hit yet)     (>=)    *)
}.

(* the skeleton of scan.rs as repaired (commits 707d974, eff32de, 35a09bc) *)
Definition ref_shape : shape := {|
  n_loop_hits_empty := true; n_loop_cmp := CLt; n_end := EndMin; n_gate_cmp := CGe; n_idx := ref_idx;
  n_pad_cmp := CGe; n_pad_action := PadContinue; n_thr_cmp := CGe; n_order := Lifo;
  m_filter_cmp := CGe; m_loop_cmp := CLt; m_end := EndMin; m_gate_cmp := CGe; m_init := InitScaleHitScore; m_idx := ref_idx;
  m_dscore_cmp := CGe; m_index_cmp := CLt; m_better_cmp := CGt; m_tie_cmp := CEq;
  m_tie_pos_cmp := CGt; m_bound := BoundScaleScore; m_first_cmp := CGe |}.

Definition cmp_eqb (a b : cmp) : bool :=
  match a, b with
  | CGe, CGe | CGt, CGt | CLe, CLe | CLt, CLt | CEq, CEq | CNe, CNe => true
  | _, _ => false
  end.

(* integer comparison  a OP b *)
Definition cmpN (k : cmp) (a b : nat) : bool :=
  match k with
  | CGe => b <=? a | CGt => b <? a | CLe => a <=? b | CLt => a <? b
  | CEq => a =? b | CNe => negb (a =? b)
  end.

Section PScanner.
  Context {T : Type}.
  Variable geb gtb eqb : T -> T -> bool.
  Variable is_nan : T -> bool.
  Variable scale : T -> nat.
  Variable score_position : nat -> res T.
  Variable score_rows : nat -> nat -> res dmatrix.
  Variable R Lm B : nat.
  Variable thr : T.
  Variable sh : shape.

  Local Notation hit := (@hit T).
  Local Notation st := (@st T).

  (* float comparison  a OP b  (IEEE: every OP but != is false on NaN) *)
  Definition cmpT (k : cmp) (a b : T) : bool :=
    match k with
    | CGe => geb a b | CGt => gtb a b | CLe => geb b a | CLt => gtb b a
    | CEq => eqb a b | CNe => negb (eqb a b)
    end.

  Definition block_end (e : end_expr) (rw : nat) : nat :=
    match e with EndMin => Nat.min (rw + B) R | EndNoMin => rw + B end.

  Fixpoint pnext_cands (rw : nat) (cands : list (nat * nat)) (hs : list hit) : res (list hit) :=
    match cands with
    | [] => Ok hs
    | (r, c) :: rest =>
        let index := pindex (n_idx sh) R rw r c in
        if cmpN (n_pad_cmp sh) index Lm then
          match n_pad_action sh with
          | PadContinue => pnext_cands rw rest hs
          | PadBreak => Ok hs
          end
        else
          s <- score_position index ;;
          if cmpT (n_thr_cmp sh) s thr then
            h <- hit_new is_nan index s ;;
            pnext_cands rw rest (h :: hs)
          else pnext_cands rw rest hs
    end.

  Definition pnext_block (s : st) : res st :=
    let t := scale thr in
    let e := block_end (n_end sh) (row s) in
    d <- score_rows (row s) e ;;
    hs <- match dmax d with
          | Some m => if cmpN (n_gate_cmp sh) m t then pnext_cands (row s) (dthreshold d t) (hits s)
                      else Ok (hits s)
          | None => Ok (hits s)
          end ;;
    Ok {| row := row s + B; hits := hs |}.

  Definition ploop_continues (s : st) : bool :=
    (if n_loop_hits_empty sh then match hits s with [] => true | _ => false end else true)
    && cmpN (n_loop_cmp sh) (row s) R.

  Fixpoint pnext_loop (fuel : nat) (s : st) : res st :=
    match fuel with
    | O => OutOfFuel
    | S f => if ploop_continues s then s' <- pnext_block s ;; pnext_loop f s' else Ok s
    end.

  (* Vec::pop (last pushed) or Vec::remove(0) (first pushed) *)
  Definition ppop (hs : list hit) : option (hit * list hit) :=
    match n_order sh with
    | Lifo => match hs with [] => None | h :: tl => Some (h, tl) end
    | Fifo => match rev hs with [] => None | h :: tl => Some (h, rev tl) end
    end.

  Definition pnext (s : st) : res (option hit * st) :=
    s' <- pnext_loop (S R) s ;;
    match ppop (hits s') with
    | None => Ok (None, s')
    | Some (h, tl) => Ok (Some h, {| row := row s'; hits := tl |})
    end.

  Fixpoint ptake_k (k : nat) (s : st) : res (list hit * st) :=
    match k with
    | O => Ok ([], s)
    | S k' =>
        r <- pnext s ;;
        match fst r with
        | None => Ok ([], snd r)
        | Some h => r' <- ptake_k k' (snd r) ;; Ok (h :: fst r', snd r')
        end
    end.

  Fixpoint pcollect (fuel : nat) (s : st) : res (list hit) :=
    match fuel with
    | O => OutOfFuel
    | S f =>
        r <- pnext s ;;
        match fst r with
        | None => Ok []
        | Some h => l <- pcollect f (snd r) ;; Ok (h :: l)
        end
    end.

  (* ----- Iterator::max ----- *)

  Fixpoint pmax_cands (rw : nat) (d : dmatrix) (cands : list (nat * nat))
           (best : option hit) (bd : nat) : res (option hit * nat) :=
    match cands with
    | [] => Ok (best, bd)
    | (r, c) :: rest =>
        dscore <- dget_res d r c ;;
        let index := pindex (m_idx sh) R rw r c in
        if cmpN (m_dscore_cmp sh) dscore bd && cmpN (m_index_cmp sh) index Lm then
          s <- score_position index ;;
          match best with
          | Some (bp, bs) =>
              if cmpT (m_better_cmp sh) s bs || (cmpT (m_tie_cmp sh) s bs && cmpN (m_tie_pos_cmp sh) index bp) then
                h <- hit_new is_nan index s ;;
                pmax_cands rw d rest (Some h)
                           (match m_bound sh with
                            | BoundScaleScore => scale s | BoundDscore => dscore | BoundKeep => bd
                            end)
              else pmax_cands rw d rest best bd
          | None =>
              if cmpT (m_first_cmp sh) s thr then
                h <- hit_new is_nan index s ;;
                pmax_cands rw d rest (Some h) bd
              else pmax_cands rw d rest best bd
          end
        else pmax_cands rw d rest best bd
    end.

  Fixpoint pmax_loop (fuel : nat) (rw : nat) (best : option hit) (bd : nat) : res (option hit) :=
    match fuel with
    | O => OutOfFuel
    | S f =>
        if cmpN (m_loop_cmp sh) rw R then
          let e := block_end (m_end sh) rw in
          d <- score_rows rw e ;;
          r <- match dmax d with
               | Some m => if cmpN (m_gate_cmp sh) m bd then pmax_cands rw d (dthreshold d bd) best bd
                           else Ok (best, bd)
               | None => Ok (best, bd)
               end ;;
          pmax_loop f (rw + B) (fst r) (snd r)
        else Ok best
    end.

  Definition psmax (s : st) : res (option hit) :=
    b0 <- max_by_score gtb eqb (filter (fun h => cmpT (m_filter_cmp sh) (snd h) thr) (rev (hits s))) ;;
    let bd0 := match b0 with
               | Some h => match m_init sh with
                           | InitScaleHitScore => scale (snd h)
                           | InitScaleThreshold => scale thr
                           end
               | None => scale thr
               end in
    pmax_loop (S R) (row s) b0 bd0.

  Definition pmax_after (k : nat) : res (option hit) :=
    r <- ptake_k k init ;; psmax (snd r).

End PScanner.
