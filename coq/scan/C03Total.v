(* Property C03, additions of round 3 / wave 3 (independent review, notes/review-round3.md):

   (A) Scanner::max() returns (no Panic 2 `max_by ... unwrap`, no Panic 3 `dscores[c]`, no
       Panic 1 `Hit::new` assertion, no OutOfFuel) from EVERY scanner state under the layout
       hypotheses only - no hypothesis on the 8-bit pre-filter: C03_max_total (abstract),
       C03_concrete_max_total (extracted binary32 scanner, every arm, any matrix).
   (B) "The answer does not depend on the block size" for the extracted binary32 scanner, and
       not on the dispatcher arm either: C03_concrete_max_block_independent (C08 main clause
       per position as hypothesis) and _wc_checked (no numeric hypothesis).
   (C) usize arithmetic (ScanWord.v): k x next() then max() with the same block size is
       covered by C02_word_scanner_eq (C02Total.v); with `block_size(B')` called in between
       the word-level functions equal ScanSwitch's for R + B' <= W
       (C03_word_setters_max_eq), and beyond the bound max() panics (overflow checks) or
       answers with a position that was already consumed (wrapping):
       C03_word_setters_max_any_block_size_refuted. *)
From Coq Require Import List Arith Bool Lia NArith ZArith.
From LMBase Require Import Res ListX IEEE.
From LMScan Require Import ScanModel ScanLemmas ScanProofs MaxProofs ScanCheck CheckProofs ScanConcrete F32Order
     ConcreteProofs DiscLink DiscBridge ScanSwitch TotalProofs ScanWord WordProofs SatProofs GenScan WordSource ShapeConcrete ScanCheck2 Check2Proofs C03 C03Source.
Import ListNotations.

(* ---------- (A) totality ---------- *)

Theorem C03_max_total :
  forall (T : Type) (geb gtb eqb : T -> T -> bool) (is_nan : T -> bool) (scale : T -> nat)
         (score_position : nat -> res T) (score_rows : nat -> nat -> res dmatrix)
         (R Lm B : nat) (thr : T) (C : nat) (score : nat -> T) (dscore : nat -> nat),
    (forall x y, geb x y = true -> is_nan x = false /\ is_nan y = false) ->
    (forall x, is_nan x = false -> geb x x = true) ->
    (forall x y, is_nan x = false -> is_nan y = false -> geb x y = true \/ geb y x = true) ->
    (forall x y z, geb x y = true -> geb y z = true -> geb x z = true) ->
    (forall x y, gtb x y = geb x y && negb (geb y x)) ->
    (forall x y, eqb x y = geb x y && geb y x) ->
    1 <= B ->
    Lm <= R * C ->
    (forall i, i < Lm -> score_position i = Ok (score i)) ->
    (forall a e, a <= e -> e <= R -> score_rows a e = Ok (block_spec R Lm C dscore a e)) ->
    (* from any state: any row, any buffered hits *)
    (forall s : st, exists r,
        smax geb gtb eqb is_nan scale score_position score_rows R Lm B thr s = Ok r) /\
    (* k calls of next(), then max() *)
    (forall k, exists Y s r,
        take_k geb is_nan scale score_position score_rows R Lm B thr k init = Ok (Y, s) /\
        smax geb gtb eqb is_nan scale score_position score_rows R Lm B thr s = Ok r /\
        max_after geb gtb eqb is_nan scale score_position score_rows R Lm B thr k = Ok r).
Proof.
  intros T geb gtb eqb is_nan scale score_position score_rows R Lm B thr C score dscore
         ge_nan ge_refl ge_total ge_trans gt_def eq_def HB HLm Hpos Hrows.
  split.
  - exact (smax_total geb gtb eqb is_nan scale score_position score_rows R Lm B thr C score dscore
             ge_nan ge_refl ge_total ge_trans gt_def eq_def HB HLm Hpos Hrows).
  - exact (max_after_total geb gtb eqb is_nan scale score_position score_rows R Lm B thr C score dscore
             ge_nan ge_refl ge_total ge_trans gt_def eq_def HB HLm Hpos Hrows).
Qed.

(* the extracted binary32 scanner: for every well-formed input on which Scanner::new
   succeeds, ANY matrix cells, every arm, block size >= 1, threshold and number k of
   preceding next() calls, the k calls and max() return *)
Theorem C03_concrete_max_total :
  forall (K C : nat) (pssm : list (list F32.t)) (sq : list nat) (wrap : nat) (v : cenv)
         (am : arm) (thr : F32.t) (B : nat),
    wf_input K C pssm sq wrap ->
    c_env K C pssm sq wrap = Ok v ->
    1 <= B ->
    forall k : nat,
    exists (Y : list (nat * F32.t)) (r : option (nat * F32.t)),
      ce_take_max v am thr B k = Ok (Y, Ok r) /\
      ce_max_after v am thr B k = Ok r.
Proof.
  intros K C pssm sq wrap v am thr B Hwf Henv HB k.
  pose proof (env_Lm_le K C pssm sq wrap v Hwf Henv) as HLm.
  destruct (C03_max_total F32.t F32.ge F32.gt F32.eq F32.is_nan (ce_scale v)
              (ce_score_position v) (ce_score_rows v am) (ce_R v) (ce_Lm v) B thr (ce_C v)
              (cscore v) (cdscore v)
              F32_ge_nan F32_ge_refl F32_ge_total F32_ge_trans F32_gt_def F32_eq_def HB HLm
              (env_score_position K C pssm sq wrap v Hwf Henv)
              (env_score_rows K C pssm sq wrap v Hwf Henv am)) as (_ & Hk).
  destruct (Hk k) as (Y & s & r & Ht & Hs & Hm).
  exists Y, r. split; [|exact Hm].
  unfold ce_take_max. rewrite Ht. cbn [rbind fst snd]. rewrite Hs. reflexivity.
Qed.

(* ---------- (B) block-size and arm independence for the binary32 scanner ---------- *)

(* an answer of max() on a fresh scanner is determined by the scores *)
Lemma fresh_answer_unique (n : nat) (sc : nat -> F32.t) (thr : F32.t) (r1 r2 : option (nat * F32.t)) :
  (forall r : option (nat * F32.t), r = r1 \/ r = r2 ->
     match r with
     | None => forall i, i < n -> F32.ge (sc i) thr = true -> In i (@nil nat)
     | Some (p, x) =>
         (p < n /\ F32.ge (sc p) thr = true /\ ~ In p (@nil nat)) /\
         x = sc p /\
         (forall i, i < n -> ~ In i (@nil nat) -> F32.is_nan (sc i) = false -> F32.ge x (sc i) = true) /\
         (forall i, i < n -> F32.eq (sc i) x = true -> i <= p)
     end) ->
  r1 = r2.
Proof.
  intros H. pose proof (H r1 (or_introl eq_refl)) as H1. pose proof (H r2 (or_intror eq_refl)) as H2.
  destruct r1 as [[p1 x1]|], r2 as [[p2 x2]|]; auto.
  - destruct H1 as ((A1 & G1 & _) & -> & D1 & E1). destruct H2 as ((A2 & G2 & _) & -> & D2 & E2).
    pose proof (proj1 (F32_ge_nan _ _ G1)) as N1. pose proof (proj1 (F32_ge_nan _ _ G2)) as N2.
    assert (G12 : F32.ge (sc p1) (sc p2) = true) by (apply D1; auto).
    assert (G21 : F32.ge (sc p2) (sc p1) = true) by (apply D2; auto).
    assert (p2 <= p1) by (apply (E1 p2 A2); rewrite F32_eq_def, G12, G21; reflexivity).
    assert (p1 <= p2) by (apply (E2 p1 A1); rewrite F32_eq_def, G12, G21; reflexivity).
    assert (p1 = p2) by lia. subst. reflexivity.
  - destruct H1 as ((A1 & G1 & _) & _). destruct (H2 p1 A1 G1).
  - destruct H2 as ((A2 & G2 & _) & _). destruct (H1 p2 A2 G2).
Qed.

Theorem C03_concrete_max_block_independent :
  forall (K C : nat) (pssm : list (list F32.t)) (sq : list nat) (wrap : nat) (v : cenv) (thr : F32.t),
    wf_input K C pssm sq wrap ->
    c_env K C pssm sq wrap = Ok v ->
    (forall i, i + length pssm <= length sq ->
               c_scale (ce_dm v) (score_def K sq pssm i) <= dscore_def K sq (d_data (ce_dm v)) i) ->
    forall (am1 am2 : arm) (B1 B2 : nat), 1 <= B1 -> 1 <= B2 ->
      ce_max_after v am1 thr B1 0 = ce_max_after v am2 thr B2 0.
Proof.
  intros K C pssm sq wrap v thr Hwf Henv Hmain am1 am2 B1 B2 HB1 HB2.
  destruct (C03_concrete_max_c08 K C pssm sq wrap v am1 thr B1 Hwf Henv HB1 Hmain 0) as (Y1 & r1 & Ht1 & Hp1).
  destruct (C03_concrete_max_c08 K C pssm sq wrap v am2 thr B2 Hwf Henv HB2 Hmain 0) as (Y2 & r2 & Ht2 & Hp2).
  unfold ce_take_max in Ht1, Ht2. cbn [take_k rbind fst snd] in Ht1, Ht2.
  inversion Ht1 as [[HY1 Hs1]]. inversion Ht2 as [[HY2 Hs2]]. subst Y1 Y2.
  unfold ce_max_after, max_after. cbn [take_k rbind fst snd]. rewrite Hs1, Hs2. f_equal.
  apply (fresh_answer_unique (length sq + 1 - length pssm) (score_def K sq pssm) thr).
  assert (Hiff : forall i, i < length sq + 1 - length pssm <-> i + length pssm <= length sq).
  { intros i. destruct Hwf as (_ & _ & HM & _). lia. }
  intros r [->| ->].
  - destruct r1 as [[p x]|].
    + destruct Hp1 as ((A & G & N) & Hx & D & E). split; [split; [now apply Hiff|auto]|].
      split; [exact Hx|]. split.
      * intros i Hi. apply D. now apply Hiff.
      * intros i Hi. apply (E eq_refl). now apply Hiff.
    + intros i Hi. apply Hp1. now apply Hiff.
  - destruct r2 as [[p x]|].
    + destruct Hp2 as ((A & G & N) & Hx & D & E). split; [split; [now apply Hiff|auto]|].
      split; [exact Hx|]. split.
      * intros i Hi. apply D. now apply Hiff.
      * intros i Hi. apply (E eq_refl). now apply Hiff.
    + intros i Hi. apply Hp2. now apply Hiff.
Qed.

(* with no numeric hypothesis, on matrices that satisfy coq/disc's executable conditioning
   predicate (the boolean the driver prints as wc=) *)
Theorem C03_concrete_max_block_independent_wc_checked :
  forall (K C : nat) (pssm : list (list F32.t)) (sq : list nat) (wrap : nat) (v : cenv) (thr : F32.t),
    wf_input K C pssm sq wrap ->
    c_env K C pssm sq wrap = Ok v ->
    wc_input K pssm (d_factor (ce_dm v)) = true ->
    forall (am1 am2 : arm) (B1 B2 : nat), 1 <= B1 -> 1 <= B2 ->
      ce_max_after v am1 thr B1 0 = ce_max_after v am2 thr B2 0.
Proof.
  intros K C pssm sq wrap v thr Hwf Henv Hwc.
  destruct (wc_input_sound K pssm (ce_dm v) Hwc) as (Hfin & Hw).
  apply (C03_concrete_max_block_independent K C pssm sq wrap v thr Hwf Henv).
  intros i _. exact (env_main_clause K C pssm sq wrap v Hwf Henv Hfin Hw i).
Qed.

(* (review finding C03-4) C03Source.v's statement for the scanner parameterised by the skeleton read
   from scan.rs drops the tie-break conjunct; here it is at the full strength of
   C03_concrete_max_wc_checked: on a fresh scanner the largest index among the maxima *)
Theorem C03_source_concrete_max_wc_checked_full :
  forall (K C : nat) (pssm : list (list F32.t)) (sq : list nat) (wrap : nat) (v : cenv)
         (am : arm) (thr : F32.t) (B : nat),
    wf_input K C pssm sq wrap ->
    c_env K C pssm sq wrap = Ok v ->
    1 <= B ->
    wc_input K pssm (d_factor (ce_dm v)) = true ->
    forall k : nat,
    exists (Y : list (nat * F32.t)) (r : option (nat * F32.t)),
      ce_ptake_max v am thr B k = Ok (Y, Ok r) /\
      match r with
      | None =>
          forall i, i + length pssm <= length sq -> F32.ge (score_def K sq pssm i) thr = true ->
                    In i (map fst Y)
      | Some (p, x) =>
          (p + length pssm <= length sq /\ F32.ge (score_def K sq pssm p) thr = true /\ ~ In p (map fst Y)) /\
          x = score_def K sq pssm p /\
          (forall i, i + length pssm <= length sq -> ~ In i (map fst Y) ->
                     F32.is_nan (score_def K sq pssm i) = false -> F32.ge x (score_def K sq pssm i) = true) /\
          (k = 0 -> forall i, i + length pssm <= length sq ->
                     F32.eq (score_def K sq pssm i) x = true -> i <= p)
      end.
Proof.
  intros K C pssm sq wrap v am thr B Hwf Henv HB Hwc k.
  rewrite C03_source_concrete_eq.
  exact (C03_concrete_max_wc_checked K C pssm sq wrap v am thr B Hwf Henv HB Hwc k).
Qed.

(* ---------- (C) usize arithmetic, setters before max() ---------- *)

Theorem C03_word_setters_max_eq :
  forall (T : Type) (geb gtb eqb : T -> T -> bool) (is_nan : T -> bool) (scale : T -> nat)
         (score_position : nat -> res T) (score_rows : nat -> nat -> res dmatrix)
         (R Lm : nat) (mo : ovf) (W : N) (B B' : nat) (thr thr' : T) (k : nat),
    (N.of_nat B < W)%N -> (N.of_nat (2 * R) <= W)%N -> (N.of_nat (R + B') <= W)%N ->
    wswitch_max geb gtb eqb is_nan scale score_position score_rows R Lm mo W (N.of_nat B) thr k (N.of_nat B') thr'
    = rmap (fun r => (fst r, snd r))
           (switch_max geb gtb eqb is_nan scale score_position score_rows R Lm B thr k B' thr').
Proof.
  intros T geb gtb eqb is_nan scale score_position score_rows R Lm mo W B B' thr thr' k HB HR HB'.
  rewrite (wswitch_max_eq geb gtb eqb is_nan scale score_position score_rows R Lm mo W B thr k B' thr' HB HR HB').
  destruct (switch_max geb gtb eqb is_nan scale score_position score_rows R Lm B thr k B' thr') as [[Y r]| | |];
    reflexivity.
Qed.

(* with the proposed repair (`saturating_add`, mode Saturating): equal to ScanSwitch's function
   for EVERY pair of block sizes, only R < W is needed *)
Theorem C03_word_saturating_setters_max_eq :
  forall (T : Type) (geb gtb eqb : T -> T -> bool) (is_nan : T -> bool) (scale : T -> nat)
         (score_position : nat -> res T) (score_rows : nat -> nat -> res dmatrix)
         (R Lm : nat) (W : N) (B B' : nat) (thr thr' : T) (k : nat),
    (N.of_nat R < W)%N ->
    wswitch_max geb gtb eqb is_nan scale score_position score_rows R Lm Saturating W (N.of_nat B) thr k (N.of_nat B') thr'
    = switch_max geb gtb eqb is_nan scale score_position score_rows R Lm B thr k B' thr'.
Proof.
  intros T geb gtb eqb is_nan scale score_position score_rows R Lm W B B' thr thr' k HR.
  exact (sat_switch_max_eq geb gtb eqb is_nan scale score_position score_rows R Lm W HR B thr k B' thr').
Qed.

(* at the overflow behaviour read from the source (GenScan.gen_row_add_saturating), either build
   profile: k x next(), setters, max() is ScanSwitch's function for B' <= 2^64 - R with `+`, for
   every B' with `saturating_add` *)
Theorem C03_source_setters_max_eq :
  forall (T : Type) (geb gtb eqb : T -> T -> bool) (is_nan : T -> bool) (scale : T -> nat)
         (score_position : nat -> res T) (score_rows : nat -> nat -> res dmatrix)
         (R Lm : nat) (overflow_checks : bool) (W : N) (B B' : nat) (thr thr' : T) (k : nat),
    (N.of_nat B < W)%N -> (N.of_nat (2 * R) <= W)%N ->
    (gen_row_add_saturating = true \/ (N.of_nat (R + B') <= W)%N) ->
    wswitch_max geb gtb eqb is_nan scale score_position score_rows R Lm (gen_ovf overflow_checks) W
                (N.of_nat B) thr k (N.of_nat B') thr'
    = switch_max geb gtb eqb is_nan scale score_position score_rows R Lm B thr k B' thr'.
Proof.
  intros T geb gtb eqb is_nan scale score_position score_rows R Lm checks W B B' thr thr' k HB HR Hor.
  unfold gen_ovf. destruct gen_row_add_saturating eqn:E.
  - assert (HRW : (N.of_nat R < W)%N) by lia.
    exact (sat_switch_max_eq geb gtb eqb is_nan scale score_position score_rows R Lm W HRW B thr k B' thr').
  - destruct Hor as [Habs|HB']; [discriminate|].
    exact (wswitch_max_eq geb gtb eqb is_nan scale score_position score_rows R Lm
             (if checks then Checked else Wrapping) W B thr k B' thr' HB HR HB').
Qed.

(* Toy instance of C03.v (thr 7, block size 1): two calls of next() consume positions 9 and
   5 (row is then 2, position 1 is buffered), then block_size(usize::MAX) and max():
     overflow checks:  max() panics at `self.row + self.block_size`;
     wrapping:         row 2 -> 1 -> 0, rows 0..4 are scanned again and max() answers with
                       position 5 - which was already consumed - instead of position 1;
     saturating add:   position 1, the best unconsumed one. *)
Definition toy_wswitch_max (mo : ovf) (B' : N) : res (list (nat * nat) * res (option (nat * nat))) :=
  wswitch_max Toy.geb Toy.gtb Toy.eqb Toy.is_nan Toy.scale Toy.score_position Toy.score_rows 4 Toy.Lm
              mo W64 1%N 7 2 B' 7.

Theorem C03_word_setters_max_any_block_size_refuted :
  exists B' : N, (1 <= B' < W64)%N /\
    toy_wswitch_max Checked B' = Ok ([(9, 7); (5, 9)], Panic 40) /\
    toy_wswitch_max Wrapping B' = Ok ([(9, 7); (5, 9)], Ok (Some (5, 9))) /\
    toy_wswitch_max Saturating B' = Ok ([(9, 7); (5, 9)], Ok (Some (1, 9))).
Proof.
  exists (W64 - 1)%N. split; [vm_compute; split; [discriminate|reflexivity]|].
  vm_compute. repeat split; reflexivity.
Qed.

(* `swmax=` observations (k x next() under thr, setters, max()), judged by the extracted
   check_swmax: None only if every position meeting both thresholds was consumed; otherwise
   an unconsumed position with its exact score bits that meets thr2 and dominates every
   unconsumed position meeting both thresholds.  (A weak property of our own.) *)
Theorem C03_check_swmax_sound :
  forall (scores : list Z) (thr thr2 : Z) (consumed : list Z) (result : option (Z * Z)),
    check_swmax scores thr thr2 consumed result = true ->
    match result with
    | None => forall q, In q (qual scores thr) -> bits_ge (snd q) thr2 = true -> In (fst q) consumed
    | Some h =>
        In h (qual scores thr2) /\ ~ In (fst h) consumed /\
        (forall q, In q (qual scores thr) -> bits_ge (snd q) thr2 = true -> ~ In (fst q) consumed ->
                   bits_ge (snd h) (snd q) = true)
    end.
Proof. exact check_swmax_sound. Qed.

(* the judge of the `maxb=` observations (max() of a fresh scanner under two block sizes) *)
Theorem C03_same_answer_spec :
  forall a b : option (Z * Z), same_answer a b = true <-> a = b.
Proof. exact same_answer_iff. Qed.

Check C03_concrete_max_total :
  forall (K C : nat) (pssm : list (list F32.t)) (sq : list nat) (wrap : nat) (v : cenv)
         (am : arm) (thr : F32.t) (B : nat),
    wf_input K C pssm sq wrap ->
    c_env K C pssm sq wrap = Ok v ->
    1 <= B ->
    forall k : nat,
    exists (Y : list (nat * F32.t)) (r : option (nat * F32.t)),
      ce_take_max v am thr B k = Ok (Y, Ok r) /\
      ce_max_after v am thr B k = Ok r.

(* non-vacuity: the hypotheses of C03_max_total hold on the toy instance with byte scores all
   0 (a pre-filter that is NOT conservative): max() returns - None, a wrong answer - *)
Example C03_max_total_nonvacuous :
  max_after Toy.geb Toy.gtb Toy.eqb Toy.is_nan Toy.scale Toy.score_position
            (fun a e => Ok (block_spec 4 Toy.Lm 3 (fun _ => 0) a e)) 4 Toy.Lm 2 7 0 = Ok None.
Proof. vm_compute. reflexivity. Qed.

(* ... and the block-size / arm independence on the real instance Ex *)
Example C03_concrete_block_independent_nonvacuous :
  forall (am1 am2 : arm) (B1 B2 : nat), 1 <= B1 -> 1 <= B2 ->
    ce_max_after Ex.env am1 Ex.thr B1 0 = ce_max_after Ex.env am2 Ex.thr B2 0.
Proof.
  exact (C03_concrete_max_block_independent 5 32 Ex.pssm Ex.sq 2 Ex.env Ex.thr Ex.wf Ex.env_ok Ex_main).
Qed.
