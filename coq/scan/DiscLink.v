(* Link to the discretisation group (property C08, coq/disc): DiscreteMatrix::scale of the
   concrete scanner model is the same binary32 expression as LMDisc's [scale_with f32_ops],
   so its monotonicity theorem (C08_scale_monotone_f32: scale is monotone whenever the sign
   bit of the factor is clear - which, since the repair of F14b, is always the case:
   DiscF32Sign.div_abs_sign) and the transfer of C08's main clause to thresholds apply. *)
From Coq Require Import ZArith Arith Lia.
From LMBase Require Import Res IEEE.
From LMDisc Require DiscModel DiscImplCheck DiscF32Mono DiscF32Sign.
From Coq Require Import List Bool.
From LMScan Require Import ScanModel ScanConcrete ConcreteProofs.
Import ListNotations.

Definition factor_sign_clear (dm : dmt) : bool := DiscImplCheck.factor_sign_clear (d_factor dm).

Lemma c_scale_eq (dm : dmt) (x : F32.t) :
  c_scale dm x = Z.to_nat (DiscModel.scale_with DiscModel.f32_ops (d_factor dm) (d_offset dm) x).
Proof. reflexivity. Qed.

(* scale is monotone (binary32, any offset, infinities included) when the factor's sign bit is clear *)
Lemma c_scale_mono (dm : dmt) (x t : F32.t) :
  factor_sign_clear dm = true -> F32.ge x t = true -> c_scale dm t <= c_scale dm x.
Proof.
  intros Hf Hg. rewrite !c_scale_eq.
  pose proof (DiscF32Mono.scale_with_f32_mono (d_factor dm) (d_offset dm) t x Hf Hg). lia.
Qed.

(* C08's main clause at a position (byte score >= image of the real score) transfers to every
   bound the real score meets *)
Lemma c_scale_transfer (dm : dmt) (real t : F32.t) (b : nat) :
  factor_sign_clear dm = true -> c_scale dm real <= b -> F32.ge real t = true -> c_scale dm t <= b.
Proof.
  intros Hf Hm Hg. pose proof (c_scale_mono dm real t Hf Hg). lia.
Qed.

(* since the repair of F14b (factor = |max_score - offset| / 255) the sign bit of the factor
   is clear for every matrix: to_discrete never produces -0.0 or a negative factor *)
Lemma to_discrete_sign_clear (K : nat) (pssm : list (list F32.t)) (dm : dmt) :
  to_discrete K pssm = Ok dm -> factor_sign_clear dm = true.
Proof.
  unfold to_discrete. intros H.
  destruct (rmapM (row_max K) pssm) as [maxs| | |]; simpl in H; try discriminate.
  destruct (rmapM (row_min K) pssm) as [offs| | |]; simpl in H; try discriminate.
  inversion H; subst. unfold factor_sign_clear, DiscImplCheck.factor_sign_clear, IEEE.sign. simpl.
  unfold f255. rewrite DiscF32Sign.div_abs_sign. reflexivity.
Qed.

Lemma env_sign_clear K C pssm sq wrap v : c_env K C pssm sq wrap = Ok v -> factor_sign_clear (ce_dm v) = true.
Proof.
  unfold c_env. intros H. destruct (to_discrete K pssm) as [dm| | |] eqn:E; simpl in H; try discriminate.
  inversion H; subst; simpl. exact (to_discrete_sign_clear K pssm dm E).
Qed.

(* hence scale is monotone for every environment Scanner::new builds *)
Lemma env_scale_mono K C pssm sq wrap v x t :
  c_env K C pssm sq wrap = Ok v -> F32.ge x t = true -> ce_scale v t <= ce_scale v x.
Proof. intros Henv Hg. exact (c_scale_mono (ce_dm v) x t (env_sign_clear K C pssm sq wrap v Henv) Hg). Qed.

(* ---------- the instance ConcreteProofs.Ex meets C08's main clause ---------- *)

Definition chk_main (v : cenv) : bool :=
  forallb (fun i => c_scale (ce_dm v) (cscore v i) <=? cdscore v i) (seq 0 (ce_Lm v)).

Lemma Ex_main : forall i, i + length Ex.pssm <= length Ex.sq ->
  c_scale (ce_dm Ex.env) (score_def 5 Ex.sq Ex.pssm i) <= dscore_def 5 Ex.sq (d_data (ce_dm Ex.env)) i.
Proof.
  assert (Hc : chk_main Ex.env = true) by (vm_compute; reflexivity).
  assert (HL : ce_Lm Ex.env = 38) by (vm_compute; reflexivity).
  intros i Hi. assert (Hi' : i < ce_Lm Ex.env) by (rewrite HL; simpl in Hi; lia).
  rewrite <- (env_cscore_spec 5 32 Ex.pssm Ex.sq 2 Ex.env Ex.wf Ex.env_ok i Hi').
  rewrite <- (env_cdscore_spec_i 5 32 Ex.pssm Ex.sq 2 Ex.env Ex.wf Ex.env_ok i Hi').
  unfold chk_main in Hc. pose proof (forallb_lt _ _ Hc i Hi') as Hf. cbv beta in Hf.
  now apply Nat.leb_le.
Qed.
