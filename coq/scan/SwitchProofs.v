(* Setters called between calls of next() (ScanSwitch.v): soundness of the iteration when the
   threshold is LOWERED or kept (thr' admits everything thr admits) and the block size is
   changed arbitrarily after k calls of next().  The soundness invariant of ScanProofs.v
   does not mention the block size, and it is monotone in the threshold. *)
From Coq Require Import List Arith Bool Lia.
From LMBase Require Import Res ListX.
From LMScan Require Import ScanModel ScanLemmas ScanProofs ScanSwitch.
Import ListNotations.

Section SwitchProofs.
  Context {T : Type}.
  Variable geb : T -> T -> bool.
  Variable is_nan : T -> bool.
  Variable scale : T -> nat.
  Variable score_position : nat -> res T.
  Variable score_rows : nat -> nat -> res dmatrix.
  Variable R Lm : nat.
  Hypothesis Hlen : forall a e m, a <= e -> e <= R -> score_rows a e = Ok m -> length m <= e - a.

  Lemma Inv_lower thr thr' (s : st) (Y : list (@hit T)) :
    (forall x, geb x thr = true -> geb x thr' = true) ->
    Inv geb score_position R Lm thr s Y -> Inv geb score_position R Lm thr' s Y.
  Proof.
    intros Hle [Hg Hr Hn]. split; auto.
    eapply Forall_impl; [|exact Hg].
    intros h (A & B0 & C0). split; [exact A|]. split; [exact B0|]. now apply Hle.
  Qed.

  Lemma switch_collect_sound B thr k B' thr' fuel Y H :
    (forall x, geb x thr = true -> geb x thr' = true) ->
    switch_collect geb is_nan scale score_position score_rows R Lm B thr k B' thr' fuel = Ok (Y, H) ->
    Forall (good geb score_position Lm thr) Y /\
    Forall (good geb score_position Lm thr') (Y ++ H) /\
    NoDup (map fst (Y ++ H)).
  Proof.
    intros Hle Hs. unfold switch_collect in Hs.
    destruct (take_k geb is_nan scale score_position score_rows R Lm B thr k init) as [[Y0 s]| | |] eqn:Ht;
      simpl in Hs; try discriminate.
    destruct (collect geb is_nan scale score_position score_rows R Lm B' thr' fuel s) as [H0| | |] eqn:Hc;
      simpl in Hs; try discriminate.
    inversion Hs; subst Y0 H0.
    pose proof (take_k_inv geb is_nan scale score_position score_rows R Lm B thr Hlen k init Y s []
                  Ht (Inv_init geb score_position R Lm thr)) as HI.
    simpl in HI.
    split; [exact (proj1 (Inv_yielded geb is_nan scale score_position R Lm thr s Y HI))|].
    apply (Inv_lower thr thr' s Y Hle) in HI.
    destruct (collect_inv geb is_nan scale score_position score_rows R Lm B' thr' Hlen fuel s H Y Hc HI)
      as (s' & HI' & _).
    exact (Inv_yielded geb is_nan scale score_position R Lm thr' s' (Y ++ H) HI').
  Qed.
End SwitchProofs.
