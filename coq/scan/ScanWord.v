(* The scanner with `usize` arithmetic made explicit (round 3, wave 3; review top-15 item 6).

   ScanModel.v models `usize` by nat: the two additions `self.row + self.block_size`
   (scan.rs: `let end = (self.row + self.block_size).min(sequence_rows)` and
   `self.row += self.block_size`, in next() and in max()) cannot overflow there.  That is
   right for a scanner whose block size is set before the first call (row is 0 or >= B
   whenever the sum is evaluated, WordProofs.v), but NOT once `Scanner::block_size` is
   called between calls of next(): row > 0 and a new block size >= 2^64 - row overflow.

   Here row and block size are N, the word size W (2^64 on the tested target) and the
   overflow behaviour of `+` are parameters:
     Checked     profile with overflow checks (dev):  Panic 40 "attempt to add with overflow"
     Wrapping    profile without (release):           (a + b) mod W
     Saturating  the PROPOSED repair `self.row.saturating_add(self.block_size)`: W - 1
   Everything else is ScanModel's text (next_cands, max_cands, max_by_score are reused;
   they only see row values below R).  A row range a..e with e < a (possible after a
   wrap) is passed on to score_rows as it is.
   Executable definitions only; replayed against the implementation by the driver for the
   `sw=` / `swmax=` observations (setters between calls) in both profiles. *)
From Coq Require Import List Arith Bool NArith.
From LMBase Require Import Res ListX IEEE.
From LMScan Require Import ScanModel ScanConcrete.
Import ListNotations.

Inductive ovf := Checked | Wrapping | Saturating.

(* a + b on usize (a, b < W) *)
Definition wadd (m : ovf) (W a b : N) : res N :=
  if (a + b <? W)%N then Ok (a + b)%N
  else match m with
       | Checked => Panic 40
       | Wrapping => Ok (a + b - W)%N
       | Saturating => Ok (W - 1)%N
       end.

Section WScanner.
  Context {T : Type}.
  Variable geb gtb eqb : T -> T -> bool.
  Variable is_nan : T -> bool.
  Variable scale : T -> nat.
  Variable score_position : nat -> res T.
  Variable score_rows : nat -> nat -> res dmatrix.
  Variable R Lm : nat.
  Variable m : ovf.
  Variable W : N.
  Variable B : N.
  Variable thr : T.

  Record wst := { wrow : N; whits : list (@hit T) }.

  Definition winit : wst := {| wrow := 0%N; whits := [] |}.

  (* one iteration of the `while` of next() *)
  Definition wnext_block (s : wst) : res wst :=
    let t := scale thr in
    e0 <- wadd m W (wrow s) B ;;                       (* self.row + self.block_size *)
    let a := N.to_nat (wrow s) in                      (* < R here *)
    let e := N.to_nat (N.min e0 (N.of_nat R)) in       (* .min(sequence_rows) *)
    d <- score_rows a e ;;
    hs <- match dmax d with
          | Some mx => if t <=? mx
                       then next_cands geb is_nan score_position R Lm thr a (dthreshold d t) (whits s)
                       else Ok (whits s)
          | None => Ok (whits s)
          end ;;
    r' <- wadd m W (wrow s) B ;;                       (* self.row += self.block_size *)
    Ok {| wrow := r'; whits := hs |}.

  Fixpoint wnext_loop (fuel : nat) (s : wst) : res wst :=
    match fuel with
    | O => OutOfFuel
    | S f =>
        match whits s with
        | [] => if (wrow s <? N.of_nat R)%N then s' <- wnext_block s ;; wnext_loop f s' else Ok s
        | _ :: _ => Ok s
        end
    end.

  (* fuel: a wrapping step lowers the row by W - B >= 1, a step that does not wrap with a
     block size that can wrap at all (B > W - R) ends the loop: R + 1 iterations suffice *)
  Definition wnext (s : wst) : res (option (@hit T) * wst) :=
    s' <- wnext_loop (S R) s ;;
    match whits s' with
    | [] => Ok (None, s')
    | h :: tl => Ok (Some h, {| wrow := wrow s'; whits := tl |})
    end.

  Fixpoint wtake_k (k : nat) (s : wst) : res (list (@hit T) * wst) :=
    match k with
    | O => Ok ([], s)
    | S k' =>
        r <- wnext s ;;
        match fst r with
        | None => Ok ([], snd r)
        | Some h => r' <- wtake_k k' (snd r) ;; Ok (h :: fst r', snd r')
        end
    end.

  Fixpoint wcollect (fuel : nat) (s : wst) : res (list (@hit T)) :=
    match fuel with
    | O => OutOfFuel
    | S f =>
        r <- wnext s ;;
        match fst r with
        | None => Ok []
        | Some h => l <- wcollect f (snd r) ;; Ok (h :: l)
        end
    end.

  (* while self.row < sequence_rows { .. } of max() *)
  Fixpoint wmax_loop (fuel : nat) (rw : N) (best : option (@hit T)) (bd : nat) : res (option (@hit T)) :=
    match fuel with
    | O => OutOfFuel
    | S f =>
        if (rw <? N.of_nat R)%N then
          e0 <- wadd m W rw B ;;
          let a := N.to_nat rw in
          let e := N.to_nat (N.min e0 (N.of_nat R)) in
          d <- score_rows a e ;;
          r <- match dmax d with
               | Some mx => if bd <=? mx
                            then max_cands geb gtb eqb is_nan scale score_position R Lm thr a d (dthreshold d bd) best bd
                            else Ok (best, bd)
               | None => Ok (best, bd)
               end ;;
          rw' <- wadd m W rw B ;;
          wmax_loop f rw' (fst r) (snd r)
        else Ok best
    end.

  Definition wsmax (s : wst) : res (option (@hit T)) :=
    b0 <- max_by_score gtb eqb (filter (fun h => geb (snd h) thr) (rev (whits s))) ;;
    let bd0 := match b0 with Some h => scale (snd h) | None => scale thr end in
    wmax_loop (S R) (wrow s) b0 bd0.

End WScanner.

Arguments wrow {T} _.
Arguments whits {T} _.

Section WSwitch.
  Context {T : Type}.
  Variable geb gtb eqb : T -> T -> bool.
  Variable is_nan : T -> bool.
  Variable scale : T -> nat.
  Variable score_position : nat -> res T.
  Variable score_rows : nat -> nat -> res dmatrix.
  Variable R Lm : nat.
  Variable m : ovf.
  Variable W : N.

  (* k x next() under (thr, B); threshold(thr'), block_size(B'); then next() until None *)
  Definition wswitch_collect (B : N) (thr : T) (k : nat) (B' : N) (thr' : T) (fuel : nat)
    : res (list (@hit T) * list (@hit T)) :=
    r <- wtake_k geb is_nan scale score_position score_rows R Lm m W B thr k winit ;;
    l <- wcollect geb is_nan scale score_position score_rows R Lm m W B' thr' fuel (snd r) ;;
    Ok (fst r, l).

  (* k x next() under (thr, B); threshold(thr'), block_size(B'); then max() *)
  Definition wswitch_max (B : N) (thr : T) (k : nat) (B' : N) (thr' : T)
    : res (list (@hit T) * res (option (@hit T))) :=
    r <- wtake_k geb is_nan scale score_position score_rows R Lm m W B thr k winit ;;
    Ok (fst r, wsmax geb gtb eqb is_nan scale score_position score_rows R Lm m W B' thr' (snd r)).
End WSwitch.

(* usize::MAX + 1 of the tested target (x86_64) *)
Definition W64 : N := 18446744073709551616%N.

(* decimal digits (most significant first) -> N: block sizes do not fit OCaml's int *)
Definition n_of_digits (ds : list nat) : N :=
  fold_left (fun acc d => (acc * 10 + N.of_nat d)%N) ds 0%N.

(* twice the number of cells: a wrapped row counter re-scans rows at most once *)
Definition ce_wfuel (v : cenv) : nat := S (2 * (ce_R v * ce_C v)).

Definition ce_wswitch_collect (mo : ovf) (v : cenv) (am : arm) (thr : F32.t) (B : N) (k : nat)
           (thr' : F32.t) (B' : N) : res (list fhit * list fhit) :=
  wswitch_collect F32.ge F32.is_nan (ce_scale v) (ce_score_position v) (ce_score_rows v am)
                  (ce_R v) (ce_Lm v) mo W64 B thr k B' thr' (ce_wfuel v).

Definition ce_wswitch_max (mo : ovf) (v : cenv) (am : arm) (thr : F32.t) (B : N) (k : nat)
           (thr' : F32.t) (B' : N) : res (list fhit * res (option fhit)) :=
  wswitch_max F32.ge F32.gt F32.eq F32.is_nan (ce_scale v) (ce_score_position v) (ce_score_rows v am)
              (ce_R v) (ce_Lm v) mo W64 B thr k B' thr'.

(* take(k) alone (the hits of k calls of next() on a fresh scanner) *)
Definition ce_wtake (mo : ovf) (v : cenv) (am : arm) (thr : F32.t) (B : N) (k : nat) : res (list fhit) :=
  r <- wtake_k F32.ge F32.is_nan (ce_scale v) (ce_score_position v) (ce_score_rows v am)
              (ce_R v) (ce_Lm v) mo W64 B thr k winit ;;
  Ok (fst r).
