(* Property C03, read on the statement skeleton of lightmotif/src/scan.rs (see
   C02Source.v): the theorems are about the parameterised scanner of ScanShape.v at the
   skeleton gen_shape that translate/scan_skel.py reads from the `Iterator::max` override
   of Scanner on every run (operators of the filter / loop / gate / candidate guard /
   replacement / tie / first-hit tests, block end, index terms, the initial value of
   best_discrete and its update `best_discrete = self.dm.scale(score)`).
   Only theorems, closed by lemmas of ShapeProofs.v / C02Source.v / C03.v. *)
From Coq Require Import List Arith Bool Lia ZArith.
From LMBase Require Import Res ListX IEEE.
From LMScan Require Import ScanModel ScanLemmas ScanProofs MaxProofs ScanCheck ScanConcrete ConcreteProofs DiscBridge
     ScanShape ShapeProofs ShapeToy GenScan ShapeConcrete C03 C02Source.
Import ListNotations.

(* (S1) at the source's skeleton, max() of the parameterised scanner is smax / max_after of
   ScanModel.v; the text replayed by the driver equals the hand-written concrete instance *)
Theorem C03_source_model_eq :
  forall (T : Type) (geb gtb eqb : T -> T -> bool) (is_nan : T -> bool) (scale : T -> nat)
         (score_position : nat -> res T) (score_rows : nat -> nat -> res dmatrix)
         (R Lm B : nat) (thr : T),
    (forall s, psmax geb gtb eqb is_nan scale score_position score_rows R Lm B thr gen_shape s =
               smax geb gtb eqb is_nan scale score_position score_rows R Lm B thr s) /\
    (forall k, pmax_after geb gtb eqb is_nan scale score_position score_rows R Lm B thr gen_shape k =
               max_after geb gtb eqb is_nan scale score_position score_rows R Lm B thr k).
Proof.
  intros. rewrite C02_source_skeleton. split; intros.
  - apply psmax_ref.
  - apply pmax_after_ref.
Qed.

Theorem C03_source_concrete_eq :
  forall (v : cenv) (am : arm) (thr : F32.t) (B k : nat),
    ce_ptake_max v am thr B k = ce_take_max v am thr B k.
Proof.
  intros v am thr B k. unfold ce_ptake_max, ce_take_max.
  destruct (C02_source_model_eq F32.t F32.ge F32.gt F32.eq F32.is_nan (ce_scale v) (ce_score_position v)
              (ce_score_rows v am) (ce_R v) (ce_Lm v) B thr) as (_ & Ht & _).
  rewrite Ht. change gen_init with (@init F32.t).
  destruct (take_k F32.ge F32.is_nan (ce_scale v) (ce_score_position v) (ce_score_rows v am)
              (ce_R v) (ce_Lm v) B thr k init) as [r| | |]; simpl; try reflexivity.
Qed.

(* (S2) max() as written in the source, after any k calls of next() as written in the
   source: no panic; None exactly when no qualifying position remains unconsumed; else an
   unconsumed qualifying position with its exact score which dominates every unconsumed
   non-NaN score *)
Theorem C03_source_max_after_prefix :
  forall (T : Type) (geb gtb eqb : T -> T -> bool) (is_nan : T -> bool) (scale : T -> nat)
         (score_position : nat -> res T) (score_rows : nat -> nat -> res dmatrix)
         (R Lm B : nat) (thr : T) (C : nat) (score : nat -> T) (dscore : nat -> nat),
    (forall x y, geb x y = true -> is_nan x = false /\ is_nan y = false) ->
    (forall x, is_nan x = false -> geb x x = true) ->
    (forall x y, is_nan x = false -> is_nan y = false -> geb x y = true \/ geb y x = true) ->
    (forall x y z, geb x y = true -> geb y z = true -> geb x z = true) ->
    (forall x y, gtb x y = geb x y && negb (geb y x)) ->
    (forall x y, eqb x y = geb x y && geb y x) ->
    1 <= B ->
    Lm <= R * C ->
    (forall i, i < Lm -> score_position i = Ok (score i)) ->
    (forall a e, a <= e -> e <= R -> score_rows a e = Ok (block_spec R Lm C dscore a e)) ->
    (forall i, i < Lm -> geb (score i) thr = true -> scale thr <= dscore i) ->
    (forall i j, i < Lm -> j < Lm -> geb (score i) (score j) = true -> scale (score j) <= dscore i) ->
    (forall i, i < Lm -> geb (score i) thr = true -> scale thr <= scale (score i)) ->
    forall k : nat,
    exists (Y : list (nat * T)) (s : st) (r : option (nat * T)),
      ptake_k geb gtb eqb is_nan scale score_position score_rows R Lm B thr gen_shape k
              {| row := gen_init_row; hits := [] |} = Ok (Y, s) /\
      psmax geb gtb eqb is_nan scale score_position score_rows R Lm B thr gen_shape s = Ok r /\
      match r with
      | None =>
          forall i, i < Lm -> geb (score i) thr = true -> In i (map fst Y)
      | Some (p, x) =>
          (p < Lm /\ geb (score p) thr = true /\ ~ In p (map fst Y)) /\
          x = score p /\
          (forall i, i < Lm -> ~ In i (map fst Y) -> is_nan (score i) = false -> geb x (score i) = true)
      end.
Proof.
  intros T geb gtb eqb is_nan scale score_position score_rows R Lm B thr C score dscore
         ge_nan ge_refl ge_total ge_trans gt_def eq_def HB HLm Hpos Hrows Hcons Hconsp Hmono k.
  destruct (C02_source_model_eq T geb gtb eqb is_nan scale score_position score_rows R Lm B thr) as (_ & Et & _).
  destruct (C03_source_model_eq T geb gtb eqb is_nan scale score_position score_rows R Lm B thr) as (Es & _).
  destruct (C03_max_after_prefix T geb gtb eqb is_nan scale score_position score_rows R Lm B thr C score dscore
              ge_nan ge_refl ge_total ge_trans gt_def eq_def HB HLm Hpos Hrows Hcons Hconsp Hmono k)
    as (Y & s & r & Ht & Hs & _ & Hp).
  exists Y, s, r. rewrite Et, Es.
  change (@Build_st T gen_init_row []) with (@init T).
  split; [exact Ht|]. split; [exact Hs|].
  destruct r as [[p x]|]; [|exact Hp].
  destruct Hp as (A & Hx & D & _). split; [exact A|]. split; [exact Hx|exact D].
Qed.

(* (S3) the text the driver replays (binary32, every arm, default or explicit block
   size): no numeric hypothesis beyond coq/disc's executable conditioning predicate *)
Theorem C03_source_concrete_max_wc_checked :
  forall (K C : nat) (pssm : list (list F32.t)) (sq : list nat) (wrap : nat) (v : cenv)
         (am : arm) (thr : F32.t) (B : option nat),
    wf_input K C pssm sq wrap ->
    c_env K C pssm sq wrap = Ok v ->
    match B with Some b => 1 <= b | None => True end ->
    wc_input K pssm (d_factor (ce_dm v)) = true ->
    forall k : nat,
    exists (Y : list (nat * F32.t)) (r : option (nat * F32.t)),
      ce_ptake_max v am thr (match B with Some b => b | None => gen_default_block_size end) k = Ok (Y, Ok r) /\
      match r with
      | None =>
          forall i, i + length pssm <= length sq -> F32.ge (score_def K sq pssm i) thr = true ->
                    In i (map fst Y)
      | Some (p, x) =>
          (p + length pssm <= length sq /\ F32.ge (score_def K sq pssm p) thr = true /\ ~ In p (map fst Y)) /\
          x = score_def K sq pssm p /\
          (forall i, i + length pssm <= length sq -> ~ In i (map fst Y) ->
                     F32.is_nan (score_def K sq pssm i) = false -> F32.ge x (score_def K sq pssm i) = true)
      end.
Proof.
  intros K C pssm sq wrap v am thr B Hwf Henv HB Hwc k.
  rewrite C03_source_concrete_eq.
  assert (HB' : 1 <= match B with Some b => b | None => gen_default_block_size end).
  { destruct B as [b|]; [exact HB|exact (proj1 C02_source_defaults)]. }
  destruct (C03_concrete_max_wc_checked K C pssm sq wrap v am thr _ Hwf Henv HB' Hwc k) as (Y & r & Ht & Hp).
  exists Y, r. split; [exact Ht|].
  destruct r as [[p x]|]; [|exact Hp].
  destruct Hp as (A & Hx & D & _). split; [exact A|]. split; [exact Hx|exact D].
Qed.

(* (S4) the fields of the skeleton of max() are load-bearing.  On the toy instance of
   ShapeToy.v, for every threshold 0..10, block size 1..5 and prefix length 0..4, judged by
   an executable statement of the property: the skeleton read from the source passes; each
   of the 13 listed single-field deviations of max() fails (`>` in the filter of the
   buffered hits, `>`/`!=` in the loop test, no `.min(sequence_rows)`, `>` in the block
   gate, a term missing in the index, `>` in the byte-score guard, `<=` in the index guard,
   `<` in the replacement test, `best_discrete = dscore`, `>` in the first-hit test); the
   deviations that change only the tie-break or the amount of pruning pass. *)
Theorem C03_source_fields_matter :
  PToy.c03_ok gen_shape = true /\
  forallb (fun sh => negb (PToy.c03_ok sh)) c03_deviations = true /\
  forallb PToy.c03_ok benign_deviations = true /\
  length c03_deviations = 13.
Proof. vm_compute. repeat split; reflexivity. Qed.
