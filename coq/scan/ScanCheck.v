(* Executable property checkers for C02 / C03, evaluated by the driver on the
   IMPLEMENTATION's own observations (the per-position scores printed by the harness
   through ScoringMatrix::score_position, the hits the scanner yielded, the answer of
   max()).  Scores are binary32 bit patterns (Z); "exact score" is equality of bit
   patterns, ">=" is the IEEE comparison.  Definitions only; soundness and completeness
   lemmas (check_c02_sound / _complete, check_c03_sound / _complete) in CheckProofs.v. *)
From Coq Require Import List ZArith Bool Sorting.Mergesort Orders.
From LMBase Require Import IEEE.
From LMDisc Require DiscModel.
Import ListNotations.

Definition zhit : Type := (Z * Z)%type.      (* position, score bits *)

Definition bits_ge (a b : Z) : bool := F32.ge (F32.of_bits a) (F32.of_bits b).

(* the positions the property asks for: (i, score i) for every i with score i >= thr,
   in increasing order of i *)
Fixpoint qual_from (i : Z) (scores : list Z) (thr : Z) : list zhit :=
  match scores with
  | [] => []
  | s :: rest =>
      if bits_ge s thr then (i, s) :: qual_from (i + 1) rest thr
      else qual_from (i + 1) rest thr
  end.

Definition qual (scores : list Z) (thr : Z) : list zhit := qual_from 0 scores thr.

Module HitOrder <: TotalLeBool.
  Definition t := zhit.
  Definition leb (a b : zhit) : bool := Z.leb (fst a) (fst b).
  Theorem leb_total : forall a b, leb a b = true \/ leb b a = true.
  Proof.
    intros a b. unfold leb.
    destruct (Z.leb_spec (fst a) (fst b)); [left; reflexivity|right].
    apply Z.leb_le. apply Z.lt_le_incl. assumption.
  Qed.
End HitOrder.

Module HitSort := Sort HitOrder.

Definition zhit_eqb (a b : zhit) : bool := Z.eqb (fst a) (fst b) && Z.eqb (snd a) (snd b).

Fixpoint zhits_eqb (a b : list zhit) : bool :=
  match a, b with
  | [], [] => true
  | x :: a', y :: b' => zhit_eqb x y && zhits_eqb a' b'
  | _, _ => false
  end.

(* C02: the hits yielded until None, sorted by position, are exactly the qualifying
   positions with their exact scores (hence no duplicate, nothing else, nothing missing) *)
Definition check_c02 (scores : list Z) (thr : Z) (hits : list zhit) : bool :=
  zhits_eqb (HitSort.sort hits) (qual scores thr).

(* the qualifying positions that were not consumed by the preceding next() calls *)
Definition remaining (scores : list Z) (thr : Z) (consumed : list Z) : list zhit :=
  filter (fun h => negb (existsb (Z.eqb (fst h)) consumed)) (qual scores thr).

(* C03: None exactly when nothing remains; otherwise an unconsumed qualifying position
   with its exact score, and no remaining position scores more *)
Definition check_c03 (scores : list Z) (thr : Z) (consumed : list Z) (result : option zhit) : bool :=
  let rem := remaining scores thr consumed in
  match result with
  | None => match rem with [] => true | _ => false end
  | Some h => existsb (zhit_eqb h) rem && forallb (fun q => bits_ge (snd h) (snd q)) rem
  end.

(* first qualifying position missing from a hit list / first hit that does not
   qualify: diagnostics for the verdict line *)
Definition first_missing (scores : list Z) (thr : Z) (hits : list zhit) : option zhit :=
  find (fun q => negb (existsb (zhit_eqb q) hits)) (qual scores thr).

Definition first_spurious (scores : list Z) (thr : Z) (hits : list zhit) : option zhit :=
  let q := qual scores thr in
  find (fun h => negb (existsb (zhit_eqb h) q)) hits.

(* The executable side conditions under which property C08's main clause is a theorem for
   binary32 (coq/disc: finite non-wildcard cells, conditioning predicate on the factor, at
   most 16384 rows, magnitude bound), evaluated by the driver to qualify a lost hit:
   when this is true the scanner theorems C02_concrete_scan_well_conditioned /
   C03_concrete_max_well_conditioned apply to the case (DiscBridge.wc_input_sound). *)
Definition wc_input (K : nat) (pssm : list (list F32.t)) (factor : F32.t) : bool :=
  forallb (fun row => forallb F32.is_finite (DiscModel.nonwild K row)) pssm &&
  DiscModel.well_conditioned pssm factor &&
  (Z.of_nat (length pssm) <=? 16384)%Z &&
  F32.le (DiscModel.cond_A pssm) (F32.of_Z_exp 1 126).
