(* The IEEE comparisons of LMBase.IEEE (Flocq's Bcompare) are those of a total preorder
   on the non-NaN values; > and == are derived from >= as the scanner proofs assume.
   Proved for every format, then stated for binary32 (F32.ge / F32.gt / F32.eq). *)
From Coq Require Import ZArith Bool Reals Lia Lra.
From Flocq Require Import Core BinarySingleNaN.
From LMBase Require Import IEEE.

Section Order.
  Variable prec emax : Z.
  Context {Hprec : Prec_gt_0 prec} {Hmax : Prec_lt_emax prec emax}.
  Notation bf := (binary_float prec emax).

  (* an order embedding of the non-NaN floats into the reals: the infinities are sent
     beyond every finite value *)
  Definition ext (x : bf) : R :=
    match x with
    | B754_infinity false => bpow radix2 emax
    | B754_infinity true => (- bpow radix2 emax)%R
    | _ => B2R x
    end.

  Lemma ext_finite_bounds (x : bf) :
    BinarySingleNaN.is_finite x = true ->
    (- bpow radix2 emax < ext x < bpow radix2 emax)%R.
  Proof.
    intros Hf. pose proof (abs_B2R_lt_emax prec emax x) as Hb.
    apply Rabs_lt_inv in Hb.
    destruct x as [s|s| |s m e B]; simpl in *; try discriminate; exact Hb.
  Qed.

  Lemma cmp_ext (x y : bf) :
    BinarySingleNaN.is_nan x = false -> BinarySingleNaN.is_nan y = false ->
    Bcompare x y = Some (Rcompare (ext x) (ext y)).
  Proof.
    intros Hx Hy. pose proof (bpow_gt_0 radix2 emax) as Hp.
    destruct (BinarySingleNaN.is_finite x) eqn:Fx, (BinarySingleNaN.is_finite y) eqn:Fy.
    - rewrite (Bcompare_correct prec emax x y Fx Fy).
      destruct x as [s|s| |s m e B], y as [s'|s'| |s' m' e' B']; simpl in *; try discriminate; reflexivity.
    - pose proof (ext_finite_bounds x Fx) as Bx.
      destruct y as [s'|[|]| |s' m' e' B']; simpl in Fy, Hy; try discriminate.
      + replace (Bcompare x (B754_infinity true)) with (Some Gt)
          by (destruct x as [s|s| |[|] m e B]; simpl in *; try discriminate; reflexivity).
        f_equal. symmetry. apply Rcompare_Gt. simpl. lra.
      + replace (Bcompare x (B754_infinity false)) with (Some Lt)
          by (destruct x as [s|s| |[|] m e B]; simpl in *; try discriminate; reflexivity).
        f_equal. symmetry. apply Rcompare_Lt. simpl. lra.
    - pose proof (ext_finite_bounds y Fy) as By.
      destruct x as [s|[|]| |s m e B]; simpl in Fx, Hx; try discriminate.
      + replace (Bcompare (B754_infinity true) y) with (Some Lt)
          by (destruct y as [s'|s'| |[|] m' e' B']; simpl in *; try discriminate; reflexivity).
        f_equal. symmetry. apply Rcompare_Lt. simpl. lra.
      + replace (Bcompare (B754_infinity false) y) with (Some Gt)
          by (destruct y as [s'|s'| |[|] m' e' B']; simpl in *; try discriminate; reflexivity).
        f_equal. symmetry. apply Rcompare_Gt. simpl. lra.
    - destruct x as [s|[|]| |s m e B], y as [s'|[|]| |s' m' e' B']; simpl in *; try discriminate;
        unfold Bcompare; simpl; f_equal; symmetry.
      + apply Rcompare_Eq. reflexivity.
      + apply Rcompare_Lt. lra.
      + apply Rcompare_Gt. lra.
      + apply Rcompare_Eq. reflexivity.
  Qed.

  Lemma cmp_nan_l (x y : bf) : BinarySingleNaN.is_nan x = true -> Bcompare x y = None.
  Proof. destruct x; simpl; try discriminate. reflexivity. Qed.

  Lemma cmp_nan_r (x y : bf) : BinarySingleNaN.is_nan y = true -> Bcompare x y = None.
  Proof. destruct y; simpl; try discriminate. destruct x as [s|s| |s m e B]; reflexivity. Qed.

  Lemma fle_spec (x y : bf) :
    fle prec emax x y = true <->
    BinarySingleNaN.is_nan x = false /\ BinarySingleNaN.is_nan y = false /\ (ext x <= ext y)%R.
  Proof.
    unfold fle, fcmp.
    destruct (BinarySingleNaN.is_nan x) eqn:Hx.
    { rewrite (cmp_nan_l x y Hx). split; [discriminate|intros (H & _); discriminate]. }
    destruct (BinarySingleNaN.is_nan y) eqn:Hy.
    { rewrite (cmp_nan_r x y Hy). split; [discriminate|intros (_ & H & _); discriminate]. }
    rewrite (cmp_ext x y Hx Hy).
    destruct (Rcompare_spec (ext x) (ext y)) as [H|H|H]; split; intros H'; try discriminate; auto.
    - repeat split; auto. lra.
    - repeat split; auto. lra.
    - destruct H' as (_ & _ & H'). lra.
  Qed.

  Lemma fge_nan x y : fge prec emax x y = true ->
    IEEE.is_nan prec emax x = false /\ IEEE.is_nan prec emax y = false.
  Proof. unfold fge, IEEE.is_nan. intros H. apply fle_spec in H. tauto. Qed.

  Lemma fge_refl x : IEEE.is_nan prec emax x = false -> fge prec emax x x = true.
  Proof. unfold fge, IEEE.is_nan. intros H. apply fle_spec. repeat split; auto. lra. Qed.

  Lemma fge_total x y : IEEE.is_nan prec emax x = false -> IEEE.is_nan prec emax y = false ->
    fge prec emax x y = true \/ fge prec emax y x = true.
  Proof.
    unfold fge, IEEE.is_nan. intros Hx Hy.
    destruct (Rle_or_lt (ext x) (ext y)) as [H|H]; [right|left]; apply fle_spec; repeat split; auto. lra.
  Qed.

  Lemma fge_trans x y z : fge prec emax x y = true -> fge prec emax y z = true -> fge prec emax x z = true.
  Proof.
    unfold fge. intros H1 H2. apply fle_spec in H1. apply fle_spec in H2. apply fle_spec.
    repeat split; try tauto. lra.
  Qed.

  Lemma fgt_def x y : fgt prec emax x y = fge prec emax x y && negb (fge prec emax y x).
  Proof.
    unfold fgt, fge, flt, fle, fcmp. rewrite (Bcompare_swap prec emax y x).
    destruct (Bcompare y x) as [[| |]|]; reflexivity.
  Qed.

  Lemma feq_def x y : feq prec emax x y = fge prec emax x y && fge prec emax y x.
  Proof.
    unfold feq, fge, fle, fcmp. rewrite (Bcompare_swap prec emax x y).
    destruct (Bcompare x y) as [[| |]|]; reflexivity.
  Qed.
End Order.

(* binary32 *)
Lemma F32_ge_nan : forall x y, F32.ge x y = true -> F32.is_nan x = false /\ F32.is_nan y = false.
Proof. exact (fge_nan 24 128). Qed.
Lemma F32_ge_refl : forall x, F32.is_nan x = false -> F32.ge x x = true.
Proof. exact (fge_refl 24 128). Qed.
Lemma F32_ge_total : forall x y, F32.is_nan x = false -> F32.is_nan y = false ->
  F32.ge x y = true \/ F32.ge y x = true.
Proof. exact (fge_total 24 128). Qed.
Lemma F32_ge_trans : forall x y z, F32.ge x y = true -> F32.ge y z = true -> F32.ge x z = true.
Proof. exact (fge_trans 24 128). Qed.
Lemma F32_gt_def : forall x y, F32.gt x y = F32.ge x y && negb (F32.ge y x).
Proof. exact (fgt_def 24 128). Qed.
Lemma F32_eq_def : forall x y, F32.eq x y = F32.ge x y && F32.ge y x.
Proof. exact (feq_def 24 128). Qed.
