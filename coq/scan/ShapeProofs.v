(* At the reference skeleton the parameterised scanner of ScanShape.v IS the scanner of
   ScanModel.v (function by function), so every theorem about the latter holds for the
   former; and a skeleton is the reference one iff the boolean shape_eqb says so. *)
From Coq Require Import List Arith Bool Lia.
From LMBase Require Import Res ListX.
From LMScan Require Import ScanModel ScanShape.
Import ListNotations.

Ltac brk :=
  repeat (simpl; auto;
          match goal with
          | |- context [match ?x with _ => _ end] => destruct x eqn:?; simpl; auto
          | |- context [if ?x then _ else _] => destruct x eqn:?; simpl; auto
          end).

Section Ref.
  Context {T : Type}.
  Variable geb gtb eqb : T -> T -> bool.
  Variable is_nan : T -> bool.
  Variable scale : T -> nat.
  Variable score_position : nat -> res T.
  Variable score_rows : nat -> nat -> res dmatrix.
  Variable R Lm B : nat.
  Variable thr : T.

  Local Notation st := (@st T).

  Lemma pnext_cands_ref rw cands : forall hs,
    pnext_cands geb gtb eqb is_nan score_position R Lm thr ref_shape rw cands hs =
    next_cands geb is_nan score_position R Lm thr rw cands hs.
  Proof.
    induction cands as [|[r c] rest IH]; intros hs; simpl; auto.
  Qed.

  Lemma pnext_block_ref s :
    pnext_block geb gtb eqb is_nan scale score_position score_rows R Lm B thr ref_shape s =
    next_block geb is_nan scale score_position score_rows R Lm B thr s.
  Proof.
    unfold pnext_block, next_block. simpl.
    destruct (score_rows (row s) (Nat.min (row s + B) R)); simpl; auto.
  Qed.

  Lemma pnext_loop_ref fuel : forall s,
    pnext_loop geb gtb eqb is_nan scale score_position score_rows R Lm B thr ref_shape fuel s =
    next_loop geb is_nan scale score_position score_rows R Lm B thr fuel s.
  Proof.
    induction fuel as [|f IH]; intros s; simpl; auto.
    unfold ploop_continues. simpl. destruct (hits s); simpl; auto.
    destruct (row s <? R); auto. rewrite pnext_block_ref.
    destruct (next_block geb is_nan scale score_position score_rows R Lm B thr s); simpl; auto.
  Qed.

  Lemma pnext_ref s :
    pnext geb gtb eqb is_nan scale score_position score_rows R Lm B thr ref_shape s =
    next geb is_nan scale score_position score_rows R Lm B thr s.
  Proof.
    unfold pnext, next. rewrite pnext_loop_ref.
    destruct (next_loop geb is_nan scale score_position score_rows R Lm B thr (S R) s); simpl; auto.
    destruct (hits a); reflexivity.
  Qed.

  Lemma ptake_k_ref k : forall s,
    ptake_k geb gtb eqb is_nan scale score_position score_rows R Lm B thr ref_shape k s =
    take_k geb is_nan scale score_position score_rows R Lm B thr k s.
  Proof.
    induction k as [|k IH]; intros s; simpl; auto. rewrite pnext_ref.
    destruct (next geb is_nan scale score_position score_rows R Lm B thr s) as [[r s1]| | |]; simpl; auto.
    destruct r; auto. now rewrite IH.
  Qed.

  Lemma pcollect_ref fuel : forall s,
    pcollect geb gtb eqb is_nan scale score_position score_rows R Lm B thr ref_shape fuel s =
    collect geb is_nan scale score_position score_rows R Lm B thr fuel s.
  Proof.
    induction fuel as [|f IH]; intros s; simpl; auto. rewrite pnext_ref.
    destruct (next geb is_nan scale score_position score_rows R Lm B thr s) as [[r s1]| | |]; simpl; auto.
    destruct r; auto. now rewrite IH.
  Qed.

  Lemma pmax_cands_ref rw d cands : forall best bd,
    pmax_cands geb gtb eqb is_nan scale score_position R Lm thr ref_shape rw d cands best bd =
    max_cands geb gtb eqb is_nan scale score_position R Lm thr rw d cands best bd.
  Proof.
    induction cands as [|[r c] rest IH]; intros best bd; simpl; auto.
  Qed.

  Lemma pmax_loop_ref fuel : forall rw best bd,
    pmax_loop geb gtb eqb is_nan scale score_position score_rows R Lm B thr ref_shape fuel rw best bd =
    max_loop geb gtb eqb is_nan scale score_position score_rows R Lm B thr fuel rw best bd.
  Proof.
    induction fuel as [|f IH]; intros rw best bd; simpl; auto.
  Qed.

  Lemma psmax_ref s :
    psmax geb gtb eqb is_nan scale score_position score_rows R Lm B thr ref_shape s =
    smax geb gtb eqb is_nan scale score_position score_rows R Lm B thr s.
  Proof.
    unfold psmax, smax. simpl.
    destruct (max_by_score gtb eqb (filter (fun h => geb (snd h) thr) (rev (hits s)))); simpl; auto.
  Qed.

  Lemma pmax_after_ref k :
    pmax_after geb gtb eqb is_nan scale score_position score_rows R Lm B thr ref_shape k =
    max_after geb gtb eqb is_nan scale score_position score_rows R Lm B thr k.
  Proof.
    unfold pmax_after, max_after. rewrite ptake_k_ref.
    destruct (take_k geb is_nan scale score_position score_rows R Lm B thr k init); simpl; auto.
  Qed.
End Ref.

(* deciding "is the reference skeleton" *)
Definition pad_eqb (a b : pad_action) : bool :=
  match a, b with PadContinue, PadContinue | PadBreak, PadBreak => true | _, _ => false end.
Definition end_eqb (a b : end_expr) : bool :=
  match a, b with EndMin, EndMin | EndNoMin, EndNoMin => true | _, _ => false end.
Definition order_eqb (a b : stack_order) : bool :=
  match a, b with Lifo, Lifo | Fifo, Fifo => true | _, _ => false end.
Definition bound_eqb (a b : bound_src) : bool :=
  match a, b with
  | BoundScaleScore, BoundScaleScore | BoundDscore, BoundDscore | BoundKeep, BoundKeep => true
  | _, _ => false
  end.

Definition init_eqb (a b : init_src) : bool :=
  match a, b with
  | InitScaleHitScore, InitScaleHitScore | InitScaleThreshold, InitScaleThreshold => true
  | _, _ => false
  end.
Definition idx_eqb (a b : idx_expr) : bool :=
  Bool.eqb (ix_col_rows a) (ix_col_rows b) && Bool.eqb (ix_block_row a) (ix_block_row b) &&
  Bool.eqb (ix_r a) (ix_r b).

Lemma idx_eqb_eq a b : idx_eqb a b = true -> a = b.
Proof.
  destruct a as [a1 a2 a3], b as [b1 b2 b3]. unfold idx_eqb. simpl.
  destruct a1, a2, a3, b1, b2, b3; simpl; intros E; try discriminate E; reflexivity.
Qed.

Definition shape_eqb (a b : shape) : bool :=
  Bool.eqb (n_loop_hits_empty a) (n_loop_hits_empty b) && cmp_eqb (n_loop_cmp a) (n_loop_cmp b) &&
  end_eqb (n_end a) (n_end b) && cmp_eqb (n_gate_cmp a) (n_gate_cmp b) &&
  idx_eqb (n_idx a) (n_idx b) && idx_eqb (m_idx a) (m_idx b) && init_eqb (m_init a) (m_init b) &&
  cmp_eqb (n_pad_cmp a) (n_pad_cmp b) && pad_eqb (n_pad_action a) (n_pad_action b) &&
  cmp_eqb (n_thr_cmp a) (n_thr_cmp b) && order_eqb (n_order a) (n_order b) &&
  cmp_eqb (m_filter_cmp a) (m_filter_cmp b) && cmp_eqb (m_loop_cmp a) (m_loop_cmp b) &&
  end_eqb (m_end a) (m_end b) && cmp_eqb (m_gate_cmp a) (m_gate_cmp b) &&
  cmp_eqb (m_dscore_cmp a) (m_dscore_cmp b) && cmp_eqb (m_index_cmp a) (m_index_cmp b) &&
  cmp_eqb (m_better_cmp a) (m_better_cmp b) && cmp_eqb (m_tie_cmp a) (m_tie_cmp b) &&
  cmp_eqb (m_tie_pos_cmp a) (m_tie_pos_cmp b) && bound_eqb (m_bound a) (m_bound b) &&
  cmp_eqb (m_first_cmp a) (m_first_cmp b).

Lemma cmp_eqb_eq a b : cmp_eqb a b = true -> a = b.
Proof. destruct a, b; simpl; intros E; try discriminate E; reflexivity. Qed.
Lemma pad_eqb_eq a b : pad_eqb a b = true -> a = b.
Proof. destruct a, b; simpl; intros E; try discriminate E; reflexivity. Qed.
Lemma end_eqb_eq a b : end_eqb a b = true -> a = b.
Proof. destruct a, b; simpl; intros E; try discriminate E; reflexivity. Qed.
Lemma order_eqb_eq a b : order_eqb a b = true -> a = b.
Proof. destruct a, b; simpl; intros E; try discriminate E; reflexivity. Qed.
Lemma bound_eqb_eq a b : bound_eqb a b = true -> a = b.
Proof. destruct a, b; simpl; intros E; try discriminate E; reflexivity. Qed.
Lemma init_eqb_eq a b : init_eqb a b = true -> a = b.
Proof. destruct a, b; simpl; intros E; try discriminate E; reflexivity. Qed.

Lemma shape_eqb_eq a b : shape_eqb a b = true -> a = b.
Proof.
  unfold shape_eqb.
  intros H.
  repeat (apply andb_prop in H; destruct H as (H & ?)).
  repeat match goal with
  | E : Bool.eqb _ _ = true |- _ => apply Bool.eqb_prop in E
  | E : cmp_eqb _ _ = true |- _ => apply cmp_eqb_eq in E
  | E : pad_eqb _ _ = true |- _ => apply pad_eqb_eq in E
  | E : end_eqb _ _ = true |- _ => apply end_eqb_eq in E
  | E : order_eqb _ _ = true |- _ => apply order_eqb_eq in E
  | E : bound_eqb _ _ = true |- _ => apply bound_eqb_eq in E
  | E : init_eqb _ _ = true |- _ => apply init_eqb_eq in E
  | E : idx_eqb _ _ = true |- _ => apply idx_eqb_eq in E
  end.
  destruct a, b. simpl in *.
  subst. reflexivity.
Qed.
