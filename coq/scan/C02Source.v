(* Property C02, read on the statement skeleton of lightmotif/src/scan.rs.

   translate/scan_skel.py re-reads `impl Iterator for Scanner` on every run and writes the
   comparison operator of every test of next(), the block end expression, the terms of the
   candidate index, the treatment of padding candidates, the pop order and the field
   initialisers of Scanner::new into GenScan.v (gen_shape, gen_default_block_size,
   gen_init_row, gen_default_threshold_bits).  ScanShape.v is the scanner parameterised by
   such a skeleton; the theorems below are about THAT scanner at THAT skeleton, so they
   are re-checked against the source text on every run: an edit of scan.rs that changes a
   loop bound, an operator, the index expression, ... either breaks C02_source_skeleton
   (and everything stated through it) or is reported by the translator as "cannot parse".
   Only theorems, closed by lemmas of ShapeProofs.v / C02.v. *)
From Coq Require Import List Arith Bool Lia Permutation ZArith.
From LMBase Require Import Res ListX IEEE.
From LMScan Require Import ScanModel ScanLemmas ScanProofs ScanCheck ScanConcrete ConcreteProofs DiscBridge
     ScanShape ShapeProofs ShapeToy GenScan ShapeConcrete C02.
Import ListNotations.

(* (S1) the skeleton read from the source is the one the hand-written model (ScanModel.v)
   and every theorem of C02.v / C03.v were written for *)
Theorem C02_source_skeleton : gen_shape = ref_shape.
Proof. apply shape_eqb_eq. vm_compute. reflexivity. Qed.

(* (S2) Scanner::new: the iteration starts at row 0 with an empty buffer, and the default
   block size is >= 1 (so the theorems apply to a scanner whose setter was not called) *)
Theorem C02_source_defaults :
  1 <= gen_default_block_size /\ gen_init = init.
Proof. split; [vm_compute; lia|reflexivity]. Qed.

(* (S3) at the source's skeleton the parameterised scanner is the scanner of ScanModel.v,
   function by function; in particular the text replayed by the driver (ShapeConcrete.v)
   equals the hand-written concrete instance *)
Theorem C02_source_model_eq :
  forall (T : Type) (geb gtb eqb : T -> T -> bool) (is_nan : T -> bool) (scale : T -> nat)
         (score_position : nat -> res T) (score_rows : nat -> nat -> res dmatrix)
         (R Lm B : nat) (thr : T),
    (forall s, pnext geb gtb eqb is_nan scale score_position score_rows R Lm B thr gen_shape s =
               next geb is_nan scale score_position score_rows R Lm B thr s) /\
    (forall k s, ptake_k geb gtb eqb is_nan scale score_position score_rows R Lm B thr gen_shape k s =
                 take_k geb is_nan scale score_position score_rows R Lm B thr k s) /\
    (forall fuel s, pcollect geb gtb eqb is_nan scale score_position score_rows R Lm B thr gen_shape fuel s =
                    collect geb is_nan scale score_position score_rows R Lm B thr fuel s).
Proof.
  intros. rewrite C02_source_skeleton. split; [|split]; intros.
  - apply pnext_ref.
  - apply ptake_k_ref.
  - apply pcollect_ref.
Qed.

Theorem C02_source_concrete_eq :
  forall (v : cenv) (am : arm) (thr : F32.t) (B : nat),
    ce_pcollect v am thr B = ce_collect v am thr B /\
    (forall k, ce_ptake v am thr B k = ce_take v am thr B k).
Proof.
  intros v am thr B. unfold ce_pcollect, ce_collect, ce_ptake, ce_take.
  destruct (C02_source_model_eq F32.t F32.ge F32.gt F32.eq F32.is_nan (ce_scale v) (ce_score_position v)
              (ce_score_rows v am) (ce_R v) (ce_Lm v) B thr) as (_ & Ht & Hc).
  split; [apply Hc|]. intros k. now rewrite Ht.
Qed.

(* (S4) soundness of the scanner as written in the source (unconditional: any block size,
   any pre-filter) *)
Theorem C02_source_scan_sound :
  forall (T : Type) (geb gtb eqb : T -> T -> bool) (is_nan : T -> bool) (scale : T -> nat)
         (score_position : nat -> res T) (score_rows : nat -> nat -> res dmatrix)
         (R Lm B : nat) (thr : T),
    (forall a e m, a <= e -> e <= R -> score_rows a e = Ok m -> length m <= e - a) ->
    forall (fuel : nat) (H : list (nat * T)),
      pcollect geb gtb eqb is_nan scale score_position score_rows R Lm B thr gen_shape fuel
               {| row := gen_init_row; hits := [] |} = Ok H ->
      Forall (fun h => fst h < Lm /\ score_position (fst h) = Ok (snd h) /\ geb (snd h) thr = true) H
      /\ NoDup (map fst H).
Proof.
  intros T geb gtb eqb is_nan scale score_position score_rows R Lm B thr Hlen fuel H Hc.
  destruct (C02_source_model_eq T geb gtb eqb is_nan scale score_position score_rows R Lm B thr) as (_ & _ & E).
  rewrite E in Hc.
  exact (C02_scan_sound T geb is_nan scale score_position score_rows R Lm B thr Hlen fuel H Hc).
Qed.

(* (S5) completeness, no panic, termination of the scanner as written in the source *)
Theorem C02_source_scan_complete :
  forall (T : Type) (geb gtb eqb : T -> T -> bool) (is_nan : T -> bool) (scale : T -> nat)
         (score_position : nat -> res T) (score_rows : nat -> nat -> res dmatrix)
         (R Lm B : nat) (thr : T) (C : nat) (score : nat -> T) (dscore : nat -> nat),
    1 <= B ->
    Lm <= R * C ->
    (forall i, i < Lm -> score_position i = Ok (score i)) ->
    (forall a e, a <= e -> e <= R -> score_rows a e = Ok (block_spec R Lm C dscore a e)) ->
    (forall i, i < Lm -> geb (score i) thr = true -> is_nan (score i) = false) ->
    (forall i, i < Lm -> geb (score i) thr = true -> scale thr <= dscore i) ->
    forall fuel, Lm < fuel ->
    exists H : list (nat * T),
      pcollect geb gtb eqb is_nan scale score_position score_rows R Lm B thr gen_shape fuel
               {| row := gen_init_row; hits := [] |} = Ok H /\
      (forall i x, In (i, x) H <-> i < Lm /\ geb (score i) thr = true /\ x = score i) /\
      NoDup (map fst H) /\
      (forall k, exists s',
          ptake_k geb gtb eqb is_nan scale score_position score_rows R Lm B thr gen_shape k
                  {| row := gen_init_row; hits := [] |} = Ok (firstn k H, s')).
Proof.
  intros T geb gtb eqb is_nan scale score_position score_rows R Lm B thr C score dscore
         HB HLm Hpos Hrows Hnan Hcons fuel Hf.
  destruct (C02_source_model_eq T geb gtb eqb is_nan scale score_position score_rows R Lm B thr) as (_ & Et & Ec).
  destruct (C02_scan_complete T geb is_nan scale score_position score_rows R Lm B thr C score dscore
              HB HLm Hpos Hrows Hnan Hcons fuel Hf) as (H & Hc & Hin & Hnd & _).
  exists H. rewrite Ec. split; [exact Hc|]. split; [exact Hin|]. split; [exact Hnd|].
  intros k.
  destruct (C02_take_prefix T geb is_nan scale score_position score_rows R Lm B thr C score dscore
              HB HLm Hpos Hrows Hnan Hcons fuel k Hf) as (H' & s' & Hc' & Ht).
  change (@Build_st T gen_init_row []) with (@init T) in *.
  rewrite Hc in Hc'. inversion Hc'; subst H'. exists s'. rewrite Et. exact Ht.
Qed.

(* (S6) the text the driver replays (binary32, every arm), for a scanner whose block_size
   setter was or was not called: on every well-formed input whose matrix passes coq/disc's
   executable conditioning predicate it yields exactly the qualifying positions *)
Theorem C02_source_concrete_scan_wc_checked :
  forall (K C : nat) (pssm : list (list F32.t)) (sq : list nat) (wrap : nat) (v : cenv)
         (am : arm) (thr : F32.t) (B : option nat),
    wf_input K C pssm sq wrap ->
    c_env K C pssm sq wrap = Ok v ->
    match B with Some b => 1 <= b | None => True end ->
    wc_input K pssm (d_factor (ce_dm v)) = true ->
    exists H : list (nat * F32.t),
      ce_pcollect v am thr (match B with Some b => b | None => gen_default_block_size end) = Ok H /\
      (forall i x, In (i, x) H <->
                   i + length pssm <= length sq /\
                   F32.ge (score_def K sq pssm i) thr = true /\ x = score_def K sq pssm i) /\
      NoDup (map fst H).
Proof.
  intros K C pssm sq wrap v am thr B Hwf Henv HB Hwc.
  destruct (C02_source_concrete_eq v am thr (match B with Some b => b | None => gen_default_block_size end)) as (E & _).
  rewrite E.
  apply (C02_concrete_scan_wc_checked K C pssm sq wrap v am thr _ Hwf Henv); [|exact Hwc].
  destruct B as [b|]; [exact HB|exact (proj1 C02_source_defaults)].
Qed.

(* (S7) the fields of the skeleton are load-bearing.  On the toy instance of ShapeToy.v
   (4 rows x 3 columns, 10 valid positions + 2 padding cells with a high byte score), run
   for every threshold 0..10 and block size 1..5 and judged by an executable statement of
   the property (Ok, no duplicate, exact scores, exactly the qualifying positions): the
   skeleton read from the source passes, each of the 13 listed single-field deviations of
   next() fails (`<=`/`!=`/`>` in the loop test, no `.min(sequence_rows)`, `>` in the block
   gate, a term missing in the index, `>`/`<=` in the padding test, `break` for `continue`,
   `>`/`<=` in the threshold test), and the deviations that only change the yield order
   pass. *)
Theorem C02_source_fields_matter :
  PToy.c02_ok gen_shape = true /\
  forallb (fun sh => negb (PToy.c02_ok sh)) c02_deviations = true /\
  forallb PToy.c02_ok benign_deviations = true /\
  length c02_deviations = 13.
Proof. vm_compute. repeat split; reflexivity. Qed.

Check C02_source_skeleton : gen_shape = ref_shape.
