(* Executable judges of the driver that were hand-written OCaml until round 3 / wave 3
   (review finding C02-3): the take(k) judgement and the precondition gate of the
   "a panic is a property failure" verdicts.  Definitions only; lemmas in Check2Proofs.v. *)
From Coq Require Import List ZArith NArith Bool Arith.
From LMBase Require Import IEEE.
From LMScan Require Import ScanCheck.
Import ListNotations.

Fixpoint nodupb (l : list Z) : bool :=
  match l with
  | [] => true
  | x :: r => negb (existsb (Z.eqb x) r) && nodupb r
  end.

(* Iterator::take(k) on the scanner: exactly min(k, #qualifying) hits, distinct positions,
   each a qualifying position with its exact score bits *)
Definition check_take (scores : list Z) (thr : Z) (k : nat) (hits : list zhit) : bool :=
  let q := qual scores thr in
  Nat.eqb (length hits) (Nat.min k (length q)) &&
  nodupb (map fst hits) &&
  forallb (fun h => existsb (zhit_eqb h) q) hits.

(* the inputs on which a panic of the scanner violates the property: the sequence was
   configured for the motif (wrap >= M-1), the motif has a row, block size >= 1, and no
   NaN among the non-wildcard cells (to_discrete's partial_cmp().unwrap() panics on those:
   Scanner::new cannot be called) *)
Definition pre_ok (K M wrap : nat) (bpos : bool) (pssm : list (list Z)) : bool :=
  (1 <=? M) && (M - 1 <=? wrap) && bpos &&
  forallb (fun row => forallb (fun x => negb (F32.is_nan (F32.of_bits x))) (firstn (K - 1) row)) pssm.

Definition n_pos (b : N) : bool := (1 <=? b)%N.

(* ---------- setters called between calls (`sw=` / `swmax=` observations) ----------
   The property texts say nothing about setters called mid-way; these judges state what the
   driver demands of such runs: a WEAK property, what must hold whatever the order in which
   the two parameter sets were in force. *)

Definition in_hits (h : zhit) (l : list zhit) : bool := existsb (zhit_eqb h) l.

(* k x next() under thr (hits [before]), setters (thr2, any block size), next() until None
   (hits [after]) *)
Definition check_sw (scores : list Z) (thr thr2 : Z) (before after : list zhit) : bool :=
  let q1 := qual scores thr in
  let q2 := qual scores thr2 in
  let all := before ++ after in
  nodupb (map fst all) &&
  forallb (fun h => in_hits h q1) before &&
  forallb (fun h => in_hits h q1 || in_hits h q2) after &&
  forallb (fun q => in_hits q all) (filter (fun q => bits_ge (snd q) thr2) q1).

(* k x next() under thr (positions [consumed]), setters (thr2, any block size), max() *)
Definition check_swmax (scores : list Z) (thr thr2 : Z) (consumed : list Z) (result : option zhit) : bool :=
  let strong := filter (fun q => bits_ge (snd q) thr2) (remaining scores thr consumed) in
  match result with
  | None => match strong with [] => true | _ => false end
  | Some h =>
      in_hits h (qual scores thr2) && negb (existsb (Z.eqb (fst h)) consumed) &&
      forallb (fun q => bits_ge (snd h) (snd q)) strong
  end.

(* block-size independence of max() (C03): the two answers are the same position with the same score bits *)
Definition same_answer (a b : option zhit) : bool :=
  match a, b with
  | None, None => true
  | Some x, Some y => zhit_eqb x y
  | _, _ => false
  end.
