(* ScanWord.v (usize arithmetic explicit) against ScanModel.v (usize = nat): as long as no
   `row + block_size` reaches the word size the two scanners are the same function, for
   every overflow mode.  Two sufficient conditions:
     fresh scanner, one block size B < W throughout, 2 * R <= W   (row is 0 or >= B)
     any state, R + B <= W                                        (row < R when the sum is taken)
   so the audited theorems about ScanModel's scanner hold for the word-level one for EVERY
   block size 1 <= B < 2^64 set before the first call, and after setters called between calls
   for new block sizes B' <= 2^64 - R.  (Beyond that bound they do not: C02Total.v,
   C02_word_setters_overflow_refuted.) *)
From Coq Require Import List Arith Bool NArith Lia.
From LMBase Require Import Res ListX.
From LMScan Require Import ScanModel ScanLemmas ScanProofs ScanSwitch ScanWord.
Import ListNotations.

Lemma wadd_small m W a b : (a + b < W)%N -> wadd m W a b = Ok (a + b)%N.
Proof. intros H. unfold wadd. apply N.ltb_lt in H. now rewrite H. Qed.

Lemma N_ltb_of_nat a b : (N.of_nat a <? N.of_nat b)%N = (a <? b).
Proof.
  destruct (Nat.ltb_spec a b) as [H|H].
  - apply N.ltb_lt. lia.
  - apply N.ltb_ge. lia.
Qed.

Section WordProofs.
  Context {T : Type}.
  Variable geb gtb eqb : T -> T -> bool.
  Variable is_nan : T -> bool.
  Variable scale : T -> nat.
  Variable score_position : nat -> res T.
  Variable score_rows : nat -> nat -> res dmatrix.
  Variable R Lm : nat.
  Variable m : ovf.
  Variable W : N.

  Local Notation st := (@st T).
  Local Notation wst := (@wst T).
  Local Notation hit := (@hit T).

  Definition wst_of (s : st) : wst := {| wrow := N.of_nat (row s); whits := hits s |}.
  Definition lift2 (r : option hit * st) : option hit * wst := (fst r, wst_of (snd r)).
  Definition lift3 (r : list hit * st) : list hit * wst := (fst r, wst_of (snd r)).

  Section Fixed.
    Variable B : nat.
    Variable thr : T.
    (* a set of row values closed under `+ B` on which the sum does not reach W *)
    Variable P : nat -> Prop.
    Hypothesis P_safe : forall rw, P rw -> rw < R -> (N.of_nat (rw + B) < W)%N.
    Hypothesis P_step : forall rw, P rw -> P (rw + B).

    Local Notation next_block := (next_block geb is_nan scale score_position score_rows R Lm B thr).
    Local Notation next_loop := (next_loop geb is_nan scale score_position score_rows R Lm B thr).
    Local Notation next := (next geb is_nan scale score_position score_rows R Lm B thr).
    Local Notation take_k := (take_k geb is_nan scale score_position score_rows R Lm B thr).
    Local Notation collect := (collect geb is_nan scale score_position score_rows R Lm B thr).
    Local Notation wnext_block := (wnext_block geb is_nan scale score_position score_rows R Lm m W (N.of_nat B) thr).
    Local Notation wnext_loop := (wnext_loop geb is_nan scale score_position score_rows R Lm m W (N.of_nat B) thr).
    Local Notation wnext := (wnext geb is_nan scale score_position score_rows R Lm m W (N.of_nat B) thr).
    Local Notation wtake_k := (wtake_k geb is_nan scale score_position score_rows R Lm m W (N.of_nat B) thr).
    Local Notation wcollect := (wcollect geb is_nan scale score_position score_rows R Lm m W (N.of_nat B) thr).

    Lemma wnext_block_sim s : P (row s) -> row s < R -> wnext_block (wst_of s) = rmap wst_of (next_block s).
    Proof.
      intros HP Hlt. unfold ScanWord.wnext_block, ScanModel.next_block. cbn [wst_of wrow whits].
      rewrite wadd_small by (rewrite <- Nat2N.inj_add; auto).
      cbn [rbind]. rewrite <- Nat2N.inj_add, <- Nat2N.inj_min, !Nat2N.id.
      destruct (score_rows (row s) (Nat.min (row s + B) R)) as [d| | |]; cbn [rbind rmap]; auto.
      destruct (match dmax d with
                | Some mx => if scale thr <=? mx
                             then next_cands geb is_nan score_position R Lm thr (row s) (dthreshold d (scale thr)) (hits s)
                             else Ok (hits s)
                | None => Ok (hits s)
                end) as [hs| | |]; cbn [rbind rmap]; auto.
    Qed.

    Lemma next_loop_P fuel : forall s s', next_loop fuel s = Ok s' -> P (row s) -> P (row s').
    Proof.
      induction fuel as [|f IH]; intros s s' E HP; [discriminate|].
      cbn [ScanModel.next_loop] in E. destruct (hits s); [|now inversion E; subst].
      destruct (row s <? R); [|now inversion E; subst].
      apply rbind_ok in E. destruct E as (s1 & E1 & E2).
      apply (IH _ _ E2). rewrite (next_block_row _ _ _ _ _ _ _ _ _ _ _ E1). now apply P_step.
    Qed.

    Lemma wnext_loop_sim fuel : forall s, P (row s) -> wnext_loop fuel (wst_of s) = rmap wst_of (next_loop fuel s).
    Proof.
      induction fuel as [|f IH]; intros s HP; [reflexivity|].
      cbn [ScanWord.wnext_loop ScanModel.next_loop]. cbn [wst_of whits wrow].
      destruct (hits s) eqn:Eh.
      - rewrite N_ltb_of_nat. destruct (Nat.ltb_spec (row s) R) as [Hlt|Hge].
        + fold (wst_of s). rewrite (wnext_block_sim s HP Hlt).
          destruct (next_block s) as [s1| | |] eqn:E1; cbn [rbind rmap]; auto.
          apply IH. rewrite (next_block_row _ _ _ _ _ _ _ _ _ _ _ E1). now apply P_step.
        + unfold rmap, wst_of. cbn [rbind]. now rewrite Eh.
      - unfold rmap, wst_of. cbn [rbind]. now rewrite Eh.
    Qed.

    Lemma next_P s r s' : next s = Ok (r, s') -> P (row s) -> P (row s').
    Proof.
      unfold ScanModel.next. intros E HP. apply rbind_ok in E. destruct E as (s1 & E1 & E2).
      pose proof (next_loop_P _ _ _ E1 HP) as HP1.
      destruct (hits s1); inversion E2; subst; auto.
    Qed.

    Lemma wnext_sim s : P (row s) -> wnext (wst_of s) = rmap lift2 (next s).
    Proof.
      intros HP. unfold ScanWord.wnext, ScanModel.next. rewrite (wnext_loop_sim _ s HP).
      destruct (next_loop (S R) s) as [s1| | |]; cbn [rbind rmap]; auto.
      cbn [wst_of whits wrow]. destruct (hits s1); reflexivity.
    Qed.

    Lemma take_k_P k : forall s H s', take_k k s = Ok (H, s') -> P (row s) -> P (row s').
    Proof.
      induction k as [|k IH]; intros s H s' E HP; [inversion E; subst; auto|].
      cbn [ScanModel.take_k] in E. apply rbind_ok in E. destruct E as ([r s1] & E1 & E2).
      pose proof (next_P _ _ _ E1 HP) as HP1. cbn [fst snd] in E2.
      destruct r as [h|]; [|inversion E2; subst; auto].
      apply rbind_ok in E2. destruct E2 as ([H2 s2] & E2 & E3). inversion E3; subst.
      exact (IH _ _ _ E2 HP1).
    Qed.

    Lemma wtake_k_sim k : forall s, P (row s) -> wtake_k k (wst_of s) = rmap lift3 (take_k k s).
    Proof.
      induction k as [|k IH]; intros s HP; [reflexivity|].
      cbn [ScanWord.wtake_k ScanModel.take_k]. rewrite (wnext_sim s HP).
      destruct (next s) as [[r s1]| | |] eqn:E1; cbn [rbind rmap]; auto.
      cbn [lift2 fst snd]. destruct r as [h|]; [|reflexivity].
      rewrite (IH s1 (next_P _ _ _ E1 HP)).
      destruct (take_k k s1) as [[H2 s2]| | |]; cbn [rbind rmap]; auto.
    Qed.

    Lemma wcollect_sim fuel : forall s, P (row s) -> wcollect fuel (wst_of s) = collect fuel s.
    Proof.
      induction fuel as [|f IH]; intros s HP; [reflexivity|].
      cbn [ScanWord.wcollect ScanModel.collect]. rewrite (wnext_sim s HP).
      destruct (next s) as [[r s1]| | |] eqn:E1; cbn [rbind rmap]; auto.
      cbn [lift2 fst snd]. destruct r as [h|]; [|reflexivity].
      now rewrite (IH s1 (next_P _ _ _ E1 HP)).
    Qed.

    Lemma wmax_loop_sim fuel : forall rw best bd, P rw ->
      wmax_loop geb gtb eqb is_nan scale score_position score_rows R Lm m W (N.of_nat B) thr fuel (N.of_nat rw) best bd
      = max_loop geb gtb eqb is_nan scale score_position score_rows R Lm B thr fuel rw best bd.
    Proof.
      induction fuel as [|f IH]; intros rw best bd HP; [reflexivity|].
      cbn [ScanWord.wmax_loop ScanModel.max_loop]. rewrite N_ltb_of_nat.
      destruct (Nat.ltb_spec rw R) as [Hlt|Hge]; [|reflexivity].
      rewrite wadd_small by (rewrite <- Nat2N.inj_add; auto).
      cbn [rbind]. rewrite <- Nat2N.inj_add, <- Nat2N.inj_min, !Nat2N.id.
      destruct (score_rows rw (Nat.min (rw + B) R)) as [d| | |]; cbn [rbind]; auto.
      destruct (match dmax d with
                | Some mx => if bd <=? mx
                             then max_cands geb gtb eqb is_nan scale score_position R Lm thr rw d (dthreshold d bd) best bd
                             else Ok (best, bd)
                | None => Ok (best, bd)
                end) as [r| | |]; cbn [rbind]; auto.
    Qed.

    Lemma wsmax_sim s : P (row s) ->
      wsmax geb gtb eqb is_nan scale score_position score_rows R Lm m W (N.of_nat B) thr (wst_of s)
      = smax geb gtb eqb is_nan scale score_position score_rows R Lm B thr s.
    Proof.
      intros HP. unfold wsmax, smax. cbn [wst_of whits wrow].
      match goal with |- context [max_by_score gtb eqb ?l] =>
        destruct (max_by_score gtb eqb l) as [b0| | |] end; cbn [rbind]; auto.
      now apply wmax_loop_sim.
    Qed.
  End Fixed.

  (* ---------- the two sufficient conditions ---------- *)

  Definition P_fresh (B rw : nat) : Prop := rw = 0 \/ B <= rw.

  Lemma P_fresh_safe B : (N.of_nat B < W)%N -> (N.of_nat (2 * R) <= W)%N ->
    forall rw, P_fresh B rw -> rw < R -> (N.of_nat (rw + B) < W)%N.
  Proof. intros HB HR rw [->|Hge] Hlt; [simpl; exact HB|]. lia. Qed.

  Lemma P_fresh_step B : forall rw, P_fresh B rw -> P_fresh B (rw + B).
  Proof. intros rw _. right. lia. Qed.

  Definition P_all (rw : nat) : Prop := True.

  Lemma P_all_safe B : (N.of_nat (R + B) <= W)%N -> forall rw, P_all rw -> rw < R -> (N.of_nat (rw + B) < W)%N.
  Proof. intros HB rw _ Hlt. lia. Qed.

  (* a scanner whose block size 1 <= B < W is set before the first call: identical, in every
     overflow mode, to the nat-level scanner (all of next / take / exhaustion / max) *)
  Lemma wcollect_fresh_eq B thr fuel :
    (N.of_nat B < W)%N -> (N.of_nat (2 * R) <= W)%N ->
    wcollect geb is_nan scale score_position score_rows R Lm m W (N.of_nat B) thr fuel winit
    = collect geb is_nan scale score_position score_rows R Lm B thr fuel init.
  Proof.
    intros HB HR.
    apply (wcollect_sim B thr (P_fresh B) (P_fresh_safe B HB HR) (P_fresh_step B) fuel init). now left.
  Qed.

  Lemma wtake_k_fresh_eq B thr k :
    (N.of_nat B < W)%N -> (N.of_nat (2 * R) <= W)%N ->
    wtake_k geb is_nan scale score_position score_rows R Lm m W (N.of_nat B) thr k winit
    = rmap lift3 (take_k geb is_nan scale score_position score_rows R Lm B thr k init).
  Proof.
    intros HB HR.
    apply (wtake_k_sim B thr (P_fresh B) (P_fresh_safe B HB HR) (P_fresh_step B) k init). now left.
  Qed.

  (* setters between calls: identical to ScanSwitch's functions when the NEW block size
     satisfies R + B' <= W *)
  Lemma wswitch_collect_eq B thr k B' thr' fuel :
    (N.of_nat B < W)%N -> (N.of_nat (2 * R) <= W)%N -> (N.of_nat (R + B') <= W)%N ->
    wswitch_collect geb is_nan scale score_position score_rows R Lm m W (N.of_nat B) thr k (N.of_nat B') thr' fuel
    = switch_collect geb is_nan scale score_position score_rows R Lm B thr k B' thr' fuel.
  Proof.
    intros HB HR HB'. unfold wswitch_collect, switch_collect.
    rewrite (wtake_k_fresh_eq B thr k HB HR).
    destruct (take_k geb is_nan scale score_position score_rows R Lm B thr k init) as [[Y s]| | |];
      cbn [rbind rmap]; auto.
    cbn [lift3 fst snd].
    rewrite (wcollect_sim B' thr' P_all (P_all_safe B' HB') (fun _ _ => I) fuel s I). reflexivity.
  Qed.

  Lemma wswitch_max_eq B thr k B' thr' :
    (N.of_nat B < W)%N -> (N.of_nat (2 * R) <= W)%N -> (N.of_nat (R + B') <= W)%N ->
    wswitch_max geb gtb eqb is_nan scale score_position score_rows R Lm m W (N.of_nat B) thr k (N.of_nat B') thr'
    = switch_max geb gtb eqb is_nan scale score_position score_rows R Lm B thr k B' thr'.
  Proof.
    intros HB HR HB'. unfold wswitch_max, switch_max.
    rewrite (wtake_k_fresh_eq B thr k HB HR).
    destruct (take_k geb is_nan scale score_position score_rows R Lm B thr k init) as [[Y s]| | |];
      cbn [rbind rmap]; auto.
    cbn [lift3 fst snd].
    rewrite (wsmax_sim B' thr' P_all (P_all_safe B' HB') (fun _ _ => I) s I). reflexivity.
  Qed.

  (* max() on a fresh scanner / after k calls with the same block size *)
  Lemma wmax_after_fresh_eq B thr k :
    (N.of_nat B < W)%N -> (N.of_nat (2 * R) <= W)%N ->
    (r <- wtake_k geb is_nan scale score_position score_rows R Lm m W (N.of_nat B) thr k winit ;;
     wsmax geb gtb eqb is_nan scale score_position score_rows R Lm m W (N.of_nat B) thr (snd r))
    = max_after geb gtb eqb is_nan scale score_position score_rows R Lm B thr k.
  Proof.
    intros HB HR. unfold max_after. rewrite (wtake_k_fresh_eq B thr k HB HR).
    destruct (take_k geb is_nan scale score_position score_rows R Lm B thr k init) as [[Y s]| | |] eqn:Et;
      cbn [rbind rmap]; auto.
    cbn [lift3 fst snd].
    apply (wsmax_sim B thr (P_fresh B) (P_fresh_safe B HB HR) (P_fresh_step B) s).
    apply (take_k_P B thr (P_fresh B) (P_fresh_step B) k init Y s Et). now left.
  Qed.

End WordProofs.
