(* Which overflow behaviour the four additions `row + block_size` of scan.rs have, as read from
   the source by translate/scan_skel.py (GenScan.gen_row_add_saturating) and from the build
   profile (overflow checks on / off).  Definitions only. *)
From LMScan Require Import ScanWord GenScan.

Definition gen_ovf (overflow_checks : bool) : ovf :=
  if gen_row_add_saturating then Saturating
  else if overflow_checks then Checked else Wrapping.
