(* Model of lightmotif/src/scan.rs: Scanner::{next, max} (Iterator impl), Hit.
   Executable definitions only (no proofs in this file).

   The scanner is written once, in a Section, over the things it calls:

     T                 the score type (f32 in the code)
     geb gtb eqb       the comparisons  a >= b, a > b, a == b  of the code
     is_nan            f32::is_nan (only used by the assertion of Hit::new)
     scale             DiscreteMatrix::scale          (f32 -> u8)
     score_position    ScoringMatrix::score_position  (position -> f32, may panic)
     score_rows a e    Pipeline::score_rows_into(&dm, &seq, a..e, &mut dscores):
                       the u8 score matrix of rows a..e (a list of rows), may panic
     R                 sequence_rows = seq.matrix().rows().saturating_sub(seq.wrap())
     Lm                max_index     = (seq.len() + 1).saturating_sub(pssm.len())
     B                 block_size
     thr               threshold

   so that the theorems (ScanProofs.v, MaxProofs.v) hold for every instance, and the
   concrete binary32 instance (ScanConcrete.v) used for the bit-exact replay is the
   same text.  Every place where the Rust code can panic is a [Panic n]:

     Panic 1   Hit::new: assert!(!score.is_nan())
     Panic 2   max(): max_by(|x, y| x.score.partial_cmp(&y.score).unwrap())
     Panic 3   max(): self.dscores.matrix()[c] (MatrixCoordinates index out of range)
     (score_position and score_rows bring their own panic sites, see ScanConcrete.v)

   `usize` is modelled by nat.  The additions `self.row + self.block_size`,
   `self.row += self.block_size` are only evaluated when row < R, and row is then 0
   or >= B, so their value is < 2*R: no usize overflow is reachable for a matrix that
   fits in memory; `col * sequence_rows + row + c.row` is < C*R + R likewise. *)
From Coq Require Import List Arith Bool Lia.
From LMBase Require Import Res ListX.
Import ListNotations.

(* ---------- u8 score matrices: StripedScores<u8, C>::matrix() as a list of rows ---------- *)

Definition dmatrix := list (list nat).

(* cell (r, c) of a matrix whose shape is known *)
Definition dget (d : dmatrix) (r c : nat) : nat := nth c (nth r d []) 0.

(* self.dscores.matrix()[MatrixCoordinates{row, col}] with its bounds check *)
Definition dget_res (d : dmatrix) (r c : nat) : res nat :=
  match nth_error d r with
  | None => Panic 3
  | Some row => match nth_error row c with None => Panic 3 | Some x => Ok x end
  end.

(* all coordinates of a matrix, row-major (the iteration order of the generic
   Threshold::threshold and Maximum::argmax) *)
Definition coords (d : dmatrix) : list (nat * nat) :=
  flat_map (fun r => map (fun c => (r, c)) (seq 0 (length (nth r d [])))) (seq 0 (length d)).

(* SPEC of Maximum<u8>::max (generic: value at the arg-max; AVX2: max_epu8 from 0):
   None for a matrix without rows, otherwise the largest cell *)
Definition dmax (d : dmatrix) : option nat :=
  match d with
  | [] => None
  | _ => Some (list_max (concat d))
  end.

(* SPEC of Threshold<u8>::threshold: coordinates of the cells >= t, row-major *)
Definition dthreshold (d : dmatrix) (t : nat) : list (nat * nat) :=
  filter (fun rc => t <=? dget d (fst rc) (snd rc)) (coords d).

(* ---------- the scanner ---------- *)

Section Scanner.
  Context {T : Type}.
  Variable geb gtb eqb : T -> T -> bool.
  Variable is_nan : T -> bool.
  Variable scale : T -> nat.
  Variable score_position : nat -> res T.
  Variable score_rows : nat -> nat -> res dmatrix.
  Variable R Lm B : nat.
  Variable thr : T.

  (* Hit { position, score } *)
  Definition hit : Type := (nat * T)%type.

  (* Hit::new *)
  Definition hit_new (i : nat) (s : T) : res hit :=
    if is_nan s then Panic 1 else Ok (i, s).

  (* Scanner state that next()/max() read and write.  [hits] is the Vec<Hit> seen
     as a stack: its head is the LAST pushed element (Vec::push = cons,
     Vec::pop = head), so that [rev hits] is the Vec in index order. *)
  Record st := { row : nat; hits : list hit }.

  Definition init : st := {| row := 0; hits := [] |}.

  (* body of `for c in self.pipeline.threshold(&self.dscores, t)` in next() *)
  Fixpoint next_cands (rw : nat) (cands : list (nat * nat)) (hs : list hit) : res (list hit) :=
    match cands with
    | [] => Ok hs
    | (r, c) :: rest =>
        let index := c * R + rw + r in
        if Lm <=? index then next_cands rw rest hs            (* continue *)
        else
          s <- score_position index ;;
          if geb s thr then
            h <- hit_new index s ;;
            next_cands rw rest (h :: hs)                      (* self.hits.push(..) *)
          else next_cands rw rest hs
    end.

  (* one iteration of the `while` of next() *)
  Definition next_block (s : st) : res st :=
    let t := scale thr in
    let e := Nat.min (row s + B) R in
    d <- score_rows (row s) e ;;
    hs <- match dmax d with
          | Some m => if t <=? m then next_cands (row s) (dthreshold d t) (hits s)
                      else Ok (hits s)
          | None => Ok (hits s)
          end ;;
    Ok {| row := row s + B; hits := hs |}.

  (* while self.hits.is_empty() && self.row < sequence_rows { .. } *)
  Fixpoint next_loop (fuel : nat) (s : st) : res st :=
    match fuel with
    | O => OutOfFuel
    | S f =>
        match hits s with
        | [] => if row s <? R then s' <- next_block s ;; next_loop f s' else Ok s
        | _ :: _ => Ok s
        end
    end.

  (* Iterator::next: the loop, then self.hits.pop().  Fuel R+1 always suffices for
     B >= 1 (next_loop_fuel in ScanProofs.v); B = 0 loops forever in the code. *)
  Definition next (s : st) : res (option hit * st) :=
    s' <- next_loop (S R) s ;;
    match hits s' with
    | [] => Ok (None, s')
    | h :: tl => Ok (Some h, {| row := row s'; hits := tl |})
    end.

  (* Iterator::take(k): at most k calls of next(), stopping at the first None *)
  Fixpoint take_k (k : nat) (s : st) : res (list hit * st) :=
    match k with
    | O => Ok ([], s)
    | S k' =>
        r <- next s ;;
        match fst r with
        | None => Ok ([], snd r)
        | Some h => r' <- take_k k' (snd r) ;; Ok (h :: fst r', snd r')
        end
    end.

  (* iteration to exhaustion: call next() until it returns None *)
  Fixpoint collect (fuel : nat) (s : st) : res (list hit) :=
    match fuel with
    | O => OutOfFuel
    | S f =>
        r <- next s ;;
        match fst r with
        | None => Ok []
        | Some h => l <- collect f (snd r) ;; Ok (h :: l)
        end
    end.

  (* ----- Iterator::max (override) ----- *)

  (* Iterator::max_by(|x, y| x.score.partial_cmp(&y.score).unwrap()):
     reduce(|x, y| match compare(&x, &y) { Greater => x, _ => y }) *)
  Fixpoint max_by_from (x : hit) (l : list hit) : res hit :=
    match l with
    | [] => Ok x
    | y :: rest =>
        if gtb (snd x) (snd y) then max_by_from x rest
        else if eqb (snd x) (snd y) || gtb (snd y) (snd x) then max_by_from y rest
        else Panic 2
    end.

  Definition max_by_score (l : list hit) : res (option hit) :=
    match l with
    | [] => Ok None
    | x :: rest => h <- max_by_from x rest ;; Ok (Some h)
    end.

  (* body of `for c in self.pipeline.threshold(&self.dscores, best_discrete)` in max();
     the candidate list was computed with the value of best_discrete before the loop,
     the test `dscore >= best_discrete` uses the current one *)
  Fixpoint max_cands (rw : nat) (d : dmatrix) (cands : list (nat * nat))
           (best : option hit) (bd : nat) : res (option hit * nat) :=
    match cands with
    | [] => Ok (best, bd)
    | (r, c) :: rest =>
        dscore <- dget_res d r c ;;
        let index := c * R + rw + r in
        if (bd <=? dscore) && (index <? Lm) then
          s <- score_position index ;;
          match best with
          | Some (bp, bs) =>
              if gtb s bs || (eqb s bs && (bp <? index)) then
                h <- hit_new index s ;;
                max_cands rw d rest (Some h) (scale s)
              else max_cands rw d rest best bd
          | None =>
              if geb s thr then
                h <- hit_new index s ;;
                max_cands rw d rest (Some h) bd
              else max_cands rw d rest best bd
          end
        else max_cands rw d rest best bd
    end.

  (* while self.row < sequence_rows { .. } of max() *)
  Fixpoint max_loop (fuel : nat) (rw : nat) (best : option hit) (bd : nat) : res (option hit) :=
    match fuel with
    | O => OutOfFuel
    | S f =>
        if rw <? R then
          let e := Nat.min (rw + B) R in
          d <- score_rows rw e ;;
          r <- match dmax d with
               | Some m => if bd <=? m then max_cands rw d (dthreshold d bd) best bd
                           else Ok (best, bd)
               | None => Ok (best, bd)
               end ;;
          max_loop f (rw + B) (fst r) (snd r)
        else Ok best
    end.

  Definition smax (s : st) : res (option hit) :=
    (* std::mem::take(&mut self.hits).into_iter().filter(..).max_by(..) : Vec order *)
    b0 <- max_by_score (filter (fun h => geb (snd h) thr) (rev (hits s))) ;;
    let bd0 := match b0 with Some h => scale (snd h) | None => scale thr end in
    max_loop (S R) (row s) b0 bd0.

  (* k calls of next() (stopping at None), then max() *)
  Definition max_after (k : nat) : res (option hit) :=
    r <- take_k k init ;; smax (snd r).

End Scanner.

Arguments row {T} _.
Arguments hits {T} _.
