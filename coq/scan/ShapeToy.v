(* A toy instance (natural-number scores) on which the parameterised scanner of
   ScanShape.v is run for EVERY threshold 0..10, block size 1..5 and prefix length 0..4,
   and judged by an executable statement of properties C02 / C03.  Used by C02Source.v /
   C03Source.v to show that the fields of the statement skeleton read from scan.rs are
   load-bearing: the reference skeleton passes, each listed single-field deviation fails.
   Executable definitions only.

   R = 4 rows, C = 3 columns, 10 valid positions; cells 10 and 11 are padding and carry a
   HIGH byte score (a window full of N whose wildcard column outweighs the bases), so the
   pre-filter always proposes them; byte score = ceil(score / 2) (+ 2 at position 4),
   scale = floor(t / 2): conservative, lossy, not monotone in the score. *)
From Coq Require Import List Arith Bool.
From LMBase Require Import Res ListX.
From LMScan Require Import ScanModel ScanProofs ScanShape.
Import ListNotations.

Module PToy.
  Definition table : list nat := [5; 7; 2; 7; 6; 8; 1; 4; 3; 7].
  (* position-dependent excess of the byte score (cells are rounded up one by one) *)
  Definition extra : list nat := [0; 0; 0; 0; 2; 0; 0; 0; 0; 0].
  Definition Lm := 10.
  Definition R := 4.
  Definition C := 3.
  Definition score (i : nat) : nat := nth i table 0.
  Definition dscore (i : nat) : nat := if i <? Lm then (score i + 1) / 2 + nth i extra 0 else 200.
  Definition geb (a b : nat) : bool := b <=? a.
  Definition gtb (a b : nat) : bool := b <? a.
  Definition eqb (a b : nat) : bool := a =? b.
  Definition is_nan (_ : nat) : bool := false.
  Definition scale (t : nat) : nat := t / 2.
  Definition score_position (i : nat) : res nat := if i <? Lm then Ok (score i) else Panic 21.
  (* rows a..e of the striped byte scores; rows >= R are wrap rows: row R + j repeats row j
     shifted by one column (block_spec indexes position c*R + r whatever r is) *)
  Definition score_rows (a e : nat) : res dmatrix := Ok (block_spec R Lm C dscore a e).

  Definition collect_sh (sh : shape) (B thr : nat) : res (list (nat * nat)) :=
    pcollect geb gtb eqb is_nan scale score_position score_rows R Lm B thr sh 13 init.
  Definition take_sh (sh : shape) (B thr k : nat) : res (list (nat * nat) * st) :=
    ptake_k geb gtb eqb is_nan scale score_position score_rows R Lm B thr sh k init.
  Definition max_sh (sh : shape) (B thr k : nat) : res (option (nat * nat)) :=
    pmax_after geb gtb eqb is_nan scale score_position score_rows R Lm B thr sh k.

  Definition qualifying (thr : nat) : list nat := filter (fun i => geb (score i) thr) (seq 0 Lm).

  Definition mem (i : nat) (l : list nat) : bool := existsb (Nat.eqb i) l.
  Fixpoint nodupb (l : list nat) : bool :=
    match l with [] => true | x :: r => negb (mem x r) && nodupb r end.

  (* C02 on one run: Ok, no duplicate, exact scores, exactly the qualifying positions *)
  Definition c02_ok_run (thr : nat) (r : res (list (nat * nat))) : bool :=
    match r with
    | Ok H =>
        nodupb (map fst H) &&
        forallb (fun h => (fst h <? Lm) && (snd h =? score (fst h)) && geb (snd h) thr) H &&
        forallb (fun i => mem i (map fst H)) (qualifying thr)
    | _ => false
    end.

  (* C03 on one run: Ok; None iff nothing unconsumed qualifies; else an unconsumed qualifying
     position with its exact score that dominates the unconsumed qualifying scores *)
  Definition c03_ok_run (thr : nat) (consumed : list nat) (r : res (option (nat * nat))) : bool :=
    let rest := filter (fun i => negb (mem i consumed)) (qualifying thr) in
    match r with
    | Ok None => match rest with [] => true | _ => false end
    | Ok (Some (p, x)) => mem p rest && (x =? score p) && forallb (fun i => geb x (score i)) rest
    | _ => false
    end.

  Definition thrs : list nat := seq 0 11.
  Definition blocks : list nat := [1; 2; 3; 4; 5].
  Definition prefixes : list nat := [0; 1; 2; 3; 4].

  Definition c02_ok (sh : shape) : bool :=
    forallb (fun B => forallb (fun thr => c02_ok_run thr (collect_sh sh B thr)) thrs) blocks.

  Definition c03_ok (sh : shape) : bool :=
    forallb (fun B => forallb (fun thr => forallb (fun k =>
      match take_sh sh B thr k with
      | Ok (Y, _) => c03_ok_run thr (map fst Y) (max_sh sh B thr k)
      | _ => false
      end) prefixes) thrs) blocks.
End PToy.

(* ---------- single-field deviations from the reference skeleton ---------- *)

Definition set_n_loop_cmp v s := {| n_loop_hits_empty := n_loop_hits_empty s; n_loop_cmp := v; n_end := n_end s;
  n_gate_cmp := n_gate_cmp s; n_idx := n_idx s; n_pad_cmp := n_pad_cmp s; n_pad_action := n_pad_action s;
  n_thr_cmp := n_thr_cmp s; n_order := n_order s; m_filter_cmp := m_filter_cmp s; m_loop_cmp := m_loop_cmp s;
  m_end := m_end s; m_gate_cmp := m_gate_cmp s; m_init := m_init s; m_idx := m_idx s;
  m_dscore_cmp := m_dscore_cmp s; m_index_cmp := m_index_cmp s; m_better_cmp := m_better_cmp s;
  m_tie_cmp := m_tie_cmp s; m_tie_pos_cmp := m_tie_pos_cmp s; m_bound := m_bound s; m_first_cmp := m_first_cmp s |}.
Definition set_n_end v s := {| n_loop_hits_empty := n_loop_hits_empty s; n_loop_cmp := n_loop_cmp s; n_end := v;
  n_gate_cmp := n_gate_cmp s; n_idx := n_idx s; n_pad_cmp := n_pad_cmp s; n_pad_action := n_pad_action s;
  n_thr_cmp := n_thr_cmp s; n_order := n_order s; m_filter_cmp := m_filter_cmp s; m_loop_cmp := m_loop_cmp s;
  m_end := m_end s; m_gate_cmp := m_gate_cmp s; m_init := m_init s; m_idx := m_idx s;
  m_dscore_cmp := m_dscore_cmp s; m_index_cmp := m_index_cmp s; m_better_cmp := m_better_cmp s;
  m_tie_cmp := m_tie_cmp s; m_tie_pos_cmp := m_tie_pos_cmp s; m_bound := m_bound s; m_first_cmp := m_first_cmp s |}.
Definition set_n_gate_cmp v s := {| n_loop_hits_empty := n_loop_hits_empty s; n_loop_cmp := n_loop_cmp s; n_end := n_end s;
  n_gate_cmp := v; n_idx := n_idx s; n_pad_cmp := n_pad_cmp s; n_pad_action := n_pad_action s;
  n_thr_cmp := n_thr_cmp s; n_order := n_order s; m_filter_cmp := m_filter_cmp s; m_loop_cmp := m_loop_cmp s;
  m_end := m_end s; m_gate_cmp := m_gate_cmp s; m_init := m_init s; m_idx := m_idx s;
  m_dscore_cmp := m_dscore_cmp s; m_index_cmp := m_index_cmp s; m_better_cmp := m_better_cmp s;
  m_tie_cmp := m_tie_cmp s; m_tie_pos_cmp := m_tie_pos_cmp s; m_bound := m_bound s; m_first_cmp := m_first_cmp s |}.
Definition set_n_idx v s := {| n_loop_hits_empty := n_loop_hits_empty s; n_loop_cmp := n_loop_cmp s; n_end := n_end s;
  n_gate_cmp := n_gate_cmp s; n_idx := v; n_pad_cmp := n_pad_cmp s; n_pad_action := n_pad_action s;
  n_thr_cmp := n_thr_cmp s; n_order := n_order s; m_filter_cmp := m_filter_cmp s; m_loop_cmp := m_loop_cmp s;
  m_end := m_end s; m_gate_cmp := m_gate_cmp s; m_init := m_init s; m_idx := m_idx s;
  m_dscore_cmp := m_dscore_cmp s; m_index_cmp := m_index_cmp s; m_better_cmp := m_better_cmp s;
  m_tie_cmp := m_tie_cmp s; m_tie_pos_cmp := m_tie_pos_cmp s; m_bound := m_bound s; m_first_cmp := m_first_cmp s |}.
Definition set_n_pad_cmp v s := {| n_loop_hits_empty := n_loop_hits_empty s; n_loop_cmp := n_loop_cmp s; n_end := n_end s;
  n_gate_cmp := n_gate_cmp s; n_idx := n_idx s; n_pad_cmp := v; n_pad_action := n_pad_action s;
  n_thr_cmp := n_thr_cmp s; n_order := n_order s; m_filter_cmp := m_filter_cmp s; m_loop_cmp := m_loop_cmp s;
  m_end := m_end s; m_gate_cmp := m_gate_cmp s; m_init := m_init s; m_idx := m_idx s;
  m_dscore_cmp := m_dscore_cmp s; m_index_cmp := m_index_cmp s; m_better_cmp := m_better_cmp s;
  m_tie_cmp := m_tie_cmp s; m_tie_pos_cmp := m_tie_pos_cmp s; m_bound := m_bound s; m_first_cmp := m_first_cmp s |}.
Definition set_n_pad_action v s := {| n_loop_hits_empty := n_loop_hits_empty s; n_loop_cmp := n_loop_cmp s; n_end := n_end s;
  n_gate_cmp := n_gate_cmp s; n_idx := n_idx s; n_pad_cmp := n_pad_cmp s; n_pad_action := v;
  n_thr_cmp := n_thr_cmp s; n_order := n_order s; m_filter_cmp := m_filter_cmp s; m_loop_cmp := m_loop_cmp s;
  m_end := m_end s; m_gate_cmp := m_gate_cmp s; m_init := m_init s; m_idx := m_idx s;
  m_dscore_cmp := m_dscore_cmp s; m_index_cmp := m_index_cmp s; m_better_cmp := m_better_cmp s;
  m_tie_cmp := m_tie_cmp s; m_tie_pos_cmp := m_tie_pos_cmp s; m_bound := m_bound s; m_first_cmp := m_first_cmp s |}.
Definition set_n_thr_cmp v s := {| n_loop_hits_empty := n_loop_hits_empty s; n_loop_cmp := n_loop_cmp s; n_end := n_end s;
  n_gate_cmp := n_gate_cmp s; n_idx := n_idx s; n_pad_cmp := n_pad_cmp s; n_pad_action := n_pad_action s;
  n_thr_cmp := v; n_order := n_order s; m_filter_cmp := m_filter_cmp s; m_loop_cmp := m_loop_cmp s;
  m_end := m_end s; m_gate_cmp := m_gate_cmp s; m_init := m_init s; m_idx := m_idx s;
  m_dscore_cmp := m_dscore_cmp s; m_index_cmp := m_index_cmp s; m_better_cmp := m_better_cmp s;
  m_tie_cmp := m_tie_cmp s; m_tie_pos_cmp := m_tie_pos_cmp s; m_bound := m_bound s; m_first_cmp := m_first_cmp s |}.
Definition set_m_filter_cmp v s := {| n_loop_hits_empty := n_loop_hits_empty s; n_loop_cmp := n_loop_cmp s; n_end := n_end s;
  n_gate_cmp := n_gate_cmp s; n_idx := n_idx s; n_pad_cmp := n_pad_cmp s; n_pad_action := n_pad_action s;
  n_thr_cmp := n_thr_cmp s; n_order := n_order s; m_filter_cmp := v; m_loop_cmp := m_loop_cmp s;
  m_end := m_end s; m_gate_cmp := m_gate_cmp s; m_init := m_init s; m_idx := m_idx s;
  m_dscore_cmp := m_dscore_cmp s; m_index_cmp := m_index_cmp s; m_better_cmp := m_better_cmp s;
  m_tie_cmp := m_tie_cmp s; m_tie_pos_cmp := m_tie_pos_cmp s; m_bound := m_bound s; m_first_cmp := m_first_cmp s |}.
Definition set_m_loop_cmp v s := {| n_loop_hits_empty := n_loop_hits_empty s; n_loop_cmp := n_loop_cmp s; n_end := n_end s;
  n_gate_cmp := n_gate_cmp s; n_idx := n_idx s; n_pad_cmp := n_pad_cmp s; n_pad_action := n_pad_action s;
  n_thr_cmp := n_thr_cmp s; n_order := n_order s; m_filter_cmp := m_filter_cmp s; m_loop_cmp := v;
  m_end := m_end s; m_gate_cmp := m_gate_cmp s; m_init := m_init s; m_idx := m_idx s;
  m_dscore_cmp := m_dscore_cmp s; m_index_cmp := m_index_cmp s; m_better_cmp := m_better_cmp s;
  m_tie_cmp := m_tie_cmp s; m_tie_pos_cmp := m_tie_pos_cmp s; m_bound := m_bound s; m_first_cmp := m_first_cmp s |}.
Definition set_m_end v s := {| n_loop_hits_empty := n_loop_hits_empty s; n_loop_cmp := n_loop_cmp s; n_end := n_end s;
  n_gate_cmp := n_gate_cmp s; n_idx := n_idx s; n_pad_cmp := n_pad_cmp s; n_pad_action := n_pad_action s;
  n_thr_cmp := n_thr_cmp s; n_order := n_order s; m_filter_cmp := m_filter_cmp s; m_loop_cmp := m_loop_cmp s;
  m_end := v; m_gate_cmp := m_gate_cmp s; m_init := m_init s; m_idx := m_idx s;
  m_dscore_cmp := m_dscore_cmp s; m_index_cmp := m_index_cmp s; m_better_cmp := m_better_cmp s;
  m_tie_cmp := m_tie_cmp s; m_tie_pos_cmp := m_tie_pos_cmp s; m_bound := m_bound s; m_first_cmp := m_first_cmp s |}.
Definition set_m_gate_cmp v s := {| n_loop_hits_empty := n_loop_hits_empty s; n_loop_cmp := n_loop_cmp s; n_end := n_end s;
  n_gate_cmp := n_gate_cmp s; n_idx := n_idx s; n_pad_cmp := n_pad_cmp s; n_pad_action := n_pad_action s;
  n_thr_cmp := n_thr_cmp s; n_order := n_order s; m_filter_cmp := m_filter_cmp s; m_loop_cmp := m_loop_cmp s;
  m_end := m_end s; m_gate_cmp := v; m_init := m_init s; m_idx := m_idx s;
  m_dscore_cmp := m_dscore_cmp s; m_index_cmp := m_index_cmp s; m_better_cmp := m_better_cmp s;
  m_tie_cmp := m_tie_cmp s; m_tie_pos_cmp := m_tie_pos_cmp s; m_bound := m_bound s; m_first_cmp := m_first_cmp s |}.
Definition set_m_idx v s := {| n_loop_hits_empty := n_loop_hits_empty s; n_loop_cmp := n_loop_cmp s; n_end := n_end s;
  n_gate_cmp := n_gate_cmp s; n_idx := n_idx s; n_pad_cmp := n_pad_cmp s; n_pad_action := n_pad_action s;
  n_thr_cmp := n_thr_cmp s; n_order := n_order s; m_filter_cmp := m_filter_cmp s; m_loop_cmp := m_loop_cmp s;
  m_end := m_end s; m_gate_cmp := m_gate_cmp s; m_init := m_init s; m_idx := v;
  m_dscore_cmp := m_dscore_cmp s; m_index_cmp := m_index_cmp s; m_better_cmp := m_better_cmp s;
  m_tie_cmp := m_tie_cmp s; m_tie_pos_cmp := m_tie_pos_cmp s; m_bound := m_bound s; m_first_cmp := m_first_cmp s |}.
Definition set_m_dscore_cmp v s := {| n_loop_hits_empty := n_loop_hits_empty s; n_loop_cmp := n_loop_cmp s; n_end := n_end s;
  n_gate_cmp := n_gate_cmp s; n_idx := n_idx s; n_pad_cmp := n_pad_cmp s; n_pad_action := n_pad_action s;
  n_thr_cmp := n_thr_cmp s; n_order := n_order s; m_filter_cmp := m_filter_cmp s; m_loop_cmp := m_loop_cmp s;
  m_end := m_end s; m_gate_cmp := m_gate_cmp s; m_init := m_init s; m_idx := m_idx s;
  m_dscore_cmp := v; m_index_cmp := m_index_cmp s; m_better_cmp := m_better_cmp s;
  m_tie_cmp := m_tie_cmp s; m_tie_pos_cmp := m_tie_pos_cmp s; m_bound := m_bound s; m_first_cmp := m_first_cmp s |}.
Definition set_m_index_cmp v s := {| n_loop_hits_empty := n_loop_hits_empty s; n_loop_cmp := n_loop_cmp s; n_end := n_end s;
  n_gate_cmp := n_gate_cmp s; n_idx := n_idx s; n_pad_cmp := n_pad_cmp s; n_pad_action := n_pad_action s;
  n_thr_cmp := n_thr_cmp s; n_order := n_order s; m_filter_cmp := m_filter_cmp s; m_loop_cmp := m_loop_cmp s;
  m_end := m_end s; m_gate_cmp := m_gate_cmp s; m_init := m_init s; m_idx := m_idx s;
  m_dscore_cmp := m_dscore_cmp s; m_index_cmp := v; m_better_cmp := m_better_cmp s;
  m_tie_cmp := m_tie_cmp s; m_tie_pos_cmp := m_tie_pos_cmp s; m_bound := m_bound s; m_first_cmp := m_first_cmp s |}.
Definition set_m_better_cmp v s := {| n_loop_hits_empty := n_loop_hits_empty s; n_loop_cmp := n_loop_cmp s; n_end := n_end s;
  n_gate_cmp := n_gate_cmp s; n_idx := n_idx s; n_pad_cmp := n_pad_cmp s; n_pad_action := n_pad_action s;
  n_thr_cmp := n_thr_cmp s; n_order := n_order s; m_filter_cmp := m_filter_cmp s; m_loop_cmp := m_loop_cmp s;
  m_end := m_end s; m_gate_cmp := m_gate_cmp s; m_init := m_init s; m_idx := m_idx s;
  m_dscore_cmp := m_dscore_cmp s; m_index_cmp := m_index_cmp s; m_better_cmp := v;
  m_tie_cmp := m_tie_cmp s; m_tie_pos_cmp := m_tie_pos_cmp s; m_bound := m_bound s; m_first_cmp := m_first_cmp s |}.
Definition set_m_bound v s := {| n_loop_hits_empty := n_loop_hits_empty s; n_loop_cmp := n_loop_cmp s; n_end := n_end s;
  n_gate_cmp := n_gate_cmp s; n_idx := n_idx s; n_pad_cmp := n_pad_cmp s; n_pad_action := n_pad_action s;
  n_thr_cmp := n_thr_cmp s; n_order := n_order s; m_filter_cmp := m_filter_cmp s; m_loop_cmp := m_loop_cmp s;
  m_end := m_end s; m_gate_cmp := m_gate_cmp s; m_init := m_init s; m_idx := m_idx s;
  m_dscore_cmp := m_dscore_cmp s; m_index_cmp := m_index_cmp s; m_better_cmp := m_better_cmp s;
  m_tie_cmp := m_tie_cmp s; m_tie_pos_cmp := m_tie_pos_cmp s; m_bound := v; m_first_cmp := m_first_cmp s |}.
Definition set_m_first_cmp v s := {| n_loop_hits_empty := n_loop_hits_empty s; n_loop_cmp := n_loop_cmp s; n_end := n_end s;
  n_gate_cmp := n_gate_cmp s; n_idx := n_idx s; n_pad_cmp := n_pad_cmp s; n_pad_action := n_pad_action s;
  n_thr_cmp := n_thr_cmp s; n_order := n_order s; m_filter_cmp := m_filter_cmp s; m_loop_cmp := m_loop_cmp s;
  m_end := m_end s; m_gate_cmp := m_gate_cmp s; m_init := m_init s; m_idx := m_idx s;
  m_dscore_cmp := m_dscore_cmp s; m_index_cmp := m_index_cmp s; m_better_cmp := m_better_cmp s;
  m_tie_cmp := m_tie_cmp s; m_tie_pos_cmp := m_tie_pos_cmp s; m_bound := m_bound s; m_first_cmp := v |}.

Definition idx3 (a b c : bool) : idx_expr := {| ix_col_rows := a; ix_block_row := b; ix_r := c |}.

(* deviations of Iterator::next that break C02 on the toy instance *)
Definition c02_deviations : list shape := [
  set_n_loop_cmp CLe ref_shape;           (* while .. self.row <= sequence_rows: one more block, read from the wrap rows *)
  set_n_loop_cmp CNe ref_shape;           (* self.row != sequence_rows: never ends unless B divides R *)
  set_n_loop_cmp CGt ref_shape;           (* no block is ever scanned *)
  set_n_end EndNoMin ref_shape;           (* last block reaches into the wrap rows: positions of the next column twice *)
  set_n_gate_cmp CGt ref_shape;           (* block skipped when its maximum EQUALS the byte threshold *)
  set_n_idx (idx3 true false true) ref_shape;   (* index without self.row *)
  set_n_idx (idx3 true true false) ref_shape;   (* index without c.row *)
  set_n_idx (idx3 false true true) ref_shape;   (* index without c.col * sequence_rows *)
  set_n_pad_cmp CGt ref_shape;            (* index > max_index: the first padding cell is scored *)
  set_n_pad_cmp CLe ref_shape;            (* skips the valid positions instead *)
  set_n_pad_action PadBreak ref_shape;    (* the candidates after the first padding cell are dropped *)
  set_n_thr_cmp CGt ref_shape;            (* score > threshold *)
  set_n_thr_cmp CLe ref_shape ].

(* deviations of Scanner::max that break C03 on the toy instance *)
Definition c03_deviations : list shape := [
  set_m_filter_cmp CGt ref_shape;         (* buffered hits scoring exactly the threshold are dropped *)
  set_m_loop_cmp CGt ref_shape;
  set_m_loop_cmp CNe ref_shape;
  set_m_end EndNoMin ref_shape;
  set_m_gate_cmp CGt ref_shape;           (* block skipped when its maximum EQUALS the bound *)
  set_m_idx (idx3 true false true) ref_shape;
  set_m_idx (idx3 true true false) ref_shape;
  set_m_idx (idx3 false true true) ref_shape;
  set_m_dscore_cmp CGt ref_shape;         (* candidate dropped when its byte score EQUALS the bound *)
  set_m_index_cmp CLe ref_shape;          (* one padding cell admitted *)
  set_m_better_cmp CLt ref_shape;         (* keeps the worse hit *)
  set_m_bound BoundDscore ref_shape;      (* prunes with the candidate's own over-estimate *)
  set_m_first_cmp CGt ref_shape ].        (* first hit must be strictly above the threshold *)

(* deviations that change the yield order / the work done but not the set of hits / the
   maximum score: the properties do not forbid them (the tie with the code still flags them) *)
Definition set_lifo v s := {| n_loop_hits_empty := n_loop_hits_empty s; n_loop_cmp := n_loop_cmp s; n_end := n_end s;
  n_gate_cmp := n_gate_cmp s; n_idx := n_idx s; n_pad_cmp := n_pad_cmp s; n_pad_action := n_pad_action s;
  n_thr_cmp := n_thr_cmp s; n_order := v; m_filter_cmp := m_filter_cmp s; m_loop_cmp := m_loop_cmp s;
  m_end := m_end s; m_gate_cmp := m_gate_cmp s; m_init := m_init s; m_idx := m_idx s;
  m_dscore_cmp := m_dscore_cmp s; m_index_cmp := m_index_cmp s; m_better_cmp := m_better_cmp s;
  m_tie_cmp := m_tie_cmp s; m_tie_pos_cmp := m_tie_pos_cmp s; m_bound := m_bound s; m_first_cmp := m_first_cmp s |}.
Definition benign_deviations : list shape := [
  set_lifo Fifo ref_shape;                (* remove(0) instead of pop() *)
  set_m_bound BoundKeep ref_shape;        (* no pruning update: more candidates rescored *)
  set_m_better_cmp CGe ref_shape ].       (* an equal score replaces the best hit *)
