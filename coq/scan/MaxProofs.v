(* Lemmas about Scanner::max (the Iterator::max override) after any number of next()
   calls (property C03). *)
From Coq Require Import List Arith Bool Lia Permutation.
From LMBase Require Import Res ListX.
From LMScan Require Import ScanModel ScanLemmas ScanProofs.
Import ListNotations.

Lemma filter_all {A} (f : A -> bool) (l : list A) :
  Forall (fun x => f x = true) l -> filter f l = l.
Proof.
  induction l as [|a l IH]; simpl; intros H; auto.
  inversion H; subst. rewrite H2. f_equal. auto.
Qed.

Lemma dget_res_ok d r c :
  r < length d -> c < length (nth r d []) -> dget_res d r c = Ok (dget d r c).
Proof.
  intros Hr Hc. unfold dget_res, dget.
  rewrite (nth_error_nth' d [] Hr). rewrite (nth_error_nth' (nth r d []) 0 Hc). reflexivity.
Qed.

Section MaxProofs.
  Context {T : Type}.
  Variable geb gtb eqb : T -> T -> bool.
  Variable is_nan : T -> bool.
  Variable scale : T -> nat.
  Variable score_position : nat -> res T.
  Variable score_rows : nat -> nat -> res dmatrix.
  Variable R Lm B : nat.
  Variable thr : T.
  Variable C : nat.
  Variable score : nat -> T.
  Variable dscore : nat -> nat.

  Local Notation hit := (@hit T).
  Local Notation st := (@st T).
  Local Notation take_k := (take_k geb is_nan scale score_position score_rows R Lm B thr).
  Local Notation max_cands := (max_cands geb gtb eqb is_nan scale score_position R Lm thr).
  Local Notation max_loop := (max_loop geb gtb eqb is_nan scale score_position score_rows R Lm B thr).
  Local Notation smax := (smax geb gtb eqb is_nan scale score_position score_rows R Lm B thr).
  Local Notation max_by_from := (max_by_from gtb eqb).
  Local Notation max_by_score := (max_by_score gtb eqb).
  Local Notation Inv := (Inv geb score_position R Lm thr).
  Local Notation Inv2 := (Inv2 geb R Lm thr score).
  Local Notation qualifies := (qualifies geb Lm thr score).
  Local Notation block_spec := (block_spec R Lm C dscore).

  (* the comparisons of the code: facts of IEEE 754 (F32Order.v proves them for binary32) *)
  Hypothesis ge_nan : forall x y, geb x y = true -> is_nan x = false /\ is_nan y = false.
  Hypothesis ge_refl : forall x, is_nan x = false -> geb x x = true.
  Hypothesis ge_total : forall x y, is_nan x = false -> is_nan y = false -> geb x y = true \/ geb y x = true.
  Hypothesis ge_trans : forall x y z, geb x y = true -> geb y z = true -> geb x z = true.
  Hypothesis gt_def : forall x y, gtb x y = geb x y && negb (geb y x).
  Hypothesis eq_def : forall x y, eqb x y = geb x y && geb y x.

  Hypothesis HB : 1 <= B.
  Hypothesis HLm : Lm <= R * C.
  Hypothesis Hpos : forall i, i < Lm -> score_position i = Ok (score i).
  Hypothesis Hrows : forall a e, a <= e -> e <= R -> score_rows a e = Ok (block_spec a e).
  (* property C08, for the bounds max() derives: the threshold and the scores of positions
     (a position scoring at least the bound reaches the byte image of the bound) *)
  Hypothesis Hcons_thr : forall i, i < Lm -> geb (score i) thr = true -> scale thr <= dscore i.
  Hypothesis Hcons_pos : forall i j, i < Lm -> j < Lm ->
    geb (score i) (score j) = true -> scale (score j) <= dscore i.
  (* DiscreteMatrix::scale is monotone, between the threshold and a qualifying score *)
  Hypothesis Hmono_thr : forall i, i < Lm -> geb (score i) thr = true -> scale thr <= scale (score i).

  Lemma Hlen : forall a e m, a <= e -> e <= R -> score_rows a e = Ok m -> length m <= e - a.
  Proof.
    intros a e m Ha He E. rewrite (Hrows a e Ha He) in E. inversion E; subst. apply block_spec_length.
  Qed.

  Lemma Hnan : forall i, i < Lm -> geb (score i) thr = true -> is_nan (score i) = false.
  Proof. intros i _ Hg. apply (ge_nan _ _ Hg). Qed.

  (* ----- order lemmas ----- *)

  Lemma not_ge_ge x y : is_nan x = false -> is_nan y = false -> geb x y = false -> geb y x = true.
  Proof. intros Hx Hy Hn. destruct (ge_total x y Hx Hy) as [H|H]; congruence. Qed.

  Lemma gt_ge x y : gtb x y = true -> geb x y = true /\ geb y x = false.
  Proof.
    rewrite gt_def. intros H. apply andb_prop in H. destruct H as (H1 & H2).
    split; auto. now apply negb_true_iff.
  Qed.

  Lemma eq_ge x y : eqb x y = true -> geb x y = true /\ geb y x = true.
  Proof. rewrite eq_def. intros H. now apply andb_prop in H. Qed.

  Lemma not_gt_ge x y : is_nan x = false -> is_nan y = false -> gtb x y = false -> geb y x = true.
  Proof.
    intros Hx Hy. rewrite gt_def. intros H. apply andb_false_iff in H. destruct H as [H|H].
    - now apply not_ge_ge.
    - now apply negb_false_iff in H.
  Qed.

  (* ----- Iterator::max_by over the buffered hits ----- *)

  Lemma max_by_from_ok : forall (l : list hit) (x : hit),
    (forall h, In h (x :: l) -> is_nan (snd h) = false) ->
    exists h, max_by_from x l = Ok h /\ In h (x :: l) /\
              forall h', In h' (x :: l) -> geb (snd h) (snd h') = true.
  Proof.
    induction l as [|y rest IH]; intros x Hn.
    - exists x. simpl. repeat split; auto. intros h' [<-|[]]. apply ge_refl. apply Hn. now left.
    - assert (Hx : is_nan (snd x) = false) by (apply Hn; now left).
      assert (Hy : is_nan (snd y) = false) by (apply Hn; right; now left).
      simpl. destruct (gtb (snd x) (snd y)) eqn:Eg.
      + destruct (IH x) as (h & E & Hin & Hd).
        { intros h [<-|Hh]; auto. apply Hn. right; now right. }
        exists h. split; auto. split.
        * destruct Hin as [<-|Hin]; [now left|right; now right].
        * intros h' [<-|[<-|Hh']].
          -- apply Hd. now left.
          -- apply (ge_trans _ (snd x)); [apply Hd; now left|apply (gt_ge _ _ Eg)].
          -- apply Hd. now right.
      + pose proof (not_gt_ge _ _ Hx Hy Eg) as Hyx.
        assert (Ec : eqb (snd x) (snd y) || gtb (snd y) (snd x) = true).
        { rewrite eq_def, gt_def, Hyx. destruct (geb (snd x) (snd y)); reflexivity. }
        rewrite Ec.
        destruct (IH y) as (h & E & Hin & Hd).
        { intros h Hh. apply Hn. now right. }
        exists h. split; auto. split.
        * right. exact Hin.
        * intros h' [<-|Hh'].
          -- apply (ge_trans _ (snd y)); [apply Hd; now left|exact Hyx].
          -- apply Hd. exact Hh'.
  Qed.

  (* ----- one candidate of max() ----- *)

  Definition max_step (best : option hit) (bd index ds : nat) : res (option hit * nat) :=
    if (bd <=? ds) && (index <? Lm) then
      s <- score_position index ;;
      match best with
      | Some (bp, bs) =>
          if gtb s bs || (eqb s bs && (bp <? index)) then
            h <- hit_new is_nan index s ;; Ok (Some h, scale s)
          else Ok (best, bd)
      | None =>
          if geb s thr then h <- hit_new is_nan index s ;; Ok (Some h, bd)
          else Ok (best, bd)
      end
    else Ok (best, bd).

  Lemma max_cands_cons rw d r c rest best bd :
    max_cands rw d ((r, c) :: rest) best bd =
    (ds <- dget_res d r c ;;
     r1 <- max_step best bd (c * R + rw + r) ds ;;
     max_cands rw d rest (fst r1) (snd r1)).
  Proof.
    simpl. destruct (dget_res d r c) as [ds| | |]; simpl; auto.
    unfold max_step.
    destruct ((bd <=? ds) && (c * R + rw + r <? Lm)); simpl; auto.
    destruct (score_position (c * R + rw + r)) as [s| | |]; simpl; auto.
    destruct best as [[bp bs]|].
    - destruct (gtb s bs || (eqb s bs && (bp <? c * R + rw + r))); simpl; auto.
      unfold hit_new. destruct (is_nan s); simpl; auto.
    - destruct (geb s thr); simpl; auto.
      unfold hit_new. destruct (is_nan s); simpl; auto.
  Qed.

  (* ----- the invariant of max() ----- *)

  Section WithConsumed.
    Variable Y : list hit.        (* hits already returned by next() *)
    Variable nobuf : Prop.        (* no hit was buffered when max() was called *)

    Definition unconsumed (i : nat) : Prop := qualifies i /\ ~ In i (map fst Y).

    (* [seen]: the positions examined (or rightfully pruned) so far *)
    Definition MI (seen : nat -> Prop) (best : option hit) (bd : nat) : Prop :=
      match best with
      | None => bd = scale thr /\ forall i, unconsumed i -> seen i -> False
      | Some (p, x) =>
          unconsumed p /\ x = score p /\ bd <= scale x /\
          (forall i, unconsumed i -> seen i -> geb x (score i) = true) /\
          (nobuf -> forall i, unconsumed i -> seen i -> eqb (score i) x = true -> i <= p)
      end.

    Lemma unconsumed_nan i : unconsumed i -> is_nan (score i) = false.
    Proof. intros ((_ & Hg) & _). apply (ge_nan _ _ Hg). Qed.

    Lemma MI_ext (seen seen' : nat -> Prop) best bd :
      (forall i, unconsumed i -> seen' i -> seen i) -> MI seen best bd -> MI seen' best bd.
    Proof.
      intros Hs. unfold MI. destruct best as [[p x]|].
      - intros (A & B1 & C1 & D & E).
        split; [exact A|]. split; [exact B1|]. split; [exact C1|]. split.
        + intros i Hi Hse. apply D; auto.
        + intros Hn i Hi Hse. apply E; auto.
      - intros (A & B1). split; auto. intros i Hi Hse. apply (B1 i); auto.
    Qed.

    (* positions whose byte score is below the current bound are rightfully pruned *)
    Lemma MI_skip (P : nat -> Prop) seen best bd :
      (forall i, P i -> i < Lm -> dscore i < bd) ->
      MI seen best bd -> MI (fun i => seen i \/ P i) best bd.
    Proof.
      intros HP. unfold MI. destruct best as [[p x]|].
      - intros (A & -> & C1 & D & E).
        assert (Hno : forall i, unconsumed i -> P i -> geb (score i) (score p) = false).
        { intros i Hi HPi. destruct (geb (score i) (score p)) eqn:Eg; auto. exfalso.
          pose proof (Hcons_pos i p (proj1 (proj1 Hi)) (proj1 (proj1 A)) Eg).
          pose proof (HP i HPi (proj1 (proj1 Hi))). lia. }
        split; [exact A|]. split; [reflexivity|]. split; [exact C1|]. split.
        + intros i Hi [Hs|HPi]; [now apply D|].
          apply not_ge_ge; auto using unconsumed_nan.
        + intros Hn i Hi [Hs|HPi] He; [now apply E|].
          apply eq_ge in He. rewrite (Hno i Hi HPi) in He. destruct He; discriminate.
      - intros (-> & B1). split; auto. intros i Hi [Hs|HPi]; [now apply (B1 i)|].
        destruct Hi as ((Hi & Hg) & _).
        pose proof (Hcons_thr i Hi Hg). pose proof (HP i HPi Hi). lia.
    Qed.

    Lemma max_step_inv seen best bd idx :
      ~ In idx (map fst Y) ->
      MI seen best bd ->
      exists best' bd',
        max_step best bd idx (dscore idx) = Ok (best', bd') /\
        MI (fun i => seen i \/ i = idx) best' bd'.
    Proof.
      intros HnY HM. unfold max_step.
      destruct ((bd <=? dscore idx) && (idx <? Lm)) eqn:Ec.
      2:{ exists best, bd. split; auto. apply MI_skip; auto.
          intros i -> Hi. apply andb_false_iff in Ec. destruct Ec as [Ec|Ec].
          - apply Nat.leb_gt in Ec. exact Ec.
          - apply Nat.ltb_ge in Ec. lia. }
      apply andb_prop in Ec. destruct Ec as (Ebd & Eidx).
      apply Nat.leb_le in Ebd. apply Nat.ltb_lt in Eidx.
      rewrite (Hpos idx Eidx). simpl.
      destruct best as [[bp bs]|].
      - destruct HM as (A & -> & C1 & D & E).
        pose proof (unconsumed_nan bp A) as Hbn.
        destruct (gtb (score idx) (score bp) || (eqb (score idx) (score bp) && (bp <? idx))) eqn:EU.
        + assert (Hge : geb (score idx) (score bp) = true).
          { apply orb_prop in EU. destruct EU as [EU|EU].
            - apply (gt_ge _ _ EU).
            - apply andb_prop in EU. apply (eq_ge _ _ (proj1 EU)). }
          unfold hit_new. rewrite (proj1 (ge_nan _ _ Hge)). simpl.
          exists (Some (idx, score idx)), (scale (score idx)). split; auto.
          assert (Hu : unconsumed idx).
          { split; auto. split; auto. apply (ge_trans _ (score bp)); auto. apply A. }
          unfold MI. split; [exact Hu|]. split; [reflexivity|]. split; [apply le_n|]. split.
          * intros i Hi [Hs| ->].
            -- apply (ge_trans _ (score bp)); auto.
            -- apply ge_refl. now apply unconsumed_nan.
          * intros Hn i Hi [Hs| ->] He; [|lia].
            apply eq_ge in He. destruct He as (He1 & He2).
            apply orb_prop in EU. destruct EU as [EU|EU].
            -- apply gt_ge in EU. destruct EU as (_ & EU).
               rewrite (ge_trans _ _ _ (D i Hi Hs) He1) in EU. discriminate.
            -- apply andb_prop in EU. destruct EU as (EU1 & EU2). apply Nat.ltb_lt in EU2.
               apply eq_ge in EU1. destruct EU1 as (EU1 & EU1').
               assert (i <= bp); [|lia]. apply E; auto.
               rewrite eq_def. rewrite (ge_trans _ _ _ He1 EU1), (D i Hi Hs). reflexivity.
        + exists (Some (bp, score bp)), bd. split; auto.
          apply orb_false_iff in EU. destruct EU as (EU1 & EU2).
          unfold MI. split; [exact A|]. split; [reflexivity|]. split; [exact C1|]. split.
          * intros i Hi [Hs| ->]; [now apply D|].
            apply not_gt_ge; auto. now apply unconsumed_nan.
          * intros Hn i Hi [Hs| ->] He; [now apply E|].
            rewrite He in EU2. simpl in EU2. apply Nat.ltb_ge in EU2. exact EU2.
      - destruct HM as (-> & B1).
        destruct (geb (score idx) thr) eqn:Eg.
        + unfold hit_new. rewrite (proj1 (ge_nan _ _ Eg)). simpl.
          exists (Some (idx, score idx)), (scale thr). split; auto.
          assert (Hu : unconsumed idx) by (split; auto; split; auto).
          unfold MI. split; [exact Hu|]. split; [reflexivity|]. split; [now apply Hmono_thr|]. split.
          * intros i Hi [Hs| ->]; [exfalso; now apply (B1 i)|].
            apply ge_refl. now apply unconsumed_nan.
          * intros Hn i Hi [Hs| ->] He; [exfalso; now apply (B1 i)|lia].
        + exists None, (scale thr). split; auto.
          unfold MI. split; auto. intros i Hi [Hs| ->]; [now apply (B1 i)|].
          destruct Hi as ((_ & Hg) & _). congruence.
    Qed.

    Lemma max_cands_inv rw d : forall cands seen best bd,
      (forall r c, In (r, c) cands ->
         ~ In (c * R + rw + r) (map fst Y) /\
         dget_res d r c = Ok (dscore (c * R + rw + r))) ->
      MI seen best bd ->
      exists best' bd',
        max_cands rw d cands best bd = Ok (best', bd') /\
        MI (fun i => seen i \/ exists r c, In (r, c) cands /\ i = c * R + rw + r) best' bd'.
    Proof.
      induction cands as [|[r c] rest IH]; intros seen best bd Hc HM.
      - exists best, bd. split; [reflexivity|].
        eapply MI_ext; [|exact HM]. intros i _ [Hs|(r & c & [] & _)]. exact Hs.
      - rewrite max_cands_cons.
        destruct (Hc r c (or_introl eq_refl)) as (HnY & Hd). rewrite Hd. simpl.
        destruct (max_step_inv seen best bd _ HnY HM) as (b1 & bd1 & E1 & HM1).
        rewrite E1. simpl.
        destruct (IH _ b1 bd1 (fun r' c' Hin => Hc r' c' (or_intror Hin)) HM1) as (b2 & bd2 & E2 & HM2).
        exists b2, bd2. split; auto.
        eapply MI_ext; [|exact HM2]. intros i _ [Hs|(r' & c' & [Heq|Hin] & Hi)].
        + left; now left.
        + inversion Heq; subst. left; now right.
        + right. exists r', c'. auto.
    Qed.

    (* ----- one block ----- *)

    (* the consumed hits lie in rows that were scored before max() was called *)
    Variable row0 : nat.
    Hypothesis HY : forall h, In h Y -> fst h mod R < row0.

    Lemma idx_not_consumed rw r c : row0 <= rw -> rw + r < R -> ~ In (c * R + rw + r) (map fst Y).
    Proof.
      intros Hrw Hr Hin. apply in_map_iff in Hin. destruct Hin as (h & E & Hh).
      apply HY in Hh. rewrite E in Hh. rewrite <- Nat.add_assoc in Hh. rewrite idx_mod in Hh by auto. lia.
    Qed.

    Lemma max_block_inv rw best bd :
      row0 <= rw -> rw < R ->
      MI (fun i => i mod R < rw) best bd ->
      exists best' bd',
        (d <- score_rows rw (Nat.min (rw + B) R) ;;
         match dmax d with
         | Some m => if bd <=? m then max_cands rw d (dthreshold d bd) best bd else Ok (best, bd)
         | None => Ok (best, bd)
         end) = Ok (best', bd') /\
        MI (fun i => i mod R < rw + B) best' bd'.
    Proof.
      intros Hrw0 Hrw HM.
      set (e := Nat.min (rw + B) R).
      assert (H1 : rw <= e) by (unfold e; lia). assert (H2 : e <= R) by (unfold e; lia).
      rewrite (Hrows _ _ H1 H2). simpl.
      (* an unconsumed position of the block, in block coordinates *)
      assert (Hcell : forall i, unconsumed i -> i mod R < rw + B -> ~ i mod R < rw ->
                exists r c, r < e - rw /\ c < C /\ i = c * R + rw + r /\ Lm <> 0).
      { intros i ((Hi & _) & _) Hm Hm'.
        assert (HR : 0 < R) by (destruct R; simpl in *; lia).
        exists (i mod R - rw), (i / R). repeat split.
        - pose proof (idx_row_lt R i HR). unfold e. lia.
        - apply idx_col_lt. lia.
        - rewrite <- Nat.add_assoc. replace (rw + (i mod R - rw)) with (i mod R) by lia.
          now apply idx_decomp.
        - lia. }
      destruct (Nat.eqb_spec Lm 0) as [HL0|HL0].
      - (* no valid position at all: the block has no rows *)
        unfold ScanProofs.block_spec. rewrite (proj2 (Nat.eqb_eq Lm 0) HL0). simpl.
        exists best, bd. split; auto. eapply MI_ext; [|exact HM].
        intros i ((Hi & _) & _). lia.
      - assert (Hd : block_spec rw e = mk_block (fun r c => dscore (c * R + r)) C rw (e - rw)).
        { unfold ScanProofs.block_spec. now rewrite (proj2 (Nat.eqb_neq Lm 0) HL0). }
        set (d := block_spec rw e) in *.
        assert (Hget : forall r c, r < e - rw -> c < C -> dget d r c = dscore (c * R + rw + r)).
        { intros r c Hr Hc. rewrite Hd, mk_block_get by auto. f_equal. lia. }
        assert (Hcoord : forall r c, r < e - rw -> c < C -> r < length d /\ c < length (nth r d [])).
        { intros r c Hr Hc. rewrite Hd, mk_block_length, mk_block_row_length by auto. auto. }
        destruct (dmax d) as [m|] eqn:Em.
        + destruct (Nat.leb_spec bd m) as [Hle|Hgt].
          * (* candidates are examined, the other cells are below the bound *)
            assert (HM1 : MI (fun i => i mod R < rw \/
                                 (exists r c, r < e - rw /\ c < C /\ i = c * R + rw + r /\ dget d r c < bd))
                             best bd).
            { apply MI_skip; [|exact HM]. intros i (r & c & Hr & Hc & -> & Hlt) _.
              rewrite <- (Hget r c Hr Hc). exact Hlt. }
            assert (Hcv : forall r c, In (r, c) (dthreshold d bd) ->
                      ~ In (c * R + rw + r) (map fst Y) /\
                      dget_res d r c = Ok (dscore (c * R + rw + r))).
            { intros r c Hin. apply in_dthreshold in Hin. destruct Hin as (Hr & Hc & Hge).
              rewrite Hd, mk_block_length in Hr.
              assert (Hc' : c < C) by (rewrite Hd, mk_block_row_length in Hc; auto).
              split.
              - apply idx_not_consumed; auto. lia.
              - destruct (Hcoord r c Hr Hc') as (Hr1 & Hc1).
                rewrite (dget_res_ok d r c Hr1 Hc1). f_equal. now apply Hget. }
            destruct (max_cands_inv rw d (dthreshold d bd) _ best bd Hcv HM1) as (b2 & bd2 & E2 & HM2).
            exists b2, bd2. split; auto.
            eapply MI_ext; [|exact HM2].
            intros i Hi Hm. destruct (Nat.lt_ge_cases (i mod R) rw) as [Hold|Hnew]; [left; now left|].
            destruct (Hcell i Hi Hm) as (r & c & Hr & Hc & Hidx & _); [lia|].
            destruct (Nat.lt_ge_cases (dget d r c) bd) as [Hlt|Hge].
            -- left; right. exists r, c. auto.
            -- right. exists r, c. split; auto. apply in_dthreshold.
               destruct (Hcoord r c Hr Hc). auto.
          * (* the whole block is below the bound *)
            exists best, bd. split; auto.
            assert (HM1 : MI (fun i => i mod R < rw \/
                                 (exists r c, r < e - rw /\ c < C /\ i = c * R + rw + r)) best bd).
            { apply MI_skip; [|exact HM].
              intros i (r & c & Hr & Hc & -> ) _. rewrite <- (Hget r c Hr Hc).
              destruct (Hcoord r c Hr Hc) as (Hr1 & Hc1).
              destruct (dmax_ge d r c Hr1 Hc1) as (m' & Em' & Hm'). rewrite Em in Em'. inversion Em'; subst. lia. }
            eapply MI_ext; [|exact HM1].
            intros i Hi Hm. destruct (Nat.lt_ge_cases (i mod R) rw) as [Hold|Hnew]; [now left|].
            destruct (Hcell i Hi Hm) as (r & c & Hr & Hc & Hidx & _); [lia|].
            right. exists r, c. auto.
        + apply dmax_none in Em. exists best, bd. split; auto.
          eapply MI_ext; [|exact HM].
          intros i Hi Hm. destruct (Nat.lt_ge_cases (i mod R) rw) as [Hold|Hnew]; auto.
          destruct (Hcell i Hi Hm) as (r & c & Hr & Hc & _); [lia|].
          destruct (Hcoord r c Hr Hc) as (Hr1 & _). rewrite Em in Hr1. simpl in Hr1. lia.
    Qed.

    Lemma max_loop_inv : forall fuel rw best bd,
      R - rw < fuel -> row0 <= rw ->
      MI (fun i => i mod R < rw) best bd ->
      exists best', max_loop fuel rw best bd = Ok best' /\ exists bd', MI (fun _ => True) best' bd'.
    Proof.
      induction fuel as [|f IH]; intros rw best bd Hf Hrw0 HM; [lia|].
      simpl. destruct (Nat.ltb_spec rw R) as [Hlt|Hge].
      - destruct (max_block_inv rw best bd Hrw0 Hlt HM) as (b1 & bd1 & E1 & HM1).
        apply rbind_ok in E1. destruct E1 as (d & Hsr & E1).
        rewrite Hsr. cbn [rbind]. rewrite E1. cbn [rbind fst snd]. apply IH; auto; lia.
      - exists best. split; auto. exists bd. eapply MI_ext; [|exact HM].
        intros i ((Hi & _) & _) _.
        assert (HR : 0 < R) by (destruct R; simpl in *; lia).
        pose proof (idx_row_lt R i HR). lia.
    Qed.

  End WithConsumed.

  (* ----- max() after k calls of next() ----- *)

  Definition max_post (Y : list hit) (nobuf : Prop) (r : option hit) : Prop :=
    match r with
    | None => forall i, ~ unconsumed Y i
    | Some (p, x) =>
        unconsumed Y p /\ x = score p /\
        (forall i, unconsumed Y i -> geb x (score i) = true) /\
        (nobuf -> forall i, unconsumed Y i -> eqb (score i) x = true -> i <= p)
    end.

  Lemma smax_inv (s : st) (Y : list hit) :
    Inv s Y -> Inv2 s Y -> exists r, smax s = Ok r /\ max_post Y (hits s = []) r.
  Proof.
    intros HI HI2. unfold ScanModel.smax.
    pose proof (inv_good _ _ _ _ _ _ _ HI) as Hgood.
    pose proof (inv_rows _ _ _ _ _ _ _ HI) as Hrws.
    pose proof (inv_nodup _ _ _ _ _ _ _ HI) as Hnd.
    apply Forall_app in Hgood. destruct Hgood as (HgY & Hgh).
    apply Forall_app in Hrws. destruct Hrws as (HrY & Hrh).
    rewrite Forall_forall in HgY, Hgh, HrY, Hrh.
    rewrite map_app in Hnd. apply NoDup_app_inv in Hnd. destruct Hnd as (_ & _ & Hdis).
    (* every buffered hit passes the filter *)
    rewrite filter_all.
    2:{ apply Forall_forall. intros h Hh. apply in_rev in Hh. apply (Hgh h Hh). }
    (* unconsumed positions of the rows already scored are buffered *)
    assert (Hbuf : forall i, unconsumed Y i -> i mod R < row s -> In (i, score i) (hits s)).
    { intros i (Hq & Hn) Hm. specialize (HI2 i Hq Hm). apply in_app_or in HI2.
      destruct HI2 as [HinY|Hin]; auto. exfalso. apply Hn. apply in_map_iff. exists (i, score i). auto. }
    assert (Hhu : forall h, In h (hits s) -> unconsumed Y (fst h) /\ snd h = score (fst h)).
    { intros h Hh. destruct (Hgh h Hh) as (Hi & Hs & Hg).
      rewrite (Hpos _ Hi) in Hs. inversion Hs as [Hs']. split; auto.
      split; [split; auto; now rewrite Hs'|].
      intros HinY. apply (Hdis (fst h)); auto. apply in_map. exact Hh. }
    assert (HM0 : exists b0, max_by_score (rev (hits s)) = Ok b0 /\
              MI Y (hits s = []) (fun i => i mod R < row s) b0
                 (match b0 with Some h => scale (snd h) | None => scale thr end)).
    { remember (rev (hits s)) as hv eqn:Ehv.
      assert (Hrev : forall h, In h hv <-> In h (hits s)) by (subst hv; intros h; symmetry; apply in_rev).
      clear Ehv. destruct hv as [|x l].
      - exists None. split; auto. unfold MI. split; auto.
        intros i Hi Hm. specialize (Hbuf i Hi Hm). apply Hrev in Hbuf. destruct Hbuf.
      - unfold ScanModel.max_by_score.
        destruct (max_by_from_ok l x) as (h & E & Hin & Hd).
        { intros h Hh. apply Hrev in Hh.
          destruct (Hgh h Hh) as (_ & _ & Hg). apply (ge_nan _ _ Hg). }
        rewrite E. simpl. exists (Some h). split; auto.
        apply Hrev in Hin.
        destruct (Hhu h Hin) as (Hu & Hs). destruct h as [p x0]. simpl in *. subst x0.
        unfold MI. split; [exact Hu|]. split; [reflexivity|]. split; [apply le_n|]. split.
        + intros i Hi Hm. specialize (Hbuf i Hi Hm).
          apply (Hd (i, score i)). now apply Hrev.
        + intros Hnil. rewrite Hnil in Hin. destruct Hin. }
    destruct HM0 as (b0 & E0 & HM0). rewrite E0. cbn [rbind].
    assert (HY : forall h, In h Y -> fst h mod R < row s) by (intros h Hh; apply (HrY h Hh)).
    assert (Hfuel : R - row s < S R) by lia.
    destruct (max_loop_inv Y (hits s = []) (row s) HY (S R) (row s) b0 _ Hfuel (le_n _) HM0)
      as (best' & E' & bd' & HM').
    exists best'. split; auto.
    unfold max_post. unfold MI in HM'. destruct best' as [[p x]|].
    - destruct HM' as (A & B1 & _ & D & E).
      split; [exact A|]. split; [exact B1|]. split.
      + intros i Hi. now apply D.
      + intros Hn i Hi. now apply E.
    - destruct HM' as (_ & B1). intros i Hi. apply (B1 i Hi I).
  Qed.

  Lemma max_after_prefix_run k :
    exists Y s r,
      take_k k init = Ok (Y, s) /\ smax s = Ok r /\ max_post Y (hits s = []) r.
  Proof.
    destruct (take_k_total geb is_nan scale score_position score_rows R Lm B thr C score dscore
                HB HLm Hpos Hrows Hnan k init) as (Y & s & Ht).
    pose proof (take_k_inv geb is_nan scale score_position score_rows R Lm B thr Hlen _ _ _ _ _ Ht
                  (Inv_init geb score_position R Lm thr)) as HI.
    assert (HI20 : Inv2 init []) by (intros i _ H; simpl in H; lia).
    pose proof (take_k_inv2 geb is_nan scale score_position score_rows R Lm B thr Hlen C score dscore
                  HB HLm Hpos Hrows Hcons_thr _ _ _ _ _ Ht HI20) as HI2.
    simpl in HI, HI2.
    destruct (smax_inv s Y HI HI2) as (r & E & Hp).
    exists Y, s, r. auto.
  Qed.

  (* the consumed hits are qualifying positions, so "unconsumed" is exactly
     "qualifying and not among the positions returned so far" *)
  Lemma max_post_none_iff Y nobuf r :
    max_post Y nobuf r -> (r = None <-> forall i, ~ unconsumed Y i).
  Proof.
    intros Hp. split.
    - intros ->. exact Hp.
    - intros Hn. destruct r as [[p x]|]; auto. destruct Hp as (A & _). exfalso. apply (Hn p A).
  Qed.

  (* two answers for the same consumed set with no buffered hit are identical *)
  Lemma max_post_unique Y r1 r2 :
    max_post Y True r1 -> max_post Y True r2 -> r1 = r2.
  Proof.
    intros H1 H2. destruct r1 as [[p1 x1]|], r2 as [[p2 x2]|]; auto.
    - destruct H1 as (A1 & -> & D1 & E1). destruct H2 as (A2 & -> & D2 & E2).
      assert (p2 <= p1).
      { apply (E1 I p2 A2). rewrite eq_def. rewrite (D2 p1 A1), (D1 p2 A2). reflexivity. }
      assert (p1 <= p2).
      { apply (E2 I p1 A1). rewrite eq_def. rewrite (D2 p1 A1), (D1 p2 A2). reflexivity. }
      assert (p1 = p2) by lia. subst. reflexivity.
    - destruct H1 as (A1 & _). exfalso. apply (H2 p1 A1).
    - destruct H2 as (A2 & _). exfalso. apply (H1 p2 A2).
  Qed.

  (* the answer dominates every position that was not consumed, qualifying or not
     (NaN scores, which compare with nothing, excepted) *)
  Lemma max_post_all Y nobuf p x :
    max_post Y nobuf (Some (p, x)) ->
    forall i, i < Lm -> is_nan (score i) = false -> ~ In i (map fst Y) -> geb x (score i) = true.
  Proof.
    intros (A & -> & D & _) i Hi Hn HnY.
    destruct (geb (score i) thr) eqn:Eg.
    - apply D. split; auto. split; auto.
    - destruct A as ((_ & Hp) & _).
      apply (ge_trans _ thr); auto. apply not_ge_ge; auto. apply (ge_nan _ _ Hp).
  Qed.

End MaxProofs.
