(* Totality (no Panic, no OutOfFuel) of Scanner::next / take / iteration to exhaustion /
   max() under the LAYOUT hypotheses only: nothing is assumed about the 8-bit pre-filter
   (property C08).  Whether the pre-filter is conservative decides WHICH hits come out,
   not whether the calls return.  (Round 3, wave 3: review findings C02-1, C03-2.) *)
From Coq Require Import List Arith Bool Lia.
From LMBase Require Import Res ListX.
From LMScan Require Import ScanModel ScanLemmas ScanProofs MaxProofs.
Import ListNotations.

Section Total.
  Context {T : Type}.
  Variable geb gtb eqb : T -> T -> bool.
  Variable is_nan : T -> bool.
  Variable scale : T -> nat.
  Variable score_position : nat -> res T.
  Variable score_rows : nat -> nat -> res dmatrix.
  Variable R Lm B : nat.
  Variable thr : T.
  Variable C : nat.
  Variable score : nat -> T.
  Variable dscore : nat -> nat.

  Local Notation hit := (@hit T).
  Local Notation st := (@st T).
  Local Notation block_spec := (block_spec R Lm C dscore).

  Hypothesis ge_nan : forall x y, geb x y = true -> is_nan x = false /\ is_nan y = false.
  Hypothesis ge_refl : forall x, is_nan x = false -> geb x x = true.
  Hypothesis ge_total : forall x y, is_nan x = false -> is_nan y = false -> geb x y = true \/ geb y x = true.
  Hypothesis ge_trans : forall x y z, geb x y = true -> geb y z = true -> geb x z = true.
  Hypothesis gt_def : forall x y, gtb x y = geb x y && negb (geb y x).
  Hypothesis eq_def : forall x y, eqb x y = geb x y && geb y x.

  Hypothesis HB : 1 <= B.
  Hypothesis HLm : Lm <= R * C.
  Hypothesis Hpos : forall i, i < Lm -> score_position i = Ok (score i).
  Hypothesis Hrows : forall a e, a <= e -> e <= R -> score_rows a e = Ok (block_spec a e).

  Lemma tHlen : forall a e m, a <= e -> e <= R -> score_rows a e = Ok m -> length m <= e - a.
  Proof.
    intros a e m Ha He E. rewrite (Hrows a e Ha He) in E. inversion E; subst. apply block_spec_length.
  Qed.

  Lemma tHnan : forall i, i < Lm -> geb (score i) thr = true -> is_nan (score i) = false.
  Proof. intros i _ Hg. apply (ge_nan _ _ Hg). Qed.

  (* iteration to exhaustion from the fresh scanner returns, for every fuel > Lm *)
  Lemma collect_init_total fuel :
    Lm < fuel -> exists H, collect geb is_nan scale score_position score_rows R Lm B thr fuel init = Ok H.
  Proof.
    intros Hf.
    apply (collect_total geb is_nan scale score_position score_rows R Lm B thr tHlen C score dscore
             HB HLm Hpos Hrows tHnan fuel init [] (Inv_init geb score_position R Lm thr)).
    simpl. lia.
  Qed.

  (* the candidate loop of max(): every coordinate produced by Threshold::threshold is inside
     the block, every valid position has a score, Hit::new is only reached with a score that
     compared true against something (so it is not NaN) *)
  Lemma max_cands_total rw d : forall cands best bd,
    (forall r c, In (r, c) cands -> r < length d /\ c < length (nth r d [])) ->
    exists res, max_cands geb gtb eqb is_nan scale score_position R Lm thr rw d cands best bd = Ok res.
  Proof.
    induction cands as [|[r c] rest IH]; intros best bd Hc; [simpl; eauto|].
    assert (Hrest : forall r c, In (r, c) rest -> r < length d /\ c < length (nth r d []))
      by (intros r' c' Hin; apply Hc; now right).
    destruct (Hc r c (or_introl eq_refl)) as (Hr & Hcc).
    cbn [max_cands]. rewrite (dget_res_ok d r c Hr Hcc). cbn [rbind].
    destruct ((bd <=? dget d r c) && (c * R + rw + r <? Lm)) eqn:E; [|apply IH; auto].
    apply andb_prop in E. destruct E as (_ & Hlt). apply Nat.ltb_lt in Hlt.
    rewrite (Hpos _ Hlt). cbn [rbind].
    destruct best as [[bp bs]|].
    - destruct (gtb (score (c * R + rw + r)) bs || (eqb (score (c * R + rw + r)) bs && (bp <? c * R + rw + r))) eqn:Eg;
        [|apply IH; auto].
      assert (Hn : is_nan (score (c * R + rw + r)) = false).
      { apply orb_prop in Eg. destruct Eg as [Eg|Eg].
        - rewrite gt_def in Eg. apply andb_prop in Eg. destruct Eg as (Eg & _). apply (ge_nan _ _ Eg).
        - apply andb_prop in Eg. destruct Eg as (Eg & _). rewrite eq_def in Eg.
          apply andb_prop in Eg. destruct Eg as (Eg & _). apply (ge_nan _ _ Eg). }
      unfold hit_new. rewrite Hn. cbn [rbind]. apply IH; auto.
    - destruct (geb (score (c * R + rw + r)) thr) eqn:Eg; [|apply IH; auto].
      unfold hit_new. rewrite (proj1 (ge_nan _ _ Eg)). cbn [rbind]. apply IH; auto.
  Qed.

  Lemma max_loop_total : forall fuel rw best bd,
    R - rw < fuel ->
    exists b, max_loop geb gtb eqb is_nan scale score_position score_rows R Lm B thr fuel rw best bd = Ok b.
  Proof.
    induction fuel as [|f IH]; intros rw best bd Hf; [lia|].
    cbn [max_loop]. destruct (Nat.ltb_spec rw R) as [Hlt|Hge]; [|eauto].
    rewrite (Hrows rw (Nat.min (rw + B) R)) by lia. cbn [rbind].
    destruct (dmax (block_spec rw (Nat.min (rw + B) R))) as [m|];
      [destruct (bd <=? m)|]; cbn [rbind fst snd]; try (apply IH; lia).
    destruct (max_cands_total rw (block_spec rw (Nat.min (rw + B) R))
                (dthreshold (block_spec rw (Nat.min (rw + B) R)) bd) best bd) as (res & E).
    { intros r c Hin. apply in_dthreshold in Hin. tauto. }
    rewrite E. cbn [rbind]. apply IH. lia.
  Qed.

  Lemma max_by_score_total (l : list hit) :
    (forall h, In h l -> is_nan (snd h) = false) -> exists b0, max_by_score gtb eqb l = Ok b0.
  Proof.
    intros Hn. destruct l as [|x l]; [simpl; eauto|].
    unfold max_by_score.
    destruct (max_by_from_ok geb gtb eqb is_nan ge_refl ge_total ge_trans gt_def eq_def l x Hn) as (h & E & _).
    rewrite E. simpl. eauto.
  Qed.

  (* Scanner::max() returns from ANY scanner state (any row, any buffered hits): the hits
     that survive the threshold filter are not NaN, so max_by's partial_cmp().unwrap()
     cannot fail *)
  Lemma smax_total (s : st) :
    exists r, smax geb gtb eqb is_nan scale score_position score_rows R Lm B thr s = Ok r.
  Proof.
    unfold smax.
    match goal with |- context [max_by_score gtb eqb ?l] =>
      destruct (max_by_score_total l) as (b0 & E0); [|rewrite E0]
    end.
    { intros h Hh. apply filter_In in Hh. destruct Hh as (_ & Hg). apply (ge_nan _ _ Hg). }
    cbn [rbind].
    apply max_loop_total. lia.
  Qed.

  (* k calls of next(), then max(): both return *)
  Lemma max_after_total k :
    exists Y s r,
      take_k geb is_nan scale score_position score_rows R Lm B thr k init = Ok (Y, s) /\
      smax geb gtb eqb is_nan scale score_position score_rows R Lm B thr s = Ok r /\
      max_after geb gtb eqb is_nan scale score_position score_rows R Lm B thr k = Ok r.
  Proof.
    destruct (take_k_total geb is_nan scale score_position score_rows R Lm B thr C score dscore
                HB HLm Hpos Hrows tHnan k init) as (Y & s & Ht).
    destruct (smax_total s) as (r & Hs).
    exists Y, s, r. split; [exact Ht|]. split; [exact Hs|].
    unfold max_after. rewrite Ht. cbn [rbind snd]. exact Hs.
  Qed.

End Total.
