(* The PROPOSED repair of finding F-scan-ovf: with `self.row.saturating_add(self.block_size)`
   (ScanWord.v, mode Saturating) the word-level scanner yields exactly what ScanModel's
   nat-level scanner yields, from related states, for EVERY block size - no bound on B or
   B' is needed any more, only R < W.  A saturated row counter is >= R, like the
   unbounded one, so both loops end. *)
From Coq Require Import List Arith Bool NArith Lia.
From LMBase Require Import Res ListX.
From LMScan Require Import ScanModel ScanLemmas ScanProofs ScanSwitch ScanWord WordProofs.
Import ListNotations.

Definition res_rel {A B} (P : A -> B -> Prop) (x : res A) (y : res B) : Prop :=
  match x, y with
  | Ok a, Ok b => P a b
  | Err c, Err c' => c = c'
  | Panic s, Panic s' => s = s'
  | OutOfFuel, OutOfFuel => True
  | _, _ => False
  end.

Section SatProofs.
  Context {T : Type}.
  Variable geb gtb eqb : T -> T -> bool.
  Variable is_nan : T -> bool.
  Variable scale : T -> nat.
  Variable score_position : nat -> res T.
  Variable score_rows : nat -> nat -> res dmatrix.
  Variable R Lm : nat.
  Variable W : N.
  Hypothesis HR : (N.of_nat R < W)%N.

  Local Notation st := (@st T).
  Local Notation wst := (@wst T).
  Local Notation hit := (@hit T).

  (* same buffered hits; same row, or both rows past the last sequence row *)
  Definition rel (s : st) (ws : wst) : Prop :=
    whits ws = hits s /\
    (wrow ws = N.of_nat (row s) \/ (R <= row s /\ (N.of_nat R <= wrow ws)%N)).

  Definition rel2 {X} (r : X * st) (wr : X * wst) : Prop := fst r = fst wr /\ rel (snd r) (snd wr).

  Lemma rel_init : rel init winit.
  Proof. split; [reflexivity|left; reflexivity]. Qed.

  Section Fixed.
    Variable B : nat.
    Variable thr : T.

    Local Notation next_block := (next_block geb is_nan scale score_position score_rows R Lm B thr).
    Local Notation next_loop := (next_loop geb is_nan scale score_position score_rows R Lm B thr).
    Local Notation next := (next geb is_nan scale score_position score_rows R Lm B thr).
    Local Notation take_k := (take_k geb is_nan scale score_position score_rows R Lm B thr).
    Local Notation collect := (collect geb is_nan scale score_position score_rows R Lm B thr).
    Local Notation wnext_block := (wnext_block geb is_nan scale score_position score_rows R Lm Saturating W (N.of_nat B) thr).
    Local Notation wnext_loop := (wnext_loop geb is_nan scale score_position score_rows R Lm Saturating W (N.of_nat B) thr).
    Local Notation wnext := (wnext geb is_nan scale score_position score_rows R Lm Saturating W (N.of_nat B) thr).
    Local Notation wtake_k := (wtake_k geb is_nan scale score_position score_rows R Lm Saturating W (N.of_nat B) thr).
    Local Notation wcollect := (wcollect geb is_nan scale score_position score_rows R Lm Saturating W (N.of_nat B) thr).

    Lemma sat_end rw : rw < R ->
      exists e0, wadd Saturating W (N.of_nat rw) (N.of_nat B) = Ok e0 /\
                 N.to_nat (N.min e0 (N.of_nat R)) = Nat.min (rw + B) R /\
                 (e0 = N.of_nat (rw + B) \/ (R <= rw + B /\ (N.of_nat R <= e0)%N)).
    Proof.
      intros Hlt. unfold wadd. destruct (N.ltb_spec (N.of_nat rw + N.of_nat B) W) as [Hs|Hb].
      - exists (N.of_nat rw + N.of_nat B)%N. split; [reflexivity|]. split; [|left; lia].
        rewrite <- Nat2N.inj_add, <- Nat2N.inj_min, Nat2N.id. reflexivity.
      - exists (W - 1)%N. split; [reflexivity|]. split; [|right; lia].
        rewrite N.min_r by lia. rewrite Nat2N.id. lia.
    Qed.

    Lemma sat_block_sim s ws : rel s ws -> row s < R -> res_rel rel (next_block s) (wnext_block ws).
    Proof.
      intros (Hh & Hr) Hlt. destruct Hr as [Hr|(Hge & _)]; [|lia].
      unfold ScanWord.wnext_block, ScanModel.next_block. rewrite Hr, Hh.
      destruct (sat_end (row s) Hlt) as (e0 & Ea & Ee & Erel). rewrite Ea. cbn [rbind].
      rewrite Ee, Nat2N.id.
      destruct (score_rows (row s) (Nat.min (row s + B) R)) as [d| | |]; cbn [rbind res_rel]; auto.
      destruct (match dmax d with
                | Some mx => if scale thr <=? mx
                             then next_cands geb is_nan score_position R Lm thr (row s) (dthreshold d (scale thr)) (hits s)
                             else Ok (hits s)
                | None => Ok (hits s)
                end) as [hs| | |]; cbn [rbind res_rel]; auto.
      split; [reflexivity|exact Erel].
    Qed.

    Lemma sat_loop_sim fuel : forall s ws, rel s ws -> res_rel rel (next_loop fuel s) (wnext_loop fuel ws).
    Proof.
      induction fuel as [|f IH]; intros s ws Hrel; [exact I|].
      cbn [ScanWord.wnext_loop ScanModel.next_loop]. destruct Hrel as (Hh & Hr). rewrite Hh.
      destruct (hits s) eqn:Eh; [|cbn [res_rel]; split; [congruence|exact Hr]].
      assert (Hcmp : (wrow ws <? N.of_nat R)%N = (row s <? R)).
      { destruct Hr as [Hr|(Hge & Hge')].
        - rewrite Hr. apply N_ltb_of_nat.
        - rewrite (proj2 (N.ltb_ge _ _) Hge'). symmetry. apply Nat.ltb_ge. exact Hge. }
      rewrite Hcmp. destruct (Nat.ltb_spec (row s) R) as [Hlt|Hge].
      - assert (Hrel : rel s ws) by (split; [congruence|exact Hr]).
        pose proof (sat_block_sim s ws Hrel Hlt) as Hb.
        destruct (next_block s) as [s1| | |], (wnext_block ws) as [ws1| | |]; cbn [res_rel rbind] in *; try contradiction; auto.
      - cbn [res_rel]. split; [congruence|exact Hr].
    Qed.

    Lemma sat_next_sim s ws : rel s ws -> res_rel rel2 (next s) (wnext ws).
    Proof.
      intros Hrel. unfold ScanWord.wnext, ScanModel.next.
      pose proof (sat_loop_sim (S R) s ws Hrel) as Hl.
      destruct (next_loop (S R) s) as [s1| | |], (wnext_loop (S R) ws) as [ws1| | |];
        cbn [res_rel rbind] in *; try contradiction; auto.
      destruct Hl as (Hh & Hr). rewrite Hh. destruct (hits s1) eqn:Eh; cbn [res_rel].
      - split; [reflexivity|]. split; [cbn; congruence|exact Hr].
      - split; [reflexivity|]. split; [reflexivity|exact Hr].
    Qed.

    Lemma sat_take_sim k : forall s ws, rel s ws -> res_rel rel2 (take_k k s) (wtake_k k ws).
    Proof.
      induction k as [|k IH]; intros s ws Hrel; [cbn; split; [reflexivity|exact Hrel]|].
      cbn [ScanWord.wtake_k ScanModel.take_k].
      pose proof (sat_next_sim s ws Hrel) as Hn.
      destruct (next s) as [[r s1]| | |], (wnext ws) as [[wr ws1]| | |]; cbn [res_rel rbind] in *; try contradiction; auto.
      destruct Hn as (Hf & Hrel1). cbn [fst snd] in *. subst wr.
      destruct r as [h|]; [|cbn; split; [reflexivity|exact Hrel1]].
      pose proof (IH s1 ws1 Hrel1) as Ht.
      destruct (take_k k s1) as [[H2 s2]| | |], (wtake_k k ws1) as [[wH2 ws2]| | |];
        cbn [res_rel rbind] in *; try contradiction; auto.
      destruct Ht as (Hf & Hrel2). cbn [fst snd] in *. subst wH2. split; [reflexivity|exact Hrel2].
    Qed.

    Lemma sat_collect_sim fuel : forall s ws, rel s ws -> wcollect fuel ws = collect fuel s.
    Proof.
      induction fuel as [|f IH]; intros s ws Hrel; [reflexivity|].
      cbn [ScanWord.wcollect ScanModel.collect].
      pose proof (sat_next_sim s ws Hrel) as Hn.
      destruct (next s) as [[r s1]| | |], (wnext ws) as [[wr ws1]| | |]; cbn [res_rel rbind] in *;
        try contradiction; try congruence; auto.
      destruct Hn as (Hf & Hrel1). cbn [fst snd] in *. subst wr.
      destruct r as [h|]; [|reflexivity].
      now rewrite (IH s1 ws1 Hrel1).
    Qed.
    Lemma sat_max_loop_sim fuel : forall rw wrw best bd,
      (wrw = N.of_nat rw \/ (R <= rw /\ (N.of_nat R <= wrw)%N)) ->
      wmax_loop geb gtb eqb is_nan scale score_position score_rows R Lm Saturating W (N.of_nat B) thr fuel wrw best bd
      = max_loop geb gtb eqb is_nan scale score_position score_rows R Lm B thr fuel rw best bd.
    Proof.
      induction fuel as [|f IH]; intros rw wrw best bd Hr; [reflexivity|].
      cbn [ScanWord.wmax_loop ScanModel.max_loop].
      assert (Hcmp : (wrw <? N.of_nat R)%N = (rw <? R)).
      { destruct Hr as [Hr|(Hge & Hge')].
        - rewrite Hr. apply N_ltb_of_nat.
        - rewrite (proj2 (N.ltb_ge _ _) Hge'). symmetry. apply Nat.ltb_ge. exact Hge. }
      rewrite Hcmp. destruct (Nat.ltb_spec rw R) as [Hlt|Hge]; [|reflexivity].
      destruct Hr as [Hr|(Hge & _)]; [|lia]. subst wrw.
      destruct (sat_end rw Hlt) as (e0 & Ea & Ee & Erel). rewrite Ea. cbn [rbind].
      rewrite Ee, Nat2N.id.
      destruct (score_rows rw (Nat.min (rw + B) R)) as [d| | |]; cbn [rbind]; auto.
      destruct (match dmax d with
                | Some mx => if bd <=? mx
                             then max_cands geb gtb eqb is_nan scale score_position R Lm thr rw d (dthreshold d bd) best bd
                             else Ok (best, bd)
                | None => Ok (best, bd)
                end) as [r| | |]; cbn [rbind]; auto.
    Qed.

    Lemma sat_smax_sim s ws : rel s ws ->
      wsmax geb gtb eqb is_nan scale score_position score_rows R Lm Saturating W (N.of_nat B) thr ws
      = smax geb gtb eqb is_nan scale score_position score_rows R Lm B thr s.
    Proof.
      intros (Hh & Hr). unfold wsmax, smax. rewrite Hh.
      match goal with |- context [max_by_score gtb eqb ?l] =>
        destruct (max_by_score gtb eqb l) as [b0| | |] end; cbn [rbind]; auto.
      now apply sat_max_loop_sim.
    Qed.
  End Fixed.

  (* setters between calls under the repaired addition: ANY block sizes *)
  Lemma sat_switch_collect_eq B thr k B' thr' fuel :
    wswitch_collect geb is_nan scale score_position score_rows R Lm Saturating W (N.of_nat B) thr k (N.of_nat B') thr' fuel
    = switch_collect geb is_nan scale score_position score_rows R Lm B thr k B' thr' fuel.
  Proof.
    unfold wswitch_collect, switch_collect.
    pose proof (sat_take_sim B thr k init winit rel_init) as Ht.
    destruct (take_k geb is_nan scale score_position score_rows R Lm B thr k init) as [[Y s]| | |],
             (wtake_k geb is_nan scale score_position score_rows R Lm Saturating W (N.of_nat B) thr k winit) as [[wY ws]| | |];
      cbn [res_rel rbind] in *; try contradiction; try congruence; auto.
    destruct Ht as (Hf & Hrel). cbn [fst snd] in *. subst wY.
    now rewrite (sat_collect_sim B' thr' fuel s ws Hrel).
  Qed.
  Lemma sat_switch_max_eq B thr k B' thr' :
    wswitch_max geb gtb eqb is_nan scale score_position score_rows R Lm Saturating W (N.of_nat B) thr k (N.of_nat B') thr'
    = switch_max geb gtb eqb is_nan scale score_position score_rows R Lm B thr k B' thr'.
  Proof.
    unfold wswitch_max, switch_max.
    pose proof (sat_take_sim B thr k init winit rel_init) as Ht.
    destruct (take_k geb is_nan scale score_position score_rows R Lm B thr k init) as [[Y s]| | |],
             (wtake_k geb is_nan scale score_position score_rows R Lm Saturating W (N.of_nat B) thr k winit) as [[wY ws]| | |];
      cbn [res_rel rbind] in *; try contradiction; try congruence; auto.
    destruct Ht as (Hf & Hrel). cbn [fst snd] in *. subst wY.
    now rewrite (sat_smax_sim B' thr' s ws Hrel).
  Qed.
End SatProofs.
