(* The p-value thresholds on texts that may contain the wildcard letter: the hit list of the scanning pipeline
   (E2EProofs.text_to_hits) with E2EStatWild.dirty_window_ninf for the windows containing a wildcard and
   E2EStatFloat.fscore_error / ge_valQ for the others. *)
From Coq Require Import List Arith Bool Lia ZArith QArith Qabs Lqa.
From Coq.Strings Require Import Byte.
From LMBase Require Import Res ListX IEEE.
From LMScore Require ScoreModel ScoreProofs.
From LMEncode Require EncodeModel GenAbc EncodeProofs.
From LMStripe Require StripeModel StripeSpec StripeAvx2.
From LMScan Require Import ScanModel ScanConcrete.
From LMScan Require DiscBridge.
From LME2E Require Import E2EBridgeEncode E2EPipeline E2EProofs.
From Coq Require Import Permutation.
From LMTfm Require TfmNum TfmModel TfmSpec TfmProofs TfmLink C13.
From LME2E Require Import E2EStatBridge E2EStatScan E2EStatFloat E2EStatFloatScan E2EStatWild.
Import ListNotations.
Local Open Scope nat_scope.

Lemma syms_lt_K (A : EM.abc) (text : list byte) (sq : list nat) :
  A = GA.dna \/ A = GA.protein -> length sq = length text ->
  (forall i b, nth_error text i = Some b ->
     exists x, nth_error sq i = Some x /\ nth_error (EM.a_str A) x = Some b) ->
  Forall (fun a => a < EM.a_K A) sq.
Proof.
  intros HA Hl Hsym. destruct (abc_str_nodup A HA) as (_ & Hlen & _).
  apply Forall_forall. intros a Ha. destruct (In_nth_error _ _ Ha) as (i & Hi).
  assert (Hlt : i < length text) by (rewrite <- Hl; apply nth_error_Some; congruence).
  destruct (nth_error text i) as [b|] eqn:Eb; [|apply nth_error_None in Eb; lia].
  destruct (Hsym i b Eb) as (x & Hx & Hxb). rewrite Hi in Hx. inversion Hx; subst x.
  rewrite <- Hlen. apply nth_error_Some. congruence.
Qed.

Lemma ge_ninf_false (t : F32.t) : F32.is_finite t = true -> F32.ge F32.ninf t = false.
Proof. destruct t as [s|s| |s m e H]; try discriminate; intros _; try reflexivity; destruct s; reflexivity. Qed.

(* any text of the alphabet (wildcards allowed), wildcard column -inf *)
Lemma text_threshold_wild (A : EM.abc) (C : nat) (p : EI.pipeline) (junk : nat -> EM.sym) (text : list byte)
      (be : SA.backend) (old : SM.sseq) (pssm : list (list F32.t)) (am : arm) (thr : F32.t) (B : nat)
      (bg : list Q) (pv tq eta dd : Q) :
  A = GA.dna \/ A = GA.protein ->
  1 <= C -> SA.backend_typed C be = true -> SS.wf_matrix C (SM.mat old) ->
  Forall (LMEncode.EncodeProofs.in_abc A) text ->
  1 <= length pssm -> Forall (fun row : list F32.t => length row = EM.a_K A) pssm ->
  e2e_wc (EM.a_K A) pssm = true -> no_overflow (EM.a_K A) pssm = true -> wild_ninf (EM.a_K A) pssm -> 1 <= B ->
  F32.is_finite thr = true -> (Qabs (valQ thr - tq) <= eta)%Q ->
  length bg = EM.a_K A -> (last bg 0 == 0)%Q -> (forall b, In b bg -> (0 <= b)%Q) ->
  (tail_c01 (EM.a_K A) (qmat pssm) bg (tq + dd) <= pv)%Q ->
  let K := EM.a_K A in
  let S := qmat pssm in
  let M := length pssm in
  let eps := (eps_f32 K pssm + eta)%Q in
  exists (sq : list nat) (H : list (nat * F32.t)),
    encode_nat p A junk text = Ok sq /\ length sq = length text /\
    e2e_scan A C p junk text be old pssm am thr B = Ok H /\ NoDup (map fst H) /\
    (forall i x, In (i, x) H ->
       i + M <= length sq /\ clean K M sq i = true /\
       exists s, score_c01 K S (window M i sq) = Some s /\ (tq - eps <= s)%Q /\
                 (tail_c01 K S bg (s + eps + dd) <= pv)%Q) /\
    (forall i, i + M <= length sq -> (forall x, ~ In (i, x) H) ->
       clean K M sq i = false \/
       exists s, score_c01 K S (window M i sq) = Some s /\ (s < tq + eps)%Q).
Proof.
  intros HA HC Hbe Hold Htext HM Hrows Hwc Hno Hwild HB Hthr Heta Hbg Hlast Hnn Hthrp K S M eps.
  destruct (text_to_hits A C p junk text be old pssm HA HC Hbe Hold Htext HM Hrows
              (e2e_wc_finite _ _ Hwc) (c08_main_clause_wc _ _ Hwc) am thr B HB)
    as (sq & H & H1 & H2 & H3 & H4 & H5 & H6).
  pose proof (syms_lt_K A text sq HA H2 H3) as HsqK.
  pose proof (finite_nonwild_sym_fin32 _ _ Hrows (e2e_wc_finite _ _ Hwc)) as Hfin.
  destruct (abc_str_nodup A HA) as (_ & _ & HK).
  assert (Hl : length (qmat pssm) = length pssm) by apply qmat_length.
  assert (Hsf : sym_finite K S) by (apply qmat_sym_finite; [unfold K; lia|exact Hfin]).
  apply Qabs_Qle_condition in Heta.
  (* clean windows *)
  assert (Hclean : forall i, i + M <= length sq -> clean K M sq i = true ->
            F32.is_finite (SCO.score_def F32.add F32.zero (K - 1) pssm sq i) = true /\
            exists s, score_c01 K S (window M i sq) = Some s /\
                      (Qabs (valQ (SCO.score_def F32.add F32.zero (K - 1) pssm sq i) - s) <= eps_f32 K pssm)%Q).
  { intros i Hi Hc. destruct (fscore_error K pssm sq i Hfin Hno (proj1 (clean_spec K M sq i) Hc)) as (Hf & s & Es & Hs).
    split; [exact Hf|]. exists s. split; [|exact Hs].
    unfold M, S. rewrite <- Hl. rewrite (score_window K (qmat pssm) sq i) by (rewrite Hl; exact Hi). exact Es. }
  exists sq, H. split; [exact H1|]. split; [exact H2|]. split; [exact H4|]. split; [exact H6|]. split.
  - intros i x Hin. apply H5 in Hin. destruct Hin as (Hi & Hge & _). split; [exact Hi|].
    destruct (clean K M sq i) eqn:Ec.
    + split; [reflexivity|]. destruct (Hclean i Hi Ec) as (Hf & s & Es & Hs).
      exists s. split; [exact Es|]. apply (ge_valQ _ thr Hf Hthr) in Hge. apply Qabs_Qle_condition in Hs.
      unfold eps. split; [lra|].
      eapply Qle_trans; [|exact Hthrp]. apply tail_c01_antitone; [lia|exact Hsf|exact Hbg|exact Hlast|exact Hnn|lra].
    + exfalso.
      assert (Hn : SCO.score_def F32.add F32.zero (EM.a_K A - 1) pssm sq i = F32.ninf)
        by exact (dirty_window_ninf K pssm sq i Hfin Hwild Hno HsqK ltac:(lia) Ec).
      rewrite Hn in Hge.
      rewrite (ge_ninf_false thr Hthr) in Hge. discriminate.
  - intros i Hi Hnot. destruct (clean K M sq i) eqn:Ec; [right|now left].
    destruct (Hclean i Hi Ec) as (Hf & s & Es & Hs). exists s. split; [exact Es|].
    apply Qabs_Qle_condition in Hs. unfold eps.
    destruct (Qlt_le_dec (valQ (SCO.score_def F32.add F32.zero (K - 1) pssm sq i)) (valQ thr)) as [Hlt|Hle]; [lra|].
    exfalso. apply (Hnot (SCO.score_def F32.add F32.zero (K - 1) pssm sq i)). apply H5.
    split; [exact Hi|]. split; [|reflexivity]. apply (ge_valQ _ thr Hf Hthr). exact Hle.
Qed.

(* ... instantiated with the MEME-style threshold *)
Lemma text_threshold_meme_wild :
  forall (A : EM.abc) (C : nat) (p : EI.pipeline) (junk : nat -> EM.sym) (text : list byte)
         (be : SA.backend) (old : SM.sseq) (pssm : list (list F32.t)) (am : arm) (thr : F32.t) (B : nat)
         (bg : list Q) d offset scale (pv tq eta : Q),
    A = GA.dna \/ A = GA.protein ->
    1 <= C -> SA.backend_typed C be = true -> SS.wf_matrix C (SM.mat old) ->
    Forall (LMEncode.EncodeProofs.in_abc A) text ->
    1 <= length pssm -> Forall (fun row : list F32.t => length row = EM.a_K A) pssm ->
    e2e_wc (EM.a_K A) pssm = true -> no_overflow (EM.a_K A) pssm = true -> wild_ninf (EM.a_K A) pssm -> 1 <= B ->
    F32.is_finite thr = true -> (Qabs (valQ thr - tq) <= eta)%Q ->
    length bg = EM.a_K A -> (last bg 0 == 0)%Q -> DT.bg_nonneg bg -> (DI.Qsum bg <= 1)%Q ->
    DMo.build DI.QOps (dmat (qmat pssm)) bg = Ok d -> DMo.stage_a DI.QOps (dmat (qmat pssm)) = Ok (offset, scale) ->
    (Z.of_nat (length pssm) * 1000 < DMo.i32_max)%Z ->
    (0 < pv)%Q -> (pv < 1)%Q -> DMo.d_score DI.QOps d pv = Ok tq ->
    let K := EM.a_K A in
    let S := qmat pssm in
    let M := length pssm in
    let eps := (eps_f32 K pssm + eta)%Q in
    let dd := ((inject_Z (Z.of_nat M) / 2 + 1) / scale)%Q in
    exists (sq : list nat) (H : list (nat * F32.t)),
      encode_nat p A junk text = Ok sq /\ length sq = length text /\
      e2e_scan A C p junk text be old pssm am thr B = Ok H /\ NoDup (map fst H) /\
      (forall i x, In (i, x) H ->
         i + M <= length sq /\ clean K M sq i = true /\
         exists s, score_c01 K S (window M i sq) = Some s /\ (tq - eps <= s)%Q /\
                   (tail_c01 K S bg (s + eps + dd) <= pv)%Q) /\
      (forall i, i + M <= length sq -> (forall x, ~ In (i, x) H) ->
         clean K M sq i = false \/
         exists s, score_c01 K S (window M i sq) = Some s /\ (s < tq + eps)%Q).
Proof.
  intros A C p junk text be old pssm am thr B bg d offset scale pv tq eta HA HC Hbe Hold Htext HM Hrows Hwc Hno Hwild HB
         Hthr Heta Hbg Hlast Hnn Hle Hd Hs Hlen Hp0 Hp1 Ht K S M eps dd.
  destruct (abc_str_nodup A HA) as (_ & _ & HK).
  assert (Hl : length (qmat pssm) = length pssm) by apply qmat_length.
  pose proof (finite_nonwild_sym_fin32 _ _ Hrows (e2e_wc_finite _ _ Hwc)) as Hfin.
  assert (HrowsQ : Forall (fun row : list (option Q) => length row = K) S).
  { pose proof (qmat_sym_finite K pssm ltac:(unfold K; lia) Hfin) as Hsf.
    eapply Forall_impl; [|exact Hsf]. intros r (E & _). exact E. }
  assert (Hnn' : forall b, In b bg -> (0 <= b)%Q)
    by (intros b Hb; unfold DT.bg_nonneg in Hnn; rewrite Forall_forall in Hnn; auto).
  pose proof (meme_threshold K S bg d offset scale pv tq HrowsQ Hbg Hnn Hle Hd Hs
                ltac:(unfold S; rewrite Hl; exact Hlen) Hp0 Hp1 Ht) as Hthrp.
  cbv zeta in Hthrp. unfold S in Hthrp. rewrite Hl in Hthrp. fold M dd S in Hthrp.
  exact (text_threshold_wild A C p junk text be old pssm am thr B bg pv tq eta dd HA HC Hbe Hold Htext HM Hrows Hwc Hno
           Hwild HB Hthr Heta Hbg Hlast Hnn' Hthrp).
Qed.

(* ... instantiated with the TFM-PVALUE threshold *)
Lemma text_threshold_tfm_wild :
  forall (A : EM.abc) (C : nat) (p : EI.pipeline) (junk : nat -> EM.sym) (text : list byte)
         (be : SA.backend) (old : SM.sseq) (pssm : list (list F32.t)) (am : arm) (thr : F32.t) (B : nat)
         (bg : list Q) perm (pv : Q) steps win it (eta : Q),
    A = GA.dna \/ A = GA.protein ->
    1 <= C -> SA.backend_typed C be = true -> SS.wf_matrix C (SM.mat old) ->
    Forall (LMEncode.EncodeProofs.in_abc A) text ->
    2 <= length pssm -> Forall (fun row : list F32.t => length row = EM.a_K A) pssm ->
    e2e_wc (EM.a_K A) pssm = true -> no_overflow (EM.a_K A) pssm = true -> wild_ninf (EM.a_K A) pssm -> 1 <= B ->
    TP.matrix_ok (EM.a_K A) (trows (qmat pssm)) bg ->
    Permutation perm (seq 0 (length pssm)) -> (0 < pv)%Q -> (pv <= 1)%Q ->
    TM.score_window0 LMTfm.TfmNum.NumQ (trows (qmat pssm)) perm = Ok win ->
    In (Ok it) (TM.sc_run LMTfm.TfmNum.NumQ steps (trows (qmat pssm)) perm bg pv (1 # 10) win) ->
    F32.is_finite thr = true -> (Qabs (valQ thr - TM.io_score it) <= eta)%Q ->
    let K := EM.a_K A in
    let S := qmat pssm in
    let M := length pssm in
    let tq := TM.io_score it in
    let eps := (eps_f32 K pssm + eta)%Q in
    let d := ((inject_Z (Z.of_nat M) + 2) * TM.io_gran it)%Q in
    exists (sq : list nat) (H : list (nat * F32.t)),
      encode_nat p A junk text = Ok sq /\ length sq = length text /\
      e2e_scan A C p junk text be old pssm am thr B = Ok H /\ NoDup (map fst H) /\
      (forall i x, In (i, x) H ->
         i + M <= length sq /\ clean K M sq i = true /\
         exists s, score_c01 K S (window M i sq) = Some s /\ (tq - eps <= s)%Q /\
                   (tail_c01 K S bg (s + eps + d) <= pv)%Q) /\
      (forall i, i + M <= length sq -> (forall x, ~ In (i, x) H) ->
         clean K M sq i = false \/
         exists s, score_c01 K S (window M i sq) = Some s /\ (s < tq + eps)%Q /\
                   ((s < tq - d)%Q -> (pv <= tail_c01 K S bg (s - d))%Q)).
Proof.
  intros A C p junk text be old pssm am thr B bg perm pv steps win it eta HA HC Hbe Hold Htext HM Hrows Hwc Hno Hwild HB
         Hok Hperm Hp0 Hp1 Hwin Hin Hthr Heta K S M tq eps d.
  destruct (abc_str_nodup A HA) as (_ & _ & HK).
  assert (Hl : length (qmat pssm) = length pssm) by apply qmat_length.
  pose proof (finite_nonwild_sym_fin32 _ _ Hrows (e2e_wc_finite _ _ Hwc)) as Hfin.
  assert (Hsf : sym_finite K S) by (apply qmat_sym_finite; [unfold K; lia|exact Hfin]).
  destruct (tfm_threshold K S bg perm pv steps win it Hsf Hok ltac:(unfold S; rewrite Hl; exact HM)
              ltac:(unfold S; rewrite Hl; exact Hperm) Hp0 Hp1 Hwin Hin) as (Hc1 & Hc2).
  unfold S in Hc1, Hc2. rewrite Hl in Hc1, Hc2. fold M tq d S in Hc1, Hc2.
  destruct Hok as (_ & _ & Hbg & Hnn & _ & Hlast).
  destruct (text_threshold_wild A C p junk text be old pssm am thr B bg pv tq eta d HA HC Hbe Hold Htext ltac:(lia) Hrows
              Hwc Hno Hwild HB Hthr Heta Hbg Hlast Hnn Hc1) as (sq & H & H1 & H2 & H3 & H4 & H5 & H6).
  exists sq, H. split; [exact H1|]. split; [exact H2|]. split; [exact H3|]. split; [exact H4|]. split; [exact H5|].
  intros i Hi Hnot. destruct (H6 i Hi Hnot) as [Hd|(s & Es & Hlt)]; [now left|].
  destruct (clean K M sq i) eqn:Ec; [|now left]. right.
  exists s. split; [exact Es|]. split; [exact Hlt|]. intros Hs.
  assert (Hw : length (window M i sq) = length S /\ Forall (fun a => a < K - 1) (window M i sq)).
  { unfold window. split.
    - rewrite firstn_length, skipn_length. unfold S. rewrite Hl. fold M. lia.
    - apply Forall_forall. intros a Ha. destruct (In_nth _ _ (K - 1) Ha) as (j & Hj & Ej).
      rewrite firstn_length, skipn_length in Hj.
      rewrite LMScore.ScoreProofs.nth_firstn_lt in Ej by lia. rewrite LMScore.ScoreProofs.nth_skipn in Ej.
      rewrite <- Ej. apply (proj1 (clean_spec K M sq i) Ec). lia. }
  destruct (word_score_attain K S bg (window M i sq) HK Hsf Hbg (proj1 Hw) (proj2 Hw)) as (l & s' & Hatt & Es' & Hq).
  pose proof (eq_trans (eq_sym Es) Es') as Ess. inversion Ess; subst s'.
  assert (Hlq : (TS.Qsum l < tq - d)%Q) by (rewrite <- Hq; exact Hs).
  pose proof (Hc2 l Hatt Hlq) as Hpl.
  eapply Qle_trans; [exact Hpl|]. apply tail_c01_antitone; [lia|exact Hsf|exact Hbg|exact Hlast|exact Hnn|]. rewrite Hq. lra.
Qed.
