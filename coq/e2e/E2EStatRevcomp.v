(* The exact tail P(S >= t) is invariant under reverse complement (property C10 on the statistics
   side): reversing the rows does not change the distribution of a sum of independent row
   contributions, and complementing the columns together with the background is a relabelling of
   the symbols.  Exact rational arithmetic; DNA (K = 5, complement table of coq/pwm). *)
From Coq Require Import List Arith Bool Lia ZArith QArith Lqa.
From LMBase Require Import Res ListX.
From LMPwm Require GenComplement PwmModel PwmProofs C10.
From LMDist Require DistModel DistInst DistConv DistDyadic DistWords.
From LME2E Require Import E2EStatBridge.
Import ListNotations.
Local Open Scope Q_scope.

Module PMr := LMPwm.PwmModel.
Module GCr := LMPwm.GenComplement.

(* ---------- row order ---------- *)

Lemma tail_exact_snoc (m : list (list (DMo.cell Q))) (row : list (DMo.cell Q)) (bg : list Q) (t : Q) :
  DI.tail_exact (m ++ [row]) bg t = DI.tail_step bg (DI.tail_exact m bg) row t.
Proof. unfold DI.tail_exact. now rewrite fold_left_app. Qed.

Lemma tail_exact_proper (m : list (list (DMo.cell Q))) (bg : list Q) :
  LMDist.DistDyadic.properQ (DI.tail_exact m bg).
Proof.
  unfold DI.tail_exact. generalize LMDist.DistDyadic.base_tail_proper. generalize DI.base_tail.
  induction m as [|row m IH]; intros F HF; cbn [fold_left]; [exact HF|].
  apply IH. now apply DW.tail_step_proper.
Qed.

Theorem tail_exact_rev (m : list (list (DMo.cell Q))) (bg : list Q) (t : Q) :
  DI.tail_exact (rev m) bg t == DI.tail_exact m bg t.
Proof.
  revert t. induction m as [|row m IH]; intros t; [reflexivity|].
  cbn [rev]. rewrite tail_exact_snoc, DW.tail_exact_cons.
  apply DW.tail_step_pointwise. exact IH.
Qed.

(* ---------- column complement (DNA) ---------- *)

Definition rc5 {A} (d : A) (row : list A) : list A := PMr.rc_row_spec d GCr.dna_K GCr.dna_comp row.

Lemma rc5_five {A} (d a b c e f : A) : rc5 d [a; b; c; e; f] = [c; e; a; b; f].
Proof. reflexivity. Qed.

Lemma five {A} (l : list A) : length l = 5%nat -> exists a b c d e, l = [a; b; c; d; e].
Proof.
  intros H. destruct l as [|a [|b [|c [|d [|e [|f l]]]]]]; simpl in H; try discriminate.
  now exists a, b, c, d, e.
Qed.

Lemma tail_step_rc5 (bg : list Q) (F : Q -> Q) (row : list (DMo.cell Q)) (t : Q) :
  length bg = 5%nat -> length row = 5%nat ->
  DI.tail_step (rc5 0 bg) F (rc5 DMo.CNInf row) t == DI.tail_step bg F row t.
Proof.
  intros Hb Hr. destruct (five bg Hb) as (b0 & b1 & b2 & b3 & b4 & ->).
  destruct (five row Hr) as (c0 & c1 & c2 & c3 & c4 & ->).
  rewrite !rc5_five. unfold DI.tail_step. cbn [combine map DI.Qsum fst snd]. ring.
Qed.

Lemma tail_exact_rc5 (m : list (list (DMo.cell Q))) (bg : list Q) (t : Q) :
  length bg = 5%nat -> Forall (fun row => length row = 5%nat) m ->
  DI.tail_exact (map (rc5 DMo.CNInf) m) (rc5 0 bg) t == DI.tail_exact m bg t.
Proof.
  intros Hb Hm. revert t. induction m as [|row m IH]; intros t; [reflexivity|].
  inversion Hm as [|? ? Hr Hrest]; subst. cbn [map]. rewrite !DW.tail_exact_cons.
  rewrite (tail_step_rc5 bg _ row t Hb Hr). apply DW.tail_step_pointwise. exact (IH Hrest).
Qed.

(* ---------- reverse complement of a scoring matrix with -inf cells ---------- *)

Lemma dmat_rc (sm : list (list (option Q))) :
  dmat (LMPwm.C10.dna_rc None sm) = map (rc5 DMo.CNInf) (rev (dmat sm)).
Proof.
  destruct (LMPwm.C10.C10_revcomp_is_reversal_and_complement (option Q) None sm) as (E & _).
  rewrite E. unfold LMPwm.C10.dna_rc_spec, PMr.rc_spec, dmat. rewrite map_map, <- map_rev, map_map.
  apply map_ext. intros row. unfold rc5, PMr.rc_row_spec. rewrite map_map. apply map_ext. intros k.
  change DMo.CNInf with (ocellD None). now rewrite map_nth.
Qed.

(* THE INVARIANCE: exact tail of the reverse-complemented matrix under the complemented
   background = exact tail of the original matrix under the original background *)
Theorem tail_revcomp (sm : list (list (option Q))) (bg : list Q) (t : Q) :
  length bg = 5%nat -> Forall (fun row => length row = 5%nat) sm ->
  DI.tail_exact (dmat (LMPwm.C10.dna_rc None sm)) (rc5 0 bg) t == DI.tail_exact (dmat sm) bg t.
Proof.
  intros Hb Hm. rewrite dmat_rc.
  rewrite (tail_exact_rc5 (rev (dmat sm)) bg t Hb).
  - apply tail_exact_rev.
  - apply Forall_rev. unfold dmat. apply Forall_map. eapply Forall_impl; [|exact Hm].
    intros row Hr. now rewrite map_length.
Qed.

Lemma rc_rows5 (sm : list (list (option Q))) :
  Forall (fun row : list (option Q) => length row = 5%nat) (LMPwm.C10.dna_rc None sm) /\
  length (LMPwm.C10.dna_rc None sm) = length sm.
Proof.
  destruct (LMPwm.C10.C10_revcomp_is_reversal_and_complement (option Q) None sm) as (E & Hl & _).
  split; [|exact Hl]. rewrite E. unfold LMPwm.C10.dna_rc_spec, PMr.rc_spec. apply Forall_map.
  apply Forall_forall. intros row _. unfold PMr.rc_row_spec. now rewrite map_length, seq_length.
Qed.

(* the same for the word sums over C01's score_def *)
Theorem tail_c01_revcomp (sm : list (list (option Q))) (bg : list Q) (t : Q) :
  length bg = 5%nat -> Forall (fun row => length row = 5%nat) sm ->
  tail_c01 5 (LMPwm.C10.dna_rc None sm) (rc5 0 bg) t == tail_c01 5 sm bg t.
Proof.
  intros Hb Hm. destruct (rc_rows5 sm) as (Hr & _).
  rewrite (tail_c01_dist 5 _ (rc5 0 bg) t Hr) by (unfold rc5, PMr.rc_row_spec; now rewrite map_length, seq_length).
  rewrite (tail_c01_dist 5 sm bg t Hm Hb). now apply tail_revcomp.
Qed.
