(* Composition lemmas for the statistics side (E2EStat.v): the scoring matrix produced by C09's
   conversion chain satisfies the hypotheses of C11 (coq/dist) and of C12 / C13 (coq/tfm), and
   the three groups' exact tails of it are one number (E2EStatBridge). *)
From Coq Require Import List Arith Bool Lia ZArith NArith QArith Qcanon Lqa Permutation.
From LMBase Require Import Res ListX.
From LMPwm Require Import GenComplement PwmModel PwmProofs PwmExact C09.
From LMDist Require DistModel DistInst DistTail DistThms DistStretch DistTotal DistWords DistDyadic C11.
From LMTfm Require TfmNum TfmModel TfmSpec TfmProofs TfmLink C12 C13.
From LME2E Require Import E2EStatBridge E2EStatChain.
Import ListNotations.
Local Open Scope nat_scope.

Module DT := LMDist.DistTail.
Module TM := LMTfm.TfmModel.

(* ---------- Qc -> Q ---------- *)

Definition qv (x : Qc) : Q := this x.
Definition bgQ (bg : list Qc) : list Q := map qv bg.
Definition smQ (sm : list (list xq)) : list (list (option Q)) := map (map (option_map qv)) sm.

Lemma Qsum_fold_right (l : list Qc) : DI.Qsum (bgQ l) = fold_right (fun x s => (this x + s)%Q) 0%Q l.
Proof. induction l as [|x l IH]; simpl; [reflexivity|]. now rewrite IH. Qed.

Lemma Qcsum_bgQ (l : list Qc) : (DI.Qsum (bgQ l) == this (Qcsum l))%Q.
Proof.
  unfold Qcsum. rewrite (Qcsum_this l 0%Qc), Qsum_fold_right. change (this 0%Qc) with 0%Q. ring.
Qed.

Section Background.
  Variables (K : nat) (bg : list Qc).
  Hypothesis HK : 1 <= K.
  Hypothesis Hlen : length bg = K.
  Hypothesis Hrange : Forall (fun f => (Q2Qc 0 <= f)%Qc /\ (f <= Q2Qc 1)%Qc) bg.
  Hypothesis Hsum : Qcsum bg = Q2Qc 1.
  Hypothesis Hwild : nth (K - 1) bg 0%Qc = 0%Qc.

  Lemma bgQ_nonneg : forall b, In b (bgQ bg) -> (0 <= b)%Q.
  Proof.
    intros b Hb. unfold bgQ in Hb. apply in_map_iff in Hb. destruct Hb as (f & <- & Hf).
    rewrite Forall_forall in Hrange. destruct (Hrange f Hf) as (H0 & _). exact H0.
  Qed.

  Lemma bgQ_sum : (DI.Qsum (bgQ bg) == 1)%Q.
  Proof. rewrite Qcsum_bgQ, Hsum. reflexivity. Qed.

  Lemma bg_split : exists b0, bg = b0 ++ [0%Qc] /\ length b0 = K - 1.
  Proof.
    destruct (@exists_last _ bg) as (b0 & bl & E); [intros E; rewrite E in Hlen; simpl in Hlen; lia|].
    assert (Hl0 : length b0 = K - 1) by (rewrite E, app_length in Hlen; simpl in Hlen; lia).
    exists b0. split; [|exact Hl0].
    rewrite E in Hwild. rewrite app_nth2 in Hwild by lia. rewrite Hl0, Nat.sub_diag in Hwild.
    simpl in Hwild. now rewrite E, Hwild.
  Qed.

  Lemma bgQ_last : (last (bgQ bg) 0 == 0)%Q.
  Proof.
    destruct bg_split as (b0 & E & _). rewrite E. unfold bgQ. rewrite map_app. cbn [map].
    rewrite last_last. reflexivity.
  Qed.

  Lemma bgQ_unit : TP.bg_unit (K - 1) (bgQ bg).
  Proof.
    unfold TP.bg_unit. destruct bg_split as (b0 & E & Hl0).
    pose proof bgQ_sum as Hs. rewrite E in *. unfold bgQ in *. rewrite map_app in *. cbn [map] in *.
    rewrite firstn_app_exact by (now rewrite map_length).
    rewrite LMDist.DistConv.Qsum_app in Hs. cbn [DI.Qsum] in Hs. rewrite <- Qsum_same.
    change (qv 0%Qc) with 0%Q in Hs. lra.
  Qed.
End Background.

(* ---------- the scoring matrix of the chain, as option Q ---------- *)

Lemma Forall_removelast {A} (P : A -> Prop) (d : A) (row : list A) :
  (forall k, k < length row - 1 -> P (nth k row d)) -> Forall P (removelast row).
Proof.
  intros H. destruct row as [|x r]; [constructor|].
  destruct (@exists_last _ (x :: r)) as (l & w & E); [discriminate|]. rewrite E in *.
  rewrite removelast_app1. apply Forall_forall. intros y Hy.
  destruct (In_nth _ _ d Hy) as (k & Hk & <-). rewrite <- (app_nth1 l [w] d Hk).
  apply H. rewrite app_length. simpl. lia.
Qed.

Lemma build_stage_a m bg d : DMo.build DI.QOps m bg = Ok d ->
  exists offset scale, DMo.stage_a DI.QOps m = Ok (offset, scale).
Proof.
  unfold DMo.build. destruct (negb _); [discriminate|].
  destruct (DMo.stage_a DI.QOps m) as [[o s]| | |]; cbn [rbind]; try discriminate. eauto.
Qed.

Section Pipeline.
  Variables flog2 flog10 fln : xq -> xq.
  Hypothesis Hlog0 : flog2 (Some 0%Qc) = None.
  Hypothesis Hlogpos : forall x : Qc, (0 < x)%Qc -> flog2 (Some x) <> None.

  Variables (K : nat) (pseudo bg : list Qc) (counts : list (list N)).
  Hypothesis HK : 2 <= K.
  Hypothesis Hp : length pseudo = K.
  Hypothesis Hb : length bg = K.
  Hypothesis Hc : Forall (fun r : list N => length r = K) counts.
  Hypothesis Hps : Forall (fun p => (0 <= p)%Qc) pseudo.
  Hypothesis Hpp : forall k, k < K - 1 -> (0 < nth k pseudo 0)%Qc.
  Hypothesis Hrange : Forall (fun f => (Q2Qc 0 <= f)%Qc /\ (f <= Q2Qc 1)%Qc) bg.
  Hypothesis Hsum : Qcsum bg = Q2Qc 1.
  Hypothesis Hbpos : forall k, k < K - 1 -> (0 < nth k bg 0)%Qc.
  Hypothesis Hwild : nth (K - 1) bg 0%Qc = 0%Qc.

  Set Default Proof Using "All".

  Definition sm : list (list (option Q)) := smQ (chain flog2 flog10 fln pseudo bg counts).

  Lemma sm_shape : length sm = length counts /\ Forall (fun r : list (option Q) => length r = K) sm.
  Proof.
    destruct (chain_shape flog2 flog10 fln K pseudo bg counts Hp Hb Hc) as (H1 & H2).
    unfold sm, smQ. rewrite map_length. split; [exact H1|].
    apply Forall_map. eapply Forall_impl; [|exact H2]. intros r Hr. now rewrite map_length.
  Qed.

  Lemma sm_cell i k : i < length counts -> k < K ->
    nth k (nth i sm []) None = option_map qv (nth k (nth i (chain flog2 flog10 fln pseudo bg counts) []) None).
  Proof.
    intros Hi Hk. destruct (chain_shape flog2 flog10 fln K pseudo bg counts Hp Hb Hc) as (H1 & H2).
    unfold sm, smQ.
    rewrite (nth_indep _ [] (map (option_map qv) [])) by (rewrite map_length; rewrite <- H1 in Hi; exact Hi).
    rewrite map_nth.
    change (@None Q) with (option_map qv None). now rewrite map_nth.
  Qed.

  (* finite symbol cells, -inf wildcard column *)
  Lemma sm_cells i k : i < length counts ->
    (k < K - 1 -> nth k (nth i sm []) None <> None) /\
    nth (K - 1) (nth i sm []) None = None.
  Proof.
    intros Hi. split.
    - intros Hk. rewrite sm_cell by lia.
      destruct (chain_cells flog2 flog10 fln Hlog0 Hlogpos K pseudo bg counts i k Hp Hb Hc Hi ltac:(lia) Hps)
        as (_ & Hfin & _).
      specialize (Hfin (Hpp k Hk) (Hbpos k Hk)).
      destruct (nth k (nth i (chain flog2 flog10 fln pseudo bg counts) []) None); [discriminate|congruence].
    - rewrite sm_cell by lia.
      destruct (chain_cells flog2 flog10 fln Hlog0 Hlogpos K pseudo bg counts i (K - 1) Hp Hb Hc Hi ltac:(lia) Hps)
        as (_ & _ & Hninf).
      now rewrite (Hninf Hwild).
  Qed.

  Lemma sm_sym_finite : sym_finite K sm.
  Proof.
    destruct sm_shape as (Hl & Hr). unfold sym_finite. apply Forall_forall. intros row Hin.
    rewrite Forall_forall in Hr. split; [now apply Hr|].
    destruct (In_nth _ _ [] Hin) as (i & Hi & <-). rewrite Hl in Hi.
    apply (Forall_removelast _ None). intros k Hk.
    rewrite (Hr (nth i sm [])) in Hk by (apply nth_In; lia).
    exact (proj1 (sm_cells i k Hi) Hk).
  Qed.

  (* tfm's hypothesis *)
  Lemma chain_matrix_ok : TP.matrix_ok K (trows sm) (bgQ bg).
  Proof.
    destruct sm_shape as (Hl & Hr). unfold TP.matrix_ok. split; [exact HK|]. split.
    - unfold trows. apply Forall_map. eapply Forall_impl; [|exact Hr]. intros r E. now rewrite map_length.
    - split; [unfold bgQ; now rewrite map_length|]. split; [exact (bgQ_nonneg bg Hrange)|]. split.
      + apply (bgQ_unit K bg); auto; lia.
      + apply (bgQ_last K bg); auto; lia.
  Qed.

  (* dist's hypotheses *)
  Lemma chain_bg_dist : DT.bg_nonneg (bgQ bg) /\ (DI.Qsum (bgQ bg) <= 1)%Q.
  Proof.
    split.
    - unfold DT.bg_nonneg. apply Forall_forall. exact (bgQ_nonneg bg Hrange).
    - rewrite (bgQ_sum bg Hsum). apply Qle_refl.
  Qed.

  Lemma chain_build : 1 <= length counts ->
    exists d offset scale,
      DMo.build DI.QOps (dmat sm) (bgQ bg) = Ok d /\ DMo.stage_a DI.QOps (dmat sm) = Ok (offset, scale).
  Proof.
    intros HM. destruct sm_shape as (Hl & Hr).
    destruct (LMDist.DistTotal.build_Q_total (dmat sm) (bgQ bg)) as (d & Hd).
    - unfold dmat. apply Forall_map. eapply Forall_impl; [|exact Hr]. intros r E.
      unfold bgQ. now rewrite !map_length, E.
    - (* the first cell of the first row is finite *)
      destruct sm as [|row rest] eqn:Esm; [simpl in Hl; lia|].
      assert (H0c : 0 < length counts) by lia. assert (H0k : 0 < K - 1) by lia.
      pose proof (proj1 (sm_cells 0 0 H0c) H0k) as Hc0. rewrite Esm in Hc0. cbn [nth] in Hc0.
      destruct row as [|c row]; [simpl in Hc0; congruence|]. simpl in Hc0.
      destruct c as [q|]; [|congruence].
      cbn [dmat map DMo.finite_cells flat_map ocellD DMo.keep_cell DI.QOps DMo.n_is_inf app]. discriminate.
    - destruct (build_stage_a _ _ _ Hd) as (offset & scale & Hs). exists d, offset, scale. split; assumption.
  Qed.

  (* the three exact tails of the chain's matrix are one number *)
  Lemma chain_tails t :
    (tail_c01 K sm (bgQ bg) t == DI.tail_exact (dmat sm) (bgQ bg) t)%Q /\
    (DI.tail_exact (dmat sm) (bgQ bg) t == TL.Ptail (trows sm) (bgQ bg) t)%Q.
  Proof.
    apply (tails_agree K sm (bgQ bg) t); [lia|exact sm_sym_finite| |].
    - unfold bgQ. now rewrite map_length.
    - apply (bgQ_last K bg); auto; lia.
  Qed.

  Lemma sm_lengths : length (dmat sm) = length counts /\ length (trows sm) = length counts.
  Proof. destruct sm_shape as (Hl & _). unfold dmat, trows. now rewrite !map_length. Qed.

  (* MEME-style p-value (C11) of the chain's matrix *)
  Lemma chain_meme_brackets d offset scale s p :
    DMo.build DI.QOps (dmat sm) (bgQ bg) = Ok d -> DMo.stage_a DI.QOps (dmat sm) = Ok (offset, scale) ->
    (Z.of_nat (length counts) * 1000 < DMo.i32_max)%Z ->
    DMo.d_pvalue DI.QOps d s = Ok p ->
    let dd := ((inject_Z (Z.of_nat (length counts)) / 2 + 1) / scale)%Q in
    (tail_c01 K sm (bgQ bg) (s + dd) <= p)%Q /\ (p <= tail_c01 K sm (bgQ bg) (s - dd))%Q.
  Proof.
    intros Hd Hs Hlen Hpv dd. destruct chain_bg_dist as (Hnn & Hle). destruct sm_lengths as (Hl1 & _).
    pose proof (LMDist.C11.C11_pvalue_brackets_exact (dmat sm) (bgQ bg) d offset scale s p Hnn Hle Hd Hs
                  ltac:(rewrite Hl1; exact Hlen) Hpv) as H.
    cbv zeta in H. rewrite Hl1 in H. fold dd in H.
    rewrite (proj1 (chain_tails (s + dd)%Q)), (proj1 (chain_tails (s - dd)%Q)). exact H.
  Qed.

  (* TFM-PVALUE p-value (C12) of the same matrix, same background *)
  Lemma chain_tfm_brackets perm s g steps it :
    2 <= length counts -> Permutation perm (seq 0 (length counts)) -> (0 < g)%Q ->
    last (TM.pv_run LMTfm.TfmNum.NumQ steps (trows sm) perm (bgQ bg) s g) (Panic 0) = Ok it ->
    TM.io_conv it = true ->
    let M := inject_Z (Z.of_nat (length counts)) in
    let gi := TM.io_gran it in
    (0 < gi)%Q /\ (gi <= g)%Q /\ (0 <= TM.io_start it <= 1)%Q /\
    (tail_c01 K sm (bgQ bg) (s + (M + 1) * gi) <= TM.io_start it)%Q /\
    (TM.io_start it <= tail_c01 K sm (bgQ bg) (s - (M + 2) * gi))%Q.
  Proof.
    intros HM Hperm Hg Hlast Hconv M gi. destruct sm_lengths as (_ & Hl2).
    pose proof (LMTfm.C12.C12_pvalue_final_bounds (trows sm) perm (bgQ bg) K s g steps it chain_matrix_ok
                  ltac:(rewrite Hl2; exact HM) ltac:(rewrite Hl2; exact Hperm) Hg Hlast Hconv) as H.
    cbv zeta in H. rewrite Hl2 in H. fold M gi in H.
    destruct H as (H1 & H2 & _ & H3 & H4 & H5).
    split; [exact H1|]. split; [exact H2|]. split; [exact H3|].
    destruct (chain_tails (s + (M + 1) * gi)%Q) as (E1 & E2).
    destruct (chain_tails (s - (M + 2) * gi)%Q) as (E3 & E4).
    rewrite E1, E2, E3, E4. split; assumption.
  Qed.

  (* both methods bracket the SAME exact tail: explicit bound on their difference *)
  Lemma chain_methods_agree d offset scale perm s g steps it p :
    DMo.build DI.QOps (dmat sm) (bgQ bg) = Ok d -> DMo.stage_a DI.QOps (dmat sm) = Ok (offset, scale) ->
    (Z.of_nat (length counts) * 1000 < DMo.i32_max)%Z ->
    DMo.d_pvalue DI.QOps d s = Ok p ->
    2 <= length counts -> Permutation perm (seq 0 (length counts)) -> (0 < g)%Q ->
    last (TM.pv_run LMTfm.TfmNum.NumQ steps (trows sm) perm (bgQ bg) s g) (Panic 0) = Ok it ->
    TM.io_conv it = true ->
    let T := tail_c01 K sm (bgQ bg) in
    let M := inject_Z (Z.of_nat (length counts)) in
    let dd := ((M / 2 + 1) / scale)%Q in
    let gi := TM.io_gran it in
    (p - TM.io_start it <= T (s - dd) - T (s + (M + 1) * gi))%Q /\
    (TM.io_start it - p <= T (s - (M + 2) * gi) - T (s + dd))%Q.
  Proof.
    intros Hd Hs Hlen Hpv HM Hperm Hg Hlast Hconv T M dd gi.
    destruct (chain_meme_brackets d offset scale s p Hd Hs Hlen Hpv) as (A1 & A2).
    destruct (chain_tfm_brackets perm s g steps it HM Hperm Hg Hlast Hconv) as (_ & _ & _ & B1 & B2).
    fold M in A1, A2, B1, B2. fold dd in A1, A2. fold gi in B1, B2. fold T in A1, A2, B1, B2.
    split; lra.
  Qed.

  (* TFM-PVALUE threshold (C13) for a p-value, on the same matrix *)
  Lemma chain_tfm_score perm p steps win it :
    2 <= length counts -> Permutation perm (seq 0 (length counts)) ->
    (0 < p)%Q -> (p <= 1)%Q ->
    TM.score_window0 LMTfm.TfmNum.NumQ (trows sm) perm = Ok win ->
    In (Ok it) (TM.sc_run LMTfm.TfmNum.NumQ steps (trows sm) perm (bgQ bg) p (1 # 10) win) ->
    let M := inject_Z (Z.of_nat (length counts)) in
    let gi := TM.io_gran it in
    let t := TM.io_score it in
    let d := ((M + 2) * gi)%Q in
    (0 < gi)%Q /\ (gi <= 1 # 10)%Q /\
    (tail_c01 K sm (bgQ bg) (t + d) <= p)%Q /\
    (forall l, TS.attain l (TS.srows (TL.sym_cells (trows sm)) (bgQ bg)) -> (TS.Qsum l < t - d)%Q ->
               (p <= tail_c01 K sm (bgQ bg) (TS.Qsum l - d))%Q).
  Proof.
    intros HM Hperm Hp0 Hp1 Hwin Hin M gi t d. destruct sm_lengths as (_ & Hl2).
    pose proof (LMTfm.C13.C13_approximate_score_bounds steps (trows sm) perm (bgQ bg) K p win it chain_matrix_ok
                  ltac:(rewrite Hl2; exact HM) ltac:(rewrite Hl2; exact Hperm) Hp0 Hp1 Hwin Hin) as H.
    cbv zeta in H. rewrite Hl2 in H. fold M gi t d in H.
    destruct H as (H1 & H2 & H3 & H4). split; [exact H1|]. split; [exact H2|]. split.
    - destruct (chain_tails (t + d)%Q) as (E1 & E2). rewrite E1, E2. exact H3.
    - intros l Hl Hlt. destruct (chain_tails (TS.Qsum l - d)%Q) as (E1 & E2). rewrite E1, E2. now apply H4.
  Qed.
End Pipeline.
Unset Default Proof Using.

(* Pseudocounts::from(c), c > 0, satisfies the pseudocount hypotheses *)
Lemma pseudo_scalar_ok (K : nat) (c : Qc) : (0 < c)%Qc ->
  length (pseudo_scalar Qcops K c) = K /\
  Forall (fun p => (0 <= p)%Qc) (pseudo_scalar Qcops K c) /\
  (forall k, k < K - 1 -> (0 < nth k (pseudo_scalar Qcops K c) 0)%Qc).
Proof.
  intros Hc. unfold pseudo_scalar, wildcard. split; [now rewrite map_length, seq_length|]. split.
  - apply Forall_forall. intros p Hp. apply in_map_iff in Hp. destruct Hp as (i & <- & _).
    destruct (i =? K - 1); [apply Qcle_refl|apply Qclt_le_weak; exact Hc].
  - intros k Hk.
    rewrite (nth_indep _ 0%Qc ((fun i => if i =? K - 1 then n_zero Qcops else c) 0))
      by (rewrite map_length, seq_length; lia).
    rewrite (map_nth (fun i => if i =? K - 1 then n_zero Qcops else c) (seq 0 K) 0 k).
    rewrite seq_nth by lia. simpl. destruct (Nat.eqb_spec k (K - 1)); [lia|exact Hc].
Qed.
