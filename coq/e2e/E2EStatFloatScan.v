(* The p-value thresholds of E2EStatScan.v with the two link hypotheses DISCHARGED (E2EStatFloat.v) and
   the hit list taken from the scanning pipeline itself (E2EProofs.text_to_hits):
   text -> encode -> stripe -> configure -> Scanner (binary32, u8 prefilter) on one side,
   binary32 matrix read as rationals -> MEME-style table / TFM-PVALUE threshold (exact) on the other. *)
From Coq Require Import List Arith Bool Lia ZArith QArith Qabs Lqa Permutation.
From Coq.Strings Require Import Byte.
From LMBase Require Import Res ListX IEEE.
From LMScore Require ScoreModel ScoreProofs.
From LMEncode Require EncodeModel GenAbc EncodeProofs.
From LMDist Require DistModel DistInst DistTail C11.
From LMTfm Require TfmNum TfmModel TfmSpec TfmProofs TfmLink C13.
From LME2E Require E2EStatProofs.
From LMStripe Require StripeModel StripeSpec StripeAvx2.
From LMScan Require Import ScanModel ScanConcrete.
From LMScan Require DiscBridge.
From LME2E Require Import E2EBridgeEncode E2EPipeline E2EProofs.
From LME2E Require Import E2EStatBridge E2EStatScan E2EStatMeme E2EStatFloat.
Import ListNotations.
Local Open Scope nat_scope.

Module EMo := LMEncode.EncodeModel.
Module GAb := LMEncode.GenAbc.

(* ---------- the symbols of a text without the wildcard letter ---------- *)

Fixpoint nodupb (l : list byte) : bool :=
  match l with [] => true | x :: r => negb (existsb (Byte.eqb x) r) && nodupb r end.

Lemma nodupb_sound (l : list byte) : nodupb l = true -> NoDup l.
Proof.
  induction l as [|x r IH]; intros H; [constructor|].
  cbn [nodupb] in H. apply andb_true_iff in H. destruct H as (H1 & H2).
  constructor; [|now apply IH]. intros Hin. apply negb_true_iff in H1.
  assert (existsb (Byte.eqb x) r = true) by (apply existsb_exists; exists x; split; [exact Hin|now apply Byte.byte_dec_lb]).
  congruence.
Qed.

Lemma abc_str_nodup (A : EMo.abc) : A = GAb.dna \/ A = GAb.protein ->
  NoDup (EMo.a_str A) /\ length (EMo.a_str A) = EMo.a_K A /\ 2 <= EMo.a_K A.
Proof.
  intros [->| ->]; (split; [apply nodupb_sound; vm_compute; reflexivity|split; [reflexivity|cbn; lia]]).
Qed.

Lemma nth_error_removelast {T} (l : list T) (y : nat) (b : T) :
  nth_error (removelast l) y = Some b -> nth_error l y = Some b /\ y < length l - 1.
Proof.
  intros H. destruct (@exists_last _ l) as (l' & w & ->).
  { intros ->. destruct y; discriminate. }
  rewrite removelast_app1 in H. assert (Hy : y < length l') by (apply nth_error_Some; congruence).
  rewrite nth_error_app1 by exact Hy. rewrite app_length. cbn [length]. split; [exact H|lia].
Qed.

(* letters other than the wildcard (the last letter of the alphabet string) *)
Definition no_wild (A : EMo.abc) (b : byte) : Prop := In b (removelast (EMo.a_str A)).

Lemma no_wild_in_abc A b : no_wild A b -> LMEncode.EncodeProofs.in_abc A b.
Proof.
  unfold no_wild, LMEncode.EncodeProofs.in_abc. intros H.
  destruct (In_nth_error _ _ H) as (y & Hy). apply nth_error_removelast in Hy. eapply nth_error_In. exact (proj1 Hy).
Qed.

Lemma syms_no_wild (A : EMo.abc) (text : list byte) (sq : list nat) :
  A = GAb.dna \/ A = GAb.protein -> Forall (no_wild A) text -> length sq = length text ->
  (forall i b, nth_error text i = Some b ->
     exists x, nth_error sq i = Some x /\ nth_error (EMo.a_str A) x = Some b) ->
  Forall (fun a => a < EMo.a_K A - 1) sq.
Proof.
  intros HA Ht Hl Hsym. destruct (abc_str_nodup A HA) as (Hnd & Hlen & _).
  apply Forall_forall. intros a Ha. destruct (In_nth_error _ _ Ha) as (i & Hi).
  assert (Hlt : i < length text) by (rewrite <- Hl; apply nth_error_Some; congruence).
  destruct (nth_error text i) as [b|] eqn:Eb; [|apply nth_error_None in Eb; lia].
  destruct (Hsym i b Eb) as (x & Hx & Hxb). rewrite Hi in Hx. inversion Hx; subst x.
  rewrite Forall_forall in Ht. pose proof (Ht b (nth_error_In _ _ Eb)) as Hb.
  destruct (In_nth_error _ _ Hb) as (y & Hy). apply nth_error_removelast in Hy. destruct Hy as (Hy & Hylt).
  assert (a = y).
  { apply (proj1 (NoDup_nth_error (EMo.a_str A)) Hnd); [apply nth_error_Some; congruence|congruence]. }
  subst y. rewrite <- Hlen. exact Hylt.
Qed.

(* ---------- the score of a window, as E2EStatScan states it, is the score of the position ---------- *)

Lemma score_window (K : nat) (sm : list (list (option Q))) (sq : list nat) (i : nat) :
  i + length sm <= length sq ->
  score_c01 K sm (window (length sm) i sq) = SCO.score_def oadd (Some 0%Q) (K - 1) sm sq i.
Proof.
  intros Hi. unfold score_c01, SCO.score_def, SCO.score_terms. f_equal.
  apply LMScore.ScoreProofs.terms_from_shift. intros j Hj. unfold window.
  rewrite LMScore.ScoreProofs.nth_firstn_lt by lia. rewrite LMScore.ScoreProofs.nth_skipn. reflexivity.
Qed.

(* ---------- L1 and L2 for the binary32 scores of a wildcard-free text ---------- *)

Section Links.
  Variables (K : nat) (pssm : list (list F32.t)) (sq : list nat) (thr : F32.t).
  Hypothesis Hp : sym_fin32 K pssm.
  Hypothesis Hno : no_overflow K pssm = true.
  Hypothesis Hsq : Forall (fun a => a < K - 1) sq.
  Hypothesis Hthr : F32.is_finite thr = true.

  Let sd32 (i : nat) : F32.t := SCO.score_def F32.add F32.zero (K - 1) pssm sq i.
  Let M := length (qmat pssm).

  Lemma qmat_length : length (qmat pssm) = length pssm.
  Proof. unfold qmat. now rewrite map_length. Qed.

  Lemma window_syms i : i + M <= length sq -> forall j, j < length pssm -> nth (i + j) sq (K - 1) < K - 1.
  Proof.
    intros Hi j Hj. unfold M in Hi. rewrite qmat_length in Hi. rewrite Forall_forall in Hsq. apply Hsq. apply nth_In. lia.
  Qed.

  Lemma link_L1 i : i + M <= length sq -> (F32.ge (sd32 i) thr = true <-> (valQ thr <= valQ (sd32 i))%Q).
  Proof.
    intros Hi. destruct (fscore_error K pssm sq i Hp Hno (window_syms i Hi)) as (Hfin & _).
    apply ge_valQ; [exact Hfin|exact Hthr].
  Qed.

  Lemma link_L2 i s : i + M <= length sq -> score_c01 K (qmat pssm) (window M i sq) = Some s ->
    (Qabs (valQ (sd32 i) - s) <= eps_f32 K pssm)%Q.
  Proof.
    intros Hi Es. destruct (fscore_error K pssm sq i Hp Hno (window_syms i Hi)) as (_ & q & Eq & Hq).
    unfold M in Es. rewrite (score_window K (qmat pssm) sq i Hi) in Es. rewrite Eq in Es. inversion Es; subst s. exact Hq.
  Qed.
End Links.

(* ---------- the thresholds, for a finite binary32 threshold within eta of the exact one ---------- *)

Section FloatThreshold.
  Variables (K : nat) (pssm : list (list F32.t)) (bg : list Q).
  Hypothesis HK : 2 <= K.
  Hypothesis Hp : sym_fin32 K pssm.
  Hypothesis Hno : no_overflow K pssm = true.
  Hypothesis Hbg : length bg = K.
  Hypothesis Hlast : (last bg 0 == 0)%Q.
  Hypothesis Hnn : forall b, In b bg -> (0 <= b)%Q.

  Variables (sq : list nat) (thr : F32.t) (H : list (nat * F32.t)).
  Hypothesis Hsq : Forall (fun a => a < K - 1) sq.
  Hypothesis Hthr : F32.is_finite thr = true.
  Let S := qmat pssm.
  Let M := length S.
  Hypothesis Hhits : forall i x, In (i, x) H <->
    i + M <= length sq /\
    F32.ge (SCO.score_def F32.add F32.zero (K - 1) pssm sq i) thr = true /\
    x = SCO.score_def F32.add F32.zero (K - 1) pssm sq i.

  Let T := tail_c01 K S bg.
  Let eps := eps_f32 K pssm.

  Lemma S_sym_finite : sym_finite K S.
  Proof. apply qmat_sym_finite; [lia|exact Hp]. Qed.

  (* a threshold thr within eta of an exact tq with T(tq + dd) <= p *)
  Lemma float_hits (p tq eta dd : Q) :
    (Qabs (valQ thr - tq) <= eta)%Q -> (T (tq + dd) <= p)%Q ->
    (forall i x, In (i, x) H ->
       exists s, score_c01 K S (window M i sq) = Some s /\ (tq - eta - eps <= s)%Q /\ (T (s + eps + eta + dd) <= p)%Q) /\
    (forall i, i + M <= length sq -> (forall x, ~ In (i, x) H) ->
       exists s, score_c01 K S (window M i sq) = Some s /\ (s < tq + eta + eps)%Q).
  Proof.
    intros Heta Hthrp. apply Qabs_Qle_condition in Heta.
    assert (Hslack : (T (valQ thr + (eta + dd)) <= p)%Q).
    { eapply Qle_trans; [|exact Hthrp]. unfold T. apply tail_c01_antitone; auto; [lia|exact S_sym_finite|lra]. }
    split.
    - intros i x Hin.
      destruct (hits_tail K S bg HK S_sym_finite Hbg Hlast Hnn sq _ thr H Hhits Hsq valQ (valQ thr) eps
                  (link_L1 K pssm sq thr Hp Hno Hsq Hthr) (link_L2 K pssm sq Hp Hno Hsq) p (eta + dd) Hslack i x Hin)
        as (s & Es & H1 & H2).
      exists s. split; [exact Es|]. split; [lra|].
      eapply Qle_trans; [|exact H2]. unfold T. apply tail_c01_antitone; auto; [lia|exact S_sym_finite|lra].
    - intros i Hi Hnot.
      destruct (rejected_below K S bg HK S_sym_finite Hbg sq _ thr H Hhits Hsq valQ (valQ thr) eps
                  (link_L1 K pssm sq thr Hp Hno Hsq Hthr) (link_L2 K pssm sq Hp Hno Hsq) i Hi Hnot)
        as (s & Es & H1).
      exists s. split; [exact Es|lra].
  Qed.

  (* ... and, for TFM-PVALUE's second clause: attainable scores more than d below tq have tail >= p *)
  Lemma float_rejected_tfm (p tq eta d : Q) :
    (Qabs (valQ thr - tq) <= eta)%Q ->
    (forall l, TS.attain l (TS.srows (TL.sym_cells (trows S)) bg) -> (TS.Qsum l < tq - d)%Q -> (p <= T (TS.Qsum l - d))%Q) ->
    forall i, i + M <= length sq -> (forall x, ~ In (i, x) H) ->
      exists s, score_c01 K S (window M i sq) = Some s /\ (s < tq + eta + eps)%Q /\
                ((s < tq - d)%Q -> (p <= T (s - d))%Q).
  Proof.
    intros Heta Hc2 i Hi Hnot. apply Qabs_Qle_condition in Heta.
    destruct (rejected_below K S bg HK S_sym_finite Hbg sq _ thr H Hhits Hsq valQ (valQ thr) eps
                (link_L1 K pssm sq thr Hp Hno Hsq Hthr) (link_L2 K pssm sq Hp Hno Hsq) i Hi Hnot)
      as (s & Es & H1).
    exists s. split; [exact Es|]. split; [lra|]. intros Hs.
    destruct (window_score K S bg HK S_sym_finite Hbg sq Hsq i Hi) as (l & s' & Hatt & Es' & Hq).
    pose proof (eq_trans (eq_sym Es) Es') as Ess. inversion Ess; subst s'.
    assert (Hl : (TS.Qsum l < tq - d)%Q) by (rewrite <- Hq; exact Hs).
    pose proof (Hc2 l Hatt Hl) as Hpl.
    eapply Qle_trans; [exact Hpl|]. unfold T. apply tail_c01_antitone; auto; [lia|exact S_sym_finite|]. rewrite Hq. lra.
  Qed.
End FloatThreshold.

(* ---------- the hit list of the scanning pipeline on a wildcard-free text ---------- *)

Lemma finite_nonwild_sym_fin32 (K : nat) (pssm : list (list F32.t)) :
  Forall (fun row : list F32.t => length row = K) pssm -> LMScan.DiscBridge.finite_nonwild K pssm -> sym_fin32 K pssm.
Proof.
  intros Hr Hf. unfold sym_fin32, LMScan.DiscBridge.finite_nonwild in *.
  rewrite Forall_forall in *. intros row Hin. split; [now apply Hr|exact (Hf row Hin)].
Qed.

Lemma text_hits_nowild (A : EM.abc) (C : nat) (p : EI.pipeline) (junk : nat -> EM.sym) (text : list byte)
      (be : SA.backend) (old : SM.sseq) (pssm : list (list F32.t)) (am : arm) (thr : F32.t) (B : nat) :
  A = GA.dna \/ A = GA.protein ->
  1 <= C -> SA.backend_typed C be = true -> SS.wf_matrix C (SM.mat old) ->
  Forall (no_wild A) text ->
  1 <= length pssm -> Forall (fun row : list F32.t => length row = EM.a_K A) pssm ->
  e2e_wc (EM.a_K A) pssm = true -> 1 <= B ->
  exists (sq : list nat) (H : list (nat * F32.t)),
    encode_nat p A junk text = Ok sq /\ length sq = length text /\
    e2e_scan A C p junk text be old pssm am thr B = Ok H /\ NoDup (map fst H) /\
    Forall (fun a => a < EM.a_K A - 1) sq /\ sym_fin32 (EM.a_K A) pssm /\
    (forall i x, In (i, x) H <->
       i + length (qmat pssm) <= length sq /\
       F32.ge (SCO.score_def F32.add F32.zero (EM.a_K A - 1) pssm sq i) thr = true /\
       x = SCO.score_def F32.add F32.zero (EM.a_K A - 1) pssm sq i).
Proof.
  intros HA HC Hbe Hold Htext HM Hrows Hwc HB.
  assert (Htext' : Forall (LMEncode.EncodeProofs.in_abc A) text)
    by (eapply Forall_impl; [|exact Htext]; intros b; apply no_wild_in_abc).
  destruct (text_to_hits A C p junk text be old pssm HA HC Hbe Hold Htext' HM Hrows
              (e2e_wc_finite _ _ Hwc) (c08_main_clause_wc _ _ Hwc) am thr B HB)
    as (sq & H & H1 & H2 & H3 & H4 & H5 & H6).
  exists sq, H. split; [exact H1|]. split; [exact H2|]. split; [exact H4|]. split; [exact H6|].
  split; [exact (syms_no_wild A text sq HA Htext H2 H3)|].
  split; [exact (finite_nonwild_sym_fin32 _ _ Hrows (e2e_wc_finite _ _ Hwc))|].
  rewrite qmat_length. exact H5.
Qed.

Module DT := LMDist.DistTail.
Module TM := LMTfm.TfmModel.

(* ---------- the two composed statements (E2EStat.stat_threshold_scan_meme / _tfm) ---------- *)

Lemma text_threshold_meme :
  forall (A : EM.abc) (C : nat) (p : EI.pipeline) (junk : nat -> EM.sym) (text : list byte)
         (be : SA.backend) (old : SM.sseq) (pssm : list (list F32.t)) (am : arm) (thr : F32.t) (B : nat)
         (bg : list Q) d offset scale (pv tq eta : Q),
    A = GA.dna \/ A = GA.protein ->
    1 <= C -> SA.backend_typed C be = true -> SS.wf_matrix C (SM.mat old) ->
    Forall (no_wild A) text ->
    1 <= length pssm -> Forall (fun row : list F32.t => length row = EM.a_K A) pssm ->
    e2e_wc (EM.a_K A) pssm = true -> no_overflow (EM.a_K A) pssm = true -> 1 <= B ->
    F32.is_finite thr = true -> (Qabs (valQ thr - tq) <= eta)%Q ->
    length bg = EM.a_K A -> (last bg 0 == 0)%Q -> DT.bg_nonneg bg -> (DI.Qsum bg <= 1)%Q ->
    DMo.build DI.QOps (dmat (qmat pssm)) bg = Ok d -> DMo.stage_a DI.QOps (dmat (qmat pssm)) = Ok (offset, scale) ->
    (Z.of_nat (length pssm) * 1000 < DMo.i32_max)%Z ->
    (0 < pv)%Q -> (pv < 1)%Q -> DMo.d_score DI.QOps d pv = Ok tq ->
    let K := EM.a_K A in
    let S := qmat pssm in
    let M := length pssm in
    let eps := (eps_f32 K pssm + eta)%Q in
    let dd := ((inject_Z (Z.of_nat M) / 2 + 1) / scale)%Q in
    exists (sq : list nat) (H : list (nat * F32.t)),
      encode_nat p A junk text = Ok sq /\ length sq = length text /\
      e2e_scan A C p junk text be old pssm am thr B = Ok H /\ NoDup (map fst H) /\
      (forall i x, In (i, x) H ->
         i + M <= length sq /\
         exists s, score_c01 K S (window M i sq) = Some s /\ (tq - eps <= s)%Q /\
                   (tail_c01 K S bg (s + eps + dd) <= pv)%Q) /\
      (forall i, i + M <= length sq -> (forall x, ~ In (i, x) H) ->
         exists s, score_c01 K S (window M i sq) = Some s /\ (s < tq + eps)%Q) /\
      ((tq == inject_Z (Z.of_nat M) * offset)%Q \/
       forall u, (u <= tq - 1 / scale - dd)%Q -> (pv <= tail_c01 K S bg u)%Q).
Proof.
  intros A C p junk text be old pssm am thr B bg d offset scale pv tq eta HA HC Hbe Hold Htext HM Hrows Hwc Hno HB
         Hthr Heta Hbg Hlast Hnn Hle Hd Hs Hlen Hp0 Hp1 Ht K S M eps dd.
  destruct (text_hits_nowild A C p junk text be old pssm am thr B HA HC Hbe Hold Htext HM Hrows Hwc HB)
    as (sq & H & H1 & H2 & H3 & H4 & Hsq & Hfin & Hhits).
  destruct (abc_str_nodup A HA) as (_ & _ & HK).
  assert (Hl : length (qmat pssm) = length pssm) by apply qmat_length.
  assert (HrowsQ : Forall (fun row : list (option Q) => length row = K) S).
  { pose proof (qmat_sym_finite K pssm ltac:(unfold K; lia) Hfin) as Hsf.
    eapply Forall_impl; [|exact Hsf]. intros r (E & _). exact E. }
  assert (Hnn' : forall b, In b bg -> (0 <= b)%Q)
    by (intros b Hb; unfold DT.bg_nonneg in Hnn; rewrite Forall_forall in Hnn; auto).
  pose proof (meme_threshold K S bg d offset scale pv tq HrowsQ Hbg Hnn Hle Hd Hs
                ltac:(unfold S; rewrite Hl; exact Hlen) Hp0 Hp1 Ht) as Hthrp.
  cbv zeta in Hthrp. unfold S in Hthrp. rewrite Hl in Hthrp. fold M dd S in Hthrp.
  destruct (float_hits K pssm bg HK Hfin Hno Hbg Hlast Hnn' sq thr H Hsq Hthr Hhits pv tq eta dd Heta Hthrp) as (F1 & F2).
  rewrite Hl in F1, F2. fold S M in F1, F2.
  exists sq, H. split; [exact H1|]. split; [exact H2|]. split; [exact H3|]. split; [exact H4|]. split.
  - intros i x Hin. split; [apply Hhits in Hin; rewrite Hl in Hin; exact (proj1 Hin)|].
    destruct (F1 i x Hin) as (s & Es & G1 & G2). exists s. split; [exact Es|]. unfold eps. split; [lra|].
    eapply Qle_trans; [|exact G2]. apply tail_c01_antitone; auto; [lia|apply qmat_sym_finite; [lia|exact Hfin]|lra].
  - split.
    + intros i Hi Hnot. destruct (F2 i Hi Hnot) as (s & Es & G). exists s. split; [exact Es|]. unfold eps. lra.
    + assert (HlenD : length (dmat S) = M) by (unfold dmat, S; rewrite map_length; exact Hl).
      destruct (score_minimal_tail (dmat S) bg d offset scale pv tq Hnn Hle Hd Hs
                  ltac:(rewrite HlenD; exact Hlen) Hp0 Hp1 Ht) as [E|Hmin].
      * left. rewrite HlenD in E. exact E.
      * right. intros u Hu. cbv zeta in Hmin. rewrite HlenD in Hmin. fold dd in Hmin.
        rewrite <- (tail_c01_dist K S bg _ HrowsQ Hbg) in Hmin.
        eapply Qle_trans; [exact Hmin|].
        apply tail_c01_antitone; [lia|apply qmat_sym_finite; [lia|exact Hfin]|exact Hbg|exact Hlast|exact Hnn'|exact Hu].
Qed.

Lemma text_threshold_tfm :
  forall (A : EM.abc) (C : nat) (p : EI.pipeline) (junk : nat -> EM.sym) (text : list byte)
         (be : SA.backend) (old : SM.sseq) (pssm : list (list F32.t)) (am : arm) (thr : F32.t) (B : nat)
         (bg : list Q) perm (pv : Q) steps win it (eta : Q),
    A = GA.dna \/ A = GA.protein ->
    1 <= C -> SA.backend_typed C be = true -> SS.wf_matrix C (SM.mat old) ->
    Forall (no_wild A) text ->
    2 <= length pssm -> Forall (fun row : list F32.t => length row = EM.a_K A) pssm ->
    e2e_wc (EM.a_K A) pssm = true -> no_overflow (EM.a_K A) pssm = true -> 1 <= B ->
    TP.matrix_ok (EM.a_K A) (trows (qmat pssm)) bg ->
    Permutation perm (seq 0 (length pssm)) -> (0 < pv)%Q -> (pv <= 1)%Q ->
    TM.score_window0 LMTfm.TfmNum.NumQ (trows (qmat pssm)) perm = Ok win ->
    In (Ok it) (TM.sc_run LMTfm.TfmNum.NumQ steps (trows (qmat pssm)) perm bg pv (1 # 10) win) ->
    F32.is_finite thr = true -> (Qabs (valQ thr - TM.io_score it) <= eta)%Q ->
    let K := EM.a_K A in
    let S := qmat pssm in
    let M := length pssm in
    let tq := TM.io_score it in
    let eps := (eps_f32 K pssm + eta)%Q in
    let d := ((inject_Z (Z.of_nat M) + 2) * TM.io_gran it)%Q in
    exists (sq : list nat) (H : list (nat * F32.t)),
      encode_nat p A junk text = Ok sq /\ length sq = length text /\
      e2e_scan A C p junk text be old pssm am thr B = Ok H /\ NoDup (map fst H) /\
      (forall i x, In (i, x) H ->
         i + M <= length sq /\
         exists s, score_c01 K S (window M i sq) = Some s /\ (tq - eps <= s)%Q /\
                   (tail_c01 K S bg (s + eps + d) <= pv)%Q) /\
      (forall i, i + M <= length sq -> (forall x, ~ In (i, x) H) ->
         exists s, score_c01 K S (window M i sq) = Some s /\ (s < tq + eps)%Q /\
                   ((s < tq - d)%Q -> (pv <= tail_c01 K S bg (s - d))%Q)).
Proof.
  intros A C p junk text be old pssm am thr B bg perm pv steps win it eta HA HC Hbe Hold Htext HM Hrows Hwc Hno HB
         Hok Hperm Hp0 Hp1 Hwin Hin Hthr Heta K S M tq eps d.
  destruct (text_hits_nowild A C p junk text be old pssm am thr B HA HC Hbe Hold Htext ltac:(lia) Hrows Hwc HB)
    as (sq & H & H1 & H2 & H3 & H4 & Hsq & Hfin & Hhits).
  destruct (abc_str_nodup A HA) as (_ & _ & HK).
  assert (Hl : length (qmat pssm) = length pssm) by apply qmat_length.
  assert (Hsf : sym_finite K S) by (apply qmat_sym_finite; [unfold K; lia|exact Hfin]).
  destruct (tfm_threshold K S bg perm pv steps win it Hsf Hok ltac:(unfold S; rewrite Hl; exact HM)
              ltac:(unfold S; rewrite Hl; exact Hperm) Hp0 Hp1 Hwin Hin) as (Hc1 & Hc2).
  unfold S in Hc1, Hc2. rewrite Hl in Hc1, Hc2. fold M tq d S in Hc1, Hc2.
  destruct Hok as (_ & _ & Hbg & Hnn & _ & Hlast).
  destruct (float_hits K pssm bg HK Hfin Hno Hbg Hlast Hnn sq thr H Hsq Hthr Hhits pv tq eta d Heta Hc1) as (F1 & _).
  pose proof (float_rejected_tfm K pssm bg HK Hfin Hno Hbg Hlast Hnn sq thr H Hsq Hthr Hhits pv tq eta d Heta Hc2) as F2.
  rewrite Hl in F1, F2. fold S M in F1, F2.
  exists sq, H. split; [exact H1|]. split; [exact H2|]. split; [exact H3|]. split; [exact H4|]. split.
  - intros i x Hi. split; [apply Hhits in Hi; rewrite Hl in Hi; exact (proj1 Hi)|].
    destruct (F1 i x Hi) as (s & Es & G1 & G2). exists s. split; [exact Es|]. unfold eps. split; [lra|].
    eapply Qle_trans; [|exact G2]. apply tail_c01_antitone; auto; [lia|lra].
  - intros i Hi Hnot. destruct (F2 i Hi Hnot) as (s & Es & G1 & G2). exists s. split; [exact Es|]. unfold eps.
    split; [lra|exact G2].
Qed.

(* ---------- Scanner::max(): the best hit is the most significant position, up to 2 eps_f32 ---------- *)

Lemma fin32_not_nan (x : F32.t) : F32.is_finite x = true -> F32.is_nan x = false.
Proof. destruct x; try discriminate; reflexivity. Qed.

Lemma text_max_significant (A : EM.abc) (C : nat) (p : EI.pipeline) (junk : nat -> EM.sym) (text : list byte)
      (be : SA.backend) (old : SM.sseq) (pssm : list (list F32.t)) (am : arm) (thr : F32.t) (B : nat) (bg : list Q) :
  A = GA.dna \/ A = GA.protein ->
  1 <= C -> SA.backend_typed C be = true -> SS.wf_matrix C (SM.mat old) ->
  Forall (no_wild A) text ->
  1 <= length pssm -> Forall (fun row : list F32.t => length row = EM.a_K A) pssm ->
  e2e_wc (EM.a_K A) pssm = true -> no_overflow (EM.a_K A) pssm = true -> 1 <= B ->
  length bg = EM.a_K A -> (last bg 0 == 0)%Q -> (forall b, In b bg -> (0 <= b)%Q) ->
  let K := EM.a_K A in
  let S := qmat pssm in
  let M := length pssm in
  let eps := eps_f32 K pssm in
  exists (sq : list nat) (r : option (nat * F32.t)),
    encode_nat p A junk text = Ok sq /\
    e2e_scan_max A C p junk text be old pssm am thr B = Ok r /\
    forall q x, r = Some (q, x) ->
      q + M <= length sq /\
      exists s, score_c01 K S (window M q sq) = Some s /\ (Qabs (valQ x - s) <= eps)%Q /\
        forall j, j + M <= length sq ->
          exists sj, score_c01 K S (window M j sq) = Some sj /\ (sj <= s + 2 * eps)%Q /\
                     (tail_c01 K S bg (s + 2 * eps) <= tail_c01 K S bg sj)%Q.
Proof.
  intros HA HC Hbe Hold Htext HM Hrows Hwc Hno HB Hbg Hlast Hnn K S M eps.
  destruct (text_hits_nowild A C p junk text be old pssm am thr B HA HC Hbe Hold Htext HM Hrows Hwc HB)
    as (sq & _ & H1 & _ & _ & _ & Hsq & Hfin & _).
  assert (Htext' : Forall (LMEncode.EncodeProofs.in_abc A) text)
    by (eapply Forall_impl; [|exact Htext]; intros b; apply no_wild_in_abc).
  destruct (text_to_max A C p junk text be old pssm HA HC Hbe Hold Htext' HM Hrows
              (e2e_wc_finite _ _ Hwc) (c08_main_clause_wc _ _ Hwc) am thr B HB)
    as (sq' & r & H1' & H2 & _ & H4).
  rewrite H1 in H1'. inversion H1'; subst sq'. clear H1'.
  destruct (abc_str_nodup A HA) as (_ & _ & HK).
  assert (Hl : length (qmat pssm) = length pssm) by apply qmat_length.
  assert (Hsf : sym_finite K S) by (apply qmat_sym_finite; [unfold K; lia|exact Hfin]).
  assert (Hscore : forall i, i + M <= length sq ->
            F32.is_finite (SCO.score_def F32.add F32.zero (K - 1) pssm sq i) = true /\
            exists s, score_c01 K S (window M i sq) = Some s /\
                      (Qabs (valQ (SCO.score_def F32.add F32.zero (K - 1) pssm sq i) - s) <= eps)%Q).
  { intros i Hi.
    destruct (fscore_error K pssm sq i Hfin Hno) as (Hf & s & Es & Hs).
    { intros j Hj. rewrite Forall_forall in Hsq. apply Hsq. apply nth_In. unfold M in Hi. lia. }
    split; [exact Hf|]. exists s. split; [|exact Hs].
    unfold M, S. rewrite <- Hl. rewrite (score_window K (qmat pssm) sq i) by (rewrite Hl; exact Hi). exact Es. }
  exists sq, r. split; [exact H1|]. split; [exact H2|].
  intros q x Er. destruct (H4 q x Er) as (Hq & Hx & _ & Hbest & _).
  split; [exact Hq|]. destruct (Hscore q Hq) as (Hfq0 & s & Es & Hs0).
  assert (Hfq : F32.is_finite x = true) by (rewrite Hx; exact Hfq0).
  assert (Hs : (Qabs (valQ x - s) <= eps)%Q) by (rewrite Hx; exact Hs0).
  exists s. split; [exact Es|]. split; [exact Hs|].
  intros j Hj. destruct (Hscore j Hj) as (Hfj & sj & Esj & Hsj).
  exists sj. split; [exact Esj|].
  pose proof (Hbest j Hj (fin32_not_nan _ Hfj)) as Hge.
  apply (ge_valQ x _ Hfq Hfj) in Hge.
  apply Qabs_Qle_condition in Hs. apply Qabs_Qle_condition in Hsj.
  assert (Hle : (sj <= s + 2 * eps)%Q) by lra.
  split; [exact Hle|]. apply tail_c01_antitone; [lia|exact Hsf|exact Hbg|exact Hlast|exact Hnn|exact Hle].
Qed.

(* ---------- a helper for examples: a property of the Ok value of a result (a [match] on a large closed
   computation in a statement makes Coq's elaborator reduce the scrutinee; the helper avoids it) ---------- *)
Definition on_ok {T} (r : res T) (P : T -> Prop) : Prop := match r with Ok a => P a | _ => False end.

Lemma on_ok_inv {T} (r : res T) (P : T -> Prop) : on_ok r P -> exists a, r = Ok a /\ P a.
Proof. destruct r; cbn [on_ok]; intros H; try contradiction. eauto. Qed.

Definition first_ok {T} (l : list (res T)) (P : T -> Prop) : Prop := match l with Ok a :: _ => P a | _ => False end.

Lemma first_ok_inv {T} (l : list (res T)) (P : T -> Prop) : first_ok l P -> exists a, In (Ok a) l /\ P a.
Proof. destruct l as [|[a| | |] r]; cbn [first_ok]; try contradiction. intros H. exists a. split; [now left|exact H]. Qed.
