(* Composition lemmas for the end-to-end theorems (E2E.v): the per-property theorems of
   C05 (encode), C04 (stripe), C01 (score), C08 (disc), C07 (maxi), C02/C03 (scan) are
   chained through the bridges of E2EBridge*.v. *)
From Coq Require Import List Arith Bool Lia ZArith Permutation.
From Coq.Strings Require Import Byte.
From LMBase Require Import Res ListX IEEE.
From LMStripe Require StripeModel StripeSpec NetModel StripeAvx2 C04.
From LMScore Require ScoreModel ScoreProofs C01.
From LMDisc Require DiscModel DiscKernels C08.
From LMMaxi Require MaxiModel.
From LMEncode Require EncodeModel GenAbc EncodeInst EncodeProofs C05.
From LMScan Require Import ScanModel ScanConcrete ConcreteProofs ScanCheck.
From LMScan Require DiscLink DiscBridge C02 C03.
From LME2E Require Import E2EBridgeStripe E2EBridgeScore E2EBridgeMaxi E2EBridgeDisc E2EBridgeEncode E2EPipeline E2EKernelScan.
Import ListNotations.

Module SS := LMStripe.StripeSpec.
Module GA := LMEncode.GenAbc.

(* ---------- small facts ---------- *)

Lemma abc_K (A : EM.abc) : A = GA.dna \/ A = GA.protein -> 2 <= EM.a_K A.
Proof. intros [->| ->]; cbn; lia. Qed.

(* Bcompare is defined on non-NaN operands *)
Lemma cmp_some (x y : F32.t) : F32.is_nan x = false -> F32.is_nan y = false -> exists c, F32.cmp x y = Some c.
Proof.
  unfold F32.is_nan, F32.cmp, IEEE.is_nan, IEEE.fcmp.
  destruct x, y; simpl; intros Hx Hy; try discriminate; eexists; reflexivity.
Qed.

Lemma finite_not_nan (x : F32.t) : F32.is_finite x = true -> F32.is_nan x = false.
Proof. unfold F32.is_finite, F32.is_nan, IEEE.is_finite, IEEE.is_nan. destruct x; simpl; auto; discriminate. Qed.

Lemma fmax_total : forall (l : list F32.t) (x : F32.t),
  F32.is_nan x = false -> Forall (fun y => F32.is_nan y = false) l ->
  exists z, fmax_by_from x l = Ok z /\ F32.is_nan z = false.
Proof.
  induction l as [|y l IH]; intros x Hx Hl; simpl; [eauto|].
  inversion Hl as [|? ? Hy Hl']; subst.
  destruct (cmp_some x y Hx Hy) as (c & ->). destruct c; auto.
Qed.

Lemma fmin_total : forall (l : list F32.t) (x : F32.t),
  F32.is_nan x = false -> Forall (fun y => F32.is_nan y = false) l ->
  exists z, fmin_by_from x l = Ok z /\ F32.is_nan z = false.
Proof.
  induction l as [|y l IH]; intros x Hx Hl; simpl; [eauto|].
  inversion Hl as [|? ? Hy Hl']; subst.
  destruct (cmp_some x y Hx Hy) as (c & ->). destruct c; auto.
Qed.

Lemma rmapM_ok {X Y} (f : X -> res Y) (l : list X) :
  (forall x, In x l -> exists y, f x = Ok y) -> exists ys, rmapM f l = Ok ys.
Proof.
  induction l as [|x l IH]; intros H; simpl; [eauto|].
  destruct (H x (or_introl eq_refl)) as (y & ->).
  destruct (IH (fun z Hz => H z (or_intror Hz))) as (ys & ->). simpl. eauto.
Qed.

(* ScoringMatrix::to_discrete (Scanner::new) does not panic on a matrix whose non-wildcard
   cells are finite (K >= 2: at least one non-wildcard column; rows of at least K-1 cells) *)
Lemma to_discrete_total (K : nat) (pssm : list (list F32.t)) :
  2 <= K -> Forall (fun row : list F32.t => K <= length row) pssm ->
  LMScan.DiscBridge.finite_nonwild K pssm ->
  exists dm, to_discrete K pssm = Ok dm.
Proof.
  intros HK Hlen Hfin. unfold to_discrete.
  assert (Hrow : forall row, In row pssm ->
            exists x rest, firstn (K - 1) row = x :: rest /\ F32.is_nan x = false /\
                           Forall (fun y => F32.is_nan y = false) rest).
  { intros row Hin. unfold LMScan.DiscBridge.finite_nonwild in Hfin. rewrite Forall_forall in Hlen, Hfin.
    specialize (Hlen row Hin). specialize (Hfin row Hin). unfold LMDisc.DiscModel.nonwild in Hfin.
    destruct (firstn (K - 1) row) as [|x rest] eqn:E.
    - apply (f_equal (@length _)) in E. rewrite firstn_length in E. simpl in E. lia.
    - exists x, rest. split; [reflexivity|]. inversion Hfin as [|? ? Hx Hr]; subst.
      split; [now apply finite_not_nan|]. eapply Forall_impl; [|exact Hr]. intros a. apply finite_not_nan. }
  destruct (rmapM_ok (row_max K) pssm) as (maxs & ->).
  { intros row Hin. destruct (Hrow row Hin) as (x & rest & E & Hx & Hr). unfold row_max. rewrite E.
    destruct (fmax_total rest x Hx Hr) as (z & -> & _). eauto. }
  destruct (rmapM_ok (row_min K) pssm) as (offs & ->).
  { intros row Hin. destruct (Hrow row Hin) as (x & rest & E & Hx & Hr). unfold row_min. rewrite E.
    destruct (fmin_total rest x Hx Hr) as (z & -> & _). eauto. }
  simpl. eauto.
Qed.

(* ---------- Scanner::new on the stripe model's buffer = on scan's closed form ---------- *)

Lemma e_env_c_env (K C : nat) (pssm : list (list F32.t)) (sq : list nat) (st : SM.sseq) :
  SS.Striped K C sq st -> e_env K C pssm st = c_env K C pssm sq (SM.swrap st).
Proof.
  intros HS. destruct (striped_mat_smatrix K C sq st HS) as (Em & El).
  unfold e_env, c_env. rewrite Em, El. reflexivity.
Qed.

Lemma c_env_ok (K C : nat) (pssm : list (list F32.t)) (sq : list nat) (wrap : nat) (dm : dmt) :
  to_discrete K pssm = Ok dm -> exists v, c_env K C pssm sq wrap = Ok v /\ ce_dm v = dm.
Proof. intros H. unfold c_env. rewrite H. cbn [rbind]. eexists. split; reflexivity. Qed.

(* ---------- text -> configured buffer ---------- *)

Lemma prepare_spec (A : EM.abc) (C : nat) (p : EI.pipeline) (junk : nat -> EM.sym) (text : list byte)
      (be : SA.backend) (old : SM.sseq) (M : nat) (sq : list nat) :
  A = GA.dna \/ A = GA.protein ->
  1 <= C -> SA.backend_typed C be = true -> SS.wf_matrix C (SM.mat old) ->
  encode_nat p A junk text = Ok sq ->
  exists st,
    e2e_prepare A C p junk text be old M = Ok (sq, st) /\
    SS.Striped (EM.a_K A) C sq st /\
    SM.swrap st = (if M =? 0 then 0 else M - 1) /\
    Forall (fun x => x < EM.a_K A) sq /\ length sq = length text.
Proof.
  intros HA HC Hb Hwf Henc.
  destruct (encode_nat_ok A p junk text sq HA Henc) as (Hlen & Hsym & _ & _).
  unfold e2e_prepare. rewrite Henc. cbn [rbind].
  rewrite (LMStripe.C04.C04_stripe_backend_independent (EM.a_K A) C be sq old HC Hb Hwf).
  destruct (LMStripe.C04.C04_stripe_generic_spec (EM.a_K A) C sq old HC Hwf) as (st0 & E0 & HS0 & Hw0).
  rewrite E0. cbn [rbind].
  destruct (LMStripe.C04.C04_configure_spec (EM.a_K A) C sq st0 M HC HS0) as (st & E & HS & Hw).
  rewrite E. cbn [rbind]. exists st. split; [reflexivity|]. split; [exact HS|]. split.
  - rewrite Hw, Hw0. destruct (M =? 0); [reflexivity|apply Nat.max_0_l].
  - auto.
Qed.

(* ---------- C08's main clause, in the vocabulary of coq/disc ---------- *)

(* "for this matrix, every window: the byte score is at least the byte image of the binary32
   score" -- the conclusion of C08_f32_main_well_conditioned_partial, quantified over the
   windows of the matrix (what remains assumed when the matrix is not known to satisfy
   coq/disc's conditioning predicate) *)
Definition c08_main_clause (K : nat) (pssm : list (list F32.t)) : Prop :=
  forall (d : @DM.dmat F32.t) (w : list nat) (real : F32.t) (b : Z),
    DM.to_discrete DM.f32_ops K pssm = Ok d ->
    DM.real_wscore DM.f32_ops pssm w = Ok real ->
    DM.disc_wscore (DM.d_data d) w = Ok b ->
    (DM.scale DM.f32_ops d real <= b)%Z.

Lemma main_clause_from_disc (K : nat) (pssm : list (list F32.t)) (sq : list nat) (dm : dmt) (i : nat) :
  1 <= K -> Forall (fun s => s < K) sq ->
  Forall (fun row : list F32.t => K <= length row) pssm ->
  to_discrete K pssm = Ok dm ->
  c08_main_clause K pssm ->
  c_scale dm (CP.score_def K sq pssm i) <= CP.dscore_def K sq (d_data dm) i.
Proof.
  intros HK Hs Hp Hd Hmain.
  destruct (LMScan.DiscBridge.to_discrete_bridge K pssm dm Hd) as (d & Hd' & Hf & Ho & Hdata).
  set (w := DM.window K sq i (length pssm)).
  assert (Hreal : DM.real_wscore DM.f32_ops pssm w = Ok (CP.score_def K sq pssm i)).
  { unfold DM.real_wscore, w. cbn [DM.f32_ops DM.n_add DM.n_zero].
    apply (LMScan.DiscBridge.wscore_window K sq HK Hs F32.add F32.zero F32.zero pssm i Hp). }
  assert (Hlen : length (d_data dm) = length pssm) by apply (to_discrete_shape K pssm dm Hd).
  assert (Hdl : Forall (fun row : list Z => K <= length row) (map (map Z.of_nat) (d_data dm))).
  { apply Forall_map. eapply Forall_impl; [|apply (proj2 (to_discrete_shape K pssm dm Hd) Hp)].
    intros r Hr. now rewrite map_length. }
  assert (Hb : DM.disc_wscore (DM.d_data d) w = Ok (Z.of_nat (CP.dscore_def K sq (d_data dm) i))).
  { unfold DM.disc_wscore, w. rewrite Hdata.
    replace (length pssm) with (length (map (map Z.of_nat) (d_data dm))) by (now rewrite map_length).
    rewrite (LMScan.DiscBridge.wscore_window K sq HK Hs DM.sat_add 0%Z 0%Z _ i Hdl).
    f_equal. rewrite LMScan.DiscBridge.window_cells_of_nat. change 0%Z with (Z.of_nat 0) at 1.
    apply LMScan.DiscBridge.sat_fold_of_nat. }
  pose proof (Hmain d w _ _ Hd' Hreal Hb) as Hm.
  unfold DM.scale in Hm. rewrite Hf, Ho in Hm.
  rewrite LMScan.DiscLink.c_scale_eq. lia.
Qed.

(* coq/disc's theorem gives the clause for every matrix passing the executable predicate *)
Lemma c08_main_clause_wc (K : nat) (pssm : list (list F32.t)) : e2e_wc K pssm = true -> c08_main_clause K pssm.
Proof.
  unfold e2e_wc. destruct (to_discrete K pssm) as [dm| | |] eqn:Ed; try discriminate. intros Hwc.
  destruct (LMScan.DiscBridge.wc_input_sound K pssm dm Hwc) as (Hfin & (Hw & HM & HA)).
  destruct (LMScan.DiscBridge.to_discrete_bridge K pssm dm Ed) as (d0 & Hd0 & Hf0 & _ & _).
  intros d w real b Hd Hreal Hb. rewrite Hd0 in Hd. inversion Hd; subst d0.
  rewrite <- Hf0 in Hw.
  exact (LMDisc.C08.C08_f32_main_well_conditioned_partial K pssm d w real b Hfin Hd0 Hreal Hb Hw HM HA).
Qed.

Lemma e2e_wc_finite (K : nat) (pssm : list (list F32.t)) :
  e2e_wc K pssm = true -> LMScan.DiscBridge.finite_nonwild K pssm.
Proof.
  unfold e2e_wc. destruct (to_discrete K pssm) as [dm| | |]; try discriminate. intros Hwc.
  apply (LMScan.DiscBridge.wc_input_sound K pssm dm Hwc).
Qed.

(* ---------- the scanner on a configured buffer ---------- *)

Section OnBuffer.
  Variables (K C : nat) (pssm : list (list F32.t)) (sq : list nat) (st : SM.sseq).
  Hypothesis HS : SS.Striped K C sq st.
  Hypothesis Hwrap : length pssm - 1 <= SM.swrap st.
  Hypothesis HK : 2 <= K.
  Hypothesis HC : 1 <= C.
  Hypothesis HM : 1 <= length pssm.
  Hypothesis Hrows : Forall (fun row : list F32.t => length row = K) pssm.
  Hypothesis Hsym : Forall (fun x => x < K) sq.
  Hypothesis Hfin : LMScan.DiscBridge.finite_nonwild K pssm.
  Hypothesis Hmain : c08_main_clause K pssm.

  Lemma rows_ge : Forall (fun row : list F32.t => K <= length row) pssm.
  Proof. eapply Forall_impl; [|exact Hrows]. intros r ->. lia. Qed.

  Lemma buffer_wf_input : wf_input K C pssm sq (SM.swrap st).
  Proof. unfold wf_input. repeat split; auto; try lia. apply rows_ge. Qed.

  Lemma buffer_env : exists v, e_env K C pssm st = Ok v /\ c_env K C pssm sq (SM.swrap st) = Ok v.
  Proof.
    destruct (to_discrete_total K pssm HK rows_ge Hfin) as (dm & Hd).
    destruct (c_env_ok K C pssm sq (SM.swrap st) dm Hd) as (v & Hv & _).
    exists v. split; [|exact Hv]. now rewrite (e_env_c_env K C pssm sq st HS).
  Qed.

  Lemma buffer_main v : c_env K C pssm sq (SM.swrap st) = Ok v ->
    forall i, i + length pssm <= length sq ->
      c_scale (ce_dm v) (CP.score_def K sq pssm i) <= CP.dscore_def K sq (d_data (ce_dm v)) i.
  Proof.
    intros Hv i _.
    destruct (env_fields K C pssm sq (SM.swrap st) v Hv) as (_ & _ & _ & _ & _ & Hd & _).
    apply main_clause_from_disc; auto; [lia|apply rows_ge].
  Qed.

  (* iteration to exhaustion *)
  Lemma buffer_scan (am : arm) (thr : F32.t) (B : nat) : 1 <= B ->
    exists v H,
      e_env K C pssm st = Ok v /\
      ce_collect v am thr B = Ok H /\
      (forall i x, In (i, x) H <->
         i + length pssm <= length sq /\
         F32.ge (SCO.score_def F32.add F32.zero (K - 1) pssm sq i) thr = true /\
         x = SCO.score_def F32.add F32.zero (K - 1) pssm sq i) /\
      NoDup (map fst H).
  Proof.
    intros HB. destruct buffer_env as (v & Hev & Hv).
    destruct (LMScan.C02.C02_concrete_scan_c08 K C pssm sq (SM.swrap st) v am thr B
                buffer_wf_input Hv HB (buffer_main v Hv)) as (H & Hc & Hin & Hnd).
    exists v, H. split; [exact Hev|]. split; [exact Hc|]. split; [|exact Hnd].
    intros i x. rewrite <- (score_def_bridge K sq pssm i). apply Hin.
  Qed.

  (* k calls of next(), then max() *)
  Lemma buffer_take_max (am : arm) (thr : F32.t) (B k : nat) : 1 <= B ->
    exists v Y r,
      e_env K C pssm st = Ok v /\
      ce_take_max v am thr B k = Ok (Y, Ok r) /\
      match r with
      | None =>
          forall i, i + length pssm <= length sq ->
                    F32.ge (SCO.score_def F32.add F32.zero (K - 1) pssm sq i) thr = true -> In i (map fst Y)
      | Some (p, x) =>
          (p + length pssm <= length sq /\
           F32.ge (SCO.score_def F32.add F32.zero (K - 1) pssm sq p) thr = true /\ ~ In p (map fst Y)) /\
          x = SCO.score_def F32.add F32.zero (K - 1) pssm sq p /\
          (forall i, i + length pssm <= length sq -> ~ In i (map fst Y) ->
                     F32.is_nan (SCO.score_def F32.add F32.zero (K - 1) pssm sq i) = false ->
                     F32.ge x (SCO.score_def F32.add F32.zero (K - 1) pssm sq i) = true) /\
          (k = 0 -> forall i, i + length pssm <= length sq ->
                     F32.eq (SCO.score_def F32.add F32.zero (K - 1) pssm sq i) x = true -> i <= p)
      end.
  Proof.
    intros HB. destruct buffer_env as (v & Hev & Hv).
    destruct (LMScan.C03.C03_concrete_max_c08 K C pssm sq (SM.swrap st) v am thr B
                buffer_wf_input Hv HB (buffer_main v Hv) k) as (Y & r & Ht & Hp).
    exists v, Y, r. split; [exact Hev|]. split; [exact Ht|].
    destruct r as [[p x]|].
    - destruct Hp as (A1 & A2 & A3 & A4). rewrite (score_def_bridge K sq pssm p) in A1, A2.
      split; [exact A1|]. split; [exact A2|]. split.
      + intros i. rewrite <- (score_def_bridge K sq pssm i). apply A3.
      + intros Hk i. rewrite <- (score_def_bridge K sq pssm i). now apply A4.
    - intros i. rewrite <- (score_def_bridge K sq pssm i). apply Hp.
  Qed.
End OnBuffer.

(* ---------- k = 0: Scanner::max() on a fresh scanner ---------- *)

Lemma take_max_zero (v : cenv) (am : arm) (thr : F32.t) (B : nat) (Y : list fhit) (r : option fhit) :
  ce_take_max v am thr B 0 = Ok (Y, Ok r) -> Y = [] /\ ce_max_after v am thr B 0 = Ok r.
Proof.
  unfold ce_take_max, ce_max_after, max_after. cbn [take_k rbind fst snd]. intros H.
  injection H as HY Hs. split; [now symmetry|]. exact Hs.
Qed.


(* ---------- text -> hits ---------- *)

Lemma abc_ok_of (A : EM.abc) : A = GA.dna \/ A = GA.protein -> LMEncode.EncodeInstProofs.abc_ok A = true.
Proof. destruct LMEncode.C05.C05_alphabets_ok as (H1 & H2). intros [->| ->]; assumption. Qed.

Section FromText.
  Variables (A : EM.abc) (C : nat) (p : EI.pipeline) (junk : nat -> EM.sym) (text : list byte)
            (be : SA.backend) (old : SM.sseq) (pssm : list (list F32.t)).
  Hypothesis HA : A = GA.dna \/ A = GA.protein.
  Hypothesis HC : 1 <= C.
  Hypothesis Hbe : SA.backend_typed C be = true.
  Hypothesis Hold : SS.wf_matrix C (SM.mat old).
  Hypothesis Htext : Forall (LMEncode.EncodeProofs.in_abc A) text.
  Hypothesis HM : 1 <= length pssm.
  Hypothesis Hrows : Forall (fun row : list F32.t => length row = EM.a_K A) pssm.
  Hypothesis Hfin : LMScan.DiscBridge.finite_nonwild (EM.a_K A) pssm.
  Hypothesis Hmain : c08_main_clause (EM.a_K A) pssm.


  Lemma text_prepared :
    exists sq st,
      encode_nat p A junk text = Ok sq /\ length sq = length text /\
      (forall i b, nth_error text i = Some b ->
         exists x, nth_error sq i = Some x /\ nth_error (EM.a_str A) x = Some b) /\
      e2e_prepare A C p junk text be old (length pssm) = Ok (sq, st) /\
      SS.Striped (EM.a_K A) C sq st /\ length pssm - 1 <= SM.swrap st /\
      Forall (fun x => x < EM.a_K A) sq.
  Proof using HA HC Hbe Hold Htext HM.
    destruct (proj2 (encode_nat_accepts A p junk text (abc_ok_of A HA)) Htext) as (sq & Henc).
    destruct (encode_nat_ok A p junk text sq HA Henc) as (Hlen & _ & Hnth & _).
    destruct (prepare_spec A C p junk text be old (length pssm) sq HA HC Hbe Hold Henc)
      as (st & Hp & HS & Hw & Hsym & _).
    exists sq, st. split; [exact Henc|]. split; [exact Hlen|]. split; [exact Hnth|].
    split; [exact Hp|]. split; [exact HS|]. split; [|exact Hsym].
    rewrite Hw. destruct (Nat.eqb_spec (length pssm) 0); lia.
  Qed.

  Lemma text_to_hits (am : arm) (thr : F32.t) (B : nat) : 1 <= B ->
    exists sq H,
      encode_nat p A junk text = Ok sq /\ length sq = length text /\
      (forall i b, nth_error text i = Some b ->
         exists x, nth_error sq i = Some x /\ nth_error (EM.a_str A) x = Some b) /\
      e2e_scan A C p junk text be old pssm am thr B = Ok H /\
      (forall i x, In (i, x) H <->
         i + length pssm <= length sq /\
         F32.ge (SCO.score_def F32.add F32.zero (EM.a_K A - 1) pssm sq i) thr = true /\
         x = SCO.score_def F32.add F32.zero (EM.a_K A - 1) pssm sq i) /\
      NoDup (map fst H).
  Proof.
    intros HB. destruct text_prepared as (sq & st & Henc & Hlen & Hnth & Hp & HS & Hw & Hsym).
    destruct (buffer_scan (EM.a_K A) C pssm sq st HS Hw (abc_K A HA) HC HM Hrows Hsym Hfin Hmain am thr B HB)
      as (v & H & Hv & Hc & Hin & Hnd).
    exists sq, H. split; [exact Henc|]. split; [exact Hlen|]. split; [exact Hnth|].
    split; [|split; [exact Hin|exact Hnd]].
    unfold e2e_scan. rewrite Hp. cbn [rbind snd]. rewrite Hv. cbn [rbind]. exact Hc.
  Qed.

  Lemma text_to_take_max (am : arm) (thr : F32.t) (B k : nat) : 1 <= B ->
    exists sq Y r,
      encode_nat p A junk text = Ok sq /\
      e2e_take_max A C p junk text be old pssm am thr B k = Ok (Y, Ok r) /\
      match r with
      | None =>
          forall i, i + length pssm <= length sq ->
                    F32.ge (SCO.score_def F32.add F32.zero (EM.a_K A - 1) pssm sq i) thr = true -> In i (map fst Y)
      | Some (q, x) =>
          (q + length pssm <= length sq /\
           F32.ge (SCO.score_def F32.add F32.zero (EM.a_K A - 1) pssm sq q) thr = true /\ ~ In q (map fst Y)) /\
          x = SCO.score_def F32.add F32.zero (EM.a_K A - 1) pssm sq q /\
          (forall i, i + length pssm <= length sq -> ~ In i (map fst Y) ->
                     F32.is_nan (SCO.score_def F32.add F32.zero (EM.a_K A - 1) pssm sq i) = false ->
                     F32.ge x (SCO.score_def F32.add F32.zero (EM.a_K A - 1) pssm sq i) = true) /\
          (k = 0 -> forall i, i + length pssm <= length sq ->
                     F32.eq (SCO.score_def F32.add F32.zero (EM.a_K A - 1) pssm sq i) x = true -> i <= q)
      end.
  Proof.
    intros HB. destruct text_prepared as (sq & st & Henc & Hlen & Hnth & Hp & HS & Hw & Hsym).
    destruct (buffer_take_max (EM.a_K A) C pssm sq st HS Hw (abc_K A HA) HC HM Hrows Hsym Hfin Hmain am thr B k HB)
      as (v & Y & r & Hv & Ht & Hr).
    exists sq, Y, r. split; [exact Henc|]. split; [|exact Hr].
    unfold e2e_take_max. rewrite Hp. cbn [rbind snd]. rewrite Hv. cbn [rbind]. exact Ht.
  Qed.

  (* Scanner::max() on a fresh scanner *)
  Lemma text_to_max (am : arm) (thr : F32.t) (B : nat) : 1 <= B ->
    exists sq r,
      encode_nat p A junk text = Ok sq /\
      e2e_scan_max A C p junk text be old pssm am thr B = Ok r /\
      (r = None <-> forall i, i + length pssm <= length sq ->
                      F32.ge (SCO.score_def F32.add F32.zero (EM.a_K A - 1) pssm sq i) thr = false) /\
      (forall q x, r = Some (q, x) ->
         q + length pssm <= length sq /\
         x = SCO.score_def F32.add F32.zero (EM.a_K A - 1) pssm sq q /\
         F32.ge x thr = true /\
         (forall i, i + length pssm <= length sq ->
                    F32.is_nan (SCO.score_def F32.add F32.zero (EM.a_K A - 1) pssm sq i) = false ->
                    F32.ge x (SCO.score_def F32.add F32.zero (EM.a_K A - 1) pssm sq i) = true) /\
         (forall i, i + length pssm <= length sq ->
                    F32.eq (SCO.score_def F32.add F32.zero (EM.a_K A - 1) pssm sq i) x = true -> i <= q)).
  Proof.
    intros HB. destruct text_prepared as (sq & st & Henc & Hlen & Hnth & Hp & HS & Hw & Hsym).
    destruct (buffer_take_max (EM.a_K A) C pssm sq st HS Hw (abc_K A HA) HC HM Hrows Hsym Hfin Hmain am thr B 0 HB)
      as (v & Y & r & Hv & Ht & Hr).
    destruct (take_max_zero v am thr B Y r Ht) as (HY & Hmx). subst Y.
    exists sq, r. split; [exact Henc|]. split.
    { unfold e2e_scan_max. rewrite Hp. cbn [rbind snd]. rewrite Hv. cbn [rbind]. exact Hmx. }
    destruct r as [[q x]|].
    - destruct Hr as ((A1 & A2 & _) & Hx & A3 & A4). split.
      + split; [discriminate|]. intros Hn. rewrite (Hn q A1) in A2. discriminate.
      + intros q' x' E. inversion E; subst q' x'. split; [exact A1|]. split; [exact Hx|].
        split; [rewrite Hx; exact A2|]. split.
        * intros i Hi Hnan. apply A3; auto.
        * intros i Hi He. now apply (A4 eq_refl).
    - split.
      + split; [|reflexivity]. intros _ i Hi.
        destruct (F32.ge (SCO.score_def F32.add F32.zero (EM.a_K A - 1) pssm sq i) thr) eqn:Eg; auto.
        destruct (Hr i Hi Eg).
      + intros q x E. discriminate.
  Qed.
End FromText.

(* the same pipeline with every kernel model plugged in (32 columns, K <= 16: DNA) *)
Lemma text_to_hits_kernels (A : EM.abc) (p : EI.pipeline) (junk : nat -> EM.sym) (text : list byte)
      (be : SA.backend) (old : SM.sseq) (pssm : list (list F32.t)) (am : arm) (pads : nat -> list Z)
      (thr : F32.t) (B : nat) :
  A = GA.dna \/ A = GA.protein -> EM.a_K A <= 16 ->
  SS.wf_matrix 32 (SM.mat old) ->
  Forall (LMEncode.EncodeProofs.in_abc A) text ->
  1 <= length pssm -> Forall (fun row : list F32.t => length row = EM.a_K A) pssm ->
  LMScan.DiscBridge.finite_nonwild (EM.a_K A) pssm ->
  (forall i, 16 <= EM.a_K A + length (pads i)) ->
  e2e_scan_kernels A p junk text be old pssm am pads thr B = e2e_scan A 32 p junk text be old pssm am thr B.
Proof.
  intros HA HK16 Hold Htext HM Hrows Hfin Hpads.
  assert (Hbe : SA.backend_typed 32 be = true) by (destruct be; reflexivity).
  destruct (text_prepared A 32 p junk text be old pssm HA ltac:(lia) Hbe Hold Htext HM)
    as (sq & st & Henc & Hlen & Hnth & Hp & HS & Hw & Hsym).
  unfold e2e_scan_kernels, e2e_scan. rewrite Hp. cbn [rbind snd].
  assert (Hge : Forall (fun row : list F32.t => EM.a_K A <= length row) pssm).
  { eapply Forall_impl; [|exact Hrows]. intros r ->. lia. }
  destruct (to_discrete_total (EM.a_K A) pssm (abc_K A HA) Hge Hfin) as (dm & Hd).
  destruct (c_env_ok (EM.a_K A) 32 pssm sq (SM.swrap st) dm Hd) as (v & Hv & _).
  rewrite (e_env_c_env (EM.a_K A) 32 pssm sq st HS), Hv. cbn [rbind].
  apply (k_collect_eq (EM.a_K A) pssm sq (SM.swrap st) v); auto.
  pose proof (abc_K A HA). unfold wf_input. repeat split; auto; lia.
Qed.

(* ... and Scanner::max after k calls of next(), on the kernels *)
Lemma text_to_max_kernels (A : EM.abc) (p : EI.pipeline) (junk : nat -> EM.sym) (text : list byte)
      (be : SA.backend) (old : SM.sseq) (pssm : list (list F32.t)) (am : arm) (pads : nat -> list Z)
      (thr : F32.t) (B k : nat) :
  A = GA.dna \/ A = GA.protein -> EM.a_K A <= 16 ->
  SS.wf_matrix 32 (SM.mat old) ->
  Forall (LMEncode.EncodeProofs.in_abc A) text ->
  1 <= length pssm -> Forall (fun row : list F32.t => length row = EM.a_K A) pssm ->
  LMScan.DiscBridge.finite_nonwild (EM.a_K A) pssm ->
  (forall i, 16 <= EM.a_K A + length (pads i)) ->
  e2e_max_kernels A p junk text be old pssm am pads thr B k = e2e_max_after A 32 p junk text be old pssm am thr B k.
Proof.
  intros HA HK16 Hold Htext HM Hrows Hfin Hpads.
  assert (Hbe : SA.backend_typed 32 be = true) by (destruct be; reflexivity).
  destruct (text_prepared A 32 p junk text be old pssm HA ltac:(lia) Hbe Hold Htext HM)
    as (sq & st & Henc & Hlen & Hnth & Hp & HS & Hw & Hsym).
  unfold e2e_max_kernels, e2e_max_after. rewrite Hp. cbn [rbind snd].
  assert (Hge : Forall (fun row : list F32.t => EM.a_K A <= length row) pssm).
  { eapply Forall_impl; [|exact Hrows]. intros r ->. lia. }
  destruct (to_discrete_total (EM.a_K A) pssm (abc_K A HA) Hge Hfin) as (dm & Hd).
  destruct (c_env_ok (EM.a_K A) 32 pssm sq (SM.swrap st) dm Hd) as (v & Hv & _).
  rewrite (e_env_c_env (EM.a_K A) 32 pssm sq st HS), Hv. cbn [rbind].
  apply (k_max_after_eq (EM.a_K A) pssm sq (SM.swrap st) v); auto.
  pose proof (abc_K A HA). unfold wf_input. repeat split; auto; lia.
Qed.
