(* C17 (review round 3, finding 2): the abstract record [core] of the PyO3 glue model (coq/pyglue) instantiated
   with the MODELS of coq/stripe (C04: stripe, configure), coq/score (C01: the scoring pipeline) and coq/scan
   (C02: the concrete Scanner on the stripe model's buffer) - E2EPyCoreDefs.core_of_models - and the hypotheses of
   C17's history theorems discharged from those groups' theorems.  Property-style file: theorems only (audited by
   props/e2e.py, key "py"; counted as composed obligations of C17 in its thorough tier).

   What is NOT instantiated (stays a parameter K0 / section variable): count / frequency / weight matrices,
   log-odds, reverse complement, max_score (C09 / C10), score distributions (C11), TFM-PVALUE (C12 / C13), the
   readers (C14), StripedScores::{threshold, max, argmax} (C07), the encoder kernels (C05: the instance encodes
   by the specification "symbol = index in Alphabet::as_str").
   What stays a HYPOTHESIS in the theorems below: the typing premise [typed s q] (matrix and sequence of the
   same alphabet - static in Rust) of (4) (5) (6); for the scanner's values and totality the numeric hypothesis
   of C02 / C08 (finite non-wildcard cells + main clause; E2E.e2e_wc is an executable sufficient condition). *)
From Coq Require Import List Arith Bool Lia ZArith.
From LMBase Require Import Res ListX IEEE.
From LMStripe Require StripeModel StripeSpec StripeAvx2 C04.
From LMScore Require ScoreModel ScoreProofs StripeBridge C01.
From LMScan Require Import ScanModel ScanLemmas ScanProofs ScanConcrete ConcreteProofs.
From LMScan Require DiscBridge.
From LME2E Require Import E2EBridgeStripe E2EBridgeScore E2EPipeline E2EKernelScan E2EProofs E2EStretch.
From LMPyGlue Require PyGlueModel PyGlueProofs PyGlueHistory PyGlueLazy PyGlueLazyProofs.
From LME2E Require Import E2EPyCoreDefs.
Import ListNotations.

(* ================================================================ the theorems (audited: props/e2e.py) *)

Section Theorems.
  Variables CM FM WM SM0 SQ0 SC0 : Type.
  Variable K0 : PG.core CM FM WM SM0 SQ0 SC0.
  Variable thr_f : SCO.sscores F32.t -> Z -> PG.cres (list Z).
  Variable max_f : SCO.sscores F32.t -> PG.cres (option Z).
  Variable argmax_f : SCO.sscores F32.t -> PG.cres (option Z).

  Notation KM := (core_of_models CM FM WM SM0 SQ0 SC0 K0 thr_f max_f argmax_f).
  Notation pssm := (pssm_of CM FM WM SM0 SQ0 SC0 K0).
  Notation rows := (rows_of CM FM WM SM0 SQ0 SC0 K0).
  Notation typed_ := (typed CM FM WM SM0 SQ0 SC0 K0).
  Notation wrap_ok_ := (wrap_ok CM FM WM SM0 SQ0 SC0 K0).

  (* (1) the five hypotheses of C17.py_history_depends_on_text_only, for the models of C04 / C01 / C02 *)
  Theorem pycore_conf_total : forall q s, exists q', PG.c_configure KM q s = PG.COk q'.
  Proof. apply pycore_conf_total_l. Qed.
  Theorem pycore_conf_text : forall q s q', PG.c_configure KM q s = PG.COk q' -> sq_text q' = sq_text q.
  Proof. apply pycore_conf_text_l. Qed.
  Theorem pycore_conf_ok : forall q s q', PG.c_configure KM q s = PG.COk q' -> wrap_ok_ s q'.
  Proof. apply pycore_conf_ok_l. Qed.
  Theorem pycore_score_text : forall s q1 q2,
    wrap_ok_ s q1 -> wrap_ok_ s q2 -> sq_text q1 = sq_text q2 -> PG.c_score KM s q1 = PG.c_score KM s q2.
  Proof. apply pycore_score_text_l. Qed.
  Theorem pycore_scan_text : forall s q1 q2 t b,
    wrap_ok_ s q1 -> wrap_ok_ s q2 -> sq_text q1 = sq_text q2 -> PG.c_scan KM s q1 t b = PG.c_scan KM s q2 t b.
  Proof. apply pycore_scan_text_l. Qed.

  (* (2) the hypothesis of C17.py_scanner_lazy_eq_eager *)
  Theorem pycore_scan_stable : PyGlueLazyProofs.scan_stable CM FM WM SM0 sq (SCO.sscores F32.t) KM.
  Proof. apply pycore_scan_stable_l. Qed.

  (* (3) hence, with NO hypothesis left about configure / score / scan: every outcome of every history of
     Python calls depends on the striped sequence objects only through alphabet and symbols - never on the
     look-ahead rows left by earlier calculate / scan calls, i.e. never on the order of reuse ... *)
  Theorem pycore_history_depends_on_text_only : forall cs st st',
    PyGlueHistory.st_rel CM WM SM0 sq (SCO.sscores F32.t) (nat * list nat) sq_text st st' ->
    PyGlueHistory.steps_rel CM WM SM0 sq (SCO.sscores F32.t) (nat * list nat) sq_text
      (PG.run_history KM st cs) (PG.run_history KM st' cs).
  Proof.
    intros cs st st' H.
    (* PyGlueHistory.run_history_rel is the lemma behind C17.py_history_depends_on_text_only (this file does not import
       C17.v, so that building coq/e2e never depends on the translator-generated GenPySig.v) *)
    eapply (PyGlueHistory.run_history_rel CM FM WM SM0 sq (SCO.sscores F32.t) KM
              (nat * list nat)%type sq_text wrap_ok_); eauto.
    - apply pycore_conf_total. - apply pycore_conf_text. - apply pycore_conf_ok.
    - apply pycore_score_text. - apply pycore_scan_text.
  Qed.

  (* ... and the Scanner read as lazy state over the live sequence object hands out, call by call, the hits
     fixed at its creation *)
  Theorem pycore_scanner_lazy_eq_eager : forall cs,
    PyGlueLazy.run_history_lazy KM [] [] cs = PG.run_history KM [] cs.
  Proof.
    intros cs. apply PyGlueLazyProofs.lazy_history; [apply pycore_scan_stable | apply PyGlueLazyProofs.linv_nil].
  Qed.

  (* (4) what calculate returns IS C01's definition: through the glue model (ensure_not_empty, alphabet test,
     configure, score) the StripedScores value, read back position by position, is score_def of every position
     0 .. L - M of the sequence the object holds - whatever look-ahead rows earlier calls left *)
  Theorem pycore_calculate_is_C01 : forall a s q,
    PG.sm_empty (PG.c_sm_cells K0 s) = false -> typed_ s q = true ->
    exists sc q',
      PG.glue_calculate KM a s a q = (PG.Value (PG.OScores CM WM SM0 sq (SCO.sscores F32.t) sc), q') /\
      sq_text q' = sq_text q /\
      SCO.sc_unstripe Ccols sc =
        Ok (map (SCO.score_def F32.add F32.zero (q_K q - 1) (pssm s) (q_text q))
                (seq 0 (length (q_text q) + 1 - rows s))).
  Proof.
    intros a s q Hne Hty. unfold PG.glue_calculate. cbn [PG.c_sm_cells core_of_models]. rewrite Hne.
    replace (PG.abc_eqb a a) with true by (destruct a; reflexivity).
    destruct (pycore_conf_total q s) as [q' Hq]. rewrite Hq.
    pose proof (pycore_conf_text _ _ _ Hq) as Ht. pose proof (pycore_conf_ok _ _ _ Hq) as Hw.
    unfold sq_text in Ht. inversion Ht as [[HK Htx]].
    assert (HM : 1 <= rows s).
    { unfold rows_of. destruct (PG.c_sm_cells K0 s); [discriminate | simpl; lia]. }
    destruct (q_ok q') as [HK' [HS' Hs']].
    pose proof (LMScore.C01.C01_score_unstripe F32.t F32.add F32.zero Ccols (q_K q') (pssm s) (q_text q')
                  (SB.of_stripe (q_st q')) ltac:(unfold Ccols; lia) ltac:(lia) Hs') as HC01.
    assert (Hty' : typed_ s q' = true) by (unfold typed in *; rewrite HK; exact Hty).
    specialize (HC01 (typed_wf _ _ _ _ _ _ K0 s q' Hty') (SB.striped_bridge _ _ _ _ HS')).
    rewrite pssm_of_length in HC01. specialize (HC01 HM Hw).
    cbn [PG.c_score core_of_models]. unfold m_score. rewrite Hty'. cbn [negb].
    replace (rows s =? 0) with false by (symmetry; apply Nat.eqb_neq; lia).
    replace (SM.swrap (q_st q') <? rows s - 1) with false by (symmetry; apply Nat.ltb_ge; exact Hw).
    destruct (SCO.generic_score F32.add F32.zero Ccols (pssm s) (SB.of_stripe (q_st q'))) as [sc| | |]; try discriminate.
    exists sc, q'. cbn [PG.liftp PG.obind]. split; [reflexivity|]. split; [exact Ht|].
    cbn [rbind] in HC01. rewrite HC01, HK, Htx. reflexivity.
  Qed.

  (* (5) what scan / Scanner hands out IS C02's definition (as a set, each position once), under the numeric
     hypothesis of C02 / C08 for the matrix (its main clause; E2E.e2e_wc is an executable sufficient condition) *)
  Theorem pycore_scan_is_C02 : forall s q t b,
    PG.ordered_ok false (PG.c_sm_cells K0 s) = true -> PG.sm_empty (PG.c_sm_cells K0 s) = false ->
    typed_ s q = true -> (0 < b)%Z ->
    LMScan.DiscBridge.finite_nonwild (q_K q) (pssm s) -> c08_main_clause (q_K q) (pssm s) ->
    exists H q',
      PG.glue_scan KM PG.Dna s PG.Dna q t b =
        (PG.Value (PG.OScanner CM WM SM0 sq (SCO.sscores F32.t) (map hit_out H)), q') /\
      sq_text q' = sq_text q /\
      (forall i x, In (i, x) H <->
         i + rows s <= length (q_text q) /\
         F32.ge (SCO.score_def F32.add F32.zero (q_K q - 1) (pssm s) (q_text q) i) (F32.of_bits t) = true /\
         x = SCO.score_def F32.add F32.zero (q_K q - 1) (pssm s) (q_text q) i) /\
      NoDup (map fst H).
  Proof.
    intros s q t b Hord Hne Hty Hb Hfin Hmain. unfold PG.glue_scan. cbn [PG.c_sm_cells core_of_models].
    rewrite Hord, Hne. cbn [negb].
    destruct (pycore_conf_total q s) as [q' Hq]. rewrite Hq.
    pose proof (pycore_conf_text _ _ _ Hq) as Ht. pose proof (pycore_conf_ok _ _ _ Hq) as Hw.
    unfold sq_text in Ht. inversion Ht as [[HK Htx]].
    assert (HM : 1 <= rows s).
    { unfold rows_of. destruct (PG.c_sm_cells K0 s); [discriminate | simpl; lia]. }
    destruct (q_ok q') as [HK' [HS' Hs']].
    assert (Hty' : typed_ s q' = true) by (unfold typed in *; rewrite HK; exact Hty).
    rewrite <- HK in Hfin, Hmain.
    pose proof (scan_buffer_spec (q_K q') Ccols (pssm s) (q_text q') (q_st q') HS') as HC02.
    rewrite pssm_of_length in HC02.
    specialize (HC02 Hw HK' ltac:(unfold Ccols; lia) HM (typed_wf _ _ _ _ _ _ K0 s q' Hty') Hs' Hfin Hmain
                     Avx2 (F32.of_bits t) (Z.to_nat b) ltac:(lia)).
    destruct HC02 as [H [HE [Hin Hnd]]].
    exists H, q'. cbn [PG.c_scan core_of_models]. unfold m_scan. rewrite Hty'. cbn [negb].
    replace (rows s =? 0) with false by (symmetry; apply Nat.eqb_neq; lia).
    replace (SM.swrap (q_st q') <? rows s - 1) with false by (symmetry; apply Nat.ltb_ge; exact Hw).
    replace (b <=? 0)%Z with false by (symmetry; apply Z.leb_gt; exact Hb).
    rewrite HE. cbn [PG.liftp PG.obind]. split; [reflexivity|]. split; [exact Ht|].
    split; [exact Hin | exact Hnd].
  Qed.

  (* (6) the fields of PyGlueProofs.core_guarded that these models give.  PARTIAL: score and scan need the
     typing premise (matrix and sequence of the same alphabet: static in Rust, a label in the glue model -
     the invariant "labels agree with values" of the glue's states is not proved), scan also the numeric
     hypothesis of C02 (its totality is only proved together with completeness); every other field of
     core_guarded is about the operations taken from K0 *)
  Theorem pycore_guarded_fields_partial :
    (forall a text, PG.c_stripe KM a text <> PG.CPanic) /\
    (forall q s, exists q', PG.c_configure KM q s = PG.COk q') /\
    (forall q s q', PG.c_configure KM q s = PG.COk q' -> wrap_ok_ s q') /\
    (forall s q, typed_ s q = true -> PG.sm_empty (PG.c_sm_cells KM s) = false -> wrap_ok_ s q ->
                 exists v, PG.c_score KM s q = PG.COk v) /\
    (forall s q t b, typed_ s q = true -> PG.sm_empty (PG.c_sm_cells KM s) = false -> wrap_ok_ s q -> (0 < b)%Z ->
                     LMScan.DiscBridge.finite_nonwild (q_K q) (pssm s) -> c08_main_clause (q_K q) (pssm s) ->
                     exists v, PG.c_scan KM s q t b = PG.COk v).
  Proof.
    split; [|split; [|split; [|split]]].
    - intros a text. cbn [PG.c_stripe core_of_models]. pose proof (stripe_sq_spec a text) as H.
      destruct (encode a text); [destruct H as [q [H _]]|]; rewrite H; discriminate.
    - apply pycore_conf_total.
    - apply pycore_conf_ok.
    - intros s q Hty Hne Hw. cbn [PG.c_sm_cells core_of_models] in Hne.
      assert (HM : 1 <= rows s).
      { unfold rows_of. destruct (PG.c_sm_cells K0 s); [discriminate | simpl; lia]. }
      destruct (q_ok q) as [HK [HS Hs]].
      pose proof (LMScore.C01.C01_score_unstripe F32.t F32.add F32.zero Ccols (q_K q) (pssm s) (q_text q)
                    (SB.of_stripe (q_st q)) ltac:(unfold Ccols; lia) ltac:(lia) Hs
                    (typed_wf _ _ _ _ _ _ K0 s q Hty) (SB.striped_bridge _ _ _ _ HS)) as HC01.
      rewrite pssm_of_length in HC01. specialize (HC01 HM Hw).
      cbn [PG.c_score core_of_models]. unfold m_score. rewrite Hty. cbn [negb].
      replace (rows s =? 0) with false by (symmetry; apply Nat.eqb_neq; lia).
      replace (SM.swrap (q_st q) <? rows s - 1) with false by (symmetry; apply Nat.ltb_ge; exact Hw).
      destruct (SCO.generic_score F32.add F32.zero Ccols (pssm s) (SB.of_stripe (q_st q))) as [sc| | |]; try discriminate.
      eexists; reflexivity.
    - intros s q t b Hty Hne Hw Hb Hfin Hmain. cbn [PG.c_sm_cells core_of_models] in Hne.
      assert (HM : 1 <= rows s).
      { unfold rows_of. destruct (PG.c_sm_cells K0 s); [discriminate | simpl; lia]. }
      destruct (q_ok q) as [HK [HS Hs]].
      pose proof (scan_buffer_spec (q_K q) Ccols (pssm s) (q_text q) (q_st q) HS) as HC02.
      rewrite pssm_of_length in HC02.
      specialize (HC02 Hw HK ltac:(unfold Ccols; lia) HM (typed_wf _ _ _ _ _ _ K0 s q Hty) Hs Hfin Hmain
                       Avx2 (F32.of_bits t) (Z.to_nat b) ltac:(lia)).
      destruct HC02 as [H [HE _]].
      cbn [PG.c_scan core_of_models]. unfold m_scan. rewrite Hty. cbn [negb].
      replace (rows s =? 0) with false by (symmetry; apply Nat.eqb_neq; lia).
      replace (SM.swrap (q_st q) <? rows s - 1) with false by (symmetry; apply Nat.ltb_ge; exact Hw).
      replace (b <=? 0)%Z with false by (symmetry; apply Z.leb_gt; exact Hb).
      rewrite HE. eexists; reflexivity.
  Qed.

  (* (7) core_guarded for the instance, and with it C17's no-panic theorem.  The promise for score / scan is made
     for a matrix and a sequence of the same alphabet: [sm_ty s a] = the rows of s have as many cells as the alphabet
     a has symbols, [sq_ty q a] = q is a sequence over a.  What is NOT discharged here is named, field by field:
     [rest_total] = guarded totality of the operations taken from K0 (C09 / C10 / C11 / C12 / C13 / C14 own them; the
     groups' totality theorems are about exact arithmetic or absent) and of the three observers of StripedScores
     (C07); and, as part of [sm_ty] (a premise on the matrices of the STATE in which the call is made, not on all
     matrices - ill-conditioned ones exist, F14): [scan_numeric], the numeric hypothesis under which C02 proves its
     scanner total (finite non-wildcard cells and C08's main clause - C02 has no totality theorem without it). *)
  Notation sm_ty := (sm_ty CM FM WM SM0 SQ0 SC0 K0).
  Notation rest_total := (rest_total CM FM WM SM0 SQ0 SC0 K0 thr_f max_f argmax_f).

  Theorem pycore_guarded_partial :
    rest_total -> PyGlueProofs.core_guarded CM FM WM SM0 sq (SCO.sscores F32.t) KM sm_ty sq_ty wrap_ok_.
  Proof.
    intros RT. destruct pycore_guarded_fields_partial as [Hst [Hct [Hco [Hsc Hsn]]]].
    constructor; cbn [core_of_models PG.c_count_new PG.c_encode_ok PG.c_from_seqs PG.c_bg_new PG.c_stripe PG.c_to_freq
                      PG.c_to_weight PG.c_rescale PG.c_to_scoring_base PG.c_scoring_new PG.c_revcomp PG.c_max_score
                      PG.c_sm_cells PG.c_threshold PG.c_max PG.c_argmax PG.c_dist_pvalue PG.c_dist_score PG.c_tfm_pvalue
                      PG.c_tfm_score PG.c_dist_sf PG.c_read].
    - apply (rt_count_new _ _ _ _ _ _ _ _ _ _ RT). - apply (rt_encode_ok _ _ _ _ _ _ _ _ _ _ RT). - apply (rt_from_seqs _ _ _ _ _ _ _ _ _ _ RT). - apply (rt_bg_new _ _ _ _ _ _ _ _ _ _ RT).
    - exact Hst.
    - apply (rt_to_freq _ _ _ _ _ _ _ _ _ _ RT). - apply (rt_to_weight _ _ _ _ _ _ _ _ _ _ RT). - apply (rt_rescale _ _ _ _ _ _ _ _ _ _ RT). - apply (rt_to_scoring_base _ _ _ _ _ _ _ _ _ _ RT).
    - apply (rt_scoring_new _ _ _ _ _ _ _ _ _ _ RT). - apply (rt_revcomp _ _ _ _ _ _ _ _ _ _ RT). - apply (rt_max_score _ _ _ _ _ _ _ _ _ _ RT).
    - intros q s _. apply Hct.
    - exact Hco.
    - intros a q s q' Hc Hq. apply pycore_conf_text in Hc. unfold sq_ty, sq_text in *. inversion Hc as [[HK _]]. congruence.
    - intros a s q Hs Hq He Hw. apply Hsc; auto. eapply typed_of_ty; eauto.
    - apply (rt_threshold _ _ _ _ _ _ _ _ _ _ RT). - apply (rt_max _ _ _ _ _ _ _ _ _ _ RT). - apply (rt_argmax _ _ _ _ _ _ _ _ _ _ RT).
    - apply (rt_dist_pvalue _ _ _ _ _ _ _ _ _ _ RT). - apply (rt_dist_score _ _ _ _ _ _ _ _ _ _ RT). - apply (rt_tfm_pvalue _ _ _ _ _ _ _ _ _ _ RT). - apply (rt_tfm_score _ _ _ _ _ _ _ _ _ _ RT).
    - intros a s q t b Hs Hq Ho He Hw Hb.
      destruct (proj2 Hs Ho He) as [Hf Hm]. unfold sq_ty in Hq.
      apply Hsn; auto; try (eapply typed_of_ty; eauto); try (rewrite Hq; assumption).
    - apply (rt_dist_sf _ _ _ _ _ _ _ _ _ _ RT). - apply (rt_read _ _ _ _ _ _ _ _ _ _ RT).
  Qed.

  (* ... hence: a call made in a state whose alphabet labels agree with the values does not end in a
     PanicException - through the glue's guards, C04's configure, C01's scoring pipeline and C02's scanner.
     PARTIAL in exactly: [rest_total] (above), and the premise [st_typed] on the state: alphabet labels agree with
     the values and the scoring matrices of the state satisfy [scan_numeric] (that every state reached from the
     empty one is well labelled is not proved: it needs the typing of the operations taken from K0) *)
  Theorem pycore_call_no_panic_partial :
    rest_total -> forall st c,
    PyGlueProofs.st_typed CM WM SM0 sq (SCO.sscores F32.t) sm_ty sq_ty st ->
    fst (PG.run_call KM st c) <> PG.Done CM WM SM0 sq (SCO.sscores F32.t) PG.Panic.
  Proof.
    intros RT st c Hty.
    eapply (PyGlueProofs.run_call_np CM FM WM SM0 sq (SCO.sscores F32.t) KM sm_ty sq_ty wrap_ok_); eauto.
    apply pycore_guarded_partial. exact RT.
  Qed.

End Theorems.

(* ================================================================ non-vacuity: the instance runs *)

(* the rest of the core for the example: a scoring matrix is its cells *)
Definition K0_cells : PG.core Z Z Z (list (list Z)) unit unit := {|
  PG.c_count_new := fun _ m => PG.COk (Z.of_nat (length m));
  PG.c_encode_ok := fun _ _ => PG.COk tt;
  PG.c_from_seqs := fun _ l => PG.COk (Z.of_nat (length l));
  PG.c_to_freq := fun c _ => PG.COk c;
  PG.c_to_weight := fun f => PG.COk f;
  PG.c_bg_uniform := fun a => repeat 0%Z (PG.ksize a);
  PG.c_bg_new := fun _ p => PG.COk p;
  PG.c_w_bg := fun _ => [];
  PG.c_rescale := fun w _ => PG.COk w;
  PG.c_to_scoring_base := fun _ _ => PG.COk [];
  PG.c_scoring_new := fun _ _ m => PG.COk m;
  PG.c_revcomp := fun s => PG.COk s;
  PG.c_max_score := fun _ => PG.COk 0%Z;
  PG.c_sm_cells := fun s => s;
  PG.c_cm_eq := Z.eqb; PG.c_wm_eq := Z.eqb; PG.c_sm_eq := fun _ _ => true;
  PG.c_dist_sf := fun _ => PG.COk [];
  PG.c_stripe := fun _ _ => PG.COk tt;
  PG.c_configure := fun q _ => PG.COk q;
  PG.c_score := fun _ _ => PG.COk tt;
  PG.c_threshold := fun _ _ => PG.COk [];
  PG.c_max := fun _ => PG.COk None;
  PG.c_argmax := fun _ => PG.COk None;
  PG.c_dist_pvalue := fun _ _ => PG.COk 0%Z; PG.c_dist_score := fun _ _ => PG.COk 0%Z;
  PG.c_tfm_pvalue := fun _ _ => PG.COk 0%Z; PG.c_tfm_score := fun _ _ => PG.COk 0%Z;
  PG.c_scan := fun _ _ _ _ => PG.COk [];
  PG.c_read := fun _ _ _ => [];
  PG.c_read_faulty := fun _ _ _ => (false, []);
  PG.c_lazy_next := fun _ _ => None
|}.

(* max() of the example: the largest score read back from the StripedScores value, as bits *)
Definition ex_scores (sc : SCO.sscores F32.t) : PG.cres (list Z) :=
  match SCO.sc_unstripe Ccols sc with Ok l => PG.COk (map F32.to_bits l) | _ => PG.COk [] end.

Definition KM_ex := core_of_models Z Z Z (list (list Z)) unit unit K0_cells
                      (fun sc _ => ex_scores sc) (fun _ => PG.COk None) (fun _ => PG.COk None).

(* stripe("ACGTAAGT"); ScoringMatrix({"A": [1.0, 1.0]}); a 4-row matrix in between so that the sequence is
   reconfigured; calculate -> the per-position scores (threshold() here hands back all of them);
   scan(threshold=2.0) -> the one window "AA" at position 4, score 2.0 *)
Example pycore_example_runs :
  let one := PG.PFloat 4607182418800017408 in
  let h := [PG.KStripe 0 (PG.PStr [65; 67; 71; 84; 65; 65; 71; 84]%Z) None;
            PG.KScoringInit 1 (PG.PDict [(PG.PStr [65%Z], PG.PList [one; one])]) None None;
            PG.KScoringInit 5 (PG.PDict [(PG.PStr [84%Z], PG.PList [one; one; one; one])]) None None;
            PG.KCalculate 6 5 (PG.PRef 0);
            PG.KCalculate 2 1 (PG.PRef 0);
            PG.KThreshold 2 (PG.PFloat 0);
            PG.KScan 3 (PG.PRef 1) (PG.PRef 0) (Some (PG.PFloat 4611686018427387904)) None;
            PG.KNext 3 None] in
  let r := PG.run_history KM_ex [] h in
  nth 5 r (PG.Unbound _ _ _ _ _) =
    PG.Done _ _ _ _ _ (PG.Value (PG.RIdx _ _ _ _ _ [1065353216; 0; 0; 1065353216; 1073741824; 1065353216; 0]%Z)) /\
  nth 7 r (PG.Unbound _ _ _ _ _) =
    PG.Done _ _ _ _ _ (PG.Value (PG.RHits _ _ _ _ _ [(4, 1073741824)]%Z true)).
Proof. vm_compute. split; reflexivity. Qed.

(* the instance against the IMPLEMENTATION, once: the README example (64 nt, 15-row matrix given cell by cell, threshold
   -10.0) was run through lightmotif-py built from /repo a1b1f91 (lmpy, AVX2 machine, 2026-10-02); the values below are
   what Python returned - the hits IN ITERATION ORDER for block sizes 4 and 1 (the order is not sorted: 27, 32, 18 and
   32, 18, 27) and the 50 scores of calculate.  The glue model over the instance computes exactly these. *)
Example pycore_readme_matches_python :
  let h := [PG.KStripe 0 (PG.PStr [65; 84; 71; 84; 67; 67; 67; 65; 65; 67; 65; 65; 67; 71; 65; 84; 65; 67; 67; 67; 67; 71; 65; 71; 67; 67; 67; 65; 84; 67; 71; 67; 67; 71; 84; 67; 65; 84; 67; 71; 71; 67; 84; 67; 71; 71; 67; 65; 84; 71; 67; 65; 71; 65; 84; 84; 67; 67; 67; 65; 71; 71; 67; 71]%Z) None;
            PG.KScoringInit 1 (PG.PDict [(PG.PStr [65%Z], PG.PList [PG.PFloat 13836375273433464832; PG.PFloat 13836375273433464832; PG.PFloat 13836375273433464832; PG.PFloat 13836375273433464832; PG.PFloat 4610818423222435840; PG.PFloat 13836375273970335744; PG.PFloat 13836375272896593920; PG.PFloat 13836375273970335744; PG.PFloat 4606051736447090688; PG.PFloat 4606051736447090688; PG.PFloat 13836375273433464832; PG.PFloat 13836375272896593920; PG.PFloat 4610818423222435840; PG.PFloat 4610818423222435840; PG.PFloat 13836375272896593920]); (PG.PStr [67%Z], PG.PList [PG.PFloat 13836375273433464832; PG.PFloat 13836375273433464832; PG.PFloat 13836375273433464832; PG.PFloat 13836375273433464832; PG.PFloat 13836375272896593920; PG.PFloat 4606051736447090688; PG.PFloat 4610818423222435840; PG.PFloat 4606051736447090688; PG.PFloat 13836375273970335744; PG.PFloat 13836375273970335744; PG.PFloat 13836375273433464832; PG.PFloat 4610818423222435840; PG.PFloat 13836375272896593920; PG.PFloat 13836375272896593920; PG.PFloat 4610818423222435840]); (PG.PStr [84%Z], PG.PList [PG.PFloat 13836375273433464832; PG.PFloat 4610818422148694016; PG.PFloat 4610818422148694016; PG.PFloat 13836375273433464832; PG.PFloat 13836375272896593920; PG.PFloat 4606051736447090688; PG.PFloat 13836375272896593920; PG.PFloat 4606051736447090688; PG.PFloat 4606051736447090688; PG.PFloat 13836375273970335744; PG.PFloat 4610818422148694016; PG.PFloat 13836375272896593920; PG.PFloat 13836375272896593920; PG.PFloat 13836375272896593920; PG.PFloat 13836375272896593920]); (PG.PStr [71%Z], PG.PList [PG.PFloat 4610818422148694016; PG.PFloat 13836375273433464832; PG.PFloat 13836375273433464832; PG.PFloat 4610818422148694016; PG.PFloat 13836375272896593920; PG.PFloat 13836375273970335744; PG.PFloat 13836375272896593920; PG.PFloat 13836375273970335744; PG.PFloat 13836375273970335744; PG.PFloat 4606051736447090688; PG.PFloat 13836375273433464832; PG.PFloat 13836375272896593920; PG.PFloat 13836375272896593920; PG.PFloat 13836375272896593920; PG.PFloat 13836375272896593920]); (PG.PStr [78%Z], PG.PList [PG.PFloat 18442240474082181120; PG.PFloat 18442240474082181120; PG.PFloat 18442240474082181120; PG.PFloat 18442240474082181120; PG.PFloat 18442240474082181120; PG.PFloat 18442240474082181120; PG.PFloat 18442240474082181120; PG.PFloat 18442240474082181120; PG.PFloat 18442240474082181120; PG.PFloat 18442240474082181120; PG.PFloat 18442240474082181120; PG.PFloat 18442240474082181120; PG.PFloat 18442240474082181120; PG.PFloat 18442240474082181120; PG.PFloat 18442240474082181120])]) None None;
            PG.KScan 2 (PG.PRef 1) (PG.PRef 0) (Some (PG.PFloat 13845191154443747328)) (Some (PG.PInt 4));
            PG.KNext 2 None;
            PG.KScan 3 (PG.PRef 1) (PG.PRef 0) (Some (PG.PFloat 13845191154443747328)) (Some (PG.PInt 1));
            PG.KNext 3 None;
            PG.KCalculate 4 1 (PG.PRef 0);
            PG.KThreshold 4 (PG.PFloat 0)] in
  let r := PG.run_history KM_ex [] h in
  nth 3 r (PG.Unbound _ _ _ _ _) = PG.Done _ _ _ _ _ (PG.Value (PG.RHits _ _ _ _ _ [(27, 3234719710); (32, 3239010474); (18, 3232763308)]%Z true)) /\
  nth 5 r (PG.Unbound _ _ _ _ _) = PG.Done _ _ _ _ _ (PG.Value (PG.RHits _ _ _ _ _ [(32, 3239010474); (18, 3232763308); (27, 3234719710)]%Z true)) /\
  nth 7 r (PG.Unbound _ _ _ _ _) = PG.Done _ _ _ _ _ (PG.Value (PG.RIdx _ _ _ _ _ [3250098505; 3247795665; 3245572556; 3247306564; 3247795665; 3250098504; 3247306564; 3248284766; 3252401343; 3253725981; 3244594355; 3251912243; 3245572557; 3240966876; 3240966878; 3249609402; 3256555781; 3254215081; 3232763308; 3250587606; 3247795666; 3245572557; 3255648912; 3247306563; 3240966878; 3254215083; 3250098505; 3234719710; 3254704183; 3250098505; 3245572556; 3254704183; 3239010474; 3251912244; 3252401343; 3244594356; 3245572557; 3251912244; 3250098504; 3247795666; 3244594354; 3247795665; 3251912243; 3246471027; 3247306564; 3247795665; 3247306564; 3244594354; 3254215081; 3247795665]%Z)).
Proof. vm_compute. repeat split; reflexivity. Qed.

(* the hypotheses of pycore_call_no_panic_partial are satisfiable: the example core is total on everything it
   provides, and the state after the first three calls of the example history is well labelled - its matrices
   pass the executable condition e2e_wc, which gives finite_nonwild and C08's main clause *)
Example pycore_rest_total_satisfiable :
  E2EPyCoreDefs.rest_total Z Z Z (list (list Z)) unit unit K0_cells (fun sc _ => ex_scores sc) (fun _ => PG.COk None) (fun _ => PG.COk None).
Proof.
  constructor; cbn; try (intros; discriminate); try (intros; eexists; reflexivity); try (intros ? ? ? []).
  intros sc _. unfold ex_scores. destruct (SCO.sc_unstripe Ccols sc); eexists; reflexivity.
Qed.

Example pycore_state_typed_satisfiable :
  let one := PG.PFloat 4607182418800017408 in
  let h := [PG.KStripe 0 (PG.PStr [65; 67; 71; 84; 65; 65; 71; 84]%Z) None;
            PG.KScoringInit 1 (PG.PDict [(PG.PStr [65%Z], PG.PList [one; one])]) None None;
            PG.KScoringInit 5 (PG.PDict [(PG.PStr [84%Z], PG.PList [one; one; one; one])]) None None] in
  let st := fold_left (fun st c => snd (PG.run_call KM_ex st c)) h [] in
  PyGlueProofs.st_typed Z Z (list (list Z)) sq (SCO.sscores F32.t)
    (E2EPyCoreDefs.sm_ty Z Z Z (list (list Z)) unit unit K0_cells) sq_ty st.
Proof.
  cbv zeta. intros n o H.
  assert (Hwc : forall m : list (list Z), e2e_wc 5 (map (map F32.of_bits) m) = true ->
                 forallb (fun row : list Z => length row =? 5) m = true ->
                 E2EPyCoreDefs.sm_ty Z Z Z (list (list Z)) unit unit K0_cells m PG.Dna).
  { intros m W T. split; [exact T|]. intros _ _. split; [apply e2e_wc_finite | apply c08_main_clause_wc]; exact W. }
  destruct n as [|[|[|[|[|[|n]]]]]]; vm_compute in H; try discriminate;
    inversion H; subst o; try (apply Hwc; vm_compute; reflexivity).
  vm_compute. reflexivity.
Qed.
