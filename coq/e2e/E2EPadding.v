(* Composition of property C01 (coq/score: what every scoring backend writes into the score
   matrix) with the padding clause of property C07 (coq/maxi).

   C07's second sentence: "when the wildcard column of the scoring matrix is -inf, float cells
   past the last valid position hold -inf, so the float maximum is then the best valid position's
   score whenever one is finite".  coq/maxi states it on a matrix m whose cells ARE the defined
   scores (C07_padding_neg_inf: hypothesis "index_usize m i = Ok (score_def .. i)", i.e. the
   CONCLUSION of C01, taken as a hypothesis there because LMMaxi does not import LMScore).
   Here the hypothesis is discharged: the statement starts from a striped sequence
   ([Striped 32 (K-1) s q]: the cells of linear index >= |s| hold the wildcard K-1 -- what
   Stripe::stripe / to_striped build (C04) and, since /repo 740d563, StripedSequence::sample too),
   a scoring matrix whose wildcard column is -inf, and the no-NaN / no-+inf side condition on the
   partial sums, and concludes about the matrix the generic / AVX2 / SSE2 / dispatched scoring
   pipelines return and about Maximum::max / argmax and Threshold::threshold of EVERY arm of the
   C07 dispatcher evaluated on that matrix.

   The premise matters: on a padded state (StripedSequence::new on a hand-filled matrix whose
   cells past the end hold ordinary symbols) the cells of index >= max_index are scores of
   windows of those symbols (C01_score_cells_padded, C01_score_index_padded_refuted): the clause
   is not promised there, only the first sentence of C07 (on whatever the cells are) -- see
   C07_padding_needs_wildcard_padding (witness) and C07_first_sentence_padded (the first sentence
   composed with C01 on every padded state) below. *)
From Coq Require Import List Arith Bool Lia ZArith NArith.
From Flocq Require Import BinarySingleNaN.
From LMBase Require Import Res ListX IEEE.
From LMScore Require Import ScoreModel ScorePadModel SimdModel GenAvx2 GenLane4 ScoreProofs ScorePad C01.
From LMMaxi Require MaxiModel MaxiProofs MaxiIEEE MaxiTop C07.
Import ListNotations.

Module MM := LMMaxi.MaxiModel.
Module MP := LMMaxi.MaxiProofs.
Module MI := LMMaxi.MaxiIEEE.
Module MT := LMMaxi.MaxiTop.
Module MC := LMMaxi.C07.

(* ---------- the two groups' closed forms of the defined score are the same function ---------- *)

Lemma score_def_maxi_score {T} (add : T -> T -> T) (zero : T) (K : nat)
      (pssm : list (list T)) (s : list nat) (i : nat) :
  MM.score_def add zero (K - 1) zero pssm s i = score_def add zero (K - 1) pssm s i.
Proof.
  unfold MM.score_def. rewrite (MT.terms_seq_form (K - 1) zero pssm s i).
  rewrite (score_def_fold add zero K pssm s i). reflexivity.
Qed.

(* ---------- no NaN among the cells: the side condition covers the final sum ---------- *)

Lemma prefix_ok_fold {T} (add : T -> T -> T) (okv : T -> bool) :
  forall (l : list T) (acc : T), MM.prefix_ok add okv acc l = true -> okv (fold_left add l acc) = true.
Proof.
  induction l as [|x l IH]; intros acc H; cbn [MM.prefix_ok fold_left] in *.
  - apply andb_true_iff in H. tauto.
  - apply andb_true_iff in H. destruct H as [_ H]. apply andb_true_iff in H. destruct H as [_ H]. auto.
Qed.

Lemma f32_okv_good (x : F32.t) : MM.f32_okv x = true -> MI.f32_good x.
Proof. unfold MI.f32_good. destruct x as [sg|[|]| |sg mx ex H]; cbn; intros E; try reflexivity; discriminate. Qed.

Lemma wf_of_rows {T} (C : nat) (m : list (list T)) :
  (forall r, r < length m -> length (nth r m []) = C) -> MP.wf C m.
Proof.
  intros H. unfold MP.wf. apply Forall_forall. intros row Hin.
  destruct (In_nth m row [] Hin) as (r & Hr & E). rewrite <- E. auto.
Qed.

(* ---------- the composed statement ---------- *)

Section Composed.
  Variable K : nat.
  Variable pssm : list (list F32.t).
  Variable pads : nat -> list F32.t.
  Variable s : list nat.
  Variable q : sseq.

  (* C01's hypotheses: a configured striped sequence (wildcard padding), a K-column matrix, L >= M >= 1 *)
  Hypothesis HK : 0 < K.
  Hypothesis Hs : Forall (fun x => x < K) s.
  Hypothesis Hp : pssm_wf K pssm.
  Hypothesis Hst : Striped 32 (K - 1) s q.
  Hypothesis HM : 1 <= length pssm.
  Hypothesis Hwrap : length pssm - 1 <= sq_wrap q.
  Hypothesis HL : length pssm <= length s.
  (* the clause's own premises: the wildcard column is -inf; no term / partial sum is NaN or +inf *)
  Hypothesis Hwild : forall row, In row pssm -> nth (K - 1) row F32.zero = F32.ninf.
  Hypothesis Hok : forall i, i < seq_R 32 (length s) * 32 ->
                     MM.terms_ok F32.add F32.zero (K - 1) F32.zero MM.f32_okv pssm s i = true.

  Let V := length s + 1 - length pssm.
  Let sdef := score_def F32.add F32.zero (K - 1) pssm s.

  (* what the scoring pipelines return: one matrix for every backend / dispatcher arm, R rows of 32
     non-NaN cells, max_index = L - M + 1, cell i = defined score of position i, -inf from max_index on *)
  Theorem C07_padding_scored :
    forall ar : arm,
    exists sc,
      generic_score F32.add F32.zero 32 pssm q = Ok sc /\
      score_with (avx2_rows_into F32.add F32.zero avx2_permute_consts avx2_gather_consts K pssm pads) q = Ok sc /\
      score_with (sse2_rows_into F32.add F32.zero sse2_consts 32 pssm) q = Ok sc /\
      score_with (dispatch_rows_into F32.add F32.zero dispatch_score_f32 avx2_permute_consts
                                     avx2_gather_consts sse2_consts K pssm pads ar) q = Ok sc /\
      sc_max sc = V /\
      length (sc_mat sc) = seq_R 32 (length s) /\
      MP.wf 32 (sc_mat sc) /\
      MP.all_good MI.f32_good (sc_mat sc) /\
      (forall i, i < length (sc_mat sc) * 32 -> MM.index_usize (sc_mat sc) i = Ok (sdef i)) /\
      (forall i, V <= i -> i < length (sc_mat sc) * 32 -> MM.index_usize (sc_mat sc) i = Ok F32.ninf).
  Proof.
    intros ar.
    destruct (C01_backends_full_scan K pssm pads s q ar HK Hs Hp Hst HM Hwrap HL)
      as (sc & Eg & Ea & Es & Ed & Hmax & Hcell).
    destruct (C01_score_generic_shape F32.t F32.add F32.zero 32 K pssm s q ltac:(lia) HK Hs Hp Hst HM Hwrap HL)
      as (sc' & Eg' & Hlen & _ & _ & Hrows & _).
    rewrite Eg in Eg'. inversion Eg'; subst sc'. clear Eg'.
    exists sc. do 4 (split; [assumption|]). split; [exact Hmax|]. split; [exact Hlen|].
    assert (Hwf : MP.wf 32 (sc_mat sc)) by (apply wf_of_rows; intros r Hr; apply Hrows; lia).
    split; [exact Hwf|].
    assert (Hidx : forall i, i < length (sc_mat sc) * 32 ->
                     MM.index_usize (sc_mat sc) i = Ok (MM.score_def F32.add F32.zero (K - 1) F32.zero pssm s i)).
    { apply (MT.cells_from_C01_shape F32.add F32.zero 32 K (sc_mat sc) pssm s Hwf).
      intros r c Hr Hc. rewrite Hlen in Hr |- *. rewrite (Hcell r c Hr Hc).
      apply (score_def_fold F32.add F32.zero K pssm s). }
    assert (Hok' : forall i, i < length (sc_mat sc) * 32 ->
                     MM.terms_ok F32.add F32.zero (K - 1) F32.zero MM.f32_okv pssm s i = true)
      by (intros i Hi; apply Hok; rewrite <- Hlen; exact Hi).
    split; [|split].
    - unfold MP.all_good. apply Forall_forall. intros x Hx.
      destruct (MT.in_cells_index 32 (sc_mat sc) x Hwf Hx) as (i & Hi & Ei).
      rewrite (Hidx i Hi) in Ei. inversion Ei; subst x. apply f32_okv_good.
      apply (prefix_ok_fold F32.add MM.f32_okv). exact (Hok' i Hi).
    - intros i Hi. rewrite (Hidx i Hi). f_equal. apply score_def_maxi_score.
    - destruct (MC.C07_padding_neg_inf (K - 1) F32.zero 32 (sc_mat sc) pssm s Hwf Hidx Hwild ltac:(lia) Hok')
        as [Hpad _]. exact Hpad.
  Qed.

  (* ... and what Maximum / Threshold of every arm of the C07 dispatcher answer on that matrix when some
     valid position has a finite score: the maximum is held by a valid position and bounds every valid
     position's defined score; the arg-maximum (the vector arms under their max_index guard, discharged
     by L <= u32::MAX) designates a valid position; for a threshold above -inf every reported cell is a
     valid position whose defined score is >= t, and every such position is reported *)
  Theorem C07_padding_answers :
    forall (ar : arm) (a : MM.arm) (t : F32.t),
    (exists i, i < V /\ F32.is_finite (sdef i) = true) ->
    exists sc,
      score_with (dispatch_rows_into F32.add F32.zero dispatch_score_f32 avx2_permute_consts
                                     avx2_gather_consts sse2_consts K pssm pads ar) q = Ok sc /\
      sc_max sc = V /\
      (exists v,
         MM.dispatch_max_f32 F32.le F32.max_x86 F32.max a (sc_mat sc) = Ok (Some v) /\
         (exists i, i < V /\ sdef i = v) /\
         (forall j, j < V -> F32.le (sdef j) v = true)) /\
      ((N.of_nat (length s) <= 4294967295)%N ->
       exists rc,
         MM.dispatch_argmax_f32 F32.le F32.lt F32.ninf a (N.of_nat (sc_max sc)) (sc_mat sc) = Ok (Some rc) /\
         MM.offset (sc_mat sc) rc < V /\
         (forall j, j < V -> F32.le (sdef j) (sdef (MM.offset (sc_mat sc) rc)) = true)) /\
      (MI.f32_good t -> F32.le t F32.ninf = false ->
       forall rc, In rc (MM.dispatch_threshold F32.le a (sc_mat sc) t) <->
                  (fst rc < length (sc_mat sc) /\ snd rc < 32 /\
                   MM.offset (sc_mat sc) rc < V /\ F32.le t (sdef (MM.offset (sc_mat sc) rc)) = true)).
  Proof.
    intros ar a t (i0 & Hi0 & Hfin).
    destruct (C07_padding_scored ar) as (sc & _ & _ & _ & Ed & Hmax & Hlen & Hwf & Hgood & Hidx & Hpad).
    exists sc. split; [exact Ed|]. split; [exact Hmax|].
    set (m := sc_mat sc) in *.
    assert (HVn : V <= length m * 32).
    { rewrite Hlen. unfold V, seq_R.
      pose proof (Nat.div_mod (length s + (32 - 1)) 32 ltac:(lia)) as Hd.
      pose proof (Nat.mod_upper_bound (length s + (32 - 1)) 32 ltac:(lia)) as Hm. lia. }
    assert (Hvalid : forall i, i < V -> MM.index_usize m i = Ok (sdef i)) by (intros i Hi; apply Hidx; lia).
    assert (Hex : exists i x, i < V /\ MM.index_usize m i = Ok x /\ F32.le x F32.ninf = false).
    { exists i0, (sdef i0). repeat split; auto. apply MI.f32_finite_not_le_ninf; auto. }
    assert (Hne : m <> []).
    { intros E. rewrite E in HVn. cbn in HVn. lia. }
    destruct (MC.C07_dispatch_f32 F32.t MI.f32_good F32.le F32.lt F32.max_x86 F32.max F32.ninf MT.f32_order_facts
                a (N.of_nat (sc_max sc)) m t Hwf Hgood) as (Ham & _ & (om & Emax & Hms) & Hth).
    split; [|split].
    - destruct om as [v|]; [|cbn in Hms; contradiction].
      exists v. split; [exact Emax|]. destruct Hms as [_ Hv].
      destruct (MT.padding_max F32.le F32.ninf 32 V m v Hwf Hpad Hex Hv) as [(i & Hi & Ei) Hub].
      split.
      + exists i. split; auto. rewrite (Hvalid i Hi) in Ei. inversion Ei; reflexivity.
      + intros j Hj. exact (Hub j (sdef j) Hj (Hvalid j Hj)).
    - intros HL32.
      assert (Hr32 : MT.rows_fit32 m).
      { unfold MT.rows_fit32. fold m in Hlen. rewrite Hlen. unfold seq_R.
        assert ((length s + (32 - 1)) / 32 <= length s).
        { destruct (length s) as [|n]; [cbn; lia|].
          apply Nat.div_le_upper_bound; lia. }
        lia. }
      assert (Hi32 : MT.index_fits32 (N.of_nat (sc_max sc))).
      { unfold MT.index_fits32. rewrite Hmax. unfold V. lia. }
      destruct (Ham Hr32 Hi32) as (o & Eam & Hspec).
      destruct o as [rc|]; [|cbn in Hspec; contradiction].
      exists rc. split; [exact Eam|].
      pose proof (MT.padding_argmax F32.le F32.ninf 32 V m rc Hwf Hpad Hex Hspec) as Hoff.
      split; [exact Hoff|].
      intros j Hj. destruct Hspec as (_ & Hr & Hc & v & Hv & Hub). destruct rc as [r c]. cbn [fst snd] in *.
      destruct (MP.argmax_offset m r c Hr) as [_ E]. rewrite (Hvalid _ Hoff) in E. rewrite Hv in E.
      inversion E as [E']. rewrite E'. apply Hub. eapply MT.index_usize_in_cells. exact (Hvalid j Hj).
    - intros Hgt Htn [r c]. cbn [fst snd]. destruct Hth as [_ Hiff]. rewrite (Hiff r c). split.
      + intros (v & Hg & Ht). destruct (MP.get_ok_range 32 m r c v Hwf Hg) as [Hr Hc].
        destruct (MP.argmax_offset m r c Hr) as [_ E]. rewrite Hg in E.
        assert (Hlt : MM.offset m (r, c) < V).
        { destruct (Nat.lt_ge_cases (MM.offset m (r, c)) V) as [|Hge]; auto. exfalso.
          rewrite (Hpad _ Hge (MP.offset_lt 32 m r c Hr Hc)) in E. inversion E; subst v.
          rewrite Ht in Htn. discriminate. }
        repeat split; auto. rewrite (Hvalid _ Hlt) in E. inversion E as [E']. rewrite E'. exact Ht.
      + intros (Hr & Hc & Hlt & Ht). exists (sdef (MM.offset m (r, c))). split; auto.
        destruct (MP.argmax_offset m r c Hr) as [_ E]. rewrite <- E. apply Hvalid. exact Hlt.
  Qed.
End Composed.

(* ---------- the premise "cells past the end hold the wildcard" is needed ----------
   Witness: DNA, 32 columns, the 3 symbols AAA in a one-row matrix whose 29 padding cells hold C
   (StripedSequence::new on a hand-filled matrix, then configure_wrap(1)); a 2-column motif scoring
   A with 0.0 and C / T / G with 1.0, wildcard column -inf.  max_index = 2 and the two valid positions
   score 0.0 (finite), yet cell 2 holds 1.0 and cells 3 .. 30 hold 2.0: the maximum of the matrix
   (every arm) is 2.0, not the best valid score 0.0, and the arg-maximum designates a position
   >= max_index (pad_witness_check).  The state is Padded (C01's weaker predicate) but not Striped; the first sentence of
   C07 (maximum of the cells, whatever they are) still holds -- only the padding clause fails. *)
Definition pad_witness_q : sseq :=
  mkSeq 3 1 [ [0; 0; 0] ++ repeat 1 29 ; [0; 0] ++ repeat 1 29 ++ [4] ].
Definition pad_witness_pssm : list (list F32.t) :=
  let z := F32.zero in let one := F32.of_bits 0x3f800000 in
  [ [z; one; one; one; F32.ninf] ; [z; one; one; one; F32.ninf] ].

(* the facts about the witness, as one boolean (binary32 values are compared through their bit patterns:
   normal forms of Flocq floats carry proof terms that are slow to read back) *)
Definition pad_witness_check : bool :=
  match generic_score F32.add F32.zero 32 pad_witness_pssm pad_witness_q with
  | Ok sc =>
      let m := sc_mat sc in
      let bits_are (r : res F32.t) (b : Z) := match r with Ok v => Z.eqb (F32.to_bits v) b | _ => false end in
      (* max_index = 2, one row *)
      (sc_max sc =? 2) && (length m =? 1) &&
      (* the two valid positions hold their defined score 0.0 (finite) ... *)
      forallb (fun i => bits_are (MM.index_usize m i) 0%Z) [0; 1] &&
      forallb (fun i => Z.eqb (F32.to_bits (score_def F32.add F32.zero 4 pad_witness_pssm [0; 0; 0] i)) 0%Z) [0; 1] &&
      (* ... but cell 2 holds 1.0 and cell 3 holds 2.0, past max_index: not -inf *)
      bits_are (MM.index_usize m 2) 0x3f800000%Z && bits_are (MM.index_usize m 3) 0x40000000%Z &&
      (* the maximum of every arm is 2.0, not the best valid score 0.0 *)
      forallb (fun a => match MM.dispatch_max_f32 F32.le F32.max_x86 F32.max a m with
                        | Ok (Some v) => Z.eqb (F32.to_bits v) 0x40000000%Z
                        | _ => false
                        end) [MM.AGeneric; MM.ASse2; MM.AAvx2] &&
      (* the arg-maximum of every arm designates a position >= max_index *)
      forallb (fun a => match MM.dispatch_argmax_f32 F32.le F32.lt F32.ninf a 2%N m with
                        | Ok (Some rc) => 2 <=? MM.offset m rc
                        | _ => false
                        end) [MM.AGeneric; MM.ASse2; MM.AAvx2]
  | _ => false
  end.

Theorem C07_padding_needs_wildcard_padding :
  let s := [0; 0; 0] in
  Padded 32 4 s pad_witness_q /\ ~ Striped 32 4 s pad_witness_q /\
  (forall row, In row pad_witness_pssm -> nth 4 row F32.zero = F32.ninf) /\
  (forall i, i < 32 -> MM.terms_ok F32.add F32.zero 4 F32.zero MM.f32_okv pad_witness_pssm s i = true) /\
  pad_witness_check = true.
Proof.
  cbv zeta. split; [|split; [|split; [|split]]].
  - assert (E : [0; 0; 0] = logical_seq 32 4 pad_witness_q) by (vm_compute; reflexivity).
    rewrite E. apply (C01.check_padded_sound 32 5); [lia|]. vm_compute. reflexivity.
  - intros [_ [_ [_ Hcell]]]. specialize (Hcell 0 3 ltac:(cbn; lia) ltac:(lia)). vm_compute in Hcell. discriminate.
  - intros row [<-|[<-|[]]]; reflexivity.
  - intros i Hi.
    assert (H : forallb (fun i => MM.terms_ok F32.add F32.zero 4 F32.zero MM.f32_okv pad_witness_pssm [0; 0; 0] i)
                        (seq 0 32) = true) by (vm_compute; reflexivity).
    rewrite forallb_forall in H. apply H. apply in_seq. lia.
  - vm_compute. reflexivity.
Qed.

(* ---------- hand-filled matrices (StripedSequence::new): the FIRST sentence of C07, composed with C01 ----------
   Any padded state (the cells of linear index >= L hold the symbols [pad], whatever they are; rows >= ceil(L/32)),
   configured; any K-column matrix; no NaN / +inf partial sum over sequence ++ padding.  Every scoring backend
   returns ONE matrix whose cell i is the defined score of position i of s ++ pad (so the cells past max_index are
   scores of windows of padding symbols, not -inf), and on THAT matrix every arm's maximum / arg-maximum /
   threshold meets its specification: the largest cell, a cell holding it, exactly the cells >= t.  Nothing is
   said about max_index: the reported position may be a padding position (C07_padding_needs_wildcard_padding). *)
Theorem C07_first_sentence_padded :
  forall (K : nat) (pssm : list (list F32.t)) (pads : nat -> list F32.t) (s pad : list nat) (q : sseq)
         (ar : arm) (a : MM.arm) (t : F32.t),
    mat_wf 32 K (sq_mat q) -> pssm_wf K pssm ->
    sq_len q = length s -> Striped 32 (K - 1) (s ++ pad) (full_len 32 q) -> length (s ++ pad) = pad_R q * 32 ->
    1 <= length pssm -> length pssm - 1 <= sq_wrap q -> length pssm <= length s ->
    (Z.of_nat (length pssm) <= 2 ^ 23)%Z ->
    (forall i, i < pad_R q * 32 ->
       MM.terms_ok F32.add F32.zero (K - 1) F32.zero MM.f32_okv pssm (s ++ pad) i = true) ->
    exists sc,
      generic_score F32.add F32.zero 32 pssm q = Ok sc /\
      score_with (avx2_rows_into F32.add F32.zero avx2_permute_consts avx2_gather_consts K pssm pads) q = Ok sc /\
      score_with (sse2_rows_into F32.add F32.zero sse2_consts 32 pssm) q = Ok sc /\
      score_with (dispatch_rows_into F32.add F32.zero dispatch_score_f32 avx2_permute_consts
                                     avx2_gather_consts sse2_consts K pssm pads ar) q = Ok sc /\
      sc_max sc = length s + 1 - length pssm /\ length (sc_mat sc) = pad_R q /\
      (forall i, i < pad_R q * 32 ->
         MM.index_usize (sc_mat sc) i = Ok (score_def F32.add F32.zero (K - 1) pssm (s ++ pad) i)) /\
      (exists o, MM.dispatch_max_f32 F32.le F32.max_x86 F32.max a (sc_mat sc) = Ok o /\ MP.max_spec F32.le (sc_mat sc) o) /\
      (MT.rows_fit32 (sc_mat sc) -> MT.index_fits32 (N.of_nat (sc_max sc)) ->
       exists o, MM.dispatch_argmax_f32 F32.le F32.lt F32.ninf a (N.of_nat (sc_max sc)) (sc_mat sc) = Ok o /\
                 MP.argmax_spec F32.le 32 (sc_mat sc) o) /\
      MP.threshold_spec F32.le (sc_mat sc) t (MM.dispatch_threshold F32.le a (sc_mat sc) t).
Proof.
  intros K pssm pads s pad q ar a t Hm Hp Hlen Hst Hfill HM Hwrap HL HM23 Hok.
  destruct (C01_score_cells_padded F32.t F32.add F32.zero 32 K pssm s pad q ltac:(lia) Hm Hp Hlen Hst Hfill HM Hwrap HL)
    as (sc & Eg & Hrows & Hmax & Hrl & Hcell & _ & _).
  assert (Hpad : Padded 32 (K - 1) s q) by (split; [exact Hlen|exists pad; split; assumption]).
  destruct (C01_every_backend_padded K pssm pads s q ar Hm Hp Hpad HM Hwrap HM23)
    as (sc' & vals & Eg' & Ea & Es & Ed & _).
  rewrite Eg in Eg'. inversion Eg'; subst sc'. clear Eg'.
  exists sc. do 4 (split; [assumption|]). split; [exact Hmax|]. split; [exact Hrows|].
  assert (Hwf : MP.wf 32 (sc_mat sc)) by (apply wf_of_rows; intros r Hr; apply Hrl; lia).
  assert (Hidx : forall i, i < length (sc_mat sc) * 32 ->
                   MM.index_usize (sc_mat sc) i = Ok (MM.score_def F32.add F32.zero (K - 1) F32.zero pssm (s ++ pad) i)).
  { apply (MT.cells_from_C01_shape F32.add F32.zero 32 K (sc_mat sc) pssm (s ++ pad) Hwf).
    intros r c Hr Hc. rewrite Hrows in Hr |- *. rewrite (Hcell r c Hr Hc).
    apply (score_def_fold F32.add F32.zero K pssm (s ++ pad)). }
  assert (Hgood : MP.all_good MI.f32_good (sc_mat sc)).
  { unfold MP.all_good. apply Forall_forall. intros x Hx.
    destruct (MT.in_cells_index 32 (sc_mat sc) x Hwf Hx) as (i & Hi & Ei).
    rewrite (Hidx i Hi) in Ei. inversion Ei; subst x. apply f32_okv_good.
    apply (prefix_ok_fold F32.add MM.f32_okv). apply Hok. rewrite <- Hrows. exact Hi. }
  split.
  - intros i Hi. rewrite <- Hrows in Hi. rewrite (Hidx i Hi). f_equal. apply score_def_maxi_score.
  - destruct (MC.C07_dispatch_f32 F32.t MI.f32_good F32.le F32.lt F32.max_x86 F32.max F32.ninf MT.f32_order_facts
                a (N.of_nat (sc_max sc)) (sc_mat sc) t Hwf Hgood) as (Ham & _ & Hmx & Hth).
    split; [exact Hmx|]. split; [exact Ham|exact Hth].
Qed.
