(* Bridges between the groups' models of the binary32 SCORE OF A POSITION.

   coq/score (property C01) defines the score of position i as
       score_def add zero N pssm s i = fold_left add [pssm[j][s[i+j]] | j < M] zero
   and models ScoringMatrix::score_position (score_position) on its own sseq record;
   coq/scan re-models ScoringMatrix::score_position (c_score_position, via Index<usize>
   written with Nat.divmod) and writes the closed form as score_def K sq pssm i over
   window_cells.  Here: the two closed forms are the same function, and the two models of
   score_position return the same value (or both panic) on EVERY input. *)
From Coq Require Import List Arith Bool Lia ZArith.
From LMBase Require Import Res ListX IEEE.
From LMScore Require ScoreModel.
From LMScan Require ScanModel ScanConcrete ConcreteProofs.
Import ListNotations.

Module SCO := LMScore.ScoreModel.
Module SC := LMScan.ScanConcrete.
Module CP := LMScan.ConcreteProofs.

(* same Ok value, or both panic (the panic site numbers are private to each group) *)
Definition rsim {A} (x y : res A) : Prop :=
  match x, y with
  | Ok a, Ok b => a = b
  | Panic _, Panic _ => True
  | _, _ => False
  end.

Lemma rsim_ok_l {A} (x y : res A) a : rsim x y -> x = Ok a -> y = Ok a.
Proof. intros H ->. destruct y; simpl in H; try contradiction. now subst. Qed.

Lemma rsim_ok_r {A} (x y : res A) a : rsim x y -> y = Ok a -> x = Ok a.
Proof. intros H ->. destruct x; simpl in H; try contradiction. now subst. Qed.

(* ---------- the closed forms ---------- *)

Lemma terms_from_window {T} (zero : T) (K : nat) (s : list nat) (i : nat) :
  forall (rows : list (list T)) (j : nat),
    SCO.terms_from zero j rows (fun j => nth (i + j) s (K - 1)) =
    map (fun jr => nth (nth (i + fst jr) s (K - 1)) (snd jr) zero) (combine (seq j (length rows)) rows).
Proof.
  induction rows as [|prow rest IH]; intros j; simpl; [reflexivity|].
  f_equal. apply IH.
Qed.

(* scan's score_def IS C01's score_def (binary32 instance: IEEE addition, from +0.0,
   wildcard K-1 past the end of the sequence) *)
Theorem score_def_bridge (K : nat) (sq : list nat) (pssm : list (list F32.t)) (i : nat) :
  CP.score_def K sq pssm i = SCO.score_def F32.add F32.zero (K - 1) pssm sq i.
Proof.
  unfold CP.score_def, CP.window_cells, SCO.score_def, SCO.score_terms.
  now rewrite terms_from_window.
Qed.

(* ---------- Index<usize> of the striped sequence ---------- *)

Lemma seq_index_sim (sm : list (list nat)) (L wrap idx : nat) :
  rsim (SC.seq_index sm wrap idx) (SCO.sq_index (SCO.mkSeq L wrap sm) idx).
Proof.
  unfold SC.seq_index, SCO.sq_index, SCO.seq_rows. cbn [SCO.sq_mat SCO.sq_wrap].
  destruct (Nat.ltb_spec (length sm) wrap) as [Hlt|Hge].
  - replace (length sm - wrap) with 0 by lia. simpl. exact I.
  - cbn [rbind]. destruct (length sm - wrap) as [|y] eqn:E.
    + simpl. exact I.
    + cbv zeta.
      change (fst (Nat.divmod idx y 0 y)) with (idx / S y).
      change (y - snd (Nat.divmod idx y 0 y)) with (idx mod S y).
      change (S y =? 0) with false. cbv iota.
      destruct (nth_error sm (idx mod S y)) as [row|]; [|exact I].
      destruct (nth_error row (idx / S y)); simpl; auto.
Qed.

(* ---------- ScoringMatrix::score_position ---------- *)

Lemma score_pos_from_sim (sm : list (list nat)) (L wrap pos : nat) :
  forall (rows : list (list F32.t)) (j : nat) (acc : F32.t),
    rsim (SC.score_pos_from sm wrap rows pos j acc)
         (SCO.score_position_go F32.add rows (SCO.mkSeq L wrap sm) pos j acc).
Proof.
  induction rows as [|prow rest IH]; intros j acc; simpl; [reflexivity|].
  pose proof (seq_index_sim sm L wrap (j + pos)) as Hs. rewrite (Nat.add_comm pos j).
  destruct (SC.seq_index sm wrap (j + pos)) as [sym| | |];
    destruct (SCO.sq_index (SCO.mkSeq L wrap sm) (j + pos)) as [sym'| | |];
    simpl in Hs; try contradiction; simpl; auto.
  subst sym'. destruct (nth_error prow sym); simpl; auto.
Qed.

(* the two models of ScoringMatrix::score_position agree on every matrix, every striped
   matrix (well formed or not), every position *)
Theorem score_position_bridge (sm : list (list nat)) (L wrap : nat) (pssm : list (list F32.t)) (pos : nat) :
  rsim (SC.c_score_position sm wrap pssm pos)
       (SCO.score_position F32.add F32.zero pssm (SCO.mkSeq L wrap sm) pos).
Proof. unfold SC.c_score_position, SCO.score_position. apply score_pos_from_sim. Qed.
