(* Bridge from the encoder model of property C05 (coq/encode: byte strings -> symbols as N,
   every pipeline / dispatcher arm) to the symbol lists (list nat, symbols < K) that the
   striping, scoring and scanning models work on. *)
From Coq Require Import List Arith Bool Lia NArith.
From Coq.Strings Require Import Byte.
From LMBase Require Import Res ListX.
From LMEncode Require EncodeModel GenAbc EncodeInst EncodeProofs EncodeInstProofs C05.
Import ListNotations.

Module EM := LMEncode.EncodeModel.
Module EI := LMEncode.EncodeInst.

(* the symbols as the natural numbers `Symbol::as_index` returns *)
Definition syms_nat (syms : list EM.sym) : list nat := map N.to_nat syms.

(* what Pipeline::encode returns for a text, in the representation of the other groups *)
Definition encode_nat (p : EI.pipeline) (A : EM.abc) (junk : nat -> EM.sym) (text : list byte) : res (list nat) :=
  rmap syms_nat (EI.pipeline_encode_raw p A junk text).

Lemma index_of_bound (b : byte) : forall (l : list byte) (i x : N),
  EM.index_of b l i = Some x ->
  (i <= x)%N /\ (N.to_nat x < N.to_nat i + length l) /\ nth_error l (N.to_nat x - N.to_nat i) = Some b.
Proof.
  induction l as [|y r IH]; intros i x H; simpl in H; [discriminate|].
  destruct (Byte.eqb b y) eqn:E.
  - inversion H; subst. apply Byte.byte_dec_bl in E. subst y.
    split; [lia|]. split; [simpl; lia|]. now rewrite Nat.sub_diag.
  - destruct (IH _ _ H) as (H1 & H2 & H3). split; [lia|]. split; [simpl; lia|].
    replace (N.to_nat x - N.to_nat i) with (S (N.to_nat x - N.to_nat (N.succ i))) by lia. exact H3.
Qed.

Lemma encode_spec_syms (A : EM.abc) : forall (s : list byte) (syms : list EM.sym),
  EM.encode_spec A s = Ok syms ->
  length syms = length s /\
  Forall (fun x => x < length (EM.a_str A)) (syms_nat syms) /\
  forall i b, nth_error s i = Some b ->
    exists x, nth_error (syms_nat syms) i = Some x /\ nth_error (EM.a_str A) x = Some b.
Proof.
  induction s as [|b r IH]; intros syms H; simpl in H.
  - inversion H; subst. split; [reflexivity|]. split; [constructor|]. intros [|i] b' Hb; discriminate.
  - unfold EM.spec_sym in H. destruct (EM.index_of b (EM.a_str A) 0) as [x|] eqn:Ex; [|discriminate].
    destruct (EM.encode_spec A r) as [l| | |]; try discriminate. inversion H; subst.
    destruct (IH l eq_refl) as (H1 & H2 & H3).
    destruct (index_of_bound b _ _ _ Ex) as (_ & Hb & Hn). simpl in Hb. rewrite Nat.sub_0_r in Hn.
    split; [simpl; lia|]. split; [constructor; auto|].
    intros [|i] b' Hb'; simpl in Hb'.
    + inversion Hb'; subst. exists (N.to_nat x). split; [reflexivity|exact Hn].
    + exact (H3 i b' Hb').
Qed.

(* Every pipeline / dispatcher arm, DNA and protein: an accepted text gives one symbol per
   byte, every symbol below K, symbol i = the position of byte i in the alphabet string *)
Theorem encode_nat_ok (A : EM.abc) (p : EI.pipeline) (junk : nat -> EM.sym) (text : list byte) (sq : list nat) :
  A = LMEncode.GenAbc.dna \/ A = LMEncode.GenAbc.protein ->
  encode_nat p A junk text = Ok sq ->
  length sq = length text /\
  Forall (fun x => x < EM.a_K A) sq /\
  (forall i b, nth_error text i = Some b ->
     exists x, nth_error sq i = Some x /\ nth_error (EM.a_str A) x = Some b) /\
  (forall p' junk', encode_nat p' A junk' text = Ok sq).
Proof.
  intros HA H. unfold encode_nat in *.
  destruct (LMEncode.C05.C05_every_pipeline A HA p junk text) as (E & _).
  rewrite E in H. unfold rmap in H. destruct (EM.encode_spec A text) as [syms| | |] eqn:Es; try discriminate.
  cbn [rbind] in H. inversion H; subst sq.
  destruct (encode_spec_syms A text syms Es) as (H1 & H2 & H3).
  destruct (LMEncode.C05.C05_ascii_tables_consistent A HA) as (HK & _).
  rewrite HK in H2.
  split; [unfold syms_nat; now rewrite map_length|]. split; [exact H2|]. split; [exact H3|].
  intros p' junk'. destruct (LMEncode.C05.C05_every_pipeline A HA p' junk' text) as (E' & _).
  now rewrite E', Es.
Qed.

(* acceptance is exactly membership of every byte in the alphabet *)
Theorem encode_nat_accepts (A : EM.abc) (p : EI.pipeline) (junk : nat -> EM.sym) (text : list byte) :
  LMEncode.EncodeInstProofs.abc_ok A = true ->
  (exists sq, encode_nat p A junk text = Ok sq) <-> Forall (LMEncode.EncodeProofs.in_abc A) text.
Proof.
  intros HA. destruct (LMEncode.C05.C05_accepts_exactly_alphabet A HA p junk text) as (H & _).
  rewrite <- H. unfold encode_nat, rmap. split.
  - intros (sq & E). destruct (EI.pipeline_encode_raw p A junk text); try discriminate. eauto.
  - intros (syms & ->). cbn. eauto.
Qed.
