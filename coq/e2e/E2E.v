(* END-TO-END composition of the per-property theorems (C05 encode, C04 stripe, C01 score,
   C08 disc, C07 maxi, C02/C03 scan).  Only theorem statements (closed by lemmas of
   E2EProofs / E2EBridge* / E2EKernelScan), statement pins and non-vacuity examples.

   The pipeline (E2EPipeline.v) is assembled from the groups' MODELS:
     text --encode (any pipeline)--> symbols --stripe_into (any backend, any reused buffer)-->
     --configure(&pssm)--> Scanner::new (to_discrete) --> next()* / max()  (any dispatcher arm)
   and the theorems say what it returns in terms of C01's definition of the score,
       score_def i = fold_left F32.add [pssm[j][sq[i+j]] | j < M] (+0.0)
   on the TEXT's symbols sq (symbol i = position of byte i in the alphabet string).

   What each group used to take "by specification" from another is discharged here:
     striped layout            C04's Striped  -> scan's smatrix / disc's striped / score's stripe_of
     score of a position       scan's score_def / c_score_position -> C01's score_def / score_position
     u8 block scores           scan's c_score_rows -> disc's generic / AVX2 PSHUFB kernels, every arm
     Maximum / Threshold<u8>   scan's dmax / dthreshold -> maxi's kernels, every arm
     to_discrete / scale       scan's -> disc's (LMScan.DiscBridge, re-exported below)
   The one numeric hypothesis left is property C08's main clause for the matrix
   ([c08_main_clause]: the conclusion of C08_f32_main_well_conditioned_partial for every
   window), or nothing at all for matrices passing the executable predicate [e2e_wc]
   (= coq/disc's well_conditioned + finite non-wildcard cells + <= 16384 rows + |A| <= 2^126). *)
From Coq Require Import List Arith Bool Lia ZArith.
From Coq.Strings Require Import Byte.
From LMBase Require Import Res ListX IEEE.
From LMStripe Require StripeModel StripeSpec NetModel StripeAvx2.
From LMScore Require ScoreModel ReadmeExample.
From LMDisc Require DiscModel.
From LMMaxi Require MaxiModel.
From LMEncode Require EncodeModel GenAbc EncodeInst EncodeProofs.
From LMScan Require Import ScanModel ScanConcrete ConcreteProofs.
From LMScan Require DiscBridge.
From LMScore Require StripeBridge SimdModel GenAvx2 GenLane4.
From LMPwm Require GenComplement PwmModel C10.
From LME2E Require Import E2EBridgeStripe E2EBridgeScore E2EBridgeMaxi E2EBridgeDisc E2EBridgeEncode E2EBridgeIndex
     E2EPipeline E2EKernelScan E2EProofs E2EStretch.
Import ListNotations.

(* ================= (1) text -> hits ================= *)

(* For every DNA / protein text accepted by the encoder (every byte in the alphabet), any
   encoder pipeline, any striping backend that exists for the column count, any reused
   buffer, every matrix of M >= 1 rows of K cells whose non-wildcard cells are finite
   (wildcard column free: -inf as in the library, or anything else), every threshold,
   block size >= 1 and dispatcher arm: the pipeline does not panic and the scanner's
   exhausted hit list H is, as a set, { (i, score_def i) | i <= L-M, score_def i >= thr },
   each position once.  Numeric hypothesis: C08's main clause for this matrix. *)
Theorem e2e_text_to_hits :
  forall (A : EM.abc) (C : nat) (p : EI.pipeline) (junk : nat -> EM.sym) (text : list byte)
         (be : SA.backend) (old : SM.sseq) (pssm : list (list F32.t))
         (am : arm) (thr : F32.t) (B : nat),
    A = GA.dna \/ A = GA.protein ->
    1 <= C -> SA.backend_typed C be = true -> SS.wf_matrix C (SM.mat old) ->
    Forall (LMEncode.EncodeProofs.in_abc A) text ->
    1 <= length pssm -> Forall (fun row : list F32.t => length row = EM.a_K A) pssm ->
    LMScan.DiscBridge.finite_nonwild (EM.a_K A) pssm ->
    c08_main_clause (EM.a_K A) pssm ->
    1 <= B ->
    exists (sq : list nat) (H : list (nat * F32.t)),
      encode_nat p A junk text = Ok sq /\ length sq = length text /\
      (forall i b, nth_error text i = Some b ->
         exists x, nth_error sq i = Some x /\ nth_error (EM.a_str A) x = Some b) /\
      e2e_scan A C p junk text be old pssm am thr B = Ok H /\
      (forall i x, In (i, x) H <->
         i + length pssm <= length sq /\
         F32.ge (SCO.score_def F32.add F32.zero (EM.a_K A - 1) pssm sq i) thr = true /\
         x = SCO.score_def F32.add F32.zero (EM.a_K A - 1) pssm sq i) /\
      NoDup (map fst H).
Proof.
  intros A C p junk text be old pssm am thr B HA HC Hbe Hold Htext HM Hrows Hfin Hmain HB.
  exact (text_to_hits A C p junk text be old pssm HA HC Hbe Hold Htext HM Hrows Hfin Hmain am thr B HB).
Qed.

(* ... with NO numeric hypothesis for matrices passing the executable predicate e2e_wc
   (coq/disc's C08_f32_main_well_conditioned_partial supplies the main clause) *)
Theorem e2e_text_to_hits_well_conditioned :
  forall (A : EM.abc) (C : nat) (p : EI.pipeline) (junk : nat -> EM.sym) (text : list byte)
         (be : SA.backend) (old : SM.sseq) (pssm : list (list F32.t))
         (am : arm) (thr : F32.t) (B : nat),
    A = GA.dna \/ A = GA.protein ->
    1 <= C -> SA.backend_typed C be = true -> SS.wf_matrix C (SM.mat old) ->
    Forall (LMEncode.EncodeProofs.in_abc A) text ->
    1 <= length pssm -> Forall (fun row : list F32.t => length row = EM.a_K A) pssm ->
    e2e_wc (EM.a_K A) pssm = true ->
    1 <= B ->
    exists (sq : list nat) (H : list (nat * F32.t)),
      encode_nat p A junk text = Ok sq /\ length sq = length text /\
      e2e_scan A C p junk text be old pssm am thr B = Ok H /\
      (forall i x, In (i, x) H <->
         i + length pssm <= length sq /\
         F32.ge (SCO.score_def F32.add F32.zero (EM.a_K A - 1) pssm sq i) thr = true /\
         x = SCO.score_def F32.add F32.zero (EM.a_K A - 1) pssm sq i) /\
      NoDup (map fst H).
Proof.
  intros A C p junk text be old pssm am thr B HA HC Hbe Hold Htext HM Hrows Hwc HB.
  destruct (text_to_hits A C p junk text be old pssm HA HC Hbe Hold Htext HM Hrows
              (e2e_wc_finite _ _ Hwc) (c08_main_clause_wc _ _ Hwc) am thr B HB)
    as (sq & H & H1 & H2 & _ & H4 & H5 & H6).
  exists sq, H. auto.
Qed.

(* ... and with every callee of the scanner replaced by the KERNEL model of the group that
   owns it (maxi: Maximum<u8>::max / Threshold<u8>::threshold; disc: generic and AVX2
   PSHUFB u8 scoring; score: score_position), 32 columns, K <= 16 symbols (the Rust Scanner
   is an Iterator for Dna only): identical result, hence the same characterisation *)
Theorem e2e_text_to_hits_kernels :
  forall (A : EM.abc) (p : EI.pipeline) (junk : nat -> EM.sym) (text : list byte)
         (be : SA.backend) (old : SM.sseq) (pssm : list (list F32.t))
         (am : arm) (pads : nat -> list Z) (thr : F32.t) (B : nat),
    A = GA.dna \/ A = GA.protein -> EM.a_K A <= 16 ->
    SS.wf_matrix 32 (SM.mat old) ->
    Forall (LMEncode.EncodeProofs.in_abc A) text ->
    1 <= length pssm -> Forall (fun row : list F32.t => length row = EM.a_K A) pssm ->
    LMScan.DiscBridge.finite_nonwild (EM.a_K A) pssm ->
    c08_main_clause (EM.a_K A) pssm ->
    (forall i, 16 <= EM.a_K A + length (pads i)) ->
    1 <= B ->
    e2e_scan_kernels A p junk text be old pssm am pads thr B = e2e_scan A 32 p junk text be old pssm am thr B /\
    exists (sq : list nat) (H : list (nat * F32.t)),
      encode_nat p A junk text = Ok sq /\
      e2e_scan_kernels A p junk text be old pssm am pads thr B = Ok H /\
      (forall i x, In (i, x) H <->
         i + length pssm <= length sq /\
         F32.ge (SCO.score_def F32.add F32.zero (EM.a_K A - 1) pssm sq i) thr = true /\
         x = SCO.score_def F32.add F32.zero (EM.a_K A - 1) pssm sq i) /\
      NoDup (map fst H).
Proof.
  intros A p junk text be old pssm am pads thr B HA HK Hold Htext HM Hrows Hfin Hmain Hpads HB.
  pose proof (text_to_hits_kernels A p junk text be old pssm am pads thr B HA HK Hold Htext HM Hrows Hfin Hpads) as E.
  split; [exact E|]. rewrite E.
  assert (Hbe : SA.backend_typed 32 be = true) by (destruct be; reflexivity).
  destruct (text_to_hits A 32 p junk text be old pssm HA ltac:(lia) Hbe Hold Htext HM Hrows Hfin Hmain am thr B HB)
    as (sq & H & H1 & _ & _ & H4 & H5 & H6).
  exists sq, H. auto.
Qed.

(* ================= (2) text -> best hit ================= *)

(* Scanner::max() on a fresh scanner over the same pipeline: no panic; None exactly when no
   position scores >= thr; otherwise a valid position with its exact score_def, >= thr,
   >= the score of every position (whose score is not NaN), the largest index among ties. *)
Theorem e2e_max :
  forall (A : EM.abc) (C : nat) (p : EI.pipeline) (junk : nat -> EM.sym) (text : list byte)
         (be : SA.backend) (old : SM.sseq) (pssm : list (list F32.t))
         (am : arm) (thr : F32.t) (B : nat),
    A = GA.dna \/ A = GA.protein ->
    1 <= C -> SA.backend_typed C be = true -> SS.wf_matrix C (SM.mat old) ->
    Forall (LMEncode.EncodeProofs.in_abc A) text ->
    1 <= length pssm -> Forall (fun row : list F32.t => length row = EM.a_K A) pssm ->
    LMScan.DiscBridge.finite_nonwild (EM.a_K A) pssm ->
    c08_main_clause (EM.a_K A) pssm ->
    1 <= B ->
    exists (sq : list nat) (r : option (nat * F32.t)),
      encode_nat p A junk text = Ok sq /\
      e2e_scan_max A C p junk text be old pssm am thr B = Ok r /\
      (r = None <-> forall i, i + length pssm <= length sq ->
                      F32.ge (SCO.score_def F32.add F32.zero (EM.a_K A - 1) pssm sq i) thr = false) /\
      (forall q x, r = Some (q, x) ->
         q + length pssm <= length sq /\
         x = SCO.score_def F32.add F32.zero (EM.a_K A - 1) pssm sq q /\
         F32.ge x thr = true /\
         (forall i, i + length pssm <= length sq ->
                    F32.is_nan (SCO.score_def F32.add F32.zero (EM.a_K A - 1) pssm sq i) = false ->
                    F32.ge x (SCO.score_def F32.add F32.zero (EM.a_K A - 1) pssm sq i) = true) /\
         (forall i, i + length pssm <= length sq ->
                    F32.eq (SCO.score_def F32.add F32.zero (EM.a_K A - 1) pssm sq i) x = true -> i <= q)).
Proof.
  intros A C p junk text be old pssm am thr B HA HC Hbe Hold Htext HM Hrows Hfin Hmain HB.
  exact (text_to_max A C p junk text be old pssm HA HC Hbe Hold Htext HM Hrows Hfin Hmain am thr B HB).
Qed.

Theorem e2e_max_well_conditioned :
  forall (A : EM.abc) (C : nat) (p : EI.pipeline) (junk : nat -> EM.sym) (text : list byte)
         (be : SA.backend) (old : SM.sseq) (pssm : list (list F32.t))
         (am : arm) (thr : F32.t) (B : nat),
    A = GA.dna \/ A = GA.protein ->
    1 <= C -> SA.backend_typed C be = true -> SS.wf_matrix C (SM.mat old) ->
    Forall (LMEncode.EncodeProofs.in_abc A) text ->
    1 <= length pssm -> Forall (fun row : list F32.t => length row = EM.a_K A) pssm ->
    e2e_wc (EM.a_K A) pssm = true ->
    1 <= B ->
    exists (sq : list nat) (r : option (nat * F32.t)),
      encode_nat p A junk text = Ok sq /\
      e2e_scan_max A C p junk text be old pssm am thr B = Ok r /\
      (r = None <-> forall i, i + length pssm <= length sq ->
                      F32.ge (SCO.score_def F32.add F32.zero (EM.a_K A - 1) pssm sq i) thr = false) /\
      (forall q x, r = Some (q, x) ->
         q + length pssm <= length sq /\
         x = SCO.score_def F32.add F32.zero (EM.a_K A - 1) pssm sq q /\
         F32.ge x thr = true /\
         (forall i, i + length pssm <= length sq ->
                    F32.is_nan (SCO.score_def F32.add F32.zero (EM.a_K A - 1) pssm sq i) = false ->
                    F32.ge x (SCO.score_def F32.add F32.zero (EM.a_K A - 1) pssm sq i) = true) /\
         (forall i, i + length pssm <= length sq ->
                    F32.eq (SCO.score_def F32.add F32.zero (EM.a_K A - 1) pssm sq i) x = true -> i <= q)).
Proof.
  intros A C p junk text be old pssm am thr B HA HC Hbe Hold Htext HM Hrows Hwc HB.
  exact (text_to_max A C p junk text be old pssm HA HC Hbe Hold Htext HM Hrows
           (e2e_wc_finite _ _ Hwc) (c08_main_clause_wc _ _ Hwc) am thr B HB).
Qed.

(* max() after k calls of next() (Y = the hits they consumed): the best of what remains *)
Theorem e2e_max_after_prefix :
  forall (A : EM.abc) (C : nat) (p : EI.pipeline) (junk : nat -> EM.sym) (text : list byte)
         (be : SA.backend) (old : SM.sseq) (pssm : list (list F32.t))
         (am : arm) (thr : F32.t) (B k : nat),
    A = GA.dna \/ A = GA.protein ->
    1 <= C -> SA.backend_typed C be = true -> SS.wf_matrix C (SM.mat old) ->
    Forall (LMEncode.EncodeProofs.in_abc A) text ->
    1 <= length pssm -> Forall (fun row : list F32.t => length row = EM.a_K A) pssm ->
    LMScan.DiscBridge.finite_nonwild (EM.a_K A) pssm ->
    c08_main_clause (EM.a_K A) pssm ->
    1 <= B ->
    exists (sq : list nat) (Y : list (nat * F32.t)) (r : option (nat * F32.t)),
      encode_nat p A junk text = Ok sq /\
      e2e_take_max A C p junk text be old pssm am thr B k = Ok (Y, Ok r) /\
      match r with
      | None =>
          forall i, i + length pssm <= length sq ->
                    F32.ge (SCO.score_def F32.add F32.zero (EM.a_K A - 1) pssm sq i) thr = true -> In i (map fst Y)
      | Some (q, x) =>
          (q + length pssm <= length sq /\
           F32.ge (SCO.score_def F32.add F32.zero (EM.a_K A - 1) pssm sq q) thr = true /\ ~ In q (map fst Y)) /\
          x = SCO.score_def F32.add F32.zero (EM.a_K A - 1) pssm sq q /\
          (forall i, i + length pssm <= length sq -> ~ In i (map fst Y) ->
                     F32.is_nan (SCO.score_def F32.add F32.zero (EM.a_K A - 1) pssm sq i) = false ->
                     F32.ge x (SCO.score_def F32.add F32.zero (EM.a_K A - 1) pssm sq i) = true) /\
          (k = 0 -> forall i, i + length pssm <= length sq ->
                     F32.eq (SCO.score_def F32.add F32.zero (EM.a_K A - 1) pssm sq i) x = true -> i <= q)
      end.
Proof.
  intros A C p junk text be old pssm am thr B k HA HC Hbe Hold Htext HM Hrows Hfin Hmain HB.
  exact (text_to_take_max A C p junk text be old pssm HA HC Hbe Hold Htext HM Hrows Hfin Hmain am thr B k HB).
Qed.

(* Scanner::max() (after any k calls of next()) with every callee replaced by the kernel model of
   its group: identical answer *)
Theorem e2e_max_kernels_agree :
  forall (A : EM.abc) (p : EI.pipeline) (junk : nat -> EM.sym) (text : list byte)
         (be : SA.backend) (old : SM.sseq) (pssm : list (list F32.t))
         (am : arm) (pads : nat -> list Z) (thr : F32.t) (B k : nat),
    A = GA.dna \/ A = GA.protein -> EM.a_K A <= 16 ->
    SS.wf_matrix 32 (SM.mat old) ->
    Forall (LMEncode.EncodeProofs.in_abc A) text ->
    1 <= length pssm -> Forall (fun row : list F32.t => length row = EM.a_K A) pssm ->
    LMScan.DiscBridge.finite_nonwild (EM.a_K A) pssm ->
    (forall i, 16 <= EM.a_K A + length (pads i)) ->
    e2e_max_kernels A p junk text be old pssm am pads thr B k = e2e_max_after A 32 p junk text be old pssm am thr B k /\
    e2e_max_after A 32 p junk text be old pssm am thr B 0 = e2e_scan_max A 32 p junk text be old pssm am thr B.
Proof.
  intros A p junk text be old pssm am pads thr B k HA HK Hold Htext HM Hrows Hfin Hpads.
  split; [|reflexivity].
  exact (text_to_max_kernels A p junk text be old pssm am pads thr B k HA HK Hold Htext HM Hrows Hfin Hpads).
Qed.

(* ================= (3) kernels = specifications ================= *)

(* The functions the scan model uses "by specification" are what the kernel models of the
   owning groups compute, for every dispatcher arm:
   (a) Threshold<u8>::threshold (maxi): the same LIST as dthreshold, any matrix, any t;
   (b) Maximum<u8>::max (maxi: generic scan / AVX2 max_epu8): dmax, 32-column byte matrices
       (the generic scan alone: any column count >= 1, any cell values);
   (c) Score<u8>::score_rows_into (disc: generic kernel / AVX2 wrapper + PSHUFB kernel):
       same rows or both panic, for ANY input with K <= 16 symbols and 32-cell rows;
   (d) on the environment Scanner::new builds from a well-formed input: equalities on every
       row range / position the scanner can ask for, and the whole iteration
       (k_collect = ce_collect: same hits, same order) and max() after any k next() calls
       (k_max_after = ce_max_after). *)
Theorem e2e_kernels_agree_with_specs :
  (forall (am : arm) (d : dmatrix) (t : nat), k_threshold am d t = dthreshold d t) /\
  (forall (am : arm) (d : dmatrix),
     Forall (fun row => length row = 32) d -> Forall (Forall (fun x => x <= 255)) d ->
     k_max am d = Ok (dmax d)) /\
  (forall (C : nat) (d : dmatrix), 0 < C -> Forall (fun row => length row = C) d ->
     MM.max_generic Z.leb (zmat d) = Ok (option_map Z.of_nat (dmax d))) /\
  (forall (am : arm) (K : nat) (sm : list (list nat)) (wrap L : nat) (ddata : list (list nat))
          (dtab : list (res (list nat))) (pads : nat -> list Z) (a e : nat),
     K <= 16 -> Forall (fun row => length row = K) ddata -> (forall i, 16 <= K + length (pads i)) ->
     Forall (fun x => length x = 32 /\ Forall (fun v => v < K) x) sm ->
     dtab_ok 32 sm ddata dtab ->
     rrel rows_rel (c_score_rows am 32 sm wrap L ddata dtab a e)
                   (DM.score_rows_dispatch (arm_disc am) (zmat ddata) pads (dsq L wrap sm) a e)) /\
  (forall (K : nat) (pssm : list (list F32.t)) (sq : list nat) (wrap : nat) (v : cenv) (pads : nat -> list Z),
     wf_input K 32 pssm sq wrap -> c_env K 32 pssm sq wrap = Ok v ->
     K <= 16 -> Forall (fun row : list F32.t => length row = K) pssm ->
     (forall i, 16 <= K + length (pads i)) ->
     (forall am a e, a <= e -> e <= ce_R v ->
        k_score_rows am pads (ce_L v) (ce_wrap v) (ce_sm v) (d_data (ce_dm v)) a e = ce_score_rows v am a e) /\
     (forall i, i < ce_Lm v ->
        k_score_position (ce_L v) (ce_wrap v) (ce_sm v) (ce_pssm v) i = ce_score_position v i) /\
     (forall am thr B, k_collect v am pads thr B = ce_collect v am thr B) /\
     (forall am thr B k, k_max_after v am pads thr B k = ce_max_after v am thr B k)).
Proof.
  split; [|split; [|split; [|split]]].
  - intros am d t. exact (dthreshold_bridge (arm_maxi am) d t).
  - intros am d Hw Hu. exact (k_max_dmax am d Hw Hu).
  - intros C d HC Hw. exact (dmax_generic_bridge C d HC Hw).
  - intros am K sm wrap L ddata dtab pads a e HK Hd Hp Hs Ht.
    exact (u8_rows_dispatch_bridge am K sm wrap L ddata dtab pads a e HK Hd Hp Hs Ht).
  - intros K pssm sq wrap v pads Hwf Henv HK Hrows Hpads. split; [|split; [|split]].
    + intros am a e Ha He. exact (k_score_rows_eq K pssm sq wrap v Hwf Henv HK Hrows pads Hpads am a e Ha He).
    + intros i Hi. exact (k_score_position_eq K pssm sq wrap v Hwf Henv i Hi).
    + intros am thr B. exact (k_collect_eq K pssm sq wrap v Hwf Henv HK Hrows pads Hpads am thr B).
    + intros am thr B k. exact (k_max_after_eq K pssm sq wrap v pads am thr B k Hwf Henv HK Hrows Hpads).
Qed.

(* ================= bridges between the groups' models of the same thing ================= *)

(* striped sequence: a stripe-model state satisfying C04's Striped has exactly the matrix of
   scan's smatrix, disc's striped and score's stripe_of; and those closed forms are Striped *)
Theorem e2e_bridge_striped_matrix :
  forall (K C : nat) (s : list nat) (st : SM.sseq),
    SS.Striped K C s st ->
    SM.mat st = smatrix K C s (SM.swrap st) /\ SM.slen st = length s /\
    DM.ss_rows (DM.striped K C (SM.swrap st) s) = SM.mat st /\
    SCO.stripe_of C (K - 1) s (SM.swrap st) = SCO.mkSeq (SM.slen st) (SM.swrap st) (SM.mat st).
Proof.
  intros K C s st H. destruct (striped_mat_smatrix K C s st H) as (H1 & H2).
  split; [exact H1|]. split; [exact H2|]. split; [exact (striped_mat_disc K C s st H)|exact (striped_mat_score K C s st H)].
Qed.

Theorem e2e_bridge_closed_form_is_striped :
  forall (K C : nat) (s : list nat) (wrap : nat),
    SS.Striped K C s (SM.mkS (smatrix K C s wrap) (length s) wrap).
Proof. intros K C s wrap. rewrite smatrix_closed. apply closed_is_striped. Qed.

(* Scanner::new on the stripe model's buffer = on scan's closed form *)
Theorem e2e_bridge_env :
  forall (K C : nat) (pssm : list (list F32.t)) (sq : list nat) (st : SM.sseq),
    SS.Striped K C sq st -> e_env K C pssm st = c_env K C pssm sq (SM.swrap st).
Proof. exact e_env_c_env. Qed.

(* the score of a position: scan's closed form is C01's definition; the two models of
   ScoringMatrix::score_position agree on EVERY input (same value or both panic) *)
Theorem e2e_bridge_score_def :
  forall (K : nat) (sq : list nat) (pssm : list (list F32.t)) (i : nat),
    score_def K sq pssm i = SCO.score_def F32.add F32.zero (K - 1) pssm sq i.
Proof. exact score_def_bridge. Qed.

Theorem e2e_bridge_score_position :
  forall (sm : list (list nat)) (L wrap : nat) (pssm : list (list F32.t)) (pos : nat),
    rsim (c_score_position sm wrap pssm pos)
         (SCO.score_position F32.add F32.zero pssm (SCO.mkSeq L wrap sm) pos).
Proof. exact score_position_bridge. Qed.

(* Index<usize> of the striped sequence: four models (stripe, score, disc, scan), one function *)
Theorem e2e_bridge_index :
  forall (K C : nat) (st : SM.sseq) (idx : nat),
    SS.wf_matrix C (SM.mat st) ->
    rsim (SM.s_index K C st idx) (seq_index (SM.mat st) (SM.swrap st) idx) /\
    rsim (DM.ss_index (dsq (SM.slen st) (SM.swrap st) (SM.mat st)) idx) (seq_index (SM.mat st) (SM.swrap st) idx) /\
    rsim (seq_index (SM.mat st) (SM.swrap st) idx)
         (SCO.sq_index (SCO.mkSeq (SM.slen st) (SM.swrap st) (SM.mat st)) idx).
Proof.
  intros K C st idx Hwf. split; [exact (index_stripe_scan K C st idx Hwf)|]. split.
  - exact (index_disc_scan (SM.mat st) (SM.slen st) (SM.swrap st) idx).
  - exact (seq_index_sim (SM.mat st) (SM.slen st) (SM.swrap st) idx).
Qed.

(* score_position: disc's generic model (binary32 instance) = scan's = score's, every input *)
Theorem e2e_bridge_score_position_disc :
  forall (sm : list (list nat)) (L wrap : nat) (pssm : list (list F32.t)) (pos : nat),
    rsim (DM.score_position F32.add F32.zero pssm (dsq L wrap sm) pos) (c_score_position sm wrap pssm pos) /\
    rsim (DM.score_position F32.add F32.zero pssm (dsq L wrap sm) pos)
         (SCO.score_position F32.add F32.zero pssm (SCO.mkSeq L wrap sm) pos).
Proof.
  intros sm L wrap pssm pos. split.
  - exact (score_position_disc_scan sm L wrap pssm pos).
  - exact (score_position_disc_score sm L wrap pssm pos).
Qed.

(* pwm's model of score_position (C09/C10: a sequence striped without look-ahead rows, read through
   the closed form) = scan's on the closed-form matrix, for well-formed inputs, any position *)
Theorem e2e_bridge_score_position_pwm :
  forall (K C : nat) (m : list (list F32.t)) (s : list nat) (pos : nat),
    1 <= K -> 1 <= C -> Forall (fun x => x < K) s -> Forall (fun row : list F32.t => K <= length row) m ->
    rsim (PM.score_position PM.F32ops K C m s pos) (c_score_position (smatrix K C s 0) 0 m pos).
Proof. exact score_position_pwm_scan. Qed.

(* the closed form of the score: maxi's score_def and pwm's window terms are C01's *)
Theorem e2e_bridge_score_def_maxi_pwm :
  (forall (T : Type) (add : T -> T -> T) (zero : T) (K : nat) (pssm : list (list T)) (s : list nat) (i : nat),
     LMMaxi.MaxiModel.score_def add zero (K - 1) zero pssm s i = SCO.score_def add zero (K - 1) pssm s i) /\
  (forall (N : nat) (m : list (list F32.t)) (s : list nat) (i : nat),
     i + length m <= length s ->
     PM.window_terms PM.F32ops m s i = SCO.score_terms F32.zero N m s i).
Proof.
  split.
  - intros T add zero K pssm s i. exact (score_def_maxi_score add zero K pssm s i).
  - intros N m s i H. exact (window_terms_pwm_score N m s i H).
Qed.

(* the generic u8 kernel: the two models agree on every input whatsoever *)
Theorem e2e_bridge_u8_rows_generic :
  forall (am : arm) (C : nat) (sm : list (list nat)) (wrap L : nat) (ddata : list (list nat))
         (dtab : list (res (list nat))) (a e : nat),
    am <> Avx2 -> dtab_ok C sm ddata dtab ->
    rrel rows_rel (c_score_rows am C sm wrap L ddata dtab a e)
                  (DM.score_rows_generic DM.sat_add 0%Z C (zmat ddata) (dsq L wrap sm) a e).
Proof. exact u8_rows_generic_bridge. Qed.

(* to_discrete / scale: scan's and disc's models agree (proved in coq/scan, DiscBridge / DiscLink) *)
Theorem e2e_bridge_to_discrete :
  forall (K : nat) (pssm : list (list F32.t)) (dm : dmt),
    to_discrete K pssm = Ok dm ->
    (exists d : @DM.dmat F32.t,
       DM.to_discrete DM.f32_ops K pssm = Ok d /\
       DM.d_factor d = d_factor dm /\ DM.d_offset d = d_offset dm /\
       DM.d_data d = map (map Z.of_nat) (d_data dm)) /\
    (forall x, c_scale dm x = Z.to_nat (DM.scale_with DM.f32_ops (d_factor dm) (d_offset dm) x)).
Proof.
  intros K pssm dm H. split; [exact (LMScan.DiscBridge.to_discrete_bridge K pssm dm H)|].
  intros x. reflexivity.
Qed.

(* the encoder's symbols are the naturals the other groups index with *)
Theorem e2e_bridge_encode :
  forall (A : EM.abc) (p : EI.pipeline) (junk : nat -> EM.sym) (text : list byte) (sq : list nat),
    A = GA.dna \/ A = GA.protein ->
    encode_nat p A junk text = Ok sq ->
    length sq = length text /\ Forall (fun x => x < EM.a_K A) sq /\
    (forall i b, nth_error text i = Some b ->
       exists x, nth_error sq i = Some x /\ nth_error (EM.a_str A) x = Some b) /\
    (forall p' junk', encode_nat p' A junk' text = Ok sq).
Proof. intros A p junk text sq HA H. exact (encode_nat_ok A p junk text sq HA H). Qed.

(* Scanner::new never panics on a matrix with finite non-wildcard cells (K >= 2) *)
Theorem e2e_to_discrete_total :
  forall (K : nat) (pssm : list (list F32.t)),
    2 <= K -> Forall (fun row : list F32.t => K <= length row) pssm ->
    LMScan.DiscBridge.finite_nonwild K pssm -> exists dm, to_discrete K pssm = Ok dm.
Proof. exact to_discrete_total. Qed.

(* the executable predicate implies C08's main clause (coq/disc's binary32 theorem) *)
Theorem e2e_wc_gives_main_clause :
  forall (K : nat) (pssm : list (list F32.t)),
    e2e_wc K pssm = true -> LMScan.DiscBridge.finite_nonwild K pssm /\ c08_main_clause K pssm.
Proof. intros K pssm H. split; [exact (e2e_wc_finite K pssm H)|exact (c08_main_clause_wc K pssm H)]. Qed.

(* ================= (4) reverse complement (C10) ================= *)

(* Scanning the reverse-complemented matrix (C10's model of ScoringMatrix::reverse_complement)
   over the reverse-complemented sequence: the hit at position i' carries the cells of the
   MIRRORED window L-M-i' of the original matrix / sequence -- added in the OPPOSITE order.
   This is unconditional (numeric hypothesis: C08's main clause for the rc matrix). *)
Theorem e2e_revcomp_scan_reversed_sums :
  forall (C : nat) (be : SA.backend) (old : SM.sseq) (sq : list nat)
         (pssm : list (list F32.t)) (am : arm) (thr : F32.t) (B : nat),
    1 <= C -> SA.backend_typed C be = true -> SS.wf_matrix C (SM.mat old) ->
    Forall (fun x => x < GC.dna_K) sq ->
    1 <= length pssm -> Forall (fun row : list F32.t => length row = GC.dna_K) pssm ->
    LMScan.DiscBridge.finite_nonwild GC.dna_K pssm ->
    c08_main_clause GC.dna_K (LMPwm.C10.dna_rc F32.zero pssm) -> 1 <= B ->
    exists H',
      e2e_scan_syms GC.dna_K C be old (PM.rc_seq GC.dna_comp sq) (LMPwm.C10.dna_rc F32.zero pssm) am thr B = Ok H' /\
      (forall i' x, In (i', x) H' <->
         i' + length pssm <= length sq /\
         F32.ge (fold_left F32.add (rev (SCO.score_terms F32.zero (GC.dna_K - 1) pssm sq
                                           (length sq - length pssm - i'))) F32.zero) thr = true /\
         x = fold_left F32.add (rev (SCO.score_terms F32.zero (GC.dna_K - 1) pssm sq
                                       (length sq - length pssm - i'))) F32.zero) /\
      NoDup (map fst H').
Proof.
  intros C be old sq pssm am thr B HC Hb Hwf Hsym HM Hrows Hfin Hmain HB.
  exact (revcomp_scan C be old sq pssm am thr B HC Hb Hwf Hsym HM Hrows Hfin Hmain HB).
Qed.

(* FULL statement (false for IEEE binary32, see e2e_revcomp_scan_refuted): the hits of scanning
   (rc pssm, rc sq) are the mirrored hits of scanning (pssm, sq), with equal scores.
   PARTIAL: proved under the extra hypothesis that the binary32 window sums do not depend on
   the order of addition (true when every partial sum is exact, e.g. integer-valued matrices
   of small magnitude); what is missing is exactly that hypothesis, and it cannot be removed. *)
Theorem e2e_revcomp_scan_partial :
  forall (C : nat) (be : SA.backend) (old : SM.sseq) (sq : list nat)
         (pssm : list (list F32.t)) (am : arm) (thr : F32.t) (B : nat),
    1 <= C -> SA.backend_typed C be = true -> SS.wf_matrix C (SM.mat old) ->
    Forall (fun x => x < GC.dna_K) sq ->
    1 <= length pssm -> Forall (fun row : list F32.t => length row = GC.dna_K) pssm ->
    LMScan.DiscBridge.finite_nonwild GC.dna_K pssm ->
    c08_main_clause GC.dna_K pssm ->
    c08_main_clause GC.dna_K (LMPwm.C10.dna_rc F32.zero pssm) -> 1 <= B ->
    (forall i, i + length pssm <= length sq ->
       fold_left F32.add (rev (SCO.score_terms F32.zero (GC.dna_K - 1) pssm sq i)) F32.zero =
       SCO.score_def F32.add F32.zero (GC.dna_K - 1) pssm sq i) ->
    exists H H',
      e2e_scan_syms GC.dna_K C be old sq pssm am thr B = Ok H /\
      e2e_scan_syms GC.dna_K C be old (PM.rc_seq GC.dna_comp sq) (LMPwm.C10.dna_rc F32.zero pssm) am thr B = Ok H' /\
      forall i x, i + length pssm <= length sq ->
        (In (i, x) H <-> In (length sq - length pssm - i, x) H').
Proof.
  intros C be old sq pssm am thr B HC Hb Hwf Hsym HM Hrows Hfin Hmain Hmain' HB Hord.
  exact (revcomp_mirror C be old sq pssm am thr B HC Hb Hwf Hsym HM Hrows Hfin Hmain Hmain' HB Hord).
Qed.

(* the same from TEXT: reverse-complemented text (bytes reversed, A<->T, C<->G) through the whole
   pipeline incl. the encoder; the complement table of coq/pwm and the alphabet string of
   coq/encode (both regenerated from abc.rs) are consistent (encode_text_rc) *)
Theorem e2e_revcomp_scan_text_reversed_sums :
  forall (C : nat) (p p' : EI.pipeline) (junk junk' : nat -> EM.sym) (text : list byte)
         (be : SA.backend) (old : SM.sseq) (pssm : list (list F32.t)) (am : arm) (thr : F32.t) (B : nat),
    1 <= C -> SA.backend_typed C be = true -> SS.wf_matrix C (SM.mat old) ->
    Forall (LMEncode.EncodeProofs.in_abc GA.dna) text ->
    1 <= length pssm -> Forall (fun row : list F32.t => length row = GC.dna_K) pssm ->
    LMScan.DiscBridge.finite_nonwild GC.dna_K pssm ->
    c08_main_clause GC.dna_K (LMPwm.C10.dna_rc F32.zero pssm) -> 1 <= B ->
    exists sq H',
      encode_nat p GA.dna junk text = Ok sq /\ length sq = length text /\
      encode_nat p' GA.dna junk' (text_rc text) = Ok (PM.rc_seq GC.dna_comp sq) /\
      e2e_scan GA.dna C p' junk' (text_rc text) be old (LMPwm.C10.dna_rc F32.zero pssm) am thr B = Ok H' /\
      (forall i' x, In (i', x) H' <->
         i' + length pssm <= length sq /\
         F32.ge (fold_left F32.add (rev (SCO.score_terms F32.zero (GC.dna_K - 1) pssm sq
                                           (length sq - length pssm - i'))) F32.zero) thr = true /\
         x = fold_left F32.add (rev (SCO.score_terms F32.zero (GC.dna_K - 1) pssm sq
                                       (length sq - length pssm - i'))) F32.zero) /\
      NoDup (map fst H').
Proof.
  intros C p p' junk junk' text be old pssm am thr B HC Hb Hwf Htext HM Hrows Hfin Hmain HB.
  exact (revcomp_scan_text C p p' junk junk' text be old pssm am thr B HC Hb Hwf Htext HM Hrows Hfin Hmain HB).
Qed.

(* PARTIAL in the same sense as e2e_revcomp_scan_partial: mirrored hits of the two text pipelines
   under order-independence of the window sums *)
Theorem e2e_revcomp_scan_text_partial :
  forall (C : nat) (p p' : EI.pipeline) (junk junk' : nat -> EM.sym) (text : list byte)
         (be : SA.backend) (old : SM.sseq) (pssm : list (list F32.t)) (am : arm) (thr : F32.t) (B : nat),
    1 <= C -> SA.backend_typed C be = true -> SS.wf_matrix C (SM.mat old) ->
    Forall (LMEncode.EncodeProofs.in_abc GA.dna) text ->
    1 <= length pssm -> Forall (fun row : list F32.t => length row = GC.dna_K) pssm ->
    LMScan.DiscBridge.finite_nonwild GC.dna_K pssm ->
    c08_main_clause GC.dna_K pssm ->
    c08_main_clause GC.dna_K (LMPwm.C10.dna_rc F32.zero pssm) -> 1 <= B ->
    exists sq H H',
      encode_nat p GA.dna junk text = Ok sq /\
      e2e_scan GA.dna C p junk text be old pssm am thr B = Ok H /\
      e2e_scan GA.dna C p' junk' (text_rc text) be old (LMPwm.C10.dna_rc F32.zero pssm) am thr B = Ok H' /\
      ((forall i, i + length pssm <= length sq ->
          fold_left F32.add (rev (SCO.score_terms F32.zero (GC.dna_K - 1) pssm sq i)) F32.zero =
          SCO.score_def F32.add F32.zero (GC.dna_K - 1) pssm sq i) ->
       forall i x, i + length pssm <= length sq ->
         (In (i, x) H <-> In (length sq - length pssm - i, x) H')).
Proof.
  intros C p p' junk junk' text be old pssm am thr B HC Hb Hwf Htext HM Hrows Hfin Hmain Hmain' HB.
  exact (revcomp_mirror_text C p p' junk junk' text be old pssm am thr B HC Hb Hwf Htext HM Hrows Hfin Hmain Hmain' HB).
Qed.

(* the witness: rows (1, 1e8, -1e8) in column A, sequence AAAC, threshold 0.5.  Both matrices
   pass the executable conditioning predicate.  Position 0 scores (1 + 1e8) - 1e8 = 0.0 forwards
   (no hit) but its mirror image, position 1 of the reverse complement, scores (-1e8 + 1e8) + 1
   = 1.0 (a hit): the mirrored hit sets differ. *)
Module RcWitness.
  Definition m : list (list F32.t) := map (map F32.of_bits)
    [[1065353216; 0; 0; 0; 4286578688]; [1287568416; 0; 0; 0; 4286578688];
     [3435052064; 0; 0; 0; 4286578688]]%Z.
  Definition sq : list nat := [0; 0; 0; 1].
  Definition thr : F32.t := F32.of_bits 1056964608.
  Definition bits (l : res (list fhit)) : list (nat * Z) :=
    map (fun h => (fst h, F32.to_bits (snd h))) (unres [] l).
End RcWitness.

Theorem e2e_revcomp_scan_refuted :
  e2e_wc 5 RcWitness.m = true /\ e2e_wc 5 (LMPwm.C10.dna_rc F32.zero RcWitness.m) = true /\
  RcWitness.bits (e2e_scan_syms 5 32 SA.BGeneric SM.s_default RcWitness.sq RcWitness.m Avx2 RcWitness.thr 4)
    = [(1, 1287568416%Z)] /\
  RcWitness.bits (e2e_scan_syms 5 32 SA.BGeneric SM.s_default (PM.rc_seq GC.dna_comp RcWitness.sq)
                    (LMPwm.C10.dna_rc F32.zero RcWitness.m) Avx2 RcWitness.thr 4)
    = [(1, 1065353216%Z); (0, 1287568416%Z)].
Proof. vm_compute. repeat split; reflexivity. Qed.

(* ================= (5) histories on one reused buffer ================= *)

(* After ANY history of stripe / stripe_into / configure / configure_wrap calls (any pipelines
   that exist for the column count, any sequences, any widths, any order) on one buffer that
   started as StripedSequence::default(), and after every prefix of it that left at least M-1
   look-ahead rows: scanning the buffer yields exactly the qualifying positions of the sequence
   striped LAST, with their C01 scores; these are the entries >= thr of the full binary32 score
   vector the generic scoring pipeline computes on the same buffer (C01History); max() returns
   the best of them.  (The scanner borrows the buffer: scans between the operations do not
   change it, so this covers any interleaving of scans with the history.) *)
Theorem e2e_pipeline_history :
  forall (K C : nat) (ops : list SA.op) (n : nat) (pssm : list (list F32.t))
         (am : arm) (thr : F32.t) (B : nat),
    let pre := firstn n ops in
    let sq := SA.last_seq [] pre in
    2 <= K -> 1 <= C -> forallb (SA.op_typed C) ops = true ->
    Forall (fun x => x < K) sq ->
    1 <= length pssm -> length pssm - 1 <= SA.wrap_after 0 pre ->
    Forall (fun row : list F32.t => length row = K) pssm ->
    LMScan.DiscBridge.finite_nonwild K pssm -> c08_main_clause K pssm -> 1 <= B ->
    exists st H r,
      SA.run K C SM.s_default pre = Ok st /\
      e2e_scan_history K C pre pssm am thr B = Ok H /\
      (forall i x, In (i, x) H <->
         i + length pssm <= length sq /\
         F32.ge (SCO.score_def F32.add F32.zero (K - 1) pssm sq i) thr = true /\
         x = SCO.score_def F32.add F32.zero (K - 1) pssm sq i) /\
      NoDup (map fst H) /\
      rbind (SCO.generic_score F32.add F32.zero C pssm (LMScore.StripeBridge.of_stripe st)) (SCO.sc_unstripe C) =
        Ok (map (SCO.score_def F32.add F32.zero (K - 1) pssm sq) (seq 0 (length sq + 1 - length pssm))) /\
      e2e_max_history K C pre pssm am thr B = Ok r /\
      (r = None <-> forall i, i + length pssm <= length sq ->
                      F32.ge (SCO.score_def F32.add F32.zero (K - 1) pssm sq i) thr = false) /\
      (forall q x, r = Some (q, x) ->
         q + length pssm <= length sq /\
         x = SCO.score_def F32.add F32.zero (K - 1) pssm sq q /\
         F32.ge x thr = true /\
         (forall i, i + length pssm <= length sq ->
                    F32.is_nan (SCO.score_def F32.add F32.zero (K - 1) pssm sq i) = false ->
                    F32.ge x (SCO.score_def F32.add F32.zero (K - 1) pssm sq i) = true)).
Proof.
  intros K C ops n pssm am thr B pre sq HK HC Ht Hsym HM Hw Hrows Hfin Hmain HB.
  exact (history_scan K C ops n pssm am thr B HK HC Ht Hsym HM Hw Hrows Hfin Hmain HB).
Qed.

(* Scanner = score + threshold.  On the buffer left by any history (32 columns), the hits of the
   scanner (u8 pre-filter through any arm, then binary32 re-scoring) are exactly the entries >= thr
   of the full binary32 score vector that the f32 scoring pipeline computes through ANY dispatcher
   arm (AVX2 permute / gather kernels, SSE2, generic: C01History.C01_history_backends) and
   unstripes -- the two user-facing ways of the README agree, position by position, bit for bit. *)
Theorem e2e_scanner_equals_score_threshold :
  forall (K : nat) (ops : list SA.op) (pssm : list (list F32.t))
         (pads : nat -> list F32.t) (ar : LMScore.SimdModel.arm) (am : arm) (thr : F32.t) (B : nat),
    let sq := SA.last_seq [] ops in
    2 <= K -> forallb (SA.op_typed 32) ops = true ->
    Forall (fun x => x < K) sq ->
    1 <= length pssm -> length pssm - 1 <= SA.wrap_after 0 ops -> length pssm <= length sq ->
    Forall (fun row : list F32.t => length row = K) pssm ->
    LMScan.DiscBridge.finite_nonwild K pssm -> c08_main_clause K pssm -> 1 <= B ->
    exists st sc scores H,
      SA.run K 32 SM.s_default ops = Ok st /\
      SCO.score_with
        (LMScore.SimdModel.dispatch_rows_into F32.add F32.zero LMScore.GenAvx2.dispatch_score_f32
           LMScore.GenAvx2.avx2_permute_consts LMScore.GenAvx2.avx2_gather_consts LMScore.GenLane4.sse2_consts
           K pssm pads ar) (LMScore.StripeBridge.of_stripe st) = Ok sc /\
      SCO.generic_score F32.add F32.zero 32 pssm (LMScore.StripeBridge.of_stripe st) = Ok sc /\
      SCO.sc_unstripe 32 sc = Ok scores /\
      e2e_scan_history K 32 ops pssm am thr B = Ok H /\
      (forall i x, In (i, x) H <-> nth_error scores i = Some x /\ F32.ge x thr = true) /\
      NoDup (map fst H).
Proof.
  intros K ops pssm pads ar am thr B sq HK Ht Hsym HM Hw HL Hrows Hfin Hmain HB.
  exact (scanner_equals_scoring K ops pssm pads ar am thr B HK Ht Hsym HM Hw HL Hrows Hfin Hmain HB).
Qed.

(* from an already encoded sequence (the form the reverse-complement theorems use) *)
Theorem e2e_syms_to_hits :
  forall (K C : nat) (be : SA.backend) (old : SM.sseq) (sq : list nat)
         (pssm : list (list F32.t)) (am : arm) (thr : F32.t) (B : nat),
    2 <= K -> 1 <= C -> SA.backend_typed C be = true -> SS.wf_matrix C (SM.mat old) ->
    Forall (fun x => x < K) sq ->
    1 <= length pssm -> Forall (fun row : list F32.t => length row = K) pssm ->
    LMScan.DiscBridge.finite_nonwild K pssm -> c08_main_clause K pssm -> 1 <= B ->
    exists H,
      e2e_scan_syms K C be old sq pssm am thr B = Ok H /\
      (forall i x, In (i, x) H <->
         i + length pssm <= length sq /\
         F32.ge (SCO.score_def F32.add F32.zero (K - 1) pssm sq i) thr = true /\
         x = SCO.score_def F32.add F32.zero (K - 1) pssm sq i) /\
      NoDup (map fst H).
Proof.
  intros K C be old sq pssm am thr B HK HC Hb Hwf Hsym HM Hrows Hfin Hmain HB.
  exact (syms_to_hits K C be old sq pssm am thr B HK HC Hb Hwf Hsym HM Hrows Hfin Hmain HB).
Qed.

(* ================= statement pins ================= *)

Check e2e_text_to_hits :
  forall (A : EM.abc) (C : nat) (p : EI.pipeline) (junk : nat -> EM.sym) (text : list byte)
         (be : SA.backend) (old : SM.sseq) (pssm : list (list F32.t))
         (am : arm) (thr : F32.t) (B : nat),
    A = GA.dna \/ A = GA.protein ->
    1 <= C -> SA.backend_typed C be = true -> SS.wf_matrix C (SM.mat old) ->
    Forall (LMEncode.EncodeProofs.in_abc A) text ->
    1 <= length pssm -> Forall (fun row : list F32.t => length row = EM.a_K A) pssm ->
    LMScan.DiscBridge.finite_nonwild (EM.a_K A) pssm ->
    c08_main_clause (EM.a_K A) pssm ->
    1 <= B ->
    exists (sq : list nat) (H : list (nat * F32.t)),
      encode_nat p A junk text = Ok sq /\ length sq = length text /\
      (forall i b, nth_error text i = Some b ->
         exists x, nth_error sq i = Some x /\ nth_error (EM.a_str A) x = Some b) /\
      e2e_scan A C p junk text be old pssm am thr B = Ok H /\
      (forall i x, In (i, x) H <->
         i + length pssm <= length sq /\
         F32.ge (SCO.score_def F32.add F32.zero (EM.a_K A - 1) pssm sq i) thr = true /\
         x = SCO.score_def F32.add F32.zero (EM.a_K A - 1) pssm sq i) /\
      NoDup (map fst H).

(* the definitions the statements rest on, spelled out *)
Check (fun K pssm => eq_refl :
  c08_main_clause K pssm =
  forall (d : @DM.dmat F32.t) (w : list nat) (real : F32.t) (b : Z),
    DM.to_discrete DM.f32_ops K pssm = Ok d ->
    DM.real_wscore DM.f32_ops pssm w = Ok real ->
    DM.disc_wscore (DM.d_data d) w = Ok b ->
    (DM.scale DM.f32_ops d real <= b)%Z).
Check (fun (pssm : list (list F32.t)) (s : list nat) (i N : nat) => eq_refl :
  SCO.score_def F32.add F32.zero N pssm s i =
  fold_left F32.add (SCO.terms_from F32.zero 0 pssm (fun j => nth (i + j) s N)) F32.zero).

(* ================= non-vacuity: the README example ================= *)

(* the 64-nt target sequence of /repo/README.md as text, its 15-row scoring matrix (bit
   patterns of coq/score/ReadmeExample.v, -inf wildcard column), the dispatching pipelines of
   the README calls (EncodedSequence::encode, to_striped, configure), threshold -10.0 *)
Module Readme.
  Import LMScore.ReadmeExample.
  Definition text : list byte := map (fun i => nth i [x41; x43; x54; x47; x4e] x4e) readme_seq.
  Definition thr : F32.t := F32.of_bits 3240099840.            (* -10.0 *)
  Definition junk : nat -> EM.sym := fun _ => 0%N.
  Definition enc : EI.pipeline := EI.PDispatch EM.DAvx2.
  Definition be : SA.backend := SA.BDispatch LMStripe.NetModel.AAvx2.
  Definition pads : nat -> list Z := fun _ => repeat 0%Z 27.    (* DenseMatrix<u8, 5> rows are 32 bytes *)
  Definition scan (am : arm) (B : nat) : res (list fhit) :=
    e2e_scan GA.dna 32 enc junk text be SM.s_default readme_pssm am thr B.
  Definition bits (l : res (list fhit)) : list (nat * Z) :=
    map (fun h => (fst h, F32.to_bits (snd h))) (unres [] l).
End Readme.

Example e2e_readme_encodes :
  encode_nat Readme.enc GA.dna Readme.junk Readme.text = Ok LMScore.ReadmeExample.readme_seq.
Proof. vm_compute. reflexivity. Qed.

(* every hypothesis of e2e_text_to_hits_well_conditioned / e2e_max_well_conditioned holds *)
Example e2e_readme_hypotheses :
  (GA.dna = GA.dna \/ GA.dna = GA.protein) /\ 1 <= 32 /\ SA.backend_typed 32 Readme.be = true /\
  SS.wf_matrix 32 (SM.mat SM.s_default) /\
  Forall (LMEncode.EncodeProofs.in_abc GA.dna) Readme.text /\
  1 <= length LMScore.ReadmeExample.readme_pssm /\
  Forall (fun row : list F32.t => length row = EM.a_K GA.dna) LMScore.ReadmeExample.readme_pssm /\
  e2e_wc (EM.a_K GA.dna) LMScore.ReadmeExample.readme_pssm = true.
Proof.
  split; [now left|]. split; [lia|]. split; [reflexivity|]. split; [constructor|]. split.
  { apply (encode_nat_accepts GA.dna Readme.enc Readme.junk Readme.text (abc_ok_of GA.dna (or_introl eq_refl))).
    eexists. exact e2e_readme_encodes. }
  split; [cbn; lia|]. split; [|vm_compute; reflexivity].
  unfold LMScore.ReadmeExample.readme_pssm, LMScore.ReadmeExample.readme_pssm_bits. cbn [map].
  repeat (constructor; [reflexivity|]). constructor.
Qed.

(* hence the conclusion, for every dispatcher arm and block size: the hit set is exactly the
   positions of the README sequence whose C01 score is >= -10.0 *)
Example e2e_readme_scan :
  forall (am : arm) (B : nat), 1 <= B ->
  exists H : list (nat * F32.t),
    Readme.scan am B = Ok H /\
    (forall i x, In (i, x) H <->
       i + 15 <= 64 /\
       F32.ge (SCO.score_def F32.add F32.zero 4 LMScore.ReadmeExample.readme_pssm LMScore.ReadmeExample.readme_seq i)
              Readme.thr = true /\
       x = SCO.score_def F32.add F32.zero 4 LMScore.ReadmeExample.readme_pssm LMScore.ReadmeExample.readme_seq i) /\
    NoDup (map fst H).
Proof.
  intros am B HB.
  destruct e2e_readme_hypotheses as (HA & HC & Hbe & Hold & Htext & HM & Hrows & Hwc).
  destruct (e2e_text_to_hits_well_conditioned GA.dna 32 Readme.enc Readme.junk Readme.text Readme.be SM.s_default
              LMScore.ReadmeExample.readme_pssm am Readme.thr B HA HC Hbe Hold Htext HM Hrows Hwc HB)
    as (sq & H & Henc & _ & Hs & Hin & Hnd).
  rewrite e2e_readme_encodes in Henc. inversion Henc; subst sq.
  exists H. split; [exact Hs|]. split; [exact Hin|exact Hnd].
Qed.

(* what the models compute there: three positions qualify (18 is the README's best position);
   different arms / block sizes yield them in different orders; the scanner on the kernel
   models (AVX2 PSHUFB u8 scoring, max_epu8, generic threshold, coq/score's score_position)
   yields the same list; max() returns position 18 *)
Example e2e_readme_runs :
  Readme.bits (Readme.scan Avx2 256) = [(27, 3234719710%Z); (32, 3239010474%Z); (18, 3232763308%Z)] /\
  Readme.bits (Readme.scan Generic 1) = [(32, 3239010474%Z); (18, 3232763308%Z); (27, 3234719710%Z)] /\
  Readme.bits (e2e_scan_kernels GA.dna Readme.enc Readme.junk Readme.text Readme.be SM.s_default
                 LMScore.ReadmeExample.readme_pssm Avx2 Readme.pads Readme.thr 256)
    = [(27, 3234719710%Z); (32, 3239010474%Z); (18, 3232763308%Z)] /\
  option_map (fun h => (fst h, F32.to_bits (snd h)))
    (unres None (e2e_scan_max GA.dna 32 Readme.enc Readme.junk Readme.text Readme.be SM.s_default
                   LMScore.ReadmeExample.readme_pssm Avx2 Readme.thr 256)) = Some (18, 3232763308%Z) /\
  map (fun i => F32.to_bits (SCO.score_def F32.add F32.zero 4 LMScore.ReadmeExample.readme_pssm
                               LMScore.ReadmeExample.readme_seq i)) [18; 27; 32]
    = [3232763308; 3234719710; 3239010474]%Z.
Proof. vm_compute. repeat split; reflexivity. Qed.

(* the numeric hypothesis matters: the pipeline on coq/disc's ill-conditioned witness class is
   outside e2e_wc (known finding F14); the predicate is false there, true on the README matrix *)
Example e2e_wc_discriminates :
  e2e_wc 5 LMScore.ReadmeExample.readme_pssm = true /\
  e2e_wc 5 (map (map F32.of_bits)
              [[1203982341; 1203982341; 1203982342; 1203982341; 4286578688];
               [1203982342; 1203982336; 1203982339; 1203982342; 4286578688]]%Z) = false.
Proof. vm_compute. split; reflexivity. Qed.

(* the README calls as a history on one buffer: to_striped() (dispatching pipeline), configure(&pssm);
   then a second sequence striped into the same buffer and re-configured: the scan sees the last one *)
Module ReadmeHistory.
  Import LMScore.ReadmeExample.
  Definition ops1 : list SA.op := [SA.OStripe Readme.be readme_seq; SA.OConfigure (length readme_pssm)].
  Definition ops2 : list SA.op :=
    ops1 ++ [SA.OStripeInto SA.BGeneric (rev readme_seq); SA.OConfigureWrap 3; SA.OConfigure (length readme_pssm)].
End ReadmeHistory.

Example e2e_readme_history_hypotheses :
  forallb (SA.op_typed 32) ReadmeHistory.ops2 = true /\
  SA.last_seq [] ReadmeHistory.ops1 = LMScore.ReadmeExample.readme_seq /\
  SA.last_seq [] ReadmeHistory.ops2 = rev LMScore.ReadmeExample.readme_seq /\
  Forall (fun x => x < 5) (SA.last_seq [] ReadmeHistory.ops2) /\
  length LMScore.ReadmeExample.readme_pssm - 1 <= SA.wrap_after 0 ReadmeHistory.ops1 /\
  length LMScore.ReadmeExample.readme_pssm - 1 <= SA.wrap_after 0 ReadmeHistory.ops2 /\
  length LMScore.ReadmeExample.readme_pssm <= length (SA.last_seq [] ReadmeHistory.ops2).
Proof.
  split; [reflexivity|]. split; [reflexivity|]. split; [reflexivity|]. split.
  { apply Forall_forall. intros x Hx. apply Nat.ltb_lt.
    assert (Hall : forallb (fun x => x <? 5) (SA.last_seq [] ReadmeHistory.ops2) = true) by (vm_compute; reflexivity).
    rewrite forallb_forall in Hall. now apply Hall. }
  vm_compute. repeat split; lia.
Qed.

Example e2e_readme_history_runs :
  Readme.bits (e2e_scan_history 5 32 ReadmeHistory.ops1 LMScore.ReadmeExample.readme_pssm Avx2 Readme.thr 256)
    = [(27, 3234719710%Z); (32, 3239010474%Z); (18, 3232763308%Z)] /\
  (* without configure(&pssm) there are no look-ahead rows: the AVX2 wrapper refuses the buffer ("not
     enough wrapping rows"), the generic kernel indexes past the matrix -- the hypothesis
     M - 1 <= wrap_after of e2e_pipeline_history is needed *)
  e2e_scan_history 5 32 (firstn 1 ReadmeHistory.ops1) LMScore.ReadmeExample.readme_pssm Avx2 Readme.thr 256 = Panic 33 /\
  e2e_scan_history 5 32 (firstn 1 ReadmeHistory.ops1) LMScore.ReadmeExample.readme_pssm Generic Readme.thr 256 = Panic 30 /\
  (* after the second sequence was striped into the same buffer the scan sees that one *)
  map fst (Readme.bits (e2e_scan_history 5 32 ReadmeHistory.ops2 LMScore.ReadmeExample.readme_pssm Sse2 Readme.thr 1))
    = map fst (Readme.bits (e2e_scan_syms 5 32 SA.BAvx2 SM.s_default (rev LMScore.ReadmeExample.readme_seq)
                              LMScore.ReadmeExample.readme_pssm Sse2 Readme.thr 1)).
Proof. vm_compute. repeat split; reflexivity. Qed.
