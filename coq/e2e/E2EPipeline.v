(* The whole scanning pipeline, assembled from the MODELS of the other groups (executable
   definitions only, no proofs):

     text (bytes)
       --[coq/encode  pipeline_encode_raw, any pipeline / dispatcher arm]-->  symbols
       --[coq/stripe  stripe_into, any backend, into any reused buffer]-->    striped buffer
       --[coq/stripe  configure(&pssm)]-->                                    look-ahead rows
       --[coq/scan    Scanner::new = to_discrete + borrowed data (e_env)]-->  environment
       --[coq/scan    Scanner::{next.., max}, any dispatcher arm]-->          hits / best hit

   e_env takes the sequence matrix FROM THE STRIPE MODEL'S STATE (not from scan's closed
   form smatrix): that the two coincide is a theorem (E2EBridgeStripe), not a definition.

   The second half of the file is the scanner with the KERNEL models plugged in instead of
   the specification functions the scan model uses: Maximum<u8>::max and
   Threshold<u8>::threshold from coq/maxi (dispatch_max_u8, dispatch_threshold), the u8
   block scores from coq/disc (score_rows_dispatch: generic kernel / AVX2 PSHUFB kernel),
   score_position from coq/score. *)
From Coq Require Import List Arith Bool Lia ZArith.
From Coq.Strings Require Import Byte.
From LMBase Require Import Res ListX IEEE.
From LMStripe Require StripeModel NetModel StripeAvx2.
From LMScore Require ScoreModel.
From LMDisc Require DiscModel.
From LMMaxi Require MaxiModel.
From LMEncode Require EncodeModel EncodeInst.
From LMScan Require Import ScanModel ScanConcrete.
From LMScan Require ScanCheck.
From LME2E Require Import E2EBridgeEncode E2EBridgeMaxi E2EBridgeDisc.
Import ListNotations.

Module SM := LMStripe.StripeModel.
Module SA := LMStripe.StripeAvx2.
Module EM := LMEncode.EncodeModel.
Module EI := LMEncode.EncodeInst.
Module MM := LMMaxi.MaxiModel.
Module DM := LMDisc.DiscModel.
Module SCO := LMScore.ScoreModel.

(* ---------- Scanner::new on the stripe model's buffer ---------- *)

Definition e_env (K C : nat) (pssm : list (list F32.t)) (st : SM.sseq) : res cenv :=
  dm <- to_discrete K pssm ;;
  let sm := SM.mat st in
  let wrap := SM.swrap st in
  let L := SM.slen st in
  Ok {| ce_C := C; ce_pssm := pssm; ce_L := L; ce_wrap := wrap; ce_dm := dm;
        ce_sm := sm;
        ce_ptab := map (c_score_position sm wrap pssm) (seq 0 ((L + 1) - length pssm));
        ce_dtab := map (drow C sm (d_data dm)) (seq 0 (length sm - wrap)) |}.

(* ---------- text -> configured striped buffer ---------- *)

(* encode, stripe into the (reused, arbitrary) buffer [old], configure for a motif of M rows *)
Definition e2e_prepare (A : EM.abc) (C : nat) (p : EI.pipeline) (junk : nat -> EM.sym) (text : list byte)
           (be : SA.backend) (old : SM.sseq) (M : nat) : res (list nat * SM.sseq) :=
  sq <- encode_nat p A junk text ;;
  st0 <- SA.stripe_into (EM.a_K A) C be sq old ;;
  st <- SM.configure (EM.a_K A) C M st0 ;;
  Ok (sq, st).

(* ... then Scanner::new(&pssm, &striped).threshold(thr).block_size(B), iterated to exhaustion *)
Definition e2e_scan (A : EM.abc) (C : nat) (p : EI.pipeline) (junk : nat -> EM.sym) (text : list byte)
           (be : SA.backend) (old : SM.sseq) (pssm : list (list F32.t))
           (am : arm) (thr : F32.t) (B : nat) : res (list fhit) :=
  r <- e2e_prepare A C p junk text be old (length pssm) ;;
  v <- e_env (EM.a_K A) C pssm (snd r) ;;
  ce_collect v am thr B.

(* ... or k calls of next() followed by Scanner::max() *)
Definition e2e_take_max (A : EM.abc) (C : nat) (p : EI.pipeline) (junk : nat -> EM.sym) (text : list byte)
           (be : SA.backend) (old : SM.sseq) (pssm : list (list F32.t))
           (am : arm) (thr : F32.t) (B k : nat) : res (list fhit * res (option fhit)) :=
  r <- e2e_prepare A C p junk text be old (length pssm) ;;
  v <- e_env (EM.a_K A) C pssm (snd r) ;;
  ce_take_max v am thr B k.

Definition e2e_scan_max (A : EM.abc) (C : nat) (p : EI.pipeline) (junk : nat -> EM.sym) (text : list byte)
           (be : SA.backend) (old : SM.sseq) (pssm : list (list F32.t))
           (am : arm) (thr : F32.t) (B : nat) : res (option fhit) :=
  r <- e2e_prepare A C p junk text be old (length pssm) ;;
  v <- e_env (EM.a_K A) C pssm (snd r) ;;
  ce_max_after v am thr B 0.

(* the executable numeric side condition on the matrix alone: to_discrete succeeds and the
   result passes scan's wc_input (= coq/disc's well_conditioned predicate + finite
   non-wildcard cells + at most 16384 rows + magnitude bound) *)
Definition e2e_wc (K : nat) (pssm : list (list F32.t)) : bool :=
  match to_discrete K pssm with
  | Ok dm => LMScan.ScanCheck.wc_input K pssm (d_factor dm)
  | _ => false
  end.

(* ---------- the scanner with the kernel models plugged in ---------- *)

Definition arm_maxi (am : arm) : MM.arm :=
  match am with Generic => MM.AGeneric | Sse2 => MM.ASse2 | Avx2 => MM.AAvx2 end.

(* Maximum<u8>::max through the dispatcher of coq/maxi, read back as a byte *)
Definition k_max (am : arm) (d : dmatrix) : res (option nat) :=
  o <- MM.dispatch_max_u8 (arm_maxi am) (zmat d) ;; Ok (option_map Z.to_nat o).

(* Threshold<u8>::threshold through the dispatcher of coq/maxi *)
Definition k_threshold (am : arm) (d : dmatrix) (t : nat) : list (nat * nat) :=
  MM.dispatch_threshold Z.leb (arm_maxi am) (zmat d) (Z.of_nat t).

(* Score<u8>::score_rows_into through the dispatcher of coq/disc, read back as bytes *)
Definition k_score_rows (am : arm) (pads : nat -> list Z) (L wrap : nat) (sm ddata : list (list nat))
           (a e : nat) : res dmatrix :=
  sc <- DM.score_rows_dispatch (arm_disc am) (zmat ddata) pads (dsq L wrap sm) a e ;;
  Ok (map (map Z.to_nat) (DM.sc_rows sc)).

(* ScoringMatrix::score_position of coq/score (binary32 instance) *)
Definition k_score_position (L wrap : nat) (sm : list (list nat)) (pssm : list (list F32.t)) (i : nat) : res F32.t :=
  SCO.score_position F32.add F32.zero pssm (SCO.mkSeq L wrap sm) i.

(* ScanModel's next()/collect with max / threshold as parameters (same text otherwise) *)
Section KScanner.
  Context {T : Type}.
  Variable geb : T -> T -> bool.
  Variable is_nan : T -> bool.
  Variable scale : T -> nat.
  Variable score_position : nat -> res T.
  Variable score_rows : nat -> nat -> res dmatrix.
  Variable kmax : dmatrix -> res (option nat).
  Variable kthr : dmatrix -> nat -> list (nat * nat).
  Variable R Lm B : nat.
  Variable thr : T.

  Definition knext_block (s : st (T := T)) : res (st (T := T)) :=
    let t := scale thr in
    let e := Nat.min (row s + B) R in
    d <- score_rows (row s) e ;;
    mx <- kmax d ;;
    hs <- match mx with
          | Some m => if t <=? m then next_cands geb is_nan score_position R Lm thr (row s) (kthr d t) (hits s)
                      else Ok (hits s)
          | None => Ok (hits s)
          end ;;
    Ok {| row := row s + B; hits := hs |}.

  Fixpoint knext_loop (fuel : nat) (s : st (T := T)) : res (st (T := T)) :=
    match fuel with
    | O => OutOfFuel
    | S f =>
        match hits s with
        | [] => if row s <? R then s' <- knext_block s ;; knext_loop f s' else Ok s
        | _ :: _ => Ok s
        end
    end.

  Definition knext (s : st (T := T)) : res (option (hit (T := T)) * st (T := T)) :=
    s' <- knext_loop (S R) s ;;
    match hits s' with
    | [] => Ok (None, s')
    | h :: tl => Ok (Some h, {| row := row s'; hits := tl |})
    end.

  Fixpoint kcollect (fuel : nat) (s : st (T := T)) : res (list (hit (T := T))) :=
    match fuel with
    | O => OutOfFuel
    | S f =>
        r <- knext s ;;
        match fst r with
        | None => Ok []
        | Some h => l <- kcollect f (snd r) ;; Ok (h :: l)
        end
    end.
End KScanner.

(* the concrete scanner on the kernels: same environment, every callee replaced by the
   model of the group that owns it *)
Definition k_collect (v : cenv) (am : arm) (pads : nat -> list Z) (thr : F32.t) (B : nat) : res (list fhit) :=
  kcollect F32.ge F32.is_nan (ce_scale v)
           (k_score_position (ce_L v) (ce_wrap v) (ce_sm v) (ce_pssm v))
           (k_score_rows am pads (ce_L v) (ce_wrap v) (ce_sm v) (d_data (ce_dm v)))
           (k_max am) (k_threshold am)
           (ce_R v) (ce_Lm v) B thr (ce_fuel v) init.

Definition e2e_scan_kernels (A : EM.abc) (p : EI.pipeline) (junk : nat -> EM.sym) (text : list byte)
           (be : SA.backend) (old : SM.sseq) (pssm : list (list F32.t))
           (am : arm) (pads : nat -> list Z) (thr : F32.t) (B : nat) : res (list fhit) :=
  r <- e2e_prepare A 32 p junk text be old (length pssm) ;;
  v <- e_env (EM.a_K A) 32 pssm (snd r) ;;
  k_collect v am pads thr B.

(* ---------- the scanner on a given buffer / from symbols / after a history ---------- *)

(* Scanner::new(&pssm, &st) ... iterated to exhaustion, on whatever buffer state [st] *)
Definition e2e_scan_buffer (K C : nat) (pssm : list (list F32.t)) (st : SM.sseq)
           (am : arm) (thr : F32.t) (B : nat) : res (list fhit) :=
  v <- e_env K C pssm st ;; ce_collect v am thr B.

Definition e2e_max_buffer (K C : nat) (pssm : list (list F32.t)) (st : SM.sseq)
           (am : arm) (thr : F32.t) (B : nat) : res (option fhit) :=
  v <- e_env K C pssm st ;; ce_max_after v am thr B 0.

(* from an already encoded sequence *)
Definition e2e_scan_syms (K C : nat) (be : SA.backend) (old : SM.sseq) (sq : list nat)
           (pssm : list (list F32.t)) (am : arm) (thr : F32.t) (B : nat) : res (list fhit) :=
  st0 <- SA.stripe_into K C be sq old ;;
  st <- SM.configure K C (length pssm) st0 ;;
  e2e_scan_buffer K C pssm st am thr B.

(* after any history of stripe / stripe_into / configure / configure_wrap calls on one
   buffer that started as StripedSequence::default() *)
Definition e2e_scan_history (K C : nat) (ops : list SA.op) (pssm : list (list F32.t))
           (am : arm) (thr : F32.t) (B : nat) : res (list fhit) :=
  st <- SA.run K C SM.s_default ops ;; e2e_scan_buffer K C pssm st am thr B.

Definition e2e_max_history (K C : nat) (ops : list SA.op) (pssm : list (list F32.t))
           (am : arm) (thr : F32.t) (B : nat) : res (option fhit) :=
  st <- SA.run K C SM.s_default ops ;; e2e_max_buffer K C pssm st am thr B.

(* ---------- Scanner::max with the kernel models plugged in ---------- *)

(* ScanModel's take_k / max_loop / smax / max_after with max / threshold as parameters *)
Section KMax.
  Context {T : Type}.
  Variable geb gtb eqb : T -> T -> bool.
  Variable is_nan : T -> bool.
  Variable scale : T -> nat.
  Variable score_position : nat -> res T.
  Variable score_rows : nat -> nat -> res dmatrix.
  Variable kmax : dmatrix -> res (option nat).
  Variable kthr : dmatrix -> nat -> list (nat * nat).
  Variable R Lm B : nat.
  Variable thr : T.

  Fixpoint ktake_k (k : nat) (s : st (T := T)) : res (list (hit (T := T)) * st (T := T)) :=
    match k with
    | O => Ok ([], s)
    | S k' =>
        r <- knext geb is_nan scale score_position score_rows kmax kthr R Lm B thr s ;;
        match fst r with
        | None => Ok ([], snd r)
        | Some h => r' <- ktake_k k' (snd r) ;; Ok (h :: fst r', snd r')
        end
    end.

  Fixpoint kmax_loop (fuel : nat) (rw : nat) (best : option (hit (T := T))) (bd : nat)
    : res (option (hit (T := T))) :=
    match fuel with
    | O => OutOfFuel
    | S f =>
        if rw <? R then
          let e := Nat.min (rw + B) R in
          d <- score_rows rw e ;;
          mx <- kmax d ;;
          r <- match mx with
               | Some m => if bd <=? m
                           then max_cands geb gtb eqb is_nan scale score_position R Lm thr rw d (kthr d bd) best bd
                           else Ok (best, bd)
               | None => Ok (best, bd)
               end ;;
          kmax_loop f (rw + B) (fst r) (snd r)
        else Ok best
    end.

  Definition ksmax (s : st (T := T)) : res (option (hit (T := T))) :=
    b0 <- max_by_score gtb eqb (filter (fun h => geb (snd h) thr) (rev (hits s))) ;;
    let bd0 := match b0 with Some h => scale (snd h) | None => scale thr end in
    kmax_loop (S R) (row s) b0 bd0.

  Definition kmax_after (k : nat) : res (option (hit (T := T))) :=
    r <- ktake_k k init ;; ksmax (snd r).
End KMax.

Definition k_max_after (v : cenv) (am : arm) (pads : nat -> list Z) (thr : F32.t) (B k : nat)
  : res (option fhit) :=
  kmax_after F32.ge F32.gt F32.eq F32.is_nan (ce_scale v)
             (k_score_position (ce_L v) (ce_wrap v) (ce_sm v) (ce_pssm v))
             (k_score_rows am pads (ce_L v) (ce_wrap v) (ce_sm v) (d_data (ce_dm v)))
             (k_max am) (k_threshold am)
             (ce_R v) (ce_Lm v) B thr k.

Definition e2e_max_kernels (A : EM.abc) (p : EI.pipeline) (junk : nat -> EM.sym) (text : list byte)
           (be : SA.backend) (old : SM.sseq) (pssm : list (list F32.t))
           (am : arm) (pads : nat -> list Z) (thr : F32.t) (B k : nat) : res (option fhit) :=
  r <- e2e_prepare A 32 p junk text be old (length pssm) ;;
  v <- e_env (EM.a_K A) 32 pssm (snd r) ;;
  k_max_after v am pads thr B k.

Definition e2e_max_after (A : EM.abc) (C : nat) (p : EI.pipeline) (junk : nat -> EM.sym) (text : list byte)
           (be : SA.backend) (old : SM.sseq) (pssm : list (list F32.t))
           (am : arm) (thr : F32.t) (B k : nat) : res (option fhit) :=
  r <- e2e_prepare A C p junk text be old (length pssm) ;;
  v <- e_env (EM.a_K A) C pssm (snd r) ;;
  ce_max_after v am thr B k.
