(* END-TO-END composition of the STATISTICS side: C09 (count -> frequency -> weight -> score
   conversions, coq/pwm), C11 (MEME-style ScoreDistribution, coq/dist), C12 / C13 (TFM-PVALUE,
   coq/tfm), C10 (reverse complement), on top of C01's definition of the score.  Only theorem
   statements (closed by lemmas of E2EStat*.v), statement pins and non-vacuity examples.

   Exact arithmetic throughout: counts, pseudocounts, frequencies, weights and backgrounds are
   rationals (Qc); scores are rationals or -inf; the base-2 logarithm is an abstract function
   [flog2 : xq -> xq] of which only  log2(0) = -inf  and  "log2(x) is finite for x > 0"  are used
   (the binary32 logarithms of libm are rationals, so they are an instance).

   THE EXACT TAIL.  Three groups define P(S >= t) of a random background-distributed word:
     coq/dist  tail_exact (recursion over rows; = tail_words, the literal K^M word sum)
     coq/tfm   Ptail / tailS (weighted sums over the K-1 symbol cells)
     here      tail_c01: the word sum with the score of a word computed by C01's score_def
   E2EStatBridge proves them equal; all brackets below are stated with tail_c01. *)
From Coq Require Import List Arith Bool Lia ZArith NArith QArith Qcanon Qabs Lqa Permutation.
From LMBase Require Import Res ListX.
From LMPwm Require Import GenComplement PwmModel PwmProofs PwmExact.
From LMPwm Require C09 C10.
From LMDist Require DistModel DistInst DistTail C11.
From LMTfm Require TfmNum TfmModel TfmSpec TfmProofs TfmLink C12 C13.
From LMBase Require Import IEEE.
From LMIo Require IoBase IoNom IoJaspar IoPrint.
From Coq.Strings Require Import Byte.
From LMScan Require Import ScanModel ScanConcrete.
From LMStripe Require NetModel.
From LME2E Require Import E2EBridgeEncode E2EPipeline E2EProofs.
From LME2E Require Import E2EStatBridge E2EStatRevcomp E2EStatChain E2EStatProofs E2EStatScan E2EStatMeme E2EStatFloat E2EStatFloatScan E2EStatWild E2EStatWildScan E2EStatIo.
Import ListNotations.
Local Open Scope nat_scope.

(* ================= bridges ================= *)

(* the three exact tails are one number, for every matrix of M rows of K cells whose K-1 symbol
   cells are finite (wildcard cell free, -inf allowed) and every background of K weights whose
   wildcard weight is 0 *)
Theorem stat_bridge_tails :
  forall (K : nat) (sm : list (list (option Q))) (bg : list Q) (t : Q),
    1 <= K -> sym_finite K sm -> length bg = K -> (last bg 0 == 0)%Q ->
    (tail_c01 K sm bg t == DI.tail_exact (dmat sm) bg t)%Q /\
    (DI.tail_exact (dmat sm) bg t == TL.Ptail (trows sm) bg t)%Q.
Proof. exact tails_agree. Qed.

(* ... the first equality needs no hypothesis on the background or the cells (wildcard mass and
   -inf cells allowed: the setting of C11) *)
Theorem stat_bridge_tail_c01_dist :
  forall (K : nat) (sm : list (list (option Q))) (bg : list Q) (t : Q),
    Forall (fun row => length row = K) sm -> length bg = K ->
    (tail_c01 K sm bg t == DI.tail_exact (dmat sm) bg t)%Q.
Proof. exact tail_c01_dist. Qed.

(* the score of a word: C01's left fold = dist's word_S, -inf alike *)
Theorem stat_bridge_word_score :
  forall (K : nat) (sm : list (list (option Q))) (w : list nat),
    Forall (fun row => length row = K) sm -> length w = length sm -> Forall (fun a => a < K) w ->
    match DI.word_S (dmat sm) w with
    | Some s => exists s', score_c01 K sm w = Some s' /\ (s' == s)%Q
    | None => score_c01 K sm w = None
    end.
Proof. exact word_score_agree. Qed.

(* ================= (1) the motif pipeline ================= *)

(* the scoring matrix of  counts.to_freq(pseudo).to_weight(bg).to_scoring()  : cell (i,k) is
   log2 of the exact weight; FINITE for every symbol with positive pseudocount and positive
   background; -inf for every symbol whose background is 0 *)
Theorem stat_chain_cells :
  forall (flog2 flog10 fln : xq -> xq) (K : nat) (pseudo bg : list Qc) (counts : list (list N)) (i k : nat),
    flog2 (Some 0%Qc) = None -> (forall x : Qc, (0 < x)%Qc -> flog2 (Some x) <> None) ->
    length pseudo = K -> length bg = K -> Forall (fun r : list N => length r = K) counts ->
    i < length counts -> k < K -> Forall (fun p => (0 <= p)%Qc) pseudo ->
    nth k (nth i (chain flog2 flog10 fln pseudo bg counts) []) None =
      flog2 (Some (nth k (nth i (weights pseudo bg counts) []) 0%Qc)) /\
    ((0 < nth k pseudo 0)%Qc -> (0 < nth k bg 0)%Qc ->
     nth k (nth i (chain flog2 flog10 fln pseudo bg counts) []) None <> None) /\
    (nth k bg 0%Qc = 0%Qc -> nth k (nth i (chain flog2 flog10 fln pseudo bg counts) []) None = None).
Proof.
  intros f2 f10 fl K pseudo bg counts i k H0 Hpos Hp Hb Hc Hi Hk Hps.
  exact (chain_cells f2 f10 fl H0 Hpos K pseudo bg counts i k Hp Hb Hc Hi Hk Hps).
Qed.

(* THE PIPELINE.  For counts of M >= 2 rows of K >= 2 cells, pseudocounts that are positive on the
   K-1 symbols (e.g. Pseudocounts::from(c), c > 0), a background accepted by Background::new
   (entries in [0,1], sum 1) with positive symbol frequencies and wildcard frequency 0:
   (a) the matrix has finite symbol cells and a -inf wildcard column;
   (b) the hypotheses of C11 (non-negative weights of mass <= 1, build and stage_a succeed) and of
       C12 / C13 (matrix_ok) hold;
   (c) dist's, tfm's and C01's exact tails of it coincide;
   (d) the MEME-style p-value of any score s and the converged TFM-PVALUE p-value of the same score
       bracket the SAME exact tail T = P(S >= .), and differ by at most explicit tail differences. *)
Theorem stat_motif_pipeline :
  forall (flog2 flog10 fln : xq -> xq) (K : nat) (pseudo bg : list Qc) (counts : list (list N)),
    flog2 (Some 0%Qc) = None -> (forall x : Qc, (0 < x)%Qc -> flog2 (Some x) <> None) ->
    2 <= K -> length pseudo = K -> length bg = K -> Forall (fun r : list N => length r = K) counts ->
    Forall (fun p => (0 <= p)%Qc) pseudo -> (forall k, k < K - 1 -> (0 < nth k pseudo 0)%Qc) ->
    Forall (fun f => (Q2Qc 0 <= f)%Qc /\ (f <= Q2Qc 1)%Qc) bg -> Qcsum bg = Q2Qc 1 ->
    (forall k, k < K - 1 -> (0 < nth k bg 0)%Qc) -> nth (K - 1) bg 0%Qc = 0%Qc ->
    2 <= length counts -> (Z.of_nat (length counts) * 1000 < DMo.i32_max)%Z ->
    let S := sm flog2 flog10 fln pseudo bg counts in
    let B := bgQ bg in
    let T := tail_c01 K S B in
    let M := inject_Z (Z.of_nat (length counts)) in
    (* (a) *)
    (length S = length counts /\ Forall (fun r : list (option Q) => length r = K) S /\
     forall i, i < length counts ->
       (forall k, k < K - 1 -> nth k (nth i S []) None <> None) /\ nth (K - 1) (nth i S []) None = None) /\
    (* (b) *)
    (DT.bg_nonneg B /\ (DI.Qsum B <= 1)%Q /\ TP.matrix_ok K (trows S) B /\
     exists d offset scale, DMo.build DI.QOps (dmat S) B = Ok d /\ DMo.stage_a DI.QOps (dmat S) = Ok (offset, scale)) /\
    (* (c) *)
    (forall t, (T t == DI.tail_exact (dmat S) B t)%Q /\ (T t == TL.Ptail (trows S) B t)%Q) /\
    (* (d) *)
    (forall d offset scale s p,
       DMo.build DI.QOps (dmat S) B = Ok d -> DMo.stage_a DI.QOps (dmat S) = Ok (offset, scale) ->
       DMo.d_pvalue DI.QOps d s = Ok p ->
       let dd := ((M / 2 + 1) / scale)%Q in
       (T (s + dd) <= p)%Q /\ (p <= T (s - dd))%Q /\
       forall perm g steps it,
         Permutation perm (seq 0 (length counts)) -> (0 < g)%Q ->
         last (TM.pv_run LMTfm.TfmNum.NumQ steps (trows S) perm B s g) (Panic 0) = Ok it ->
         TM.io_conv it = true ->
         let gi := TM.io_gran it in
         (0 < gi)%Q /\ (gi <= g)%Q /\
         (T (s + (M + 1) * gi) <= TM.io_start it)%Q /\ (TM.io_start it <= T (s - (M + 2) * gi))%Q /\
         (p - TM.io_start it <= T (s - dd) - T (s + (M + 1) * gi))%Q /\
         (TM.io_start it - p <= T (s - (M + 2) * gi) - T (s + dd))%Q).
Proof.
  intros f2 f10 fl K pseudo bg counts H0 Hpos HK Hp Hb Hc Hps Hpp Hrange Hsum Hbpos Hwild HM Hlen S B T M.
  split; [|split; [|split]].
  - destruct (sm_shape f2 f10 fl H0 Hpos K pseudo bg counts HK Hp Hb Hc Hps Hpp Hrange Hsum Hbpos Hwild) as (H1 & H2).
    split; [exact H1|]. split; [exact H2|]. intros i Hi. split.
    + intros k Hk. exact (proj1 (sm_cells f2 f10 fl H0 Hpos K pseudo bg counts HK Hp Hb Hc Hps Hpp Hrange Hsum Hbpos Hwild i k Hi) Hk).
    + exact (proj2 (sm_cells f2 f10 fl H0 Hpos K pseudo bg counts HK Hp Hb Hc Hps Hpp Hrange Hsum Hbpos Hwild i 0 Hi)).
  - destruct (chain_bg_dist f2 f10 fl H0 Hpos K pseudo bg counts HK Hp Hb Hc Hps Hpp Hrange Hsum Hbpos Hwild) as (A1 & A2). split; [exact A1|]. split; [exact A2|]. split.
    + exact (chain_matrix_ok f2 f10 fl H0 Hpos K pseudo bg counts HK Hp Hb Hc Hps Hpp Hrange Hsum Hbpos Hwild).
    + apply (chain_build f2 f10 fl H0 Hpos K pseudo bg counts HK Hp Hb Hc Hps Hpp Hrange Hsum Hbpos Hwild). lia.
  - intros t.
    destruct (chain_tails f2 f10 fl H0 Hpos K pseudo bg counts HK Hp Hb Hc Hps Hpp Hrange Hsum Hbpos Hwild t) as (E1 & E2).
    split; [exact E1|exact (Qeq_trans _ _ _ E1 E2)].
  - intros d offset scale s p Hd Hs Hpv dd.
    destruct (chain_meme_brackets f2 f10 fl H0 Hpos K pseudo bg counts HK Hp Hb Hc Hps Hpp Hrange Hsum Hbpos Hwild
                d offset scale s p Hd Hs Hlen Hpv) as (A1 & A2).
    split; [exact A1|]. split; [exact A2|].
    intros perm g steps it Hperm Hg Hlast Hconv gi.
    destruct (chain_tfm_brackets f2 f10 fl H0 Hpos K pseudo bg counts HK Hp Hb Hc Hps Hpp Hrange Hsum Hbpos Hwild
                perm s g steps it HM Hperm Hg Hlast Hconv) as (B1 & B2 & _ & B3 & B4).
    destruct (chain_methods_agree f2 f10 fl H0 Hpos K pseudo bg counts HK Hp Hb Hc Hps Hpp Hrange Hsum Hbpos Hwild
                d offset scale perm s g steps it p Hd Hs Hlen Hpv HM Hperm Hg Hlast Hconv) as (C1 & C2).
    repeat split; assumption.
Qed.

(* the TFM-PVALUE threshold of the same matrix for a p-value in (0,1] (C13): every Iteration of
   approximate_score(p) returns t with T(t + d) <= p, and every attainable score u < t - d has
   T(u - d) >= p, d = (M+2) granularity -- with T the exact tail over C01's score_def *)
Theorem stat_motif_pipeline_score :
  forall (flog2 flog10 fln : xq -> xq) (K : nat) (pseudo bg : list Qc) (counts : list (list N)),
    flog2 (Some 0%Qc) = None -> (forall x : Qc, (0 < x)%Qc -> flog2 (Some x) <> None) ->
    2 <= K -> length pseudo = K -> length bg = K -> Forall (fun r : list N => length r = K) counts ->
    Forall (fun p => (0 <= p)%Qc) pseudo -> (forall k, k < K - 1 -> (0 < nth k pseudo 0)%Qc) ->
    Forall (fun f => (Q2Qc 0 <= f)%Qc /\ (f <= Q2Qc 1)%Qc) bg -> Qcsum bg = Q2Qc 1 ->
    (forall k, k < K - 1 -> (0 < nth k bg 0)%Qc) -> nth (K - 1) bg 0%Qc = 0%Qc ->
    2 <= length counts ->
    let S := sm flog2 flog10 fln pseudo bg counts in
    let B := bgQ bg in
    forall perm p steps win it,
      Permutation perm (seq 0 (length counts)) -> (0 < p)%Q -> (p <= 1)%Q ->
      TM.score_window0 LMTfm.TfmNum.NumQ (trows S) perm = Ok win ->
      In (Ok it) (TM.sc_run LMTfm.TfmNum.NumQ steps (trows S) perm B p (1 # 10) win) ->
      let M := inject_Z (Z.of_nat (length counts)) in
      let gi := TM.io_gran it in
      let t := TM.io_score it in
      let d := ((M + 2) * gi)%Q in
      (0 < gi)%Q /\ (gi <= 1 # 10)%Q /\
      (tail_c01 K S B (t + d) <= p)%Q /\
      (forall l, TS.attain l (TS.srows (TL.sym_cells (trows S)) B) -> (TS.Qsum l < t - d)%Q ->
                 (p <= tail_c01 K S B (TS.Qsum l - d))%Q).
Proof.
  intros f2 f10 fl K pseudo bg counts H0 Hpos HK Hp Hb Hc Hps Hpp Hrange Hsum Hbpos Hwild HM S B perm p steps win it
         Hperm Hp0 Hp1 Hwin Hin.
  exact (chain_tfm_score f2 f10 fl H0 Hpos K pseudo bg counts HK Hp Hb Hc Hps Hpp Hrange Hsum Hbpos Hwild
           perm p steps win it HM Hperm Hp0 Hp1 Hwin Hin).
Qed.

(* Pseudocounts::from(c) with c > 0 and counts from CountMatrix::from_sequences satisfy the
   hypotheses on pseudocounts / counts *)
Theorem stat_pipeline_inputs :
  (forall (K : nat) (c : Qc), (0 < c)%Qc ->
     length (pseudo_scalar Qcops K c) = K /\
     Forall (fun p => (0 <= p)%Qc) (pseudo_scalar Qcops K c) /\
     (forall k, k < K - 1 -> (0 < nth k (pseudo_scalar Qcops K c) 0)%Qc)) /\
  (forall (K L : nat) (seqs : list (list nat)),
     length (counts_spec_matrix K L seqs) = L /\
     Forall (fun r : list N => length r = K) (counts_spec_matrix K L seqs)).
Proof.
  split; [exact pseudo_scalar_ok|].
  intros K L seqs. unfold counts_spec_matrix. split; [now rewrite map_length, seq_length|].
  apply Forall_map. apply Forall_forall. intros i _. now rewrite map_length, seq_length.
Qed.

(* ================= (2) scanning with a threshold derived from a p-value ================= *)

(* Setting of both theorems: an exact scoring matrix [sm] (finite symbol cells), background [bg]
   without wildcard mass, T = exact tail over C01's score_def; a text [sq] without wildcard; the
   binary32 scanner's hit list H as E2E.e2e_text_to_hits characterises it ((i, x) in H  <->  position
   i valid, its binary32 score sd32 i >= thr, x = sd32 i).  ABSTRACT LINK (hence the names _link): the relation
   between binary32 and exact arithmetic is taken as two hypotheses about any value map [val],
     L1  sd32 i >= thr in binary32  <->  tq <= val (sd32 i)      (order embedding; true for finite floats
                                                                   with val = the float's rational value)
     L2  | val (sd32 i) - exact score of the window at i | <= eps  (summation error; C01_fsum_error_bound
                                                                   gives it over the reals)
   Both are DISCHARGED for val = the rational value of a binary32 number in stat_threshold_scan_meme /
   stat_threshold_scan_tfm below (E2EStatFloat.v).  [window M i sq] = the M symbols at i. *)

(* MEME threshold t = ScoreDistribution::score(p), 0 < p < 1 (C11 round trip + brackets): every
   accepted position has an exact score s >= t - eps and exact tail T(s + eps + dd) <= p, i.e. its
   tail probability exceeds p by at most the mass of the scores in [s, s + eps + dd).  Every
   rejected position scores below t + eps.  (Nothing is said here about how small the tail of a rejected
   position can be: the minimality of score(p) is stat_meme_score_minimal, used in stat_threshold_scan_meme.) *)
Theorem stat_threshold_scan_meme_link :
  forall (K : nat) (sm : list (list (option Q))) (bg : list Q) d offset scale p tq
         (sq : list nat) (sd32 : nat -> F32.t) (thr : F32.t) (H : list (nat * F32.t)) (val : F32.t -> Q) (eps : Q),
    2 <= K -> sym_finite K sm -> length bg = K -> (last bg 0 == 0)%Q ->
    DT.bg_nonneg bg -> (DI.Qsum bg <= 1)%Q ->
    DMo.build DI.QOps (dmat sm) bg = Ok d -> DMo.stage_a DI.QOps (dmat sm) = Ok (offset, scale) ->
    (Z.of_nat (length sm) * 1000 < DMo.i32_max)%Z ->
    (0 < p)%Q -> (p < 1)%Q -> DMo.d_score DI.QOps d p = Ok tq ->
    (forall i x, In (i, x) H <-> i + length sm <= length sq /\ F32.ge (sd32 i) thr = true /\ x = sd32 i) ->
    Forall (fun a => a < K - 1) sq ->
    (forall i, i + length sm <= length sq -> (F32.ge (sd32 i) thr = true <-> (tq <= val (sd32 i))%Q)) ->
    (forall i s, i + length sm <= length sq -> score_c01 K sm (window (length sm) i sq) = Some s ->
                 (Qabs.Qabs (val (sd32 i) - s) <= eps)%Q) ->
    let dd := ((inject_Z (Z.of_nat (length sm)) / 2 + 1) / scale)%Q in
    (forall i x, In (i, x) H ->
       exists s, score_c01 K sm (window (length sm) i sq) = Some s /\ (tq - eps <= s)%Q /\
                 (tail_c01 K sm bg (s + eps + dd) <= p)%Q) /\
    (forall i, i + length sm <= length sq -> (forall x, ~ In (i, x) H) ->
       exists s, score_c01 K sm (window (length sm) i sq) = Some s /\ (s < tq + eps)%Q).
Proof.
  intros K sm bg d offset scale p tq sq sd32 thr H val eps HK Hsm Hbg Hlast Hnn Hle Hd Hs Hlen Hp0 Hp1 Ht
         Hhits Hsyms L1 L2 dd.
  assert (Hrows : Forall (fun row : list (option Q) => length row = K) sm)
    by (eapply Forall_impl; [|exact Hsm]; intros r (E & _); exact E).
  assert (Hnn' : forall b, In b bg -> (0 <= b)%Q) by (intros b Hb; unfold DT.bg_nonneg in Hnn; rewrite Forall_forall in Hnn; auto).
  pose proof (meme_threshold K sm bg d offset scale p tq Hrows Hbg Hnn Hle Hd Hs Hlen Hp0 Hp1 Ht) as Hthr.
  split.
  - exact (hits_tail K sm bg HK Hsm Hbg Hlast Hnn' sq sd32 thr H Hhits Hsyms val tq eps L1 L2 p dd Hthr).
  - exact (rejected_below K sm bg HK Hsm Hbg sq sd32 thr H Hhits Hsyms val tq eps L1 L2).
Qed.

(* TFM-PVALUE threshold t = the score of an Iteration of approximate_score(p), d = (M+2) granularity
   (C13, both clauses): accepted positions have T(s + eps + d) <= p; every rejected position scores
   below t + eps, and if it is rejected by more than the margin (s < t - d) its exact tail at slack
   d is at least p: no position whose tail T(s - d) is below p lies more than d under the threshold. *)
Theorem stat_threshold_scan_tfm_link :
  forall (K : nat) (sm : list (list (option Q))) (bg : list Q) perm p steps win it
         (sq : list nat) (sd32 : nat -> F32.t) (thr : F32.t) (H : list (nat * F32.t)) (val : F32.t -> Q) (eps : Q),
    sym_finite K sm -> TP.matrix_ok K (trows sm) bg ->
    2 <= length sm -> Permutation perm (seq 0 (length sm)) -> (0 < p)%Q -> (p <= 1)%Q ->
    TM.score_window0 LMTfm.TfmNum.NumQ (trows sm) perm = Ok win ->
    In (Ok it) (TM.sc_run LMTfm.TfmNum.NumQ steps (trows sm) perm bg p (1 # 10) win) ->
    let tq := TM.io_score it in
    let d := ((inject_Z (Z.of_nat (length sm)) + 2) * TM.io_gran it)%Q in
    (forall i x, In (i, x) H <-> i + length sm <= length sq /\ F32.ge (sd32 i) thr = true /\ x = sd32 i) ->
    Forall (fun a => a < K - 1) sq ->
    (forall i, i + length sm <= length sq -> (F32.ge (sd32 i) thr = true <-> (tq <= val (sd32 i))%Q)) ->
    (forall i s, i + length sm <= length sq -> score_c01 K sm (window (length sm) i sq) = Some s ->
                 (Qabs.Qabs (val (sd32 i) - s) <= eps)%Q) ->
    (forall i x, In (i, x) H ->
       exists s, score_c01 K sm (window (length sm) i sq) = Some s /\ (tq - eps <= s)%Q /\
                 (tail_c01 K sm bg (s + eps + d) <= p)%Q) /\
    (forall i, i + length sm <= length sq -> (forall x, ~ In (i, x) H) ->
       exists s, score_c01 K sm (window (length sm) i sq) = Some s /\ (s < tq + eps)%Q /\
                 ((s < tq - d)%Q -> (p <= tail_c01 K sm bg (s - d))%Q)).
Proof.
  intros K sm bg perm p steps win it sq sd32 thr H val eps Hsm Hok HM Hperm Hp0 Hp1 Hwin Hin tq d Hhits Hsyms L1 L2.
  destruct (tfm_threshold K sm bg perm p steps win it Hsm Hok HM Hperm Hp0 Hp1 Hwin Hin) as (Hc1 & Hc2).
  fold tq d in Hc1, Hc2.
  destruct Hok as (HK & _ & Hbg & Hnn & _ & Hlast).
  exact (tfm_threshold_scan K sm bg HK Hsm Hbg Hlast Hnn sq sd32 thr H Hhits Hsyms val tq eps L1 L2 p d Hc1 Hc2).
Qed.

(* MINIMALITY of ScoreDistribution::score(p) (exact arithmetic; complements C11_score_pvalue_roundtrip, which
   gives pvalue(score(p)) <= p): for 0 < p < 1 either score(p) is the start of the table (M * offset) or the
   exact tail one table step (1/scale) and one discretisation margin (dd) below it is >= p *)
Theorem stat_meme_score_minimal :
  forall (m : list (list (DMo.cell Q))) (bg : list Q) d offset scale (p s : Q),
    DT.bg_nonneg bg -> (DI.Qsum bg <= 1)%Q ->
    DMo.build DI.QOps m bg = Ok d -> DMo.stage_a DI.QOps m = Ok (offset, scale) ->
    (Z.of_nat (length m) * 1000 < DMo.i32_max)%Z ->
    (0 < p)%Q -> (p < 1)%Q -> DMo.d_score DI.QOps d p = Ok s ->
    let dd := ((inject_Z (Z.of_nat (length m)) / 2 + 1) / scale)%Q in
    (s == inject_Z (Z.of_nat (length m)) * offset)%Q \/ (p <= DI.tail_exact m bg (s - 1 / scale - dd))%Q.
Proof. exact score_minimal_tail. Qed.

(* ---------- the same with the link DISCHARGED and the hit list taken from the scanning pipeline ----------

   The binary32 scoring matrix [pssm] (what ScoringMatrix holds) is read as a matrix of rationals / -inf
   by pwm's f32_to_Q ([qmat]); the statistics (MEME-style table, TFM-PVALUE) are those of that rational
   matrix in exact arithmetic (C11 / C13); the scanner is the whole pipeline of E2E.v
   (text -> encode -> stripe -> configure -> Scanner::new -> next()*, any backend / arm / block size) on a
   text WITHOUT the wildcard letter.  The threshold handed to the scanner is any finite binary32 number
   within [eta] of the exact threshold tq (eta = 0 when tq is representable; otherwise the rounding of
   `score(p) as f32`).  L1 is E2EStatFloat.ge_valQ (Flocq's Bcompare_correct), L2 is E2EStatFloat.fscore_error
   (C01_fsum_error_bound transported to Q) with the explicit
       eps_f32 K pssm = M * 2^-23 * sum over rows of max |symbol cell|
   under the executable "no intermediate overflow" condition [no_overflow] (M <= 2^23, that sum <= 2^126).
   Numeric hypothesis of the scanner: the executable conditioning predicate e2e_wc (C08).

   MEME (t = ScoreDistribution::score(p), 0 < p < 1): no panic; every hit is a valid position whose EXACT
   score s is >= t - eps and whose exact tail satisfies T(s + eps + dd) <= p; every valid position that is
   not a hit has exact score < t + eps   (eps = eps_f32 + eta, dd = (M/2 + 1) / scale); and the threshold is
   MINIMAL up to one table step (E2EStatMeme.score_minimal_Q, not in coq/dist): unless t is the very start
   of the table (t = M * offset), every score u <= t - 1/scale - dd has exact tail T(u) >= p.  So hits have
   tail <= p and positions scoring more than 1/scale + dd below t have tail >= p: the hit set brackets
   { positions whose exact tail is <= p } up to the explicit margins. *)
Theorem stat_threshold_scan_meme :
  forall (A : EM.abc) (C : nat) (p : EI.pipeline) (junk : nat -> EM.sym) (text : list byte)
         (be : SA.backend) (old : SM.sseq) (pssm : list (list F32.t)) (am : arm) (thr : F32.t) (B : nat)
         (bg : list Q) d offset scale (pv tq eta : Q),
    A = GA.dna \/ A = GA.protein ->
    1 <= C -> SA.backend_typed C be = true -> SS.wf_matrix C (SM.mat old) ->
    Forall (no_wild A) text ->
    1 <= length pssm -> Forall (fun row : list F32.t => length row = EM.a_K A) pssm ->
    e2e_wc (EM.a_K A) pssm = true -> no_overflow (EM.a_K A) pssm = true -> 1 <= B ->
    F32.is_finite thr = true -> (Qabs (valQ thr - tq) <= eta)%Q ->
    length bg = EM.a_K A -> (last bg 0 == 0)%Q -> DT.bg_nonneg bg -> (DI.Qsum bg <= 1)%Q ->
    DMo.build DI.QOps (dmat (qmat pssm)) bg = Ok d -> DMo.stage_a DI.QOps (dmat (qmat pssm)) = Ok (offset, scale) ->
    (Z.of_nat (length pssm) * 1000 < DMo.i32_max)%Z ->
    (0 < pv)%Q -> (pv < 1)%Q -> DMo.d_score DI.QOps d pv = Ok tq ->
    let K := EM.a_K A in
    let S := qmat pssm in
    let M := length pssm in
    let eps := (eps_f32 K pssm + eta)%Q in
    let dd := ((inject_Z (Z.of_nat M) / 2 + 1) / scale)%Q in
    exists (sq : list nat) (H : list (nat * F32.t)),
      encode_nat p A junk text = Ok sq /\ length sq = length text /\
      e2e_scan A C p junk text be old pssm am thr B = Ok H /\ NoDup (map fst H) /\
      (forall i x, In (i, x) H ->
         i + M <= length sq /\
         exists s, score_c01 K S (window M i sq) = Some s /\ (tq - eps <= s)%Q /\
                   (tail_c01 K S bg (s + eps + dd) <= pv)%Q) /\
      (forall i, i + M <= length sq -> (forall x, ~ In (i, x) H) ->
         exists s, score_c01 K S (window M i sq) = Some s /\ (s < tq + eps)%Q) /\
      ((tq == inject_Z (Z.of_nat M) * offset)%Q \/
       forall u, (u <= tq - 1 / scale - dd)%Q -> (pv <= tail_c01 K S bg u)%Q).
Proof. exact text_threshold_meme. Qed.

(* TFM-PVALUE (t = score of an Iteration of approximate_score(p), 0 < p <= 1, d = (M+2) granularity): the
   same for the hits, and every non-hit scores below t + eps and, if it lies more than d under t, has
   exact tail T(s - d) >= p: hits and non-hits are separated by the exact tail probability p up to the
   explicit margins eps (binary32 summation) and d (granularity). *)
Theorem stat_threshold_scan_tfm :
  forall (A : EM.abc) (C : nat) (p : EI.pipeline) (junk : nat -> EM.sym) (text : list byte)
         (be : SA.backend) (old : SM.sseq) (pssm : list (list F32.t)) (am : arm) (thr : F32.t) (B : nat)
         (bg : list Q) perm (pv : Q) steps win it (eta : Q),
    A = GA.dna \/ A = GA.protein ->
    1 <= C -> SA.backend_typed C be = true -> SS.wf_matrix C (SM.mat old) ->
    Forall (no_wild A) text ->
    2 <= length pssm -> Forall (fun row : list F32.t => length row = EM.a_K A) pssm ->
    e2e_wc (EM.a_K A) pssm = true -> no_overflow (EM.a_K A) pssm = true -> 1 <= B ->
    TP.matrix_ok (EM.a_K A) (trows (qmat pssm)) bg ->
    Permutation perm (seq 0 (length pssm)) -> (0 < pv)%Q -> (pv <= 1)%Q ->
    TM.score_window0 LMTfm.TfmNum.NumQ (trows (qmat pssm)) perm = Ok win ->
    In (Ok it) (TM.sc_run LMTfm.TfmNum.NumQ steps (trows (qmat pssm)) perm bg pv (1 # 10) win) ->
    F32.is_finite thr = true -> (Qabs (valQ thr - TM.io_score it) <= eta)%Q ->
    let K := EM.a_K A in
    let S := qmat pssm in
    let M := length pssm in
    let tq := TM.io_score it in
    let eps := (eps_f32 K pssm + eta)%Q in
    let d := ((inject_Z (Z.of_nat M) + 2) * TM.io_gran it)%Q in
    exists (sq : list nat) (H : list (nat * F32.t)),
      encode_nat p A junk text = Ok sq /\ length sq = length text /\
      e2e_scan A C p junk text be old pssm am thr B = Ok H /\ NoDup (map fst H) /\
      (forall i x, In (i, x) H ->
         i + M <= length sq /\
         exists s, score_c01 K S (window M i sq) = Some s /\ (tq - eps <= s)%Q /\
                   (tail_c01 K S bg (s + eps + d) <= pv)%Q) /\
      (forall i, i + M <= length sq -> (forall x, ~ In (i, x) H) ->
         exists s, score_c01 K S (window M i sq) = Some s /\ (s < tq + eps)%Q /\
                   ((s < tq - d)%Q -> (pv <= tail_c01 K S bg (s - d))%Q)).
Proof. exact text_threshold_tfm. Qed.

(* TEXTS WITH WILDCARDS (N / X runs, as in real sequences).  For a matrix whose wildcard column is -inf (every
   matrix built with a background of wildcard frequency 0) a window containing a wildcard scores -inf in binary32
   (E2EStatWild.dirty_window_ninf: the finite partial sum before it cannot overflow, -inf absorbs the rest) and is
   never a hit for a finite threshold; the wildcard-free windows are judged exactly as above.  The threshold fact
   is a hypothesis here, T(tq + dd) <= p: supplied by E2EStatScan.meme_threshold (dd = (M/2+1)/scale) or
   E2EStatScan.tfm_threshold (dd = (M+2) granularity) as in the two theorems above. *)
Theorem stat_threshold_scan_wildcards :
  forall (A : EM.abc) (C : nat) (p : EI.pipeline) (junk : nat -> EM.sym) (text : list byte)
      (be : SA.backend) (old : SM.sseq) (pssm : list (list F32.t)) (am : arm) (thr : F32.t) (B : nat)
      (bg : list Q) (pv tq eta dd : Q),
  A = GA.dna \/ A = GA.protein ->
  1 <= C -> SA.backend_typed C be = true -> SS.wf_matrix C (SM.mat old) ->
  Forall (LMEncode.EncodeProofs.in_abc A) text ->
  1 <= length pssm -> Forall (fun row : list F32.t => length row = EM.a_K A) pssm ->
  e2e_wc (EM.a_K A) pssm = true -> no_overflow (EM.a_K A) pssm = true -> wild_ninf (EM.a_K A) pssm -> 1 <= B ->
  F32.is_finite thr = true -> (Qabs (valQ thr - tq) <= eta)%Q ->
  length bg = EM.a_K A -> (last bg 0 == 0)%Q -> (forall b, In b bg -> (0 <= b)%Q) ->
  (tail_c01 (EM.a_K A) (qmat pssm) bg (tq + dd) <= pv)%Q ->
  let K := EM.a_K A in
  let S := qmat pssm in
  let M := length pssm in
  let eps := (eps_f32 K pssm + eta)%Q in
  exists (sq : list nat) (H : list (nat * F32.t)),
    encode_nat p A junk text = Ok sq /\ length sq = length text /\
    e2e_scan A C p junk text be old pssm am thr B = Ok H /\ NoDup (map fst H) /\
    (forall i x, In (i, x) H ->
       i + M <= length sq /\ clean K M sq i = true /\
       exists s, score_c01 K S (window M i sq) = Some s /\ (tq - eps <= s)%Q /\
                 (tail_c01 K S bg (s + eps + dd) <= pv)%Q) /\
    (forall i, i + M <= length sq -> (forall x, ~ In (i, x) H) ->
       clean K M sq i = false \/
       exists s, score_c01 K S (window M i sq) = Some s /\ (s < tq + eps)%Q).
Proof. exact text_threshold_wild. Qed.

(* ... instantiated with the MEME-style threshold t = ScoreDistribution::score(p), 0 < p < 1 (stat_threshold_scan_meme
   for texts with wildcards) *)
Theorem stat_threshold_scan_meme_wildcards :
  forall (A : EM.abc) (C : nat) (p : EI.pipeline) (junk : nat -> EM.sym) (text : list byte)
         (be : SA.backend) (old : SM.sseq) (pssm : list (list F32.t)) (am : arm) (thr : F32.t) (B : nat)
         (bg : list Q) d offset scale (pv tq eta : Q),
    A = GA.dna \/ A = GA.protein ->
    1 <= C -> SA.backend_typed C be = true -> SS.wf_matrix C (SM.mat old) ->
    Forall (LMEncode.EncodeProofs.in_abc A) text ->
    1 <= length pssm -> Forall (fun row : list F32.t => length row = EM.a_K A) pssm ->
    e2e_wc (EM.a_K A) pssm = true -> no_overflow (EM.a_K A) pssm = true -> wild_ninf (EM.a_K A) pssm -> 1 <= B ->
    F32.is_finite thr = true -> (Qabs (valQ thr - tq) <= eta)%Q ->
    length bg = EM.a_K A -> (last bg 0 == 0)%Q -> DT.bg_nonneg bg -> (DI.Qsum bg <= 1)%Q ->
    DMo.build DI.QOps (dmat (qmat pssm)) bg = Ok d -> DMo.stage_a DI.QOps (dmat (qmat pssm)) = Ok (offset, scale) ->
    (Z.of_nat (length pssm) * 1000 < DMo.i32_max)%Z ->
    (0 < pv)%Q -> (pv < 1)%Q -> DMo.d_score DI.QOps d pv = Ok tq ->
    let K := EM.a_K A in
    let S := qmat pssm in
    let M := length pssm in
    let eps := (eps_f32 K pssm + eta)%Q in
    let dd := ((inject_Z (Z.of_nat M) / 2 + 1) / scale)%Q in
    exists (sq : list nat) (H : list (nat * F32.t)),
      encode_nat p A junk text = Ok sq /\ length sq = length text /\
      e2e_scan A C p junk text be old pssm am thr B = Ok H /\ NoDup (map fst H) /\
      (forall i x, In (i, x) H ->
         i + M <= length sq /\ clean K M sq i = true /\
         exists s, score_c01 K S (window M i sq) = Some s /\ (tq - eps <= s)%Q /\
                   (tail_c01 K S bg (s + eps + dd) <= pv)%Q) /\
      (forall i, i + M <= length sq -> (forall x, ~ In (i, x) H) ->
         clean K M sq i = false \/
         exists s, score_c01 K S (window M i sq) = Some s /\ (s < tq + eps)%Q).
Proof. exact text_threshold_meme_wild. Qed.

(* ... and with the TFM-PVALUE threshold (stat_threshold_scan_tfm for texts with wildcards) *)
Theorem stat_threshold_scan_tfm_wildcards :
  forall (A : EM.abc) (C : nat) (p : EI.pipeline) (junk : nat -> EM.sym) (text : list byte)
         (be : SA.backend) (old : SM.sseq) (pssm : list (list F32.t)) (am : arm) (thr : F32.t) (B : nat)
         (bg : list Q) perm (pv : Q) steps win it (eta : Q),
    A = GA.dna \/ A = GA.protein ->
    1 <= C -> SA.backend_typed C be = true -> SS.wf_matrix C (SM.mat old) ->
    Forall (LMEncode.EncodeProofs.in_abc A) text ->
    2 <= length pssm -> Forall (fun row : list F32.t => length row = EM.a_K A) pssm ->
    e2e_wc (EM.a_K A) pssm = true -> no_overflow (EM.a_K A) pssm = true -> wild_ninf (EM.a_K A) pssm -> 1 <= B ->
    TP.matrix_ok (EM.a_K A) (trows (qmat pssm)) bg ->
    Permutation perm (seq 0 (length pssm)) -> (0 < pv)%Q -> (pv <= 1)%Q ->
    TM.score_window0 LMTfm.TfmNum.NumQ (trows (qmat pssm)) perm = Ok win ->
    In (Ok it) (TM.sc_run LMTfm.TfmNum.NumQ steps (trows (qmat pssm)) perm bg pv (1 # 10) win) ->
    F32.is_finite thr = true -> (Qabs (valQ thr - TM.io_score it) <= eta)%Q ->
    let K := EM.a_K A in
    let S := qmat pssm in
    let M := length pssm in
    let tq := TM.io_score it in
    let eps := (eps_f32 K pssm + eta)%Q in
    let d := ((inject_Z (Z.of_nat M) + 2) * TM.io_gran it)%Q in
    exists (sq : list nat) (H : list (nat * F32.t)),
      encode_nat p A junk text = Ok sq /\ length sq = length text /\
      e2e_scan A C p junk text be old pssm am thr B = Ok H /\ NoDup (map fst H) /\
      (forall i x, In (i, x) H ->
         i + M <= length sq /\ clean K M sq i = true /\
         exists s, score_c01 K S (window M i sq) = Some s /\ (tq - eps <= s)%Q /\
                   (tail_c01 K S bg (s + eps + d) <= pv)%Q) /\
      (forall i, i + M <= length sq -> (forall x, ~ In (i, x) H) ->
         clean K M sq i = false \/
         exists s, score_c01 K S (window M i sq) = Some s /\ (s < tq + eps)%Q /\
                   ((s < tq - d)%Q -> (pv <= tail_c01 K S bg (s - d))%Q)).
Proof. exact text_threshold_tfm_wild. Qed.

(* Scanner::max() and significance: on a wildcard-free text the best hit (q, x) returned by max() -- any arm, any
   block size, fresh scanner -- has an exact score s within eps_f32 of x, and NO valid position has an exact score
   above s + 2 eps_f32; hence its exact tail probability, at slack 2 eps_f32, is the smallest of all positions:
   the best hit is the most significant position up to the binary32 summation error (e2e_max + C01's error
   bound + monotonicity of the exact tail). *)
Theorem stat_max_most_significant (A : EM.abc) (C : nat) (p : EI.pipeline) (junk : nat -> EM.sym) (text : list byte)
      (be : SA.backend) (old : SM.sseq) (pssm : list (list F32.t)) (am : arm) (thr : F32.t) (B : nat) (bg : list Q) :
  A = GA.dna \/ A = GA.protein ->
  1 <= C -> SA.backend_typed C be = true -> SS.wf_matrix C (SM.mat old) ->
  Forall (no_wild A) text ->
  1 <= length pssm -> Forall (fun row : list F32.t => length row = EM.a_K A) pssm ->
  e2e_wc (EM.a_K A) pssm = true -> no_overflow (EM.a_K A) pssm = true -> 1 <= B ->
  length bg = EM.a_K A -> (last bg 0 == 0)%Q -> (forall b, In b bg -> (0 <= b)%Q) ->
  let K := EM.a_K A in
  let S := qmat pssm in
  let M := length pssm in
  let eps := eps_f32 K pssm in
  exists (sq : list nat) (r : option (nat * F32.t)),
    encode_nat p A junk text = Ok sq /\
    e2e_scan_max A C p junk text be old pssm am thr B = Ok r /\
    forall q x, r = Some (q, x) ->
      q + M <= length sq /\
      exists s, score_c01 K S (window M q sq) = Some s /\ (Qabs (valQ x - s) <= eps)%Q /\
        forall j, j + M <= length sq ->
          exists sj, score_c01 K S (window M j sq) = Some sj /\ (sj <= s + 2 * eps)%Q /\
                     (tail_c01 K S bg (s + 2 * eps) <= tail_c01 K S bg sj)%Q.
Proof. exact (text_max_significant A C p junk text be old pssm am thr B bg). Qed.

(* ================= (3) reverse complement ================= *)

(* the exact tail of the reverse-complemented matrix (C10's dna_rc) under the complemented
   background equals the tail of the original: rows commute (independent symbols), and the
   complement relabels the symbols of matrix and background alike *)
Theorem stat_revcomp :
  forall (sm : list (list (option Q))) (bg : list Q) (t : Q),
    length bg = 5 -> Forall (fun row => length row = 5) sm ->
    (tail_c01 5 (LMPwm.C10.dna_rc None sm) (rc5 0%Q bg) t == tail_c01 5 sm bg t)%Q /\
    (DI.tail_exact (dmat (LMPwm.C10.dna_rc None sm)) (rc5 0%Q bg) t == DI.tail_exact (dmat sm) bg t)%Q.
Proof.
  intros sm bg t Hb Hm. split; [exact (tail_c01_revcomp sm bg t Hb Hm)|exact (tail_revcomp sm bg t Hb Hm)].
Qed.

(* hence, under a strand-symmetric background (complement-invariant), the MEME-style p-values of
   the reverse complement bracket the exact tail of the ORIGINAL matrix *)
Theorem stat_revcomp_pvalues :
  forall (sm : list (list (option Q))) (bg : list Q) d offset scale s p,
    length bg = 5 -> Forall (fun row => length row = 5) sm -> rc5 0%Q bg = bg ->
    DT.bg_nonneg bg -> (DI.Qsum bg <= 1)%Q ->
    DMo.build DI.QOps (dmat (LMPwm.C10.dna_rc None sm)) bg = Ok d ->
    DMo.stage_a DI.QOps (dmat (LMPwm.C10.dna_rc None sm)) = Ok (offset, scale) ->
    (Z.of_nat (length sm) * 1000 < DMo.i32_max)%Z ->
    DMo.d_pvalue DI.QOps d s = Ok p ->
    let dd := ((inject_Z (Z.of_nat (length sm)) / 2 + 1) / scale)%Q in
    (tail_c01 5 sm bg (s + dd) <= p)%Q /\ (p <= tail_c01 5 sm bg (s - dd))%Q.
Proof.
  intros sm bg d offset scale s p Hb Hm Hsym Hnn Hle Hd Hs Hlen Hp dd.
  destruct (rc_rows5 sm) as (Hr & Hl).
  assert (Hl' : length (dmat (LMPwm.C10.dna_rc None sm)) = length sm) by (unfold dmat; now rewrite map_length).
  pose proof (LMDist.C11.C11_pvalue_brackets_exact _ bg d offset scale s p Hnn Hle Hd Hs
                ltac:(rewrite Hl'; exact Hlen) Hp) as H.
  cbv zeta in H. rewrite Hl' in H. fold dd in H.
  rewrite <- !(tail_c01_revcomp sm bg _ Hb Hm), Hsym.
  rewrite !(tail_c01_dist 5 _ bg _ Hr Hb). exact H.
Qed.

(* ================= (4) counts through a file ================= *)

(* A count matrix over DNA or protein (M >= 1 rows of K counts <= u32::MAX) printed as a JASPAR 2016
   record -- one line per symbol, the symbol's letter taken from io's GENERATED from_ascii table -- with
   any admissible layout, identifier and description, preceded by any bytes without '>' and followed by
   white space, read through ANY chunking with ANY buffer capacities by the reader model of coq/io
   (C14's round-trip theorem): exactly one record, whose matrix IS the count matrix (io's rmatrix and
   pwm's cmatrix are the same type: no conversion), then End. *)
Theorem stat_io_roundtrip :
  forall (A : LMIo.IoJaspar.alphabet) (syms : list N)
         (y : LMIo.IoPrint.style) (id : list N) (desc : option (list N)) (counts : list (list N))
         (caps : nat -> nat) (prefix suffix : list N) (s : LMIo.IoBase.stream),
    (A = LMIo.IoJaspar.Dna /\ syms = dna_letters) \/ (A = LMIo.IoJaspar.Protein /\ syms = protein_letters) ->
    LMIo.IoPrint.wf_style y = true -> LMIo.IoPrint.wf_id id = true -> LMIo.IoPrint.wf_desc desc = true ->
    counts_ok A counts ->
    LMIo.IoPrint.wf_prefix prefix = true -> LMIo.IoPrint.wf_suffix suffix = true -> LMIo.IoBase.wf_stream s ->
    LMIo.IoBase.stream_bytes s =
      LMIo.IoPrint.print_file LMIo.IoPrint.print_jaspar16 prefix [(y, src_of A syms id desc counts)] suffix ->
    exists r,
      LMIo.IoJaspar.jaspar16_read A caps s = [Ok (Some r); Ok None] /\
      LMIo.IoJaspar.rmatrix r = counts /\ LMIo.IoJaspar.rid r = id /\ LMIo.IoJaspar.rdesc r = desc /\
      count_new (LMIo.IoJaspar.rmatrix r) = count_new counts.
Proof.
  intros A syms y id desc counts caps prefix suffix s HA Hy Hid Hdesc Hok Hpre Hsuf Hs Hbytes.
  assert (Hl : letters_ok A syms = true /\ LMIo.IoMatrixProofs.wf_alphabet A).
  { destruct HA as [(-> & ->)|(-> & ->)];
      [exact (conj letters_ok_dna (proj1 LMIo.C14io.alphabets_wf))|exact (conj letters_ok_protein (proj2 LMIo.C14io.alphabets_wf))]. }
  destruct Hl as (Hl & Hwf).
  destruct (counts_roundtrip A syms Hl Hwf y id desc counts caps prefix suffix s Hy Hid Hdesc Hok Hpre Hsuf Hs Hbytes)
    as (r & Hr & Hm & Hi & Hd).
  exists r. split; [exact Hr|]. split; [exact Hm|]. split; [exact Hi|]. split; [exact Hd|]. now rewrite Hm.
Qed.

(* FILE -> STATISTICS.  The motif pipeline (stat_motif_pipeline) on the record read from such a file: for
   pseudocounts / background as there, the scoring matrix built from the LOADED matrix has one exact tail in
   the three models, the MEME-style table exists, and its p-values bracket that tail. *)
Theorem stat_file_pipeline :
  forall (flog2 flog10 fln : xq -> xq) (A : LMIo.IoJaspar.alphabet) (syms : list N) (pseudo bg : list Qc)
         (y : LMIo.IoPrint.style) (id : list N) (desc : option (list N)) (counts : list (list N))
         (caps : nat -> nat) (prefix suffix : list N) (s : LMIo.IoBase.stream),
    (A = LMIo.IoJaspar.Dna /\ syms = dna_letters) \/ (A = LMIo.IoJaspar.Protein /\ syms = protein_letters) ->
    LMIo.IoPrint.wf_style y = true -> LMIo.IoPrint.wf_id id = true -> LMIo.IoPrint.wf_desc desc = true ->
    counts_ok A counts -> 2 <= length counts -> (Z.of_nat (length counts) * 1000 < DMo.i32_max)%Z ->
    LMIo.IoPrint.wf_prefix prefix = true -> LMIo.IoPrint.wf_suffix suffix = true -> LMIo.IoBase.wf_stream s ->
    LMIo.IoBase.stream_bytes s =
      LMIo.IoPrint.print_file LMIo.IoPrint.print_jaspar16 prefix [(y, src_of A syms id desc counts)] suffix ->
    let K := LMIo.IoJaspar.aK A in
    flog2 (Some 0%Qc) = None -> (forall x : Qc, (0 < x)%Qc -> flog2 (Some x) <> None) ->
    length pseudo = K -> length bg = K ->
    Forall (fun p => (0 <= p)%Qc) pseudo -> (forall k, k < K - 1 -> (0 < nth k pseudo 0)%Qc) ->
    Forall (fun f => (Q2Qc 0 <= f)%Qc /\ (f <= Q2Qc 1)%Qc) bg -> Qcsum bg = Q2Qc 1 ->
    (forall k, k < K - 1 -> (0 < nth k bg 0)%Qc) -> nth (K - 1) bg 0%Qc = 0%Qc ->
    exists r,
      LMIo.IoJaspar.jaspar16_read A caps s = [Ok (Some r); Ok None] /\
      let S := sm flog2 flog10 fln pseudo bg (LMIo.IoJaspar.rmatrix r) in
      let B := bgQ bg in
      let T := tail_c01 K S B in
      let M := inject_Z (Z.of_nat (length (LMIo.IoJaspar.rmatrix r))) in
      length S = length counts /\
      (forall t, (T t == DI.tail_exact (dmat S) B t)%Q /\ (T t == TL.Ptail (trows S) B t)%Q) /\
      (exists d offset scale, DMo.build DI.QOps (dmat S) B = Ok d /\ DMo.stage_a DI.QOps (dmat S) = Ok (offset, scale)) /\
      (forall d offset scale x p,
         DMo.build DI.QOps (dmat S) B = Ok d -> DMo.stage_a DI.QOps (dmat S) = Ok (offset, scale) ->
         DMo.d_pvalue DI.QOps d x = Ok p ->
         (T (x + (M / 2 + 1) / scale) <= p)%Q /\ (p <= T (x - (M / 2 + 1) / scale))%Q).
Proof.
  intros f2 f10 fl A syms pseudo bg y id desc counts caps prefix suffix s HA Hy Hid Hdesc Hok HM Hlen Hpre Hsuf Hs Hbytes
         K H0 Hpos Hp Hb Hps Hpp Hrange Hsum Hbpos Hwild.
  destruct (stat_io_roundtrip A syms y id desc counts caps prefix suffix s HA Hy Hid Hdesc Hok Hpre Hsuf Hs Hbytes)
    as (r & Hr & Hm & _).
  exists r. split; [exact Hr|]. rewrite Hm.
  assert (HK : 2 <= K) by (destruct HA as [(-> & _)|(-> & _)]; cbv; lia).
  assert (Hc : Forall (fun row : list N => length row = K) counts).
  { destruct Hok as (_ & Hrows). eapply Forall_impl; [|exact Hrows]. intros row (E & _). exact E. }
  destruct (stat_motif_pipeline f2 f10 fl K pseudo bg counts H0 Hpos HK Hp Hb Hc Hps Hpp Hrange Hsum Hbpos Hwild HM Hlen)
    as ((Hl & _) & (_ & _ & _ & Hbuild) & Htails & Hbr).
  cbv zeta. split; [exact Hl|]. split; [exact Htails|]. split; [exact Hbuild|].
  intros d offset scale x p Hd Hsa Hpv. destruct (Hbr d offset scale x p Hd Hsa Hpv) as (B1 & B2 & _).
  split; [exact B1|exact B2].
Qed.

(* the decimal printer used for the counts is inverted by the readers' digit-string value *)
Theorem stat_dec_of_inverse :
  forall n : N, (n <= LMIo.IoNom.u32_max)%N ->
    LMIo.IoPrint.dec_value (dec_of n) = n /\ LMIo.IoPrint.wf_count (dec_of n) = true.
Proof. intros n Hn. split; [exact (dec_value_dec_of n Hn)|exact (wf_count_dec_of n Hn)]. Qed.

(* ================= statement pins ================= *)

Check (fun K sm bg t => eq_refl :
  tail_c01 K sm bg t =
  DI.Qsum (map (fun w => match score_c01 K sm w with
                         | Some s => if Qle_bool t s then DI.word_weight bg w else 0%Q
                         | None => 0%Q
                         end) (DI.all_words K (length sm)))).
Check (fun K sm w => eq_refl : score_c01 K sm w = SCO.score_def oadd (Some 0%Q) (K - 1) sm w 0).

(* ================= non-vacuity: a small concrete motif ================= *)

(* three count rows over DNA, Pseudocounts::from(1), the uniform background (wildcard 0); the
   logarithm is replaced by a rational surrogate with the two properties the theorems use
   (any function with log(0) = -inf and finite values on positive arguments will do) *)
Module StatEx.
  Definition lg (x : xq) : xq :=
    match x with Some q => if Qc_ltb 0 q then Some (q - 1)%Qc else None | None => None end.
  Definition counts : list (list N) := [[3; 1; 0; 0; 0]; [0; 2; 1; 1; 0]; [1; 1; 1; 1; 0]]%N.
  Definition pseudo : list Qc := pseudo_scalar Qcops 5 (Q2Qc 1).
  Definition bg : list Qc := map Q2Qc [1 # 4; 1 # 4; 1 # 4; 1 # 4; 0]%Q.
  Definition S : list (list (option Q)) := sm lg lg lg pseudo bg counts.
  Definition B : list Q := bgQ bg.
  Definition qr (x : option Q) : option Q := option_map Qred x.
End StatEx.

Example stat_example_log :
  StatEx.lg (Some 0%Qc) = None /\ (forall x : Qc, (0 < x)%Qc -> StatEx.lg (Some x) <> None).
Proof.
  split; [reflexivity|]. intros x Hx. unfold StatEx.lg. apply Qc_ltb_lt in Hx. rewrite Hx. discriminate.
Qed.

(* every hypothesis of stat_motif_pipeline / stat_motif_pipeline_score holds *)
Example stat_example_hypotheses :
  2 <= 5 /\ length StatEx.pseudo = 5 /\ length StatEx.bg = 5 /\
  Forall (fun r : list N => length r = 5) StatEx.counts /\
  Forall (fun p => (0 <= p)%Qc) StatEx.pseudo /\ (forall k, k < 5 - 1 -> (0 < nth k StatEx.pseudo 0)%Qc) /\
  Forall (fun f => (Q2Qc 0 <= f)%Qc /\ (f <= Q2Qc 1)%Qc) StatEx.bg /\ Qcsum StatEx.bg = Q2Qc 1 /\
  (forall k, k < 5 - 1 -> (0 < nth k StatEx.bg 0)%Qc) /\ nth (5 - 1) StatEx.bg 0%Qc = 0%Qc /\
  2 <= length StatEx.counts /\ (Z.of_nat (length StatEx.counts) * 1000 < DMo.i32_max)%Z.
Proof.
  assert (Hc : (0 < Q2Qc 1)%Qc) by reflexivity.
  destruct (pseudo_scalar_ok 5 (Q2Qc 1) Hc) as (P1 & P2 & P3).
  split; [lia|]. split; [exact P1|]. split; [reflexivity|]. split; [repeat constructor|].
  split; [exact P2|]. split; [exact P3|]. split.
  { unfold StatEx.bg. cbn [map]. repeat (constructor; [split; vm_compute; discriminate|]). constructor. }
  split; [apply Qc_is_canon; vm_compute; reflexivity|]. split.
  { intros k Hk. do 4 (destruct k as [|k]; [reflexivity|]). lia. }
  split; [reflexivity|]. split; [cbn; lia|reflexivity].
Qed.

(* hence its conclusion, instantiated *)
Example stat_example_pipeline :
  let T := tail_c01 5 StatEx.S StatEx.B in
  (forall t, (T t == DI.tail_exact (dmat StatEx.S) StatEx.B t)%Q /\ (T t == TL.Ptail (trows StatEx.S) StatEx.B t)%Q) /\
  TP.matrix_ok 5 (trows StatEx.S) StatEx.B /\
  exists d offset scale, DMo.build DI.QOps (dmat StatEx.S) StatEx.B = Ok d /\
                         DMo.stage_a DI.QOps (dmat StatEx.S) = Ok (offset, scale).
Proof.
  destruct stat_example_log as (L0 & Lp).
  destruct stat_example_hypotheses as (H1 & H2 & H3 & H4 & H5 & H6 & H7 & H8 & H9 & H10 & H11 & H12).
  destruct (stat_motif_pipeline StatEx.lg StatEx.lg StatEx.lg 5 StatEx.pseudo StatEx.bg StatEx.counts
              L0 Lp H1 H2 H3 H4 H5 H6 H7 H8 H9 H10 H11 H12) as (_ & (_ & _ & Hok & Hb) & Ht & _).
  cbv zeta. split; [exact Ht|]. split; [exact Hok|exact Hb].
Qed.

(* what the models compute there: the matrix (finite symbol cells, -inf wildcard column); the exact
   tail on a grid of scores; the MEME-style table (scale 500, offset -1, 3001 entries); at s = 1/2 both
   methods return exactly the exact tail 5/16 (TFM-PVALUE converges at granularity 1/10) *)
Example stat_example_values :
  map (map StatEx.qr) StatEx.S =
    [[Some 1; Some 0; Some (-1 # 2); Some (-1 # 2); None];
     [Some (-1 # 2); Some (1 # 2); Some 0; Some 0; None];
     [Some 0; Some 0; Some 0; Some 0; None]]%Q /\
  map (fun t => Qred (tail_c01 5 StatEx.S StatEx.B t)) [0; 1 # 4; 1 # 2; 3 # 4; 1; 3 # 2; 2]%Q
    = [9 # 16; 5 # 16; 5 # 16; 3 # 16; 3 # 16; 1 # 16; 0]%Q /\
  DMo.stage_a DI.QOps (dmat StatEx.S) = Ok ((-1)%Q, 500%Q) /\
  match DMo.build DI.QOps (dmat StatEx.S) StatEx.B with
  | Ok d => length (DMo.d_sf d) = 3001 /\
            match DMo.d_pvalue DI.QOps d (1 # 2) with Ok p => Qred p = (5 # 16)%Q | _ => False end
  | _ => False
  end /\
  map (fun r => match r with
                | Ok it => Some (Qred (TM.io_start it), Qred (TM.io_end it), TM.io_conv it, Qred (TM.io_gran it))
                | _ => None end)
      (TM.pv_run LMTfm.TfmNum.NumQ 4 (trows StatEx.S) [0; 1; 2] StatEx.B (1 # 2) (1 # 10))
    = [Some (5 # 16, 5 # 16, true, 1 # 10)%Q].
Proof. vm_compute. repeat split; reflexivity. Qed.

(* reverse complement on the example: the uniform background is strand-symmetric and the exact tails
   of the reverse-complemented matrix coincide on the grid (stat_revcomp says: everywhere) *)
Example stat_example_revcomp :
  rc5 0%Q StatEx.B = StatEx.B /\
  map (fun t => Qred (tail_c01 5 (LMPwm.C10.dna_rc None StatEx.S) (rc5 0%Q StatEx.B) t)) [0; 1 # 2; 1; 3 # 2]%Q
    = map (fun t => Qred (tail_c01 5 StatEx.S StatEx.B t)) [0; 1 # 2; 1; 3 # 2]%Q /\
  map (map StatEx.qr) (LMPwm.C10.dna_rc None StatEx.S) =
    [[Some 0; Some 0; Some 0; Some 0; None];
     [Some 0; Some 0; Some (-1 # 2); Some (1 # 2); None];
     [Some (-1 # 2); Some (-1 # 2); Some 1; Some 0; None]]%Q.
Proof. vm_compute. repeat split; reflexivity. Qed.

(* a threshold from a p-value on the example: ScoreDistribution::score(1/4) = 0.502 (one table step
   above 1/2), and T(t + dd) = 3/16 <= 1/4 as stat_threshold_scan_meme_link uses it *)
Example stat_example_threshold :
  match DMo.build DI.QOps (dmat StatEx.S) StatEx.B with
  | Ok d => match DMo.d_score DI.QOps d (1 # 4) with
            | Ok t => Qred t = (251 # 500)%Q /\
                      Qred (tail_c01 5 StatEx.S StatEx.B (t + (inject_Z 3 / 2 + 1) / 500)) = (3 # 16)%Q
            | _ => False end
  | _ => False
  end.
Proof. vm_compute. split; reflexivity. Qed.

(* on the example: score(1/4) = 251/500 is not the table start (3 * -1), and the exact tail at
   251/500 - 1/500 - 1/200 is 5/16 >= 1/4 (while T(251/500 + 1/200) = 3/16 <= 1/4: stat_example_threshold) *)
Example stat_example_minimal :
  Qred (tail_c01 5 StatEx.S StatEx.B ((251 # 500) - 1 / 500 - (inject_Z 3 / 2 + 1) / 500)) = (5 # 16)%Q /\
  ~ ((251 # 500) == inject_Z 3 * (-1))%Q.
Proof. split; [vm_compute; reflexivity|vm_compute; discriminate]. Qed.

(* the example counts as a JASPAR 2016 file ("# x", then ">m1" and five symbol lines), split into
   chunks of uneven sizes and read with a 7-byte buffer: one record with the counts, then End *)
Module IoEx.
  Definition y : LMIo.IoPrint.style :=
    {| LMIo.IoPrint.y_crlf := false; LMIo.IoPrint.y_hsep := [32%N]; LMIo.IoPrint.y_lead := [32%N];
       LMIo.IoPrint.y_sep := [32%N; 9%N]; LMIo.IoPrint.y_sym := [32%N]; LMIo.IoPrint.y_tail := [32%N];
       LMIo.IoPrint.y_post := []; LMIo.IoPrint.y_gap := 0 |}.
  Definition id : list N := [109; 49]%N.
  Definition bytes : list N :=
    LMIo.IoPrint.print_file LMIo.IoPrint.print_jaspar16 [35; 32; 120; 10]%N [(y, src_of LMIo.IoJaspar.Dna dna_letters id None StatEx.counts)] [10%N].
  Definition chunks : LMIo.IoBase.stream := [firstn 5 bytes; firstn 17 (skipn 5 bytes); skipn 22 bytes].
End IoEx.

Example stat_example_io :
  counts_ok LMIo.IoJaspar.Dna StatEx.counts /\ LMIo.IoPrint.wf_style IoEx.y = true /\ LMIo.IoPrint.wf_id IoEx.id = true /\
  LMIo.IoBase.stream_bytes IoEx.chunks = IoEx.bytes /\
  match LMIo.IoJaspar.jaspar16_read LMIo.IoJaspar.Dna (fun _ => 7) IoEx.chunks with
  | [Ok (Some r); Ok None] => LMIo.IoJaspar.rmatrix r = StatEx.counts /\ LMIo.IoJaspar.rid r = IoEx.id
  | _ => False
  end.
Proof.
  split.
  { split; [cbn; lia|]. unfold StatEx.counts.
    repeat (constructor; [split; [reflexivity|repeat (constructor; [vm_compute; discriminate|]); constructor]|]).
    constructor. }
  vm_compute. repeat split; reflexivity.
Qed.

(* the same over the PROTEIN alphabet (21 symbol lines, letters A C D E F G H I K L M N P Q R S T V W Y X from
   the generated table): two rows of 21 counts, CRLF layout, 5-byte buffer *)
Module IoExP.
  Definition counts : list (list N) :=
    [map N.of_nat (seq 1 21); map (fun k => (4294967295 - N.of_nat k)%N) (seq 0 21)].
  Definition y : LMIo.IoPrint.style :=
    {| LMIo.IoPrint.y_crlf := true; LMIo.IoPrint.y_hsep := [9%N]; LMIo.IoPrint.y_lead := [];
       LMIo.IoPrint.y_sep := [32%N]; LMIo.IoPrint.y_sym := [9%N]; LMIo.IoPrint.y_tail := [];
       LMIo.IoPrint.y_post := [32%N]; LMIo.IoPrint.y_gap := 1 |}.
  Definition bytes : list N :=
    LMIo.IoPrint.print_file LMIo.IoPrint.print_jaspar16 [] [(y, src_of LMIo.IoJaspar.Protein protein_letters IoEx.id (Some [112%N]) counts)] [].
  Definition chunks : LMIo.IoBase.stream := [firstn 40 bytes; firstn 1 (skipn 40 bytes); skipn 41 bytes].
End IoExP.

Example stat_example_io_protein :
  protein_letters = [65; 67; 68; 69; 70; 71; 72; 73; 75; 76; 77; 78; 80; 81; 82; 83; 84; 86; 87; 89; 88]%N /\
  dna_letters = [65; 67; 84; 71; 78]%N /\
  counts_ok LMIo.IoJaspar.Protein IoExP.counts /\ LMIo.IoPrint.wf_style IoExP.y = true /\
  LMIo.IoBase.stream_bytes IoExP.chunks = IoExP.bytes /\
  exists r, LMIo.IoJaspar.jaspar16_read LMIo.IoJaspar.Protein (fun _ => 5) IoExP.chunks = [Ok (Some r); Ok None] /\
            LMIo.IoJaspar.rmatrix r = IoExP.counts /\ LMIo.IoJaspar.rdesc r = Some [112%N].
Proof.
  split; [vm_compute; reflexivity|]. split; [vm_compute; reflexivity|]. split.
  { apply counts_okb_sound. vm_compute. reflexivity. }
  split; [vm_compute; reflexivity|]. split; [vm_compute; reflexivity|].
  eexists. split; [vm_compute; reflexivity|]. split; vm_compute; reflexivity.
Qed.

(* ---------- non-vacuity of stat_threshold_scan_meme: binary32 matrix, text, scanner ---------- *)

(* the example matrix as the binary32 ScoringMatrix (1.0, 0.0, -0.5, 0.5, -inf), a 12-letter text without N,
   the threshold 0.502f32 (the nearest binary32 number to score(1/4) = 251/500) *)
Module FEx.
  Definition pssm : list (list F32.t) := map (map F32.of_bits)
    [[1065353216; 0; 3204448256; 3204448256; 4286578688];
     [3204448256; 1056964608; 0; 0; 4286578688];
     [0; 0; 0; 0; 4286578688]]%Z.
  Definition text : list byte := [x41; x43; x47; x54; x41; x43; x43; x41; x41; x43; x54; x41].   (* ACGTACCAACTA *)
  Definition thr : F32.t := F32.of_bits 1056998162.
  Definition eta : Q := 1 # 10000000.
  Definition junk : nat -> EM.sym := fun _ => 0%N.
  Definition enc : EI.pipeline := EI.PDispatch EM.DAvx2.
  Definition be : SA.backend := SA.BDispatch LMStripe.NetModel.AAvx2.
  Definition scan (am : arm) (B : nat) := e2e_scan GA.dna 32 enc junk text be SM.s_default pssm am thr B.
End FEx.

(* the binary32 matrix read as rationals IS the example's exact matrix; every hypothesis of
   stat_threshold_scan_meme holds (with p = 1/4, tq = 251/500, eta = 1e-7) *)
Example stat_example_float_hypotheses :
  map (map StatEx.qr) (qmat FEx.pssm) = map (map StatEx.qr) StatEx.S /\
  (GA.dna = GA.dna \/ GA.dna = GA.protein) /\ SA.backend_typed 32 FEx.be = true /\
  SS.wf_matrix 32 (SM.mat SM.s_default) /\ Forall (no_wild GA.dna) FEx.text /\
  Forall (fun row : list F32.t => length row = EM.a_K GA.dna) FEx.pssm /\
  e2e_wc (EM.a_K GA.dna) FEx.pssm = true /\ no_overflow (EM.a_K GA.dna) FEx.pssm = true /\
  F32.is_finite FEx.thr = true /\
  Qred (eps_f32 5 FEx.pssm) = (9 # 16777216)%Q /\
  DT.bg_nonneg StatEx.B /\ (DI.Qsum StatEx.B <= 1)%Q /\ (last StatEx.B 0 == 0)%Q /\
  DMo.stage_a DI.QOps (dmat (qmat FEx.pssm)) = Ok ((-1)%Q, 500%Q) /\
  on_ok (DMo.build DI.QOps (dmat (qmat FEx.pssm)) StatEx.B) (fun d =>
    on_ok (DMo.d_score DI.QOps d (1 # 4)) (fun t =>
      Qred t = (251 # 500)%Q /\ Qle_bool (Qabs (valQ FEx.thr - t)) FEx.eta = true)).
Proof.
  split; [vm_compute; reflexivity|]. split; [now left|]. split; [reflexivity|]. split; [constructor|]. split.
  { unfold FEx.text, no_wild. repeat (constructor; [cbn; auto 10|]). constructor. }
  split; [unfold FEx.pssm; cbn [map]; repeat (constructor; [reflexivity|]); constructor|].
  split; [vm_compute; reflexivity|]. split; [vm_compute; reflexivity|]. split; [reflexivity|].
  split; [vm_compute; reflexivity|].
  split; [unfold DT.bg_nonneg; repeat (constructor; [vm_compute; discriminate|]); constructor|].
  split; [vm_compute; discriminate|]. split; [reflexivity|].
  split; [vm_compute; reflexivity|]. vm_compute. split; reflexivity.
Qed.


(* hence its conclusion on the example, for every dispatcher arm and block size (eps = 9/2^24 + 1e-7,
   dd = (3/2 + 1)/500): hits have exact score >= tq - eps and exact tail <= 1/4 at s + eps + dd *)
Example stat_example_float_scan :
  forall (am : arm) (B : nat), 1 <= B ->
  exists (tq : Q) (sq : list nat) (H : list (nat * F32.t)),
    Qred tq = (251 # 500)%Q /\
    encode_nat FEx.enc GA.dna FEx.junk FEx.text = Ok sq /\ FEx.scan am B = Ok H /\ NoDup (map fst H) /\
    (forall i x, In (i, x) H ->
       i + 3 <= length sq /\
       exists s, score_c01 5 (qmat FEx.pssm) (window 3 i sq) = Some s /\
                 (tq - (eps_f32 5 FEx.pssm + FEx.eta) <= s)%Q /\
                 (tail_c01 5 (qmat FEx.pssm) StatEx.B (s + (eps_f32 5 FEx.pssm + FEx.eta) + (inject_Z 3 / 2 + 1) / 500) <= 1 # 4)%Q) /\
    (forall i, i + 3 <= length sq -> (forall x, ~ In (i, x) H) ->
       exists s, score_c01 5 (qmat FEx.pssm) (window 3 i sq) = Some s /\ (s < tq + (eps_f32 5 FEx.pssm + FEx.eta))%Q).
Proof.
  intros am B HB.
  destruct stat_example_float_hypotheses
    as (_ & HA & Hbe & Hold & Htext & Hrows & Hwc & Hno & Hthr & _ & Hnn & Hle & Hlast & Hs & Hm).
  destruct (on_ok_inv _ _ Hm) as (d & Hd & Hm2). destruct (on_ok_inv _ _ Hm2) as (tq & Ht & Htq & Heta). apply Qle_bool_iff in Heta.
  destruct (stat_threshold_scan_meme GA.dna 32 FEx.enc FEx.junk FEx.text FEx.be SM.s_default FEx.pssm am FEx.thr B
              StatEx.B d (-1)%Q 500%Q (1 # 4)%Q tq FEx.eta HA ltac:(lia) Hbe Hold Htext ltac:(cbn; lia) Hrows
              Hwc Hno HB Hthr Heta eq_refl Hlast Hnn Hle Hd Hs ltac:(vm_compute; reflexivity) eq_refl eq_refl Ht)
    as (sq & H & H1 & _ & H3 & H4 & H5 & H6 & _).
  exists tq, sq, H. split; [exact Htq|]. split; [exact H1|]. split; [exact H3|]. split; [exact H4|]. split; [exact H5|exact H6].
Qed.

(* what the models compute there (AVX2 arm, block size 256, and generic arm, block size 1): the hits are the
   three windows scoring 1.5 (ACG, ACC, ACT); the exact scores of all ten windows; the exact tails at the
   hits' scores are 1/16 <= 1/4, the best rejected windows score 1/2 (tail 5/16 > 1/4) *)
Example stat_example_float_runs :
  match FEx.scan Avx2 256 with Ok l => map (fun h => (fst h, F32.to_bits (snd h))) l | _ => [] end
    = [(8, 1069547520%Z); (4, 1069547520%Z); (0, 1069547520%Z)] /\
  match FEx.scan Generic 1 with Ok l => map fst l | _ => [] end = [8; 4; 0] /\
  encode_nat FEx.enc GA.dna FEx.junk FEx.text = Ok [0; 1; 3; 2; 0; 1; 1; 0; 0; 1; 2; 0] /\
  map (fun i => StatEx.qr (score_c01 5 (qmat FEx.pssm) (window 3 i [0; 1; 3; 2; 0; 1; 1; 0; 0; 1; 2; 0]))) (seq 0 10)
    = [Some (3 # 2); Some 0; Some (-1 # 2); Some (-1); Some (3 # 2); Some (1 # 2); Some (-1 # 2); Some (1 # 2); Some (3 # 2); Some 0]%Q /\
  map (fun t => Qred (tail_c01 5 (qmat FEx.pssm) StatEx.B t)) [3 # 2; 1 # 2]%Q = [1 # 16; 5 # 16]%Q.
Proof. vm_compute. repeat split; reflexivity. Qed.

(* ---------- non-vacuity of stat_threshold_scan_tfm: the same matrix and text, threshold = the score of
   approximate_score(1/4) = 1.0 (representable: eta = 0), granularity 1/10, d = (3 + 2)/10 ---------- *)
Module FExT.
  Definition thr : F32.t := F32.of_bits 1065353216.      (* 1.0 *)
  Definition perm : list nat := [0; 1; 2].
  Definition scan (am : arm) (B : nat) := e2e_scan GA.dna 32 FEx.enc FEx.junk FEx.text FEx.be SM.s_default FEx.pssm am thr B.
End FExT.

Example stat_example_float_tfm_hypotheses :
  TP.matrix_ok 5 (trows (qmat FEx.pssm)) StatEx.B /\ Permutation FExT.perm (seq 0 (length FEx.pssm)) /\
  F32.is_finite FExT.thr = true /\
  on_ok (TM.score_window0 LMTfm.TfmNum.NumQ (trows (qmat FEx.pssm)) FExT.perm) (fun win =>
    first_ok (TM.sc_run LMTfm.TfmNum.NumQ 4 (trows (qmat FEx.pssm)) FExT.perm StatEx.B (1 # 4) (1 # 10) win) (fun it =>
      Qred (TM.io_score it) = 1%Q /\ Qred (TM.io_gran it) = (1 # 10)%Q /\
      Qle_bool (Qabs (valQ FExT.thr - TM.io_score it)) 0 = true)).
Proof.
  split.
  { unfold TP.matrix_ok. split; [lia|]. split; [vm_compute; repeat constructor|]. split; [reflexivity|]. split.
    { intros b Hb. cbn in Hb. repeat (destruct Hb as [<-|Hb]; [vm_compute; discriminate|]). contradiction. }
    split; [vm_compute; reflexivity|reflexivity]. }
  split; [apply Permutation_refl|]. split; [reflexivity|].
  vm_compute. repeat split; reflexivity.
Qed.

(* hence its conclusion for every arm and block size; and what the models compute: the same three hits; the
   rejected windows score 1/2, 0, -1/2, -1; those more than d = 1/2 under the threshold (0, -1/2, -1) have
   exact tail T(s - 1/2) >= 1/4 (7/8, 1, 1) *)
Example stat_example_float_tfm_scan :
  forall (am : arm) (B : nat), 1 <= B ->
  exists (tq g : Q) (sq : list nat) (H : list (nat * F32.t)),
    Qred tq = 1%Q /\ Qred g = (1 # 10)%Q /\
    encode_nat FEx.enc GA.dna FEx.junk FEx.text = Ok sq /\ FExT.scan am B = Ok H /\
    (forall i x, In (i, x) H ->
       exists s, score_c01 5 (qmat FEx.pssm) (window 3 i sq) = Some s /\
                 (tq - (eps_f32 5 FEx.pssm + 0) <= s)%Q /\
                 (tail_c01 5 (qmat FEx.pssm) StatEx.B (s + (eps_f32 5 FEx.pssm + 0) + (inject_Z 3 + 2) * g) <= 1 # 4)%Q) /\
    (forall i, i + 3 <= length sq -> (forall x, ~ In (i, x) H) ->
       exists s, score_c01 5 (qmat FEx.pssm) (window 3 i sq) = Some s /\ (s < tq + (eps_f32 5 FEx.pssm + 0))%Q /\
                 ((s < tq - (inject_Z 3 + 2) * g)%Q -> (1 # 4 <= tail_c01 5 (qmat FEx.pssm) StatEx.B (s - (inject_Z 3 + 2) * g))%Q)).
Proof.
  intros am B HB.
  destruct stat_example_float_hypotheses as (_ & HA & Hbe & Hold & Htext & Hrows & Hwc & Hno & _).
  destruct stat_example_float_tfm_hypotheses as (Hok & Hperm & Hthr & Hm).
  destruct (on_ok_inv _ _ Hm) as (win & Hwin & Hf).
  destruct (first_ok_inv _ _ Hf) as (it & Hin & Htq & Hg & Heta). apply Qle_bool_iff in Heta.
  destruct (stat_threshold_scan_tfm GA.dna 32 FEx.enc FEx.junk FEx.text FEx.be SM.s_default FEx.pssm am FExT.thr B
              StatEx.B FExT.perm (1 # 4)%Q 4 win it 0%Q HA ltac:(lia) Hbe Hold Htext ltac:(cbn; lia) Hrows Hwc Hno HB
              Hok Hperm eq_refl ltac:(discriminate) Hwin Hin Hthr Heta)
    as (sq & H & H1 & _ & H3 & _ & H5 & H6).
  exists (TM.io_score it), (TM.io_gran it), sq, H.
  split; [exact Htq|]. split; [exact Hg|]. split; [exact H1|]. split; [exact H3|]. split.
  - intros i x Hi. exact (proj2 (H5 i x Hi)).
  - exact H6.
Qed.

Example stat_example_float_tfm_runs :
  match FExT.scan Avx2 256 with Ok l => map (fun h => (fst h, F32.to_bits (snd h))) l | _ => [] end
    = [(8, 1069547520%Z); (4, 1069547520%Z); (0, 1069547520%Z)] /\
  map (fun s => Qred (tail_c01 5 (qmat FEx.pssm) StatEx.B (s - (1 # 2)))) [0; -1 # 2; -1]%Q = [7 # 8; 1; 1]%Q /\
  Qred (tail_c01 5 (qmat FEx.pssm) StatEx.B ((3 # 2) + (9 # 16777216) + (1 # 2))) = 0%Q.
Proof. vm_compute. repeat split; reflexivity. Qed.

(* max() on the example (threshold 0.502f32): the last of the three windows scoring 1.5 (ties: largest index);
   stat_max_most_significant applies (hypotheses: stat_example_float_hypotheses) and says that no window scores
   above 3/2 + 2 * 9/2^24: indeed the exact scores are 3/2, 1/2, 0, -1/2, -1 (stat_example_float_runs) *)
Example stat_example_float_max :
  (forall am B, 1 <= B ->
     exists sq r, encode_nat FEx.enc GA.dna FEx.junk FEx.text = Ok sq /\
       e2e_scan_max GA.dna 32 FEx.enc FEx.junk FEx.text FEx.be SM.s_default FEx.pssm am FEx.thr B = Ok r /\
       forall q x, r = Some (q, x) ->
         exists s, score_c01 5 (qmat FEx.pssm) (window 3 q sq) = Some s /\
           forall j, j + 3 <= length sq ->
             exists sj, score_c01 5 (qmat FEx.pssm) (window 3 j sq) = Some sj /\ (sj <= s + 2 * eps_f32 5 FEx.pssm)%Q) /\
  option_map (fun h : nat * F32.t => (fst h, F32.to_bits (snd h)))
    (match e2e_scan_max GA.dna 32 FEx.enc FEx.junk FEx.text FEx.be SM.s_default FEx.pssm Avx2 FEx.thr 256 with
     | Ok r => r | _ => None end) = Some (8, 1069547520%Z).
Proof.
  split; [|vm_compute; reflexivity].
  intros am B HB.
  destruct stat_example_float_hypotheses as (_ & HA & Hbe & Hold & Htext & Hrows & Hwc & Hno & _ & _ & Hnn & _ & Hlast & _).
  assert (Hnn' : forall b, In b StatEx.B -> (0 <= b)%Q)
    by (intros b Hb; unfold DT.bg_nonneg in Hnn; rewrite Forall_forall in Hnn; auto).
  destruct (stat_max_most_significant GA.dna 32 FEx.enc FEx.junk FEx.text FEx.be SM.s_default FEx.pssm am FEx.thr B
              StatEx.B HA ltac:(lia) Hbe Hold Htext ltac:(cbn; lia) Hrows Hwc Hno HB eq_refl Hlast Hnn')
    as (sq & r & H1 & H2 & H3).
  exists sq, r. split; [exact H1|]. split; [exact H2|].
  intros q x Er. destruct (H3 q x Er) as (_ & s & Es & _ & Hall).
  exists s. split; [exact Es|]. intros j Hj. destruct (Hall j Hj) as (sj & Esj & Hle & _). exists sj. auto.
Qed.

(* wildcards on the example: the text ACGNACCAACTA; the windows at 1, 2, 3 contain the N and are not hits, the
   others are judged as before (hits 0, 4, 8); every hypothesis of stat_threshold_scan_wildcards holds *)
Module FExW.
  Definition text : list byte := [x41; x43; x47; x4e; x41; x43; x43; x41; x41; x43; x54; x41].   (* ACGNACCAACTA *)
  Definition scan (am : arm) (B : nat) := e2e_scan GA.dna 32 FEx.enc FEx.junk text FEx.be SM.s_default FEx.pssm am FEx.thr B.
End FExW.

Example stat_example_wildcards :
  wild_ninf 5 FEx.pssm /\ Forall (LMEncode.EncodeProofs.in_abc GA.dna) FExW.text /\
  Qle_bool (tail_c01 5 (qmat FEx.pssm) StatEx.B ((251 # 500) + (inject_Z 3 / 2 + 1) / 500)) (1 # 4) = true /\
  Qle_bool (Qabs (valQ FEx.thr - (251 # 500))) FEx.eta = true /\
  encode_nat FEx.enc GA.dna FEx.junk FExW.text = Ok [0; 1; 3; 4; 0; 1; 1; 0; 0; 1; 2; 0] /\
  map (clean 5 3 [0; 1; 3; 4; 0; 1; 1; 0; 0; 1; 2; 0]) (seq 0 10)
    = [true; false; false; false; true; true; true; true; true; true] /\
  match FExW.scan Avx2 256 with Ok l => map (fun h => (fst h, F32.to_bits (snd h))) l | _ => [] end
    = [(8, 1069547520%Z); (4, 1069547520%Z); (0, 1069547520%Z)] /\
  map (fun i => F32.to_bits (SCO.score_def F32.add F32.zero 4 FEx.pssm [0; 1; 3; 4; 0; 1; 1; 0; 0; 1; 2; 0] i)) [1; 2; 3]
    = [4286578688; 4286578688; 4286578688]%Z.
Proof.
  split; [unfold wild_ninf, FEx.pssm; cbn [map]; repeat (constructor; [reflexivity|]); constructor|].
  split; [unfold FExW.text, LMEncode.EncodeProofs.in_abc; repeat (constructor; [cbn; auto 10|]); constructor|].
  vm_compute. repeat split; reflexivity.
Qed.
