(* END-TO-END composition of the STATISTICS side: C09 (count -> frequency -> weight -> score
   conversions, coq/pwm), C11 (MEME-style ScoreDistribution, coq/dist), C12 / C13 (TFM-PVALUE,
   coq/tfm), C10 (reverse complement), on top of C01's definition of the score.  Only theorem
   statements (closed by lemmas of E2EStat*.v), statement pins and non-vacuity examples.

   Exact arithmetic throughout: counts, pseudocounts, frequencies, weights and backgrounds are
   rationals (Qc); scores are rationals or -inf; the base-2 logarithm is an abstract function
   [flog2 : xq -> xq] of which only  log2(0) = -inf  and  "log2(x) is finite for x > 0"  are used
   (the binary32 logarithms of libm are rationals, so they are an instance).

   THE EXACT TAIL.  Three groups define P(S >= t) of a random background-distributed word:
     coq/dist  tail_exact (recursion over rows; = tail_words, the literal K^M word sum)
     coq/tfm   Ptail / tailS (weighted sums over the K-1 symbol cells)
     here      tail_c01: the word sum with the score of a word computed by C01's score_def
   E2EStatBridge proves them equal; all brackets below are stated with tail_c01. *)
From Coq Require Import List Arith Bool Lia ZArith NArith QArith Qcanon Lqa Permutation.
From LMBase Require Import Res ListX.
From LMPwm Require Import GenComplement PwmModel PwmProofs PwmExact.
From LMPwm Require C09 C10.
From LMDist Require DistModel DistInst DistTail C11.
From LMTfm Require TfmNum TfmModel TfmSpec TfmProofs TfmLink C12 C13.
From LME2E Require Import E2EStatBridge E2EStatRevcomp E2EStatChain E2EStatProofs.
Import ListNotations.
Local Open Scope nat_scope.

(* ================= bridges ================= *)

(* the three exact tails are one number, for every matrix of M rows of K cells whose K-1 symbol
   cells are finite (wildcard cell free, -inf allowed) and every background of K weights whose
   wildcard weight is 0 *)
Theorem stat_bridge_tails :
  forall (K : nat) (sm : list (list (option Q))) (bg : list Q) (t : Q),
    1 <= K -> sym_finite K sm -> length bg = K -> (last bg 0 == 0)%Q ->
    (tail_c01 K sm bg t == DI.tail_exact (dmat sm) bg t)%Q /\
    (DI.tail_exact (dmat sm) bg t == TL.Ptail (trows sm) bg t)%Q.
Proof. exact tails_agree. Qed.

(* ... the first equality needs no hypothesis on the background or the cells (wildcard mass and
   -inf cells allowed: the setting of C11) *)
Theorem stat_bridge_tail_c01_dist :
  forall (K : nat) (sm : list (list (option Q))) (bg : list Q) (t : Q),
    Forall (fun row => length row = K) sm -> length bg = K ->
    (tail_c01 K sm bg t == DI.tail_exact (dmat sm) bg t)%Q.
Proof. exact tail_c01_dist. Qed.

(* the score of a word: C01's left fold = dist's word_S, -inf alike *)
Theorem stat_bridge_word_score :
  forall (K : nat) (sm : list (list (option Q))) (w : list nat),
    Forall (fun row => length row = K) sm -> length w = length sm -> Forall (fun a => a < K) w ->
    match DI.word_S (dmat sm) w with
    | Some s => exists s', score_c01 K sm w = Some s' /\ (s' == s)%Q
    | None => score_c01 K sm w = None
    end.
Proof. exact word_score_agree. Qed.

(* ================= (1) the motif pipeline ================= *)

(* the scoring matrix of  counts.to_freq(pseudo).to_weight(bg).to_scoring()  : cell (i,k) is
   log2 of the exact weight; FINITE for every symbol with positive pseudocount and positive
   background; -inf for every symbol whose background is 0 *)
Theorem stat_chain_cells :
  forall (flog2 flog10 fln : xq -> xq) (K : nat) (pseudo bg : list Qc) (counts : list (list N)) (i k : nat),
    flog2 (Some 0%Qc) = None -> (forall x : Qc, (0 < x)%Qc -> flog2 (Some x) <> None) ->
    length pseudo = K -> length bg = K -> Forall (fun r : list N => length r = K) counts ->
    i < length counts -> k < K -> Forall (fun p => (0 <= p)%Qc) pseudo ->
    nth k (nth i (chain flog2 flog10 fln pseudo bg counts) []) None =
      flog2 (Some (nth k (nth i (weights pseudo bg counts) []) 0%Qc)) /\
    ((0 < nth k pseudo 0)%Qc -> (0 < nth k bg 0)%Qc ->
     nth k (nth i (chain flog2 flog10 fln pseudo bg counts) []) None <> None) /\
    (nth k bg 0%Qc = 0%Qc -> nth k (nth i (chain flog2 flog10 fln pseudo bg counts) []) None = None).
Proof.
  intros f2 f10 fl K pseudo bg counts i k H0 Hpos Hp Hb Hc Hi Hk Hps.
  exact (chain_cells f2 f10 fl H0 Hpos K pseudo bg counts i k Hp Hb Hc Hi Hk Hps).
Qed.

(* THE PIPELINE.  For counts of M >= 2 rows of K >= 2 cells, pseudocounts that are positive on the
   K-1 symbols (e.g. Pseudocounts::from(c), c > 0), a background accepted by Background::new
   (entries in [0,1], sum 1) with positive symbol frequencies and wildcard frequency 0:
   (a) the matrix has finite symbol cells and a -inf wildcard column;
   (b) the hypotheses of C11 (non-negative weights of mass <= 1, build and stage_a succeed) and of
       C12 / C13 (matrix_ok) hold;
   (c) dist's, tfm's and C01's exact tails of it coincide;
   (d) the MEME-style p-value of any score s and the converged TFM-PVALUE p-value of the same score
       bracket the SAME exact tail T = P(S >= .), and differ by at most explicit tail differences. *)
Theorem stat_motif_pipeline :
  forall (flog2 flog10 fln : xq -> xq) (K : nat) (pseudo bg : list Qc) (counts : list (list N)),
    flog2 (Some 0%Qc) = None -> (forall x : Qc, (0 < x)%Qc -> flog2 (Some x) <> None) ->
    2 <= K -> length pseudo = K -> length bg = K -> Forall (fun r : list N => length r = K) counts ->
    Forall (fun p => (0 <= p)%Qc) pseudo -> (forall k, k < K - 1 -> (0 < nth k pseudo 0)%Qc) ->
    Forall (fun f => (Q2Qc 0 <= f)%Qc /\ (f <= Q2Qc 1)%Qc) bg -> Qcsum bg = Q2Qc 1 ->
    (forall k, k < K - 1 -> (0 < nth k bg 0)%Qc) -> nth (K - 1) bg 0%Qc = 0%Qc ->
    2 <= length counts -> (Z.of_nat (length counts) * 1000 < DMo.i32_max)%Z ->
    let S := sm flog2 flog10 fln pseudo bg counts in
    let B := bgQ bg in
    let T := tail_c01 K S B in
    let M := inject_Z (Z.of_nat (length counts)) in
    (* (a) *)
    (length S = length counts /\ Forall (fun r : list (option Q) => length r = K) S /\
     forall i, i < length counts ->
       (forall k, k < K - 1 -> nth k (nth i S []) None <> None) /\ nth (K - 1) (nth i S []) None = None) /\
    (* (b) *)
    (DT.bg_nonneg B /\ (DI.Qsum B <= 1)%Q /\ TP.matrix_ok K (trows S) B /\
     exists d offset scale, DMo.build DI.QOps (dmat S) B = Ok d /\ DMo.stage_a DI.QOps (dmat S) = Ok (offset, scale)) /\
    (* (c) *)
    (forall t, (T t == DI.tail_exact (dmat S) B t)%Q /\ (T t == TL.Ptail (trows S) B t)%Q) /\
    (* (d) *)
    (forall d offset scale s p,
       DMo.build DI.QOps (dmat S) B = Ok d -> DMo.stage_a DI.QOps (dmat S) = Ok (offset, scale) ->
       DMo.d_pvalue DI.QOps d s = Ok p ->
       let dd := ((M / 2 + 1) / scale)%Q in
       (T (s + dd) <= p)%Q /\ (p <= T (s - dd))%Q /\
       forall perm g steps it,
         Permutation perm (seq 0 (length counts)) -> (0 < g)%Q ->
         last (TM.pv_run LMTfm.TfmNum.NumQ steps (trows S) perm B s g) (Panic 0) = Ok it ->
         TM.io_conv it = true ->
         let gi := TM.io_gran it in
         (0 < gi)%Q /\ (gi <= g)%Q /\
         (T (s + (M + 1) * gi) <= TM.io_start it)%Q /\ (TM.io_start it <= T (s - (M + 2) * gi))%Q /\
         (p - TM.io_start it <= T (s - dd) - T (s + (M + 1) * gi))%Q /\
         (TM.io_start it - p <= T (s - (M + 2) * gi) - T (s + dd))%Q).
Proof.
  intros f2 f10 fl K pseudo bg counts H0 Hpos HK Hp Hb Hc Hps Hpp Hrange Hsum Hbpos Hwild HM Hlen S B T M.
  split; [|split; [|split]].
  - destruct (sm_shape f2 f10 fl H0 Hpos K pseudo bg counts HK Hp Hb Hc Hps Hpp Hrange Hsum Hbpos Hwild) as (H1 & H2).
    split; [exact H1|]. split; [exact H2|]. intros i Hi. split.
    + intros k Hk. exact (proj1 (sm_cells f2 f10 fl H0 Hpos K pseudo bg counts HK Hp Hb Hc Hps Hpp Hrange Hsum Hbpos Hwild i k Hi) Hk).
    + exact (proj2 (sm_cells f2 f10 fl H0 Hpos K pseudo bg counts HK Hp Hb Hc Hps Hpp Hrange Hsum Hbpos Hwild i 0 Hi)).
  - destruct (chain_bg_dist f2 f10 fl H0 Hpos K pseudo bg counts HK Hp Hb Hc Hps Hpp Hrange Hsum Hbpos Hwild) as (A1 & A2). split; [exact A1|]. split; [exact A2|]. split.
    + exact (chain_matrix_ok f2 f10 fl H0 Hpos K pseudo bg counts HK Hp Hb Hc Hps Hpp Hrange Hsum Hbpos Hwild).
    + apply (chain_build f2 f10 fl H0 Hpos K pseudo bg counts HK Hp Hb Hc Hps Hpp Hrange Hsum Hbpos Hwild). lia.
  - intros t.
    destruct (chain_tails f2 f10 fl H0 Hpos K pseudo bg counts HK Hp Hb Hc Hps Hpp Hrange Hsum Hbpos Hwild t) as (E1 & E2).
    split; [exact E1|exact (Qeq_trans _ _ _ E1 E2)].
  - intros d offset scale s p Hd Hs Hpv dd.
    destruct (chain_meme_brackets f2 f10 fl H0 Hpos K pseudo bg counts HK Hp Hb Hc Hps Hpp Hrange Hsum Hbpos Hwild
                d offset scale s p Hd Hs Hlen Hpv) as (A1 & A2).
    split; [exact A1|]. split; [exact A2|].
    intros perm g steps it Hperm Hg Hlast Hconv gi.
    destruct (chain_tfm_brackets f2 f10 fl H0 Hpos K pseudo bg counts HK Hp Hb Hc Hps Hpp Hrange Hsum Hbpos Hwild
                perm s g steps it HM Hperm Hg Hlast Hconv) as (B1 & B2 & _ & B3 & B4).
    destruct (chain_methods_agree f2 f10 fl H0 Hpos K pseudo bg counts HK Hp Hb Hc Hps Hpp Hrange Hsum Hbpos Hwild
                d offset scale perm s g steps it p Hd Hs Hlen Hpv HM Hperm Hg Hlast Hconv) as (C1 & C2).
    repeat split; assumption.
Qed.

(* the TFM-PVALUE threshold of the same matrix for a p-value in (0,1] (C13): every Iteration of
   approximate_score(p) returns t with T(t + d) <= p, and every attainable score u < t - d has
   T(u - d) >= p, d = (M+2) granularity -- with T the exact tail over C01's score_def *)
Theorem stat_motif_pipeline_score :
  forall (flog2 flog10 fln : xq -> xq) (K : nat) (pseudo bg : list Qc) (counts : list (list N)),
    flog2 (Some 0%Qc) = None -> (forall x : Qc, (0 < x)%Qc -> flog2 (Some x) <> None) ->
    2 <= K -> length pseudo = K -> length bg = K -> Forall (fun r : list N => length r = K) counts ->
    Forall (fun p => (0 <= p)%Qc) pseudo -> (forall k, k < K - 1 -> (0 < nth k pseudo 0)%Qc) ->
    Forall (fun f => (Q2Qc 0 <= f)%Qc /\ (f <= Q2Qc 1)%Qc) bg -> Qcsum bg = Q2Qc 1 ->
    (forall k, k < K - 1 -> (0 < nth k bg 0)%Qc) -> nth (K - 1) bg 0%Qc = 0%Qc ->
    2 <= length counts ->
    let S := sm flog2 flog10 fln pseudo bg counts in
    let B := bgQ bg in
    forall perm p steps win it,
      Permutation perm (seq 0 (length counts)) -> (0 < p)%Q -> (p <= 1)%Q ->
      TM.score_window0 LMTfm.TfmNum.NumQ (trows S) perm = Ok win ->
      In (Ok it) (TM.sc_run LMTfm.TfmNum.NumQ steps (trows S) perm B p (1 # 10) win) ->
      let M := inject_Z (Z.of_nat (length counts)) in
      let gi := TM.io_gran it in
      let t := TM.io_score it in
      let d := ((M + 2) * gi)%Q in
      (0 < gi)%Q /\ (gi <= 1 # 10)%Q /\
      (tail_c01 K S B (t + d) <= p)%Q /\
      (forall l, TS.attain l (TS.srows (TL.sym_cells (trows S)) B) -> (TS.Qsum l < t - d)%Q ->
                 (p <= tail_c01 K S B (TS.Qsum l - d))%Q).
Proof.
  intros f2 f10 fl K pseudo bg counts H0 Hpos HK Hp Hb Hc Hps Hpp Hrange Hsum Hbpos Hwild HM S B perm p steps win it
         Hperm Hp0 Hp1 Hwin Hin.
  exact (chain_tfm_score f2 f10 fl H0 Hpos K pseudo bg counts HK Hp Hb Hc Hps Hpp Hrange Hsum Hbpos Hwild
           perm p steps win it HM Hperm Hp0 Hp1 Hwin Hin).
Qed.

(* Pseudocounts::from(c) with c > 0 and counts from CountMatrix::from_sequences satisfy the
   hypotheses on pseudocounts / counts *)
Theorem stat_pipeline_inputs :
  (forall (K : nat) (c : Qc), (0 < c)%Qc ->
     length (pseudo_scalar Qcops K c) = K /\
     Forall (fun p => (0 <= p)%Qc) (pseudo_scalar Qcops K c) /\
     (forall k, k < K - 1 -> (0 < nth k (pseudo_scalar Qcops K c) 0)%Qc)) /\
  (forall (K L : nat) (seqs : list (list nat)),
     length (counts_spec_matrix K L seqs) = L /\
     Forall (fun r : list N => length r = K) (counts_spec_matrix K L seqs)).
Proof.
  split; [exact pseudo_scalar_ok|].
  intros K L seqs. unfold counts_spec_matrix. split; [now rewrite map_length, seq_length|].
  apply Forall_map. apply Forall_forall. intros i _. now rewrite map_length, seq_length.
Qed.

(* ================= (3) reverse complement ================= *)

(* the exact tail of the reverse-complemented matrix (C10's dna_rc) under the complemented
   background equals the tail of the original: rows commute (independent symbols), and the
   complement relabels the symbols of matrix and background alike *)
Theorem stat_revcomp :
  forall (sm : list (list (option Q))) (bg : list Q) (t : Q),
    length bg = 5 -> Forall (fun row => length row = 5) sm ->
    (tail_c01 5 (LMPwm.C10.dna_rc None sm) (rc5 0%Q bg) t == tail_c01 5 sm bg t)%Q /\
    (DI.tail_exact (dmat (LMPwm.C10.dna_rc None sm)) (rc5 0%Q bg) t == DI.tail_exact (dmat sm) bg t)%Q.
Proof.
  intros sm bg t Hb Hm. split; [exact (tail_c01_revcomp sm bg t Hb Hm)|exact (tail_revcomp sm bg t Hb Hm)].
Qed.

(* hence, under a strand-symmetric background (complement-invariant), the MEME-style p-values of
   the reverse complement bracket the exact tail of the ORIGINAL matrix *)
Theorem stat_revcomp_pvalues :
  forall (sm : list (list (option Q))) (bg : list Q) d offset scale s p,
    length bg = 5 -> Forall (fun row => length row = 5) sm -> rc5 0%Q bg = bg ->
    DT.bg_nonneg bg -> (DI.Qsum bg <= 1)%Q ->
    DMo.build DI.QOps (dmat (LMPwm.C10.dna_rc None sm)) bg = Ok d ->
    DMo.stage_a DI.QOps (dmat (LMPwm.C10.dna_rc None sm)) = Ok (offset, scale) ->
    (Z.of_nat (length sm) * 1000 < DMo.i32_max)%Z ->
    DMo.d_pvalue DI.QOps d s = Ok p ->
    let dd := ((inject_Z (Z.of_nat (length sm)) / 2 + 1) / scale)%Q in
    (tail_c01 5 sm bg (s + dd) <= p)%Q /\ (p <= tail_c01 5 sm bg (s - dd))%Q.
Proof.
  intros sm bg d offset scale s p Hb Hm Hsym Hnn Hle Hd Hs Hlen Hp dd.
  destruct (rc_rows5 sm) as (Hr & Hl).
  assert (Hl' : length (dmat (LMPwm.C10.dna_rc None sm)) = length sm) by (unfold dmat; now rewrite map_length).
  pose proof (LMDist.C11.C11_pvalue_brackets_exact _ bg d offset scale s p Hnn Hle Hd Hs
                ltac:(rewrite Hl'; exact Hlen) Hp) as H.
  cbv zeta in H. rewrite Hl' in H. fold dd in H.
  rewrite <- !(tail_c01_revcomp sm bg _ Hb Hm), Hsym.
  rewrite !(tail_c01_dist 5 _ bg _ Hr Hb). exact H.
Qed.

(* ================= statement pins ================= *)

Check (fun K sm bg t => eq_refl :
  tail_c01 K sm bg t =
  DI.Qsum (map (fun w => match score_c01 K sm w with
                         | Some s => if Qle_bool t s then DI.word_weight bg w else 0%Q
                         | None => 0%Q
                         end) (DI.all_words K (length sm)))).
Check (fun K sm w => eq_refl : score_c01 K sm w = SCO.score_def oadd (Some 0%Q) (K - 1) sm w 0).
