(* END-TO-END composition of the STATISTICS side: C09 (count -> frequency -> weight -> score
   conversions, coq/pwm), C11 (MEME-style ScoreDistribution, coq/dist), C12 / C13 (TFM-PVALUE,
   coq/tfm), C10 (reverse complement), on top of C01's definition of the score.  Only theorem
   statements (closed by lemmas of E2EStat*.v), statement pins and non-vacuity examples.

   Exact arithmetic throughout: counts, pseudocounts, frequencies, weights and backgrounds are
   rationals (Qc); scores are rationals or -inf; the base-2 logarithm is an abstract function
   [flog2 : xq -> xq] of which only  log2(0) = -inf  and  "log2(x) is finite for x > 0"  are used
   (the binary32 logarithms of libm are rationals, so they are an instance).

   THE EXACT TAIL.  Three groups define P(S >= t) of a random background-distributed word:
     coq/dist  tail_exact (recursion over rows; = tail_words, the literal K^M word sum)
     coq/tfm   Ptail / tailS (weighted sums over the K-1 symbol cells)
     here      tail_c01: the word sum with the score of a word computed by C01's score_def
   E2EStatBridge proves them equal; all brackets below are stated with tail_c01. *)
From Coq Require Import List Arith Bool Lia ZArith NArith QArith Qcanon Qabs Lqa Permutation.
From LMBase Require Import Res ListX.
From LMPwm Require Import GenComplement PwmModel PwmProofs PwmExact.
From LMPwm Require C09 C10.
From LMDist Require DistModel DistInst DistTail C11.
From LMTfm Require TfmNum TfmModel TfmSpec TfmProofs TfmLink C12 C13.
From LMBase Require Import IEEE.
From LMIo Require IoBase IoNom IoJaspar IoPrint.
From Coq.Strings Require Import Byte.
From LMScan Require Import ScanModel ScanConcrete.
From LMStripe Require NetModel.
From LME2E Require Import E2EBridgeEncode E2EPipeline E2EProofs.
From LME2E Require Import E2EStatBridge E2EStatRevcomp E2EStatChain E2EStatProofs E2EStatScan E2EStatFloat E2EStatFloatScan E2EStatIo.
Import ListNotations.
Local Open Scope nat_scope.

(* ================= bridges ================= *)

(* the three exact tails are one number, for every matrix of M rows of K cells whose K-1 symbol
   cells are finite (wildcard cell free, -inf allowed) and every background of K weights whose
   wildcard weight is 0 *)
Theorem stat_bridge_tails :
  forall (K : nat) (sm : list (list (option Q))) (bg : list Q) (t : Q),
    1 <= K -> sym_finite K sm -> length bg = K -> (last bg 0 == 0)%Q ->
    (tail_c01 K sm bg t == DI.tail_exact (dmat sm) bg t)%Q /\
    (DI.tail_exact (dmat sm) bg t == TL.Ptail (trows sm) bg t)%Q.
Proof. exact tails_agree. Qed.

(* ... the first equality needs no hypothesis on the background or the cells (wildcard mass and
   -inf cells allowed: the setting of C11) *)
Theorem stat_bridge_tail_c01_dist :
  forall (K : nat) (sm : list (list (option Q))) (bg : list Q) (t : Q),
    Forall (fun row => length row = K) sm -> length bg = K ->
    (tail_c01 K sm bg t == DI.tail_exact (dmat sm) bg t)%Q.
Proof. exact tail_c01_dist. Qed.

(* the score of a word: C01's left fold = dist's word_S, -inf alike *)
Theorem stat_bridge_word_score :
  forall (K : nat) (sm : list (list (option Q))) (w : list nat),
    Forall (fun row => length row = K) sm -> length w = length sm -> Forall (fun a => a < K) w ->
    match DI.word_S (dmat sm) w with
    | Some s => exists s', score_c01 K sm w = Some s' /\ (s' == s)%Q
    | None => score_c01 K sm w = None
    end.
Proof. exact word_score_agree. Qed.

(* ================= (1) the motif pipeline ================= *)

(* the scoring matrix of  counts.to_freq(pseudo).to_weight(bg).to_scoring()  : cell (i,k) is
   log2 of the exact weight; FINITE for every symbol with positive pseudocount and positive
   background; -inf for every symbol whose background is 0 *)
Theorem stat_chain_cells :
  forall (flog2 flog10 fln : xq -> xq) (K : nat) (pseudo bg : list Qc) (counts : list (list N)) (i k : nat),
    flog2 (Some 0%Qc) = None -> (forall x : Qc, (0 < x)%Qc -> flog2 (Some x) <> None) ->
    length pseudo = K -> length bg = K -> Forall (fun r : list N => length r = K) counts ->
    i < length counts -> k < K -> Forall (fun p => (0 <= p)%Qc) pseudo ->
    nth k (nth i (chain flog2 flog10 fln pseudo bg counts) []) None =
      flog2 (Some (nth k (nth i (weights pseudo bg counts) []) 0%Qc)) /\
    ((0 < nth k pseudo 0)%Qc -> (0 < nth k bg 0)%Qc ->
     nth k (nth i (chain flog2 flog10 fln pseudo bg counts) []) None <> None) /\
    (nth k bg 0%Qc = 0%Qc -> nth k (nth i (chain flog2 flog10 fln pseudo bg counts) []) None = None).
Proof.
  intros f2 f10 fl K pseudo bg counts i k H0 Hpos Hp Hb Hc Hi Hk Hps.
  exact (chain_cells f2 f10 fl H0 Hpos K pseudo bg counts i k Hp Hb Hc Hi Hk Hps).
Qed.

(* THE PIPELINE.  For counts of M >= 2 rows of K >= 2 cells, pseudocounts that are positive on the
   K-1 symbols (e.g. Pseudocounts::from(c), c > 0), a background accepted by Background::new
   (entries in [0,1], sum 1) with positive symbol frequencies and wildcard frequency 0:
   (a) the matrix has finite symbol cells and a -inf wildcard column;
   (b) the hypotheses of C11 (non-negative weights of mass <= 1, build and stage_a succeed) and of
       C12 / C13 (matrix_ok) hold;
   (c) dist's, tfm's and C01's exact tails of it coincide;
   (d) the MEME-style p-value of any score s and the converged TFM-PVALUE p-value of the same score
       bracket the SAME exact tail T = P(S >= .), and differ by at most explicit tail differences. *)
Theorem stat_motif_pipeline :
  forall (flog2 flog10 fln : xq -> xq) (K : nat) (pseudo bg : list Qc) (counts : list (list N)),
    flog2 (Some 0%Qc) = None -> (forall x : Qc, (0 < x)%Qc -> flog2 (Some x) <> None) ->
    2 <= K -> length pseudo = K -> length bg = K -> Forall (fun r : list N => length r = K) counts ->
    Forall (fun p => (0 <= p)%Qc) pseudo -> (forall k, k < K - 1 -> (0 < nth k pseudo 0)%Qc) ->
    Forall (fun f => (Q2Qc 0 <= f)%Qc /\ (f <= Q2Qc 1)%Qc) bg -> Qcsum bg = Q2Qc 1 ->
    (forall k, k < K - 1 -> (0 < nth k bg 0)%Qc) -> nth (K - 1) bg 0%Qc = 0%Qc ->
    2 <= length counts -> (Z.of_nat (length counts) * 1000 < DMo.i32_max)%Z ->
    let S := sm flog2 flog10 fln pseudo bg counts in
    let B := bgQ bg in
    let T := tail_c01 K S B in
    let M := inject_Z (Z.of_nat (length counts)) in
    (* (a) *)
    (length S = length counts /\ Forall (fun r : list (option Q) => length r = K) S /\
     forall i, i < length counts ->
       (forall k, k < K - 1 -> nth k (nth i S []) None <> None) /\ nth (K - 1) (nth i S []) None = None) /\
    (* (b) *)
    (DT.bg_nonneg B /\ (DI.Qsum B <= 1)%Q /\ TP.matrix_ok K (trows S) B /\
     exists d offset scale, DMo.build DI.QOps (dmat S) B = Ok d /\ DMo.stage_a DI.QOps (dmat S) = Ok (offset, scale)) /\
    (* (c) *)
    (forall t, (T t == DI.tail_exact (dmat S) B t)%Q /\ (T t == TL.Ptail (trows S) B t)%Q) /\
    (* (d) *)
    (forall d offset scale s p,
       DMo.build DI.QOps (dmat S) B = Ok d -> DMo.stage_a DI.QOps (dmat S) = Ok (offset, scale) ->
       DMo.d_pvalue DI.QOps d s = Ok p ->
       let dd := ((M / 2 + 1) / scale)%Q in
       (T (s + dd) <= p)%Q /\ (p <= T (s - dd))%Q /\
       forall perm g steps it,
         Permutation perm (seq 0 (length counts)) -> (0 < g)%Q ->
         last (TM.pv_run LMTfm.TfmNum.NumQ steps (trows S) perm B s g) (Panic 0) = Ok it ->
         TM.io_conv it = true ->
         let gi := TM.io_gran it in
         (0 < gi)%Q /\ (gi <= g)%Q /\
         (T (s + (M + 1) * gi) <= TM.io_start it)%Q /\ (TM.io_start it <= T (s - (M + 2) * gi))%Q /\
         (p - TM.io_start it <= T (s - dd) - T (s + (M + 1) * gi))%Q /\
         (TM.io_start it - p <= T (s - (M + 2) * gi) - T (s + dd))%Q).
Proof.
  intros f2 f10 fl K pseudo bg counts H0 Hpos HK Hp Hb Hc Hps Hpp Hrange Hsum Hbpos Hwild HM Hlen S B T M.
  split; [|split; [|split]].
  - destruct (sm_shape f2 f10 fl H0 Hpos K pseudo bg counts HK Hp Hb Hc Hps Hpp Hrange Hsum Hbpos Hwild) as (H1 & H2).
    split; [exact H1|]. split; [exact H2|]. intros i Hi. split.
    + intros k Hk. exact (proj1 (sm_cells f2 f10 fl H0 Hpos K pseudo bg counts HK Hp Hb Hc Hps Hpp Hrange Hsum Hbpos Hwild i k Hi) Hk).
    + exact (proj2 (sm_cells f2 f10 fl H0 Hpos K pseudo bg counts HK Hp Hb Hc Hps Hpp Hrange Hsum Hbpos Hwild i 0 Hi)).
  - destruct (chain_bg_dist f2 f10 fl H0 Hpos K pseudo bg counts HK Hp Hb Hc Hps Hpp Hrange Hsum Hbpos Hwild) as (A1 & A2). split; [exact A1|]. split; [exact A2|]. split.
    + exact (chain_matrix_ok f2 f10 fl H0 Hpos K pseudo bg counts HK Hp Hb Hc Hps Hpp Hrange Hsum Hbpos Hwild).
    + apply (chain_build f2 f10 fl H0 Hpos K pseudo bg counts HK Hp Hb Hc Hps Hpp Hrange Hsum Hbpos Hwild). lia.
  - intros t.
    destruct (chain_tails f2 f10 fl H0 Hpos K pseudo bg counts HK Hp Hb Hc Hps Hpp Hrange Hsum Hbpos Hwild t) as (E1 & E2).
    split; [exact E1|exact (Qeq_trans _ _ _ E1 E2)].
  - intros d offset scale s p Hd Hs Hpv dd.
    destruct (chain_meme_brackets f2 f10 fl H0 Hpos K pseudo bg counts HK Hp Hb Hc Hps Hpp Hrange Hsum Hbpos Hwild
                d offset scale s p Hd Hs Hlen Hpv) as (A1 & A2).
    split; [exact A1|]. split; [exact A2|].
    intros perm g steps it Hperm Hg Hlast Hconv gi.
    destruct (chain_tfm_brackets f2 f10 fl H0 Hpos K pseudo bg counts HK Hp Hb Hc Hps Hpp Hrange Hsum Hbpos Hwild
                perm s g steps it HM Hperm Hg Hlast Hconv) as (B1 & B2 & _ & B3 & B4).
    destruct (chain_methods_agree f2 f10 fl H0 Hpos K pseudo bg counts HK Hp Hb Hc Hps Hpp Hrange Hsum Hbpos Hwild
                d offset scale perm s g steps it p Hd Hs Hlen Hpv HM Hperm Hg Hlast Hconv) as (C1 & C2).
    repeat split; assumption.
Qed.

(* the TFM-PVALUE threshold of the same matrix for a p-value in (0,1] (C13): every Iteration of
   approximate_score(p) returns t with T(t + d) <= p, and every attainable score u < t - d has
   T(u - d) >= p, d = (M+2) granularity -- with T the exact tail over C01's score_def *)
Theorem stat_motif_pipeline_score :
  forall (flog2 flog10 fln : xq -> xq) (K : nat) (pseudo bg : list Qc) (counts : list (list N)),
    flog2 (Some 0%Qc) = None -> (forall x : Qc, (0 < x)%Qc -> flog2 (Some x) <> None) ->
    2 <= K -> length pseudo = K -> length bg = K -> Forall (fun r : list N => length r = K) counts ->
    Forall (fun p => (0 <= p)%Qc) pseudo -> (forall k, k < K - 1 -> (0 < nth k pseudo 0)%Qc) ->
    Forall (fun f => (Q2Qc 0 <= f)%Qc /\ (f <= Q2Qc 1)%Qc) bg -> Qcsum bg = Q2Qc 1 ->
    (forall k, k < K - 1 -> (0 < nth k bg 0)%Qc) -> nth (K - 1) bg 0%Qc = 0%Qc ->
    2 <= length counts ->
    let S := sm flog2 flog10 fln pseudo bg counts in
    let B := bgQ bg in
    forall perm p steps win it,
      Permutation perm (seq 0 (length counts)) -> (0 < p)%Q -> (p <= 1)%Q ->
      TM.score_window0 LMTfm.TfmNum.NumQ (trows S) perm = Ok win ->
      In (Ok it) (TM.sc_run LMTfm.TfmNum.NumQ steps (trows S) perm B p (1 # 10) win) ->
      let M := inject_Z (Z.of_nat (length counts)) in
      let gi := TM.io_gran it in
      let t := TM.io_score it in
      let d := ((M + 2) * gi)%Q in
      (0 < gi)%Q /\ (gi <= 1 # 10)%Q /\
      (tail_c01 K S B (t + d) <= p)%Q /\
      (forall l, TS.attain l (TS.srows (TL.sym_cells (trows S)) B) -> (TS.Qsum l < t - d)%Q ->
                 (p <= tail_c01 K S B (TS.Qsum l - d))%Q).
Proof.
  intros f2 f10 fl K pseudo bg counts H0 Hpos HK Hp Hb Hc Hps Hpp Hrange Hsum Hbpos Hwild HM S B perm p steps win it
         Hperm Hp0 Hp1 Hwin Hin.
  exact (chain_tfm_score f2 f10 fl H0 Hpos K pseudo bg counts HK Hp Hb Hc Hps Hpp Hrange Hsum Hbpos Hwild
           perm p steps win it HM Hperm Hp0 Hp1 Hwin Hin).
Qed.

(* Pseudocounts::from(c) with c > 0 and counts from CountMatrix::from_sequences satisfy the
   hypotheses on pseudocounts / counts *)
Theorem stat_pipeline_inputs :
  (forall (K : nat) (c : Qc), (0 < c)%Qc ->
     length (pseudo_scalar Qcops K c) = K /\
     Forall (fun p => (0 <= p)%Qc) (pseudo_scalar Qcops K c) /\
     (forall k, k < K - 1 -> (0 < nth k (pseudo_scalar Qcops K c) 0)%Qc)) /\
  (forall (K L : nat) (seqs : list (list nat)),
     length (counts_spec_matrix K L seqs) = L /\
     Forall (fun r : list N => length r = K) (counts_spec_matrix K L seqs)).
Proof.
  split; [exact pseudo_scalar_ok|].
  intros K L seqs. unfold counts_spec_matrix. split; [now rewrite map_length, seq_length|].
  apply Forall_map. apply Forall_forall. intros i _. now rewrite map_length, seq_length.
Qed.

(* ================= (2) scanning with a threshold derived from a p-value ================= *)

(* Setting of both theorems: an exact scoring matrix [sm] (finite symbol cells), background [bg]
   without wildcard mass, T = exact tail over C01's score_def; a text [sq] without wildcard; the
   binary32 scanner's hit list H as E2E.e2e_text_to_hits characterises it ((i, x) in H  <->  position
   i valid, its binary32 score sd32 i >= thr, x = sd32 i).  PARTIAL: the link between binary32 and
   exact arithmetic is taken as two hypotheses,
     L1  sd32 i >= thr in binary32  <->  tq <= val (sd32 i)      (order embedding; true for finite floats
                                                                   with val = the float's rational value)
     L2  | val (sd32 i) - exact score of the window at i | <= eps  (summation error; C01_fsum_error_bound
                                                                   gives it over the reals)
   what is missing is their transport from Flocq's reals to Q.  [window M i sq] = the M symbols at i. *)

(* MEME threshold t = ScoreDistribution::score(p), 0 < p < 1 (C11 round trip + brackets): every
   accepted position has an exact score s >= t - eps and exact tail T(s + eps + dd) <= p, i.e. its
   tail probability exceeds p by at most the mass of the scores in [s, s + eps + dd).  Every
   rejected position scores below t + eps.  Also PARTIAL because coq/dist does not prove that
   score(p) is the LEAST such threshold: nothing is said about how small the tail of a rejected
   position can be. *)
Theorem stat_threshold_scan_meme_partial :
  forall (K : nat) (sm : list (list (option Q))) (bg : list Q) d offset scale p tq
         (sq : list nat) (sd32 : nat -> F32.t) (thr : F32.t) (H : list (nat * F32.t)) (val : F32.t -> Q) (eps : Q),
    2 <= K -> sym_finite K sm -> length bg = K -> (last bg 0 == 0)%Q ->
    DT.bg_nonneg bg -> (DI.Qsum bg <= 1)%Q ->
    DMo.build DI.QOps (dmat sm) bg = Ok d -> DMo.stage_a DI.QOps (dmat sm) = Ok (offset, scale) ->
    (Z.of_nat (length sm) * 1000 < DMo.i32_max)%Z ->
    (0 < p)%Q -> (p < 1)%Q -> DMo.d_score DI.QOps d p = Ok tq ->
    (forall i x, In (i, x) H <-> i + length sm <= length sq /\ F32.ge (sd32 i) thr = true /\ x = sd32 i) ->
    Forall (fun a => a < K - 1) sq ->
    (forall i, i + length sm <= length sq -> (F32.ge (sd32 i) thr = true <-> (tq <= val (sd32 i))%Q)) ->
    (forall i s, i + length sm <= length sq -> score_c01 K sm (window (length sm) i sq) = Some s ->
                 (Qabs.Qabs (val (sd32 i) - s) <= eps)%Q) ->
    let dd := ((inject_Z (Z.of_nat (length sm)) / 2 + 1) / scale)%Q in
    (forall i x, In (i, x) H ->
       exists s, score_c01 K sm (window (length sm) i sq) = Some s /\ (tq - eps <= s)%Q /\
                 (tail_c01 K sm bg (s + eps + dd) <= p)%Q) /\
    (forall i, i + length sm <= length sq -> (forall x, ~ In (i, x) H) ->
       exists s, score_c01 K sm (window (length sm) i sq) = Some s /\ (s < tq + eps)%Q).
Proof.
  intros K sm bg d offset scale p tq sq sd32 thr H val eps HK Hsm Hbg Hlast Hnn Hle Hd Hs Hlen Hp0 Hp1 Ht
         Hhits Hsyms L1 L2 dd.
  assert (Hrows : Forall (fun row : list (option Q) => length row = K) sm)
    by (eapply Forall_impl; [|exact Hsm]; intros r (E & _); exact E).
  assert (Hnn' : forall b, In b bg -> (0 <= b)%Q) by (intros b Hb; unfold DT.bg_nonneg in Hnn; rewrite Forall_forall in Hnn; auto).
  pose proof (meme_threshold K sm bg d offset scale p tq Hrows Hbg Hnn Hle Hd Hs Hlen Hp0 Hp1 Ht) as Hthr.
  split.
  - exact (hits_tail K sm bg HK Hsm Hbg Hlast Hnn' sq sd32 thr H Hhits Hsyms val tq eps L1 L2 p dd Hthr).
  - exact (rejected_below K sm bg HK Hsm Hbg sq sd32 thr H Hhits Hsyms val tq eps L1 L2).
Qed.

(* TFM-PVALUE threshold t = the score of an Iteration of approximate_score(p), d = (M+2) granularity
   (C13, both clauses): accepted positions have T(s + eps + d) <= p; every rejected position scores
   below t + eps, and if it is rejected by more than the margin (s < t - d) its exact tail at slack
   d is at least p: no position whose tail T(s - d) is below p lies more than d under the threshold. *)
Theorem stat_threshold_scan_tfm_partial :
  forall (K : nat) (sm : list (list (option Q))) (bg : list Q) perm p steps win it
         (sq : list nat) (sd32 : nat -> F32.t) (thr : F32.t) (H : list (nat * F32.t)) (val : F32.t -> Q) (eps : Q),
    sym_finite K sm -> TP.matrix_ok K (trows sm) bg ->
    2 <= length sm -> Permutation perm (seq 0 (length sm)) -> (0 < p)%Q -> (p <= 1)%Q ->
    TM.score_window0 LMTfm.TfmNum.NumQ (trows sm) perm = Ok win ->
    In (Ok it) (TM.sc_run LMTfm.TfmNum.NumQ steps (trows sm) perm bg p (1 # 10) win) ->
    let tq := TM.io_score it in
    let d := ((inject_Z (Z.of_nat (length sm)) + 2) * TM.io_gran it)%Q in
    (forall i x, In (i, x) H <-> i + length sm <= length sq /\ F32.ge (sd32 i) thr = true /\ x = sd32 i) ->
    Forall (fun a => a < K - 1) sq ->
    (forall i, i + length sm <= length sq -> (F32.ge (sd32 i) thr = true <-> (tq <= val (sd32 i))%Q)) ->
    (forall i s, i + length sm <= length sq -> score_c01 K sm (window (length sm) i sq) = Some s ->
                 (Qabs.Qabs (val (sd32 i) - s) <= eps)%Q) ->
    (forall i x, In (i, x) H ->
       exists s, score_c01 K sm (window (length sm) i sq) = Some s /\ (tq - eps <= s)%Q /\
                 (tail_c01 K sm bg (s + eps + d) <= p)%Q) /\
    (forall i, i + length sm <= length sq -> (forall x, ~ In (i, x) H) ->
       exists s, score_c01 K sm (window (length sm) i sq) = Some s /\ (s < tq + eps)%Q /\
                 ((s < tq - d)%Q -> (p <= tail_c01 K sm bg (s - d))%Q)).
Proof.
  intros K sm bg perm p steps win it sq sd32 thr H val eps Hsm Hok HM Hperm Hp0 Hp1 Hwin Hin tq d Hhits Hsyms L1 L2.
  destruct (tfm_threshold K sm bg perm p steps win it Hsm Hok HM Hperm Hp0 Hp1 Hwin Hin) as (Hc1 & Hc2).
  fold tq d in Hc1, Hc2.
  destruct Hok as (HK & _ & Hbg & Hnn & _ & Hlast).
  exact (tfm_threshold_scan K sm bg HK Hsm Hbg Hlast Hnn sq sd32 thr H Hhits Hsyms val tq eps L1 L2 p d Hc1 Hc2).
Qed.

(* ---------- the same with the link DISCHARGED and the hit list taken from the scanning pipeline ----------

   The binary32 scoring matrix [pssm] (what ScoringMatrix holds) is read as a matrix of rationals / -inf
   by pwm's f32_to_Q ([qmat]); the statistics (MEME-style table, TFM-PVALUE) are those of that rational
   matrix in exact arithmetic (C11 / C13); the scanner is the whole pipeline of E2E.v
   (text -> encode -> stripe -> configure -> Scanner::new -> next()*, any backend / arm / block size) on a
   text WITHOUT the wildcard letter.  The threshold handed to the scanner is any finite binary32 number
   within [eta] of the exact threshold tq (eta = 0 when tq is representable; otherwise the rounding of
   `score(p) as f32`).  L1 is E2EStatFloat.ge_valQ (Flocq's Bcompare_correct), L2 is E2EStatFloat.fscore_error
   (C01_fsum_error_bound transported to Q) with the explicit
       eps_f32 K pssm = M * 2^-23 * sum over rows of max |symbol cell|
   under the executable "no intermediate overflow" condition [no_overflow] (M <= 2^23, that sum <= 2^126).
   Numeric hypothesis of the scanner: the executable conditioning predicate e2e_wc (C08).

   MEME (t = ScoreDistribution::score(p), 0 < p < 1): no panic; every hit is a valid position whose EXACT
   score s is >= t - eps and whose exact tail satisfies T(s + eps + dd) <= p; every valid position that is
   not a hit has exact score < t + eps   (eps = eps_f32 + eta, dd = (M/2 + 1) / scale). *)
Theorem stat_threshold_scan_meme :
  forall (A : EM.abc) (C : nat) (p : EI.pipeline) (junk : nat -> EM.sym) (text : list byte)
         (be : SA.backend) (old : SM.sseq) (pssm : list (list F32.t)) (am : arm) (thr : F32.t) (B : nat)
         (bg : list Q) d offset scale (pv tq eta : Q),
    A = GA.dna \/ A = GA.protein ->
    1 <= C -> SA.backend_typed C be = true -> SS.wf_matrix C (SM.mat old) ->
    Forall (no_wild A) text ->
    1 <= length pssm -> Forall (fun row : list F32.t => length row = EM.a_K A) pssm ->
    e2e_wc (EM.a_K A) pssm = true -> no_overflow (EM.a_K A) pssm = true -> 1 <= B ->
    F32.is_finite thr = true -> (Qabs (valQ thr - tq) <= eta)%Q ->
    length bg = EM.a_K A -> (last bg 0 == 0)%Q -> DT.bg_nonneg bg -> (DI.Qsum bg <= 1)%Q ->
    DMo.build DI.QOps (dmat (qmat pssm)) bg = Ok d -> DMo.stage_a DI.QOps (dmat (qmat pssm)) = Ok (offset, scale) ->
    (Z.of_nat (length pssm) * 1000 < DMo.i32_max)%Z ->
    (0 < pv)%Q -> (pv < 1)%Q -> DMo.d_score DI.QOps d pv = Ok tq ->
    let K := EM.a_K A in
    let S := qmat pssm in
    let M := length pssm in
    let eps := (eps_f32 K pssm + eta)%Q in
    let dd := ((inject_Z (Z.of_nat M) / 2 + 1) / scale)%Q in
    exists (sq : list nat) (H : list (nat * F32.t)),
      encode_nat p A junk text = Ok sq /\ length sq = length text /\
      e2e_scan A C p junk text be old pssm am thr B = Ok H /\ NoDup (map fst H) /\
      (forall i x, In (i, x) H ->
         i + M <= length sq /\
         exists s, score_c01 K S (window M i sq) = Some s /\ (tq - eps <= s)%Q /\
                   (tail_c01 K S bg (s + eps + dd) <= pv)%Q) /\
      (forall i, i + M <= length sq -> (forall x, ~ In (i, x) H) ->
         exists s, score_c01 K S (window M i sq) = Some s /\ (s < tq + eps)%Q).
Proof. exact text_threshold_meme. Qed.

(* TFM-PVALUE (t = score of an Iteration of approximate_score(p), 0 < p <= 1, d = (M+2) granularity): the
   same for the hits, and every non-hit scores below t + eps and, if it lies more than d under t, has
   exact tail T(s - d) >= p: hits and non-hits are separated by the exact tail probability p up to the
   explicit margins eps (binary32 summation) and d (granularity). *)
Theorem stat_threshold_scan_tfm :
  forall (A : EM.abc) (C : nat) (p : EI.pipeline) (junk : nat -> EM.sym) (text : list byte)
         (be : SA.backend) (old : SM.sseq) (pssm : list (list F32.t)) (am : arm) (thr : F32.t) (B : nat)
         (bg : list Q) perm (pv : Q) steps win it (eta : Q),
    A = GA.dna \/ A = GA.protein ->
    1 <= C -> SA.backend_typed C be = true -> SS.wf_matrix C (SM.mat old) ->
    Forall (no_wild A) text ->
    2 <= length pssm -> Forall (fun row : list F32.t => length row = EM.a_K A) pssm ->
    e2e_wc (EM.a_K A) pssm = true -> no_overflow (EM.a_K A) pssm = true -> 1 <= B ->
    TP.matrix_ok (EM.a_K A) (trows (qmat pssm)) bg ->
    Permutation perm (seq 0 (length pssm)) -> (0 < pv)%Q -> (pv <= 1)%Q ->
    TM.score_window0 LMTfm.TfmNum.NumQ (trows (qmat pssm)) perm = Ok win ->
    In (Ok it) (TM.sc_run LMTfm.TfmNum.NumQ steps (trows (qmat pssm)) perm bg pv (1 # 10) win) ->
    F32.is_finite thr = true -> (Qabs (valQ thr - TM.io_score it) <= eta)%Q ->
    let K := EM.a_K A in
    let S := qmat pssm in
    let M := length pssm in
    let tq := TM.io_score it in
    let eps := (eps_f32 K pssm + eta)%Q in
    let d := ((inject_Z (Z.of_nat M) + 2) * TM.io_gran it)%Q in
    exists (sq : list nat) (H : list (nat * F32.t)),
      encode_nat p A junk text = Ok sq /\ length sq = length text /\
      e2e_scan A C p junk text be old pssm am thr B = Ok H /\ NoDup (map fst H) /\
      (forall i x, In (i, x) H ->
         i + M <= length sq /\
         exists s, score_c01 K S (window M i sq) = Some s /\ (tq - eps <= s)%Q /\
                   (tail_c01 K S bg (s + eps + d) <= pv)%Q) /\
      (forall i, i + M <= length sq -> (forall x, ~ In (i, x) H) ->
         exists s, score_c01 K S (window M i sq) = Some s /\ (s < tq + eps)%Q /\
                   ((s < tq - d)%Q -> (pv <= tail_c01 K S bg (s - d))%Q)).
Proof. exact text_threshold_tfm. Qed.

(* ================= (3) reverse complement ================= *)

(* the exact tail of the reverse-complemented matrix (C10's dna_rc) under the complemented
   background equals the tail of the original: rows commute (independent symbols), and the
   complement relabels the symbols of matrix and background alike *)
Theorem stat_revcomp :
  forall (sm : list (list (option Q))) (bg : list Q) (t : Q),
    length bg = 5 -> Forall (fun row => length row = 5) sm ->
    (tail_c01 5 (LMPwm.C10.dna_rc None sm) (rc5 0%Q bg) t == tail_c01 5 sm bg t)%Q /\
    (DI.tail_exact (dmat (LMPwm.C10.dna_rc None sm)) (rc5 0%Q bg) t == DI.tail_exact (dmat sm) bg t)%Q.
Proof.
  intros sm bg t Hb Hm. split; [exact (tail_c01_revcomp sm bg t Hb Hm)|exact (tail_revcomp sm bg t Hb Hm)].
Qed.

(* hence, under a strand-symmetric background (complement-invariant), the MEME-style p-values of
   the reverse complement bracket the exact tail of the ORIGINAL matrix *)
Theorem stat_revcomp_pvalues :
  forall (sm : list (list (option Q))) (bg : list Q) d offset scale s p,
    length bg = 5 -> Forall (fun row => length row = 5) sm -> rc5 0%Q bg = bg ->
    DT.bg_nonneg bg -> (DI.Qsum bg <= 1)%Q ->
    DMo.build DI.QOps (dmat (LMPwm.C10.dna_rc None sm)) bg = Ok d ->
    DMo.stage_a DI.QOps (dmat (LMPwm.C10.dna_rc None sm)) = Ok (offset, scale) ->
    (Z.of_nat (length sm) * 1000 < DMo.i32_max)%Z ->
    DMo.d_pvalue DI.QOps d s = Ok p ->
    let dd := ((inject_Z (Z.of_nat (length sm)) / 2 + 1) / scale)%Q in
    (tail_c01 5 sm bg (s + dd) <= p)%Q /\ (p <= tail_c01 5 sm bg (s - dd))%Q.
Proof.
  intros sm bg d offset scale s p Hb Hm Hsym Hnn Hle Hd Hs Hlen Hp dd.
  destruct (rc_rows5 sm) as (Hr & Hl).
  assert (Hl' : length (dmat (LMPwm.C10.dna_rc None sm)) = length sm) by (unfold dmat; now rewrite map_length).
  pose proof (LMDist.C11.C11_pvalue_brackets_exact _ bg d offset scale s p Hnn Hle Hd Hs
                ltac:(rewrite Hl'; exact Hlen) Hp) as H.
  cbv zeta in H. rewrite Hl' in H. fold dd in H.
  rewrite <- !(tail_c01_revcomp sm bg _ Hb Hm), Hsym.
  rewrite !(tail_c01_dist 5 _ bg _ Hr Hb). exact H.
Qed.

(* ================= (4) counts through a file ================= *)

(* A DNA count matrix (M >= 1 rows of 5 counts <= u32::MAX) printed as a JASPAR 2016 record with any
   admissible layout, identifier and description, preceded by any bytes without '>' and followed by
   white space, read through ANY chunking with ANY buffer capacities by the reader model of coq/io
   (C14's round-trip theorem): exactly one record, whose matrix IS the count matrix (io's rmatrix and
   pwm's cmatrix are the same type: no conversion), then End.  Hence every result of the pipeline
   (conversion chain, both p-value methods, thresholds) is the same for the file as for the counts. *)
Theorem stat_io_roundtrip :
  forall (y : LMIo.IoPrint.style) (id : list N) (desc : option (list N)) (counts : list (list N))
         (caps : nat -> nat) (prefix suffix : list N) (s : LMIo.IoBase.stream),
    LMIo.IoPrint.wf_style y = true -> LMIo.IoPrint.wf_id id = true -> LMIo.IoPrint.wf_desc desc = true ->
    counts_ok counts ->
    LMIo.IoPrint.wf_prefix prefix = true -> LMIo.IoPrint.wf_suffix suffix = true -> LMIo.IoBase.wf_stream s ->
    LMIo.IoBase.stream_bytes s =
      LMIo.IoPrint.print_file LMIo.IoPrint.print_jaspar16 prefix [(y, src_of id desc counts)] suffix ->
    exists r,
      LMIo.IoJaspar.jaspar16_read LMIo.IoJaspar.Dna caps s = [Ok (Some r); Ok None] /\
      LMIo.IoJaspar.rmatrix r = counts /\ LMIo.IoJaspar.rid r = id /\ LMIo.IoJaspar.rdesc r = desc /\
      count_new (LMIo.IoJaspar.rmatrix r) = count_new counts /\
      forall (flog2 flog10 fln : xq -> xq) (pseudo bg : list Qc),
        sm flog2 flog10 fln pseudo bg (LMIo.IoJaspar.rmatrix r) = sm flog2 flog10 fln pseudo bg counts.
Proof.
  intros y id desc counts caps prefix suffix s Hy Hid Hdesc Hok Hpre Hsuf Hs Hbytes.
  destruct (counts_roundtrip y id desc counts caps prefix suffix s Hy Hid Hdesc Hok Hpre Hsuf Hs Hbytes)
    as (r & Hr & Hm & Hi & Hd).
  exists r. split; [exact Hr|]. split; [exact Hm|]. split; [exact Hi|]. split; [exact Hd|].
  rewrite Hm. split; [reflexivity|]. intros. reflexivity.
Qed.

(* the decimal printer used for the counts is inverted by the readers' digit-string value *)
Theorem stat_dec_of_inverse :
  forall n : N, (n <= LMIo.IoNom.u32_max)%N ->
    LMIo.IoPrint.dec_value (dec_of n) = n /\ LMIo.IoPrint.wf_count (dec_of n) = true.
Proof. intros n Hn. split; [exact (dec_value_dec_of n Hn)|exact (wf_count_dec_of n Hn)]. Qed.

(* ================= statement pins ================= *)

Check (fun K sm bg t => eq_refl :
  tail_c01 K sm bg t =
  DI.Qsum (map (fun w => match score_c01 K sm w with
                         | Some s => if Qle_bool t s then DI.word_weight bg w else 0%Q
                         | None => 0%Q
                         end) (DI.all_words K (length sm)))).
Check (fun K sm w => eq_refl : score_c01 K sm w = SCO.score_def oadd (Some 0%Q) (K - 1) sm w 0).

(* ================= non-vacuity: a small concrete motif ================= *)

(* three count rows over DNA, Pseudocounts::from(1), the uniform background (wildcard 0); the
   logarithm is replaced by a rational surrogate with the two properties the theorems use
   (any function with log(0) = -inf and finite values on positive arguments will do) *)
Module StatEx.
  Definition lg (x : xq) : xq :=
    match x with Some q => if Qc_ltb 0 q then Some (q - 1)%Qc else None | None => None end.
  Definition counts : list (list N) := [[3; 1; 0; 0; 0]; [0; 2; 1; 1; 0]; [1; 1; 1; 1; 0]]%N.
  Definition pseudo : list Qc := pseudo_scalar Qcops 5 (Q2Qc 1).
  Definition bg : list Qc := map Q2Qc [1 # 4; 1 # 4; 1 # 4; 1 # 4; 0]%Q.
  Definition S : list (list (option Q)) := sm lg lg lg pseudo bg counts.
  Definition B : list Q := bgQ bg.
  Definition qr (x : option Q) : option Q := option_map Qred x.
End StatEx.

Example stat_example_log :
  StatEx.lg (Some 0%Qc) = None /\ (forall x : Qc, (0 < x)%Qc -> StatEx.lg (Some x) <> None).
Proof.
  split; [reflexivity|]. intros x Hx. unfold StatEx.lg. apply Qc_ltb_lt in Hx. rewrite Hx. discriminate.
Qed.

(* every hypothesis of stat_motif_pipeline / stat_motif_pipeline_score holds *)
Example stat_example_hypotheses :
  2 <= 5 /\ length StatEx.pseudo = 5 /\ length StatEx.bg = 5 /\
  Forall (fun r : list N => length r = 5) StatEx.counts /\
  Forall (fun p => (0 <= p)%Qc) StatEx.pseudo /\ (forall k, k < 5 - 1 -> (0 < nth k StatEx.pseudo 0)%Qc) /\
  Forall (fun f => (Q2Qc 0 <= f)%Qc /\ (f <= Q2Qc 1)%Qc) StatEx.bg /\ Qcsum StatEx.bg = Q2Qc 1 /\
  (forall k, k < 5 - 1 -> (0 < nth k StatEx.bg 0)%Qc) /\ nth (5 - 1) StatEx.bg 0%Qc = 0%Qc /\
  2 <= length StatEx.counts /\ (Z.of_nat (length StatEx.counts) * 1000 < DMo.i32_max)%Z.
Proof.
  assert (Hc : (0 < Q2Qc 1)%Qc) by reflexivity.
  destruct (pseudo_scalar_ok 5 (Q2Qc 1) Hc) as (P1 & P2 & P3).
  split; [lia|]. split; [exact P1|]. split; [reflexivity|]. split; [repeat constructor|].
  split; [exact P2|]. split; [exact P3|]. split.
  { unfold StatEx.bg. cbn [map]. repeat (constructor; [split; vm_compute; discriminate|]). constructor. }
  split; [apply Qc_is_canon; vm_compute; reflexivity|]. split.
  { intros k Hk. do 4 (destruct k as [|k]; [reflexivity|]). lia. }
  split; [reflexivity|]. split; [cbn; lia|reflexivity].
Qed.

(* hence its conclusion, instantiated *)
Example stat_example_pipeline :
  let T := tail_c01 5 StatEx.S StatEx.B in
  (forall t, (T t == DI.tail_exact (dmat StatEx.S) StatEx.B t)%Q /\ (T t == TL.Ptail (trows StatEx.S) StatEx.B t)%Q) /\
  TP.matrix_ok 5 (trows StatEx.S) StatEx.B /\
  exists d offset scale, DMo.build DI.QOps (dmat StatEx.S) StatEx.B = Ok d /\
                         DMo.stage_a DI.QOps (dmat StatEx.S) = Ok (offset, scale).
Proof.
  destruct stat_example_log as (L0 & Lp).
  destruct stat_example_hypotheses as (H1 & H2 & H3 & H4 & H5 & H6 & H7 & H8 & H9 & H10 & H11 & H12).
  destruct (stat_motif_pipeline StatEx.lg StatEx.lg StatEx.lg 5 StatEx.pseudo StatEx.bg StatEx.counts
              L0 Lp H1 H2 H3 H4 H5 H6 H7 H8 H9 H10 H11 H12) as (_ & (_ & _ & Hok & Hb) & Ht & _).
  cbv zeta. split; [exact Ht|]. split; [exact Hok|exact Hb].
Qed.

(* what the models compute there: the matrix (finite symbol cells, -inf wildcard column); the exact
   tail on a grid of scores; the MEME-style table (scale 500, offset -1, 3001 entries); at s = 1/2 both
   methods return exactly the exact tail 5/16 (TFM-PVALUE converges at granularity 1/10) *)
Example stat_example_values :
  map (map StatEx.qr) StatEx.S =
    [[Some 1; Some 0; Some (-1 # 2); Some (-1 # 2); None];
     [Some (-1 # 2); Some (1 # 2); Some 0; Some 0; None];
     [Some 0; Some 0; Some 0; Some 0; None]]%Q /\
  map (fun t => Qred (tail_c01 5 StatEx.S StatEx.B t)) [0; 1 # 4; 1 # 2; 3 # 4; 1; 3 # 2; 2]%Q
    = [9 # 16; 5 # 16; 5 # 16; 3 # 16; 3 # 16; 1 # 16; 0]%Q /\
  DMo.stage_a DI.QOps (dmat StatEx.S) = Ok ((-1)%Q, 500%Q) /\
  match DMo.build DI.QOps (dmat StatEx.S) StatEx.B with
  | Ok d => length (DMo.d_sf d) = 3001 /\
            match DMo.d_pvalue DI.QOps d (1 # 2) with Ok p => Qred p = (5 # 16)%Q | _ => False end
  | _ => False
  end /\
  map (fun r => match r with
                | Ok it => Some (Qred (TM.io_start it), Qred (TM.io_end it), TM.io_conv it, Qred (TM.io_gran it))
                | _ => None end)
      (TM.pv_run LMTfm.TfmNum.NumQ 4 (trows StatEx.S) [0; 1; 2] StatEx.B (1 # 2) (1 # 10))
    = [Some (5 # 16, 5 # 16, true, 1 # 10)%Q].
Proof. vm_compute. repeat split; reflexivity. Qed.

(* reverse complement on the example: the uniform background is strand-symmetric and the exact tails
   of the reverse-complemented matrix coincide on the grid (stat_revcomp says: everywhere) *)
Example stat_example_revcomp :
  rc5 0%Q StatEx.B = StatEx.B /\
  map (fun t => Qred (tail_c01 5 (LMPwm.C10.dna_rc None StatEx.S) (rc5 0%Q StatEx.B) t)) [0; 1 # 2; 1; 3 # 2]%Q
    = map (fun t => Qred (tail_c01 5 StatEx.S StatEx.B t)) [0; 1 # 2; 1; 3 # 2]%Q /\
  map (map StatEx.qr) (LMPwm.C10.dna_rc None StatEx.S) =
    [[Some 0; Some 0; Some 0; Some 0; None];
     [Some 0; Some 0; Some (-1 # 2); Some (1 # 2); None];
     [Some (-1 # 2); Some (-1 # 2); Some 1; Some 0; None]]%Q.
Proof. vm_compute. repeat split; reflexivity. Qed.

(* a threshold from a p-value on the example: ScoreDistribution::score(1/4) = 0.502 (one table step
   above 1/2), and T(t + dd) = 3/16 <= 1/4 as stat_threshold_scan_meme_partial uses it *)
Example stat_example_threshold :
  match DMo.build DI.QOps (dmat StatEx.S) StatEx.B with
  | Ok d => match DMo.d_score DI.QOps d (1 # 4) with
            | Ok t => Qred t = (251 # 500)%Q /\
                      Qred (tail_c01 5 StatEx.S StatEx.B (t + (inject_Z 3 / 2 + 1) / 500)) = (3 # 16)%Q
            | _ => False end
  | _ => False
  end.
Proof. vm_compute. split; reflexivity. Qed.

(* the example counts as a JASPAR 2016 file ("# x", then ">m1" and five symbol lines), split into
   chunks of uneven sizes and read with a 7-byte buffer: one record with the counts, then End *)
Module IoEx.
  Definition y : LMIo.IoPrint.style :=
    {| LMIo.IoPrint.y_crlf := false; LMIo.IoPrint.y_hsep := [32%N]; LMIo.IoPrint.y_lead := [32%N];
       LMIo.IoPrint.y_sep := [32%N; 9%N]; LMIo.IoPrint.y_sym := [32%N]; LMIo.IoPrint.y_tail := [32%N];
       LMIo.IoPrint.y_post := []; LMIo.IoPrint.y_gap := 0 |}.
  Definition id : list N := [109; 49]%N.
  Definition bytes : list N :=
    LMIo.IoPrint.print_file LMIo.IoPrint.print_jaspar16 [35; 32; 120; 10]%N [(y, src_of id None StatEx.counts)] [10%N].
  Definition chunks : LMIo.IoBase.stream := [firstn 5 bytes; firstn 17 (skipn 5 bytes); skipn 22 bytes].
End IoEx.

Example stat_example_io :
  counts_ok StatEx.counts /\ LMIo.IoPrint.wf_style IoEx.y = true /\ LMIo.IoPrint.wf_id IoEx.id = true /\
  LMIo.IoBase.stream_bytes IoEx.chunks = IoEx.bytes /\
  match LMIo.IoJaspar.jaspar16_read LMIo.IoJaspar.Dna (fun _ => 7) IoEx.chunks with
  | [Ok (Some r); Ok None] => LMIo.IoJaspar.rmatrix r = StatEx.counts /\ LMIo.IoJaspar.rid r = IoEx.id
  | _ => False
  end.
Proof.
  split.
  { split; [cbn; lia|]. unfold StatEx.counts.
    repeat (constructor; [split; [reflexivity|repeat (constructor; [vm_compute; discriminate|]); constructor]|]).
    constructor. }
  vm_compute. repeat split; reflexivity.
Qed.
